(* SetOps/KernelSafe.v — C09: the kernels of Kernels.v never read or write outside their buffers and
   terminate within their fuel, for ALL input lists (no sortedness, no range restriction on the
   elements).  Only hypothesis: the lengths fit the C `int` variables that hold them. *)
From Coq Require Import ZArith List Bool Lia.
From Catii Require Import SetOps.Kernels.
Import ListNotations.
Open Scope Z_scope.
Local Open Scope kres_scope.

(* ---- machine integers and buffers ---- *)
Lemma cint_id z : - 2 ^ 31 <= z < 2 ^ 31 -> cint z = z.
Proof.
  intros H. unfold cint. rewrite Z.mod_small by lia. lia.
Qed.

Lemma clen_id a : Z.of_nat (length a) < 2 ^ 31 -> clen a = Z.of_nat (length a).
Proof. intros H. unfold clen. apply cint_id. lia. Qed.

Lemma inc_id p : - 2 ^ 31 <= p + 1 < 2 ^ 31 -> inc p = p + 1.
Proof. intros H. unfold inc. apply cint_id. lia. Qed.

Lemma rd_ok a i : 0 <= i < Z.of_nat (length a) ->
  exists v, rd a i = KOk v /\ nth_error a (Z.to_nat i) = Some v.
Proof.
  intros H. unfold rd.
  replace ((0 <=? i) && (i <? Z.of_nat (length a))) with true
    by (symmetry; apply andb_true_iff; split; [apply Z.leb_le | apply Z.ltb_lt]; lia).
  destruct (nth_error a (Z.to_nat i)) eqn:E.
  - eauto.
  - apply nth_error_None in E. lia.
Qed.

Lemma rd_KOk_inv a i v : rd a i = KOk v ->
  0 <= i < Z.of_nat (length a) /\ nth_error a (Z.to_nat i) = Some v.
Proof.
  unfold rd. destruct ((0 <=? i) && (i <? Z.of_nat (length a))) eqn:E; [|discriminate].
  apply andb_true_iff in E. destruct E as [E1 E2]. apply Z.leb_le in E1. apply Z.ltb_lt in E2.
  destruct (nth_error a (Z.to_nat i)) eqn:N; [|discriminate].
  intros H. inversion H. subst. auto.
Qed.

Lemma wr_ok cap o v : Z.of_nat (length o) < cap -> cap <= 2 ^ 31 -> wr cap o v = KOk (v :: o).
Proof.
  intros H1 H2. unfold wr. rewrite cint_id by lia.
  replace ((0 <=? Z.of_nat (length o)) && (Z.of_nat (length o) <? cap)) with true; [reflexivity|].
  symmetry. apply andb_true_iff. split; [apply Z.leb_le | apply Z.ltb_lt]; lia.
Qed.

Lemma skipn_nth_error (a : list Z) : forall n v, nth_error a n = Some v -> skipn n a = v :: skipn (S n) a.
Proof.
  induction a as [|x a IH]; intros [|n] v H; cbn [nth_error] in H; try discriminate.
  - inversion H. reflexivity.
  - cbn [skipn]. rewrite (IH n v H). reflexivity.
Qed.

(* ---- `while 1:` loops ---- *)
Lemma run_total (body : st -> step) (I P : st -> Prop) (mu : st -> nat) :
  (forall s, I s -> match body s with
                    | Continue s' => I s' /\ (mu s' < mu s)%nat
                    | Break s' => P s'
                    | Fault => False
                    end) ->
  forall fuel s, I s -> (mu s < fuel)%nat -> exists s', run body fuel s = KOk s' /\ P s'.
Proof.
  intros HB. induction fuel as [|f IH]; intros s Hi Hm; [lia|].
  cbn [run]. pose proof (HB s Hi) as B.
  destruct (body s) as [s'|s'|]; [|eauto|contradiction].
  destruct B as [Hi' Hm']. apply IH; [exact Hi'|lia].
Qed.

(* tail copy: appends the rest of [a] *)
Lemma tail_copy_total cap a : cap <= 2 ^ 31 -> Z.of_nat (length a) < 2 ^ 31 ->
  forall fuel p o, 0 <= p <= Z.of_nat (length a) ->
  (Z.to_nat (Z.of_nat (length a) - p) < fuel)%nat ->
  Z.of_nat (length o) + (Z.of_nat (length a) - p) <= cap ->
  tail_copy fuel cap a (Z.of_nat (length a)) p o = KOk (rev (skipn (Z.to_nat p) a) ++ o).
Proof.
  intros Hc Ha. induction fuel as [|f IH]; intros p o Hp Hf Ho; [lia|].
  cbn [tail_copy]. destruct (p <? Z.of_nat (length a)) eqn:E.
  - apply Z.ltb_lt in E.
    destruct (rd_ok a p) as [v [-> Hn]]; [lia|]. cbn [kbind].
    rewrite wr_ok by lia. cbn [kbind].
    rewrite inc_id by lia.
    rewrite IH; [| lia | lia | cbn [length]; lia].
    rewrite (skipn_nth_error a _ v Hn).
    replace (Z.to_nat (p + 1)) with (S (Z.to_nat p)) by lia.
    cbn [rev]. rewrite <- app_assoc. reflexivity.
  - apply Z.ltb_ge in E. replace p with (Z.of_nat (length a)) by lia.
    rewrite Nat2Z.id, skipn_all. reflexivity.
Qed.

Section Binary.
  Variables L R : list Z.
  Let ll := Z.of_nat (length L).
  Let rl := Z.of_nat (length R).
  Hypothesis HL : ll < 2 ^ 31.
  Hypothesis HR : rl < 2 ^ 31.

  Definition mu (s : st) : nat := (Z.to_nat (ll - lp s) + Z.to_nat (rl - rp s))%nat.

  (* [need s] = how many more elements the rest of the kernel may still write *)
  Definition inv (cap : Z) (need : st -> Z) (s : st) : Prop :=
    0 <= lp s < ll /\ 0 <= rp s < rl /\ Z.of_nat (length (out s)) + need s <= cap.
  Definition post (cap : Z) (need : st -> Z) (s : st) : Prop :=
    0 <= lp s <= ll /\ 0 <= rp s <= rl /\ Z.of_nat (length (out s)) + need s <= cap.

  Definition need_i (s : st) : Z := Z.min (ll - lp s) (rl - rp s).
  Definition need_u (s : st) : Z := (ll - lp s) + (rl - rp s).
  Definition need_d (s : st) : Z := ll - lp s.

  Ltac rd_step A i :=
    let v := fresh "v" in let Hv := fresh "Hv" in
    destruct (rd_ok A i) as [v [Hv _]]; [unfold ll, rl in *; lia | rewrite Hv].

  Ltac fin := unfold inv, post, mu, need_i, need_u, need_d in *; cbn [lp rp lv rv out length] in *; lia.

  Lemma ibody_safe cap s : cap <= 2 ^ 31 -> inv cap need_i s ->
    match ibody cap L R ll rl s with
    | Continue s' => inv cap need_i s' /\ (mu s' < mu s)%nat
    | Break s' => post cap need_i s'
    | Fault => False
    end.
  Proof.
    intros Hc (Hl & Hr & Ho). unfold ibody. unfold need_i in Ho.
    rewrite (inc_id (lp s)) by lia. rewrite (inc_id (rp s)) by lia.
    destruct (lv s >? rv s) eqn:E1.
    { destruct (rp s + 1 >=? rl) eqn:E2; [fin|]. rd_step R (rp s + 1). fin. }
    destruct (rv s >? lv s) eqn:E3.
    { destruct (lp s + 1 >=? ll) eqn:E2; [fin|]. rd_step L (lp s + 1). fin. }
    rewrite wr_ok by lia.
    destruct (lp s + 1 >=? ll) eqn:E4; [fin|].
    destruct (rp s + 1 >=? rl) eqn:E5; [fin|].
    rd_step L (lp s + 1). rd_step R (rp s + 1). fin.
  Qed.

  Lemma ubody_safe cap s : cap <= 2 ^ 31 -> inv cap need_u s ->
    match ubody cap L R ll rl s with
    | Continue s' => inv cap need_u s' /\ (mu s' < mu s)%nat
    | Break s' => post cap need_u s'
    | Fault => False
    end.
  Proof.
    intros Hc (Hl & Hr & Ho). unfold ubody. unfold need_u in Ho.
    rewrite (inc_id (lp s)) by lia. rewrite (inc_id (rp s)) by lia.
    destruct (lv s >? rv s) eqn:E1.
    { rewrite wr_ok by lia.
      destruct (rp s + 1 >=? rl) eqn:E2; [fin|]. rd_step R (rp s + 1). fin. }
    destruct (rv s >? lv s) eqn:E3.
    { rewrite wr_ok by lia.
      destruct (lp s + 1 >=? ll) eqn:E2; [fin|]. rd_step L (lp s + 1). fin. }
    rewrite wr_ok by lia.
    destruct (lp s + 1 >=? ll) eqn:E4; [fin|].
    destruct (rp s + 1 >=? rl) eqn:E5; [fin|].
    rd_step L (lp s + 1). rd_step R (rp s + 1). fin.
  Qed.

  Lemma dbody_safe cap s : cap <= 2 ^ 31 -> inv cap need_d s ->
    match dbody cap L R ll rl s with
    | Continue s' => inv cap need_d s' /\ (mu s' < mu s)%nat
    | Break s' => post cap need_d s'
    | Fault => False
    end.
  Proof.
    intros Hc (Hl & Hr & Ho). unfold dbody. unfold need_d in Ho.
    rewrite (inc_id (lp s)) by lia. rewrite (inc_id (rp s)) by lia.
    destruct (lv s >? rv s) eqn:E1.
    { destruct (rp s + 1 >=? rl) eqn:E2; [fin|]. rd_step R (rp s + 1). fin. }
    destruct (rv s >? lv s) eqn:E3.
    { rewrite wr_ok by lia.
      destruct (lp s + 1 >=? ll) eqn:E2; [fin|]. rd_step L (lp s + 1). fin. }
    destruct (lp s + 1 >=? ll) eqn:E4; [fin|].
    destruct (rp s + 1 >=? rl) eqn:E5; [fin|].
    rd_step L (lp s + 1). rd_step R (rp s + 1). fin.
  Qed.

  (* common prologue: both operands non-empty, the four reads before the loop are in bounds *)
  Lemma prologue_reads : ll <> 0 -> rl <> 0 ->
    exists l0 r0 rlast llast,
      rd L 0 = KOk l0 /\ rd R 0 = KOk r0 /\ rd R (rl - 1) = KOk rlast /\ rd L (ll - 1) = KOk llast.
  Proof.
    intros H1 H2.
    destruct (rd_ok L 0) as [l0 [E1 _]]; [unfold ll in *; lia|].
    destruct (rd_ok R 0) as [r0 [E2 _]]; [unfold rl in *; lia|].
    destruct (rd_ok R (rl - 1)) as [x [E3 _]]; [unfold rl in *; lia|].
    destruct (rd_ok L (ll - 1)) as [y [E4 _]]; [unfold ll in *; lia|].
    eauto 10.
  Qed.

  (* the main loops terminate in bounds, and leave room for the tail copies *)
  Lemma irun_total l0 r0 : ll <> 0 -> rl <> 0 ->
    exists s', run (ibody (Z.min ll rl) L R ll rl) (loop_fuel L R) (st0 l0 r0) = KOk s' /\ post (Z.min ll rl) need_i s'.
  Proof.
    intros E1 E2. apply (run_total _ (inv (Z.min ll rl) need_i) (post (Z.min ll rl) need_i) mu).
    - intros s. apply ibody_safe. lia.
    - unfold inv, need_i, st0; cbn [lp rp out length]. unfold ll, rl in *. lia.
    - unfold mu, loop_fuel, st0; cbn [lp rp]. unfold ll, rl. lia.
  Qed.

  Lemma drun_total l0 r0 : ll <> 0 -> rl <> 0 ->
    exists s', run (dbody ll L R ll rl) (loop_fuel L R) (st0 l0 r0) = KOk s' /\ post ll need_d s'.
  Proof.
    intros E1 E2. apply (run_total _ (inv ll need_d) (post ll need_d) mu).
    - intros s. apply dbody_safe. lia.
    - unfold inv, need_d, st0; cbn [lp rp out length]. unfold ll, rl in *. lia.
    - unfold mu, loop_fuel, st0; cbn [lp rp]. unfold ll, rl. lia.
  Qed.

  Lemma urun_total l0 r0 : ll + rl < 2 ^ 31 -> ll <> 0 -> rl <> 0 ->
    exists s', run (ubody (ll + rl) L R ll rl) (loop_fuel L R) (st0 l0 r0) = KOk s' /\ post (ll + rl) need_u s'.
  Proof.
    intros HS E1 E2. apply (run_total _ (inv (ll + rl) need_u) (post (ll + rl) need_u) mu).
    - intros s. apply ubody_safe. lia.
    - unfold inv, need_u, st0; cbn [lp rp out length]. unfold ll, rl in *. lia.
    - unfold mu, loop_fuel, st0; cbn [lp rp]. unfold ll, rl. lia.
  Qed.

  Theorem intersect_total_sec : exists r, intersect_kernel L R = KOk r.
  Proof.
    unfold intersect_kernel. rewrite !clen_id by assumption. fold ll rl.
    destruct ((ll =? 0) || (rl =? 0)) eqn:E; [eauto|].
    apply orb_false_iff in E. destruct E as [E1 E2]. apply Z.eqb_neq in E1, E2.
    destruct (prologue_reads E1 E2) as (l0 & r0 & x & y & -> & -> & -> & ->). cbn [kbind].
    destruct (l0 >? x); [eauto|]. destruct (r0 >? y); [eauto|].
    destruct (irun_total l0 r0 E1 E2) as [s' [-> _]].
    cbn [kbind]. eauto.
  Qed.

  Theorem difference_total_sec : exists r, difference_kernel L R = KOk r.
  Proof.
    unfold difference_kernel. rewrite !clen_id by assumption. fold ll rl.
    destruct (ll =? 0) eqn:E1; [eauto|]. destruct (rl =? 0) eqn:E2; [eauto|].
    apply Z.eqb_neq in E1, E2.
    destruct (prologue_reads E1 E2) as (l0 & r0 & x & y & -> & -> & -> & ->). cbn [kbind].
    destruct (l0 >? x); [eauto|]. destruct (r0 >? y); [eauto|].
    destruct (drun_total l0 r0 E1 E2) as [s' [-> (P1 & P2 & P3)]].
    cbn [kbind]. unfold need_d in P3. unfold ll at 2.
    rewrite tail_copy_total; [cbn [kbind]; eauto | lia | exact HL | exact P1 | fold ll; lia | fold ll; lia].
  Qed.

  Theorem union_total_sec : ll + rl < 2 ^ 31 -> exists r, union_kernel L R = KOk r.
  Proof.
    intros HS.
    unfold union_kernel. rewrite !clen_id by assumption. fold ll rl.
    assert (Hll : 0 <= ll) by (unfold ll; lia). assert (Hrl : 0 <= rl) by (unfold rl; lia).
    rewrite cint_id by lia.
    destruct (ll =? 0) eqn:E1; [eauto|]. destruct (rl =? 0) eqn:E2; [eauto|].
    apply Z.eqb_neq in E1, E2.
    destruct (prologue_reads E1 E2) as (l0 & r0 & x & y & -> & -> & -> & ->). cbn [kbind].
    destruct (l0 >? x); [eauto|]. destruct (r0 >? y); [eauto|].
    destruct (urun_total l0 r0 HS E1 E2) as [s' [-> (P1 & P2 & P3)]].
    cbn [kbind]. unfold need_u in P3. unfold ll at 2.
    rewrite tail_copy_total; [| lia | exact HL | exact P1 | fold ll; lia | fold ll; lia].
    cbn [kbind]. unfold rl at 2.
    rewrite tail_copy_total; [cbn [kbind]; eauto | lia | exact HR | exact P2 | fold rl; lia |].
    rewrite app_length, rev_length, skipn_length. fold ll rl. lia.
  Qed.
End Binary.

Theorem intersect_total L R : Z.of_nat (length L) < 2 ^ 31 -> Z.of_nat (length R) < 2 ^ 31 ->
  exists r, intersect_kernel L R = KOk r.
Proof. intros. apply intersect_total_sec; assumption. Qed.

Theorem union_total L R : Z.of_nat (length L) + Z.of_nat (length R) < 2 ^ 31 ->
  exists r, union_kernel L R = KOk r.
Proof. intros. apply union_total_sec; lia. Qed.

Theorem difference_total L R : Z.of_nat (length L) < 2 ^ 31 -> Z.of_nat (length R) < 2 ^ 31 ->
  exists r, difference_kernel L R = KOk r.
Proof. intros. apply difference_total_sec; assumption. Qed.

(* ---- `for i in range(n)` ---- *)
Lemma for_range_inv {S : Type} (body : Z -> S -> kres S) (P : nat -> S -> Prop) :
  forall n i0 s, P i0 s ->
  (forall j s, (i0 <= j < i0 + n)%nat -> P j s -> exists s', body (Z.of_nat j) s = KOk s' /\ P (Datatypes.S j) s') ->
  exists s', for_range n (Z.of_nat i0) body s = KOk s' /\ P (i0 + n)%nat s'.
Proof.
  induction n as [|n IH]; intros i0 s H0 HB.
  - cbn [for_range]. exists s. rewrite Nat.add_0_r. auto.
  - cbn [for_range]. destruct (HB i0 s) as [s1 [E1 P1]]; [lia | exact H0 |].
    rewrite E1. cbn [kbind].
    replace (Z.of_nat i0 + 1) with (Z.of_nat (Datatypes.S i0)) by lia.
    destruct (IH (Datatypes.S i0) s1 P1) as [s' [E' P']].
    + intros j s2 Hj. apply HB. lia.
    + exists s'. split; [exact E'|]. replace (i0 + Datatypes.S n)%nat with (Datatypes.S i0 + n)%nat by lia. exact P'.
Qed.

(* ---- lists as long[:] buffers ---- *)
Lemma rd_nth a i : (i < length a)%nat -> rd a (Z.of_nat i) = KOk (nth i a 0).
Proof.
  intros H. destruct (rd_ok a (Z.of_nat i)) as [v [E N]]; [lia|]. rewrite E.
  rewrite Nat2Z.id in N. rewrite (nth_error_nth a i 0 N). reflexivity.
Qed.

Definition updn (a : list Z) (i : nat) (v : Z) : list Z := firstn i a ++ v :: skipn (Datatypes.S i) a.

Lemma upd_nat a i v : (i < length a)%nat -> upd a (Z.of_nat i) v = KOk (updn a i v).
Proof.
  intros H. unfold upd, updn.
  replace ((0 <=? Z.of_nat i) && (Z.of_nat i <? Z.of_nat (length a))) with true
    by (symmetry; apply andb_true_iff; split; [apply Z.leb_le | apply Z.ltb_lt]; lia).
  rewrite Nat2Z.id. reflexivity.
Qed.

Lemma updn_length a i v : (i < length a)%nat -> length (updn a i v) = length a.
Proof.
  intros H. unfold updn. rewrite app_length, firstn_length. cbn [length]. rewrite skipn_length. lia.
Qed.

Lemma updn_cons x a i v : updn (x :: a) (Datatypes.S i) v = x :: updn a i v.
Proof. reflexivity. Qed.

Lemma updn_nth_same a : forall i v, (i < length a)%nat -> nth i (updn a i v) 0 = v.
Proof.
  induction a as [|x a IH]; intros [|i] v H; cbn [length] in H; try lia.
  - reflexivity.
  - rewrite updn_cons. cbn [nth]. apply IH. lia.
Qed.

Lemma updn_nth_other a : forall i j v, (i < length a)%nat -> i <> j -> nth j (updn a i v) 0 = nth j a 0.
Proof.
  induction a as [|x a IH]; intros i j v Hi H; cbn [length] in Hi; [lia|].
  destruct i as [|i].
  - destruct j as [|j]; [congruence|]. reflexivity.
  - rewrite updn_cons. destruct j as [|j]; [reflexivity|]. cbn [nth]. apply IH; lia.
Qed.

Lemma Forall2_len {A B : Type} (Rl : A -> B -> Prop) (a : list A) (b : list B) :
  Forall2 Rl a b -> length a = length b.
Proof. induction 1; cbn [length]; congruence. Qed.

Lemma Forall2_nth {A B : Type} (Rl : A -> B -> Prop) (a : list A) (b : list B) da db :
  Forall2 Rl a b -> forall i, (i < length a)%nat -> Rl (nth i a da) (nth i b db).
Proof.
  induction 1 as [|x y a b Hxy HF IH]; intros i Hi; cbn [length] in Hi; [lia|].
  destruct i as [|i]; [exact Hxy|]. cbn [nth]. apply IH. lia.
Qed.

Lemma Forall2_updn {B : Type} (Rl : Z -> B -> Prop) (a : list Z) (b : list B) db :
  Forall2 Rl a b -> forall i v, (i < length a)%nat -> Rl v (nth i b db) -> Forall2 Rl (updn a i v) b.
Proof.
  induction 1 as [|x y a b Hxy HF IH]; intros i v Hi Hv; cbn [length] in Hi; [lia|].
  destruct i as [|i].
  - unfold updn. cbn [firstn skipn app]. constructor; assumption.
  - rewrite updn_cons. constructor; [exact Hxy|]. apply IH; [lia | exact Hv].
Qed.

(* remaining work of the k-way loop: sum of limit - pointer *)
Fixpoint rem (lims ps : list Z) : Z :=
  match lims, ps with
  | l :: lims', p :: ps' => (l - p) + rem lims' ps'
  | _, _ => 0
  end.

Definition ptr_ok (p l : Z) : Prop := 0 <= p <= l.

Lemma rem_nonneg lims ps : Forall2 ptr_ok ps lims -> 0 <= rem lims ps.
Proof.
  induction 1 as [|p l ps lims H HF IH]; cbn [rem]; [lia|]. unfold ptr_ok in H. lia.
Qed.

Lemma rem_updn lims : forall ps i, (i < length ps)%nat -> (i < length lims)%nat ->
  rem lims (updn ps i (nth i ps 0 + 1)) = rem lims ps - 1.
Proof.
  induction lims as [|l lims IH]; intros ps i Hp Hl; cbn [length] in Hl; [lia|].
  destruct ps as [|p ps]; cbn [length] in Hp; [lia|].
  destruct i as [|i].
  - unfold updn. cbn [firstn skipn app nth rem]. lia.
  - rewrite updn_cons. cbn [nth rem]. rewrite IH by lia. lia.
Qed.

(* ---- the k-way kernel ---- *)
Fixpoint sumZ (l : list Z) : Z := match l with [] => 0 | x :: t => x + sumZ t end.

Lemma concat_length_Z (vas : list (list Z)) :
  Z.of_nat (length (concat vas)) = sumZ (map (fun a => Z.of_nat (length a)) vas).
Proof.
  induction vas as [|a vas IH]; cbn [concat map sumZ length]; [reflexivity|].
  rewrite app_length. lia.
Qed.

Lemma cumsum_length xs : forall acc, length (cumsum acc xs) = length xs.
Proof. induction xs as [|x xs IH]; intros acc; cbn [cumsum length]; [reflexivity|]. rewrite IH. reflexivity. Qed.

Lemma cumsum_bound xs : Forall (fun x => 0 <= x) xs -> forall acc,
  Forall (fun l => l <= acc + sumZ xs) (cumsum acc xs).
Proof.
  induction 1 as [|x xs Hx HF IH]; intros acc; cbn [cumsum sumZ]; constructor.
  - assert (0 <= sumZ xs) by (clear - HF; induction HF; cbn [sumZ]; lia). lia.
  - specialize (IH (acc + x)). eapply Forall_impl; [|exact IH]. cbn beta. intros; lia.
Qed.

Lemma init_ptrs_ok xs : Forall (fun x => 0 <= x) xs -> forall acc, 0 <= acc ->
  Forall2 ptr_ok (zip_sub (cumsum acc xs) xs) (cumsum acc xs).
Proof.
  induction 1 as [|x xs Hx HF IH]; intros acc Ha; cbn [cumsum zip_sub]; constructor.
  - unfold ptr_ok. lia.
  - apply IH. lia.
Qed.

Lemma init_rem xs : forall acc, rem (cumsum acc xs) (zip_sub (cumsum acc xs) xs) = sumZ xs.
Proof.
  induction xs as [|x xs IH]; intros acc; cbn [cumsum zip_sub rem sumZ]; [reflexivity|].
  rewrite IH. lia.
Qed.

Section Many.
  Variables values lims : list Z.
  Let k := length lims.
  Let total := Z.of_nat (length values).
  Hypothesis Hlims : Forall (fun l => l <= total) lims.
  Hypothesis Htotal : total < 2 ^ 31.

  Definition PI (ps : list Z) : Prop := Forall2 ptr_ok ps lims.

  Lemma PI_length ps : PI ps -> length ps = k.
  Proof. intros H. apply Forall2_len in H. exact H. Qed.

  Lemma PI_nth ps i : PI ps -> (i < k)%nat -> 0 <= nth i ps 0 <= nth i lims 0 /\ nth i lims 0 <= total.
  Proof.
    intros H Hi. pose proof (PI_length ps H) as Hl. split.
    - apply (Forall2_nth ptr_ok ps lims 0 0 H). lia.
    - pose proof (proj1 (Forall_forall _ lims) Hlims (nth i lims 0)) as F. apply F. apply nth_In. exact Hi.
  Qed.

  (* scan for the minimum head *)
  Definition scan_inv (ps : list Z) (j : nat) (m : Z * Z) : Prop :=
    fst m = -1 \/
    exists a : nat, fst m = Z.of_nat a /\ (a < j)%nat /\ nth a ps 0 < nth a lims 0 /\ rd values (nth a ps 0) = KOk (snd m).

  Lemma scan_total ps m0 : PI ps ->
    exists m, for_range k 0 (scan_body values ps lims) (-1, m0) = KOk m /\ scan_inv ps k m.
  Proof.
    intros HP. pose proof (PI_length ps HP) as Hlen.
    destruct (for_range_inv (scan_body values ps lims) (scan_inv ps) k 0 (-1, m0)) as [m [E Hm]].
    - left. reflexivity.
    - intros j m Hj Hm. unfold scan_body.
      rewrite rd_nth by lia. cbn [kbind]. rewrite rd_nth by (fold k; lia). cbn [kbind].
      destruct (PI_nth ps j HP) as [B1 B2]; [lia|].
      destruct (nth j ps 0 >=? nth j lims 0) eqn:E1.
      + exists m. split; [reflexivity|]. destruct Hm as [Hm|(a & A1 & A2 & A3 & A4)]; [left; exact Hm|].
        right. exists a. repeat split; try assumption. lia.
      + destruct (rd_ok values (nth j ps 0)) as [v [Ev _]]; [fold total; lia|]. rewrite Ev. cbn [kbind].
        destruct ((fst m =? -1) || (v <? snd m)).
        * eexists. split; [reflexivity|]. right. exists j. cbn [fst snd]. repeat split; try lia. exact Ev.
        * exists m. split; [reflexivity|]. destruct Hm as [Hm|(a & A1 & A2 & A3 & A4)]; [left; exact Hm|].
          right. exists a. repeat split; try assumption. lia.
    - exists m. split; [exact E|]. exact Hm.
  Qed.

  (* advance every array whose head equals the value taken *)
  Definition adv_inv (ps : list Z) (a : nat) (j : nat) (ps' : list Z) : Prop :=
    PI ps' /\ (forall i, (j <= i)%nat -> nth i ps' 0 = nth i ps 0) /\
    rem lims ps' <= rem lims ps /\ ((a < j)%nat -> rem lims ps' < rem lims ps).

  Lemma adv_total ps a mv : PI ps -> (a < k)%nat -> nth a ps 0 < nth a lims 0 ->
    rd values (nth a ps 0) = KOk mv ->
    exists ps', for_range k 0 (adv_body values lims mv) ps = KOk ps' /\ PI ps' /\ rem lims ps' < rem lims ps.
  Proof.
    intros HP Ha Hlt Hrd.
    destruct (for_range_inv (adv_body values lims mv) (adv_inv ps a) k 0 ps) as [ps' [E Hm]].
    - unfold adv_inv. repeat split; [exact HP | lia | lia].
    - intros j q Hj (Q1 & Q2 & Q3 & Q4). pose proof (PI_length q Q1) as Hlen. unfold adv_body.
      rewrite rd_nth by lia. cbn [kbind]. rewrite rd_nth by (fold k; lia). cbn [kbind].
      destruct (PI_nth q j Q1) as [B1 B2]; [lia|].
      assert (Hsame : nth j q 0 = nth j ps 0) by (apply Q2; lia).
      destruct (nth j q 0 <? nth j lims 0) eqn:E1.
      + apply Z.ltb_lt in E1.
        destruct (rd_ok values (nth j q 0)) as [v [Ev _]]; [fold total; lia|]. rewrite Ev. cbn [kbind].
        destruct (v =? mv) eqn:E2.
        * rewrite upd_nat by lia. eexists. split; [reflexivity|]. unfold adv_inv. repeat split.
          -- unfold PI. apply (Forall2_updn ptr_ok q lims 0 Q1); [lia|]. unfold ptr_ok. lia.
          -- intros i Hi. rewrite updn_nth_other by lia. apply Q2. lia.
          -- rewrite rem_updn by (fold k; lia). lia.
          -- intros _. rewrite rem_updn by (fold k; lia). lia.
        * exists q. split; [reflexivity|]. unfold adv_inv. repeat split; try assumption.
          -- intros i Hi. apply Q2. lia.
          -- intros Haj. assert (a = j \/ (a < j)%nat) as [->|Hlt'] by lia; [|auto].
             rewrite Hsame, Hrd in Ev. inversion Ev. subst v. rewrite Z.eqb_refl in E2. discriminate.
      + exists q. split; [reflexivity|]. unfold adv_inv. repeat split; try assumption.
        * intros i Hi. apply Q2. lia.
        * intros Haj. assert (a = j \/ (a < j)%nat) as [->|Hlt'] by lia; [|auto].
          apply Z.ltb_ge in E1. lia.
    - exists ps'. destruct Hm as (Q1 & Q2 & Q3 & Q4). repeat split; [exact E | exact Q1 | apply Q4; lia].
  Qed.

  Lemma many_loop_total : forall fuel s, PI (ptrs s) ->
    Z.of_nat (length (mout s)) + rem lims (ptrs s) <= total ->
    (Z.to_nat (rem lims (ptrs s)) < fuel)%nat ->
    exists r, many_loop fuel values lims (Z.of_nat k) total s = KOk r.
  Proof.
    induction fuel as [|f IH]; intros s HP Hcap Hf; [lia|].
    cbn [many_loop]. rewrite Nat2Z.id.
    destruct (scan_total (ptrs s) (mmin s) HP) as [m [-> Hm]]. cbn [kbind].
    destruct (fst m =? -1) eqn:E; [eauto|].
    apply Z.eqb_neq in E. destruct Hm as [Hm|(a & A1 & A2 & A3 & A4)]; [contradiction|].
    destruct (adv_total (ptrs s) a (snd m) HP A2 A3 A4) as [ps' [Eadv [HP' Hrem]]].
    pose proof (rem_nonneg lims ps' HP') as Hnn.
    rewrite wr_ok by lia. cbn [kbind]. rewrite Eadv. cbn [kbind].
    apply IH; cbn [ptrs mout length]; [exact HP' | lia | lia].
  Qed.
End Many.

Lemma filter_concat_length (arrays : list (list Z)) :
  Z.of_nat (length (concat (filter nonempty_b arrays))) <= Z.of_nat (length (concat arrays)).
Proof.
  induction arrays as [|a l IH]; cbn [filter concat]; [lia|].
  destruct (nonempty_b a); cbn [concat]; rewrite ?app_length; lia.
Qed.

Theorem union_many_total (arrays : list (list Z)) :
  Z.of_nat (length (concat arrays)) < 2 ^ 31 -> exists r, union_many_kernel arrays = KOk r.
Proof.
  intros Hlen. unfold union_many_kernel.
  set (vas := filter nonempty_b arrays).
  destruct (Z.of_nat (length vas) =? 0) eqn:E; [eauto|].
  set (larr := map (fun a => Z.of_nat (length a)) vas).
  assert (Hnn : Forall (fun x => 0 <= x) larr).
  { unfold larr. apply Forall_forall. intros x Hx. apply in_map_iff in Hx. destruct Hx as [a [<- _]]. lia. }
  assert (Htot : Z.of_nat (length (concat vas)) = sumZ larr) by apply concat_length_Z.
  assert (Hle : Z.of_nat (length (concat vas)) <= Z.of_nat (length (concat arrays))).
  { apply filter_concat_length. }
  replace (length vas) with (length (cumsum 0 larr)) by (rewrite cumsum_length; unfold larr; apply map_length).
  apply many_loop_total; cbn [ptrs mout length].
  - pose proof (cumsum_bound larr Hnn 0) as B. rewrite Htot. exact B.
  - lia.
  - unfold PI. apply init_ptrs_ok; [exact Hnn | lia].
  - rewrite init_rem. lia.
  - rewrite init_rem. lia.
Qed.

(* ---- C09 in the form "never OOB, never out of fuel" ---- *)
Lemma total_not_oob {A : Type} (x : kres A) : (exists r, x = KOk r) -> x <> OOB /\ x <> NoFuel.
Proof. intros [r ->]. split; discriminate. Qed.

(* wrappers add no buffer access of their own *)
Theorem wrappers_total l r :
  (forall L, l = Some L -> Z.of_nat (length L) < 2 ^ 31) ->
  (forall R, r = Some R -> Z.of_nat (length R) < 2 ^ 31) ->
  (forall L R, l = Some L -> r = Some R -> Z.of_nat (length L) + Z.of_nat (length R) < 2 ^ 31) ->
  (exists x, intersection l r = KOk x) /\ (exists x, union l r = KOk x) /\ (exists x, difference l r = KOk x).
Proof.
  intros Hl Hr Hs. destruct l as [L|], r as [R|]; cbn [intersection union difference]; repeat split; eauto.
  - destruct (intersect_total L R) as [x ->]; [apply Hl; reflexivity | apply Hr; reflexivity |]. cbn [kbind]. eauto.
  - destruct (union_total L R) as [x ->]; [apply Hs; reflexivity|]. cbn [kbind]. eauto.
  - destruct (difference_total L R) as [x ->]; [apply Hl; reflexivity | apply Hr; reflexivity |]. cbn [kbind]. eauto.
Qed.

(* ---- C09 as stated in Properties/C09.v ---- *)
Lemma C09_binary_lemma (L R : list Z) :
  Z.of_nat (length L) + Z.of_nat (length R) < 2 ^ 31 ->
  (exists r, intersect_kernel L R = KOk r) /\
  (exists r, union_kernel L R = KOk r) /\
  (exists r, difference_kernel L R = KOk r).
Proof.
  intros H. split; [apply intersect_total; lia|]. split; [apply union_total; lia | apply difference_total; lia].
Qed.

Lemma C09_never_oob_lemma (L R : list Z) :
  Z.of_nat (length L) + Z.of_nat (length R) < 2 ^ 31 ->
  intersect_kernel L R <> OOB /\ union_kernel L R <> OOB /\ difference_kernel L R <> OOB /\
  intersect_kernel L R <> NoFuel /\ union_kernel L R <> NoFuel /\ difference_kernel L R <> NoFuel.
Proof.
  intros H. destruct (C09_binary_lemma L R H) as ([a ->] & [b ->] & [c ->]). repeat split; discriminate.
Qed.

Lemma C09_many_lemma (arrays : list (list Z)) :
  Z.of_nat (length (concat arrays)) < 2 ^ 31 ->
  (exists r, union_many_kernel arrays = KOk r) /\
  union_many_kernel arrays <> OOB /\ union_many_kernel arrays <> NoFuel.
Proof.
  intros H. destruct (union_many_total arrays H) as [r Hr]. split; [eauto|]. rewrite Hr. split; discriminate.
Qed.
