(* SetOps/Check.v — executable checkers for the C08/C09 correspondence cases (no proofs).
   The harness writes, per case, the input and what the implementation did ([obs]); the checker
   evaluates the model of Kernels.v on the same input and compares. *)
From Coq Require Import ZArith List Bool.
From Catii Require Import Base.Cases Base.Sorted SetOps.Kernels.
Import ListNotations.
Open Scope Z_scope.

(* what the implementation was observed to do *)
Inductive obs :=
| ORet (r : list Z)      (* returned this uint32 array *)
| ONone                  (* returned None (wrappers) *)
| OIndexError            (* bounds-checked rebuild raised IndexError / ASan reported an out-of-bounds access *)
| OOther.                (* anything else (other exception, wrong dtype, crash, model out of fuel) *)

Definition obs_eqb (a b : obs) : bool :=
  match a, b with
  | ORet x, ORet y => zlist_eqb x y
  | ONone, ONone => true
  | OIndexError, OIndexError => true
  | _, _ => false
  end.

Definition obs_of_kernel (r : kres (list Z)) : obs :=
  match r with KOk x => ORet x | OOB => OIndexError | NoFuel => OOther end.

Definition obs_of_wrapper (r : kres (option (list Z))) : obs :=
  match r with KOk (Some x) => ORet x | KOk None => ONone | OOB => OIndexError | NoFuel => OOther end.

(* operation codes: 0 set_intersect_merge_np, 1 set_union_merge_np, 2 set_difference_merge_np,
                    3 intersection, 4 union, 5 difference *)
Definition model_bin (op : Z) (l r : option (list Z)) : obs :=
  match op, l, r with
  | 0, Some L, Some R => obs_of_kernel (intersect_kernel L R)
  | 1, Some L, Some R => obs_of_kernel (union_kernel L R)
  | 2, Some L, Some R => obs_of_kernel (difference_kernel L R)
  | 3, _, _ => obs_of_wrapper (intersection l r)
  | 4, _, _ => obs_of_wrapper (union l r)
  | 5, _, _ => obs_of_wrapper (difference l r)
  | _, _, _ => OOther
  end.

Definition bin_case : Type := Z * option (list Z) * option (list Z) * obs.

Definition check_bin (c : bin_case) : bool :=
  let '(op, l, r, o) := c in obs_eqb (model_bin op l r) o.

Definition explain_bin (c : bin_case) : bin_case * obs :=
  let '(op, l, r, o) := c in (c, model_bin op l r).

Definition many_case : Type := list (list Z) * obs.

Definition check_many (c : many_case) : bool :=
  let '(ls, o) := c in obs_eqb (obs_of_kernel (union_many_kernel ls)) o.

Definition explain_many (c : many_case) : many_case * obs :=
  let '(ls, o) := c in (c, obs_of_kernel (union_many_kernel ls)).

(* ASan tier: the unmodified build either reported an out-of-bounds access ([true]) or not; the model must
   say OOB exactly then.  (The value returned by a run that went out of bounds is meaningless.) *)
Definition is_oob (o : obs) : bool := match o with OIndexError => true | _ => false end.

(* ------------------------------------------------------------------------------------------
   Compact encodings for the exhaustive small-scope enumerations (harness/props/c08.py, c09.py).
   A subset of a universe U = [u0; u1; ...] (strictly increasing) is a bit mask m >= 0: bit i of m
   selects u_i, so [sub_of_mask U m] is again strictly increasing.  These decoders are part of the
   trusted comparison: they only expand what the harness observed into the explicit forms above
   ([bin_case], [many_case]); the comparison itself is still [model_bin] / [union_many_kernel]
   against [obs] through [obs_eqb].
   ------------------------------------------------------------------------------------------ *)
Fixpoint sub_of_mask (U : list Z) (m : Z) : list Z :=
  match U with
  | [] => []
  | u :: U' => if Z.odd m then u :: sub_of_mask U' (Z.div2 m) else sub_of_mask U' (Z.div2 m)
  end.

(* operand code: -1 = None, m >= 0 = the subset with mask m *)
Definition operand_of_code (U : list Z) (c : Z) : option (list Z) :=
  if c =? -1 then None else Some (sub_of_mask U c).

(* observation code: -1 = returned None, -2 = IndexError, any other negative = OOther,
   m >= 0 = returned exactly the array [sub_of_mask U m] *)
Definition obs_of_code (U : list Z) (c : Z) : obs :=
  if c =? -1 then ONone
  else if c =? -2 then OIndexError
  else if c <? 0 then OOther
  else ORet (sub_of_mask U c).

(* One row of an enumeration: operation [op], universe U, left operand code [cl]; [codes] holds the
   observation codes for the right operand codes cr, cr+1, cr+2, ... *)
Definition row_case : Type := Z * list Z * Z * Z * list Z.

Fixpoint row_bad (op : Z) (U : list Z) (l : option (list Z)) (cr : Z) (codes : list Z) : list (Z * obs) :=
  match codes with
  | [] => []
  | c :: t =>
    let m := model_bin op l (operand_of_code U cr) in
    if obs_eqb m (obs_of_code U c) then row_bad op U l (cr + 1) t
    else (cr, m) :: row_bad op U l (cr + 1) t
  end.

(* the right operand codes on which model and observation differ, with what the model says *)
Definition explain_row (c : row_case) : list (Z * obs) :=
  let '(op, U, cl, cr, codes) := c in row_bad op U (operand_of_code U cl) cr codes.

Definition check_row (c : row_case) : bool :=
  match explain_row c with [] => true | _ => false end.

(* the explicit cases a row stands for (used by the self-test in the harness and for reading a row) *)
Fixpoint row_expand (op : Z) (U : list Z) (cl cr : Z) (codes : list Z) : list bin_case :=
  match codes with
  | [] => []
  | c :: t => (op, operand_of_code U cl, operand_of_code U cr, obs_of_code U c) :: row_expand op U cl (cr + 1) t
  end.

(* k-way union, one case: the arrays are the subsets [masks] of U, [code] the observation code *)
Definition many_compact : Type := list Z * list Z * Z.

Definition many_of_compact (c : many_compact) : many_case :=
  let '(U, masks, code) := c in (map (sub_of_mask U) masks, obs_of_code U code).

Definition check_many_compact (c : many_compact) : bool := check_many (many_of_compact c).
Definition explain_many_compact (c : many_compact) : many_case * obs := explain_many (many_of_compact c).

(* k-way union, one row: the list of arrays is [prefix ++ [m]] for m = start, start+1, ...;
   [codes] holds the observation code for each m *)
Definition many_row : Type := list Z * list Z * Z * list Z.

Fixpoint many_row_bad (U : list Z) (prefix : list (list Z)) (m : Z) (codes : list Z) : list (Z * obs) :=
  match codes with
  | [] => []
  | c :: t =>
    let r := obs_of_kernel (union_many_kernel (prefix ++ [sub_of_mask U m])) in
    if obs_eqb r (obs_of_code U c) then many_row_bad U prefix (m + 1) t
    else (m, r) :: many_row_bad U prefix (m + 1) t
  end.

Definition explain_many_row (c : many_row) : list (Z * obs) :=
  let '(U, pmasks, start, codes) := c in many_row_bad U (map (sub_of_mask U) pmasks) start codes.

Definition check_many_row (c : many_row) : bool :=
  match explain_many_row c with [] => true | _ => false end.

(* One pair of operands (subsets [cl], [cr] of U, or -1 = None) under several operations:
   [codes] holds the observation codes for op = op0, op0+1, ... *)
Definition ops_case : Type := list Z * Z * Z * Z * list Z.

Fixpoint ops_bad (U : list Z) (l r : option (list Z)) (op : Z) (codes : list Z) : list (Z * obs) :=
  match codes with
  | [] => []
  | c :: t =>
    let m := model_bin op l r in
    if obs_eqb m (obs_of_code U c) then ops_bad U l r (op + 1) t
    else (op, m) :: ops_bad U l r (op + 1) t
  end.

(* the operation codes on which model and observation differ, with what the model says *)
Definition explain_ops (c : ops_case) : list (Z * obs) :=
  let '(U, cl, cr, op0, codes) := c in ops_bad U (operand_of_code U cl) (operand_of_code U cr) op0 codes.

Definition check_ops (c : ops_case) : bool :=
  match explain_ops c with [] => true | _ => false end.

(* All case forms under one type, so that one batch of shards can hold every kind of case. *)
Inductive any_case :=
| CRow (c : row_case)
| COps (c : ops_case)
| CBin (c : bin_case)
| CManyRow (c : many_row)
| CManyCompact (c : many_compact)
| CMany (c : many_case).

Definition check_any (c : any_case) : bool :=
  match c with
  | CRow x => check_row x
  | COps x => check_ops x
  | CBin x => check_bin x
  | CManyRow x => check_many_row x
  | CManyCompact x => check_many_compact x
  | CMany x => check_many x
  end.

(* where a case disagrees (right operand code / operation code / last mask; 0 for the single-call forms)
   and what the model says there *)
Definition explain_any (c : any_case) : list (Z * obs) :=
  match c with
  | CRow x => explain_row x
  | COps x => explain_ops x
  | CBin x => if check_bin x then [] else [(0, snd (explain_bin x))]
  | CManyRow x => explain_many_row x
  | CManyCompact x => if check_many_compact x then [] else [(0, snd (explain_many_compact x))]
  | CMany x => if check_many x then [] else [(0, snd (explain_many x))]
  end.
