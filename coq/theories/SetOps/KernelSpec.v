(* SetOps/KernelSpec.v — C08: on strictly increasing inputs the kernels of Kernels.v compute exactly
   the set-algebra specifications of Base/Sorted.v.
   Method: partial correctness of the index loops by a simulation invariant ("the cached value and the
   pointer describe a suffix of the operand": skipn ptr A = cached :: rest) against the structural
   specification on the suffixes; termination and in-bounds-ness come from KernelSafe.v. *)
From Coq Require Import ZArith List Bool Lia.
From Catii Require Import Base.Sorted Base.SortedFacts SetOps.Kernels SetOps.KernelSafe.
Import ListNotations.
Open Scope Z_scope.
Local Open Scope kres_scope.

(* ---- one step of each specification on strictly increasing suffixes ---- *)
Lemma memZ_cons x y l : memZ x (y :: l) = (x =? y) || memZ x l.
Proof. reflexivity. Qed.

Lemma in_sincr_ge x l z : sincr (x :: l) -> In z (x :: l) -> x <= z.
Proof. intros H [->|Hz]; [lia|]. pose proof (sincr_head_lt x l H z Hz). lia. Qed.

Lemma inter_gt x Lt y Rt : sincr (x :: Lt) -> y < x -> inter_spec (x :: Lt) (y :: Rt) = inter_spec (x :: Lt) Rt.
Proof.
  intros HL Hlt. unfold inter_spec. apply filter_ext_in. intros z Hz.
  pose proof (in_sincr_ge x Lt z HL Hz). rewrite memZ_cons.
  replace (z =? y) with false by (symmetry; apply Z.eqb_neq; lia). reflexivity.
Qed.

Lemma memZ_below x y Rt : sincr (y :: Rt) -> x < y -> memZ x (y :: Rt) = false.
Proof.
  intros HR Hlt. apply memZ_false. intros Hin. pose proof (in_sincr_ge y Rt x HR Hin). lia.
Qed.

Lemma memZ_above_head z x Rt : x < z -> memZ z (x :: Rt) = memZ z Rt.
Proof.
  intros H. rewrite memZ_cons. replace (z =? x) with false by (symmetry; apply Z.eqb_neq; lia). reflexivity.
Qed.

Lemma inter_lt x Lt y Rt : sincr (y :: Rt) -> x < y -> inter_spec (x :: Lt) (y :: Rt) = inter_spec Lt (y :: Rt).
Proof.
  intros HR Hlt. unfold inter_spec. cbn [filter]. rewrite (memZ_below x y Rt HR Hlt). reflexivity.
Qed.

Lemma inter_eq x Lt Rt : sincr (x :: Lt) -> inter_spec (x :: Lt) (x :: Rt) = x :: inter_spec Lt Rt.
Proof.
  intros HL. unfold inter_spec. cbn [filter]. rewrite memZ_cons, Z.eqb_refl. cbn [orb]. f_equal.
  apply filter_ext_in. intros z Hz. apply memZ_above_head. exact (sincr_head_lt x Lt HL z Hz).
Qed.

Lemma diff_gt x Lt y Rt : sincr (x :: Lt) -> y < x -> diff_spec (x :: Lt) (y :: Rt) = diff_spec (x :: Lt) Rt.
Proof.
  intros HL Hlt. unfold diff_spec. apply filter_ext_in. intros z Hz.
  pose proof (in_sincr_ge x Lt z HL Hz). rewrite memZ_above_head by lia. reflexivity.
Qed.

Lemma diff_lt x Lt y Rt : sincr (y :: Rt) -> x < y -> diff_spec (x :: Lt) (y :: Rt) = x :: diff_spec Lt (y :: Rt).
Proof.
  intros HR Hlt. unfold diff_spec. cbn [filter]. rewrite (memZ_below x y Rt HR Hlt). reflexivity.
Qed.

Lemma diff_eq x Lt Rt : sincr (x :: Lt) -> diff_spec (x :: Lt) (x :: Rt) = diff_spec Lt Rt.
Proof.
  intros HL. unfold diff_spec. cbn [filter]. rewrite memZ_cons, Z.eqb_refl. cbn [orb negb].
  apply filter_ext_in. intros z Hz. rewrite memZ_above_head; [reflexivity|]. exact (sincr_head_lt x Lt HL z Hz).
Qed.

Lemma inter_disjoint L R : (forall x, In x L -> ~ In x R) -> inter_spec L R = [].
Proof.
  unfold inter_spec. induction L as [|x L IH]; intros H; [reflexivity|]. cbn [filter].
  replace (memZ x R) with false by (symmetry; apply memZ_false; apply H; left; reflexivity).
  apply IH. intros z Hz. apply H. right. exact Hz.
Qed.

Lemma diff_disjoint L R : (forall x, In x L -> ~ In x R) -> diff_spec L R = L.
Proof.
  unfold diff_spec. induction L as [|x L IH]; intros H; [reflexivity|]. cbn [filter].
  replace (memZ x R) with false by (symmetry; apply memZ_false; apply H; left; reflexivity).
  cbn [negb]. f_equal. apply IH. intros z Hz. apply H. right. exact Hz.
Qed.

(* ---- suffixes and pointers ---- *)
Lemma skipn_cons_nth_error (A : list Z) : forall n v T, skipn n A = v :: T -> nth_error A n = Some v.
Proof.
  induction A as [|x A IH]; intros [|n] v T H; cbn [skipn] in H; try discriminate.
  - inversion H. reflexivity.
  - cbn [nth_error]. eapply IH. exact H.
Qed.

Lemma skipn_S_cons (A : list Z) : forall n v T, skipn n A = v :: T -> skipn (S n) A = T.
Proof.
  induction A as [|x A IH]; intros [|n] v T H; cbn [skipn] in H; try discriminate.
  - inversion H. reflexivity.
  - cbn [skipn]. destruct A as [|y A']; [destruct n; discriminate|]. apply (IH n v T H).
Qed.

Lemma suffix_step (A : list Z) p v T : 0 <= p -> skipn (Z.to_nat p) A = v :: T ->
  p < Z.of_nat (length A) /\ skipn (Z.to_nat (p + 1)) A = T /\
  Z.of_nat (length T) = Z.of_nat (length A) - (p + 1).
Proof.
  intros Hp H. pose proof (skipn_length (Z.to_nat p) A) as HL. rewrite H in HL. cbn [length] in HL.
  split; [lia|]. split; [|lia].
  replace (Z.to_nat (p + 1)) with (S (Z.to_nat p)) by lia.
  exact (skipn_S_cons A _ v T H).
Qed.

Lemma suffix_head (A : list Z) p T : 0 <= p -> p < Z.of_nat (length A) -> skipn (Z.to_nat p) A = T ->
  exists v T', T = v :: T' /\ rd A p = KOk v.
Proof.
  intros Hp Hlt H. destruct T as [|v T'].
  - pose proof (skipn_length (Z.to_nat p) A) as HL. rewrite H in HL. cbn [length] in HL. lia.
  - exists v, T'. split; [reflexivity|]. destruct (rd_ok A p) as [w [E N]]; [lia|].
    rewrite (skipn_cons_nth_error A _ v T' H) in N. inversion N. subst w. exact E.
Qed.

Lemma length_zero_nil (T : list Z) : Z.of_nat (length T) <= 0 -> T = [].
Proof. destruct T; cbn [length]; [reflexivity|lia]. Qed.

Lemma wr_inv cap o v o' : wr cap o v = KOk o' -> o' = v :: o.
Proof.
  unfold wr. destruct ((0 <=? cint (Z.of_nat (length o))) && (cint (Z.of_nat (length o)) <? cap)); [|discriminate].
  intros H. inversion H. reflexivity.
Qed.

(* last element of a strictly increasing array bounds all of it *)
Lemma sincr_rd_last A x : sincr A -> rd A (Z.of_nat (length A) - 1) = KOk x -> forall y, In y A -> y <= x.
Proof.
  intros HS Hrd y Hy. apply rd_KOk_inv in Hrd. destruct Hrd as [Hb Hn].
  apply (nth_error_nth A _ 0) in Hn.
  destruct (In_nth A y 0 Hy) as [i [Hi <-]].
  set (j := Z.to_nat (Z.of_nat (length A) - 1)) in *.
  assert (i = j \/ (i < j)%nat) as [->|Hlt] by lia; [lia|].
  pose proof (sincr_nth_lt A i j 0 HS). lia.
Qed.

Lemma rd_first A x : rd A 0 = KOk x -> exists T, A = x :: T.
Proof.
  intros H. apply rd_KOk_inv in H. destruct H as [_ H]. destruct A as [|a A]; cbn in H; [discriminate|].
  inversion H. eauto.
Qed.

(* partial correctness of `while 1:` *)
Lemma run_partial {T : Type} (body : st -> step) (I : st -> Prop) (val fin : st -> T) :
  (forall s, I s -> match body s with
                    | Continue s1 => I s1 /\ val s1 = val s
                    | Break s' => fin s' = val s
                    | Fault => True
                    end) ->
  forall fuel s s', I s -> run body fuel s = KOk s' -> fin s' = val s.
Proof.
  intros HB. induction fuel as [|f IH]; intros s s' Hi Hr; cbn [run] in Hr; [discriminate|].
  pose proof (HB s Hi) as B. destruct (body s) as [s1|s1|]; [| |discriminate].
  - destruct B as [Hi1 Hv]. rewrite <- Hv. apply IH; assumption.
  - inversion Hr. subst s1. exact B.
Qed.

Section Binary.
  Variables L R : list Z.
  Let ll := Z.of_nat (length L).
  Let rl := Z.of_nat (length R).
  Hypothesis HL : ll < 2 ^ 31.
  Hypothesis HR : rl < 2 ^ 31.
  Hypothesis SL : sincr L.
  Hypothesis SR : sincr R.

  Definition sufL (s : st) : list Z := skipn (Z.to_nat (lp s)) L.
  Definition sufR (s : st) : list Z := skipn (Z.to_nat (rp s)) R.

  (* the cached values and the pointers describe non-empty suffixes *)
  Definition I (s : st) : Prop :=
    0 <= lp s /\ 0 <= rp s /\ (exists Lt, sufL s = lv s :: Lt) /\ (exists Rt, sufR s = rv s :: Rt).

  Definition val_i (s : st) : list Z := rev (out s) ++ inter_spec (sufL s) (sufR s).
  Definition fin_i (s : st) : list Z := rev (out s).
  Definition val_u (s : st) : list Z := rev (out s) ++ union_spec (sufL s) (sufR s).
  Definition fin_u (s : st) : list Z := rev (out s) ++ sufL s ++ sufR s.
  Definition val_d (s : st) : list Z := rev (out s) ++ diff_spec (sufL s) (sufR s).
  Definition fin_d (s : st) : list Z := rev (out s) ++ sufL s.

  (* facts available at the top of every loop iteration *)
  Lemma I_facts s : I s -> exists Lt Rt,
    sufL s = lv s :: Lt /\ sufR s = rv s :: Rt /\ sincr (lv s :: Lt) /\ sincr (rv s :: Rt) /\
    0 <= lp s < ll /\ 0 <= rp s < rl /\
    skipn (Z.to_nat (lp s + 1)) L = Lt /\ skipn (Z.to_nat (rp s + 1)) R = Rt /\
    Z.of_nat (length Lt) = ll - (lp s + 1) /\ Z.of_nat (length Rt) = rl - (rp s + 1).
  Proof.
    intros (H1 & H2 & [Lt H3] & [Rt H4]). exists Lt, Rt.
    destruct (suffix_step L (lp s) (lv s) Lt H1 H3) as (A1 & A2 & A3).
    destruct (suffix_step R (rp s) (rv s) Rt H2 H4) as (B1 & B2 & B3).
    assert (S1 : sincr (lv s :: Lt)) by (rewrite <- H3; apply sincr_skipn; exact SL).
    assert (S2 : sincr (rv s :: Rt)) by (rewrite <- H4; apply sincr_skipn; exact SR).
    unfold ll, rl. split; [exact H3|]. split; [exact H4|]. split; [exact S1|]. split; [exact S2|].
    repeat split; try assumption; lia.
  Qed.

  (* advancing a pointer that stays inside: the next cached value is the head of the rest *)
  Ltac next_in A p T Hsk :=
    let v := fresh "v" in let T' := fresh "T" in let Hv := fresh "Hv" in let Hr := fresh "Hr" in
    destruct (suffix_head A p T) as (v & T' & Hv & Hr); [lia | unfold ll, rl in *; lia | exact Hsk |];
    rewrite Hr; rewrite Hv in *.

  Ltac finish_I := unfold I, sufL, sufR in *; cbn [lp rp lv rv out]; repeat split; try lia; eauto.

  Lemma ibody_spec cap s : I s ->
    match ibody cap L R ll rl s with
    | Continue s1 => I s1 /\ val_i s1 = val_i s
    | Break s' => fin_i s' = val_i s
    | Fault => True
    end.
  Proof.
    intros Hi. destruct (I_facts s Hi) as (Lt & Rt & EL & ER & SLt & SRt & BL & BR & NL & NR & LL & LR).
    unfold ibody. rewrite (inc_id (lp s)) by lia. rewrite (inc_id (rp s)) by lia.
    unfold val_i, fin_i. rewrite EL, ER.
    destruct (lv s >? rv s) eqn:E1.
    { rewrite inter_gt by (assumption || lia).
      destruct (rp s + 1 >=? rl) eqn:E2.
      - cbn [out]. rewrite (length_zero_nil Rt) by lia. rewrite inter_spec_nil_r, app_nil_r. reflexivity.
      - next_in R (rp s + 1) Rt NR. split; [finish_I|].
        unfold sufL, sufR. cbn [lp rp out]. rewrite NR. fold (sufL s). rewrite EL. reflexivity. }
    destruct (rv s >? lv s) eqn:E3.
    { rewrite inter_lt by (assumption || lia).
      destruct (lp s + 1 >=? ll) eqn:E2.
      - cbn [out]. rewrite (length_zero_nil Lt) by lia. cbn. rewrite app_nil_r. reflexivity.
      - next_in L (lp s + 1) Lt NL. split; [finish_I|].
        unfold sufL, sufR. cbn [lp rp out]. rewrite NL. fold (sufR s). rewrite ER. reflexivity. }
    assert (lv s = rv s) as Eq by lia. rewrite <- Eq in *.
    rewrite inter_eq by assumption.
    destruct (wr cap (out s) (lv s)) as [o| |] eqn:Ew; [|exact Logic.I|exact Logic.I].
    apply wr_inv in Ew. subst o.
    destruct (lp s + 1 >=? ll) eqn:E4.
    { cbn [out rev]. rewrite (length_zero_nil Lt) by lia. cbn [inter_spec filter]. reflexivity. }
    destruct (rp s + 1 >=? rl) eqn:E5.
    { cbn [out rev]. rewrite (length_zero_nil Rt) by lia. rewrite inter_spec_nil_r. reflexivity. }
    next_in L (lp s + 1) Lt NL. next_in R (rp s + 1) Rt NR. split; [finish_I|].
    unfold sufL, sufR. cbn [lp rp out rev]. rewrite NL, NR, <- app_assoc. reflexivity.
  Qed.

  Ltac kill T := let H := fresh in assert (H : T = []) by (apply length_zero_nil; lia); rewrite H in *; clear H.

  Ltac norm s EL ER NL NR :=
    unfold sufL, sufR; cbn [lp rp out rev]; rewrite ?NL, ?NR; fold (sufL s); fold (sufR s);
    rewrite ?EL, ?ER; rewrite <- ?app_assoc; cbn [app].

  Lemma ubody_spec cap s : I s ->
    match ubody cap L R ll rl s with
    | Continue s1 => I s1 /\ val_u s1 = val_u s
    | Break s' => fin_u s' = val_u s
    | Fault => True
    end.
  Proof.
    intros Hi. destruct (I_facts s Hi) as (Lt & Rt & EL & ER & SLt & SRt & BL & BR & NL & NR & LL & LR).
    unfold ubody. rewrite (inc_id (lp s)) by lia. rewrite (inc_id (rp s)) by lia.
    unfold val_u, fin_u. rewrite EL, ER. rewrite union_spec_cons.
    destruct (lv s >? rv s) eqn:E1.
    { replace (lv s <? rv s) with false by (symmetry; apply Z.ltb_ge; lia).
      replace (rv s <? lv s) with true by (symmetry; apply Z.ltb_lt; lia).
      destruct (wr cap (out s) (rv s)) as [o| |] eqn:Ew; [|exact Logic.I|exact Logic.I].
      apply wr_inv in Ew. subst o.
      destruct (rp s + 1 >=? rl) eqn:E2.
      - kill Rt. norm s EL ER NL NR.
        rewrite union_spec_nil_r, app_nil_r. reflexivity.
      - next_in R (rp s + 1) Rt NR. split; [finish_I|]. norm s EL ER NL NR. reflexivity. }
    destruct (rv s >? lv s) eqn:E3.
    { replace (lv s <? rv s) with true by (symmetry; apply Z.ltb_lt; lia).
      destruct (wr cap (out s) (lv s)) as [o| |] eqn:Ew; [|exact Logic.I|exact Logic.I].
      apply wr_inv in Ew. subst o.
      destruct (lp s + 1 >=? ll) eqn:E2.
      - kill Lt. norm s EL ER NL NR.
        rewrite union_spec_nil_l. reflexivity.
      - next_in L (lp s + 1) Lt NL. split; [finish_I|]. norm s EL ER NL NR. reflexivity. }
    replace (lv s <? rv s) with false by (symmetry; apply Z.ltb_ge; lia).
    replace (rv s <? lv s) with false by (symmetry; apply Z.ltb_ge; lia).
    destruct (wr cap (out s) (lv s)) as [o| |] eqn:Ew; [|exact Logic.I|exact Logic.I].
    apply wr_inv in Ew. subst o.
    destruct (lp s + 1 >=? ll) eqn:E4.
    { kill Lt. norm s EL ER NL NR. rewrite union_spec_nil_l. reflexivity. }
    destruct (rp s + 1 >=? rl) eqn:E5.
    { kill Rt. norm s EL ER NL NR. rewrite union_spec_nil_r, app_nil_r. reflexivity. }
    next_in L (lp s + 1) Lt NL. next_in R (rp s + 1) Rt NR. split; [finish_I|]. norm s EL ER NL NR. reflexivity.
  Qed.

  Lemma dbody_spec cap s : I s ->
    match dbody cap L R ll rl s with
    | Continue s1 => I s1 /\ val_d s1 = val_d s
    | Break s' => fin_d s' = val_d s
    | Fault => True
    end.
  Proof.
    intros Hi. destruct (I_facts s Hi) as (Lt & Rt & EL & ER & SLt & SRt & BL & BR & NL & NR & LL & LR).
    unfold dbody. rewrite (inc_id (lp s)) by lia. rewrite (inc_id (rp s)) by lia.
    unfold val_d, fin_d. rewrite EL, ER.
    destruct (lv s >? rv s) eqn:E1.
    { rewrite diff_gt by (assumption || lia).
      destruct (rp s + 1 >=? rl) eqn:E2.
      - kill Rt. norm s EL ER NL NR. rewrite diff_spec_nil_r. reflexivity.
      - next_in R (rp s + 1) Rt NR. split; [finish_I|]. norm s EL ER NL NR. reflexivity. }
    destruct (rv s >? lv s) eqn:E3.
    { rewrite diff_lt by (assumption || lia).
      destruct (wr cap (out s) (lv s)) as [o| |] eqn:Ew; [|exact Logic.I|exact Logic.I].
      apply wr_inv in Ew. subst o.
      destruct (lp s + 1 >=? ll) eqn:E2.
      - kill Lt. norm s EL ER NL NR. cbn [diff_spec filter]. rewrite ?app_nil_r. reflexivity.
      - next_in L (lp s + 1) Lt NL. split; [finish_I|]. norm s EL ER NL NR. reflexivity. }
    assert (lv s = rv s) as Eq by lia. rewrite <- Eq in *.
    rewrite diff_eq by assumption.
    destruct (lp s + 1 >=? ll) eqn:E4.
    { kill Lt. norm s EL ER NL NR. cbn [diff_spec filter]. rewrite ?app_nil_r. reflexivity. }
    destruct (rp s + 1 >=? rl) eqn:E5.
    { kill Rt. norm s EL ER NL NR. rewrite diff_spec_nil_r. reflexivity. }
    next_in L (lp s + 1) Lt NL. next_in R (rp s + 1) Rt NR. split; [finish_I|]. norm s EL ER NL NR. reflexivity.
  Qed.
  (* ---- the kernels ---- *)
  Lemma st0_I l0 r0 : rd L 0 = KOk l0 -> rd R 0 = KOk r0 -> I (st0 l0 r0).
  Proof.
    intros H1 H2. destruct (rd_first L l0 H1) as [Lt EL]. destruct (rd_first R r0 H2) as [Rt ER].
    unfold I, sufL, sufR, st0; cbn [lp rp lv rv Z.to_nat skipn]. repeat split; try lia; eauto.
  Qed.

  Lemma st0_suf l0 r0 : sufL (st0 l0 r0) = L /\ sufR (st0 l0 r0) = R.
  Proof. split; reflexivity. Qed.

  Lemma no_overlap_above l0 rlast : rd L 0 = KOk l0 -> rd R (rl - 1) = KOk rlast -> l0 > rlast ->
    forall x y, In x L -> In y R -> y < x.
  Proof.
    intros H1 H2 Hgt x y Hx Hy. destruct (rd_first L l0 H1) as [Lt EL].
    pose proof (sincr_rd_last R rlast SR H2 y Hy).
    assert (l0 <= x) by (apply (in_sincr_ge l0 Lt); rewrite <- EL; assumption). lia.
  Qed.

  Lemma no_overlap_below r0 llast : rd R 0 = KOk r0 -> rd L (ll - 1) = KOk llast -> r0 > llast ->
    forall x y, In x L -> In y R -> x < y.
  Proof.
    intros H1 H2 Hgt x y Hx Hy. destruct (rd_first R r0 H1) as [Rt ER].
    pose proof (sincr_rd_last L llast SL H2 x Hx).
    assert (r0 <= y) by (apply (in_sincr_ge r0 Rt); rewrite <- ER; assumption). lia.
  Qed.

  Lemma len0_nil (A : list Z) : Z.of_nat (length A) = 0 -> A = [].
  Proof. intros H. apply length_zero_nil. lia. Qed.

  Theorem intersect_correct_sec : intersect_kernel L R = KOk (inter_spec L R).
  Proof.
    unfold intersect_kernel. rewrite !clen_id by assumption.
    destruct ((Z.of_nat (length L) =? 0) || (Z.of_nat (length R) =? 0)) eqn:E.
    { apply orb_true_iff in E. destruct E as [E|E]; apply Z.eqb_eq in E; apply len0_nil in E; rewrite E.
      - reflexivity.
      - rewrite inter_spec_nil_r. reflexivity. }
    apply orb_false_iff in E. destruct E as [E1 E2]. apply Z.eqb_neq in E1, E2.
    destruct (prologue_reads L R E1 E2) as (l0 & r0 & x & y & H1 & H2 & H3 & H4).
    rewrite H1, H2, H3. cbn [kbind].
    destruct (l0 >? x) eqn:G1.
    { rewrite inter_disjoint; [reflexivity|]. intros z Hz Hz'.
      pose proof (no_overlap_above l0 x H1 H3 ltac:(lia) z z Hz Hz'). lia. }
    rewrite H4. cbn [kbind].
    destruct (r0 >? y) eqn:G2.
    { rewrite inter_disjoint; [reflexivity|]. intros z Hz Hz'.
      pose proof (no_overlap_below r0 y H2 H4 ltac:(lia) z z Hz Hz'). lia. }
    destruct (irun_total L R HL HR l0 r0 E1 E2) as [s' [Er _]]. rewrite Er. cbn [kbind].
    pose proof (run_partial _ I val_i fin_i (ibody_spec _) _ _ _ (st0_I l0 r0 H1 H2) Er) as Hfin.
    unfold fin_i, val_i in Hfin. rewrite Hfin. reflexivity.
  Qed.

  Theorem difference_correct_sec : difference_kernel L R = KOk (diff_spec L R).
  Proof.
    unfold difference_kernel. rewrite !clen_id by assumption.
    destruct (Z.of_nat (length L) =? 0) eqn:E1.
    { apply Z.eqb_eq in E1. apply len0_nil in E1. rewrite E1. reflexivity. }
    destruct (Z.of_nat (length R) =? 0) eqn:E2.
    { apply Z.eqb_eq in E2. apply len0_nil in E2. rewrite E2, diff_spec_nil_r. reflexivity. }
    apply Z.eqb_neq in E1, E2.
    destruct (prologue_reads L R E1 E2) as (l0 & r0 & x & y & H1 & H2 & H3 & H4).
    rewrite H1, H2, H3. cbn [kbind].
    destruct (l0 >? x) eqn:G1.
    { rewrite diff_disjoint; [reflexivity|]. intros z Hz Hz'.
      pose proof (no_overlap_above l0 x H1 H3 ltac:(lia) z z Hz Hz'). lia. }
    rewrite H4. cbn [kbind].
    destruct (r0 >? y) eqn:G2.
    { rewrite diff_disjoint; [reflexivity|]. intros z Hz Hz'.
      pose proof (no_overlap_below r0 y H2 H4 ltac:(lia) z z Hz Hz'). lia. }
    destruct (drun_total L R HL HR l0 r0 E1 E2) as [s' [Er (P1 & P2 & P3)]]. rewrite Er. cbn [kbind].
    pose proof (run_partial _ I val_d fin_d (dbody_spec _) _ _ _ (st0_I l0 r0 H1 H2) Er) as Hfin.
    unfold need_d in P3.
    rewrite tail_copy_total; [| lia | exact HL | exact P1 | lia | lia]. cbn [kbind].
    rewrite rev_app_distr, rev_involutive.
    unfold fin_d, val_d in Hfin. unfold sufL at 1 in Hfin. rewrite Hfin. reflexivity.
  Qed.

  Theorem union_correct_sec : ll + rl < 2 ^ 31 -> union_kernel L R = KOk (union_spec L R).
  Proof.
    intros HS. unfold union_kernel. rewrite !clen_id by assumption.
    rewrite cint_id by (unfold ll, rl in *; lia).
    destruct (Z.of_nat (length L) =? 0) eqn:E1.
    { apply Z.eqb_eq in E1. apply len0_nil in E1. rewrite E1, union_spec_nil_l. reflexivity. }
    destruct (Z.of_nat (length R) =? 0) eqn:E2.
    { apply Z.eqb_eq in E2. apply len0_nil in E2. rewrite E2, union_spec_nil_r. reflexivity. }
    apply Z.eqb_neq in E1, E2.
    destruct (prologue_reads L R E1 E2) as (l0 & r0 & x & y & H1 & H2 & H3 & H4).
    rewrite H1, H2, H3. cbn [kbind].
    destruct (l0 >? x) eqn:G1.
    { rewrite union_spec_above; [reflexivity | exact SL | exact SR |].
      apply (no_overlap_above l0 x H1 H3). lia. }
    rewrite H4. cbn [kbind].
    destruct (r0 >? y) eqn:G2.
    { rewrite union_spec_below; [reflexivity | exact SL | exact SR |].
      apply (no_overlap_below r0 y H2 H4). lia. }
    destruct (urun_total L R HL HR l0 r0 HS E1 E2) as [s' [Er (P1 & P2 & P3)]]. rewrite Er. cbn [kbind].
    pose proof (run_partial _ I val_u fin_u (ubody_spec _) _ _ _ (st0_I l0 r0 H1 H2) Er) as Hfin.
    unfold need_u in P3. unfold ll, rl in HS.
    rewrite tail_copy_total; [| lia | exact HL | exact P1 | lia | lia]. cbn [kbind].
    rewrite tail_copy_total; [| lia | exact HR | exact P2 | lia |].
    2:{ rewrite app_length, rev_length, skipn_length. lia. }
    cbn [kbind]. rewrite !rev_app_distr, !rev_involutive.
    unfold fin_u, val_u in Hfin. unfold sufL at 1 in Hfin. unfold sufR at 1 in Hfin.
    rewrite <- app_assoc. rewrite Hfin. reflexivity.
  Qed.
End Binary.

(* ---- statements without section variables ---- *)
Theorem intersect_correct L R : sincr L -> sincr R ->
  Z.of_nat (length L) < 2 ^ 31 -> Z.of_nat (length R) < 2 ^ 31 ->
  intersect_kernel L R = KOk (inter_spec L R).
Proof. intros. apply intersect_correct_sec; assumption. Qed.

Theorem difference_correct L R : sincr L -> sincr R ->
  Z.of_nat (length L) < 2 ^ 31 -> Z.of_nat (length R) < 2 ^ 31 ->
  difference_kernel L R = KOk (diff_spec L R).
Proof. intros. apply difference_correct_sec; assumption. Qed.

Theorem union_correct L R : sincr L -> sincr R ->
  Z.of_nat (length L) + Z.of_nat (length R) < 2 ^ 31 ->
  union_kernel L R = KOk (union_spec L R).
Proof. intros. apply union_correct_sec; try assumption; lia. Qed.

(* ---- the wrappers: None stands for the empty set of rows, on the way in and on the way out ---- *)
Definition rows (o : option (list Z)) : list Z := match o with Some l => l | None => [] end.
Definition operand_ok (o : option (list Z)) : Prop :=
  match o with Some l => sincr l /\ all_u32 l /\ Z.of_nat (length l) < 2 ^ 31 | None => True end.

Theorem intersection_correct l r : operand_ok l -> operand_ok r ->
  intersection l r = KOk (some_if_nonempty (inter_spec (rows l) (rows r))).
Proof.
  destruct l as [L|], r as [R|]; cbn [operand_ok rows intersection]; intros Hl Hr.
  - destruct Hl as (? & _ & ?), Hr as (? & _ & ?). rewrite intersect_correct by (assumption || lia). reflexivity.
  - rewrite inter_spec_nil_r. reflexivity.
  - reflexivity.
  - reflexivity.
Qed.

Theorem union_wrapper_correct l r : operand_ok l -> operand_ok r ->
  Z.of_nat (length (rows l)) + Z.of_nat (length (rows r)) < 2 ^ 31 ->
  union l r = KOk (some_if_nonempty (union_spec (rows l) (rows r))).
Proof.
  destruct l as [L|], r as [R|]; cbn [operand_ok rows union]; intros Hl Hr HS.
  - destruct Hl as (? & _ & ?), Hr as (? & _ & ?). rewrite union_correct by (assumption || lia). reflexivity.
  - rewrite union_spec_nil_r. reflexivity.
  - rewrite union_spec_nil_l. reflexivity.
  - reflexivity.
Qed.

Theorem difference_wrapper_correct l r : operand_ok l -> operand_ok r ->
  difference l r = KOk (some_if_nonempty (diff_spec (rows l) (rows r))).
Proof.
  destruct l as [L|], r as [R|]; cbn [operand_ok rows difference]; intros Hl Hr.
  - destruct Hl as (? & _ & ?), Hr as (? & _ & ?). rewrite difference_correct by (assumption || lia). reflexivity.
  - rewrite diff_spec_nil_r. reflexivity.
  - reflexivity.
  - reflexivity.
Qed.

Lemma some_if_nonempty_None x : some_if_nonempty x = None <-> x = [].
Proof. destruct x; cbn; split; intros; congruence. Qed.

(* ---- the k-way union ---- *)
Lemma rd_of_nth_error a i v : 0 <= i -> nth_error a (Z.to_nat i) = Some v -> rd a i = KOk v.
Proof.
  intros Hi Hn. assert (Z.to_nat i < length a)%nat by (apply nth_error_Some; congruence).
  destruct (rd_ok a i) as [w [E N]]; [lia|]. congruence.
Qed.

(* values[p .. l) = S *)
Definition seg_ok (values : list Z) (p l : Z) (S : list Z) : Prop :=
  0 <= p /\ p = l - Z.of_nat (length S) /\
  skipn (Z.to_nat p) values = S ++ skipn (Z.to_nat l) values.

Lemma seg_nil values p l : seg_ok values p l [] -> p = l.
Proof. intros (_ & H & _). cbn [length] in H. lia. Qed.

Lemma seg_cons values p l x T : seg_ok values p l (x :: T) ->
  p < l /\ rd values p = KOk x /\ seg_ok values (p + 1) l T.
Proof.
  intros (H0 & H1 & H2). cbn [length] in H1. split; [lia|]. split.
  - apply rd_of_nth_error; [exact H0|]. eapply skipn_cons_nth_error. rewrite H2. reflexivity.
  - unfold seg_ok. split; [lia|]. split; [lia|].
    replace (Z.to_nat (p + 1)) with (S (Z.to_nat p)) by lia.
    eapply skipn_S_cons. rewrite H2. reflexivity.
Qed.

(* remove the head if it equals the value just taken *)
Definition drop (mv : Z) (S : list Z) : list Z :=
  match S with x :: T => if x =? mv then T else S | [] => [] end.

Lemma drop_subset mv S x : In x (drop mv S) -> In x S.
Proof. destruct S as [|y T]; cbn [drop]; [auto|]. destruct (y =? mv); [right; assumption | auto]. Qed.

Lemma drop_sincr mv S : sincr S -> sincr (drop mv S).
Proof. destruct S as [|y T]; cbn [drop]; [auto|]. destruct (y =? mv); [apply sincr_tail | auto]. Qed.

Lemma drop_above mv S x : sincr S -> (forall y T, S = y :: T -> mv <= y) -> In x (drop mv S) -> mv < x.
Proof.
  intros HS Hmin. destruct S as [|y T]; cbn [drop]; [contradiction|].
  pose proof (Hmin y T eq_refl). destruct (y =? mv) eqn:E.
  - apply Z.eqb_eq in E. subst y. intros Hx. exact (sincr_head_lt mv T HS x Hx).
  - apply Z.eqb_neq in E. intros Hx. pose proof (in_sincr_ge y T x HS Hx). lia.
Qed.

Lemma drop_cases mv S x : In x S -> x = mv \/ In x (drop mv S).
Proof.
  destruct S as [|y T]; cbn [drop]; [contradiction|]. destruct (y =? mv) eqn:E.
  - apply Z.eqb_eq in E. subst y. intros [->|H]; auto.
  - auto.
Qed.

Section ManySpec.
  Variables values lims : list Z.
  Variable cap : Z.
  Let k := length lims.

  Definition Rel (ps : list Z) (Ss : list (list Z)) : Prop :=
    length ps = k /\ length Ss = k /\
    forall i, (i < k)%nat -> seg_ok values (nth i ps 0) (nth i lims 0) (nth i Ss []).

  Definition scan_inv2 (Ss : list (list Z)) (j : nat) (m : Z * Z) : Prop :=
    (fst m = -1 /\ forall i, (i < j)%nat -> nth i Ss [] = []) \/
    (exists (a : nat) T, fst m = Z.of_nat a /\ (a < j)%nat /\ nth a Ss [] = snd m :: T /\
       forall i x T', (i < j)%nat -> nth i Ss [] = x :: T' -> snd m <= x).

  Lemma scan_spec ps Ss m0 : Rel ps Ss ->
    exists m, for_range k 0 (scan_body values ps lims) (-1, m0) = KOk m /\ scan_inv2 Ss k m.
  Proof.
    intros (Hl1 & Hl2 & Hseg).
    destruct (for_range_inv (scan_body values ps lims) (scan_inv2 Ss) k 0 (-1, m0)) as [m [E Hm]].
    - left. split; [reflexivity|]. intros i Hi. lia.
    - intros j m Hj Hm. unfold scan_body.
      rewrite rd_nth by lia. cbn [kbind]. rewrite rd_nth by (fold k; lia). cbn [kbind].
      pose proof (Hseg j ltac:(lia)) as Sj.
      destruct (nth j Ss []) as [|x T] eqn:ES.
      + apply seg_nil in Sj. rewrite Sj. replace (nth j lims 0 >=? nth j lims 0) with true by (symmetry; apply Z.geb_le; lia).
        exists m. split; [reflexivity|].
        destruct Hm as [[M1 M2]|(a & Ta & M1 & M2 & M3 & M4)].
        * left. split; [exact M1|]. intros i Hi. assert (i = j \/ (i < j)%nat) as [->|Hlt] by lia; auto.
        * right. exists a, Ta. repeat split; try assumption; try lia.
          intros i x T' Hi Hx. assert (i = j \/ (i < j)%nat) as [->|Hlt] by lia; [congruence|]. eapply M4; eassumption.
      + apply seg_cons in Sj. destruct Sj as (Slt & Srd & _).
        replace (nth j ps 0 >=? nth j lims 0) with false by (symmetry; rewrite Z.geb_leb; apply Z.leb_gt; lia).
        rewrite Srd. cbn [kbind].
        destruct ((fst m =? -1) || (x <? snd m)) eqn:C.
        * eexists. split; [reflexivity|]. right. exists j, T. cbn [fst snd]. repeat split; try lia; try assumption.
          intros i x' T' Hi Hx. assert (i = j \/ (i < j)%nat) as [->|Hlt] by lia.
          -- rewrite ES in Hx. inversion Hx. lia.
          -- destruct Hm as [[M1 M2]|(a & Ta & M1 & M2 & M3 & M4)].
             ++ rewrite M2 in Hx by exact Hlt. discriminate.
             ++ apply orb_true_iff in C. destruct C as [C|C]; [apply Z.eqb_eq in C; lia|].
                apply Z.ltb_lt in C. pose proof (M4 i x' T' Hlt Hx). lia.
        * apply orb_false_iff in C. destruct C as [C1 C2]. apply Z.eqb_neq in C1. apply Z.ltb_ge in C2.
          exists m. split; [reflexivity|].
          destruct Hm as [[M1 M2]|(a & Ta & M1 & M2 & M3 & M4)]; [contradiction|].
          right. exists a, Ta. repeat split; try assumption; try lia.
          intros i x' T' Hi Hx. assert (i = j \/ (i < j)%nat) as [->|Hlt] by lia.
          -- rewrite ES in Hx. inversion Hx. lia.
          -- eapply M4; eassumption.
    - exists m. split; [exact E|exact Hm].
  Qed.

  Definition adv_inv2 (ps : list Z) (Ss : list (list Z)) (mv : Z) (j : nat) (ps' : list Z) : Prop :=
    length ps' = k /\
    (forall i, (i < j)%nat -> (i < k)%nat -> seg_ok values (nth i ps' 0) (nth i lims 0) (drop mv (nth i Ss []))) /\
    (forall i, (j <= i)%nat -> nth i ps' 0 = nth i ps 0).

  Lemma adv_spec ps Ss mv : Rel ps Ss ->
    exists ps', for_range k 0 (adv_body values lims mv) ps = KOk ps' /\ Rel ps' (map (drop mv) Ss).
  Proof.
    intros (Hl1 & Hl2 & Hseg).
    destruct (for_range_inv (adv_body values lims mv) (adv_inv2 ps Ss mv) k 0 ps) as [ps' [E Hm]].
    - unfold adv_inv2. split; [exact Hl1|]. split; [intros; lia | intros; reflexivity].
    - intros j q Hj (Q1 & Q2 & Q3). unfold adv_body.
      rewrite rd_nth by lia. cbn [kbind]. rewrite rd_nth by (fold k; lia). cbn [kbind].
      pose proof (Hseg j ltac:(lia)) as Sj. rewrite <- (Q3 j) in Sj by lia.
      destruct (nth j Ss []) as [|x T] eqn:ES.
      + pose proof (seg_nil _ _ _ Sj) as Ep. rewrite Ep.
        replace (nth j lims 0 <? nth j lims 0) with false by (symmetry; apply Z.ltb_ge; lia).
        exists q. split; [reflexivity|]. unfold adv_inv2. split; [exact Q1|]. split; [| intros i Hi; apply Q3; lia].
        intros i Hi Hk. assert (i = j \/ (i < j)%nat) as [->|Hlt] by lia; [|auto].
        rewrite ES. cbn [drop]. exact Sj.
      + pose proof (seg_cons _ _ _ _ _ Sj) as (Slt & Srd & Snext).
        replace (nth j q 0 <? nth j lims 0) with true by (symmetry; apply Z.ltb_lt; lia).
        rewrite Srd. cbn [kbind].
        destruct (x =? mv) eqn:C.
        * rewrite upd_nat by lia. eexists. split; [reflexivity|]. unfold adv_inv2. split; [|split].
          -- rewrite updn_length by lia. exact Q1.
          -- intros i Hi Hk. assert (i = j \/ (i < j)%nat) as [->|Hlt] by lia.
             ++ rewrite updn_nth_same by lia. rewrite ES. cbn [drop]. rewrite C. exact Snext.
             ++ rewrite updn_nth_other by lia. auto.
          -- intros i Hi. rewrite updn_nth_other by lia. apply Q3. lia.
        * exists q. split; [reflexivity|]. unfold adv_inv2. split; [exact Q1|]. split; [| intros i Hi; apply Q3; lia].
          intros i Hi Hk. assert (i = j \/ (i < j)%nat) as [->|Hlt] by lia; [|auto].
          rewrite ES. cbn [drop]. rewrite C. exact Sj.
    - exists ps'. split; [exact E|]. destruct Hm as (Q1 & Q2 & Q3). unfold Rel. split; [|split].
      + exact Q1.
      + rewrite map_length. exact Hl2.
      + intros i Hi. change (@nil Z) with (drop mv []). rewrite map_nth. apply Q2; lia.
  Qed.

  (* what the output and the remaining suffixes must satisfy between iterations *)
  Definition AInv (Ss : list (list Z)) (o : list Z) : Prop :=
    Forall sincr Ss /\
    (forall y S x, In y o -> In S Ss -> In x S -> y < x) /\
    sincr (rev o).

  Lemma many_loop_spec : forall fuel s Ss r, Rel (ptrs s) Ss -> AInv Ss (mout s) ->
    many_loop fuel values lims (Z.of_nat k) cap s = KOk r ->
    sincr r /\ forall x, In x r <-> In x (mout s) \/ exists S, In S Ss /\ In x S.
  Proof.
    induction fuel as [|f IH]; intros s Ss r HR (A1 & A2 & A3) H; cbn [many_loop] in H; [discriminate|].
    rewrite Nat2Z.id in H.
    destruct (scan_spec (ptrs s) Ss (mmin s) HR) as [m [Es Hm]]. rewrite Es in H. cbn [kbind] in H.
    destruct (fst m =? -1) eqn:E.
    - apply Z.eqb_eq in E. inversion H. subst r. split; [exact A3|].
      destruct Hm as [[_ M2]|(a & Ta & M1 & _)]; [|lia].
      intros x. rewrite <- in_rev. split; [auto|]. intros [Hx|(S & HS & Hx)]; [exact Hx|].
      destruct (In_nth Ss S [] HS) as [i [Hi Ei]]. destruct HR as (_ & Hl2 & _).
      rewrite M2 in Ei by (fold k in Hl2; lia). subst S. contradiction.
    - apply Z.eqb_neq in E. destruct Hm as [[M1 _]|(a & Ta & M1 & M2 & M3 & M4)]; [contradiction|].
      destruct (wr cap (mout s) (snd m)) as [o| |] eqn:Ew; cbn [kbind] in H; try discriminate.
      apply wr_inv in Ew. subst o.
      destruct (adv_spec (ptrs s) Ss (snd m) HR) as [ps' [Ea HR']]. rewrite Ea in H. cbn [kbind] in H.
      set (mv := snd m) in *.
      assert (Hl2 : length Ss = k) by (destruct HR as (_ & Hl2 & _); exact Hl2).
      assert (HSa : In (mv :: Ta) Ss) by (rewrite <- M3; apply nth_In; lia).
      assert (Hmin : forall S, In S Ss -> forall y T, S = y :: T -> mv <= y).
      { intros S HS y T ->. destruct (In_nth Ss _ [] HS) as [i [Hi Ei]]. eapply M4; [|exact Ei]. lia. }
      apply IH with (Ss := map (drop mv) Ss) in H; cbn [ptrs mout]; [|exact HR'|].
      + destruct H as [Hs Hmem]. split; [exact Hs|]. intros x. rewrite Hmem. cbn [mout]. split.
        * intros [[<-|Hx]|(S' & HS' & Hx)].
          -- right. exists (mv :: Ta). split; [exact HSa|left; reflexivity].
          -- left. exact Hx.
          -- apply in_map_iff in HS'. destruct HS' as (S & <- & HS). right. exists S. split; [exact HS|].
             eapply drop_subset. exact Hx.
        * intros [Hx|(S & HS & Hx)]; [left; right; exact Hx|].
          destruct (drop_cases mv S x Hx) as [->|Hd]; [left; left; reflexivity|].
          right. exists (drop mv S). split; [apply in_map; exact HS|exact Hd].
      + unfold AInv. split; [|split].
        * apply Forall_forall. intros S' HS'. apply in_map_iff in HS'. destruct HS' as (S & <- & HS).
          apply drop_sincr. exact (proj1 (Forall_forall _ _) A1 S HS).
        * intros y S' x [<-|Hy] HS' Hx; apply in_map_iff in HS'; destruct HS' as (S & <- & HS).
          -- eapply drop_above; [exact (proj1 (Forall_forall _ _) A1 S HS) | exact (Hmin S HS) | exact Hx].
          -- eapply A2; [exact Hy | exact HS | eapply drop_subset; exact Hx].
        * apply sincr_rev_cons; [exact A3|]. intros y Hy. eapply A2; [exact Hy | exact HSa | left; reflexivity].
  Qed.
End ManySpec.

Lemma skipn_app_exact (pre rest : list Z) : skipn (length pre) (pre ++ rest) = rest.
Proof. induction pre as [|x pre IH]; cbn [length skipn app]; auto. Qed.

Lemma zip_sub_length a : forall b, length a = length b -> length (zip_sub a b) = length a.
Proof.
  induction a as [|x a IH]; intros [|y b] H; cbn [length zip_sub] in *; try lia. rewrite IH by lia. reflexivity.
Qed.

Lemma init_seg : forall (vas : list (list Z)) (pre : list Z) i, (i < length vas)%nat ->
  seg_ok (pre ++ concat vas)
    (nth i (zip_sub (cumsum (Z.of_nat (length pre)) (map (fun a => Z.of_nat (length a)) vas))
                    (map (fun a => Z.of_nat (length a)) vas)) 0)
    (nth i (cumsum (Z.of_nat (length pre)) (map (fun a => Z.of_nat (length a)) vas)) 0)
    (nth i vas []).
Proof.
  induction vas as [|A vas IH]; intros pre i Hi; cbn [length] in Hi; [lia|].
  cbn [map cumsum zip_sub concat]. destruct i as [|i]; cbn [nth].
  - unfold seg_ok. split; [lia|]. split; [lia|].
    replace (Z.to_nat (Z.of_nat (length pre) + Z.of_nat (length A) - Z.of_nat (length A))) with (length pre) by lia.
    rewrite skipn_app_exact.
    replace (Z.to_nat (Z.of_nat (length pre) + Z.of_nat (length A))) with (length (pre ++ A)) by (rewrite app_length; lia).
    rewrite (app_assoc pre A), skipn_app_exact. reflexivity.
  - replace (Z.of_nat (length pre) + Z.of_nat (length A)) with (Z.of_nat (length (pre ++ A))) by (rewrite app_length; lia).
    rewrite (app_assoc pre A). apply IH. lia.
Qed.

Lemma nonempty_b_false a : nonempty_b a = false -> a = [].
Proof. destruct a; cbn; congruence. Qed.

Theorem union_many_correct (arrays : list (list Z)) :
  Forall sincr arrays -> Z.of_nat (length (concat arrays)) < 2 ^ 31 ->
  exists r, union_many_kernel arrays = KOk r /\ sincr r /\
            forall x, In x r <-> exists L, In L arrays /\ In x L.
Proof.
  intros HS Hlen. destruct (union_many_total arrays Hlen) as [r Hr]. exists r. split; [exact Hr|].
  unfold union_many_kernel in Hr.
  set (vas := filter nonempty_b arrays) in *.
  assert (Hvas : forall x, (exists L, In L vas /\ In x L) <-> (exists L, In L arrays /\ In x L)).
  { intros x. split; intros (Lx & H1 & H2).
    - apply filter_In in H1. exists Lx. tauto.
    - exists Lx. split; [|exact H2]. apply filter_In. split; [exact H1|]. destruct Lx; [contradiction|reflexivity]. }
  destruct (Z.of_nat (length vas) =? 0) eqn:E.
  - inversion Hr. subst r. split; [exact Logic.I|]. intros x. rewrite <- Hvas.
    apply Z.eqb_eq in E. destruct vas; cbn [length] in E; [|lia].
    split; [contradiction|]. intros (Lx & [] & _).
  - set (larr := map (fun a => Z.of_nat (length a)) vas) in *.
    assert (Hk : length (cumsum 0 larr) = length vas) by (rewrite cumsum_length; unfold larr; apply map_length).
    rewrite <- Hk in Hr.
    apply many_loop_spec with (Ss := vas) in Hr; cbn [ptrs mout] in *.
    + destruct Hr as [Hs Hmem]. split; [exact Hs|]. intros x. rewrite Hmem, <- Hvas. split; [intros [[]|H]; exact H | auto].
    + unfold Rel. split; [|split].
      * rewrite zip_sub_length; [reflexivity|]. rewrite cumsum_length. reflexivity.
      * rewrite Hk. reflexivity.
      * intros i Hi. rewrite Hk in Hi. exact (init_seg vas [] i Hi).
    + unfold AInv. split; [|split].
      * apply Forall_forall. intros S HSv. apply filter_In in HSv. exact (proj1 (Forall_forall _ _) HS S (proj1 HSv)).
      * intros y S x [].
      * exact Logic.I.
Qed.

Corollary union_many_is_spec (arrays : list (list Z)) :
  Forall sincr arrays -> Z.of_nat (length (concat arrays)) < 2 ^ 31 ->
  union_many_kernel arrays = KOk (union_many_spec arrays).
Proof.
  intros HS Hlen. destruct (union_many_correct arrays HS Hlen) as (r & Hr & Hs & Hmem).
  rewrite Hr. f_equal. apply union_many_spec_unique; assumption.
Qed.

(* ---- C08 as stated in Properties/C08.v ---- *)
Lemma C08_intersect_lemma L R :
  sincr L -> sincr R -> all_u32 L -> all_u32 R ->
  Z.of_nat (length L) < 2 ^ 31 -> Z.of_nat (length R) < 2 ^ 31 ->
  intersect_kernel L R = KOk (inter_spec L R) /\
  sincr (inter_spec L R) /\ all_u32 (inter_spec L R) /\
  forall x, In x (inter_spec L R) <-> In x L /\ In x R.
Proof.
  intros SL SR UL UR HL HR. split; [apply intersect_correct; assumption|].
  split; [apply inter_spec_sincr; assumption|]. split; [apply inter_spec_all_u32; assumption|].
  intros x. apply inter_spec_In.
Qed.

Lemma C08_union_lemma L R :
  sincr L -> sincr R -> all_u32 L -> all_u32 R ->
  Z.of_nat (length L) + Z.of_nat (length R) < 2 ^ 31 ->
  union_kernel L R = KOk (union_spec L R) /\
  sincr (union_spec L R) /\ all_u32 (union_spec L R) /\
  forall x, In x (union_spec L R) <-> In x L \/ In x R.
Proof.
  intros SL SR UL UR HS. split; [apply union_correct; assumption|].
  split; [apply union_spec_sincr; assumption|]. split; [apply union_spec_all_u32; assumption|].
  intros x. apply union_spec_In.
Qed.

Lemma C08_difference_lemma L R :
  sincr L -> sincr R -> all_u32 L -> all_u32 R ->
  Z.of_nat (length L) < 2 ^ 31 -> Z.of_nat (length R) < 2 ^ 31 ->
  difference_kernel L R = KOk (diff_spec L R) /\
  sincr (diff_spec L R) /\ all_u32 (diff_spec L R) /\
  forall x, In x (diff_spec L R) <-> In x L /\ ~ In x R.
Proof.
  intros SL SR UL UR HL HR. split; [apply difference_correct; assumption|].
  split; [apply diff_spec_sincr; assumption|]. split; [apply diff_spec_all_u32; assumption|].
  intros x. apply diff_spec_In.
Qed.

(* wrappers: an absent operand is the empty set of rows, and the result is None exactly when the
   mathematical result is empty; in particular the documented cases:
   intersection: either operand None -> None; union: both None -> None, one None -> the other operand
   (None if it is empty); difference: left None -> None, right None -> left (None if empty). *)
Lemma C08_wrappers_lemma l r : operand_ok l -> operand_ok r ->
  Z.of_nat (length (rows l)) + Z.of_nat (length (rows r)) < 2 ^ 31 ->
  intersection l r = KOk (some_if_nonempty (inter_spec (rows l) (rows r))) /\
  union l r = KOk (some_if_nonempty (union_spec (rows l) (rows r))) /\
  difference l r = KOk (some_if_nonempty (diff_spec (rows l) (rows r))).
Proof.
  intros Hl Hr HS. split; [apply intersection_correct; assumption|].
  split; [apply union_wrapper_correct; assumption | apply difference_wrapper_correct; assumption].
Qed.

Lemma C08_wrappers_none_lemma :
  (forall r, intersection None r = KOk None) /\ (forall l, intersection l None = KOk None) /\
  union None None = KOk None /\
  (forall R, union None (Some R) = KOk (some_if_nonempty R)) /\
  (forall L, union (Some L) None = KOk (some_if_nonempty L)) /\
  (forall r, difference None r = KOk None) /\
  (forall L, difference (Some L) None = KOk (some_if_nonempty L)) /\
  (forall x, some_if_nonempty x = None <-> x = []).
Proof.
  repeat split; try reflexivity.
  - intros [l|]; reflexivity.
  - apply some_if_nonempty_None.
  - apply some_if_nonempty_None.
Qed.

Lemma C08_many_lemma (arrays : list (list Z)) :
  Forall sincr arrays -> Forall all_u32 arrays -> Z.of_nat (length (concat arrays)) < 2 ^ 31 ->
  union_many_kernel arrays = KOk (union_many_spec arrays) /\
  sincr (union_many_spec arrays) /\ all_u32 (union_many_spec arrays) /\
  forall x, In x (union_many_spec arrays) <-> exists L, In L arrays /\ In x L.
Proof.
  intros HS HU Hlen. split; [apply union_many_is_spec; assumption|].
  split; [apply union_many_spec_sincr; assumption|]. split; [apply union_many_spec_all_u32; assumption|].
  intros x. apply union_many_spec_In.
Qed.
