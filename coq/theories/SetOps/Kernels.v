(* SetOps/Kernels.v — index-level transcription of src/catii/set_operations.pyx (definitions only).

   What is modelled, and how:
   * a typed memoryview is a [list Z]; every element read is [rd a i], every element write into the
     output buffer is [wr cap out v] (the write goes to index result_len = length of what has been
     written so far), every write into the k-way [pointers] array is [upd].  All three return [OOB]
     unless 0 <= i < length (boundscheck(False) + wraparound(False): a negative index does NOT wrap,
     it is simply outside the buffer).
   * `cdef int` variables hold [cint z] (two's complement wrap to 32 bits) wherever a value enters
     them from outside (shape[0], left_len + right_len) or is incremented ([inc]); the theorems carry
     `length < 2^31` hypotheses under which [cint] is the identity.  `long` variables (k-way pointers,
     limits, arrnum) are plain [Z].
   * element values are [Z]; the only operations the kernels apply to them are the comparisons
     > < == (the repaired k-way kernel has no `max + 1` sentinel any more), so no uint32 arithmetic
     occurs; for elements in [0, 2^32) Z comparison is uint32 comparison.
   * `while 1:` loops run on explicit fuel; exhaustion is the error value [NoFuel].
     `for arrnum in range(num_arrays)` is structural ([for_range]).
   * Python's short-circuit `or` / `and`: the second operand (which contains an element read) is only
     evaluated when the first does not decide.
   * NumPy calls outside the kernels' loops are modelled by their value: numpy.asarray(x) = x,
     numpy.concatenate((a, b)) = a ++ b, result[:n] = left_array, numpy.cumsum, result[:result_len].
     numpy.empty(n) for n < 0 (only reachable by int overflow) is not modelled. *)
From Coq Require Import ZArith List Bool.
Import ListNotations.
Open Scope Z_scope.

Inductive kres (A : Type) := KOk (a : A) | OOB | NoFuel.
Arguments KOk {A} a.
Arguments OOB {A}.
Arguments NoFuel {A}.

Definition kbind {A B : Type} (r : kres A) (f : A -> kres B) : kres B :=
  match r with KOk a => f a | OOB => OOB | NoFuel => NoFuel end.

Declare Scope kres_scope.
Notation "x <- e ;; k" := (kbind e (fun x => k))
  (at level 61, e at next level, right associativity) : kres_scope.
Local Open Scope kres_scope.

(* ---- machine integers ---- *)
Definition cint (z : Z) : Z := (z + 2 ^ 31) mod 2 ^ 32 - 2 ^ 31.      (* a value stored in a C int *)
Definition clen (a : list Z) : Z := cint (Z.of_nat (length a)).        (* cdef int n = a.shape[0] *)
Definition inc (p : Z) : Z := cint (p + 1).                            (* p += 1 on a C int *)

(* ---- buffers ---- *)
Definition rd (a : list Z) (i : Z) : kres Z :=
  if (0 <=? i) && (i <? Z.of_nat (length a)) then
    match nth_error a (Z.to_nat i) with Some v => KOk v | None => OOB end
  else OOB.

(* The output buffer has [cap] elements; [out] is the prefix written so far, newest first;
   result_len (a C int) is its length.  `result_view[result_len] = v; result_len += 1`. *)
Definition wr (cap : Z) (out : list Z) (v : Z) : kres (list Z) :=
  let n := cint (Z.of_nat (length out)) in
  if (0 <=? n) && (n <? cap) then KOk (v :: out) else OOB.

(* a[i] = v on a long[:] memoryview *)
Definition upd (a : list Z) (i : Z) (v : Z) : kres (list Z) :=
  if (0 <=? i) && (i <? Z.of_nat (length a)) then
    KOk (firstn (Z.to_nat i) a ++ v :: skipn (S (Z.to_nat i)) a)
  else OOB.

(* ---- the two-pointer loops ---- *)
Record st := { lp : Z; rp : Z; lv : Z; rv : Z; out : list Z }.

Inductive step := Continue (s : st) | Break (s : st) | Fault.

(* `while 1:` *)
Fixpoint run (body : st -> step) (fuel : nat) (s : st) : kres st :=
  match fuel with
  | O => NoFuel
  | S f => match body s with
           | Continue s' => run body f s'
           | Break s' => KOk s'
           | Fault => OOB
           end
  end.

(* set_intersect_merge_np, lines 54-78 *)
Definition ibody (cap : Z) (L R : list Z) (ll rl : Z) (s : st) : step :=
  if lv s >? rv s then
    let rp' := inc (rp s) in
    if rp' >=? rl then Break {| lp := lp s; rp := rp'; lv := lv s; rv := rv s; out := out s |}
    else match rd R rp' with
         | KOk v => Continue {| lp := lp s; rp := rp'; lv := lv s; rv := v; out := out s |}
         | _ => Fault end
  else if rv s >? lv s then
    let lp' := inc (lp s) in
    if lp' >=? ll then Break {| lp := lp'; rp := rp s; lv := lv s; rv := rv s; out := out s |}
    else match rd L lp' with
         | KOk v => Continue {| lp := lp'; rp := rp s; lv := v; rv := rv s; out := out s |}
         | _ => Fault end
  else
    match wr cap (out s) (lv s) with
    | KOk o =>
      let lp' := inc (lp s) in
      let rp' := inc (rp s) in
      if lp' >=? ll then Break {| lp := lp'; rp := rp'; lv := lv s; rv := rv s; out := o |}
      else if rp' >=? rl then Break {| lp := lp'; rp := rp'; lv := lv s; rv := rv s; out := o |}
      else match rd L lp', rd R rp' with
           | KOk a, KOk b => Continue {| lp := lp'; rp := rp'; lv := a; rv := b; out := o |}
           | _, _ => Fault end
    | _ => Fault
    end.

(* set_union_merge_np, lines 138-166 *)
Definition ubody (cap : Z) (L R : list Z) (ll rl : Z) (s : st) : step :=
  if lv s >? rv s then
    match wr cap (out s) (rv s) with
    | KOk o =>
      let rp' := inc (rp s) in
      if rp' >=? rl then Break {| lp := lp s; rp := rp'; lv := lv s; rv := rv s; out := o |}
      else match rd R rp' with
           | KOk v => Continue {| lp := lp s; rp := rp'; lv := lv s; rv := v; out := o |}
           | _ => Fault end
    | _ => Fault
    end
  else if rv s >? lv s then
    match wr cap (out s) (lv s) with
    | KOk o =>
      let lp' := inc (lp s) in
      if lp' >=? ll then Break {| lp := lp'; rp := rp s; lv := lv s; rv := rv s; out := o |}
      else match rd L lp' with
           | KOk v => Continue {| lp := lp'; rp := rp s; lv := v; rv := rv s; out := o |}
           | _ => Fault end
    | _ => Fault
    end
  else
    match wr cap (out s) (lv s) with
    | KOk o =>
      let lp' := inc (lp s) in
      let rp' := inc (rp s) in
      if lp' >=? ll then Break {| lp := lp'; rp := rp'; lv := lv s; rv := rv s; out := o |}
      else if rp' >=? rl then Break {| lp := lp'; rp := rp'; lv := lv s; rv := rv s; out := o |}
      else match rd L lp', rd R rp' with
           | KOk a, KOk b => Continue {| lp := lp'; rp := rp'; lv := a; rv := b; out := o |}
           | _, _ => Fault end
    | _ => Fault
    end.

(* set_difference_merge_np, lines 300-324 *)
Definition dbody (cap : Z) (L R : list Z) (ll rl : Z) (s : st) : step :=
  if lv s >? rv s then
    let rp' := inc (rp s) in
    if rp' >=? rl then Break {| lp := lp s; rp := rp'; lv := lv s; rv := rv s; out := out s |}
    else match rd R rp' with
         | KOk v => Continue {| lp := lp s; rp := rp'; lv := lv s; rv := v; out := out s |}
         | _ => Fault end
  else if rv s >? lv s then
    match wr cap (out s) (lv s) with
    | KOk o =>
      let lp' := inc (lp s) in
      if lp' >=? ll then Break {| lp := lp'; rp := rp s; lv := lv s; rv := rv s; out := o |}
      else match rd L lp' with
           | KOk v => Continue {| lp := lp'; rp := rp s; lv := v; rv := rv s; out := o |}
           | _ => Fault end
    | _ => Fault
    end
  else
    let lp' := inc (lp s) in
    let rp' := inc (rp s) in
    if lp' >=? ll then Break {| lp := lp'; rp := rp'; lv := lv s; rv := rv s; out := out s |}
    else if rp' >=? rl then Break {| lp := lp'; rp := rp'; lv := lv s; rv := rv s; out := out s |}
    else match rd L lp', rd R rp' with
         | KOk a, KOk b => Continue {| lp := lp'; rp := rp'; lv := a; rv := b; out := out s |}
         | _, _ => Fault end.

(* `while ptr < len: result_view[result_len] = a[ptr]; result_len += 1; ptr += 1` *)
Fixpoint tail_copy (fuel : nat) (cap : Z) (a : list Z) (alen : Z) (p : Z) (o : list Z) : kres (list Z) :=
  match fuel with
  | O => NoFuel
  | S f =>
    if p <? alen then
      v <- rd a p ;; o' <- wr cap o v ;; tail_copy f cap a alen (inc p) o'
    else KOk o
  end.

Definition st0 (l0 r0 : Z) : st := {| lp := 0; rp := 0; lv := l0; rv := r0; out := [] |}.
Definition loop_fuel (L R : list Z) : nat := S (length L + length R).

Definition intersect_kernel (L R : list Z) : kres (list Z) :=
  let ll := clen L in
  let rl := clen R in
  if (ll =? 0) || (rl =? 0) then KOk [] else
  l0 <- rd L 0 ;;
  r0 <- rd R 0 ;;
  (* (left > right_array[right_len - 1]) or (right > left_array[left_len - 1]) *)
  rlast <- rd R (rl - 1) ;;
  if l0 >? rlast then KOk [] else
  llast <- rd L (ll - 1) ;;
  if r0 >? llast then KOk [] else
  let cap := Z.min ll rl in
  s <- run (ibody cap L R ll rl) (loop_fuel L R) (st0 l0 r0) ;;
  KOk (rev (out s)).

Definition union_kernel (L R : list Z) : kres (list Z) :=
  let ll := clen L in
  let rl := clen R in
  let cap := cint (ll + rl) in
  if ll =? 0 then KOk R
  else if rl =? 0 then KOk L
  else
  l0 <- rd L 0 ;;
  r0 <- rd R 0 ;;
  rlast <- rd R (rl - 1) ;;
  if l0 >? rlast then KOk (R ++ L) else
  llast <- rd L (ll - 1) ;;
  if r0 >? llast then KOk (L ++ R) else
  s <- run (ubody cap L R ll rl) (loop_fuel L R) (st0 l0 r0) ;;
  o1 <- tail_copy (S (length L)) cap L ll (lp s) (out s) ;;
  o2 <- tail_copy (S (length R)) cap R rl (rp s) o1 ;;
  KOk (rev o2).

Definition difference_kernel (L R : list Z) : kres (list Z) :=
  let ll := clen L in
  let rl := clen R in
  let cap := ll in
  if ll =? 0 then KOk []
  else if rl =? 0 then KOk L
  else
  l0 <- rd L 0 ;;
  r0 <- rd R 0 ;;
  rlast <- rd R (rl - 1) ;;
  if l0 >? rlast then KOk L else
  llast <- rd L (ll - 1) ;;
  if r0 >? llast then KOk L else
  s <- run (dbody cap L R ll rl) (loop_fuel L R) (st0 l0 r0) ;;
  o1 <- tail_copy (S (length L)) cap L ll (lp s) (out s) ;;
  KOk (rev o1).

(* ---- the wrappers (None = absent operand / "no rows") ---- *)
Definition some_if_nonempty (r : list Z) : option (list Z) :=
  match r with [] => None | _ => Some r end.

Definition intersection (l r : option (list Z)) : kres (option (list Z)) :=
  match l, r with
  | Some L, Some R => x <- intersect_kernel L R ;; KOk (some_if_nonempty x)
  | _, _ => KOk None
  end.

Definition union (l r : option (list Z)) : kres (option (list Z)) :=
  match l, r with
  | None, None => KOk None
  | None, Some R => KOk (some_if_nonempty R)
  | Some L, None => KOk (some_if_nonempty L)
  | Some L, Some R => x <- union_kernel L R ;; KOk (some_if_nonempty x)
  end.

Definition difference (l r : option (list Z)) : kres (option (list Z)) :=
  match l, r with
  | None, _ => KOk None
  | Some L, None => KOk (some_if_nonempty L)
  | Some L, Some R => x <- difference_kernel L R ;; KOk (some_if_nonempty x)
  end.

(* ---- set_union_merge_many ---- *)
Definition nonempty_b (a : list Z) : bool := match a with [] => false | _ => true end.

Fixpoint cumsum (acc : Z) (l : list Z) : list Z :=
  match l with [] => [] | x :: t => (acc + x) :: cumsum (acc + x) t end.

Fixpoint zip_sub (a b : list Z) : list Z :=     (* limarr - larr *)
  match a, b with x :: a', y :: b' => (x - y) :: zip_sub a' b' | _, _ => [] end.

(* `for i in range(n)` starting at i *)
Fixpoint for_range {S : Type} (n : nat) (i : Z) (body : Z -> S -> kres S) (s : S) : kres S :=
  match n with
  | O => KOk s
  | Datatypes.S n' => s' <- body i s ;; for_range n' (i + 1) body s'
  end.

(* lines 235-242; state = (min_arrnum, min_value) *)
Definition scan_body (values pointers limits : list Z) (arrnum : Z) (m : Z * Z) : kres (Z * Z) :=
  ptr <- rd pointers arrnum ;;
  lim <- rd limits arrnum ;;
  if ptr >=? lim then KOk m else
  value <- rd values ptr ;;
  if (fst m =? -1) || (value <? snd m) then KOk (arrnum, value) else KOk m.

(* lines 252-255 *)
Definition adv_body (values limits : list Z) (min_value : Z) (arrnum : Z) (pointers : list Z) : kres (list Z) :=
  ptr <- rd pointers arrnum ;;
  lim <- rd limits arrnum ;;
  if ptr <? lim then
    v <- rd values ptr ;;
    if v =? min_value then upd pointers arrnum (ptr + 1) else KOk pointers
  else KOk pointers.

Record mst := { ptrs : list Z; mout : list Z; mmin : Z }.

Fixpoint many_loop (fuel : nat) (values limits : list Z) (num cap : Z) (s : mst) : kres (list Z) :=
  match fuel with
  | O => NoFuel
  | S f =>
    m <- for_range (Z.to_nat num) 0 (scan_body values (ptrs s) limits) (-1, mmin s) ;;
    if fst m =? -1 then KOk (rev (mout s)) else
    o <- wr cap (mout s) (snd m) ;;
    ps <- for_range (Z.to_nat num) 0 (adv_body values limits (snd m)) (ptrs s) ;;
    many_loop f values limits num cap {| ptrs := ps; mout := o; mmin := snd m |}
  end.

Definition union_many_kernel (arrays : list (list Z)) : kres (list Z) :=
  let vas := filter nonempty_b arrays in
  let num := Z.of_nat (length vas) in
  if num =? 0 then KOk [] else
  let values := concat vas in
  let larr := map (fun a => Z.of_nat (length a)) vas in
  let limits := cumsum 0 larr in
  let pointers := zip_sub limits larr in
  let cap := Z.of_nat (length values) in
  many_loop (S (length values)) values limits num cap {| ptrs := pointers; mout := []; mmin := 0 |}.
