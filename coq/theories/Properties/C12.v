(* C12 - a torn INDX file is always rejected.
   [firstn k bytes] is the file cut after k bytes; [torn_stage k] is the step of the loader that
   refuses it (magic for k < 4, version for k < 8, the short size word for k < 16, the mmap of
   16 + size bytes from then on). *)
From Coq Require Import ZArith List Bool.
From Catii Require Import Indx.Bytes Indx.Layout Indx.Save Indx.Load Indx.RoundTrip Indx.Torn.
Import ListNotations.
Open Scope Z_scope.

Theorem C12_torn : forall es common, ok es common ->
  exists bytes, save es common = SOk bytes /\
  forall k, (k < length bytes)%nat -> load (firstn k bytes) = LErr (torn_stage k).
Proof. exact Torn.C12_torn. Qed.
Print Assumptions C12_torn.

Theorem C12_torn_rejected : forall es common bytes, ok es common -> save es common = SOk bytes ->
  forall k, (k < length bytes)%nat -> exists s, load (firstn k bytes) = LErr s.
Proof. exact Torn.C12_torn_rejected. Qed.
Print Assumptions C12_torn_rejected.

(* the same for every specification file, whoever wrote it *)
Theorem C12_torn_any_writer : forall d0 iw rw es common k, admissible iw rw es common -> 0 <= d0 <= 255 ->
  (k < length (layout_d d0 iw rw es common))%nat ->
  load (firstn k (layout_d d0 iw rw es common)) = LErr (torn_stage k).
Proof. exact Torn.torn_layout. Qed.
Print Assumptions C12_torn_any_writer.

Example C12_nonvacuous :
  ok [([1; 0; 2 ^ 40], [3; 5; 2 ^ 32 - 1]); ([1; 1; 7], []); ([300; 0; 0], [0])] (2 ^ 62) /\
  (match save [([1; 0; 2 ^ 40], [3; 5; 2 ^ 32 - 1]); ([1; 1; 7], []); ([300; 0; 0], [0])] (2 ^ 62) with
   | SOk b => length b | SErr _ => O end) = 131%nat.
Proof. split; [apply ok_b_ok; vm_compute; reflexivity|vm_compute; reflexivity]. Qed.
