(* C10 - INDX save then load is the identity.
   [save] / [load] are the models of IndxIO.save (dtype uint32) / IndxIO.load (Indx/Save.v, Indx/Load.v),
   tied to the code by the C10 correspondence; an entries dict is an association list in dict order;
   the third component of the loader's result is the row-id dtype's itemsize (4 = uint32). *)
From Coq Require Import ZArith List Bool.
From Catii Require Import Indx.Bytes Indx.Layout Indx.Save Indx.Load Indx.RoundTrip.
Import ListNotations.
Open Scope Z_scope.

Theorem le_roundtrip : forall w v, 0 <= v < 256 ^ Z.of_nat w -> le_decode w (le_encode w v) = v.
Proof. exact Bytes.le_roundtrip. Qed.
Print Assumptions le_roundtrip.

(* ok: uniform arity 1..255, coordinates and common in [0, 2^63), row ids in [0, 2^32), fewer than
   2^32 entries and row ids per entry, no repeated key (a dict), fewer than 2^60 row ids in total
   (file below 2^63 bytes).  Row ids need not be increasing. *)
Theorem C10_roundtrip : forall es common, ok es common ->
  exists bytes, save es common = SOk bytes /\ load bytes = LOk es common 4.
Proof. exact RoundTrip.C10_roundtrip. Qed.
Print Assumptions C10_roundtrip.

(* non-vacuity: arity 3, an 8-byte coordinate, a common value wider than some coordinates, an empty
   row-id array, boundary row ids; and the empty dict *)
Example C10_nonvacuous :
  ok [([1; 0; 2 ^ 40], [3; 5; 2 ^ 32 - 1]); ([1; 1; 7], []); ([300; 0; 0], [0])] (2 ^ 62) /\
  ok [] 70000 /\
  save [([1; 0], [3; 5]); ([2; 1], [])] 300 =
    SOk [73; 78; 68; 88; 48; 48; 48; 49;  33; 0; 0; 0; 0; 0; 0; 0;  2;  2; 0; 0; 0;  2;  44; 1;
         1; 0; 0; 0;  2; 0; 1; 0;  4;  2; 0; 0; 0;  0; 0; 0; 0;  3; 0; 0; 0;  5; 0; 0; 0].
Proof. split; [apply ok_b_ok; vm_compute; reflexivity|split; [apply ok_b_ok; vm_compute; reflexivity|vm_compute; reflexivity]]. Qed.
