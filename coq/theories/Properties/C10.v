(* C10 - INDX save then load is the identity.
   [save] / [load] are the models of IndxIO.save (dtype uint32) / IndxIO.load (Indx/Save.v, Indx/Load.v),
   tied to the code by the C10 correspondence; an entries dict is an association list in dict order;
   the third component of the loader's result is the row-id dtype's itemsize (4 = uint32). *)
From Coq Require Import ZArith List Bool.
From Catii Require Import IIndex.Model IIndex.ModelFacts Indx.Bytes Indx.BytesFacts Indx.Layout Indx.Save Indx.Load Indx.RoundTrip Indx.Rebuild Indx.LoadWF.
Import ListNotations.
Open Scope Z_scope.

Theorem le_roundtrip : forall w v, 0 <= v < 256 ^ Z.of_nat w -> le_decode w (le_encode w v) = v.
Proof. exact BytesFacts.le_roundtrip. Qed.
Print Assumptions le_roundtrip.

(* ok: uniform arity 1..255, coordinates and common in [0, 2^63), row ids in [0, 2^32), fewer than
   2^32 entries and row ids per entry, no repeated key (a dict), fewer than 2^60 row ids in total
   (file below 2^63 bytes).  Row ids need not be increasing. *)
Theorem C10_roundtrip : forall es common, ok es common ->
  exists bytes, save es common = SOk bytes /\ load bytes = LOk es common 4.
Proof. exact RoundTrip.C10_roundtrip. Qed.
Print Assumptions C10_roundtrip.

(* non-vacuity: arity 3, an 8-byte coordinate, a common value wider than some coordinates, an empty
   row-id array, boundary row ids; and the empty dict *)
Example C10_nonvacuous :
  ok [([1; 0; 2 ^ 40], [3; 5; 2 ^ 32 - 1]); ([1; 1; 7], []); ([300; 0; 0], [0])] (2 ^ 62) /\
  ok [] 70000 /\
  save [([1; 0], [3; 5]); ([2; 1], [])] 300 =
    SOk [73; 78; 68; 88; 48; 48; 48; 49;  33; 0; 0; 0; 0; 0; 0; 0;  2;  2; 0; 0; 0;  2;  44; 1;
         1; 0; 0; 0;  2; 0; 1; 0;  4;  2; 0; 0; 0;  0; 0; 0; 0;  3; 0; 0; 0;  5; 0; 0; 0].
Proof. split; [apply ok_b_ok; vm_compute; reflexivity|split; [apply ok_b_ok; vm_compute; reflexivity|vm_compute; reflexivity]]. Qed.

(* Corollary: the format is unambiguous - two admissible (entries, common) pairs that differ in anything (a
   coordinate, a row id, the ORDER of the entries or of the row ids, the common value) never produce the same
   file.  (If save were not injective no loader could be the identity on both.) *)
Theorem save_injective : forall es common es' common', ok es common -> ok es' common' ->
  save es common = save es' common' -> es = es' /\ common = common'.
Proof.
  intros es common es' common' H H' E.
  destruct (RoundTrip.C10_roundtrip es common H) as [b [Hs Hl]].
  destruct (RoundTrip.C10_roundtrip es' common' H') as [b' [Hs' Hl']].
  rewrite Hs, Hs' in E. injection E as E. subst b'.
  rewrite Hl in Hl'. injection Hl' as E1 E2. split; assumption.
Qed.
Print Assumptions save_injective.

(* Second sentence of the property.  [to_indx] presents the index's dict to the saver (keys are the
   coordinate tuples value :: higher coordinates, in dict order), [rebuild r nrows hshape] is
   iindex(entries, common, shape) on the loader's result (Indx/Rebuild.v; the INDX file does not record
   the shape, the caller keeps it).  WF is the validation predicate of C07 (IIndex/Model.v);
   [storable]: what the format can hold - unsigned values and common below 2^63, extents up to 2^63,
   fewer than 255 higher axes, fewer than 2^32 rows and entries, fewer than 2^60 row ids in total.
   The rebuilt index is the SAME record (same entries in the same order), hence equal under any notion
   of index equality, and well-formed. *)
Theorem load_wf : forall idx, WF idx -> storable idx ->
  exists bytes idx', save (to_indx (entries idx)) (common idx) = SOk bytes /\
    rebuild (load bytes) (nrows idx) (hshape idx) = Some idx' /\ idx' = idx /\ WF idx'.
Proof. exact LoadWF.load_wf. Qed.
Print Assumptions load_wf.

(* non-vacuity: a 2-D index of 6 rows x 3 columns, common 7, a value that needs a 2-byte word *)
Example load_wf_nonvacuous :
  let idx := {| entries := [((1, [0]), [0; 3; 5]); ((300, [0]), [1]); ((1, [2]), [2; 4]); ((0, [1]), [0; 1; 2; 3; 4; 5])];
                common := 7; nrows := 6; hshape := [3] |} in
  WF idx /\ storable idx /\
  rebuild (match save (to_indx (entries idx)) (common idx) with SOk b => load b | SErr _ => LErr SBody end) 6 [3] = Some idx.
Proof.
  split; [apply wf_b_spec; vm_compute; reflexivity|]. split; [apply storable_b_ok; vm_compute; reflexivity|vm_compute; reflexivity].
Qed.
