(* C14 - walk presents exactly the non-empty uncommon and marginal intersections.

   `walk dims` (Cube/Walk.v) mirrors ccube._walk / walk / interactions (ccubes.py:76-152) branch by
   branch: the `base_rowids is None` case, the intersection of every entry with the running row ids
   (SetOps kernel = inter_spec on increasing inputs), the pruning of empty intersections, the tail
   walked again with the coordinate -1 and the unchanged running row ids, the margin emission of
   the last dimension.  It is the list of (coordinates, row ids) handed to every callback, in call
   order.  The theorems hold for every number of dimensions, all data, all common values.
   Hypotheses: every dimension is a well-formed one-axis index over N rows (dim_wf: what
   iindex.validate checks - the tie runs its boolean twin dim_wf_b on every real dimension) and
   -1, the marker of a marginal coordinate, is not a category value. *)
From Coq Require Import ZArith List Bool.
From Catii Require Import Base.Sorted Cube.Dim Cube.Walk Cube.WalkSpec Cube.WalkProofs Cube.Check.
Import ListNotations.
Open Scope Z_scope.

(* The property as an equality of LISTS (hence of multisets): the sequence of callback arguments is
   the comprehension  [ (c, rows c) | c <- prod_d (uncommon_d ++ [-1]), c <> all -1, rows c <> [] ]
   with rows c = the increasing rows r < N whose category on every non-marginal dimension is c_d *)
Theorem C14_walk_spec : forall (N : Z) (dims : list dim),
  Forall (dim_wf N) dims -> Forall no_margin_key dims ->
  walk dims = map (fun c => (c, rows_matching N dims c))
                  (filter (fun c => negb (all_margin c) && nonempty_b (rows_matching N dims c)) (coord_product dims)).
Proof. exact walk_spec. Qed.
Print Assumptions C14_walk_spec.

(* membership form: a pair is delivered iff it is a member of the comprehension *)
Theorem C14_delivered_iff : forall (N : Z) (dims : list dim) (c r : list Z),
  Forall (dim_wf N) dims -> Forall no_margin_key dims ->
  (In (c, r) (walk dims) <->
   In c (coord_product dims) /\ all_margin c = false /\ r = rows_matching N dims c /\ r <> []).
Proof. exact walk_In. Qed.
Print Assumptions C14_delivered_iff.

(* exactly once: no coordinate combination is presented twice *)
Theorem C14_exactly_once : forall (N : Z) (dims : list dim),
  Forall (dim_wf N) dims -> Forall no_margin_key dims -> NoDup (map fst (walk dims)).
Proof. exact walk_coords_NoDup. Qed.
Print Assumptions C14_exactly_once.

(* every combination that is not entirely marginal and is matched by a row IS presented, with its rows *)
Theorem C14_complete : forall (N : Z) (dims : list dim) (c : list Z),
  Forall (dim_wf N) dims -> Forall no_margin_key dims ->
  In c (coord_product dims) -> all_margin c = false -> rows_matching N dims c <> [] ->
  In (c, rows_matching N dims c) (walk dims).
Proof. exact walk_complete. Qed.
Print Assumptions C14_complete.

(* the row ids delivered: strictly increasing, non-empty, exactly the rows below N that match every
   non-marginal coordinate *)
Theorem C14_rows : forall (N : Z) (dims : list dim) (c r : list Z),
  Forall (dim_wf N) dims -> Forall no_margin_key dims -> In (c, r) (walk dims) ->
  sincr r /\ r <> [] /\ (forall x, In x r <-> 0 <= x < N /\ row_matches dims c x = true).
Proof. exact walk_rows. Qed.
Print Assumptions C14_rows.

(* the common category of a dimension is never presented, nor the all-marginal combination *)
Theorem C14_never_common : forall (N : Z) (dims : list dim) (c r : list Z),
  Forall (dim_wf N) dims -> Forall no_margin_key dims -> In (c, r) (walk dims) ->
  Forall2 (fun d k => k = margin \/ (In k (dkeys d) /\ k <> dcommon d)) dims c /\ all_margin c = false.
Proof. exact walk_never_common. Qed.
Print Assumptions C14_never_common.

(* non-vacuity: three dimensions over 5 rows (the middle-dimension branch of the walk is exercised), commons
   0, 7 (absent from the data) and 2; the hypotheses hold (through the boolean twins and their soundness
   lemmas), 14 pairs are delivered, among them one with two marginal coordinates; the combination
   (2, 5, 1) is pruned although (2, 5, -1) is delivered *)
Example C14_nonvacuous :
  let c14_ex_dims :=
    mkdims [([(1, [0; 2]); (2, [4])], 0); ([(0, [0; 1; 3]); (5, [2; 4])], 7); ([(1, [1; 2]); (0, [3])], 2)] in
  Forall (dim_wf 5) c14_ex_dims /\ Forall no_margin_key c14_ex_dims /\
  walk c14_ex_dims =
    [([1; 0; -1], [0]); ([1; 5; 1], [2]); ([1; 5; -1], [2]); ([1; -1; 1], [2]); ([1; -1; -1], [0; 2]);
     ([2; 5; -1], [4]); ([2; -1; -1], [4]); ([-1; 0; 1], [1]); ([-1; 0; 0], [3]); ([-1; 0; -1], [0; 1; 3]);
     ([-1; 5; 1], [2]); ([-1; 5; -1], [2; 4]); ([-1; -1; 1], [1; 2]); ([-1; -1; 0], [3])] /\
  walk c14_ex_dims = walk_spec_list 5 c14_ex_dims.
Proof.
  cbv zeta.
  split; [apply forall_dim_wf_b_sound; vm_compute; reflexivity|].
  split; [apply forall_no_margin_key_b_sound; vm_compute; reflexivity|].
  split; vm_compute; reflexivity.
Qed.
