(* C14 (placeholder while the proofs are being moved in) *)
From Coq Require Import ZArith List Bool.
From Catii Require Import Cube.Dim Cube.Walk Cube.WalkSpec Cube.Check.
Import ListNotations.
Open Scope Z_scope.
Example c14_smoke : c14_check (3, [([(1, [0; 2])], 0); ([(2, [2])], 0)], [([1; 2], [2]); ([1; -1], [0; 2]); ([-1; 2], [2])]) = true.
Proof. vm_compute. reflexivity. Qed.
