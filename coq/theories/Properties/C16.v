(* C16 - pooled evaluation is schedule-independent.

   Level: proof over the footprint / interleaving model (Conc/Interleave.v) + run-time validation
   of the footprint by harness/props/c16.py.  NOT provable here and stated as assumptions in the
   evidence: (i) the real sub-cube tasks write only cells of their own block and never read the
   shared regions (validated on every run: each real task alone on garbage-filled regions),
   (ii) one NumPy item / slice assignment is atomic under the GIL, (iii) the real pool.
   The unsynchronised diagnostics counters are outside the property; the model contains them and
   [counter_lost_update_refuted] shows that they are NOT schedule-independent. *)
From Coq Require Import ZArith List Bool Permutation.
From Catii Require Import Base.Cases Conc.Interleave Conc.Pool Conc.Interrupt Conc.ConcProofs Conc.Check Conc.CheckSound.
Import ListNotations.

(* every schedule (= every merge of the tasks' write lists that keeps each task's order) leaves
   every cell of the shared store as the serial order does *)
Theorem interleave_serial : forall (V : Type) (ts : list (list (write V))) (tr : list (write V)),
  pairwise_disjoint ts -> interleave ts tr ->
  forall (s : store V) (c : cell), run tr s c = run (concat ts) s c.
Proof. exact ConcProofs.interleave_serial. Qed.
Print Assumptions interleave_serial.

(* tasks whose cells are prefixed by distinct sub-cube coordinates (of one length) have disjoint
   footprints *)
Theorem footprint_disjoint : forall (V : Type) (ps : list (list Z)) (ts : list (list (write V))) (n : nat),
  Forall2 (@prefixed V) ps ts -> NoDup ps -> (forall p, In p ps -> length p = n) ->
  forall j j', j <> j' -> disjoint (cells (nth j ts [])) (cells (nth j' ts [])).
Proof. exact ConcProofs.footprint_disjoint. Qed.
Print Assumptions footprint_disjoint.

(* the coordinates itertools.product hands to the tasks are pairwise distinct and of one length *)
Theorem subcube_coords_distinct : forall sh : list nat,
  NoDup (product_coords sh) /\ forall p, In p (product_coords sh) -> length p = length sh.
Proof. exact ConcProofs.subcube_coords_distinct. Qed.
Print Assumptions subcube_coords_distinct.

(* C16: for every cube, every interleaving tr of its tasks' events (block writes and counter
   read-modify-writes), from any machine state whose regions are the freshly created ones:
   reduce of the regions = what serial calculate returns *)
Theorem C16 : forall (V R : Type) (cu : cube V R) (ets : list (list (event V))) (ps : list (list Z)) (n : nat)
                     (tr : list (event V)) (st : mstate V) (d : diag),
  map (@writes_of V) ets = c_tasks cu -> m_store st = c_init cu ->
  Forall2 (@prefixed V) ps (c_tasks cu) -> NoDup ps -> (forall p, In p ps -> length p = n) ->
  interleave ets tr ->
  Returned (reduce_with (c_cells cu) (c_reduce cu) (m_store (exec tr st))) =
  r_out (calculate_serial cu (fun _ _ => false) d).
Proof. exact C16_calculate. Qed.
Print Assumptions C16.

(* the schedules of a worker pool: gs = per worker the tasks it runs, in its order - every pool
   size, every batching, every assignment of batches to workers; tr = any interleaving of the
   workers' sequential traces *)
Theorem C16_pool : forall (V : Type) (ts : list (list (write V))) (gs : list (list (list (write V)))) (tr : list (write V)),
  pairwise_disjoint ts -> Permutation (concat gs) ts ->
  interleave (map (@concat (write V)) gs) tr ->
  forall (s : store V) (c : cell), run tr s c = run (concat ts) s c.
Proof. exact pool_schedule_serial. Qed.
Print Assumptions C16_pool.

(* the set of schedules is not empty and not just the serial one: the serial order and every
   order given as a list of task numbers are members *)
Theorem schedules_exist : forall (A : Type) (ts : list (list A)),
  interleave ts (concat ts) /\ forall sched, interleave ts (merge_by sched ts).
Proof. exact ConcProofs.schedules_exist. Qed.
Print Assumptions schedules_exist.

(* the tie: the executable checkers that harness/props/c16.py evaluates on the observed tasks establish
   the hypotheses above ... *)
Theorem footprints_checker_sound : forall shape coords (tasks : list (list (write Z))),
  footprints_ok_b shape coords tasks = true ->
  Forall2 (@prefixed Z) coords tasks /\ NoDup coords /\ (forall p, In p coords -> length p = length shape).
Proof. exact c16_footprints_sound. Qed.
Print Assumptions footprints_checker_sound.

(* ... so that on a passing correspondence case EVERY interleaving of the observed tasks' writes (not
   only the schedules that were run), started on the observed fresh regions, leaves every cell of the
   regions as the observed serial run left it *)
Theorem passing_case_all_schedules : forall c : c16case, c16_check c = true ->
  forall tr, interleave (c16_tasks c) tr ->
  snapshot (c16_cells c) (run tr (c16_init c)) = c16_serial_final c.
Proof. exact c16_check_sound. Qed.
Print Assumptions passing_case_all_schedules.

(* what is false, with witnesses *)
Theorem overlapping_tasks_refuted :
  exists (ts : list (list (write Z))) tr (s : store Z) c,
    interleave ts tr /\ run tr s c <> run (concat ts) s c.
Proof. exact ConcProofs.overlapping_tasks_refuted. Qed.
Print Assumptions overlapping_tasks_refuted.

Theorem counter_lost_update_refuted :
  exists (ts : list (list (event Z))) tr (st : mstate Z),
    interleave ts tr /\ m_ctr (exec tr st) <> m_ctr (exec (concat ts) st).
Proof. exact ConcProofs.counter_lost_update_refuted. Qed.
Print Assumptions counter_lost_update_refuted.

(* non-vacuity: three sub-cubes of a cube with one extra axis of extent 3, two regions, each task
   writing two cells of its own block; the hypotheses of C16 hold, the schedule [2;0;1;1;0;2] is a
   genuinely different trace, and the regions agree with the serial ones on every cell *)
Local Open Scope Z_scope.
Example C16_nonvacuous :
  product_coords [3%nat] = [[0]; [1]; [2]] /\
  Forall2 (@prefixed Z) (product_coords [3%nat]) ex_tasks /\
  merge_by [2; 0; 1; 1; 0; 2]%nat ex_tasks <> concat ex_tasks /\
  snapshot ex_cells (run (merge_by [2; 0; 1; 1; 0; 2]%nat ex_tasks) (fun _ => 0)) =
  snapshot ex_cells (run (concat ex_tasks) (fun _ => 0)).
Proof.
  split. reflexivity. split.
  - cbn [product_coords flat_map seq map app]. unfold ex_tasks.
    repeat constructor; intros w Hw; cbn in Hw;
      repeat (destruct Hw as [<-|Hw]; [eexists; cbn [w_cell snd app]; reflexivity|]); contradiction.
  - split. vm_compute. discriminate. vm_compute. reflexivity.
Qed.
