(* C03 (placeholder while the proofs are being moved in) *)
From Coq Require Import ZArith QArith Qcanon List Bool.
From Catii Require Import Cube.Dim Cube.Direct Cube.FFuncs Cube.XCube Cube.AggCheck.
Import ListNotations.
Open Scope Z_scope.
Example C03_smoke : agg_check_any (mk ASum 3 [([(1, [0; 2])], 0)] [2] false [[1; 0; 1]] [2] false
   (FOne (MNaN [Some (q 1 2); None; Some (q 3 1)])) WNone true FmtNaN
   (OCells [None] [(1, [Some (q 7 2)])]) (OCells [None] [(1, [Some (q 7 2)])])) = true.
Proof. vm_compute. reflexivity. Qed.
