(* C03 - index cube, array cube and direct group-by agree on the shared aggregates.

   Models (definitions only): Cube/FFuncs.v = ffuncs.py + ccube.calculate (corner values as the code obtains
   them, one write per walked coordinate, EVERY region differenced separately by marginal differencing,
   margins cut, output_is_missing, division for the mean, the scalar-weight branch, the shared
   (values, validity) normalisation with "multiply by the weights, THEN zero what is not valid");
   Cube/XCube.v = xcubes.py/xfuncs.py (mintype, astype wrap, strides, narrow additions that wrap, bincount,
   per-bin masks for several columns, the zero-dimension shape (1,) branch); Cube/Direct.v = the textbook
   per-cell definition over the rows of the cell (exact rationals; NaN is never a number).
   `h` is the stand-in the models use for the value of a NaN element; values under a False validity are
   ordinary entries of the MPair value list: both are universally quantified.

   Hypotheses and why real inputs satisfy them: 0 <= N is the row count; dim_wf = iindex.validate for a
   one-axis dimension (checked on every real dimension by dim_wf_b); covers = every listed value and the
   common lie in [0, extent) (otherwise IndexError / aliasing with the margin slot: outside the property);
   agg_fact_ok = count is called without a fact variable, the others with one;
   prod extents <= 2^32-1: beyond it xcube raises TypeError (modelled as None). *)
From Coq Require Import ZArith QArith Qcanon List Bool Lia.
From Catii Require Import Base.Sorted Cube.Dim Cube.Walk Cube.WalkProofs Cube.Region Cube.Count Cube.CountProofs
     Cube.Direct Cube.FFuncs Cube.XCube Cube.AggBase Cube.AggCell Cube.FFuncsProofs Cube.XCubeProofs Cube.AggProofs
     Cube.AggCheck.
Import ListNotations.
Open Scope Z_scope.

(* ffunc_A_direct, A in count / valid_count / sum / mean; every fact form, weight form, policy: the index cube
   returns, for every cell (row-major) and fact column, the textbook (value, missing) of the rows of that cell *)
Theorem C03_ffunc_direct : forall A N dims shape h f w ign,
  0 <= N -> Forall (dim_wf N) dims -> covers shape dims -> agg_fact_ok A f ->
  ccube_agg N dims shape A h f w ign = direct A N (map dim_dense dims) shape f w ign.
Proof. exact ccube_agg_direct. Qed.
Print Assumptions C03_ffunc_direct.

(* stride_bijection: the coordinate the array cube computes for a row - astype(mintype) with wrap, times the
   product of the later extents, summed with narrow additions that wrap - is the mixed-radix flat index of the
   row's cell and lies inside the cube: nothing wraps because prod ext <= max(mintype) *)
Theorem C03_stride_bijection : forall N arrs shape, xhyps N arrs shape -> arrs <> [] ->
  exists c, xcoords shape arrs = XCoords c /\
            forall r, 0 <= r < N -> c r = flat shape (map (fun a => a r) arrs) /\ 0 <= c r < prodZ shape.
Proof. exact stride_bijection. Qed.
Print Assumptions C03_stride_bijection.
Theorem C03_flat_index_enumerates : forall shape, Forall (fun e => 0 <= e) shape ->
  map (flat shape) (all_cells shape) = zrange (prodZ shape).
Proof. exact flat_all_cells. Qed.
Print Assumptions C03_flat_index_enumerates.

(* xfunc_A_direct: the array cube never raises on in-range data and returns the same textbook cells *)
Theorem C03_xfunc_direct : forall A N arrs shape h f w ign,
  xhyps N arrs shape -> agg_fact_ok A f ->
  xcube_agg A N arrs shape h f w ign = Some (direct A N arrs shape f w ign).
Proof. exact xcube_agg_direct. Qed.
Print Assumptions C03_xfunc_direct.

(* hidden_values_irrelevant: facts / weights that agree wherever they are valid (and any stand-ins for NaN)
   give the same cubes *)
Theorem C03_hidden_values_irrelevant_ccube : forall A N dims shape h h' f f' w w' ign,
  0 <= N -> Forall (dim_wf N) dims -> covers shape dims -> agg_fact_ok A f -> agg_fact_ok A f' ->
  fact_equiv f f' -> weights_equiv w w' ->
  ccube_agg N dims shape A h f w ign = ccube_agg N dims shape A h' f' w' ign.
Proof. exact hidden_values_irrelevant_ccube. Qed.
Print Assumptions C03_hidden_values_irrelevant_ccube.
Theorem C03_hidden_values_irrelevant_xcube : forall A N arrs shape h h' f f' w w' ign,
  xhyps N arrs shape -> agg_fact_ok A f -> agg_fact_ok A f' -> fact_equiv f f' -> weights_equiv w w' ->
  xcube_agg A N arrs shape h f w ign = xcube_agg A N arrs shape h' f' w' ign.
Proof. exact hidden_values_irrelevant_xcube. Qed.
Print Assumptions C03_hidden_values_irrelevant_xcube.
Theorem C03_hidden_pair : forall v v' b,
  (forall r, znth r b false = true -> znth r v q0 = znth r v' q0) -> col_equiv (m_get (MPair v b)) (m_get (MPair v' b)).
Proof. exact mpair_hidden_equiv. Qed.
Print Assumptions C03_hidden_pair.

(* C03: index cube = array cube on the equivalent dense arrays = direct group-by; same values, same missing cells *)
Theorem C03_agree : forall A N dims shape arrs h f w ign,
  0 <= N -> Forall (dim_wf N) dims -> covers shape dims -> prodZ shape <= 4294967295 -> agg_fact_ok A f ->
  Forall2 (fun a d => same_on N a (dim_dense d)) arrs dims ->
  ccube_agg N dims shape A h f w ign = direct A N (map dim_dense dims) shape f w ign
  /\ xcube_agg A N arrs shape h f w ign = Some (direct A N (map dim_dense dims) shape f w ign)
  /\ xcube_agg A N arrs shape h f w ign = Some (ccube_agg N dims shape A h f w ign).
Proof. exact AggProofs.C03_agree. Qed.
Print Assumptions C03_agree.

(* ---- the hypotheses are satisfiable on a non-trivial input: 2 dimensions, 5 rows, commons 0 and 1, a fact with
        2 columns given as NaN-marked and as (values, validity) with a hidden value, array weights with a zero
        and a missing weight ---- *)
Definition ex_dims : list dim := [mkdim ([(1, [0; 2; 4])], 0); mkdim ([(2, [2]); (0, [1; 3])], 1)].
Definition ex_arrs : list (Z -> Z) := [arr_cat [1; 0; 1; 0; 1]; arr_cat [1; 0; 2; 0; 1]].
Definition ex_fact : fact :=
  FCols [MNaN [Some (q 1 2); Some (q 3 1); None; Some (q (-2) 1); Some (q 5 4)];
         MPair [q 1 1; q 777 1; q 2 1; q 4 1; q 6 1] [true; false; true; true; true]].
Definition ex_w : weights := WArr (MNaN [Some (q 1 1); Some (q 2 1); Some (q 0 1); None; Some (q 1 2)]).

Example C03_hypotheses_hold :
  0 <= 5 /\ Forall (dim_wf 5) ex_dims /\ covers [2; 3] ex_dims /\ prodZ [2; 3] <= 4294967295
  /\ agg_fact_ok AMean ex_fact /\ Forall2 (fun a d => same_on 5 a (dim_dense d)) ex_arrs ex_dims.
Proof.
  split; [lia|]. split; [apply forall_dim_wf_b_sound; vm_compute; reflexivity|].
  split; [apply covers_b_sound; vm_compute; reflexivity|]. split; [vm_compute; discriminate|].
  split; [discriminate|].
  repeat constructor; intros r Hr;
    assert (E : r = 0 \/ r = 1 \/ r = 2 \/ r = 3 \/ r = 4) by lia;
    destruct E as [->|[->|[->|[->| ->]]]]; vm_compute; reflexivity.
Qed.
(* the mean over that cube, propagating missing values: cell (0,0) holds rows 1 and 3 - column 0 is missing because
   row 3 has a missing weight, column 1 because row 1 is invalid; (1,1) is a RECONSTRUCTED cell (both commons) *)
Example C03_nontrivial :
  cells_eqb (ccube_agg 5 ex_dims [2; 3] AMean h_eval ex_fact ex_w false)
    [[(q 3 1, true); (q0, true)]; [(q0, true); (q0, true)]; [(q0, true); (q0, true)];
     [(q0, true); (q0, true)]; [(q 3 4, false); (q 8 3, false)]; [(q0, true); (q0, true)]] = true.
Proof. vm_compute. reflexivity. Qed.
Example C03_nontrivial_x :
  ocells_eqb (xcube_agg AMean 5 ex_arrs [2; 3] h_eval ex_fact ex_w false)
             (Some (ccube_agg 5 ex_dims [2; 3] AMean h_eval ex_fact ex_w false)) = true.
Proof. vm_compute. reflexivity. Qed.
