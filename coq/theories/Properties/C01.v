(* C01 - array -> inverted index -> array is lossless.

   Models: IIndex/FromArray.v (from_array a opts strat; strat in {Where, RowScan} is a free argument
   standing for the float-valued strategy switch of the code, so every statement below holds for
   both construction paths on every input) and IIndex/ToArray.v (to_array idx mapping dtype).
   Vocabulary: [rect a] = one or two dimensions, rectangular; [a_nrows a <= 2^32] = row ids fit
   uint32; [pre a o] = the documented contract of from_array (supplied counts list every occurring
   value; the mapping is defined on every counted value and on the supplied common; there are
   values, or a common, or a non-empty mapping); [fmap o] = the (optional) mapping as a function;
   [tmap (Some m) v] = m.get(v, 0); [index_values idx] = entry values ++ [common];
   [np_int_range mn mx] = some NumPy integer dtype holds [mn, mx]; [fits d v] = v representable in d.
   Proofs: IIndex/C01Proofs.v.  Tie to the code: harness/props/c01.py + IIndex/C01Check.v. *)
From Coq Require Import ZArith List Bool.
From Catii Require Import Base.Sorted IIndex.Res IIndex.Model IIndex.FromArray IIndex.ToArray
  Dtype.FitSpec Dtype.FitHand IIndex.C01Proofs.
Import ListNotations.
Open Scope Z_scope.

(* ---- from_array ---- *)
Theorem C01_from_array_total : forall a o s,
  rect a -> a_nrows a <= 2 ^ 32 -> pre a o -> exists idx, from_array a o s = Ok idx.
Proof. exact from_array_total. Qed.
Print Assumptions C01_from_array_total.

(* ... and the documented refusal ("No values or common value provided") is the only error *)
Theorem C01_from_array_err_only : forall a o s e,
  rect a -> a_nrows a <= 2 ^ 32 -> pre_data a o -> from_array a o s = Err e ->
  e = EValueError /\ eff_counts a o = [] /\ o_common o = None /\ (o_mapping o = None \/ o_mapping o = Some []).
Proof. exact from_array_err_only. Qed.
Print Assumptions C01_from_array_err_only.

(* without caller-supplied counts, [pre] is exactly the documented contract *)
Theorem C01_pre_no_counts : forall a o, o_counts o = None ->
  (forall v, In v (flat a) -> mapping_defined o v) ->
  (forall c, o_common o = Some c -> mapping_defined o c) ->
  (flat a <> [] \/ o_common o <> None \/ exists p m, o_mapping o = Some (p :: m)) ->
  pre a o.
Proof. exact pre_no_counts. Qed.
Print Assumptions C01_pre_no_counts.

Theorem C01_from_array_dense : forall a o s idx,
  rect a -> a_nrows a <= 2 ^ 32 -> pre_data a o -> from_array a o s = Ok idx ->
  nrows idx = a_nrows a /\ hshape idx = a_hshape a /\
  dense_rows idx = map (map (fmap o)) (a_rows a) /\
  (forall i j, (i < length (a_rows a))%nat -> (j < ncells (a_hshape a))%nat ->
     dense idx (Z.of_nat i) (nth j (all_hcs (a_hshape a)) []) = fmap o (nth j (nth i (a_rows a) []) 0)).
Proof. exact from_array_dense. Qed.
Print Assumptions C01_from_array_dense.

(* feeds C07 *)
Theorem C01_from_array_wf : forall a o s idx,
  rect a -> a_nrows a <= 2 ^ 32 -> pre_data a o -> from_array a o s = Ok idx -> WF idx.
Proof. exact from_array_wf. Qed.
Print Assumptions C01_from_array_wf.

(* ---- to_array of any well-formed 1-D / 2-D index ---- *)
Theorem C01_to_array_dense : forall idx dt,
  WF idx -> (length (hshape idx) <= 1)%nat ->
  (forall v, In v (index_values idx) -> fits dt v = true) ->
  to_array idx None (Some dt) = Ok (dense_array idx, dt).
Proof. exact to_array_dense. Qed.
Print Assumptions C01_to_array_dense.

(* the default dtype holds every value whenever one NumPy integer dtype can (C19), and is the narrowest *)
Theorem C01_to_array_default : forall idx,
  WF idx -> (length (hshape idx) <= 1)%nat ->
  let vs := index_values idx in
  np_int_range (minl vs) (maxl vs) ->
  to_array idx None None = Ok (dense_array idx, fit_dtype (maxl vs) (minl vs)) /\
  spec_choice (maxl vs) (minl vs) = Some (fit_dtype (maxl vs) (minl vs)).
Proof. exact to_array_default. Qed.
Print Assumptions C01_to_array_default.

Theorem C01_to_array_mapping : forall idx m dt,
  WF idx -> (length (hshape idx) <= 1)%nat -> m <> [] ->
  (forall v, In v (map (fun e : entry => fst (fst e)) (entries idx)) -> map_get m v <> None) ->
  let d := match dt with Some d => d | None => fit_dtype (maxl (map snd m)) (minl (map snd m)) end in
  (forall v, In v (index_values idx) -> fits d (tmap (Some m) v) = true) ->
  to_array idx (Some m) dt = Ok (arr_map (tmap (Some m)) (dense_array idx), d).
Proof. exact to_array_mapping. Qed.
Print Assumptions C01_to_array_mapping.

Theorem C01_to_array_mapping_default : forall idx m,
  WF idx -> (length (hshape idx) <= 1)%nat -> m <> [] ->
  (forall v, In v (map (fun e : entry => fst (fst e)) (entries idx)) -> map_get m v <> None) ->
  np_int_range (minl (map snd m)) (maxl (map snd m)) ->
  to_array idx (Some m) None =
    Ok (arr_map (tmap (Some m)) (dense_array idx), fit_dtype (maxl (map snd m)) (minl (map snd m))).
Proof. exact to_array_mapping_default. Qed.
Print Assumptions C01_to_array_mapping_default.

(* an empty dict is no mapping *)
Theorem C01_to_array_empty_mapping : forall idx dt, to_array idx (Some []) dt = to_array idx None dt.
Proof. exact to_array_empty_mapping. Qed.
Print Assumptions C01_to_array_empty_mapping.

(* ---- the round trip: both strategies, every option combination, the three ways back ---- *)
Theorem C01_roundtrip : forall a o s,
  rect a -> a_nrows a <= 2 ^ 32 -> pre a o ->
  exists idx, from_array a o s = Ok idx /\ WF idx /\
    (forall dt, (forall v, In v (index_values idx) -> fits dt v = true) ->
        to_array idx None (Some dt) = Ok (arr_map (fmap o) a, dt)) /\
    (let vs := index_values idx in np_int_range (minl vs) (maxl vs) ->
        to_array idx None None = Ok (arr_map (fmap o) a, fit_dtype (maxl vs) (minl vs)) /\
        spec_choice (maxl vs) (minl vs) = Some (fit_dtype (maxl vs) (minl vs))) /\
    (forall m dt, m <> [] -> (forall v, In v (index_values idx) -> map_get m v <> None) ->
        let d := match dt with Some d => d | None => fit_dtype (maxl (map snd m)) (minl (map snd m)) end in
        (forall v, In v (index_values idx) -> fits d (tmap (Some m) v) = true) ->
        to_array idx (Some m) dt = Ok (arr_map (fun v => tmap (Some m) (fmap o v)) a, d)).
Proof. exact C01_roundtrip. Qed.
Print Assumptions C01_roundtrip.

(* the values of the index are the mapped values of the array plus the common value *)
Theorem C01_index_values : forall a o s idx,
  rect a -> a_nrows a <= 2 ^ 32 -> pre_data a o -> from_array a o s = Ok idx ->
  forall v, In v (index_values idx) -> v = common idx \/ exists x, In x (flat a) /\ v = fmap o x.
Proof. exact from_array_values. Qed.
Print Assumptions C01_index_values.

(* on the property's stated domain (every value the input can put into the index lies in int64)
   nothing is left to assume about the intermediate index *)
Theorem C01_roundtrip_int64 : forall a o s,
  rect a -> a_nrows a <= 2 ^ 32 -> pre a o -> inputs_in in_int64 a o ->
  exists idx, from_array a o s = Ok idx /\ WF idx /\
    to_array idx None (Some D_int64) = Ok (arr_map (fmap o) a, D_int64) /\
    exists dt, to_array idx None None = Ok (arr_map (fmap o) a, dt) /\
               forall x, In x (flat a) -> fits dt (fmap o x) = true.
Proof. exact C01_roundtrip_int64. Qed.
Print Assumptions C01_roundtrip_int64.

(* ---- non-vacuity: the hypotheses hold of a concrete 2-D input with negatives, a dtype boundary
   value, a many-to-one mapping and a caller-chosen common value; both strategies round-trip ---- *)
Definition ex_a : array := arr2 2 [[1; -2]; [3; 1]; [1; 1]; [256; 3]; [-2; -2]].
Definition ex_o : opts :=
  {| o_counts := Some [(3, 2); (1, 4); (-2, 3); (256, 1); (99, 0)]; o_common := Some 3;
     o_mapping := Some [(1, 7); (-2, 7); (3, 9); (256, -129); (99, 5)] |}.

Example C01_nonvacuous_hyps : rect ex_a /\ a_nrows ex_a <= 2 ^ 32 /\ pre ex_a ex_o.
Proof.
  split; [apply rect_b_sound; vm_compute; reflexivity|].
  split; [vm_compute; discriminate|apply pre_b_sound; vm_compute; reflexivity].
Qed.
Print Assumptions C01_nonvacuous_hyps.

Definition ex_run (s : strategy) : Prop :=
  let expected := arr2 2 [[7; 7]; [9; 7]; [7; 7]; [-129; 9]; [7; 7]] in
  res_bind (from_array ex_a ex_o s) (fun idx => to_array idx None None) = Ok (expected, D_int16) /\
  res_bind (from_array ex_a ex_o s) (fun idx => to_array idx None (Some D_int64)) = Ok (expected, D_int64) /\
  res_bind (from_array ex_a ex_o s) (fun idx => to_array idx (Some [(7, 300); (9, -1); (-129, 0)]) None)
     = Ok (arr2 2 [[300; 300]; [-1; 300]; [300; 300]; [0; -1]; [300; 300]], D_int16) /\
  match from_array ex_a ex_o s with Ok idx => wf_b idx = true /\ length (entries idx) = 3%nat | Err _ => False end.
Example C01_nonvacuous_run :
  arr_map (fmap ex_o) ex_a = arr2 2 [[7; 7]; [9; 7]; [7; 7]; [-129; 9]; [7; 7]] /\ ex_run Where /\ ex_run RowScan.
Proof. vm_compute. repeat split; reflexivity. Qed.
Print Assumptions C01_nonvacuous_run.
