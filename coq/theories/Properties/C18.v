(* C18 - array-cube-only statistics equal the per-cell textbook statistic (theorems added below). *)
From Coq Require Import ZArith QArith Qcanon List Bool.
From Catii Require Import Cube.XStats.
Import ListNotations.
Open Scope Z_scope.

Example C18_model_runs :
  map (fun vm => (option_map this (fst vm), snd vm))
      (stddev false false 2 [mk_srow 0 (Some (Q2Qc 1)) None; mk_srow 0 (Some (Q2Qc 3)) None; mk_srow 1 (Some (Q2Qc 5)) None])
  = [(Some 2%Q, false); (None, true)].
Proof. vm_compute. reflexivity. Qed.
