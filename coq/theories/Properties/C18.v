(* C18 - array-cube-only statistics equal the per-cell textbook statistic.
   Model of the code: Cube/XStats.v (exact rationals, None = non-finite double); textbook statistics:
   Cube/XStatsSpec.v; per-cell kernels: Cube/XStatsCell.v.  Only `exact` here. *)
From Coq Require Import ZArith QArith Qcanon List Bool Sorting.Permutation.
From Catii Require Import Cube.XStats Cube.XStatsSpec Cube.XStatsCell Cube.XStatsBase Cube.XStatsGroup
  Cube.XStatsStddev Cube.XStatsMinMax Cube.XStatsQuantile Cube.XStatsCov Cube.XStatsWQ Cube.XStatsWQRange
  Cube.XStatsFormats.
Import ListNotations.
Open Scope Z_scope.

(* ---------------------------------------------------------------- group_spec *)
(* for ANY kernel K applied per flat cell: the entry of the cell with category tuple c is K of exactly the
   rows whose tuple is c, in row order (coordinates = value . stride identify in-range tuples) *)
Theorem C18_group_spec : forall (A R : Type) (cats : A -> list Z) (K : list A -> R) exts rows c d,
  Forall (fun r => within exts (cats r)) rows -> within exts c ->
  nth (Z.to_nat (coordinate exts c)) (per_cell (fun r => coordinate exts (cats r)) K (prodZ exts) rows) d
  = K (filter (fun r => tuple_eqb (cats r) c) rows).
Proof. exact @group_spec. Qed.
Print Assumptions C18_group_spec.

(* the same for an abstract cell-coordinate function [key : row -> flat cell] *)
Theorem C18_group_abstract : forall (A R : Type) (key : A -> Z) (K : list A -> R) size rows u d,
  0 <= u < size ->
  nth (Z.to_nat u) (per_cell key K size rows) d = K (filter (fun r => Z.eqb (key r) u) rows).
Proof. exact @per_cell_nth. Qed.
Print Assumptions C18_group_abstract.

(* the coordinate map is a bijection between in-range tuples and flat cells *)
Theorem C18_coordinate_bijection : forall exts,
  (forall a b, within exts a -> within exts b -> coordinate exts a = coordinate exts b -> a = b) /\
  (forall a, within exts a -> 0 <= coordinate exts a < prodZ exts) /\
  (forall u, Forall (fun e => 0 < e) exts -> 0 <= u < prodZ exts ->
             within exts (decode exts u) /\ coordinate exts (decode exts u) = u).
Proof.
  exact (fun exts => conj (coordinate_inj exts) (conj (coordinate_range exts) (coordinate_surj exts))).
Qed.
Print Assumptions C18_coordinate_bijection.

(* every statistic of the array code IS such a per-cell kernel (stddev: although the code works with
   whole-array bincounts and re-binned deviations) *)
Theorem C18_group_stddev : forall weighted ign size rows,
  stddev weighted ign size rows = per_cell rc (stddev_cell weighted ign) size rows.
Proof. exact stddev_group. Qed.
Print Assumptions C18_group_stddev.
Theorem C18_group_quantile : forall weighted ign p size rows,
  quantile weighted ign p size rows = per_cell rc (quantile_cell weighted ign p) size rows.
Proof. exact quantile_group. Qed.
Print Assumptions C18_group_quantile.
Theorem C18_group_wquantile : forall weighted ign p size perms rows u d,
  length perms = Z.to_nat size -> 0 <= u < size ->
  nth (Z.to_nat u) (wquantile weighted ign p size perms rows) d
  = wquantile_cell weighted ign p (nth (Z.to_nat u) perms []) (cell_s u rows).
Proof. exact wquantile_group. Qed.
Print Assumptions C18_group_wquantile.
Theorem C18_group_minmax : forall ign mx size rows,
  minmax ign mx size rows = per_cell rc (minmax_seg ign mx) size rows.
Proof. exact minmax_group. Qed.
Print Assumptions C18_group_minmax.
Theorem C18_group_covariance : forall weighted ign ncol size rows,
  covariance weighted ign ncol size rows
  = per_cell mc (fun seg => flat_map (fun i => map (fun j => cov_seg weighted ign i j seg) (seq 0 ncol)) (seq 0 ncol))
             size rows.
Proof. exact covariance_group. Qed.
Print Assumptions C18_group_covariance.
Theorem C18_group_corrcoef : forall weighted ign ncol size rows,
  corrcoef weighted ign ncol size rows
  = per_cell mc (fun seg => flat_map (fun i => map (fun j => corr_seg weighted ign i j seg) (seq 0 ncol)) (seq 0 ncol))
             size rows.
Proof. exact corrcoef_group. Qed.
Print Assumptions C18_group_corrcoef.

(* ---------------------------------------------------------------- stddev_spec *)
(* the model returns the VARIANCE (sqrt is not modelled).  For every cell u: the mask is the rule of C04
   or fewer than two valid rows; an unmasked value is the reliability-weighted sample variance
   (sum w (x - mu_w)^2 / sum w) * n/(n-1) of the valid rows of the cell, which without weights is the
   ddof=1 sample variance.  `wtotal xw <> 0`: the weights of the valid rows do not sum to zero. *)
Theorem C18_stddev_spec : forall weighted ign size rows u d,
  0 <= u < size ->
  let seg := cell_s u rows in
  let V := filter (svalid weighted) seg in
  let xw := map (xw_of weighted) V in
  let out := nth (Z.to_nat u) (stddev weighted ign size rows) d in
  snd out = missing_rule ign (map (svalid weighted) seg) || (lenZ V <? 2) /\
  (snd out = false -> wtotal xw <> 0%Qc -> fst out = Some (rel_var xw)) /\
  (snd out = false -> weighted = false ->
     fst out = Some (sample_var (map fst xw)) /\ wtotal xw = ofZ (lenZ V) /\ wtotal xw <> 0%Qc).
Proof. exact stddev_spec. Qed.
Print Assumptions C18_stddev_spec.

(* when missing values are ignored the cell's result is a function of its VALID rows only *)
Theorem C18_stddev_ign_valid_only : forall weighted seg,
  stddev_cell weighted true seg = stddev_cell weighted true (filter (svalid weighted) seg).
Proof. exact stddev_cell_ign_valid_only. Qed.
Print Assumptions C18_stddev_ign_valid_only.

(* ---------------------------------------------------------------- quantile_lin *)
Theorem C18_quantile_lin : forall xs p,
  xs <> [] -> (0 <= p)%Qc -> (p <= 1)%Qc -> is_lin_quantile xs p (lin_quantile xs p).
Proof. exact quantile_lin. Qed.
Print Assumptions C18_quantile_lin.
(* is_lin_quantile determines the value (sorted permutation and bracket are unique) *)
Theorem C18_lin_quantile_unique : forall xs p q q',
  is_lin_quantile xs p q -> is_lin_quantile xs p q' -> q = q'.
Proof. exact is_lin_quantile_unique. Qed.
Print Assumptions C18_lin_quantile_unique.
Theorem C18_quantile_spec : forall weighted ign p size rows u d,
  0 <= u < size -> (0 <= p)%Qc -> (p <= 1)%Qc ->
  let seg := cell_s u rows in
  let V := map (fun r => fst (xw_of weighted r)) (filter (svalid weighted) seg) in
  let out := nth (Z.to_nat u) (quantile weighted ign p size rows) d in
  (out = None <-> missing_rule ign (map (svalid weighted) seg) = true) /\
  (forall q, out = Some q -> is_lin_quantile V p q).
Proof. exact quantile_spec. Qed.
Print Assumptions C18_quantile_spec.

(* ---------------------------------------------------------------- minmax_spec *)
Theorem C18_minmax_spec : forall ign mx size rows u d,
  0 <= u < size ->
  let seg := cell_s u rows in
  let V := somes (map rx seg) in
  let out := nth (Z.to_nat u) (minmax ign mx size rows) d in
  (out = None <-> missing_rule ign (map ovalid seg) = true) /\
  (forall m, out = Some m -> if mx then is_max m V else is_min m V).
Proof. exact minmax_spec. Qed.
Print Assumptions C18_minmax_spec.

(* ---------------------------------------------------------------- weighted quantile *)
(* [perm] is the argsort result of the cell (a parameter: NumPy does not specify the order of ties);
   C18_group_wquantile ties [wquantile_cell] to the whole-cube output *)
(* wq_missing: rule of C04 with validity = value present AND weight present; under propagation ANY
   missing value or weight of the cell, wherever it sorts (F20) *)
Theorem C18_wq_missing : forall ign p perm seg,
  is_perm_b perm (length seg) = true ->
  missing_rule ign (map (svalid true) seg) = true ->
  wquantile_cell true ign p perm seg = None.
Proof. exact wq_missing. Qed.
Print Assumptions C18_wq_missing.
(* wq_scale: w -> c*w, c > 0 *)
Theorem C18_wq_scale : forall c ign p perm seg,
  (0 < c)%Qc ->
  wquantile_cell true ign p perm (map (scale_w c) seg) = wquantile_cell true ign p perm seg.
Proof. exact wq_scale. Qed.
Print Assumptions C18_wq_scale.
(* wq_range: defined and min <= q <= max of the cell's valid values (positive weights, 0 <= p <= 1) *)
Theorem C18_wq_range : forall ign p perm seg,
  sort_perm_ok perm (wq_seg true seg) = true ->
  (0 <= p)%Qc -> (p <= 1)%Qc -> pos_weights seg ->
  missing_rule ign (map (svalid true) seg) = false ->
  let V := map (fun r => fst (xw_of true r)) (filter (svalid true) seg) in
  exists q, wquantile_cell true ign p perm seg = Some q /\
            forall lo hi, is_min lo V -> is_max hi V -> (lo <= q)%Qc /\ (q <= hi)%Qc.
Proof. exact wq_range. Qed.
Print Assumptions C18_wq_range.

(* ---------------------------------------------------------------- covariance / correlation *)
(* entry (i, j) of cell u: rows used = complete rows of the cell when ignoring, all rows otherwise;
   missing with fewer than two used rows or when a used row lacks column i, column j or the weight;
   otherwise the (reliability-weighted: numpy aweights) covariance of the used rows *)
Theorem C18_cov_spec : forall weighted ign ncol size rows u i j d,
  0 <= u < size -> (i < ncol)%nat -> (j < ncol)%nat ->
  let seg0 := cell_m u rows in
  let used := mused weighted ign seg0 in
  let T := map (xyw_of weighted i j) used in
  let out := nth (i * ncol + j) (nth (Z.to_nat u) (covariance weighted ign ncol size rows) d) None in
  (lenZ used < 2 -> out = None) /\
  ((exists r, In r used /\ pair_valid weighted i j r = false) -> out = None) /\
  (Forall (fun r => pair_valid weighted i j r = true) used -> 2 <= lenZ used ->
     if weighted
     then tV1 T <> 0%Qc -> (tV1 T - tV2 T / tV1 T)%Qc <> 0%Qc -> out = Some (cov_w T)
     else out = Some (cov_u (map fst T))).
Proof. exact cov_spec. Qed.
Print Assumptions C18_cov_spec.
Theorem C18_cov_used_rows : forall weighted ign seg0,
  (ign = true -> mused weighted ign seg0 = filter (complete weighted) seg0 /\
                 forall r i j, In r (mused weighted ign seg0) -> (i < length (mxs r))%nat -> (j < length (mxs r))%nat ->
                               pair_valid weighted i j r = true) /\
  (ign = false -> mused weighted ign seg0 = seg0).
Proof. exact cov_used_rows. Qed.
Print Assumptions C18_cov_used_rows.
Theorem C18_complete_rows : forall weighted r, mxs r <> [] -> complete weighted r = row_complete weighted r.
Proof. exact complete_row_complete. Qed.
Print Assumptions C18_complete_rows.
(* correlation: the model returns (c_ij, c_ii, c_jj) (sqrt not modelled) *)
Theorem C18_corr_missing_spec : forall weighted ign ncol size rows u i j d,
  0 <= u < size -> (i < ncol)%nat -> (j < ncol)%nat ->
  let used := mused weighted ign (cell_m u rows) in
  let out := nth (i * ncol + j) (nth (Z.to_nat u) (corrcoef weighted ign ncol size rows) d) None in
  (lenZ used < 2 -> out = None) /\
  ((exists r, In r used /\ pair_valid weighted i j r = false) -> out = None) /\
  (forall cij cii cjj, out = Some (cij, cii, cjj) ->
     npcov weighted used i j = Some cij /\ npcov weighted used i i = Some cii /\ npcov weighted used j j = Some cjj /\
     (cii * cjj)%Qc <> 0%Qc /\ Forall (fun r => pair_valid weighted i j r = true) used /\ 2 <= lenZ used).
Proof. exact corr_missing_spec. Qed.
Print Assumptions C18_corr_missing_spec.
(* ... and those three numbers are the textbook covariances of the used rows *)
Theorem C18_npcov_unweighted : forall seg i j,
  Forall (fun r => pair_valid false i j r = true) seg -> 2 <= lenZ seg ->
  npcov false seg i j = Some (cov_u (map fst (map (xyw_of false i j) seg))).
Proof. exact npcov_unweighted. Qed.
Print Assumptions C18_npcov_unweighted.

(* ---------------------------------------------------------------- report and input formats *)
Theorem C18_formats_agree_iff : forall s vm, formats_agree s vm <-> (snd vm = false -> is_some (fst vm) = true).
Proof. exact formats_agree_iff. Qed.
Print Assumptions C18_formats_agree_iff.
Theorem C18_formats_of_nan : forall s v, formats_agree s (of_nan v).
Proof. exact formats_of_nan. Qed.
Print Assumptions C18_formats_of_nan.
Theorem C18_formats_stddev : forall s weighted ign size rows u d,
  0 <= u < size ->
  (weighted = false \/
   wtotal (map (xw_of weighted) (filter (svalid weighted) (cell_s u rows))) <> 0%Qc) ->
  formats_agree s (nth (Z.to_nat u) (stddev weighted ign size rows) d).
Proof. exact formats_stddev. Qed.
Print Assumptions C18_formats_stddev.
Theorem C18_input_hidden_irrelevant : forall vals vals' valid,
  length vals = length vals' ->
  (forall i, nth i valid false = true -> nth i vals 0%Qc = nth i vals' 0%Qc) ->
  normalize vals valid = normalize vals' valid.
Proof. exact normalize_hidden_irrelevant. Qed.
Print Assumptions C18_input_hidden_irrelevant.
Theorem C18_input_nan_marked : forall l : list F, normalize (map unF l) (map is_some l) = l.
Proof. exact normalize_nan_marked. Qed.
Print Assumptions C18_input_nan_marked.

(* ---------------------------------------------------------------- non-vacuity *)
Definition q (n d : Z) : F := Some (Q2Qc (n # Z.to_pos d)).
Definition showF (v : F) : option Q := option_map this v.

(* 2 x 3 cube, tuples -> coordinates; rows of cell (1, 2) *)
Example C18_ex_group :
  let rows := [[1; 2]; [0; 1]; [1; 2]; [1; 0]] in
  Forall (fun r => within [2; 3] r) rows /\ within [2; 3] [1; 2] /\ coordinate [2; 3] [1; 2] = 5 /\
  nth 5 (per_cell (fun r => coordinate [2; 3] r) (@length (list Z)) (prodZ [2; 3]) rows) 0%nat = 2%nat.
Proof. vm_compute. repeat split; repeat constructor; discriminate. Qed.

(* weighted stddev: cell 0 has rows (1, w 1), (3, w 3), (missing), cell 1 a single row, cell 2 none *)
Example C18_ex_stddev :
  let rows := [mk_srow 0 (q 1 1) (q 1 1); mk_srow 1 (q 5 1) (q 2 1); mk_srow 0 (q 3 1) (q 3 1); mk_srow 0 None (q 1 1)] in
  map (fun vm => (showF (fst vm), snd vm)) (stddev true true 3 rows) = [(Some (3 # 2)%Q, false); (None, true); (None, true)] /\
  map snd (stddev true false 3 rows) = [true; true; true] /\
  wtotal (map (xw_of true) (filter (svalid true) (cell_s 0 rows))) <> 0%Qc /\
  showF (Some (rel_var (map (xw_of true) (filter (svalid true) (cell_s 0 rows))))) = Some (3 # 2)%Q.
Proof. vm_compute. repeat split; discriminate. Qed.

Example C18_ex_stddev_unweighted :
  map (fun vm => (showF (fst vm), snd vm))
      (stddev false false 2 [mk_srow 0 (q 1 1) None; mk_srow 0 (q 3 1) None; mk_srow 1 (q 5 1) None])
  = [(Some 2%Q, false); (None, true)] /\
  showF (Some (sample_var [Q2Qc 1; Q2Qc 3])) = Some 2%Q.
Proof. vm_compute. split; reflexivity. Qed.

(* quantile 1/4 of {4, 1, 3} (+ one missing row, ignored) = 1 + (3 - 1) * 1/2 = 2 *)
Example C18_ex_quantile :
  let rows := [mk_srow 0 (q 4 1) None; mk_srow 0 None None; mk_srow 0 (q 1 1) None; mk_srow 0 (q 3 1) None] in
  map showF (quantile false true (Q2Qc (1 # 4)) 1 rows) = [Some 2%Q] /\
  map showF (quantile false false (Q2Qc (1 # 4)) 1 rows) = [None] /\
  missing_rule true (map (svalid false) (cell_s 0 rows)) = false /\
  missing_rule false (map (svalid false) (cell_s 0 rows)) = true.
Proof. vm_compute. repeat split; reflexivity. Qed.

Example C18_ex_minmax :
  let rows := [mk_srow 0 (q 4 1) None; mk_srow 1 None None; mk_srow 0 (q (-1) 2) None; mk_srow 1 (q 3 1) None] in
  map showF (minmax true true 3 rows) = [Some 4%Q; Some 3%Q; None] /\
  map showF (minmax false false 3 rows) = [Some (-1 # 2)%Q; None; None].
Proof. vm_compute. split; reflexivity. Qed.

(* weighted quantile: values 3, 1, (missing value), 2 with weights 1, 2, 1, 1; the missing value sorts last
   (argsort = [1; 3; 0; 2]); ignored -> 7/5 at p = 3/5, within [1, 3]; propagated -> missing (F20);
   a missing WEIGHT counts as well; rescaling the weights by 3 changes nothing *)
Example C18_ex_wquantile :
  let seg := [mk_srow 0 (q 3 1) (q 1 1); mk_srow 0 (q 1 1) (q 2 1); mk_srow 0 None (q 1 1); mk_srow 0 (q 2 1) (q 1 1)] in
  let segw := [mk_srow 0 (q 3 1) (q 1 1); mk_srow 0 (q 1 1) None] in
  let perm := [1; 3; 0; 2]%nat in
  sort_perm_ok perm (wq_seg true seg) = true /\
  showF (wquantile_cell true true (Q2Qc (3 # 5)) perm seg) = Some (7 # 5)%Q /\
  wquantile_cell true false (Q2Qc (1 # 2)) perm seg = None /\
  missing_rule false (map (svalid true) seg) = true /\ missing_rule true (map (svalid true) seg) = false /\
  sort_perm_ok [0; 1]%nat (wq_seg true segw) = true /\
  wquantile_cell true false (Q2Qc 0) [0; 1]%nat segw = None /\
  showF (wquantile_cell true true (Q2Qc (3 # 5)) perm (map (scale_w (Q2Qc 3)) seg)) = Some (7 # 5)%Q.
Proof. vm_compute. repeat split; reflexivity. Qed.

(* covariance of columns (1,2), (3,1), (2,6) with weights 1, 2, 1 and a row whose second column is missing *)
Example C18_ex_cov :
  let rows := [mk_mrow 0 [q 1 1; q 2 1] (q 1 1); mk_mrow 0 [q 3 1; q 1 1] (q 2 1); mk_mrow 0 [q 2 1; q 6 1] (q 1 1);
               mk_mrow 0 [q 5 1; None] (q 1 1)] in
  map (map showF) (covariance true true 2 1 rows) = [[Some (11 # 10)%Q; Some (-1)%Q; Some (-1)%Q; Some (34 # 5)%Q]] /\
  map (map showF) (covariance true false 2 1 rows) = [[Some (22 # 9)%Q; None; None; None]] /\
  map (map showF) (covariance false true 2 1 rows) = [[Some 1%Q; Some (-1 # 2)%Q; Some (-1 # 2)%Q; Some 7%Q]] /\
  showF (Some (cov_w (map (xyw_of true 0 1) (mused true true (cell_m 0 rows))))) = Some (-1)%Q /\
  showF (Some (cov_u (map fst (map (xyw_of false 0 1) (mused false true (cell_m 0 rows)))))) = Some (-1 # 2)%Q /\
  map (map (option_map (fun t : Qc * Qc * Qc => (this (fst (fst t)), this (snd (fst t)), this (snd t))))) (corrcoef false false 2 1 rows)
  = [[Some (35 # 12, 35 # 12, 35 # 12)%Q; None; None; None]].
Proof. vm_compute. repeat split; reflexivity. Qed.

Example C18_ex_formats :
  let rows := [mk_srow 0 (q 1 1) None; mk_srow 0 (q 3 1) None; mk_srow 1 (q 5 1) None] in
  map (fun vm => showF (nan_format vm)) (stddev false false 2 rows) = [Some 2%Q; None] /\
  map (fun vm => (showF (fst (pair_format (Q2Qc (-7)) vm)), snd (pair_format (Q2Qc (-7)) vm))) (stddev false false 2 rows)
  = [(Some 2%Q, true); (Some (-7 # 1)%Q, false)] /\
  map showF (normalize [Q2Qc 1; Q2Qc 12345; Q2Qc 3] [true; false; true]) = [Some 1%Q; None; Some 3%Q].
Proof. vm_compute. repeat split; reflexivity. Qed.
