(* C11 - INDX files are byte-for-byte the documented layout; independently written files load.
   [layout iw rw] / [decode] are the SPECIFICATION (Indx/Layout.v, written from the class docstring:
   independent encoder and decoder, parameterised by the two word sizes); [save] / [load] are the
   models of the code. *)
From Coq Require Import ZArith List Bool.
From Catii Require Import Dtype.FitSpec Dtype.FitHand Indx.Bytes Indx.Layout Indx.Save Indx.Load Indx.RoundTrip.
Import ListNotations.
Open Scope Z_scope.

(* the bytes written are the specification's bytes, with the narrowest index word size and 4-byte row ids *)
Theorem save_is_layout : forall es common, ok es common ->
  save es common = SOk (layout (narrowest_ws (max_word es common)) 4 es common).
Proof. exact RoundTrip.save_is_layout. Qed.
Print Assumptions save_is_layout.

(* the same for any row-id dtype passed to save *)
Theorem save_w_is_layout : forall rw es common, save_ok rw es common ->
  save_w rw es common = SOk (layout (narrowest_ws (max_word es common)) rw es common).
Proof. exact RoundTrip.save_w_is_layout. Qed.
Print Assumptions save_w_is_layout.

(* "narrowest": the chosen word size holds every index word, and no documented size below it does *)
Theorem narrowest : forall m, 0 <= m < 2 ^ 64 ->
  In (narrowest_ws m) [1; 2; 4; 8]%nat /\ fits (narrowest_ws m) m /\
  (forall w, In w [1; 2; 4; 8]%nat -> fits w m -> (narrowest_ws m <= w)%nat) /\
  itemsize (fit_dtype m 0) = Z.of_nat (narrowest_ws m).
Proof. exact RoundTrip.narrowest_spec. Qed.
Print Assumptions narrowest.

(* the recorded payload size is the real payload length whenever save returns - for ANY dict and any
   total number of row ids (no wrap at 2^30 or 2^32; save_is_layout shows that save does return) *)
Theorem size_field : forall rw es common bytes, save_w rw es common = SOk bytes ->
  firstn 8 bytes = magic /\
  firstn 8 (skipn 8 bytes) = le_encode 8 (zlen bytes - 16) /\ 0 <= zlen bytes - 16 < 2 ^ 64.
Proof. exact RoundTrip.size_field. Qed.
Print Assumptions size_field.

(* any specification file with documented word sizes wide enough for its data loads to that data -
   including word sizes save never picks and totals beyond the row-id word's own range *)
Theorem load_any_width : forall iw rw es common, admissible iw rw es common ->
  load (layout iw rw es common) = LOk es common (Z.of_nat rw).
Proof. exact RoundTrip.load_any_width. Qed.
Print Assumptions load_any_width.

(* an independent writer may record any dimension count for an index without entries *)
Theorem load_any_width_dims : forall d0 iw rw es common, admissible iw rw es common -> 0 <= d0 <= 255 ->
  load (layout_d d0 iw rw es common) = LOk es common (Z.of_nat rw).
Proof. exact RoundTrip.load_layout_d. Qed.
Print Assumptions load_any_width_dims.

(* non-vacuity: 1-byte row-id words with 3 x 100 = 300 > 255 row ids in total; an 8/2 pair save never writes *)
Example C11_nonvacuous :
  let rows := map Z.of_nat (seq 0 100) in
  admissible 1 1 [([1; 0], rows); ([2; 1], rows); ([3; 2], rows)] 0 /\
  admissible 8 2 [([1; 2 ^ 40], [3; 65535]); ([7; 7], [])] (2 ^ 62) /\
  save_ok 4 [([1; 2 ^ 40], [3; 65535]); ([7; 7], [])] (2 ^ 62).
Proof.
  split; [apply admissible_b_ok; vm_compute; reflexivity|].
  split; [apply admissible_b_ok; vm_compute; reflexivity|].
  apply ok_save_ok, ok_b_ok. vm_compute. reflexivity.
Qed.
