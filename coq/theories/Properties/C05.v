(* C05 - results are independent of which category is stored as common.

   `shift_common v` is the operation of the index model IIndex/OpsA.v (proved to keep well-formedness and the
   dense array in IIndex/ShiftCommon.v, property C06); Cube/AggShift.v turns a well-formed 1-D index into the
   one-axis cube dimension the walk sees (dict order kept) and shows it has the same dense column.  With
   ffunc_A_direct (C03) - the index cube is a function of the dense columns only, whichever cells the walk
   visits and whichever it reconstructs by differencing - re-encoding changes nothing.
   Hypotheses: is1d N i = well-formed (iindex.validate), N rows, one axis; covers = listed values and common
   inside the extents; the new common values inside the extents too (a value beyond the explicit extent is an
   IndexError; with an inferred shape the cube only grows by missing cells: C05_extra_cells_missing). *)
From Coq Require Import ZArith QArith Qcanon List Bool Lia.
From Catii Require Import Base.Sorted IIndex.Model IIndex.ModelFacts IIndex.OpsA IIndex.ShiftCommon.
From Catii Require Import Cube.Dim Cube.Walk Cube.WalkProofs Cube.Region Cube.Count Cube.CountProofs
     Cube.Direct Cube.FFuncs Cube.XCube Cube.AggBase Cube.AggProofs Cube.AggShift Cube.AggCheck.
Import ListNotations.
Open Scope Z_scope.

(* the bridge: a well-formed 1-D index is a well-formed dimension with the same dense column *)
Theorem C05_dimension_of_index : forall N i, is1d N i ->
  dim_wf N (dim_of_iindex i) /\ forall r, dim_dense (dim_of_iindex i) r = dense i r [].
Proof. exact dim_of_iindex_spec. Qed.
Print Assumptions C05_dimension_of_index.

(* any two encodings of the same dense columns give the same cube (values and missing marks, every format) *)
Theorem C05_encoding_independent : forall A N dims dims' shape h f w ign fm,
  0 <= N -> Forall (dim_wf N) dims -> Forall (dim_wf N) dims' -> Region.covers shape dims -> Region.covers shape dims' ->
  agg_fact_ok A f ->
  Forall2 (fun d d' => same_on N (dim_dense d) (dim_dense d')) dims dims' ->
  ccube_report A N dims shape h f w ign fm = ccube_report A N dims' shape h f w ign fm.
Proof. exact ccube_report_reencode. Qed.
Print Assumptions C05_encoding_independent.

(* C05: every dimension d_k replaced by d_k.shift_common(v_k), v_k any value inside the extent - frequent, rare or
   absent from the data; v_k = d_k.common leaves d_k as it is, so "one dimension d, any v" is an instance *)
Theorem C05_shift_common : forall A N idxs vs shape h f w ign fm,
  0 <= N -> Forall (is1d N) idxs -> Region.covers shape (map dim_of_iindex idxs) ->
  Forall2 (fun v e => 0 <= v < e) vs shape -> agg_fact_ok A f ->
  ccube_agg N (map dim_of_iindex (shifted idxs vs)) shape A h f w ign
    = ccube_agg N (map dim_of_iindex idxs) shape A h f w ign
  /\ ccube_report A N (map dim_of_iindex (shifted idxs vs)) shape h f w ign fm
     = ccube_report A N (map dim_of_iindex idxs) shape h f w ign fm.
Proof. exact AggShift.C05_shift_common. Qed.
Print Assumptions C05_shift_common.

(* ... and neither does re-normalising afterwards with the automatic choice shift_common() *)
Theorem C05_shift_common_auto : forall A N idxs shape h f w ign fm,
  0 <= N -> Forall (is1d N) idxs -> Region.covers shape (map dim_of_iindex idxs) ->
  Forall2 (fun v e => 0 <= v < e) (map auto_common idxs) shape -> agg_fact_ok A f ->
  ccube_report A N (map dim_of_iindex (renormalised idxs)) shape h f w ign fm
  = ccube_report A N (map dim_of_iindex idxs) shape h f w ign fm.
Proof. exact AggShift.C05_shift_common_auto. Qed.
Print Assumptions C05_shift_common_auto.

(* a value outside the data enlarges an inferred shape: the additional cells hold no row and are missing *)
Theorem C05_extra_cells_missing : forall wt fx A ign, cell_missing wt fx A ign [] = true.
Proof. exact empty_cell_missing. Qed.
Print Assumptions C05_extra_cells_missing.

(* ---- non-vacuity: two real-shaped indexes over 5 rows, commons 0 and 1; re-encoded to the rare value 2 of the
        second dimension and to the frequent value 1 of the first ---- *)
Definition ex_i0 : iindex := {| entries := [((1, []), [0; 2; 4])]; common := 0; nrows := 5; hshape := [] |}.
Definition ex_i1 : iindex := {| entries := [((2, []), [2]); ((0, []), [1; 3])]; common := 1; nrows := 5; hshape := [] |}.
Definition ex_fact : fact := FOne (MNaN [Some (q 1 2); Some (q 3 1); None; Some (q (-2) 1); Some (q 5 4)]).
Definition ex_w : weights := WArr (MNaN [Some (q 1 1); Some (q 2 1); Some (q 0 1); None; Some (q 1 2)]).

Example C05_hypotheses_hold :
  0 <= 5 /\ Forall (is1d 5) [ex_i0; ex_i1] /\ Region.covers [2; 3] (map dim_of_iindex [ex_i0; ex_i1])
  /\ Forall2 (fun v e => 0 <= v < e) [1; 2] [2; 3] /\ agg_fact_ok AMean ex_fact.
Proof.
  split; [lia|]. split.
  { constructor; [|constructor; [|constructor]]; (split; [apply wf_b_spec; vm_compute; reflexivity|split; reflexivity]). }
  split; [apply covers_b_sound; vm_compute; reflexivity|]. split; [repeat constructor; lia|discriminate].
Qed.
Example C05_reencoded_differs :      (* the re-encoded dimensions really are different objects ... *)
  map dim_of_iindex (shifted [ex_i0; ex_i1] [1; 2])
  = [mkdim ([(0, [1; 3])], 1); mkdim ([(0, [1; 3]); (1, [0; 4])], 2)].
Proof. vm_compute. reflexivity. Qed.
Example C05_nontrivial :             (* ... and the cube is the same, with a non-missing reconstructed cell (1,1) *)
  cells_eqb (ccube_agg 5 (map dim_of_iindex (shifted [ex_i0; ex_i1] [1; 2])) [2; 3] AMean h_eval ex_fact ex_w true)
            (ccube_agg 5 (map dim_of_iindex [ex_i0; ex_i1]) [2; 3] AMean h_eval ex_fact ex_w true) = true
  /\ cells_eqb (ccube_agg 5 (map dim_of_iindex [ex_i0; ex_i1]) [2; 3] AMean h_eval ex_fact ex_w true)
       [[(q 3 1, false)]; [(q0, true)]; [(q0, true)]; [(q0, true)]; [(q 3 4, false)]; [(q0, true)]] = true.
Proof. vm_compute. split; reflexivity. Qed.
