(* C15 - the library-chosen common value is a most frequent value; equality is canonical.

   [dense_count idx v] (IIndex/Count.v) = number of cells of the dense array holding v.
   Part 1: after every normalisation in which the LIBRARY chooses the common value - shift_common() without an
   argument, append, filtered, collapsed (whose closing from_array chooses), from_array without a common value -
   no value occurs more often than the stored common value (ties may be broken either way: the theorems hold for
   the model's choice, and for any other maximal value the dense content is the same by C06_shift_common_dense);
   hence the stored row ids are as few as possible ([C15_stored_rowids]).
   Part 2: [eq_model] mirrors __eq__ (shape, common, number of entries, every entry's row ids as a set against
   other.get(coords, [])), [ne_model] mirrors the repaired __ne__.  For well-formed indexes == holds exactly when
   shape, common value and dense content coincide ([same_content]); then the entries coincide up to order; != is
   the negation; == is reflexive, symmetric and transitive.  Comparison with a non-index (False) is outside the
   model's type and covered by the harness.
   Proofs: IIndex/Count.v, CommonMax.v, OpsBProofs_collapsed.v, FromArrayCommon.v, HistoryCommon.v, EqProofs.v. *)
From Coq Require Import ZArith List Bool Permutation.
From Catii Require Import Base.Sorted IIndex.Res IIndex.Model IIndex.ModelFacts IIndex.OpsA IIndex.OpsB IIndex.Step
  IIndex.ShiftCommon IIndex.Count IIndex.CommonMax IIndex.OpsAProofs_Append IIndex.OpsAProofs_FilteredAuto
  IIndex.OpsBProofs_collapsed IIndex.FromArray IIndex.C01Proofs IIndex.FromArrayCommon IIndex.EqProofs IIndex.HistorySpec IIndex.History IIndex.HistoryB IIndex.HistoryCommon.
Import ListNotations.
Open Scope Z_scope.

(* ---- the automatic choice (iindexes.py:457-461: max of (count, value)) is a most frequent value ---- *)
Theorem C15_auto_common_is_max idx :
  WF idx -> forall v, dense_count idx v <= dense_count idx (auto_common idx).
Proof. exact (auto_common_is_max idx). Qed.
Print Assumptions C15_auto_common_is_max.

(* the counts the library computes from the entries are the true cell counts *)
Theorem C15_dense_count_all_counts idx v :
  WF idx -> dense_count idx v = cnt_get v (all_counts idx).
Proof. exact (dense_count_all_counts idx v). Qed.
Print Assumptions C15_dense_count_all_counts.

(* ---- after each library-chosen normalisation ---- *)
Theorem C15_shift_auto_common_max idx :
  WF idx ->
  forall v, dense_count (shift_common_auto idx) v <= dense_count (shift_common_auto idx) (common (shift_common_auto idx)).
Proof. exact (shift_auto_common_max idx). Qed.
Print Assumptions C15_shift_auto_common_max.

Theorem C15_append_common_max idx other :
  WF idx -> WF other -> append_ok idx other ->
  forall v, dense_count (append idx other) v <= dense_count (append idx other) (common (append idx other)).
Proof. exact (append_common_max idx other). Qed.
Print Assumptions C15_append_common_max.

Theorem C15_filtered_common_max idx mask :
  WF idx -> filtered_ok idx mask ->
  forall v, dense_count (filtered idx mask) v <= dense_count (filtered idx mask) (common (filtered idx mask)).
Proof. exact (filtered_common_max idx mask). Qed.
Print Assumptions C15_filtered_common_max.

Theorem C15_collapsed_common_max idx prec m out :
  WF idx -> collapse_ok idx prec -> collapsed idx prec m = Ok out ->
  forall v, dense_count out v <= dense_count out (common out).
Proof. exact (collapsed_common_max idx prec m out). Qed.
Print Assumptions C15_collapsed_common_max.

Theorem C15_from_array_common_max a o s idx :
  rect a -> a_nrows a <= 2 ^ 32 -> pre_data a o -> o_common o = None -> o_counts o = None ->
  from_array a o s = Ok idx ->
  forall w, dense_count idx w <= dense_count idx (common idx).
Proof. exact (from_array_common_max a o s idx). Qed.
Print Assumptions C15_from_array_common_max.

Theorem C15_stored_rowids idx :
  WF idx -> sum_len (entries idx) = size idx - dense_count idx (common idx).
Proof. exact (stored_rowids idx). Qed.
Print Assumptions C15_stored_rowids.

(* ---- over histories: whenever the last step is one where the library chooses (Step.lib_chosen) ---- *)
Theorem C15_step_common_max idx o idx' :
  WF idx -> args_ok idx o -> lib_chosen o = true -> step idx o = Ok idx' ->
  forall v, dense_count idx' v <= dense_count idx' (common idx').
Proof. exact (step_common_max idx o idx'). Qed.
Print Assumptions C15_step_common_max.

Theorem C15_history_common_max ops o s0 s :
  WF s0 -> hist_ok s0 (ops ++ [o]) -> lib_chosen o = true ->
  run s0 (ops ++ [o]) = Ok s -> forall v, dense_count s v <= dense_count s (common s).
Proof. exact (history_common_max ops o s0 s). Qed.
Print Assumptions C15_history_common_max.

(* ---- equality ---- *)
Theorem C15_eq_spec a b :
  WF a -> WF b -> (eq_model a b = true <-> same_content a b).
Proof. exact (eq_spec a b). Qed.
Print Assumptions C15_eq_spec.

Theorem C15_canonical a b :
  WF a -> WF b -> same_content a b -> Permutation (entries a) (entries b).
Proof. exact (canonical a b). Qed.
Print Assumptions C15_canonical.

Theorem C15_eq_canonical a b :
  WF a -> WF b -> eq_model a b = true -> Permutation (entries a) (entries b).
Proof. exact (eq_canonical a b). Qed.
Print Assumptions C15_eq_canonical.

Theorem C15_ne_spec a b :
  ne_model a b = negb (eq_model a b).
Proof. exact (ne_spec a b). Qed.
Print Assumptions C15_ne_spec.

Theorem C15_ne_true_iff a b :
  WF a -> WF b -> (ne_model a b = true <-> ~ same_content a b).
Proof. exact (ne_true_iff a b). Qed.
Print Assumptions C15_ne_true_iff.

Theorem C15_eq_refl_wf a :
  WF a -> eq_model a a = true.
Proof. exact (eq_refl_wf a). Qed.
Print Assumptions C15_eq_refl_wf.

Theorem C15_eq_sym_wf a b :
  WF a -> WF b -> eq_model a b = eq_model b a.
Proof. exact (eq_sym_wf a b). Qed.
Print Assumptions C15_eq_sym_wf.

Theorem C15_eq_trans_wf a b c :
  WF a -> WF b -> WF c ->
  eq_model a b = true -> eq_model b c = true -> eq_model a c = true.
Proof. exact (eq_trans_wf a b c). Qed.
Print Assumptions C15_eq_trans_wf.

(* ---- non-vacuity ---- *)
Definition ex2 : iindex :=
  {| entries := [((1, [0]), [0; 2]); ((2, [0]), [1]); ((1, [1]), [4]); ((7, [2]), [0; 1; 2; 3])];
     common := 0; nrows := 5; hshape := [3] |}.
Definition ex2b : iindex := {| entries := [((5, [1]), [0; 1])]; common := 7; nrows := 2; hshape := [3] |}.
(* the same content as ex2, entries in another order *)
Definition ex2_perm : iindex :=
  {| entries := [((7, [2]), [0; 1; 2; 3]); ((1, [1]), [4]); ((1, [0]), [0; 2]); ((2, [0]), [1])];
     common := 0; nrows := 5; hshape := [3] |}.
(* one cell differs / the common differs / the shape differs *)
Definition ex2_cell : iindex :=
  {| entries := [((1, [0]), [0; 2]); ((2, [0]), [1]); ((1, [1]), [3]); ((7, [2]), [0; 1; 2; 3])];
     common := 0; nrows := 5; hshape := [3] |}.
Definition ex2_common : iindex :=
  {| entries := [((1, [0]), [0; 2]); ((2, [0]), [1]); ((1, [1]), [4]); ((7, [2]), [0; 1; 2; 3])];
     common := 3; nrows := 5; hshape := [3] |}.
Definition ex2_shape : iindex :=
  {| entries := [((1, [0]), [0; 2]); ((2, [0]), [1]); ((1, [1]), [4]); ((7, [2]), [0; 1; 2; 3])];
     common := 0; nrows := 6; hshape := [3] |}.

Example C15_nonvacuous_common :
  WF ex2 /\ WF ex2b /\ append_ok ex2 ex2b /\ filtered_ok ex2 [true; false; true; true; false] /\ collapse_ok ex2 [7; -1; 1] /\
  (* the most frequent value changes through append: 0 (7 of 15 cells) before, 7 (8 of 21 cells against 7 zeros) after *)
  common (append ex2 ex2b) = 7 /\ dense_count (append ex2 ex2b) 7 = 8 /\ dense_count (append ex2 ex2b) 0 = 7 /\
  common (filtered ex2 [true; false; true; true; false]) = 0 /\
  match collapsed ex2 [7; -1; 1] None with Ok out => common out = 7 /\ dense_rows out = [[7]; [7]; [7]; [7]; [1]] | Err _ => False end /\
  common (shift_common_auto ex2) = 0.
Proof.
  split; [apply wf_b_spec; vm_compute; reflexivity|].
  split; [apply wf_b_spec; vm_compute; reflexivity|].
  split; [split; [reflexivity|vm_compute; discriminate]|].
  split; [reflexivity|].
  split; [apply collapse_ok_b_sound; vm_compute; reflexivity|].
  vm_compute. repeat split; reflexivity.
Qed.
Print Assumptions C15_nonvacuous_common.

Example C15_nonvacuous_from_array :
  let a := arr2 2 [[1; -2]; [3; 1]; [1; 1]; [256; 3]; [-2; -2]] in
  let o := {| o_counts := None; o_common := None; o_mapping := Some [(1, 7); (-2, 7); (3, 9); (256, 7)] |} in
  rect a /\ pre_data a o /\
  match from_array a o Where, from_array a o RowScan with
  | Ok i1, Ok i2 => common i1 = 7 /\ common i2 = 7 /\ dense_count i1 7 = 8 /\ dense_count i1 9 = 2 /\ wf_b i1 = true
  | _, _ => False
  end.
Proof.
  split; [apply rect_b_sound; vm_compute; reflexivity|].
  split; [|vm_compute; repeat split; reflexivity].
  constructor.
  - intros v Hv. vm_compute in Hv |- *. tauto.
  - intros v Hv. vm_compute in Hv. unfold mapping_defined. cbn [o_mapping].
    destruct Hv as [<-|[<-|[<-|[<-|[]]]]]; vm_compute; discriminate.
  - intros c Hc. discriminate.
Qed.
Print Assumptions C15_nonvacuous_from_array.

Example C15_nonvacuous_eq :
  WF ex2 /\ WF ex2_perm /\ WF ex2_cell /\ WF ex2_common /\ WF ex2_shape /\
  eq_model ex2 ex2_perm = true /\ ne_model ex2 ex2_perm = false /\ eq_model ex2_perm ex2 = true /\
  eq_model ex2 ex2_cell = false /\ ne_model ex2 ex2_cell = true /\
  eq_model ex2 ex2_common = false /\ eq_model ex2 ex2_shape = false /\
  entries ex2 <> entries ex2_perm.
Proof.
  repeat (split; [first [apply wf_b_spec; vm_compute; reflexivity | vm_compute; reflexivity]|]).
  discriminate.
Qed.
Print Assumptions C15_nonvacuous_eq.
