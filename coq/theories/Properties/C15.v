(* C15 — library-chosen common is a most frequent value; equality is canonical.  (growing; see the final header) *)
From Coq Require Import ZArith List Bool.
From Catii Require Import Base.Sorted IIndex.Model IIndex.ModelFacts IIndex.OpsA IIndex.ShiftCommon IIndex.Count.
Import ListNotations.
Open Scope Z_scope.

Theorem C15_auto_common_is_max idx : WF idx -> forall v, dense_count idx v <= dense_count idx (auto_common idx).
Proof. exact (auto_common_is_max idx). Qed.
Print Assumptions C15_auto_common_is_max.
