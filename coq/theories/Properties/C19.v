(* C19 - chosen integer dtypes are always wide enough, and no wider than needed.
   Stated over the hand model [fit_dtype] (tied to the code by the grid correspondence of the C19
   check); Properties/C19gen.v states the same over the model regenerated from the source. *)
From Coq Require Import ZArith Bool List.
From Catii Require Import Dtype.FitSpec Dtype.FitHand Dtype.FitTactics Dtype.FitProofs.
Import ListNotations.
Open Scope Z_scope.

Theorem C19_hand : forall mx mn,
  let mn' := eff_min mx mn in
  - 2 ^ 63 <= mn' -> mx < 2 ^ 64 -> (mn' < 0 -> mx < 2 ^ 63) -> mn' <= mx ->
  let d := fit_dtype mx mn in
  contains d (Z.min mn' 0) mx /\ signed d = (mn' <? 0) /\
  forall d', signed d' = signed d -> contains d' (Z.min mn' 0) mx -> width d <= width d'.
Proof. exact fit_hand_C19. Qed.
Print Assumptions C19_hand.

Theorem C19_hand_narrowest : forall mx mn,
  let mn' := eff_min mx mn in
  - 2 ^ 63 <= mn' -> mx < 2 ^ 64 -> (mn' < 0 -> mx < 2 ^ 63) -> mn' <= mx ->
  spec_choice mx mn = Some (fit_dtype mx mn).
Proof. exact fit_hand_spec. Qed.
Print Assumptions C19_hand_narrowest.

(* non-vacuity: the hypotheses are met on both sides of the sign split, at a boundary *)
Example C19_nonvacuous :
  (let mx := 65536 in let mn := -129 in
   - 2 ^ 63 <= eff_min mx mn /\ mx < 2 ^ 64 /\ (eff_min mx mn < 0 -> mx < 2 ^ 63) /\ eff_min mx mn <= mx
   /\ fit_dtype mx mn = D_int32) /\
  (let mx := 2 ^ 64 - 1 in let mn := 0 in
   - 2 ^ 63 <= eff_min mx mn /\ mx < 2 ^ 64 /\ (eff_min mx mn < 0 -> mx < 2 ^ 63) /\ eff_min mx mn <= mx
   /\ fit_dtype mx mn = D_uint64).
Proof. vm_compute. repeat split; try discriminate; intros; discriminate. Qed.
