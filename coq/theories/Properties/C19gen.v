(* C19 over the model generated from /repo's current source by harness/translate_int.py. *)
From Coq Require Import ZArith Bool List.
From Catii Require Import Dtype.FitSpec Dtype.FitTactics Dtype.gen.FitGen Dtype.GenProofs.
Import ListNotations.
Open Scope Z_scope.

Theorem C19 : forall mx mn,
  let mn' := eff_min mx mn in
  - 2 ^ 63 <= mn' -> mx < 2 ^ 64 -> (mn' < 0 -> mx < 2 ^ 63) -> mn' <= mx ->
  let d := fit_dtype_gen mx mn in
  contains d (Z.min mn' 0) mx /\ signed d = (mn' <? 0) /\
  forall d', signed d' = signed d -> contains d' (Z.min mn' 0) mx -> width d <= width d'.
Proof. exact fit_gen_C19. Qed.
Print Assumptions C19.

Theorem C19_indx_format : forall s, In s [1; 2; 4; 8] -> sfmt_size (indx_format_gen s) = s.
Proof. exact indx_format_gen_size. Qed.
Print Assumptions C19_indx_format.

Theorem C19_indx_dtype : forall s, In s [1; 2; 4; 8] ->
  itemsize (indx_dtype_gen s) = s /\ signed (indx_dtype_gen s) = false.
Proof. exact indx_dtype_gen_size. Qed.
Print Assumptions C19_indx_dtype.
