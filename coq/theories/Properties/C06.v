(* C06 - index operations track NumPy on the dense array, over any history.

   Models: IIndex/Model.v (iindex = association list {(value, higher coords) -> row ids} + common + shape;
   [dense idx r hc] = the cell (r, hc) of the array the index stands for), IIndex/OpsA.v, OpsB.v (one function
   per operation, mirroring the algorithm of src/catii/iindexes.py), IIndex/Step.v ([op], [step], [run]).
   NumPy side: a dense array is [darr] = extents + cell function; [refines idx d] = same extents and the same
   cell in range.  The per-operation theorems state shape and dense content of the result (pointwise, in range);
   [C06_step_refines] / [C06_history_refines] collect them over the operation type and over arbitrary finite
   histories (induction over [run]).  [spec_step c d o] (IIndex/HistorySpec.v) is NumPy's effect of operation o
   on the array d; its parameter c (the receiver's common value) is consulted only where the operation's meaning
   on the array mentions it (intersection/difference_update, set_if, the default mapping of reindexed());
   for histories of the other operations the NumPy side is a plain fold ([C06_history_refines_fold]).
   Argument conditions ([args_ok], per operation; boolean twins in IIndex/ArgsOkB.v):
     append: operand well-formed, same higher shape, at most 2^32 rows in total;
     update: keys distinct, coordinates in shape, row ids increasing and in range, no cell assigned two values;
     union_update: the operand's entries do not contradict the receiver's (a well-formed result exists);
     intersection/difference_update: distinct keys;   filtered: mask of the receiver's length;
     sliced: no argument, or one order per higher axis, ints and lists of DISTINCT columns within the extent;
     collapsed: 2-D receiver, non-empty precedence list (repeated values allowed) within a NumPy integer dtype;
     column_stack: every input well-formed, 1-D or 2-D, same row count;   all others: none.
   "Operands other than the receiver are unchanged" and "copies share no storage" are facts about the heap and
   are covered by C17 and the harness (the model is functional).
   Proofs: IIndex/ShiftCommon.v, OpsAProofs_*.v, OpsBProofs_*.v, History.v.  Tie to the code: harness/props/c06.py
   + IIndex/Check.v (stepwise simulation). *)
From Coq Require Import ZArith List Bool.
From Catii Require Import Base.Sorted IIndex.Res IIndex.Model IIndex.ModelFacts IIndex.OpsA IIndex.OpsB IIndex.Step
  IIndex.ShiftCommon IIndex.OpsAProofs_Observers IIndex.OpsAProofs_Append IIndex.OpsAProofs_Filtered
  IIndex.OpsAProofs_FilteredAuto IIndex.OpsAProofs_Update IIndex.OpsAProofs_SetIf IIndex.ArgsOkB
  IIndex.OpsBProofs_reindexed IIndex.OpsBProofs_sliced IIndex.OpsBProofs_stack IIndex.OpsBProofs_collapsed
  IIndex.HistorySpec IIndex.History IIndex.HistoryB.
Import ListNotations.
Open Scope Z_scope.

(* ---- shift_common(v), shift_common(): changing the common value changes nothing ---- *)
Theorem C06_shift_common_shape idx v :
  nrows (shift_common idx v) = nrows idx /\ hshape (shift_common idx v) = hshape idx.
Proof. exact (shift_common_shape idx v). Qed.
Print Assumptions C06_shift_common_shape.

Theorem C06_shift_common_common idx v :
  common (shift_common idx v) = v.
Proof. exact (shift_common_common idx v). Qed.
Print Assumptions C06_shift_common_common.

Theorem C06_shift_common_dense idx v r hc :
  WF idx -> in_range idx r hc ->
  dense (shift_common idx v) r hc = dense idx r hc.
Proof. exact (shift_common_dense idx v r hc). Qed.
Print Assumptions C06_shift_common_dense.

Theorem C06_shift_common_auto_shape idx :
  nrows (shift_common_auto idx) = nrows idx /\ hshape (shift_common_auto idx) = hshape idx.
Proof. exact (shift_common_auto_shape idx). Qed.
Print Assumptions C06_shift_common_auto_shape.

Theorem C06_shift_common_auto_dense idx r hc :
  WF idx -> in_range idx r hc ->
  dense (shift_common_auto idx) r hc = dense idx r hc.
Proof. exact (shift_common_auto_dense idx r hc). Qed.
Print Assumptions C06_shift_common_auto_dense.

(* ---- copy ---- *)
Theorem C06_copy_same idx :
  nrows (copy idx) = nrows idx /\ hshape (copy idx) = hshape idx /\ common (copy idx) = common idx.
Proof. exact (copy_same idx). Qed.
Print Assumptions C06_copy_same.

Theorem C06_copy_dense idx r hc :
  dense (copy idx) r hc = dense idx r hc.
Proof. exact (copy_dense idx r hc). Qed.
Print Assumptions C06_copy_dense.

(* ---- append = numpy.concatenate ---- *)
Theorem C06_append_shape idx other :
  nrows (append idx other) = nrows idx + nrows other /\ hshape (append idx other) = hshape idx.
Proof. exact (append_shape idx other). Qed.
Print Assumptions C06_append_shape.

Theorem C06_append_dense idx other r hc :
  WF idx -> WF other -> append_ok idx other ->
  0 <= r < nrows idx + nrows other -> in_hshape hc (hshape idx) ->
  dense (append idx other) r hc = if r <? nrows idx then dense idx r hc else dense other (r - nrows idx) hc.
Proof. exact (append_dense idx other r hc). Qed.
Print Assumptions C06_append_dense.

Theorem C06_append_refines idx other d e :
  WF idx -> WF other -> append_ok idx other ->
  refines idx d -> refines other e -> refines (append idx other) (spec_append d e).
Proof. exact (append_refines idx other d e). Qed.
Print Assumptions C06_append_refines.

(* ---- filtered = a[mask] ---- *)
Theorem C06_filtered_shape idx mask :
  filtered_ok idx mask ->
  nrows (filtered idx mask) = lenZ (kept_rows mask) /\ hshape (filtered idx mask) = hshape idx.
Proof. exact (filtered_shape idx mask). Qed.
Print Assumptions C06_filtered_shape.

Theorem C06_filtered_dense idx mask r hc :
  WF idx -> filtered_ok idx mask ->
  0 <= r < lenZ (kept_rows mask) -> in_hshape hc (hshape idx) ->
  dense (filtered idx mask) r hc = dense idx (nth (Z.to_nat r) (kept_rows mask) 0) hc.
Proof. exact (filtered_dense idx mask r hc). Qed.
Print Assumptions C06_filtered_dense.

Theorem C06_filtered_refines idx mask d :
  WF idx -> filtered_ok idx mask -> refines idx d ->
  refines (filtered idx mask) (spec_filtered d mask).
Proof. exact (filtered_refines idx mask d). Qed.
Print Assumptions C06_filtered_refines.

(* ---- update = a[rowids, col] = value ---- *)
Theorem C06_update_shape idx upd :
  nrows (update idx upd) = nrows idx /\ hshape (update idx upd) = hshape idx /\ common (update idx upd) = common idx.
Proof. exact (update_shape idx upd). Qed.
Print Assumptions C06_update_shape.

Theorem C06_update_dense idx upd r hc :
  WF idx -> upd_ok idx upd -> in_range idx r hc ->
  dense (update idx upd) r hc =
  match find (covers r hc) upd with Some e => fst (fst e) | None => dense idx r hc end.
Proof. exact (update_dense idx upd r hc). Qed.
Print Assumptions C06_update_dense.

Theorem C06_update_refines idx upd d :
  WF idx -> upd_ok idx upd ->
  refines idx d -> refines (update idx upd) (spec_update d upd).
Proof. exact (update_refines idx upd d). Qed.
Print Assumptions C06_update_refines.

Theorem C06_listed_update idx upd r hc v :
  NoDup (keys (entries idx)) -> NoDup (keys upd) ->
  (listed (update idx upd) r hc v <->
   (listed idx r hc v /\ in_cells upd r hc = false) \/ (listed_in upd r hc v /\ v <> common idx)).
Proof. exact (listed_update idx upd r hc v). Qed.
Print Assumptions C06_listed_update.

(* ---- union / intersection / difference_update: entry-wise set algebra, and its effect on the array ---- *)
Theorem C06_set_update_shape idx other :
  (nrows (union_update idx other) = nrows idx /\ hshape (union_update idx other) = hshape idx /\ common (union_update idx other) = common idx) /\
  (nrows (intersection_update idx other) = nrows idx /\ hshape (intersection_update idx other) = hshape idx /\ common (intersection_update idx other) = common idx) /\
  (nrows (difference_update idx other) = nrows idx /\ hshape (difference_update idx other) = hshape idx /\ common (difference_update idx other) = common idx).
Proof. exact (set_update_shape idx other). Qed.
Print Assumptions C06_set_update_shape.

Theorem C06_listed_union_update idx other r hc v :
  NoDup (keys (entries idx)) -> NoDup (keys other) ->
  (listed (union_update idx other) r hc v <-> listed idx r hc v \/ listed_in other r hc v).
Proof. exact (listed_union_update idx other r hc v). Qed.
Print Assumptions C06_listed_union_update.

Theorem C06_listed_intersection_update idx other r hc v :
  NoDup (keys (entries idx)) -> NoDup (keys other) ->
  (listed (intersection_update idx other) r hc v <-> listed idx r hc v /\ listed_in other r hc v).
Proof. exact (listed_intersection_update idx other r hc v). Qed.
Print Assumptions C06_listed_intersection_update.

Theorem C06_listed_difference_update idx other r hc v :
  NoDup (keys (entries idx)) -> NoDup (keys other) ->
  (listed (difference_update idx other) r hc v <-> listed idx r hc v /\ ~ listed_in other r hc v).
Proof. exact (listed_difference_update idx other r hc v). Qed.
Print Assumptions C06_listed_difference_update.

Theorem C06_union_update_dense idx other r hc :
  WF idx -> other_ok idx other ->
  dense (union_update idx other) r hc =
  match find (covers r hc) other with Some e => fst (fst e) | None => dense idx r hc end.
Proof. exact (union_update_dense idx other r hc). Qed.
Print Assumptions C06_union_update_dense.

Theorem C06_intersection_update_dense idx other r hc :
  WF idx -> NoDup (keys other) ->
  dense (intersection_update idx other) r hc =
  if memZ r (rows_at (dense idx r hc, hc) other) then dense idx r hc else common idx.
Proof. exact (intersection_update_dense idx other r hc). Qed.
Print Assumptions C06_intersection_update_dense.

Theorem C06_difference_update_dense idx other r hc :
  WF idx -> NoDup (keys other) ->
  dense (difference_update idx other) r hc =
  if memZ r (rows_at (dense idx r hc, hc) other) then common idx else dense idx r hc.
Proof. exact (difference_update_dense idx other r hc). Qed.
Print Assumptions C06_difference_update_dense.

(* ---- set_if ---- *)
Theorem C06_set_if_shape idx k v :
  nrows (set_if idx k v) = nrows idx /\ hshape (set_if idx k v) = hshape idx /\ common (set_if idx k v) = common idx.
Proof. exact (set_if_shape idx k v). Qed.
Print Assumptions C06_set_if_shape.

Theorem C06_listed_set_if idx k v r hc u :
  NoDup (keys (entries idx)) ->
  (listed (set_if idx k v) r hc u <-> if key_eqb (u, hc) k then In r v else listed idx r hc u).
Proof. exact (listed_set_if idx k v r hc u). Qed.
Print Assumptions C06_listed_set_if.

Theorem C06_set_if_dense idx k v r hc :
  WF idx -> set_if_ok idx k v ->
  dense (set_if idx k v) r hc =
  if zl_eqb hc (snd k)
  then (if memZ r v then fst k else if dense idx r hc =? fst k then common idx else dense idx r hc)
  else dense idx r hc.
Proof. exact (set_if_dense idx k v r hc). Qed.
Print Assumptions C06_set_if_dense.

(* ---- reindexed = element-wise value mapping; the default mapping sends the k-th smallest listed value to k-1 and leaves the common value ---- *)
Theorem C06_reindexed_shape idx m sh :
  nrows (reindexed idx m sh) = nrows idx /\ hshape (reindexed idx m sh) = hshape idx.
Proof. exact (reindexed_shape idx m sh). Qed.
Print Assumptions C06_reindexed_shape.

Theorem C06_reindexed_dense idx m sh r hc :
  WF idx -> in_range idx r hc ->
  dense (reindexed idx m sh) r hc = reindex_fun idx m (dense idx r hc).
Proof. exact (reindexed_dense idx m sh r hc). Qed.
Print Assumptions C06_reindexed_dense.

Theorem C06_reindexed_noshift_common idx m :
  common (reindexed idx m false) = reindex_fun idx m (common idx).
Proof. exact (reindexed_noshift_common idx m). Qed.
Print Assumptions C06_reindexed_noshift_common.

Theorem C06_reindex_fun_explicit idx m v :
  reindex_fun idx (Some m) v = map_get m v.
Proof. exact (reindex_fun_explicit idx m v). Qed.
Print Assumptions C06_reindex_fun_explicit.

Theorem C06_default_fun_rank idx k :
  (k < length (listed_values idx))%nat ->
  reindex_fun idx None (nth k (listed_values idx) 0) = Z.of_nat k.
Proof. exact (default_fun_rank idx k). Qed.
Print Assumptions C06_default_fun_rank.

Theorem C06_default_fun_other idx v :
  ~ In v (listed_values idx) -> reindex_fun idx None v = v.
Proof. exact (default_fun_other idx v). Qed.
Print Assumptions C06_default_fun_other.

Theorem C06_default_fun_common idx :
  WF idx -> reindex_fun idx None (common idx) = common idx.
Proof. exact (default_fun_common idx). Qed.
Print Assumptions C06_default_fun_common.

(* ---- sliced = column selection in the requested order; slices1d = every column slice labelled with its own higher coordinates ---- *)
Theorem C06_sliced_shape idx orders out :
  orders_ok orders (hshape idx) -> sliced idx orders = Ok out ->
  nrows out = nrows idx /\ hshape out = slice_shape orders (hshape idx) /\ common out = common idx.
Proof. exact (sliced_shape idx orders out). Qed.
Print Assumptions C06_sliced_shape.

Theorem C06_sliced_dense idx orders out r hc' :
  WF idx -> orders_ok orders (hshape idx) ->
  sliced idx orders = Ok out -> in_range out r hc' ->
  dense out r hc' = dense idx r (unslice orders hc').
Proof. exact (sliced_dense idx orders out r hc'). Qed.
Print Assumptions C06_sliced_dense.

Theorem C06_sliced_unslice_in_range idx orders out r hc' :
  orders_ok orders (hshape idx) ->
  sliced idx orders = Ok out -> in_range out r hc' -> in_range idx r (unslice orders hc').
Proof. exact (sliced_unslice_in_range idx orders out r hc'). Qed.
Print Assumptions C06_sliced_unslice_in_range.

Theorem C06_sliced_too_many idx orders :
  (length (hshape idx) < length orders)%nat -> sliced idx orders = Err ETypeError.
Proof. exact (sliced_too_many idx orders). Qed.
Print Assumptions C06_sliced_too_many.

Theorem C06_slices1d_spec idx :
  WF idx ->
  NoDup (map fst (slices1d idx))
  /\ (forall hc, In hc (map fst (slices1d idx)) <-> in_hshape hc (hshape idx))
  /\ (forall lbl s, In (lbl, s) (slices1d idx) -> slice_of idx lbl s).
Proof. exact (slices1d_spec idx). Qed.
Print Assumptions C06_slices1d_spec.

(* ---- column_stack = numpy.column_stack ---- *)
Theorem C06_column_stack_total idxs nc0 :
  cs_args_ok idxs -> exists out, column_stack idxs nc0 = Ok out.
Proof. exact (column_stack_total idxs nc0). Qed.
Print Assumptions C06_column_stack_total.

Theorem C06_column_stack_shape idxs nc0 out :
  cs_args_ok idxs -> column_stack idxs nc0 = Ok out ->
  nrows out = nrows (hd out idxs) /\ hshape out = [cs_off idxs] /\ (forall c, nc0 = Some c -> common out = c).
Proof. exact (column_stack_shape idxs nc0 out). Qed.
Print Assumptions C06_column_stack_shape.

Theorem C06_column_stack_dense idxs nc0 out :
  cs_args_ok idxs -> column_stack idxs nc0 = Ok out ->
  forall p1 ii p2, idxs = p1 ++ ii :: p2 -> forall r c, 0 <= r < nrows out -> 0 <= c < cs_width ii ->
    dense out r [cs_off p1 + c] = dense ii r (cs_col ii c).
Proof. exact (column_stack_dense idxs nc0 out). Qed.
Print Assumptions C06_column_stack_dense.

Theorem C06_column_stack_cover idxs :
  Forall (fun x => 0 <= cs_width x) idxs -> forall c, 0 <= c < cs_off idxs ->
  exists p1 ii p2 c0, idxs = p1 ++ ii :: p2 /\ 0 <= c0 < cs_width ii /\ c = cs_off p1 + c0.
Proof. exact (column_stack_cover idxs). Qed.
Print Assumptions C06_column_stack_cover.

Theorem C06_column_stack_empty nc0 :
  column_stack [] nc0 = Err EIndexError.
Proof. exact (column_stack_empty nc0). Qed.
Print Assumptions C06_column_stack_empty.

Theorem C06_column_stack_rows_differ i0 rest nc0 :
  (exists ii, In ii (i0 :: rest) /\ nrows ii <> nrows i0) -> column_stack (i0 :: rest) nc0 = Err EValueError.
Proof. exact (column_stack_rows_differ i0 rest nc0). Qed.
Print Assumptions C06_column_stack_rows_differ.

(* ---- collapsed: each row obtains the first listed value present in it, else the last listed ---- *)
Theorem C06_collapsed_total idx prec m :
  WF idx -> collapse_ok idx prec -> exists out, collapsed idx prec m = Ok out.
Proof. exact (collapsed_total idx prec m). Qed.
Print Assumptions C06_collapsed_total.

Theorem C06_collapsed_shape idx prec m out :
  WF idx -> collapse_ok idx prec -> collapsed idx prec m = Ok out ->
  nrows out = nrows idx /\ hshape out = [].
Proof. exact (collapsed_shape idx prec m out). Qed.
Print Assumptions C06_collapsed_shape.

Theorem C06_collapsed_dense idx prec m out r :
  WF idx -> collapse_ok idx prec -> collapsed idx prec m = Ok out ->
  0 <= r < nrows idx -> dense out r [] = spec_collapse prec (row_vals idx (map_fun m) r).
Proof. exact (collapsed_dense idx prec m out r). Qed.
Print Assumptions C06_collapsed_dense.

Theorem C06_collapsed_1d idx prec m :
  hshape idx = [] -> collapsed idx prec m = Err ETypeError.
Proof. exact (collapsed_1d idx prec m). Qed.
Print Assumptions C06_collapsed_1d.

Theorem C06_spec_collapse_first prec vals p :
  spec_collapse prec vals = p ->
  (In p prec /\ In p vals /\ forall pre post, prec = pre ++ p :: post -> ~ In p pre -> forall q, In q pre -> ~ In q vals)
  \/ (p = last prec 0 /\ forall q, In q prec -> ~ In q vals).
Proof. exact (spec_collapse_first prec vals p). Qed.
Print Assumptions C06_spec_collapse_first.

(* ---- observers: get / items / to_dict (force=True), common_rowids ---- *)
Theorem C06_get_force_spec idx v hc r :
  WF idx -> in_hshape hc (hshape idx) ->
  (In r (opt_rows (get_force idx (v, hc))) <-> 0 <= r < nrows idx /\ dense idx r hc = v).
Proof. exact (get_force_spec idx v hc r). Qed.
Print Assumptions C06_get_force_spec.

Theorem C06_get_force_filter idx v hc :
  WF idx -> in_hshape hc (hshape idx) ->
  opt_rows (get_force idx (v, hc)) = filter (fun r => dense idx r hc =? v) (zrange (nrows idx)).
Proof. exact (get_force_filter idx v hc). Qed.
Print Assumptions C06_get_force_filter.

Theorem C06_get_force_sorted idx k :
  WF idx -> sincr (opt_rows (get_force idx k)).
Proof. exact (get_force_sorted idx k). Qed.
Print Assumptions C06_get_force_sorted.

Theorem C06_get_force_none idx k :
  WF idx -> get_force idx k <> Some [].
Proof. exact (get_force_none idx k). Qed.
Print Assumptions C06_get_force_none.

Theorem C06_items_force_spec idx v hc r :
  WF idx ->
  ((exists rows, In ((v, hc), rows) (items_force idx) /\ In r rows) <-> in_range idx r hc /\ dense idx r hc = v).
Proof. exact (items_force_spec idx v hc r). Qed.
Print Assumptions C06_items_force_spec.

Theorem C06_items_force_keys idx :
  WF idx -> NoDup (keys (items_force idx)).
Proof. exact (items_force_keys idx). Qed.
Print Assumptions C06_items_force_keys.

Theorem C06_items_force_sorted idx k rows :
  WF idx -> In (k, rows) (items_force idx) -> sincr rows.
Proof. exact (items_force_sorted idx k rows). Qed.
Print Assumptions C06_items_force_sorted.

Theorem C06_to_dict_force_items idx :
  WF idx -> to_dict_force idx = items_force idx.
Proof. exact (to_dict_force_items idx). Qed.
Print Assumptions C06_to_dict_force_items.

Theorem C06_to_dict_force_spec idx v hc r :
  WF idx ->
  ((exists rows, In ((v, hc), rows) (to_dict_force idx) /\ In r rows) <-> in_range idx r hc /\ dense idx r hc = v).
Proof. exact (to_dict_force_spec idx v hc r). Qed.
Print Assumptions C06_to_dict_force_spec.

Theorem C06_to_dict_force_get idx k :
  WF idx -> in_hshape (snd k) (hshape idx) ->
  rows_at k (to_dict_force idx) = opt_rows (get_force idx k).
Proof. exact (to_dict_force_get idx k). Qed.
Print Assumptions C06_to_dict_force_get.

Theorem C06_common_rowids_dense idx r hc :
  WF idx ->
  (In r (common_rowids idx hc) <-> 0 <= r < nrows idx /\ dense idx r hc = common idx).
Proof. exact (common_rowids_dense idx r hc). Qed.
Print Assumptions C06_common_rowids_dense.

Theorem C06_common_rowids_sincr idx hc :
  sincr (common_rowids idx hc).
Proof. exact (common_rowids_sincr idx hc). Qed.
Print Assumptions C06_common_rowids_sincr.

(* ---- every step, every history ---- *)
Theorem C06_step_total idx o :
  WF idx -> args_ok idx o -> exists idx', step idx o = Ok idx'.
Proof. exact (step_total idx o). Qed.
Print Assumptions C06_step_total.

Theorem C06_step_refines idx d o idx' :
  WF idx -> args_ok idx o -> refines idx d -> step idx o = Ok idx' ->
  refines idx' (spec_step (common idx) d o).
Proof. exact (step_refines idx d o idx'). Qed.
Print Assumptions C06_step_refines.

Theorem C06_column_stack_refines idxs ds nc out :
  cs_args_ok idxs -> Forall2 refines idxs ds ->
  column_stack idxs nc = Ok out -> refines out (spec_column_stack ds).
Proof. exact (column_stack_refines idxs ds nc out). Qed.
Print Assumptions C06_column_stack_refines.

Theorem C06_history_refines  :
  forall ops s0 d0, WF s0 -> refines s0 d0 -> hist_ok s0 ops ->
  exists s, run s0 ops = Ok s /\ WF s /\ refines s (spec_run s0 d0 ops).
Proof. exact (history_refines). Qed.
Print Assumptions C06_history_refines.

Theorem C06_history_dense ops s0 :
  WF s0 -> hist_ok s0 ops ->
  exists s, run s0 ops = Ok s /\ WF s /\ refines s (spec_run s0 (darr_of s0) ops).
Proof. exact (history_dense ops s0). Qed.
Print Assumptions C06_history_dense.

Theorem C06_history_refines_fold ops s0 d0 :
  WF s0 -> refines s0 d0 -> hist_ok s0 ops ->
  forallb common_free ops = true ->
  exists s, run s0 ops = Ok s /\ WF s /\ refines s (fold_left (spec_step 0) ops d0).
Proof. exact (history_refines_fold ops s0 d0). Qed.
Print Assumptions C06_history_refines_fold.

(* ---- non-vacuity: concrete well-formed indexes and arguments satisfy every hypothesis (evaluated through
   the boolean twins wf_b / *_ok_b, sound by wf_b_spec / *_ok_b_sound), and a 17-step history that visits
   every kind of operation runs, stays inside the hypotheses at every step ([hist_ok]) and ends where NumPy ends ---- *)
Definition ex2 : iindex :=
  {| entries := [((1, [0]), [0; 2]); ((2, [0]), [1]); ((1, [1]), [4]); ((7, [2]), [0; 1; 2; 3])];
     common := 0; nrows := 5; hshape := [3] |}.
Definition ex2b : iindex := {| entries := [((5, [1]), [0; 1])]; common := 7; nrows := 2; hshape := [3] |}.
Definition ex1 : iindex := {| entries := [((3, []), [0; 3; 5])]; common := 1; nrows := 6; hshape := [] |}.
Definition ex_hist : list op :=
  [OAppend ex2b; OUpdate [((0, [0]), [0]); ((9, [1]), [1; 6])]; OUnion [((1, [0]), [2; 5]); ((4, [2]), [1])];
   OInter [((1, [0]), [2; 5]); ((0, [0]), [0; 3; 4]); ((9, [1]), [1; 6]); ((4, [2]), [1]); ((0, [1]), [0; 2; 3]);
           ((2, [0]), [1]); ((5, [1]), [5])];
   ODiff [((9, [1]), [6])]; OSetIf (2, [0]) [1; 6];
   OFiltered [true; false; true; true; true; true; true]; OShift 4; OCopy; OGetForce (7, [2]); OSlices1d;
   OReindexed (Some [(0, 2); (9, 2)]) true; OReindexed None false; OShiftAuto;
   OColumnStack [ex1] [ex1] (Some 1);
   OSliced [OList [2; 1; 3]];
   OCollapsed [3; -1; 2; 1] (Some [(0, 2)])].

Example C06_nonvacuous_args :
  WF ex2 /\ WF ex2b /\ WF ex1 /\
  append_ok ex2 ex2b /\ filtered_ok ex2 [true; false; true; true; false] /\
  upd_ok ex2 [((0, [0]), [0]); ((9, [1]), [1; 4])] /\
  other_ok ex2 [((1, [0]), [2; 3]); ((4, [1]), [0])] /\
  set_if_ok ex2 (1, [0]) [0; 3] /\
  orders_ok [OList [2; 0]] (hshape ex2) /\ orders_ok [OInt 1] (hshape ex2) /\
  collapse_ok ex2 [7; -1; 1] /\ collapse_ok ex2 [0; 1; 2; 1] /\
  cs_args_ok [ex2; ex2] /\ cs_args_ok [ex1; ex1].
Proof.
  split; [apply wf_b_spec; vm_compute; reflexivity|].
  split; [apply wf_b_spec; vm_compute; reflexivity|].
  split; [apply wf_b_spec; vm_compute; reflexivity|].
  split; [split; [reflexivity|vm_compute; discriminate]|].
  split; [reflexivity|].
  split; [apply upd_ok_b_sound; vm_compute; reflexivity|].
  split; [apply other_ok_b_sound; vm_compute; reflexivity|].
  split; [apply set_if_ok_b_sound; vm_compute; reflexivity|].
  split; [apply orders_ok_b_sound; vm_compute; reflexivity|].
  split; [apply orders_ok_b_sound; vm_compute; reflexivity|].
  split; [apply HistoryB.collapse_ok_b_sound; vm_compute; reflexivity|].
  split; [apply HistoryB.collapse_ok_b_sound; vm_compute; reflexivity|].
  split; apply cs_args_ok_b_sound; vm_compute; reflexivity.
Qed.
Print Assumptions C06_nonvacuous_args.

(* a precedence list with a repeated value (the witness of defect F23): each row obtains the FIRST listed value present *)
Example C06_collapsed_repeated :
  let idx := {| entries := [((1, [0]), [0; 1]); ((1, [1]), [1]); ((2, [0]), [2])]; common := 0; nrows := 4; hshape := [2] |} in
  wf_b idx = true /\ dense_rows idx = [[1; 0]; [1; 1]; [2; 0]; [0; 0]] /\
  match collapsed idx [0; 1; 2; 1] None with Ok out => dense_rows out = [[0]; [1]; [0]; [0]] | Err _ => False end /\
  match collapsed idx [1; 0; 2; 1] None with Ok out => dense_rows out = [[1]; [1]; [0]; [0]] | Err _ => False end /\
  match collapsed idx [5; 0; 5] (Some [(2, 9)]) with Ok out => dense_rows out = [[0]; [5]; [0]; [0]] | Err _ => False end.
Proof. vm_compute. repeat split; reflexivity. Qed.
Print Assumptions C06_collapsed_repeated.

Example C06_nonvacuous_history : WF ex2 /\ hist_ok ex2 ex_hist /\ length ex_hist = 17%nat.
Proof.
  split; [apply wf_b_spec; vm_compute; reflexivity|].
  split; [apply HistoryB.hist_ok_b_sound; vm_compute; reflexivity|reflexivity].
Qed.
Print Assumptions C06_nonvacuous_history.

Example C06_history_run :
  let expected := [[1]; [2]; [1]; [1]; [2]; [1]] in
  match run ex2 ex_hist with
  | Ok s => dense_rows s = expected /\ wf_b s = true /\ nrows s = 6 /\ hshape s = []
  | Err _ => False
  end /\
  (let d := spec_run ex2 (darr_of ex2) ex_hist in
   dn d = 6 /\ dhs d = [] /\ map (fun r => map (df d r) (all_hcs (dhs d))) (zrange (dn d)) = expected) /\
  match run ex2 (firstn 15 ex_hist) with
  | Ok s => dense_rows s = [[3; 1; 1; 7; 3]; [1; 0; 1; 7; 1]; [1; 1; 1; 7; 1]; [3; 1; 7; 7; 3]; [1; 0; 2; 7; 1]; [3; 1; 7; 7; 3]]
  | Err _ => False
  end.
Proof. vm_compute. repeat split; reflexivity. Qed.
Print Assumptions C06_history_run.
