(* C06 — index operations track NumPy on the dense array, over any history.  (growing; see the final header) *)
From Coq Require Import ZArith List Bool.
From Catii Require Import Base.Sorted IIndex.Model IIndex.ModelFacts IIndex.OpsA IIndex.ShiftCommon.
Import ListNotations.
Open Scope Z_scope.

Theorem C06_shift_common_dense idx v r hc : WF idx -> in_range idx r hc ->
  dense (shift_common idx v) r hc = dense idx r hc.
Proof. exact (shift_common_dense idx v r hc). Qed.
Print Assumptions C06_shift_common_dense.
