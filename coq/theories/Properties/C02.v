(* C02 - count cube equals the brute-force contingency table.

   `count_cube N dims shape cell` (Cube/Count.v) is the (value, missing) pair the code computes for a cell:
   zeros with the grand total N in the corner (ffunc_count.get_initial_regions), one write `len(rowids)` per
   coordinate presented by the walk (Cube/Walk.v = ccube._walk, -1 addressing the margin slot the way NumPy
   does), marginal differencing over every axis in turn with the sum taken over ALL indices of the axis
   (Region.adiff_all = ccube._compute_common_cells_from_marginal_diffs), margins cut, zero -> missing.
   The theorems hold for every number of dimensions, all data, all commons (frequent, rare, absent), all
   extents that cover the data (exact, padded, at any boundary).
   Hypotheses: N >= 0 is the row count; every dimension is a well-formed one-axis index over N rows (dim_wf,
   what iindex.validate checks; dimensions with extra axes are reduced to this by C13, and the tie slices with
   the real `sliced`); `covers`: every listed value and the common lie in [0, extent) - a smaller extent is an
   IndexError or NumPy aliasing with the margin slot and outside the property. *)
From Coq Require Import ZArith List Bool.
From Catii Require Import Base.Sorted Cube.Dim Cube.Walk Cube.WalkProofs Cube.Region Cube.Count Cube.CountTable
     Cube.CountProofs Cube.Check.
Import ListNotations.
Open Scope Z_scope.

(* every cell inside the shape - visited by the walk or reconstructed by differencing - holds exactly the number
   of rows of that cell, and is missing exactly when that number is zero *)
Theorem C02_count : forall (N : Z) (dims : list dim) (shape : list Z),
  0 <= N -> Forall (dim_wf N) dims -> covers shape dims ->
  forall cell, in_shape shape cell ->
    count_cube N dims shape cell =
      (len_rows (cell_rows N dims cell), Z.eqb (len_rows (cell_rows N dims cell)) 0).
Proof. exact count_cube_spec. Qed.
Print Assumptions C02_count.

(* ... where the rows of a cell are, each once, the rows r < N whose category on EVERY dimension is the
   cell's coordinate (dim_dense = the dense column the index stands for) *)
Theorem C02_cell_rows : forall (N : Z) (dims : list dim) (cell : list Z), length cell = length dims ->
  sincr (cell_rows N dims cell) /\
  forall r, In r (cell_rows N dims cell) <->
            0 <= r < N /\ forall d, (d < length dims)%nat -> dim_dense (nth d dims dim0) r = nth d cell 0.
Proof. exact cell_rows_spec. Qed.
Print Assumptions C02_cell_rows.

Theorem C02_missing_iff_no_rows : forall (N : Z) (dims : list dim) (shape : list Z),
  0 <= N -> Forall (dim_wf N) dims -> covers shape dims ->
  forall cell, in_shape shape cell -> (snd (count_cube N dims shape cell) = true <-> cell_rows N dims cell = []).
Proof. exact count_missing_iff. Qed.
Print Assumptions C02_missing_iff_no_rows.

(* the three report formats (NaN / (null, False) pair / plain null) describe the same missing set and the same
   values elsewhere *)
Theorem C02_formats_agree : forall (null : Z) (vm : Z * bool),
  (report_nan vm = None <-> snd vm = true) /\
  (snd (report_pair null vm) = false <-> snd vm = true) /\
  (snd vm = true -> fst (report_pair null vm) = null /\ report_plain null vm = null) /\
  (snd vm = false -> report_nan vm = Some (fst vm) /\ fst (report_pair null vm) = fst vm /\ report_plain null vm = fst vm).
Proof. exact formats_agree. Qed.
Print Assumptions C02_formats_agree.

Theorem C02_reports : forall (N : Z) (dims : list dim) (shape : list Z) (null : Z),
  0 <= N -> Forall (dim_wf N) dims -> covers shape dims ->
  forall cell, in_shape shape cell ->
    let n := len_rows (cell_rows N dims cell) in
    let vm := count_cube N dims shape cell in
    report_nan vm = (if Z.eqb n 0 then None else Some n) /\
    report_pair null vm = (if Z.eqb n 0 then (null, false) else (n, true)) /\
    report_plain null vm = (if Z.eqb n 0 then null else n).
Proof. exact count_reports. Qed.
Print Assumptions C02_reports.

(* shape inference (ccubes.py:56-59): the inferred extent is 1 + the largest of the listed values and the
   common, and the inferred shape covers the cube whenever the category values are non-negative *)
Theorem C02_infer : forall (dims : list dim),
  Forall2 (fun e d => (In (e - 1) (dkeys d) \/ e - 1 = dcommon d) /\ (forall v, In v (dkeys d) -> v < e) /\ dcommon d < e)
          (infer_shape dims) dims.
Proof. exact infer_shape_spec. Qed.
Print Assumptions C02_infer.

Theorem C02_infer_covers : forall (dims : list dim),
  Forall (fun d => (forall v, In v (dkeys d) -> 0 <= v) /\ 0 <= dcommon d) dims -> covers (infer_shape dims) dims.
Proof. exact infer_shape_covers. Qed.
Print Assumptions C02_infer_covers.

(* what the correspondence check evaluates (a table staged through every differencing step, or the right-hand
   side of C02_count for boxes beyond TABLE_LIMIT cells) IS the value of the model cube *)
Theorem C02_checker_evaluates_model : forall (N : Z) (dims : list dim) (shape cell : list Z),
  count_lookup_ok N dims shape = true -> in_shape shape cell ->
  count_lookup N dims shape cell = fst (count_cube N dims shape cell).
Proof. exact count_lookup_spec. Qed.
Print Assumptions C02_checker_evaluates_model.

(* non-vacuity: three dimensions over 6 rows (inclusion-exclusion through the middle-dimension branch), commons
   0 (frequent), 3 (absent from the data) and 2 (rare), padded shape (3, 4, 4): the hypotheses hold
   (boolean twins + soundness lemmas); the all-common cell (0, 3, 2) is empty (missing), the cell (0, 0, 2) with
   two common coordinates holds row 5, the visited cell (1, 2, 1) holds row 2 *)
Example C02_nonvacuous :
  let dims := mkdims [([(1, [0; 2]); (2, [4])], 0); ([(0, [0; 1; 3; 5]); (2, [2; 4])], 3); ([(1, [1; 2]); (0, [3])], 2)] in
  0 <= 6 /\ Forall (dim_wf 6) dims /\ covers [3; 4; 4] dims /\ in_shape [3; 4; 4] [0; 0; 2] /\
  count_cube 6 dims [3; 4; 4] [0; 0; 2] = (1, false) /\ cell_rows 6 dims [0; 0; 2] = [5] /\
  count_cube 6 dims [3; 4; 4] [0; 3; 2] = (0, true) /\
  count_cube 6 dims [3; 4; 4] [1; 2; 1] = (1, false) /\
  count_cube 6 dims [3; 4; 4] [1; 0; 2] = (1, false) /\ cell_rows 6 dims [1; 0; 2] = [0] /\
  infer_shape dims = [3; 4; 3].
Proof.
  cbv zeta.
  split; [discriminate|].
  split; [apply forall_dim_wf_b_sound; vm_compute; reflexivity|].
  split; [apply covers_b_sound; vm_compute; reflexivity|].
  split; [apply in_shape_b_iff; vm_compute; reflexivity|].
  vm_compute. repeat split; reflexivity.
Qed.

(* the staged evaluation agrees with the functional model on every cell of this cube (also checked in general
   by C02_checker_evaluates_model) *)
Example C02_table_agrees :
  let dims := mkdims [([(1, [0; 2]); (2, [4])], 0); ([(0, [0; 1; 3; 5]); (2, [2; 4])], 3); ([(1, [1; 2]); (0, [3])], 2)] in
  let R := count_lookup 6 dims [3; 4; 4] in
  forallb (fun c => Z.eqb (R c) (fst (count_cube 6 dims [3; 4; 4] c)))
          (flat_map (fun a => flat_map (fun b => map (fun c => [a; b; c]) [0; 1; 2; 3]) [0; 1; 2; 3]) [0; 1; 2]) = true.
Proof. vm_compute. reflexivity. Qed.
