(* C02 (placeholder while the proofs are being moved in) *)
From Coq Require Import ZArith List Bool.
From Catii Require Import Cube.Dim Cube.Walk Cube.Region Cube.Count Cube.Check.
Import ListNotations.
Open Scope Z_scope.
Example c02_smoke : count_cube 3 (mkdims [([(1, [0; 2])], 0); ([(2, [2])], 0)]) [2; 3] [0; 0] = (1, false).
Proof. vm_compute. reflexivity. Qed.
