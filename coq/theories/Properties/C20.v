(* C20 - an interrupt raised at any cancellation point stops the cube cleanly.

   Level: proof over the outcome model (Conc/Interrupt.v: calculate as a state machine over the
   sub-cubes with the callback as an oracle, the mutable diagnostic fields threaded as state;
   Conc/Pool.v: the batch model of ThreadPool.map) + exhaustive fault enumeration on the real code
   by harness/props/c20.py, whose observed histories are compared with this model inside Coq.
   Modelled, not verified: multiprocessing.pool (trusted base).  The pooled theorems are about
   exceptions the pool relays, i.e. instances of Exception ([relayed]); for any other
   BaseException pooled calculate never returns - known finding
   C20 pooled:non-Exception-interrupt-hangs, exhibited by [pooled_non_exception_hangs]. *)
From Coq Require Import ZArith List Bool Permutation.
From Catii Require Import Base.Cases Conc.Interleave Conc.Pool Conc.Interrupt Conc.ConcProofs Conc.Check Conc.CheckSound.
Import ListNotations.

(* find_first p n is the least index below n at which p holds *)
Theorem find_first_spec : forall (p : nat -> bool) (n : nat),
  match find_first p n with
  | Some i => i < n /\ p i = true /\ forall j, j < i -> p j = false
  | None => forall j, j < n -> p j = false
  end.
Proof. exact ConcProofs.find_first_spec. Qed.
Print Assumptions find_first_spec.

(* serial mode (invocation number = sub-cube number): if some invocation i < k raises, calculate
   raises the exception of the LEAST such i after exactly i+1 consultations (sub-cubes 0..i, once
   each); otherwise it returns the serial result after exactly k consultations, once per
   sub-cube.  The diagnostic fields afterwards are those of the sub-cubes completed. *)
Theorem serial_outcome : forall (V R : Type) (cu : cube V R) (raises : nat -> nat -> bool) (d : diag),
  let rep := calculate_serial cu raises d in
  match find_first (fun i => raises i i) (nsub cu) with
  | Some i => r_out rep = Raised i i /\ r_log rep = diag_log (S i) /\
              r_diag rep = fold_left (bump cu) (seq 0 i) (entered V R cu d)
  | None => r_out rep = Returned (reduce_with (c_cells cu) (c_reduce cu) (run (concat (c_tasks cu)) (c_init cu))) /\
            r_log rep = diag_log (nsub cu) /\
            r_diag rep = fold_left (bump cu) (seq 0 (nsub cu)) (entered V R cu d)
  end.
Proof. exact (fun V R cu raises d => serial_outcome_from V R cu raises (c_init cu) d). Qed.
Print Assumptions serial_outcome.

(* pooled mode: for EVERY partition of the sub-cubes into batches, EVERY schedule of the batches
   and EVERY arrival order of the failures (pick), for relayed exceptions:
   - calculate does not hang; no sub-cube is consulted twice;
   - if no consultation raised: it returns the serial result and every sub-cube was consulted
     exactly once (invocation numbers 0..k-1);
   - if it raises, the exception is one that a logged consultation really raised;
   - if some consultation raised, it raises (one of the raised exceptions). *)
Theorem pooled_outcome : forall (V R : Type) (cu : cube V R) (raises relayed : nat -> nat -> bool),
  (forall n i, raises n i = true -> relayed n i = true) ->
  forall (chunking : list (list nat)) (sched : list nat) (pick : nat) (d : diag),
  concat chunking = seq 0 (nsub cu) -> pairwise_disjoint (c_tasks cu) ->
  let rep := calculate_pooled cu raises relayed chunking sched pick d in
  let serial_result := reduce_with (c_cells cu) (c_reduce cu) (run (concat (c_tasks cu)) (c_init cu)) in
  r_out rep <> Hung /\
  NoDup (map snd (r_log rep)) /\ (forall e, In e (r_log rep) -> snd e < nsub cu) /\
  ((forall e, In e (r_log rep) -> raises (fst e) (snd e) = false) ->
     r_out rep = Returned serial_result /\
     Permutation (map snd (r_log rep)) (seq 0 (nsub cu)) /\ map fst (r_log rep) = seq 0 (nsub cu)) /\
  (forall n i, r_out rep = Raised n i -> raises n i = true /\ In (n, i) (r_log rep)) /\
  ((exists e, In e (r_log rep) /\ raises (fst e) (snd e) = true) ->
     exists n i, raises n i = true /\ In (n, i) (r_log rep) /\ r_out rep = Raised n i).
Proof. exact pooled_outcome_general. Qed.
Print Assumptions pooled_outcome.

(* the same in terms of the oracle alone *)
Theorem pooled_no_raise : forall (V R : Type) (cu : cube V R) (raises relayed : nat -> nat -> bool),
  (forall n i, raises n i = true -> relayed n i = true) ->
  forall chunking sched pick d,
  concat chunking = seq 0 (nsub cu) -> pairwise_disjoint (c_tasks cu) ->
  let rep := calculate_pooled cu raises relayed chunking sched pick d in
  (forall n i, raises n i = false) ->
  r_out rep = Returned (reduce_with (c_cells cu) (c_reduce cu) (run (concat (c_tasks cu)) (c_init cu))) /\
  Permutation (map snd (r_log rep)) (seq 0 (nsub cu)) /\ length (r_log rep) = nsub cu.
Proof. exact ConcProofs.pooled_no_raise. Qed.
Print Assumptions pooled_no_raise.

Theorem pooled_task_raises : forall (V R : Type) (cu : cube V R) (raises relayed : nat -> nat -> bool),
  (forall n i, raises n i = true -> relayed n i = true) ->
  forall chunking sched pick d,
  concat chunking = seq 0 (nsub cu) -> pairwise_disjoint (c_tasks cu) ->
  let rep := calculate_pooled cu raises relayed chunking sched pick d in
  forall i, i < nsub cu -> (forall n, raises n i = true) ->
  exists n j, raises n j = true /\ r_out rep = Raised n j.
Proof. exact ConcProofs.pooled_task_raises. Qed.
Print Assumptions pooled_task_raises.

Theorem pooled_invocation_raises : forall (V R : Type) (cu : cube V R) (raises relayed : nat -> nat -> bool),
  (forall n i, raises n i = true -> relayed n i = true) ->
  forall chunking sched pick d,
  concat chunking = seq 0 (nsub cu) -> pairwise_disjoint (c_tasks cu) ->
  let rep := calculate_pooled cu raises relayed chunking sched pick d in
  forall n, n < nsub cu -> (forall i, raises n i = true) ->
  exists n' j, raises n' j = true /\ r_out rep = Raised n' j.
Proof. exact ConcProofs.pooled_invocation_raises. Qed.
Print Assumptions pooled_invocation_raises.

(* the batches ThreadPool(poolsize).map really forms satisfy the partition hypothesis *)
Theorem threadpool_chunking : forall p k, 0 < p -> concat (pool_chunks p (seq 0 k)) = seq 0 k.
Proof. exact ConcProofs.threadpool_chunking. Qed.
Print Assumptions threadpool_chunking.

(* reuse: outcome and consultations of a call do not depend on the diagnostic state the objects
   were left in - in either mode *)
Theorem reuse_serial : forall (V R : Type) (cu : cube V R) (raises : nat -> nat -> bool) (d d' : diag),
  r_out (calculate_serial cu raises d) = r_out (calculate_serial cu raises d') /\
  r_log (calculate_serial cu raises d) = r_log (calculate_serial cu raises d').
Proof. exact ConcProofs.reuse_serial. Qed.
Print Assumptions reuse_serial.

Theorem reuse_pooled : forall (V R : Type) (cu : cube V R) (raises relayed : nat -> nat -> bool)
                              chunking sched pick (d d' : diag),
  r_out (calculate_pooled cu raises relayed chunking sched pick d) =
  r_out (calculate_pooled cu raises relayed chunking sched pick d') /\
  r_log (calculate_pooled cu raises relayed chunking sched pick d) =
  r_log (calculate_pooled cu raises relayed chunking sched pick d').
Proof. exact ConcProofs.reuse_pooled. Qed.
Print Assumptions reuse_pooled.

(* reuse, as the property says it: after ANY earlier call (aborted or not, serial or pooled - only
   its leftover diagnostic state matters), an uninterrupted calculate on the same objects returns
   what a fresh evaluation returns *)
Theorem reuse : forall (V R : Type) (cu : cube V R) (first : report R),
  r_out (calculate_serial cu (fun _ _ => false) (r_diag first)) =
  Returned (reduce_with (c_cells cu) (c_reduce cu) (run (concat (c_tasks cu)) (c_init cu))).
Proof. exact reuse_after_any_call. Qed.
Print Assumptions reuse.

(* the tie: a serial correspondence case (p = 0) on which the executable checker of Conc/Check.v evaluates
   to true is an observation of the real code that satisfies the property text literally - the exception
   object that came out is the one raised at the least raising invocation i, after exactly i+1 consultations
   (sub-cubes 0..i in order); nothing raised => returned after consulting every sub-cube once, in order;
   and the observed flags (returned result = fresh evaluation, follow-up calculate on the SAME objects =
   fresh evaluation) are true *)
Theorem serial_case_checker_sound : forall k T N log obs costs nfills resets d0 d1 flags,
  c20_check (0%Z, k, (T, N), log, obs, (costs, nfills, resets), (d0, d1), flags) = true ->
  flags = true /\
  match find_first (fun i => oracle T N i i) (Z.to_nat k) with
  | Some i => obs = Some (Z.of_nat i, Z.of_nat i) /\ log = map nn_to_zz (diag_log (S i))
  | None => obs = None /\ log = map nn_to_zz (diag_log (Z.to_nat k))
  end.
Proof. exact c20_serial_case_sound. Qed.
Print Assumptions serial_case_checker_sound.

(* what is false, with witnesses: regions kept on the object between calls; an interrupt that is
   not an Exception in pooled mode (known finding) *)
Theorem reuse_refuted_if_regions_cached :
  exists (leftover : store Z) d,
    r_out (calculate_serial_from toy_cube (fun _ _ => false) leftover d) <>
    r_out (calculate_serial toy_cube (fun _ _ => false) d).
Proof. exact ConcProofs.reuse_refuted_if_regions_cached. Qed.
Print Assumptions reuse_refuted_if_regions_cached.

Theorem pooled_non_exception_hangs :
  exists (raises relayed : nat -> nat -> bool),
    raises 0 0 = true /\
    r_out (calculate_threadpool toy_cube raises relayed 2 [] 0 (mkD 0 0 0)) = Hung /\
    r_out (calculate_serial toy_cube raises (mkD 0 0 0)) = Raised 0 0.
Proof. exact ConcProofs.pooled_non_exception_hangs. Qed.
Print Assumptions pooled_non_exception_hangs.

(* non-vacuity: 5 sub-cubes, ThreadPool(1): batches [0;1] [2;3] [4]; the callback raises for
   sub-cubes 1 and 3.  Serial: Raised at 1 after 2 consultations.  Pooled, schedule [1;0;1;0]
   (batch 1 first): sub-cube 3 raises as invocation 2, sub-cube 1 as invocation 3, batch 2 still
   runs (5 consultations, none skipped here because the raising items end their batches);
   pick 0 / 1 select either exception; with no raise the result is the serial one. *)
Example C20_nonvacuous :
  let raises := fun (_ i : nat) => Nat.eqb i 1 || Nat.eqb i 3 in
  let never := fun (_ _ : nat) => false in
  let d := mkD 0 0 0 in
  pool_chunks 1 (seq 0 5) = [[0; 1]; [2; 3]; [4]] /\
  calculate_serial ex_cube5 raises d = mkRep (Raised 1 1) [(0, 0); (1, 1)] (mkD 2 1 1) /\
  r_out (calculate_threadpool ex_cube5 raises (fun _ _ => true) 1 [1; 0; 1; 0] 0 d) = Raised 2 3 /\
  r_out (calculate_threadpool ex_cube5 raises (fun _ _ => true) 1 [1; 0; 1; 0] 1 d) = Raised 3 1 /\
  r_log (calculate_threadpool ex_cube5 raises (fun _ _ => true) 1 [1; 0; 1; 0] 0 d)
    = [(0, 2); (1, 0); (2, 3); (3, 1); (4, 4)] /\
  r_out (calculate_threadpool ex_cube5 never (fun _ _ => true) 1 [2; 1; 0; 1] 0 d)
    = Returned [10; 11; 12; 13; 14]%Z /\
  r_out (calculate_serial ex_cube5 never (r_diag (calculate_serial ex_cube5 raises d)))
    = Returned [10; 11; 12; 13; 14]%Z.
Proof. vm_compute. repeat split. Qed.
