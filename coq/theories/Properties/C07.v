(* C07 - every operation preserves index well-formedness.

   [WF idx] (IIndex/Model.v): 0 <= rows <= 2^32, non-negative extents, keys distinct (a dict), every key's higher
   coordinates within the shape (arity included), every row-id list strictly increasing, within [0, rows), non-empty,
   not listed under the common value, and exclusivity (no cell listed under two values).  [wf_b] is its boolean twin,
   evaluated by the harness on the REAL state after every step ([C07_wf_b_reflects]).
   Per-operation theorems [op_wf], under the argument conditions listed in Properties/C06.v ([args_ok]);
   [C07_step_wf] / [C07_history_wf] lift them to every operation of the ADT and to arbitrary finite histories
   (which may start from from_array: [C07_from_array_wf]; loading from INDX: Properties/C10.v).
   Consequences: the reported distinct values are exactly the values that occur ([C07_wf_abscissae]), the sparsity
   counts exactly the cells holding the common value ([C07_wf_sparsity]), no listed value occurs nowhere and the
   extent a cube infers is reached by an occurring value unless it is the common value ([C07_wf_infer_extent]),
   and two well-formed indexes with the same content have the same entries ([C07_canonical]).
   Proofs: IIndex/ModelFacts.v, ShiftCommon.v, OpsAProofs_*.v, OpsBProofs_*.v, History.v, Count.v, Consequences.v. *)
From Coq Require Import ZArith List Bool Permutation.
From Catii Require Import Base.Sorted IIndex.Res IIndex.Model IIndex.ModelFacts IIndex.OpsA IIndex.OpsB IIndex.Step
  IIndex.ShiftCommon IIndex.OpsAProofs_Observers IIndex.OpsAProofs_Append IIndex.OpsAProofs_Filtered
  IIndex.OpsAProofs_FilteredAuto IIndex.OpsAProofs_Update IIndex.OpsAProofs_SetIf IIndex.ArgsOkB
  IIndex.OpsBProofs_reindexed IIndex.OpsBProofs_sliced IIndex.OpsBProofs_stack IIndex.OpsBProofs_collapsed
  IIndex.OpsBFromArray1 IIndex.HistorySpec IIndex.History IIndex.HistoryB IIndex.Count IIndex.Consequences IIndex.EqProofs
  IIndex.FromArray IIndex.C01Proofs.
Import ListNotations.
Open Scope Z_scope.

(* ---- the boolean validator run on real states is exactly WF ---- *)
Theorem C07_wf_b_reflects idx :
  wf_b idx = true <-> WF idx.
Proof. exact (wf_b_spec idx). Qed.
Print Assumptions C07_wf_b_reflects.

(* ---- every operation ---- *)
Theorem C07_shift_common_wf idx v :
  WF idx -> WF (shift_common idx v).
Proof. exact (shift_common_wf idx v). Qed.
Print Assumptions C07_shift_common_wf.

Theorem C07_shift_common_auto_wf idx :
  WF idx -> WF (shift_common_auto idx).
Proof. exact (shift_common_auto_wf idx). Qed.
Print Assumptions C07_shift_common_auto_wf.

Theorem C07_copy_wf idx :
  WF idx -> WF (copy idx).
Proof. exact (copy_wf idx). Qed.
Print Assumptions C07_copy_wf.

Theorem C07_append_wf idx other :
  WF idx -> WF other -> append_ok idx other -> WF (append idx other).
Proof. exact (append_wf idx other). Qed.
Print Assumptions C07_append_wf.

Theorem C07_filtered_wf idx mask :
  WF idx -> filtered_ok idx mask -> WF (filtered idx mask).
Proof. exact (filtered_wf idx mask). Qed.
Print Assumptions C07_filtered_wf.

Theorem C07_update_wf idx upd :
  WF idx -> upd_ok idx upd -> WF (update idx upd).
Proof. exact (update_wf idx upd). Qed.
Print Assumptions C07_update_wf.

Theorem C07_union_update_wf idx other :
  WF idx -> other_ok idx other -> WF (union_update idx other).
Proof. exact (union_update_wf idx other). Qed.
Print Assumptions C07_union_update_wf.

Theorem C07_intersection_update_wf idx other :
  WF idx -> NoDup (keys other) -> WF (intersection_update idx other).
Proof. exact (intersection_update_wf idx other). Qed.
Print Assumptions C07_intersection_update_wf.

Theorem C07_difference_update_wf idx other :
  WF idx -> NoDup (keys other) -> WF (difference_update idx other).
Proof. exact (difference_update_wf idx other). Qed.
Print Assumptions C07_difference_update_wf.

Theorem C07_set_if_wf idx k v :
  WF idx ->
  (v <> [] -> in_hshape (snd k) (hshape idx) /\ fst k <> common idx) ->
  sincr v -> (forall r, In r v -> 0 <= r < nrows idx) ->
  (forall r u, In r v -> listed idx r (snd k) u -> u = fst k) ->
  WF (set_if idx k v).
Proof. exact (set_if_wf idx k v). Qed.
Print Assumptions C07_set_if_wf.

Theorem C07_reindexed_wf idx m sh :
  WF idx -> WF (reindexed idx m sh).
Proof. exact (reindexed_wf idx m sh). Qed.
Print Assumptions C07_reindexed_wf.

Theorem C07_sliced_wf idx orders out :
  WF idx -> orders_ok orders (hshape idx) ->
  sliced idx orders = Ok out -> WF out.
Proof. exact (sliced_wf idx orders out). Qed.
Print Assumptions C07_sliced_wf.

Theorem C07_column_stack_wf idxs nc0 out :
  cs_args_ok idxs -> column_stack idxs nc0 = Ok out -> WF out.
Proof. exact (column_stack_wf idxs nc0 out). Qed.
Print Assumptions C07_column_stack_wf.

Theorem C07_collapsed_wf idx prec m out :
  WF idx -> collapse_ok idx prec -> collapsed idx prec m = Ok out -> WF out.
Proof. exact (collapsed_wf idx prec m out). Qed.
Print Assumptions C07_collapsed_wf.

(* ---- construction from arrays (both strategies, every option; C01 vertical) ---- *)
Theorem C07_from_array_wf a o s idx :
  rect a -> a_nrows a <= 2 ^ 32 -> pre_data a o -> from_array a o s = Ok idx -> WF idx.
Proof. exact (from_array_wf a o s idx). Qed.
Print Assumptions C07_from_array_wf.

(* ---- every step, every history ---- *)
Theorem C07_step_wf idx o idx' :
  WF idx -> args_ok idx o -> step idx o = Ok idx' -> WF idx'.
Proof. exact (step_wf idx o idx'). Qed.
Print Assumptions C07_step_wf.

Theorem C07_history_wf  :
  forall ops s0, WF s0 -> hist_ok s0 ops -> exists s, run s0 ops = Ok s /\ WF s.
Proof. exact (history_wf). Qed.
Print Assumptions C07_history_wf.

Theorem C07_history_wf_run ops s0 s :
  WF s0 -> hist_ok s0 ops -> run s0 ops = Ok s -> WF s.
Proof. exact (history_wf_run ops s0 s). Qed.
Print Assumptions C07_history_wf_run.

(* ---- consequences ---- *)
Theorem C07_wf_abscissae idx v :
  WF idx ->
  (In v (abscissae idx) <-> exists r hc, in_range idx r hc /\ dense idx r hc = v).
Proof. exact (wf_abscissae idx v). Qed.
Print Assumptions C07_wf_abscissae.

Theorem C07_wf_sparsity idx :
  WF idx ->
  size idx - cnt_sum (value_counts (entries idx)) = dense_count idx (common idx).
Proof. exact (wf_sparsity idx). Qed.
Print Assumptions C07_wf_sparsity.

Theorem C07_wf_listed_occurs idx v :
  WF idx -> In v (listed_vals idx) ->
  exists r hc, in_range idx r hc /\ dense idx r hc = v.
Proof. exact (wf_listed_occurs idx v). Qed.
Print Assumptions C07_wf_listed_occurs.

Theorem C07_wf_infer_extent idx :
  WF idx ->
  (forall r hc, dense idx r hc < infer_extent idx) /\
  (infer_extent idx - 1 = common idx \/
   exists r hc, in_range idx r hc /\ dense idx r hc = infer_extent idx - 1).
Proof. exact (wf_infer_extent idx). Qed.
Print Assumptions C07_wf_infer_extent.

Theorem C07_canonical a b :
  WF a -> WF b -> same_content a b -> Permutation (entries a) (entries b).
Proof. exact (canonical a b). Qed.
Print Assumptions C07_canonical.

(* every slice yielded by slices1d is well-formed (and is the labelled column: C06_slices1d_spec) *)
Theorem C07_slices1d_wf idx : WF idx ->
  NoDup (map fst (slices1d idx))
  /\ (forall hc, In hc (map fst (slices1d idx)) <-> in_hshape hc (hshape idx))
  /\ (forall lbl s, In (lbl, s) (slices1d idx) -> slice_of idx lbl s).
Proof. exact (slices1d_spec idx). Qed.
Print Assumptions C07_slices1d_wf.

(* ---- non-vacuity: a well-formed 2-D index, an ill-formed one for every clause of WF, and a history that stays
   well-formed (the 17-step history of Properties/C06.v restated) ---- *)
Definition ex2 : iindex :=
  {| entries := [((1, [0]), [0; 2]); ((2, [0]), [1]); ((1, [1]), [4]); ((7, [2]), [0; 1; 2; 3])];
     common := 0; nrows := 5; hshape := [3] |}.
Definition ex2b : iindex := {| entries := [((5, [1]), [0; 1])]; common := 7; nrows := 2; hshape := [3] |}.
Definition ex1 : iindex := {| entries := [((3, []), [0; 3; 5])]; common := 1; nrows := 6; hshape := [] |}.
Definition ex_hist : list op :=
  [OAppend ex2b; OUpdate [((0, [0]), [0]); ((9, [1]), [1; 6])]; OUnion [((1, [0]), [2; 5]); ((4, [2]), [1])];
   OInter [((1, [0]), [2; 5]); ((0, [0]), [0; 3; 4]); ((9, [1]), [1; 6]); ((4, [2]), [1]); ((0, [1]), [0; 2; 3]);
           ((2, [0]), [1]); ((5, [1]), [5])];
   ODiff [((9, [1]), [6])]; OSetIf (2, [0]) [1; 6];
   OFiltered [true; false; true; true; true; true; true]; OShift 4; OCopy; OGetForce (7, [2]); OSlices1d;
   OReindexed (Some [(0, 2); (9, 2)]) true; OReindexed None false; OShiftAuto;
   OColumnStack [ex1] [ex1] (Some 1);
   OSliced [OList [2; 1; 3]];
   OCollapsed [3; -1; 2; 1] (Some [(0, 2)])].
Definition with_es (es : list entry) : iindex := {| entries := es; common := 0; nrows := 5; hshape := [3] |}.

Example C07_nonvacuous :
  WF ex2 /\ hist_ok ex2 ex_hist /\
  (* wf_b rejects: unsorted rows, row id out of range, column out of shape, wrong arity, empty entry,
     entry under the common value, one cell under two values, duplicate key *)
  map wf_b [with_es [((1, [0]), [2; 0])]; with_es [((1, [0]), [5])]; with_es [((1, [3]), [0])];
            with_es [((1, []), [0])]; with_es [((1, [0]), [])]; with_es [((0, [0]), [1])];
            with_es [((1, [0]), [1]); ((2, [0]), [1])]; with_es [((1, [0]), [1]); ((1, [0]), [2])]]
  = [false; false; false; false; false; false; false; false] /\
  forallb (fun n => match run ex2 (firstn n ex_hist) with Ok s => wf_b s | Err _ => false end) (seq 0 18) = true.
Proof.
  split; [apply wf_b_spec; vm_compute; reflexivity|].
  split; [apply hist_ok_b_sound; vm_compute; reflexivity|].
  split; vm_compute; reflexivity.
Qed.
Print Assumptions C07_nonvacuous.

Example C07_consequences_run :
  (forall v, In v (abscissae ex2) <-> In v [1; 2; 7; 0]) /\ infer_extent ex2 = 8 /\
  abscissae (with_es [((1, [0]), [0; 1; 2; 3; 4]); ((1, [1]), [0; 1; 2; 3; 4]); ((1, [2]), [0; 1; 2; 3; 4])]) = [1; 1; 1].
Proof. split; [intros v; vm_compute; tauto|]. split; vm_compute; reflexivity. Qed.
Print Assumptions C07_consequences_run.
