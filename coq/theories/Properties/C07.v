(* C07 — every operation preserves well-formedness.  (growing; see the final header) *)
From Coq Require Import ZArith List Bool.
From Catii Require Import Base.Sorted IIndex.Model IIndex.ModelFacts IIndex.OpsA IIndex.ShiftCommon.
Import ListNotations.
Open Scope Z_scope.

Theorem C07_wf_b_reflects idx : wf_b idx = true <-> WF idx.
Proof. exact (wf_b_spec idx). Qed.
Print Assumptions C07_wf_b_reflects.
Theorem C07_shift_common_wf idx v : WF idx -> WF (shift_common idx v).
Proof. exact (shift_common_wf idx v). Qed.
Print Assumptions C07_shift_common_wf.
