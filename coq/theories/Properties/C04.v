(* C04 - the missing-cell rule and the three missing-value report formats agree.

   Models as in C03 (Cube/FFuncs.v, Cube/XCube.v): integer valid / missing counters carried beside the
   values and differenced like them, output_is_missing = (valid == 0) | (missing != 0) resp. valid == 0, the
   mean's test on the WEIGHTED valid count; the three formats are computed from the (value, missing) cells by
   Direct.report the way adjust_zeros + return_missing_as do; valid_count(..., return_missing_as=0) is the
   documented shortcut (one region, no missing marks), stated separately.
   `missing_rule` (Cube/Direct.v) is the rule of the property text:
       rows = []  \/  (if ignore then ALL rows missing else SOME row missing)  \/  (mean /\ valid weights sum to 0)
   where a row is missing when its fact value or its weight is.  Hypotheses as in C03. *)
From Coq Require Import ZArith QArith Qcanon List Bool Lia.
From Catii Require Import Base.Cases Base.Sorted Cube.Dim Cube.Walk Cube.WalkProofs Cube.Region Cube.Count Cube.CountProofs
     Cube.Direct Cube.FFuncs Cube.XCube Cube.AggBase Cube.AggCell Cube.FFuncsProofs Cube.XCubeProofs Cube.AggProofs
     Cube.AggCheck.
Import ListNotations.
Open Scope Z_scope.

(* the rule itself: what the textbook cell computes is the rule of the property text *)
Theorem C04_missing_rule_spec : forall wt fx A ign rows,
  cell_missing wt fx A ign rows = true <-> missing_rule wt fx A ign rows.
Proof. exact cell_missing_rule. Qed.
Print Assumptions C04_missing_rule_spec.

(* missing_rule_A, index cube: every cell inside the shape - walked or reconstructed - and every fact column *)
Theorem C04_missing_rule_ccube : forall A N dims shape h f w ign cell,
  0 <= N -> Forall (dim_wf N) dims -> covers shape dims -> in_shape shape cell -> agg_fact_ok A f ->
  Forall2 (fun vm fx => snd vm = true <-> missing_rule (w_get w) fx A ign (cell_rows N dims cell))
          (ccube_cell A N dims shape h f w ign cell) (fact_cols f).
Proof. exact ccube_missing_rule. Qed.
Print Assumptions C04_missing_rule_ccube.
Theorem C04_ccube_cells : forall A N dims shape h f w ign,
  ccube_agg N dims shape A h f w ign = map (ccube_cell A N dims shape h f w ign) (all_cells shape).
Proof. exact ccube_agg_cells. Qed.
Print Assumptions C04_ccube_cells.

(* missing_rule_A, array cube: the call returns, and every cell (row-major) and column obeys the rule *)
Theorem C04_missing_rule_xcube : forall A N arrs shape h f w ign,
  xhyps N arrs shape -> agg_fact_ok A f ->
  exists out, xcube_agg A N arrs shape h f w ign = Some out /\
    Forall2 (fun row cell =>
               Forall2 (fun vm fx => snd vm = true <-> missing_rule (w_get w) fx A ign (cell_rows_f N arrs cell))
                       row (fact_cols f))
            out (all_cells shape).
Proof. exact xcube_missing_rule. Qed.
Print Assumptions C04_missing_rule_xcube.

(* formats_agree_A, per cell: NaN-in-place and (sentinel, False) mark exactly the missing cells; where a cell is
   not missing all three formats carry its value; a missing cell holds NaN / (sentinel, False) / the plain value *)
Theorem C04_formats_agree_cell : forall (vm : Qc * bool) (s v : Qc),
  rcell_missing (report FmtNaN vm) = snd vm
  /\ rcell_missing (report (FmtPair s) vm) = snd vm
  /\ (snd vm = false -> report FmtNaN vm = RVal (fst vm) /\ report (FmtPair s) vm = RPair (fst vm) true
                        /\ report (FmtPlain v) vm = RVal (fst vm))
  /\ (snd vm = true -> report FmtNaN vm = RNaN /\ report (FmtPair s) vm = RPair s false
                       /\ report (FmtPlain v) vm = RVal v).
Proof. exact formats_agree_cell. Qed.
Print Assumptions C04_formats_agree_cell.

(* formats_agree_A, both cube types: whatever the format, the call reports the textbook cells in that format -
   hence the same missing set and identical values elsewhere across the formats and across the cube types *)
Theorem C04_formats_agree : forall A N dims shape arrs h f w ign fm,
  0 <= N -> Forall (dim_wf N) dims -> covers shape dims -> prodZ shape <= 4294967295 -> agg_fact_ok A f ->
  Forall2 (fun a d => same_on N a (dim_dense d)) arrs dims ->
  (A = AValidCount -> is_plain0 fm = false) ->
  ccube_report A N dims shape h f w ign fm = report_all fm (direct A N (map dim_dense dims) shape f w ign)
  /\ xcube_report A N arrs shape h f w ign fm = Some (report_all fm (direct A N (map dim_dense dims) shape f w ign)).
Proof. exact formats_agree. Qed.
Print Assumptions C04_formats_agree.

(* the excluded combination, stated for what it is: valid_count with the plain replacement 0 returns the partial
   count (weighted count of the valid rows) in every cell, in both cubes, whatever the policy ... *)
Theorem C04_valid_count_plain0_shortcut : forall N dims shape arrs h f w ign,
  0 <= N -> Forall (dim_wf N) dims -> covers shape dims -> prodZ shape <= 4294967295 -> f <> FNone ->
  Forall2 (fun a d => same_on N a (dim_dense d)) arrs dims ->
  let partial := map (fun cell => map (fun fx => RVal (cell_value (w_get w) fx AValidCount
                                                         (cell_rows_f N (map dim_dense dims) cell))) (fact_cols f))
                     (all_cells shape) in
  ccube_report AValidCount N dims shape h f w ign (FmtPlain q0) = partial
  /\ xcube_report AValidCount N arrs shape h f w ign (FmtPlain q0) = Some partial.
Proof. exact valid_count_plain0_shortcut. Qed.
Print Assumptions C04_valid_count_plain0_shortcut.
(* ... which, when missing values are ignored, IS the plain format of the ordinary cell *)
Theorem C04_valid_count_plain0_ignore : forall wt fx rows,
  report (FmtPlain q0) (direct_cell wt fx AValidCount true rows) = RVal (cell_value wt fx AValidCount rows).
Proof. exact valid_count_plain0_ignore. Qed.
Print Assumptions C04_valid_count_plain0_ignore.

(* ---- non-vacuity: the C03 example cube; sum under both policies, all formats ---- *)
Definition ex_dims : list dim := [mkdim ([(1, [0; 2; 4])], 0); mkdim ([(2, [2]); (0, [1; 3])], 1)].
Definition ex_arrs : list (Z -> Z) := [arr_cat [1; 0; 1; 0; 1]; arr_cat [1; 0; 2; 0; 1]].
Definition ex_fact : fact :=
  FCols [MNaN [Some (q 1 2); Some (q 3 1); None; Some (q (-2) 1); Some (q 5 4)];
         MPair [q 1 1; q 777 1; q 2 1; q 4 1; q 6 1] [true; false; true; true; true]].
Definition ex_w : weights := WArr (MNaN [Some (q 1 1); Some (q 2 1); Some (q 0 1); None; Some (q 1 2)]).

Example C04_hypotheses_hold :
  0 <= 5 /\ Forall (dim_wf 5) ex_dims /\ covers [2; 3] ex_dims /\ prodZ [2; 3] <= 4294967295
  /\ agg_fact_ok ASum ex_fact /\ in_shape [2; 3] [1; 1]
  /\ Forall2 (fun a d => same_on 5 a (dim_dense d)) ex_arrs ex_dims.
Proof.
  split; [lia|]. split; [apply forall_dim_wf_b_sound; vm_compute; reflexivity|].
  split; [apply covers_b_sound; vm_compute; reflexivity|]. split; [vm_compute; discriminate|].
  split; [discriminate|]. split; [repeat constructor; lia|].
  repeat constructor; intros r Hr;
    assert (E : r = 0 \/ r = 1 \/ r = 2 \/ r = 3 \/ r = 4) by lia;
    destruct E as [->|[->|[->|[->| ->]]]]; vm_compute; reflexivity.
Qed.
(* cell (0,0) = rows 1, 3: propagating -> both columns missing; ignoring -> column 0 keeps row 1 (3*2 = 6),
   column 1 keeps nothing (row 1 invalid fact, row 3 missing weight) and stays missing *)
Example C04_nontrivial_propagate :
  list_eqb vm_eqb (ccube_cell ASum 5 ex_dims [2; 3] h_eval ex_fact ex_w false [0; 0]) [(q 6 1, true); (q0, true)] = true.
Proof. vm_compute. reflexivity. Qed.
Example C04_nontrivial_ignore :
  list_eqb vm_eqb (ccube_cell ASum 5 ex_dims [2; 3] h_eval ex_fact ex_w true [0; 0]) [(q 6 1, false); (q0, true)] = true.
Proof. vm_compute. reflexivity. Qed.
Example C04_nontrivial_formats :
  map (map rcell_obs) (ccube_report ASum 5 ex_dims [2; 3] h_eval ex_fact ex_w true (FmtPair (q (-3) 1)))
  = map (map rcell_obs) (ccube_report ASum 5 ex_dims [2; 3] h_eval ex_fact ex_w true FmtNaN).
Proof. vm_compute. reflexivity. Qed.
