(* C17 - aggregations are pure: inputs untouched, no hidden state between calls.

   Effects/IR.v        the effect IR (alias / load / fresh / mutate / store / if / loop; calls are inlined
                       or the most general client of their arguments)
   Effects/Sem.v       nondeterministic heap semantics (objects, references by field, version counters)
   Effects/Analysis.v  origin analysis and the checker `pure`
   Effects/Sound.v     soundness
   Effects/gen/Progs.v GENERATED from the working tree on every run (harness/translate_effects.py):
                       one program per in-scope function, `all_progs`; control mutants `neg_progs`
   Effects/Claims.v    the checker evaluated on the generated programs
   Effects/Independent.v  the one-pass evaluation of several aggregates, model level *)
From Coq Require Import List Bool Arith.
From Catii Require Import Effects.IR Effects.Sem Effects.Analysis Effects.Sound Effects.gen.Progs
                          Effects.Claims Effects.Examples Effects.Independent.
Import ListNotations.

(* soundness of the analysis: if it accepts a statement from an abstract state that covers the concrete
   one, NO execution modifies a protected location (same version counter, same outgoing references) *)
Theorem C17_analysis_sound : forall P pt fuel s a a' st st',
  analyse fuel pt s a = Some a' -> covers P pt a st -> exec s st st' ->
  forall l, P l = true -> ver st' l = ver st l /\ heap st' l = heap st l.
Proof. exact analysis_sound. Qed.
Print Assumptions C17_analysis_sound.

Theorem C17_pure_sound : forall p P st st',
  pure p = true -> covers P (ptf (protected p)) (entry p) st -> exec (body p) st st' ->
  (forall l, P l = true -> untouched st st' l) /\
  (ret_fresh p = true ->
   forall x l l', In x (rets p) -> In l (env st' x) -> reach (heap st') l l' -> P l' = false).
Proof. exact pure_sound. Qed.
Print Assumptions C17_pure_sound.

(* the checker accepts every program generated from the working tree *)
Theorem C17_effects : forallb pure all_progs = true.
Proof. exact all_progs_pure. Qed.
Print Assumptions C17_effects.

(* ... hence, for every generated program, every caller heap its entry description covers and every
   execution: no protected location is modified; results declared fresh reference no protected memory *)
Theorem C17_effects_sound : forall p, In p all_progs ->
  forall P st st', covers P (ptf (protected p)) (entry p) st -> exec (body p) st st' ->
  (forall l, P l = true -> untouched st st' l) /\
  (ret_fresh p = true ->
   forall x l l', In x (rets p) -> In l (env st' x) -> reach (heap st') l l' -> P l' = false).
Proof. exact all_progs_sound. Qed.
Print Assumptions C17_effects_sound.

(* several aggregates in one pass = each one alone, in any order (model level: fill : region -> cell ->
   region, i.e. every aggregate owns its regions - which is what C17_effects shows of the code) *)
Theorem C17_calculate_independent : forall (agg cell region result : Type) (init : agg -> region)
  (fill : agg -> region -> cell -> region) (reduce : agg -> region -> result) fs cells,
  calculate agg cell region result init fill reduce fs cells =
  map (fun f => alone agg cell region result init fill reduce f cells) fs.
Proof. exact calculate_pointwise. Qed.
Print Assumptions C17_calculate_independent.

Theorem C17_calculate_reorder : forall (agg cell region result : Type) (init : agg -> region)
  (fill : agg -> region -> cell -> region) (reduce : agg -> region -> result) (idx : list nat) fs d cells,
  calculate agg cell region result init fill reduce (map (fun i => nth i fs d) idx) cells =
  map (fun i => alone agg cell region result init fill reduce (nth i fs d) cells) idx.
Proof. exact calculate_reorder. Qed.
Print Assumptions C17_calculate_reorder.

(* non-vacuity *)
Example C17_controls_rejected : neg_progs <> [] /\ forallb (fun p => negb (pure p)) neg_progs = true.
Proof. exact controls_rejected. Qed.
Example C17_many_programs : 100 <=? length all_progs = true.
Proof. exact all_progs_many. Qed.
Example C17_hand_without_copy_rejected : pure (hand_prog true) = true /\ pure (hand_prog false) = false.
Proof. exact (conj hand_accepted hand_rejected_without_copy). Qed.
Example C17_hypotheses_satisfiable :
  covers hand_P (ptf [0]) hand_entry hand_state /\
  exists st', exec (body (hand_prog true)) hand_state st' /\ hand_P 0 = true /\ ver st' 3 = 1 /\ untouched hand_state st' 0.
Proof. exact (conj hand_covers hand_nonvacuous). Qed.
