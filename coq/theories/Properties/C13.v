(* C13 - extra axes are outermost, in order, and index independent sub-cubes.
   The theorems are about the stacking algorithm shared by ccube.calculate and xcube.calculate
   (Cube/Scaffold.v), for ANY sub-cube computation `fill`, any number of dimensions and any extents. *)
From Coq Require Import ZArith List Bool.
From Catii Require Import IIndex.Model Cube.Scaffold Cube.ScaffoldProofs Cube.ScaffoldShape.
From Catii Require Import Base.Sorted Cube.Dim Cube.Walk Cube.Diff Cube.Region Cube.Count Cube.ScaffoldReduce.
Import ListNotations.
Open Scope Z_scope.

(* index cube: the block at ANY in-range combination j of extra-axis positions - j being the
   concatenation, in dimension order then axis order, of one coordinate tuple per dimension - is
   exactly what the sub-cube computes from the corresponding 1-D slices alone *)
Theorem C13_index_cube_block : forall (B : Type) (fill : list iindex -> B) (idxs : list iindex) (j : list Z),
  in_hshape j (scaffold_shape (map hshape idxs)) ->
  exists js, Forall2 (fun hc idx => in_hshape hc (hshape idx)) js idxs /\ concat js = j /\
    read (calculate fill (map slices_of_index idxs)) j = Some (fill (map2 slice_at idxs js)).
Proof. exact index_cube_block. Qed.
Print Assumptions C13_index_cube_block.

(* ... and the 1-D slice is the column of the dense array the index stands for *)
Theorem C13_slice_is_column : forall idx hc r, dense (slice_at idx hc) r [] = dense idx r hc.
Proof. exact slice_at_dense. Qed.
Print Assumptions C13_slice_is_column.

(* shape: blocks exist exactly at the positions of the concatenated extra extents *)
Theorem C13_index_cube_shape : forall (B : Type) (fill : list iindex -> B) (idxs : list iindex) (j : list Z),
  ~ in_hshape j (scaffold_shape (map hshape idxs)) ->
  read (calculate fill (map slices_of_index idxs)) j = None.
Proof. exact index_cube_outside. Qed.
Print Assumptions C13_index_cube_shape.

(* every block is written exactly once (no sub-cube overwrites another's block) *)
Theorem C13_index_cube_writes_once : forall (B : Type) (fill : list iindex -> B) (idxs : list iindex),
  NoDup (map fst (calculate fill (map slices_of_index idxs))) /\
  length (calculate fill (map slices_of_index idxs)) = length (all_hcs (scaffold_shape (map hshape idxs))).
Proof. exact index_cube_writes_once. Qed.
Print Assumptions C13_index_cube_writes_once.

(* array cube: same statement, the slice being the column of the dense array *)
Theorem C13_array_cube_block : forall (B A : Type) (fill : list A -> B) (dims : list (list Z * (list Z -> A))) (j : list Z),
  in_hshape j (scaffold_shape (map fst dims)) ->
  exists js, Forall2 (fun hc d => in_hshape hc (fst d)) js dims /\ concat js = j /\
    read (calculate fill (map (fun d => slices_of_array A (fst d) (snd d)) dims)) j
      = Some (fill (map2 (fun d hc => snd d hc) dims js)).
Proof. exact array_cube_block. Qed.
Print Assumptions C13_array_cube_block.

(* non-vacuity: a 2-D index with 2 columns and a 3-D index with extents (2,3): 12 blocks, block (1,0,2)
   comes from column 1 of the first and column (0,2) of the second *)
Example C13_nonvacuous :
  let a := {| entries := [((1, [0]), [0; 2]); ((2, [1]), [1])]; common := 0; nrows := 3; hshape := [2] |} in
  let b := {| entries := [((1, [0; 2]), [1]); ((1, [1; 1]), [0; 1; 2])]; common := 0; nrows := 3; hshape := [2; 3] |} in
  let fill := fun sl : list iindex => map (fun s => map (fun r => dense s r []) (zrange (nrows s))) sl in
  length (calculate fill (map slices_of_index [a; b])) = 12%nat /\
  read (calculate fill (map slices_of_index [a; b])) [1; 0; 2] = Some [[0; 2; 0]; [0; 1; 0]].
Proof. vm_compute. split; reflexivity. Qed.

(* ---- the reduce step acts block-wise (ccube._compute_common_cells_from_marginal_diffs works on the WHOLE stacked
   region, on axis number len(scaffold) + a): differencing commutes with selecting the block of any combination j
   of extra-axis positions, for any value group, any number of extra and interacting axes ---- *)
Theorem C13_reduce_blockwise : forall (V : Type) (vadd vsub : V -> V -> V) (vzero : V)
  (shape coms : list Z) (j : list Z) (S : aregion V) (k : nat) (c : list Z),
  gdiff_all V vadd vsub vzero (length j) shape coms k S (j ++ c)
  = adiff_all V vadd vsub vzero shape coms k (block V j S) c.
Proof. exact gdiff_all_block. Qed.
Print Assumptions C13_reduce_blockwise.

(* ... and a block of the reduced region depends on nothing but the same block of the filled region *)
Theorem C13_reduce_local : forall (V : Type) (vadd vsub : V -> V -> V) (vzero : V)
  (shape coms : list Z) (j : list Z) (S T : aregion V),
  (forall c, S (j ++ c) = T (j ++ c)) ->
  forall k c, gdiff_all V vadd vsub vzero (length j) shape coms k S (j ++ c)
            = gdiff_all V vadd vsub vzero (length j) shape coms k T (j ++ c).
Proof. exact gdiff_all_local. Qed.
Print Assumptions C13_reduce_local.

(* with C02: if block j of the stacked count region holds what the sub-cube over the 1-D slices [dims_of j] filled
   (C13_index_cube_block), then after the reduce of the WHOLE region every cell of block j holds the number of rows
   of that cell of that sub-cube - the block IS the count cube of the slices *)
Theorem C13_count_block : forall (N : Z) (shape : list Z) (dims_of : list Z -> list dim) (S : aregion Z) (j : list Z),
  (forall c, S (j ++ c) = count_filled N (dims_of j) shape c) ->
  0 <= N -> Forall (dim_wf N) (dims_of j) -> covers shape (dims_of j) ->
  forall cell, in_shape shape cell ->
    gdiff_all Z Z.add Z.sub 0 (length j) shape (map dcommon (dims_of j)) (length (dims_of j)) S (j ++ cell)
    = len_rows (cell_rows N (dims_of j) cell).
Proof. exact stacked_count_block. Qed.
Print Assumptions C13_count_block.

(* non-vacuity: two blocks (one extra axis of extent 2) of a one-dimension cube with extent 2 and common 0; the stacked
   region before the reduce holds, per block, the uncommon cell and the corner; block 1 is reduced on its own *)
Example C13_reduce_nonvacuous :
  let S : aregion Z := fun jc => match jc with
                                 | [0; 1] => 2 | [0; 2] => 5        (* block 0: category 1 has 2 rows, N = 5 *)
                                 | [1; 1] => 4 | [1; 2] => 5        (* block 1: category 1 has 4 rows *)
                                 | _ => 0 end in
  map (fun jc => gdiff_all Z Z.add Z.sub 0 1 [2] [0] 1 S jc) [[0; 0]; [0; 1]; [1; 0]; [1; 1]] = [3; 2; 1; 4].
Proof. vm_compute. reflexivity. Qed.
