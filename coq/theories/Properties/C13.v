(* C13 - extra axes are outermost, in order, and index independent sub-cubes.
   The theorems are about the stacking algorithm shared by ccube.calculate and xcube.calculate
   (Cube/Scaffold.v), for ANY sub-cube computation `fill`, any number of dimensions and any extents. *)
From Coq Require Import ZArith List Bool.
From Catii Require Import IIndex.Model Cube.Scaffold Cube.ScaffoldProofs Cube.ScaffoldShape.
Import ListNotations.
Open Scope Z_scope.

(* index cube: the block at ANY in-range combination j of extra-axis positions - j being the
   concatenation, in dimension order then axis order, of one coordinate tuple per dimension - is
   exactly what the sub-cube computes from the corresponding 1-D slices alone *)
Theorem C13_index_cube_block : forall (B : Type) (fill : list iindex -> B) (idxs : list iindex) (j : list Z),
  in_hshape j (scaffold_shape (map hshape idxs)) ->
  exists js, Forall2 (fun hc idx => in_hshape hc (hshape idx)) js idxs /\ concat js = j /\
    read (calculate fill (map slices_of_index idxs)) j = Some (fill (map2 slice_at idxs js)).
Proof. exact index_cube_block. Qed.
Print Assumptions C13_index_cube_block.

(* ... and the 1-D slice is the column of the dense array the index stands for *)
Theorem C13_slice_is_column : forall idx hc r, dense (slice_at idx hc) r [] = dense idx r hc.
Proof. exact slice_at_dense. Qed.
Print Assumptions C13_slice_is_column.

(* shape: blocks exist exactly at the positions of the concatenated extra extents *)
Theorem C13_index_cube_shape : forall (B : Type) (fill : list iindex -> B) (idxs : list iindex) (j : list Z),
  ~ in_hshape j (scaffold_shape (map hshape idxs)) ->
  read (calculate fill (map slices_of_index idxs)) j = None.
Proof. exact index_cube_outside. Qed.
Print Assumptions C13_index_cube_shape.

(* every block is written exactly once (no sub-cube overwrites another's block) *)
Theorem C13_index_cube_writes_once : forall (B : Type) (fill : list iindex -> B) (idxs : list iindex),
  NoDup (map fst (calculate fill (map slices_of_index idxs))) /\
  length (calculate fill (map slices_of_index idxs)) = length (all_hcs (scaffold_shape (map hshape idxs))).
Proof. exact index_cube_writes_once. Qed.
Print Assumptions C13_index_cube_writes_once.

(* array cube: same statement, the slice being the column of the dense array *)
Theorem C13_array_cube_block : forall (B A : Type) (fill : list A -> B) (dims : list (list Z * (list Z -> A))) (j : list Z),
  in_hshape j (scaffold_shape (map fst dims)) ->
  exists js, Forall2 (fun hc d => in_hshape hc (fst d)) js dims /\ concat js = j /\
    read (calculate fill (map (fun d => slices_of_array A (fst d) (snd d)) dims)) j
      = Some (fill (map2 (fun d hc => snd d hc) dims js)).
Proof. exact array_cube_block. Qed.
Print Assumptions C13_array_cube_block.

(* non-vacuity: a 2-D index with 2 columns and a 3-D index with extents (2,3): 12 blocks, block (1,0,2)
   comes from column 1 of the first and column (0,2) of the second *)
Example C13_nonvacuous :
  let a := {| entries := [((1, [0]), [0; 2]); ((2, [1]), [1])]; common := 0; nrows := 3; hshape := [2] |} in
  let b := {| entries := [((1, [0; 2]), [1]); ((1, [1; 1]), [0; 1; 2])]; common := 0; nrows := 3; hshape := [2; 3] |} in
  let fill := fun sl : list iindex => map (fun s => map (fun r => dense s r []) (zrange (nrows s))) sl in
  length (calculate fill (map slices_of_index [a; b])) = 12%nat /\
  read (calculate fill (map slices_of_index [a; b])) [1; 0; 2] = Some [[0; 2; 0]; [0; 1; 0]].
Proof. vm_compute. split; reflexivity. Qed.
