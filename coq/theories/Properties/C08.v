(* C08 - sorted-set kernels compute exact set algebra.
   Stated over the index-level model SetOps/Kernels.v of src/catii/set_operations.pyx (tied to the
   working tree by the exhaustive small-scope correspondence of the C08 check).  [sincr] = strictly
   increasing, [all_u32] = every element in [0, 2^32); the specifications [inter_spec], [diff_spec],
   [union_spec], [union_many_spec] are the plain mathematical objects of Base/Sorted.v (filter by
   membership, structural merge, fold of the binary union).  The length hypotheses are the documented
   C `int` limitation of the kernels (for union the output length left_len + right_len is an `int` too). *)
From Coq Require Import ZArith Bool List.
From Catii Require Import Base.Sorted Base.SortedFacts SetOps.Kernels SetOps.KernelSafe SetOps.KernelSpec.
Import ListNotations.
Open Scope Z_scope.

Theorem C08_intersect : forall L R : list Z,
  sincr L -> sincr R -> all_u32 L -> all_u32 R ->
  Z.of_nat (length L) < 2 ^ 31 -> Z.of_nat (length R) < 2 ^ 31 ->
  intersect_kernel L R = KOk (inter_spec L R) /\
  sincr (inter_spec L R) /\ all_u32 (inter_spec L R) /\
  forall x, In x (inter_spec L R) <-> In x L /\ In x R.
Proof. exact C08_intersect_lemma. Qed.
Print Assumptions C08_intersect.

Theorem C08_union : forall L R : list Z,
  sincr L -> sincr R -> all_u32 L -> all_u32 R ->
  Z.of_nat (length L) + Z.of_nat (length R) < 2 ^ 31 ->
  union_kernel L R = KOk (union_spec L R) /\
  sincr (union_spec L R) /\ all_u32 (union_spec L R) /\
  forall x, In x (union_spec L R) <-> In x L \/ In x R.
Proof. exact C08_union_lemma. Qed.
Print Assumptions C08_union.

Theorem C08_difference : forall L R : list Z,
  sincr L -> sincr R -> all_u32 L -> all_u32 R ->
  Z.of_nat (length L) < 2 ^ 31 -> Z.of_nat (length R) < 2 ^ 31 ->
  difference_kernel L R = KOk (diff_spec L R) /\
  sincr (diff_spec L R) /\ all_u32 (diff_spec L R) /\
  forall x, In x (diff_spec L R) <-> In x L /\ ~ In x R.
Proof. exact C08_difference_lemma. Qed.
Print Assumptions C08_difference.

(* The wrappers: None stands for the empty set of rows ([rows None = []]) on the way in, and the
   result is None exactly when the mathematical result is empty ([some_if_nonempty]). *)
Theorem C08_wrappers : forall l r : option (list Z),
  operand_ok l -> operand_ok r ->
  Z.of_nat (length (rows l)) + Z.of_nat (length (rows r)) < 2 ^ 31 ->
  intersection l r = KOk (some_if_nonempty (inter_spec (rows l) (rows r))) /\
  union l r = KOk (some_if_nonempty (union_spec (rows l) (rows r))) /\
  difference l r = KOk (some_if_nonempty (diff_spec (rows l) (rows r))).
Proof. exact C08_wrappers_lemma. Qed.
Print Assumptions C08_wrappers.

(* the documented None cases spelled out (no hypotheses at all) *)
Theorem C08_wrappers_none :
  (forall r, intersection None r = KOk None) /\ (forall l, intersection l None = KOk None) /\
  union None None = KOk None /\
  (forall R, union None (Some R) = KOk (some_if_nonempty R)) /\
  (forall L, union (Some L) None = KOk (some_if_nonempty L)) /\
  (forall r, difference None r = KOk None) /\
  (forall L, difference (Some L) None = KOk (some_if_nonempty L)) /\
  (forall x, some_if_nonempty x = None <-> x = []).
Proof. exact C08_wrappers_none_lemma. Qed.
Print Assumptions C08_wrappers_none.

(* k-way union: any number of arrays (0..k), empty arrays allowed *)
Theorem C08_union_many : forall arrays : list (list Z),
  Forall sincr arrays -> Forall all_u32 arrays -> Z.of_nat (length (concat arrays)) < 2 ^ 31 ->
  union_many_kernel arrays = KOk (union_many_spec arrays) /\
  sincr (union_many_spec arrays) /\ all_u32 (union_many_spec arrays) /\
  forall x, In x (union_many_spec arrays) <-> exists L, In L arrays /\ In x L.
Proof. exact C08_many_lemma. Qed.
Print Assumptions C08_union_many.

(* non-vacuity: boundary-valued operands satisfy the hypotheses ([sincr_b], [all_u32_b] reflect
   [sincr], [all_u32]: SortedFacts.sincr_b_iff, all_u32_b_iff), and the kernels do run their main loops *)
Example C08_nonvacuous :
  let L := [0; 1; 7; 2147483648; 4294967295] in
  let R := [1; 5; 7; 9; 4294967294; 4294967295] in
  sincr_b L = true /\ sincr_b R = true /\ all_u32_b L = true /\ all_u32_b R = true /\
  intersect_kernel L R = KOk [1; 7; 4294967295] /\
  union_kernel L R = KOk [0; 1; 5; 7; 9; 2147483648; 4294967294; 4294967295] /\
  difference_kernel L R = KOk [0; 2147483648] /\
  union_many_kernel [L; []; R; [3; 4294967295]] = KOk [0; 1; 3; 5; 7; 9; 2147483648; 4294967294; 4294967295] /\
  difference (Some L) (Some L) = KOk None.
Proof. vm_compute. repeat split; reflexivity. Qed.
