(* C09 - the sorted-set kernels never touch memory outside their buffers.
   Stated over the index-level model SetOps/Kernels.v, in which every element read ([rd]), every write
   into the output buffer ([wr], against the allocated capacity) and every write into the k-way
   pointers array ([upd]) yields [OOB] unless 0 <= index < length (no wrap-around), and a `while 1:`
   loop that does not stop within its fuel yields [NoFuel].  The theorems hold for ALL input lists:
   no sortedness, no range restriction on the elements, duplicates allowed.  The only hypotheses are
   that the lengths fit the C `int` variables holding them (documented limitation of the kernels).
   Tied to the working tree by the correspondence of the C09 check (bounds-checked rebuild, ASan). *)
From Coq Require Import ZArith Bool List.
From Catii Require Import SetOps.Kernels SetOps.KernelSafe.
Import ListNotations.
Open Scope Z_scope.

Theorem C09_intersect : forall L R : list Z,
  Z.of_nat (length L) < 2 ^ 31 -> Z.of_nat (length R) < 2 ^ 31 ->
  exists r, intersect_kernel L R = KOk r.
Proof. exact intersect_total. Qed.
Print Assumptions C09_intersect.

Theorem C09_union : forall L R : list Z,
  Z.of_nat (length L) + Z.of_nat (length R) < 2 ^ 31 ->
  exists r, union_kernel L R = KOk r.
Proof. exact union_total. Qed.
Print Assumptions C09_union.

Theorem C09_difference : forall L R : list Z,
  Z.of_nat (length L) < 2 ^ 31 -> Z.of_nat (length R) < 2 ^ 31 ->
  exists r, difference_kernel L R = KOk r.
Proof. exact difference_total. Qed.
Print Assumptions C09_difference.

Theorem C09_union_many : forall arrays : list (list Z),
  Z.of_nat (length (concat arrays)) < 2 ^ 31 ->
  (exists r, union_many_kernel arrays = KOk r) /\
  union_many_kernel arrays <> OOB /\ union_many_kernel arrays <> NoFuel.
Proof. exact C09_many_lemma. Qed.
Print Assumptions C09_union_many.

(* the same, in the form "no out-of-bounds access, no runaway loop" *)
Theorem C09_never_oob : forall L R : list Z,
  Z.of_nat (length L) + Z.of_nat (length R) < 2 ^ 31 ->
  intersect_kernel L R <> OOB /\ union_kernel L R <> OOB /\ difference_kernel L R <> OOB /\
  intersect_kernel L R <> NoFuel /\ union_kernel L R <> NoFuel /\ difference_kernel L R <> NoFuel.
Proof. exact C09_never_oob_lemma. Qed.
Print Assumptions C09_never_oob.

Theorem C09_wrappers : forall l r : option (list Z),
  (forall L, l = Some L -> Z.of_nat (length L) < 2 ^ 31) ->
  (forall R, r = Some R -> Z.of_nat (length R) < 2 ^ 31) ->
  (forall L R, l = Some L -> r = Some R -> Z.of_nat (length L) + Z.of_nat (length R) < 2 ^ 31) ->
  (exists x, intersection l r = KOk x) /\ (exists x, union l r = KOk x) /\ (exists x, difference l r = KOk x).
Proof. exact wrappers_total. Qed.
Print Assumptions C09_wrappers.

(* non-vacuity: the model is not trivially safe - it faults when driven outside a buffer
   ([rd [] 0 = OOB] is exactly the read the unrepaired intersection kernel made for L = [], R = [1]) -
   and the kernels complete on unsorted, duplicate-carrying and empty operands *)
Example C09_nonvacuous :
  rd [] 0 = OOB /\ rd [1] (-1) = OOB /\ wr 0 [] 5 = OOB /\ upd [1; 2] 2 0 = OOB /\
  intersect_kernel [] [1] = KOk [] /\ intersect_kernel [1] [] = KOk [] /\
  intersect_kernel [3; 3; 9; 12] [1; 3; 3; 9; 20] = KOk [3; 3; 9] /\
  union_kernel [5; 3; 3] [3; 1; 7; 0] = KOk [3; 1; 7; 0; 5; 3; 3] /\
  difference_kernel [2; 2; 0; 4294967295] [1; 2; 2] = KOk [0; 4294967295] /\
  union_many_kernel [[5; 3; 3]; []; [3; 1]] = KOk [3; 1; 5; 3; 3].
Proof. vm_compute. repeat split; reflexivity. Qed.
