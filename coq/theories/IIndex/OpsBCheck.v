(* IIndex/OpsBCheck.v - executable comparison of the OpsB models with abstracted REAL behaviour.
   Definitions only.  Used by harness/opsb_selftest.py (and available to IIndex/Check.v). *)
From Coq Require Import ZArith List Bool.
From Catii Require Import Base.Cases Base.Sorted IIndex.Model IIndex.Res IIndex.OpsB.
Import ListNotations.
Open Scope Z_scope.

Definition mk := Build_iindex.

(* entries equal as dicts (order free) *)
Definition entries_same (m r : iindex) : bool :=
  Nat.eqb (length (entries m)) (length (entries r))
  && forallb (fun e => match assoc_get (fst e) (entries r) with
                       | Some rows => zl_eqb rows (snd e)
                       | None => false
                       end) (entries m).

Definition shape_same (m r : iindex) : bool :=
  (nrows m =? nrows r) && zl_eqb (hshape m) (hshape r).

(* model result vs real result: shape, common, dense content, entries as a dict, both well-formed *)
Definition idx_same (m r : iindex) : bool :=
  shape_same m r && (common m =? common r)
  && list_eqb zl_eqb (dense_rows m) (dense_rows r)
  && entries_same m r && wf_b m && wf_b r.

Definition res_same (m r : res iindex) : bool :=
  match m, r with
  | Ok a, Ok b => idx_same a b
  | Err e, Err e' => err_eqb e e'
  | _, _ => false
  end.

Inductive bcase :=
| CSliced (idx : iindex) (orders : list order) (out : res iindex)
| CSlices (idx : iindex) (out : list (list Z * iindex))
| CReindexed (idx : iindex) (mapping : option (list (Z * Z))) (shift : bool) (out : iindex)
| CCollapsed (idx : iindex) (prec : list Z) (mapping : option (list (Z * Z))) (out : res iindex)
| CStack (idxs : list iindex) (nc : option Z) (out : res iindex)
| CEq (a b : iindex) (eq ne : bool).

Definition stack_same (idxs : list iindex) (nc : option Z) (out : res iindex) : bool :=
  match nc, out with
  | None, Ok r =>
      (* library tie-break (float rounding on exact ties) is free *)
      memZ (common r) (cs_tied_commons idxs) && res_same (column_stack idxs (Some (common r))) out
  | _, _ => res_same (column_stack idxs nc) out
  end.

Definition check_bcase (c : bcase) : bool :=
  match c with
  | CSliced idx orders out => wf_b idx && res_same (sliced idx orders) out
  | CSlices idx out =>
      wf_b idx &&
      list_eqb (fun a b => zl_eqb (fst a) (fst b) && idx_same (snd a) (snd b)) (slices1d idx) out
  | CReindexed idx m sh out => wf_b idx && idx_same (reindexed idx m sh) out
  | CCollapsed idx prec m out => wf_b idx && res_same (collapsed idx prec m) out
  | CStack idxs nc out => forallb wf_b idxs && stack_same idxs nc out
  | CEq a b e n => wf_b a && wf_b b && Bool.eqb (eq_model a b) e && Bool.eqb (ne_model a b) n
  end.

(* what the model says, for diagnostics *)
Inductive bexplain :=
| XRes (r : res iindex) | XIdx (i : iindex) | XSlices (l : list (list Z * iindex)) | XBools (a b : bool).
Definition explain_bcase (c : bcase) : bexplain :=
  match c with
  | CSliced idx orders _ => XRes (sliced idx orders)
  | CSlices idx _ => XSlices (slices1d idx)
  | CReindexed idx m sh _ => XIdx (reindexed idx m sh)
  | CCollapsed idx prec m _ => XRes (collapsed idx prec m)
  | CStack idxs nc out =>
      XRes (column_stack idxs (match nc, out with None, Ok r => Some (common r) | _, _ => nc end))
  | CEq a b _ _ => XBools (eq_model a b) (ne_model a b)
  end.
