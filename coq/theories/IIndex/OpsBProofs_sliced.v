(* IIndex/OpsBProofs_sliced.v - sliced and slices1d: shape, well-formedness, dense refinement. *)
From Coq Require Import ZArith List Bool Lia Permutation.
From Catii Require Import Base.Sorted IIndex.Model IIndex.ModelFacts IIndex.Res IIndex.OpsA IIndex.OpsB IIndex.OpsBFacts.
Import ListNotations.
Open Scope Z_scope.

(* ------------------------------------------------------------------ a re-keyed copy of an index *)
Section Rekeyed.
  Variable phi : key -> option key.
  Variable psi : list Z -> list Z.
  Variable idx : iindex.
  Variable hs' : list Z.
  Hypothesis W : WF idx.
  Hypothesis Hhs : Forall (fun e => 0 <= e) hs'.
  Hypothesis Hphi : forall k k', In k (keys (entries idx)) -> phi k = Some k' ->
      fst k' = fst k /\ snd k = psi (snd k') /\ in_hshape (snd k') hs'.

  Definition rekeyed : iindex :=
    {| entries := dict_of (rekey phi (entries idx)); common := common idx; nrows := nrows idx; hshape := hs' |}.

  Lemma rekeyed_inj k1 k2 k' : In k1 (keys (entries idx)) -> In k2 (keys (entries idx)) ->
    phi k1 = Some k' -> phi k2 = Some k' -> k1 = k2.
  Proof.
    intros H1 H2 E1 E2. destruct (Hphi _ _ H1 E1) as (A1 & B1 & _). destruct (Hphi _ _ H2 E2) as (A2 & B2 & _).
    destruct k1, k2. cbn [fst snd] in *. congruence.
  Qed.

  Lemma rekeyed_entries : entries rekeyed = rekey phi (entries idx).
  Proof.
    cbn [rekeyed entries]. apply dict_of_nodup. apply nodup_rekey; [apply (wf_keys idx W)|].
    intros k1 k2 k'. apply rekeyed_inj.
  Qed.

  Lemma rekeyed_In k' rows : In (k', rows) (entries rekeyed) <->
    exists k, In (k, rows) (entries idx) /\ phi k = Some k'.
  Proof. rewrite rekeyed_entries. apply In_rekey. Qed.

  Lemma rekeyed_listed r hc' v :
    listed rekeyed r hc' v <-> listed idx r (psi hc') v /\ phi (v, psi hc') = Some (v, hc').
  Proof.
    unfold listed. split.
    - intros [rows [Hin Hr]]. apply rekeyed_In in Hin. destruct Hin as [k [Hin E]].
      destruct (Hphi k (v, hc') (In_key _ _ _ Hin) E) as (A & B & _). cbn [fst snd] in A, B.
      destruct k as [kv khc]. cbn [fst snd] in *. subst. split; [exists rows; auto|exact E].
    - intros [[rows [Hin Hr]] E]. exists rows. split; [|exact Hr]. apply rekeyed_In. eexists. split; eassumption.
  Qed.

  Lemma rekeyed_wf : WF rekeyed.
  Proof.
    constructor.
    - apply (wf_nrows idx W).
    - exact Hhs.
    - rewrite rekeyed_entries. apply nodup_rekey; [apply (wf_keys idx W)|]. intros k1 k2 k'. apply rekeyed_inj.
    - intros k' rows Hin. apply rekeyed_In in Hin. destruct Hin as [k [Hin E]].
      destruct (Hphi k k' (In_key _ _ _ Hin) E) as (_ & _ & C). exact C.
    - intros k' rows Hin. apply rekeyed_In in Hin. destruct Hin as [k [Hin E]]. eapply (wf_sorted idx W); eassumption.
    - intros k' rows r Hin Hr. apply rekeyed_In in Hin. destruct Hin as [k [Hin E]]. eapply (wf_rows idx W); eassumption.
    - intros k' rows Hin. apply rekeyed_In in Hin. destruct Hin as [k [Hin E]]. eapply (wf_nonempty idx W); eassumption.
    - intros k' rows Hin. apply rekeyed_In in Hin. destruct Hin as [k [Hin E]].
      destruct (Hphi k k' (In_key _ _ _ Hin) E) as (A & _ & _). rewrite A. eapply (wf_nocommon idx W); eassumption.
    - intros r hc v v' L1 L2. apply rekeyed_listed in L1, L2. destruct L1 as [L1 _], L2 as [L2 _].
      eapply (wf_excl idx W); eassumption.
  Qed.

  Lemma rekeyed_dense r hc' :
    (forall v, In (v, psi hc') (keys (entries idx)) -> phi (v, psi hc') = Some (v, hc')) ->
    dense rekeyed r hc' = dense idx r (psi hc').
  Proof.
    intros Hdef. destruct (listed_or_not idx r (psi hc')) as [[v L]|N].
    - rewrite (dense_listed_wf idx r (psi hc') v W L). apply dense_listed_wf; [apply rekeyed_wf|].
      apply rekeyed_listed. split; [exact L|]. apply Hdef. destruct L as [rows [Hin _]]. eapply In_key; eassumption.
    - rewrite (dense_of_unlisted idx r (psi hc') N). apply (dense_of_unlisted rekeyed).
      intros v L. apply rekeyed_listed in L. destruct L as [L _]. exact (N v L).
  Qed.
End Rekeyed.

(* ------------------------------------------------------------------ list.index *)
Lemma index_of_some c l : forall k, index_of c l = Some k ->
  0 <= k < Z.of_nat (length l) /\ nth (Z.to_nat k) l 0 = c.
Proof.
  induction l as [|x l IH]; intros k H; cbn [index_of] in H; [discriminate|].
  destruct (Z.eqb_spec c x) as [->|N].
  - inversion H; subst. cbn [length nth Z.to_nat]. split; [lia|reflexivity].
  - destruct (index_of c l) as [j|] eqn:E; [|discriminate]. cbn [option_map] in H. inversion H; subst.
    destruct (IH j eq_refl) as [R Hn]. cbn [length]. split; [lia|].
    replace (Z.to_nat (Z.succ j)) with (S (Z.to_nat j)) by lia. cbn [nth]. exact Hn.
Qed.

Lemma index_of_none c l : index_of c l = None -> ~ In c l.
Proof.
  induction l as [|x l IH]; intros H; cbn [index_of] in H; [tauto|].
  destruct (Z.eqb_spec c x) as [->|N]; [discriminate|].
  destruct (index_of c l) eqn:E; [discriminate|]. intros [C|C]; [congruence|]. apply IH; auto.
Qed.

Lemma index_of_nth l : NoDup l -> forall k, 0 <= k < Z.of_nat (length l) ->
  index_of (nth (Z.to_nat k) l 0) l = Some k.
Proof.
  induction l as [|x l IH]; intros ND k Hk; cbn [length] in Hk; [lia|].
  inversion ND as [|? ? Hx ND']; subst. cbn [index_of].
  destruct (Z.eq_dec k 0) as [->|Nk].
  - cbn [Z.to_nat nth]. rewrite Z.eqb_refl. reflexivity.
  - replace (Z.to_nat k) with (S (Z.to_nat (k - 1))) by lia. cbn [nth].
    assert (Hin : In (nth (Z.to_nat (k - 1)) l 0) l) by (apply nth_In; lia).
    destruct (Z.eqb_spec (nth (Z.to_nat (k - 1)) l 0) x) as [E|N]; [rewrite E in Hin; contradiction|].
    rewrite IH; [|exact ND'|lia]. cbn [option_map]. f_equal. lia.
Qed.

(* ------------------------------------------------------------------ sliced *)
(* per axis: int within the extent; list of distinct columns within the extent *)
Definition order_ok (o : order) (e : Z) : Prop :=
  match o with
  | OAll => True
  | OInt i => 0 <= i < e
  | OList l => NoDup l /\ Forall (fun c => 0 <= c < e) l
  end.
Definition orders_ok (orders : list order) (hs : list Z) : Prop := Forall2 order_ok orders hs.

(* NumPy: a[:, o1, o2, ...] selects, for the new coordinates hc', the old coordinates: *)
Fixpoint unslice (orders : list order) (hc' : list Z) : list Z :=
  match orders with
  | [] => []
  | OAll :: os => match hc' with c :: t => c :: unslice os t | [] => [] end
  | OInt i :: os => i :: unslice os hc'
  | OList l :: os => match hc' with c :: t => nth (Z.to_nat c) l 0 :: unslice os t | [] => [] end
  end.

Lemma slice_hc_sound orders : forall hs hc hc', orders_ok orders hs -> in_hshape hc hs ->
  slice_hc orders hc = Some hc' -> hc = unslice orders hc' /\ in_hshape hc' (slice_shape orders hs).
Proof.
  induction orders as [|o os IH]; intros hs hc hc' OK H E.
  - inversion OK; subst. inversion H; subst. cbn in E. inversion E; subst. cbn. split; [reflexivity|constructor].
  - inversion OK as [|? e ? hs0 Ho OK']; subst. inversion H as [|c ? t ? Hc Ht]; subst.
    cbn [slice_hc] in E. cbn [slice_shape unslice]. destruct o as [|i|l].
    + destruct (slice_hc os t) as [t'|] eqn:E'; [|discriminate]. cbn [option_map] in E. inversion E; subst.
      destruct (IH _ _ _ OK' Ht E') as [A B]. split; [f_equal; exact A|constructor; assumption].
    + destruct (Z.eqb_spec c i) as [->|N]; [|discriminate].
      destruct (IH _ _ _ OK' Ht E) as [A B]. split; [f_equal; exact A|exact B].
    + destruct (index_of c l) as [k|] eqn:Ek; [|discriminate].
      destruct (slice_hc os t) as [t'|] eqn:E'; [|discriminate]. cbn [option_map] in E. inversion E; subst.
      destruct (IH _ _ _ OK' Ht E') as [A B]. destruct (index_of_some _ _ _ Ek) as [R Hn].
      split; [f_equal; [symmetry; exact Hn|exact A]|constructor; assumption].
Qed.

Lemma slice_hc_complete orders : forall hs hc', orders_ok orders hs ->
  in_hshape hc' (slice_shape orders hs) ->
  slice_hc orders (unslice orders hc') = Some hc' /\ in_hshape (unslice orders hc') hs.
Proof.
  induction orders as [|o os IH]; intros hs hc' OK H.
  - inversion OK; subst. cbn in H. inversion H; subst. cbn. split; [reflexivity|constructor].
  - inversion OK as [|? e ? hs0 Ho OK']; subst. cbn [slice_shape] in H. cbn [unslice]. destruct o as [|i|l].
    + inversion H as [|c ? t ? Hc Ht]; subst. destruct (IH _ _ OK' Ht) as [A B]. cbn [slice_hc]. rewrite A.
      split; [reflexivity|constructor; assumption].
    + destruct (IH _ _ OK' H) as [A B]. cbn [slice_hc]. rewrite Z.eqb_refl.
      split; [exact A|constructor; [exact Ho|exact B]].
    + inversion H as [|c ? t ? Hc Ht]; subst. destruct (IH _ _ OK' Ht) as [A B]. destruct Ho as [ND Fa].
      cbn [slice_hc]. rewrite (index_of_nth l ND c Hc), A. split; [reflexivity|].
      constructor; [|exact B]. rewrite Forall_forall in Fa. apply Fa. apply nth_In. lia.
Qed.

Lemma slice_shape_nonneg orders : forall hs, Forall (fun e => 0 <= e) hs ->
  Forall (fun e => 0 <= e) (slice_shape orders hs).
Proof.
  induction orders as [|o os IH]; intros hs H; [destruct hs; constructor|].
  destruct hs as [|e hs]; [constructor|]. inversion H; subst. cbn [slice_shape].
  destruct o; [constructor; auto|auto|constructor; [lia|auto]].
Qed.

Definition sliced_idx (idx : iindex) (orders : list order) : iindex :=
  {| entries := dict_of (rekey (slice_key orders) (entries idx));
     common := common idx; nrows := nrows idx; hshape := slice_shape orders (hshape idx) |}.

Lemma orders_ok_length orders hs : orders_ok orders hs -> length orders = length hs.
Proof. intros H. induction H; cbn [length]; congruence. Qed.

Lemma sliced_ok idx orders : orders_ok orders (hshape idx) ->
  sliced idx orders = Ok (match orders with [] => idx | _ => sliced_idx idx orders end).
Proof.
  intros OK. unfold sliced. destruct orders as [|o os]; [reflexivity|].
  assert (L : length (o :: os) = length (hshape idx)) by (apply orders_ok_length; exact OK).
  rewrite L. rewrite Nat.ltb_irrefl. reflexivity.
Qed.

Lemma slice_key_hyp idx orders : WF idx -> orders_ok orders (hshape idx) ->
  forall k k', In k (keys (entries idx)) -> slice_key orders k = Some k' ->
  fst k' = fst k /\ snd k = unslice orders (snd k') /\ in_hshape (snd k') (slice_shape orders (hshape idx)).
Proof.
  intros W OK k k' Hin E. unfold slice_key in E. destruct (slice_hc orders (snd k)) as [hc'|] eqn:E'; [|discriminate].
  cbn [option_map] in E. inversion E; subst. cbn [fst snd].
  unfold keys in Hin. apply in_map_iff in Hin. destruct Hin as [[k0 rows] [<- Hin]]. cbn [fst].
  pose proof (wf_hc idx W _ _ Hin) as Hhc.
  destruct (slice_hc_sound _ _ _ _ OK Hhc E') as [A B]. auto.
Qed.

(* the NumPy result has the sliced shape, is well-formed, and holds column selection in the
   requested order *)
Theorem sliced_shape idx orders out : orders_ok orders (hshape idx) -> sliced idx orders = Ok out ->
  nrows out = nrows idx /\ hshape out = slice_shape orders (hshape idx) /\ common out = common idx.
Proof.
  intros OK E. rewrite (sliced_ok idx orders OK) in E. inversion E; subst. destruct orders; [|cbn; auto].
  assert (Hs : hshape idx = []) by (inversion OK; auto). rewrite Hs. cbn. auto.
Qed.

Theorem sliced_wf idx orders out : WF idx -> orders_ok orders (hshape idx) ->
  sliced idx orders = Ok out -> WF out.
Proof.
  intros W OK E. rewrite (sliced_ok idx orders OK) in E. inversion E; subst. destruct orders as [|o os]; [exact W|].
  apply (rekeyed_wf (slice_key (o :: os)) (unslice (o :: os)) idx _ W).
  - apply slice_shape_nonneg. apply (wf_hshape idx W).
  - apply slice_key_hyp; assumption.
Qed.

Theorem sliced_dense idx orders out r hc' : WF idx -> orders_ok orders (hshape idx) ->
  sliced idx orders = Ok out -> in_range out r hc' ->
  dense out r hc' = dense idx r (unslice orders hc').
Proof.
  intros W OK E R. rewrite (sliced_ok idx orders OK) in E. inversion E; subst. destruct orders as [|o os].
  - assert (Hs : hshape idx = []) by (inversion OK; auto). destruct R as [_ R]. rewrite Hs in R. inversion R; subst. reflexivity.
  - destruct R as [_ R]. cbn [hshape sliced_idx] in R.
    apply (rekeyed_dense (slice_key (o :: os)) (unslice (o :: os)) idx _ W).
    + apply slice_shape_nonneg. apply (wf_hshape idx W).
    + apply slice_key_hyp; assumption.
    + intros v _. unfold slice_key. cbn [fst snd].
      destruct (slice_hc_complete _ _ _ OK R) as [A _]. rewrite A. reflexivity.
Qed.

(* the selected old coordinates are inside the old shape (so the right-hand side above is a cell
   of the source array) *)
Theorem sliced_unslice_in_range idx orders out r hc' : orders_ok orders (hshape idx) ->
  sliced idx orders = Ok out -> in_range out r hc' -> in_range idx r (unslice orders hc').
Proof.
  intros OK E R. destruct (sliced_shape idx orders out OK E) as (A & B & _).
  destruct R as [R1 R2]. rewrite A in R1. rewrite B in R2. split; [exact R1|].
  apply (slice_hc_complete _ _ _ OK R2).
Qed.

(* arity errors, as in the code *)
Theorem sliced_too_many idx orders : (length (hshape idx) < length orders)%nat -> sliced idx orders = Err ETypeError.
Proof.
  intros H. unfold sliced. destruct orders as [|o os]; [cbn in H; lia|].
  apply Nat.ltb_lt in H. rewrite H. reflexivity.
Qed.

(* ------------------------------------------------------------------ slices1d *)
Lemma in_hshape_app hc hs c e : in_hshape hc hs -> 0 <= c < e -> in_hshape (hc ++ [c]) (hs ++ [e]).
Proof. intros H Hc. unfold in_hshape. apply Forall2_app; [exact H|constructor; [exact Hc|constructor]]. Qed.

Lemma in_hshape_snoc_inv hc hs e : in_hshape hc (hs ++ [e]) ->
  exists hc0 c, hc = hc0 ++ [c] /\ in_hshape hc0 hs /\ 0 <= c < e.
Proof.
  intros H. unfold in_hshape in H. apply Forall2_app_inv_r in H.
  destruct H as (hc0 & t & H0 & Ht & ->). inversion Ht as [|c ? t' ? Hc Hn]; subst. inversion Hn; subst.
  exists hc0, c. auto.
Qed.

Lemma last_snoc (l : list Z) c d : last (l ++ [c]) d = c.
Proof. apply last_last. Qed.

Lemma snoc_cases (l : list Z) : l = [] \/ exists l0 c, l = l0 ++ [c].
Proof.
  destruct l as [|x l]; [left; reflexivity|right].
  destruct (@exists_last Z (x :: l)) as (l0 & c & E); [discriminate|]. exists l0, c. exact E.
Qed.

Lemma bucket_hyp idx hs0 e c : WF idx -> hshape idx = hs0 ++ [e] ->
  forall k k', In k (keys (entries idx)) -> bucket_key c k = Some k' ->
  fst k' = fst k /\ snd k = (fun h => h ++ [c]) (snd k') /\ in_hshape (snd k') hs0.
Proof.
  intros W Hs k k' Hin E. unfold keys in Hin. apply in_map_iff in Hin. destruct Hin as [[k0 rows] [<- Hin]]. cbn [fst] in *.
  pose proof (wf_hc idx W _ _ Hin) as Hhc. rewrite Hs in Hhc.
  destruct (in_hshape_snoc_inv _ _ _ Hhc) as (hc0 & c0 & E0 & H0 & Hc0).
  unfold bucket_key in E. rewrite E0, last_snoc, removelast_last in E.
  destruct (Z.eqb_spec c0 c) as [Ec|N]; [|discriminate]. inversion E; subst k'. cbn [fst snd]. rewrite E0, Ec. auto.
Qed.

Lemma removelast_snoc (l : list Z) c : removelast (l ++ [c]) = l.
Proof. apply removelast_last. Qed.

Lemma bucket_wf idx hs0 e c : WF idx -> hshape idx = hs0 ++ [e] -> WF (bucket idx c).
Proof.
  intros W Hs. unfold bucket. rewrite Hs, removelast_snoc.
  apply (rekeyed_wf (bucket_key c) (fun h => h ++ [c]) idx hs0 W).
  - pose proof (wf_hshape idx W) as H. rewrite Hs in H. apply Forall_app in H. tauto.
  - eapply bucket_hyp; eassumption.
Qed.

Lemma bucket_dense idx hs0 e c r hc0 : WF idx -> hshape idx = hs0 ++ [e] ->
  dense (bucket idx c) r hc0 = dense idx r (hc0 ++ [c]).
Proof.
  intros W Hs. unfold bucket. rewrite Hs, removelast_snoc.
  apply (rekeyed_dense (bucket_key c) (fun h => h ++ [c]) idx hs0 W).
  - pose proof (wf_hshape idx W) as H. rewrite Hs in H. apply Forall_app in H. tauto.
  - eapply bucket_hyp; eassumption.
  - intros v _. unfold bucket_key. cbn [fst snd]. rewrite last_snoc, Z.eqb_refl, removelast_snoc. reflexivity.
Qed.

(* what one yielded pair must satisfy *)
Definition slice_of (idx : iindex) (lbl : list Z) (s : iindex) : Prop :=
  hshape s = [] /\ nrows s = nrows idx /\ common s = common idx /\ WF s /\
  forall r, dense s r [] = dense idx r lbl.

Lemma map_fst_flat_map {A B C : Type} (f : A -> list (B * C)) l :
  map fst (flat_map f l) = flat_map (fun x => map fst (f x)) l.
Proof. induction l as [|x l IH]; cbn [flat_map map]; [reflexivity|]. rewrite map_app, IH. reflexivity. Qed.

Lemma nodup_flat_map {A B : Type} (f : A -> list B) l :
  NoDup l -> (forall x, In x l -> NoDup (f x)) ->
  (forall x y z, In x l -> In y l -> In z (f x) -> In z (f y) -> x = y) ->
  NoDup (flat_map f l).
Proof.
  induction l as [|a l IH]; intros ND H1 H2; cbn [flat_map]; [constructor|].
  inversion ND as [|? ? Ha ND']; subst.
  assert (IH' : NoDup (flat_map f l)).
  { apply IH; [exact ND'|intros; apply H1; right; assumption|]. intros x y z Hx Hy. apply H2; right; assumption. }
  assert (Hd : forall z, In z (f a) -> ~ In z (flat_map f l)).
  { intros z Hz C. apply in_flat_map in C. destruct C as [y [Hy Hzy]].
    assert (a = y) by (eapply H2; [left; reflexivity|right; exact Hy|exact Hz|exact Hzy]). subst. contradiction. }
  specialize (H1 a (or_introl eq_refl)). revert H1 Hd. generalize (f a) as fa. intros fa. induction fa as [|b fa IHf]; intros N Hd.
  - exact IH'.
  - inversion N; subst. cbn [app]. constructor.
    + intros C. apply in_app_or in C. destruct C as [C|C]; [contradiction|]. apply (Hd b); [left; reflexivity|exact C].
    + apply IHf; [assumption|]. intros z Hz. apply Hd. right. exact Hz.
Qed.

Lemma slices1d_aux_spec : forall n idx base, WF idx -> length (hshape idx) = n ->
  (forall lbl s, In (lbl, s) (slices1d_aux n base idx) ->
     exists hc, lbl = hc ++ base /\ in_hshape hc (hshape idx) /\ slice_of idx hc s)
  /\ (forall hc, in_hshape hc (hshape idx) -> In (hc ++ base) (map fst (slices1d_aux n base idx)))
  /\ NoDup (map fst (slices1d_aux n base idx)).
Proof.
  induction n as [|n IH]; intros idx base W Hn.
  - destruct (hshape idx) as [|? ?] eqn:Hs; [|discriminate]. cbn [slices1d_aux]. repeat split.
    + intros lbl s [E|[]]. inversion E; subst. exists []. split; [reflexivity|]. split; [constructor|].
      unfold slice_of. rewrite Hs. auto.
    + intros hc H. inversion H; subst. left. reflexivity.
    + cbn. constructor; [tauto|constructor].
  - destruct (snoc_cases (hshape idx)) as [E|(hs0 & e & Hs)]; [rewrite E in Hn; discriminate|].
    assert (Hl0 : length hs0 = n) by (rewrite Hs, app_length in Hn; cbn in Hn; lia).
    cbn [slices1d_aux]. rewrite Hs, last_snoc.
    assert (Hb : forall c, WF (bucket idx c) /\ length (hshape (bucket idx c)) = n /\ hshape (bucket idx c) = hs0).
    { intros c. split; [eapply bucket_wf; eassumption|]. unfold bucket. cbn [hshape]. rewrite Hs, removelast_snoc. auto. }
    split; [|split].
    + intros lbl s Hin. apply in_flat_map in Hin. destruct Hin as [c [Hc Hin]]. apply in_zrange in Hc.
      destruct (Hb c) as (Wb & Lb & Sb). destruct (IH (bucket idx c) (c :: base) Wb Lb) as (A & _ & _).
      destruct (A lbl s Hin) as (hc0 & El & Hh & Hsl). rewrite Sb in Hh.
      exists (hc0 ++ [c]). split; [rewrite <- app_assoc; exact El|]. split; [apply in_hshape_app; assumption|].
      destruct Hsl as (S1 & S2 & S3 & S4 & S5). unfold slice_of.
      split; [exact S1|]. split; [exact S2|]. split; [exact S3|]. split; [exact S4|]. intros r. rewrite S5. eapply bucket_dense; eassumption.
    + intros hc H. destruct (in_hshape_snoc_inv _ _ _ H) as (hc0 & c & -> & H0 & Hc).
      rewrite map_fst_flat_map. apply in_flat_map. exists c. split; [apply in_zrange; exact Hc|].
      destruct (Hb c) as (Wb & Lb & Sb). destruct (IH (bucket idx c) (c :: base) Wb Lb) as (_ & B & _).
      rewrite <- app_assoc. cbn [app]. apply B. rewrite Sb. exact H0.
    + rewrite map_fst_flat_map. apply nodup_flat_map.
      * apply nodup_zrange.
      * intros c _. destruct (Hb c) as (Wb & Lb & Sb). apply (IH (bucket idx c) (c :: base) Wb Lb).
      * intros c1 c2 lbl _ _ H1 H2. apply in_map_iff in H1, H2.
        destruct H1 as [[l1 s1] [E1 H1]], H2 as [[l2 s2] [E2 H2]]. cbn [fst] in E1, E2. subst l1 l2.
        destruct (Hb c1) as (Wb1 & Lb1 & Sb1). destruct (Hb c2) as (Wb2 & Lb2 & Sb2).
        destruct (IH (bucket idx c1) (c1 :: base) Wb1 Lb1) as (A1 & _ & _).
        destruct (IH (bucket idx c2) (c2 :: base) Wb2 Lb2) as (A2 & _ & _).
        destruct (A1 _ _ H1) as (h1 & E1 & I1 & _). destruct (A2 _ _ H2) as (h2 & E2 & I2 & _).
        rewrite E1 in E2. change (h1 ++ c1 :: base) with (h1 ++ [c1] ++ base) in E2.
        change (h2 ++ c2 :: base) with (h2 ++ [c2] ++ base) in E2. rewrite !app_assoc in E2.
        apply app_inv_tail in E2. apply app_inj_tail in E2. tauto.
Qed.

(* C06/C13: 1-D slice iteration yields exactly one pair per higher-coordinate tuple, labelled with
   its own coordinates in axis order; each slice is a well-formed 1-D index with the source's row
   count and common value whose dense content is that column *)
Theorem slices1d_spec idx : WF idx ->
  NoDup (map fst (slices1d idx))
  /\ (forall hc, In hc (map fst (slices1d idx)) <-> in_hshape hc (hshape idx))
  /\ (forall lbl s, In (lbl, s) (slices1d idx) -> slice_of idx lbl s).
Proof.
  intros W. destruct (slices1d_aux_spec (length (hshape idx)) idx [] W eq_refl) as (A & B & C).
  fold (slices1d idx) in A, B, C. split; [exact C|]. split.
  - intros hc. split.
    + intros H. apply in_map_iff in H. destruct H as [[lbl s] [<- H]]. destruct (A _ _ H) as (hc0 & E & I & _).
      cbn [fst]. rewrite E, app_nil_r. exact I.
    + intros H. specialize (B hc H). rewrite app_nil_r in B. exact B.
  - intros lbl s H. destruct (A _ _ H) as (hc0 & E & _ & S). rewrite app_nil_r in E. subst. exact S.
Qed.
