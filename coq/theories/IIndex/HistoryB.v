(* IIndex/HistoryB.v - boolean twin of [hist_ok] (HistorySpec.v): evaluates, along the model run, whether
   every step's arguments lie inside the hypotheses of the C06/C07 theorems.  [hist_ok_b_sound] makes it
   usable for non-vacuity Examples (a concrete history satisfies hist_ok) and for a checker that wants to
   assert that a generated history is inside the theorems' quantifier. *)
From Coq Require Import ZArith List Bool Lia.
From Catii Require Import Base.Sorted IIndex.Model IIndex.ModelFacts IIndex.Res IIndex.OpsB IIndex.OpsA IIndex.Step
  IIndex.OpsAProofs_Append IIndex.OpsAProofs_Update IIndex.OpsAProofs_FilteredAuto IIndex.ArgsOkB
  IIndex.OpsBProofs_sliced IIndex.OpsBProofs_stack IIndex.OpsBProofs_collapsed IIndex.HistorySpec.
Import ListNotations.
Open Scope Z_scope.

Definition collapse_ok_b (idx : iindex) (prec : list Z) : bool :=
  match hshape idx with [n] => n <? 2 ^ 64 | _ => false end
  && match prec with
     | [] => false
     | p0 :: _ => let mn := zmin_list p0 prec in let mx := zmax_list p0 prec in
                  (- 2 ^ 63 <=? mn) && (mx <? 2 ^ 64) && (negb (mn <? 0) || (mx <? 2 ^ 63))
     end.
Lemma collapse_ok_b_sound idx prec : collapse_ok_b idx prec = true -> collapse_ok idx prec.
Proof.
  unfold collapse_ok_b, collapse_ok. rewrite !andb_true_iff. intros [H1 H3]. split.
  - destruct (hshape idx) as [|n [|? ?]]; try discriminate. exists n. apply Z.ltb_lt in H1. auto.
  - destruct prec as [|p0 t]; [discriminate|]. cbv zeta in H3. rewrite !andb_true_iff, orb_true_iff, negb_true_iff in H3.
    destruct H3 as [[A B] C]. apply Z.leb_le in A. apply Z.ltb_lt in B. unfold int_range. split; [exact A|]. split; [exact B|].
    intros Hn. destruct C as [C|C]; [apply Z.ltb_ge in C; lia|apply Z.ltb_lt in C; exact C].
Qed.

Definition args_ok_b (idx : iindex) (o : op) : bool :=
  match o with
  | OShiftAuto | OShift _ | OCopy | OReindexed _ _ => true
  | OAppend other => wf_b other && zl_eqb (hshape other) (hshape idx) && (nrows idx + nrows other <=? 2 ^ 32)
  | OUpdate upd => upd_ok_b idx upd
  | OUnion other => other_ok_b idx other
  | OInter other | ODiff other => nodup_keys_b (keys other)
  | OSetIf k v => set_if_ok_b idx k v
  | OFiltered mask => Z.of_nat (length mask) =? nrows idx
  | OCollapsed prec _ => collapse_ok_b idx prec
  | OSliced orders => is_nil orders || orders_ok_b orders (hshape idx)
  | OColumnStack pre post _ => cs_args_ok_b (pre ++ idx :: post)
  | OGetForce _ | OItemsForce | OToDictForce | OCommonRowids _ | OSlices1d => true
  end.

Lemma args_ok_b_sound idx o : args_ok_b idx o = true -> args_ok idx o.
Proof.
  destruct o; cbn [args_ok_b args_ok]; intros H; try exact I.
  - rewrite !andb_true_iff in H. destruct H as [[H1 H2] H3]. split; [apply wf_b_spec; exact H1|].
    split; [apply zl_eqb_eq; exact H2|apply Z.leb_le; exact H3].
  - apply upd_ok_b_sound. exact H.
  - apply other_ok_b_sound. exact H.
  - apply nodup_keys_b_spec. exact H.
  - apply nodup_keys_b_spec. exact H.
  - apply set_if_ok_b_sound. exact H.
  - apply Z.eqb_eq. exact H.
  - apply collapse_ok_b_sound. exact H.
  - apply orb_true_iff in H. destruct H as [H|H]; [left; destruct orders; [reflexivity|discriminate]|right; apply orders_ok_b_sound; exact H].
  - apply cs_args_ok_b_sound. exact H.
Qed.

Fixpoint hist_ok_b (idx : iindex) (ops : list op) : bool :=
  match ops with
  | [] => true
  | o :: ops' => args_ok_b idx o && match step idx o with Ok idx' => hist_ok_b idx' ops' | Err _ => false end
  end.

Lemma hist_ok_b_sound : forall ops idx, hist_ok_b idx ops = true -> hist_ok idx ops.
Proof.
  induction ops as [|o ops IH]; intros idx H; cbn [hist_ok_b hist_ok] in *; [exact I|].
  apply andb_true_iff in H. destruct H as [H1 H2]. split; [apply args_ok_b_sound; exact H1|].
  intros idx' E. rewrite E in H2. apply IH. exact H2.
Qed.
