(* IIndex/HistorySpec.v - the NumPy side of EVERY step of a history, the argument conditions of every
   operation, and the specification run.  DEFINITIONS ONLY (proofs: History.v).

   [spec_step c d o] is what NumPy does to the dense array d for the operation o.  The parameter c is
   the receiver's common value (the public attribute idx.common); it is consulted only where the
   meaning of the operation on the dense array depends on it by definition:
     intersection_update / difference_update / set_if  (cells whose row id is removed fall back to c),
     reindexed()  with the DEFAULT mapping  (the k-th smallest value other than c goes to k-1).
   For every other operation spec_step ignores c ([common_free]).  *)
From Coq Require Import ZArith List Bool.
From Catii Require Import Base.Sorted IIndex.Model IIndex.ModelFacts IIndex.Res IIndex.OpsB IIndex.OpsA IIndex.Step
  IIndex.OpsAProofs_Append IIndex.OpsAProofs_Update IIndex.OpsAProofs_FilteredAuto IIndex.ArgsOkB
  IIndex.OpsBProofs_sliced IIndex.OpsBProofs_stack IIndex.OpsBProofs_collapsed.
Import ListNotations.
Open Scope Z_scope.

(* ---- argument conditions: the quantifier of C06/C07 ---- *)
Definition args_ok (idx : iindex) (o : op) : Prop :=
  match o with
  | OShiftAuto | OShift _ | OCopy | OReindexed _ _ => True
  | OAppend other => WF other /\ append_ok idx other
  | OUpdate upd => upd_ok idx upd
  | OUnion other => other_ok idx other
  | OInter other | ODiff other => NoDup (keys other)
  | OSetIf k v => set_if_ok idx k v
  | OFiltered mask => filtered_ok idx mask
  | OCollapsed prec _ => collapse_ok idx prec
  | OSliced orders => orders = [] \/ orders_ok orders (hshape idx)     (* sliced() without arguments returns self *)
  | OColumnStack pre post _ => cs_args_ok (pre ++ idx :: post)
  | OGetForce _ | OItemsForce | OToDictForce | OCommonRowids _ | OSlices1d => True
  end.

(* every step of the history has admissible arguments for the state it is applied to *)
Fixpoint hist_ok (idx : iindex) (ops : list op) : Prop :=
  match ops with
  | [] => True
  | o :: ops' => args_ok idx o /\ forall idx', step idx o = Ok idx' -> hist_ok idx' ops'
  end.

(* ---- NumPy-level specifications not yet in Step.v ---- *)
Definition spec_inter (c : Z) (a : darr) (other : list entry) : darr :=
  {| dn := dn a; dhs := dhs a;
     df := fun r hc => if memZ r (rows_at (df a r hc, hc) other) then df a r hc else c |}.
Definition spec_diff (c : Z) (a : darr) (other : list entry) : darr :=
  {| dn := dn a; dhs := dhs a;
     df := fun r hc => if memZ r (rows_at (df a r hc, hc) other) then c else df a r hc |}.
Definition spec_set_if (c : Z) (a : darr) (k : key) (v : list Z) : darr :=
  {| dn := dn a; dhs := dhs a;
     df := fun r hc => if zl_eqb hc (snd k)
                       then (if memZ r v then fst k else if df a r hc =? fst k then c else df a r hc)
                       else df a r hc |}.
(* numpy.vectorize(f)(a) *)
Definition spec_map (f : Z -> Z) (a : darr) : darr :=
  {| dn := dn a; dhs := dhs a; df := fun r hc => f (df a r hc) |}.
(* the default mapping of reindexed(), computed from the array: sorted distinct values other than c *)
Definition d_cells (a : darr) : list (Z * list Z) :=
  flat_map (fun r => map (fun hc => (r, hc)) (all_hcs (dhs a))) (zrange (dn a)).
Definition d_values (c : Z) (a : darr) : list Z :=
  sort_uniq (filter (fun v => negb (v =? c)) (map (fun cell => df a (fst cell) (snd cell)) (d_cells a))).
Definition d_default_fun (c : Z) (a : darr) : Z -> Z :=
  let vals := d_values c a in map_get (combine vals (zrange (Z.of_nat (length vals)))).
Definition spec_fun (c : Z) (a : darr) (m : option (list (Z * Z))) : Z -> Z :=
  match m with Some m => map_get m | None => d_default_fun c a end.
(* per row: the first listed value present among the (mapped) values of the row, else the last listed *)
Definition spec_collapsed (a : darr) (prec : list Z) (f : Z -> Z) : darr :=
  {| dn := dn a; dhs := [];
     df := fun r _ => spec_collapse prec (map (fun hc => f (df a r hc)) (all_hcs (dhs a))) |}.
(* a[:, o1, o2, ...] *)
Definition spec_sliced (a : darr) (orders : list order) : darr :=
  match orders with
  | [] => a
  | _ => {| dn := dn a; dhs := slice_shape orders (dhs a); df := fun r hc' => df a r (unslice orders hc') |}
  end.
(* numpy.column_stack: walk the inputs, subtracting widths *)
Definition d_width (d : darr) : Z := match dhs d with [] => 1 | n :: _ => n end.
Definition d_col (d : darr) (c : Z) : list Z := match dhs d with [] => [] | _ => [c] end.
Fixpoint cs_lookup (ds : list darr) (r c : Z) : Z :=
  match ds with
  | [] => 0
  | d :: ds' => if c <? d_width d then df d r (d_col d c) else cs_lookup ds' r (c - d_width d)
  end.
Fixpoint d_off (ds : list darr) : Z := match ds with [] => 0 | d :: ds' => d_width d + d_off ds' end.
Definition spec_column_stack (ds : list darr) : darr :=
  {| dn := match ds with [] => 0 | d :: _ => dn d end; dhs := [d_off ds];
     df := fun r hc => cs_lookup ds r (hd 0 hc) |}.

Definition spec_step (c : Z) (d : darr) (o : op) : darr :=
  match o with
  | OShiftAuto | OShift _ | OCopy => d                     (* changing the common value / copying changes nothing *)
  | OAppend other => spec_append d (darr_of other)         (* numpy.concatenate *)
  | OUpdate upd => spec_update d upd                       (* a[rowids, col] = value *)
  | OUnion other => spec_update d other
  | OInter other => spec_inter c d other
  | ODiff other => spec_diff c d other
  | OSetIf k v => spec_set_if c d k v
  | OFiltered mask => spec_filtered d mask                 (* a[mask] *)
  | OReindexed m _ => spec_map (spec_fun c d m) d
  | OCollapsed prec m => spec_collapsed d prec (map_fun m)
  | OSliced orders => spec_sliced d orders
  | OColumnStack pre post _ => spec_column_stack (map darr_of pre ++ d :: map darr_of post)
  | OGetForce _ | OItemsForce | OToDictForce | OCommonRowids _ | OSlices1d => d
  end.

Definition common_free (o : op) : bool :=
  match o with
  | OInter _ | ODiff _ | OSetIf _ _ | OReindexed None _ => false
  | _ => true
  end.

(* the NumPy side of a history; the model is walked alongside ONLY to read the common value *)
Fixpoint spec_run (idx : iindex) (d : darr) (ops : list op) : darr :=
  match ops with
  | [] => d
  | o :: ops' => match step idx o with
                 | Ok idx' => spec_run idx' (spec_step (common idx) d o) ops'
                 | Err _ => d
                 end
  end.
