(* Model of iindex.to_array (src/catii/iindexes.py:249-295).  DEFINITIONS ONLY.

   output = numpy.full(shape, fill, dtype); then, for every entry in dict order,
   output[rowids, col] = value (2-D) or output[rowids] = value (1-D).
   - no mapping (None or an empty dict - the code tests `if not mapping`): fill = common, value =
     coords[0]; default dtype = fit_dtype(max, min) over the entry values and the common value;
   - mapping m: fill = m.get(common, 0), value = m[coords[0]] (KeyError when missing); default dtype
     = fit_dtype(max, min) over ALL values of m.
   NumPy 2 refuses a Python int outside the range of the target integer dtype with OverflowError,
   in numpy.full as well as in item assignment (also when the selection is empty): modelled by the
   explicit [fits] tests.  Dtypes: the eight NumPy integer dtypes of Dtype/FitSpec.v.
   The array is mutated cell by cell ([set_cell]); the last writer of a cell wins - [dense] of
   Model.v takes the FIRST covering entry; the theorems show they agree on well-formed indexes.

   Outside the model (the theorems assume WF, the correspondence feeds results of from_array):
   NumPy's wrap-around of negative indices, 3-D and higher shapes, non-integer dtypes. *)
From Coq Require Import ZArith List Bool.
From Catii Require Import Base.Sorted IIndex.Res IIndex.Model IIndex.FromArray Dtype.FitSpec Dtype.FitHand.
Import ListNotations.
Open Scope Z_scope.

Definition fits (d : dtype) (v : Z) : bool := containsb d v v.

Fixpoint upd {A : Type} (l : list A) (n : nat) (x : A) : list A :=
  match l, n with
  | [], _ => []
  | _ :: t, O => x :: t
  | y :: t, S n' => y :: upd t n' x
  end.
Definition set_cell (out : list (list Z)) (r j : nat) (v : Z) : list (list Z) :=
  upd out r (upd (nth r out []) j v).

(* position of the higher coordinates among the cells of a row (1-D: the only cell; 2-D: the column) *)
Definition col_index (hs hc : list Z) : option nat :=
  match hs, hc with
  | [], [] => Some 0%nat
  | [c], [j] => if (0 <=? j) && (j <? c) then Some (Z.to_nat j) else None
  | _, _ => None
  end.

Fixpoint scatter_rows (out : list (list Z)) (n : Z) (j : nat) (v : Z) (rows : list Z) : res (list (list Z)) :=
  match rows with
  | [] => Ok out
  | r :: t =>
      if (0 <=? r) && (r <? n) then scatter_rows (set_cell out (Z.to_nat r) j v) n j v t
      else Err EIndexError
  end.

(* `if not mapping`: None and {} both mean "no mapping" *)
Definition use_map (mapping : option zdict) : option zdict :=
  match mapping with Some ((_ :: _) as m) => Some m | _ => None end.

(* the value written for index value v *)
Definition out_value (um : option zdict) (v : Z) : res Z :=
  match um with
  | None => Ok v
  | Some m => match map_get m v with Some x => Ok x | None => Err EKeyError end
  end.
(* the fill value *)
Definition fill_value (um : option zdict) (cmn : Z) : Z :=
  match um with
  | None => cmn
  | Some m => match map_get m cmn with Some x => x | None => 0 end
  end.

Definition index_values (idx : iindex) : list Z :=
  map (fun e : entry => fst (fst e)) (entries idx) ++ [common idx].

Definition default_dtype (idx : iindex) (um : option zdict) : dtype :=
  let vs := match um with None => index_values idx | Some m => map snd m end in
  fit_dtype (maxl vs) (minl vs).

Fixpoint scatter_entries (um : option zdict) (d : dtype) (n : Z) (hs : list Z) (es : list entry)
  (out : list (list Z)) : res (list (list Z)) :=
  match es with
  | [] => Ok out
  | ((v, hc), rows) :: t =>
      match out_value um v with
      | Err e => Err e
      | Ok x =>
          if negb (fits d x) then Err EOverflow else
          match col_index hs hc with
          | None => Err EIndexError
          | Some j =>
              match scatter_rows out n j x rows with
              | Err e => Err e
              | Ok out' => scatter_entries um d n hs t out'
              end
          end
      end
  end.

Definition to_array_body (idx : iindex) (mapping : option zdict) (dt : option dtype) (hs : list Z)
  : res (array * dtype) :=
  let um := use_map mapping in
  let d := match dt with Some d => d | None => default_dtype idx um end in
  let fillv := fill_value um (common idx) in
  if negb (fits d fillv) then Err EOverflow else
  let out0 := repeat (repeat fillv (ncells hs)) (Z.to_nat (nrows idx)) in
  match scatter_entries um d (nrows idx) hs (entries idx) out0 with
  | Err e => Err e
  | Ok out => Ok ({| a_rows := out; a_hshape := hs |}, d)
  end.

Definition to_array (idx : iindex) (mapping : option zdict) (dt : option dtype) : res (array * dtype) :=
  match hshape idx with
  | _ :: _ :: _ => Err EOther            (* three and more dimensions: not modelled *)
  | hs => to_array_body idx mapping dt hs
  end.

(* ---- vocabulary of the theorems ---- *)
(* the total function a to_array mapping stands for: m.get(v, 0) *)
Definition tmap (um : option zdict) (v : Z) : Z :=
  match um with
  | None => v
  | Some m => match map_get m v with Some x => x | None => 0 end
  end.

Definition dense_array (idx : iindex) : array := {| a_rows := dense_rows idx; a_hshape := hshape idx |}.

(* values in the range some NumPy integer dtype can hold together *)
Definition np_int_range (mn mx : Z) : Prop := - 2 ^ 63 <= mn /\ mx < 2 ^ 64 /\ (mn < 0 -> mx < 2 ^ 63).
