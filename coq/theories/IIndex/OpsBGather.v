(* IIndex/OpsBGather.v - facts about the dict-of-lists gathering used by reindexed and collapsed,
   and about merge_rows (concatenate, sort, drop adjacent duplicates). *)
From Coq Require Import ZArith List Bool Lia.
From Catii Require Import Base.Sorted IIndex.Model IIndex.ModelFacts IIndex.Res IIndex.OpsA IIndex.OpsB IIndex.OpsBFacts.
Import ListNotations.
Open Scope Z_scope.

Section GatherFacts.
  Context {K : Type} (keqb : K -> K -> bool).
  Hypothesis keqb_eq : forall a b, keqb a b = true <-> a = b.

  Definition glists (k : K) (g : gdict) : list (list Z) :=
    match g_get keqb k g with Some ls => ls | None => [] end.

  (* gathering with an arbitrary (partial) key function *)
  Definition gstep (kf : entry -> option K) (g : gdict) (e : entry) : gdict :=
    match kf e with Some k => g_append keqb k (snd e) g | None => g end.
  Definition gather_by (kf : entry -> option K) (es : list entry) : gdict := fold_left (gstep kf) es [].

  Definition kmatch (kf : entry -> option K) (k : K) (e : entry) : bool :=
    match kf e with Some k' => keqb k' k | None => false end.

  Lemma keqb_refl a : keqb a a = true.
  Proof. apply keqb_eq. reflexivity. Qed.

  Lemma keqb_sym a b : keqb a b = keqb b a.
  Proof.
    destruct (keqb a b) eqn:E1, (keqb b a) eqn:E2; try reflexivity.
    - apply keqb_eq in E1. subst. rewrite keqb_refl in E2. discriminate.
    - apply keqb_eq in E2. subst. rewrite keqb_refl in E1. discriminate.
  Qed.

  Lemma glists_append k k0 rows g :
    glists k (g_append keqb k0 rows g) = if keqb k k0 then glists k g ++ [rows] else glists k g.
  Proof.
    unfold glists. induction g as [|[k' ls] g IH]; cbn [g_append g_get].
    - destruct (keqb k k0); reflexivity.
    - destruct (keqb k0 k') eqn:E0; cbn [g_get].
      + apply keqb_eq in E0. subst k'. destruct (keqb k k0); reflexivity.
      + destruct (keqb k k') eqn:E1; [|exact IH].
        apply keqb_eq in E1. subst k'. rewrite keqb_sym, E0. reflexivity.
  Qed.

  Lemma g_append_keys k k0 rows g :
    In k (map fst (g_append keqb k0 rows g)) <-> k = k0 \/ In k (map fst g).
  Proof.
    induction g as [|[k' ls] g IH]; cbn [g_append map fst In].
    - intuition.
    - destruct (keqb k0 k') eqn:E0; cbn [map fst In].
      + apply keqb_eq in E0. subst. intuition.
      + rewrite IH. intuition.
  Qed.

  Lemma g_append_nodup k0 rows g : NoDup (map fst g) -> NoDup (map fst (g_append keqb k0 rows g)).
  Proof.
    induction g as [|[k' ls] g IH]; intros ND; cbn [g_append map fst].
    - constructor; [tauto|constructor].
    - inversion ND as [|? ? Hk ND']; subst. destruct (keqb k0 k') eqn:E0; cbn [map fst].
      + constructor; assumption.
      + constructor; [|apply IH; exact ND']. intros C. apply g_append_keys in C. destruct C as [C|C]; [|contradiction].
        subst. rewrite keqb_refl in E0. discriminate.
  Qed.

  Lemma glists_In k ls g : NoDup (map fst g) -> In (k, ls) g -> glists k g = ls.
  Proof.
    unfold glists. induction g as [|[k' ls'] g IH]; intros ND Hin; [contradiction|].
    inversion ND as [|? ? Hk ND']; subst. cbn [g_get]. destruct Hin as [E|Hin].
    - inversion E; subst. rewrite keqb_refl. reflexivity.
    - destruct (keqb k k') eqn:E1; [|apply IH; assumption].
      apply keqb_eq in E1. subst. exfalso. apply Hk. apply in_map_iff. exists (k', ls). auto.
  Qed.

  Lemma glists_nonempty_In k g : glists k g <> [] -> In (k, glists k g) g.
  Proof.
    unfold glists. induction g as [|[k' ls'] g IH]; cbn [g_get]; [congruence|].
    destruct (keqb k k') eqn:E1.
    - apply keqb_eq in E1. subst. intros _. left. reflexivity.
    - intros H. right. apply IH. exact H.
  Qed.

  Lemma g_mem_keys k g : g_mem keqb k g = true <-> In k (map fst g).
  Proof.
    unfold g_mem. induction g as [|[k' ls'] g IH]; cbn [g_get map fst In]; [split; [discriminate|tauto]|].
    destruct (keqb k k') eqn:E1.
    - apply keqb_eq in E1. subst. intuition.
    - rewrite IH. split; [tauto|]. intros [C|C]; [|exact C]. subst. rewrite keqb_refl in E1. discriminate.
  Qed.

  Variable kf : entry -> option K.

  Lemma gather_by_snoc es e : gather_by kf (es ++ [e]) = gstep kf (gather_by kf es) e.
  Proof. unfold gather_by. rewrite fold_left_app. reflexivity. Qed.

  Lemma gather_glists es k : glists k (gather_by kf es) = map snd (filter (kmatch kf k) es).
  Proof.
    induction es as [|e es IH] using rev_ind; [reflexivity|].
    rewrite gather_by_snoc, filter_app, map_app. cbn [filter]. unfold gstep, kmatch at 2.
    destruct (kf e) as [k'|] eqn:E.
    - rewrite glists_append, IH, (keqb_sym k k'). destruct (keqb k' k); cbn [map app]; [reflexivity|].
      rewrite app_nil_r. reflexivity.
    - rewrite IH. cbn [map]. rewrite app_nil_r. reflexivity.
  Qed.

  Lemma gather_nodup es : NoDup (map fst (gather_by kf es)).
  Proof.
    induction es as [|e es IH] using rev_ind; [constructor|].
    rewrite gather_by_snoc. unfold gstep. destruct (kf e); [apply g_append_nodup; exact IH|exact IH].
  Qed.

  Lemma gather_keys es k : In k (map fst (gather_by kf es)) <-> exists e, In e es /\ kf e = Some k.
  Proof.
    induction es as [|e es IH] using rev_ind.
    - cbn. split; [tauto|intros [e [[] _]]].
    - rewrite gather_by_snoc. unfold gstep. destruct (kf e) as [k'|] eqn:E.
      + rewrite g_append_keys, IH. split.
        * intros [->|[e' [Hin E']]]; [exists e; split; [apply in_or_app; right; left; reflexivity|exact E]|].
          exists e'. split; [apply in_or_app; left; exact Hin|exact E'].
        * intros [e' [Hin E']]. apply in_app_or in Hin. destruct Hin as [Hin|[<-|[]]]; [right; eauto|left; congruence].
      + rewrite IH. split.
        * intros [e' [Hin E']]. exists e'. split; [apply in_or_app; left; exact Hin|exact E'].
        * intros [e' [Hin E']]. apply in_app_or in Hin. destruct Hin as [Hin|[<-|[]]]; [eauto|congruence].
  Qed.

  (* the entry under k holds exactly the row lists of the entries mapped to k, in dict order *)
  Lemma gather_In es k ls : In (k, ls) (gather_by kf es) ->
    ls = map snd (filter (kmatch kf k) es) /\ ls <> [].
  Proof.
    intros Hin. pose proof (glists_In k ls _ (gather_nodup es) Hin) as G. rewrite gather_glists in G. split; [congruence|].
    assert (Hk : In k (map fst (gather_by kf es))) by (apply in_map_iff; exists (k, ls); auto).
    apply gather_keys in Hk. destruct Hk as [e [He E]]. subst ls.
    assert (In (snd e) (map snd (filter (kmatch kf k) es))).
    { apply in_map. apply filter_In. split; [exact He|]. unfold kmatch. rewrite E. apply keqb_refl. }
    intros C. rewrite C in H. exact H.
  Qed.

  Lemma gather_In_conv es e k : In e es -> kf e = Some k ->
    In (k, map snd (filter (kmatch kf k) es)) (gather_by kf es).
  Proof.
    intros He E. rewrite <- gather_glists. apply glists_nonempty_In. rewrite gather_glists.
    assert (In (snd e) (map snd (filter (kmatch kf k) es))).
    { apply in_map. apply filter_In. split; [exact He|]. unfold kmatch. rewrite E. apply keqb_refl. }
    intros C. rewrite C in H. exact H.
  Qed.
End GatherFacts.

(* ------------------------------------------------------------------ merge_rows *)
Lemma in_merge_rows r ls : In r (merge_rows ls) <-> In r (concat ls).
Proof.
  unfold merge_rows. destruct ls as [|l [|l2 ls]].
  - cbn. tauto.
  - cbn [concat]. rewrite app_nil_r. tauto.
  - rewrite in_dedup_adj, in_isort. tauto.
Qed.

Lemma merge_rows_sincr ls : (forall l, In l ls -> sincr l) -> sincr (merge_rows ls).
Proof.
  intros H. unfold merge_rows. destruct ls as [|l [|l2 ls]].
  - cbn. exact I.
  - apply H. left. reflexivity.
  - apply dedup_adj_sincr. apply isort_sorted.
Qed.
