(* IIndex/OpsBProofs_stack.v - column_stack of 1-D/2-D indexes = numpy.column_stack of the dense
   inputs; shape; well-formedness; error cases. *)
From Coq Require Import ZArith List Bool Lia.
From Catii Require Import Base.Sorted IIndex.Model IIndex.ModelFacts IIndex.Res IIndex.OpsA IIndex.ShiftCommon
  IIndex.OpsB IIndex.OpsBFacts.
Import ListNotations.
Open Scope Z_scope.

Definition mkidx (es : list entry) (c n : Z) (hs : list Z) : iindex :=
  {| entries := es; common := c; nrows := n; hshape := hs |}.

Lemma in_hshape_single hc e : in_hshape hc [e] -> exists c, hc = [c] /\ 0 <= c < e.
Proof. intros H. inversion H as [|c ? t ? Hc Ht]; subst. inversion Ht; subst. exists c. auto. Qed.

(* ------------------------------------------------------------------ one input added to the dict *)
Section StackStep.
  Variables (n nc off w : Z) (acc : list entry) (ii : iindex) (twod : bool).
  Let A := mkidx acc nc n [off].
  Definition colhc (c : Z) : list Z := if twod then [c] else [].
  Definition colof (k : key) : Z := if twod then hd 0 (snd k) else 0.
  Hypothesis WA : WF A.
  Hypothesis WI : WF ii.
  Hypothesis CI : common ii = nc.
  Hypothesis NI : nrows ii = n.
  Hypothesis Hw : 0 <= w.
  Hypothesis Hw1 : twod = false -> w = 1.
  Hypothesis Hcol : forall k, In k (keys (entries ii)) -> 0 <= colof k < w /\ snd k = colhc (colof k).

  Let new := rekey (cs_key twod off) (entries ii).
  Let A' := mkidx (dict_add new acc) nc n [off + w].

  Lemma cs_key_eq k : cs_key twod off k = Some (fst k, [colof k + off]).
  Proof. unfold cs_key, colof. destruct twod; [reflexivity|]. rewrite Z.add_0_l. reflexivity. Qed.

  Lemma off_nonneg : 0 <= off.
  Proof. pose proof (wf_hshape A WA) as H. cbn in H. inversion H; subst. assumption. Qed.

  Lemma acc_col k rows : In (k, rows) acc -> exists c, snd k = [c] /\ 0 <= c < off.
  Proof.
    intros Hin. pose proof (wf_hc A WA k rows Hin) as H. cbn [hshape A mkidx] in H.
    apply in_hshape_single. exact H.
  Qed.

  Lemma new_In k' rows : In (k', rows) new <->
    exists k, In (k, rows) (entries ii) /\ k' = (fst k, [colof k + off]).
  Proof.
    unfold new. rewrite In_rekey. split; intros [k [Hin E]]; exists k; (split; [exact Hin|]).
    - rewrite cs_key_eq in E. inversion E. reflexivity.
    - rewrite cs_key_eq. rewrite E. reflexivity.
  Qed.

  Lemma new_nodup : NoDup (keys new).
  Proof.
    unfold new. apply nodup_rekey; [apply (wf_keys ii WI)|].
    intros k1 k2 k' H1 H2 E1 E2. rewrite cs_key_eq in E1, E2. rewrite <- E2 in E1. inversion E1 as [[Ef Ec]].
    destruct (Hcol k1 H1) as [_ S1]. destruct (Hcol k2 H2) as [_ S2].
    assert (colof k1 = colof k2) by lia. destruct k1, k2. cbn [fst snd] in *. congruence.
  Qed.

  Lemma stack_entries : dict_add new acc = acc ++ new.
  Proof.
    apply dict_add_nodup. unfold keys. rewrite map_app. apply nodup_app; [apply (wf_keys A WA)|apply new_nodup|].
    intros k Hk Hk'. unfold keys in *. apply in_map_iff in Hk, Hk'.
    destruct Hk as [[k0 rows] [<- Hin]], Hk' as [[k1 rows'] [E Hin']]. cbn [fst] in *. subst k1.
    destruct (acc_col _ _ Hin) as [c [Sc Rc]]. apply new_In in Hin'. destruct Hin' as [k [Hk Ek]].
    destruct (Hcol k (In_key _ _ _ Hk)) as [Rk _]. rewrite Ek in Sc. cbn [snd] in Sc. inversion Sc. lia.
  Qed.

  Lemma stack_listed r hc v : listed A' r hc v <->
    listed A r hc v \/ (exists c, 0 <= c < w /\ hc = [c + off] /\ listed ii r (colhc c) v).
  Proof.
    unfold listed at 1. cbn [entries A' mkidx]. rewrite stack_entries. split.
    - intros [rows [Hin Hr]]. apply in_app_or in Hin. destruct Hin as [Hin|Hin].
      + left. exists rows. auto.
      + right. apply new_In in Hin. destruct Hin as [k [Hk Ek]]. inversion Ek; subst v hc.
        destruct (Hcol k (In_key _ _ _ Hk)) as [Rk Sk]. exists (colof k). split; [exact Rk|]. split; [reflexivity|].
        exists rows. split; [|exact Hr]. rewrite <- Sk. destruct k. exact Hk.
    - intros [[rows [Hin Hr]]|[c [Rc [-> [rows [Hin Hr]]]]]].
      + exists rows. split; [apply in_or_app; left; exact Hin|exact Hr].
      + exists rows. split; [|exact Hr]. apply in_or_app. right. apply new_In. exists (v, colhc c). split; [exact Hin|].
        cbn [fst]. f_equal. f_equal. f_equal. unfold colof, colhc. cbn [snd]. destruct twod; [reflexivity|].
        specialize (Hw1 eq_refl). lia.
  Qed.

  Lemma stack_wf : WF A'.
  Proof.
    pose proof off_nonneg as Ho.
    constructor; cbn [entries common nrows hshape A' mkidx].
    - apply (wf_nrows A WA).
    - constructor; [lia|constructor].
    - rewrite stack_entries. unfold keys. rewrite map_app. apply nodup_app; [apply (wf_keys A WA)|apply new_nodup|].
      intros k Hk Hk'. apply in_map_iff in Hk, Hk'.
      destruct Hk as [[k0 rows] [<- Hin]], Hk' as [[k1 rows'] [E Hin']]. cbn [fst] in *. subst k1.
      destruct (acc_col _ _ Hin) as [c [Sc Rc]]. apply new_In in Hin'. destruct Hin' as [k [Hk Ek]].
      destruct (Hcol k (In_key _ _ _ Hk)) as [Rk _]. rewrite Ek in Sc. cbn [snd] in Sc. inversion Sc. lia.
    - intros k rows Hin. rewrite stack_entries in Hin. apply in_app_or in Hin. destruct Hin as [Hin|Hin].
      + destruct (acc_col _ _ Hin) as [c [-> Rc]]. constructor; [lia|constructor].
      + apply new_In in Hin. destruct Hin as [k0 [Hk ->]]. cbn [snd].
        destruct (Hcol k0 (In_key _ _ _ Hk)) as [Rk _]. constructor; [lia|constructor].
    - intros k rows Hin. rewrite stack_entries in Hin. apply in_app_or in Hin. destruct Hin as [Hin|Hin].
      + apply (wf_sorted A WA k rows Hin).
      + apply new_In in Hin. destruct Hin as [k0 [Hk _]]. apply (wf_sorted ii WI k0 rows Hk).
    - intros k rows r Hin Hr. rewrite stack_entries in Hin. apply in_app_or in Hin. destruct Hin as [Hin|Hin].
      + apply (wf_rows A WA k rows r Hin Hr).
      + apply new_In in Hin. destruct Hin as [k0 [Hk _]]. rewrite <- NI. apply (wf_rows ii WI k0 rows r Hk Hr).
    - intros k rows Hin. rewrite stack_entries in Hin. apply in_app_or in Hin. destruct Hin as [Hin|Hin].
      + apply (wf_nonempty A WA k rows Hin).
      + apply new_In in Hin. destruct Hin as [k0 [Hk _]]. apply (wf_nonempty ii WI k0 rows Hk).
    - intros k rows Hin. rewrite stack_entries in Hin. apply in_app_or in Hin. destruct Hin as [Hin|Hin].
      + apply (wf_nocommon A WA k rows Hin).
      + apply new_In in Hin. destruct Hin as [k0 [Hk ->]]. cbn [fst]. rewrite <- CI. apply (wf_nocommon ii WI k0 rows Hk).
    - intros r hc v v' L1 L2. apply stack_listed in L1, L2.
      destruct L1 as [L1|[c [Rc [E L1]]]], L2 as [L2|[c' [Rc' [E' L2]]]].
      + eapply (wf_excl A WA); eassumption.
      + exfalso. destruct L1 as [rows [Hin _]]. destruct (acc_col _ _ Hin) as [c0 [Sc R0]]. cbn [snd] in Sc.
        rewrite E' in Sc. inversion Sc. lia.
      + exfalso. destruct L2 as [rows [Hin _]]. destruct (acc_col _ _ Hin) as [c0 [Sc R0]]. cbn [snd] in Sc.
        rewrite E in Sc. inversion Sc. lia.
      + rewrite E in E'. inversion E'. assert (c = c') by lia. subst c'. eapply (wf_excl ii WI); eassumption.
  Qed.

  Lemma stack_dense_old r c : c < off -> dense A' r [c] = dense A r [c].
  Proof.
    intros Hc. assert (Eq : forall v, listed A' r [c] v <-> listed A r [c] v).
    { intros v. rewrite stack_listed. split; [|auto]. intros [L|[c0 [R0 [E _]]]]; [exact L|]. inversion E. lia. }
    destruct (listed_or_not A r [c]) as [[v L]|N].
    - rewrite (dense_listed_wf A r [c] v WA L). apply dense_listed_wf; [apply stack_wf|]. apply Eq. exact L.
    - rewrite (dense_of_unlisted A r [c] N). apply (dense_of_unlisted A'). intros v L. apply Eq in L. exact (N v L).
  Qed.

  Lemma stack_dense_new r c : 0 <= c < w -> dense A' r [c + off] = dense ii r (colhc c).
  Proof.
    intros Hc. assert (Eq : forall v, listed A' r [c + off] v <-> listed ii r (colhc c) v).
    { intros v. rewrite stack_listed. split.
      - intros [[rows [Hin _]]|[c0 [R0 [E L]]]].
        + destruct (acc_col _ _ Hin) as [c0 [Sc R0]]. cbn [snd] in Sc. inversion Sc. lia.
        + inversion E. assert (c0 = c) by lia. subst c0. exact L.
      - intros L. right. exists c. auto. }
    destruct (listed_or_not ii r (colhc c)) as [[v L]|N].
    - rewrite (dense_listed_wf ii r _ v WI L). apply dense_listed_wf; [apply stack_wf|]. apply Eq. exact L.
    - rewrite (dense_of_unlisted ii r _ N), CI. apply (dense_of_unlisted A'). intros v L. apply Eq in L. exact (N v L).
  Qed.
End StackStep.

(* ------------------------------------------------------------------ the fold over the inputs *)
Definition cs_width (ii : iindex) : Z := match hshape ii with [] => 1 | ncols :: _ => ncols end.
Fixpoint cs_off (l : list iindex) : Z := match l with [] => 0 | ii :: l' => cs_width ii + cs_off l' end.
Definition cs_col (ii : iindex) (c : Z) : list Z := match hshape ii with [] => [] | _ => [c] end.

(* an admissible input: well-formed, 1-D or 2-D, with the common row count *)
Definition cs_input_ok (n : Z) (ii : iindex) : Prop :=
  WF ii /\ nrows ii = n /\ (length (hshape ii) <= 1)%nat.

Lemma cs_off_app a b : cs_off (a ++ b) = cs_off a + cs_off b.
Proof. induction a as [|x a IH]; cbn [app cs_off]; [lia|]. rewrite IH. lia. Qed.

Lemma cs_off_nonneg l : Forall (fun x => 0 <= cs_width x) l -> 0 <= cs_off l.
Proof. induction 1; cbn [cs_off]; lia. Qed.

Lemma snoc_or_inside {A : Type} (p1 : list A) x p2 pre y : p1 ++ x :: p2 = pre ++ [y] ->
  (exists p2', pre = p1 ++ x :: p2' /\ p2 = p2' ++ [y]) \/ (p1 = pre /\ x = y /\ p2 = []).
Proof.
  intros E. destruct p2 as [|z p2] using rev_ind.
  - right. change (p1 ++ [x] = pre ++ [y]) in E. apply app_inj_tail in E. tauto.
  - left. clear IHp2. exists p2. rewrite app_comm_cons, app_assoc in E. apply app_inj_tail in E. destruct E as [E1 E2].
    subst. auto.
Qed.

Record cs_inv (n nc : Z) (pre : list iindex) (st : list entry * Z) : Prop := {
  ci_off : snd st = cs_off pre;
  ci_nn : Forall (fun x => 0 <= cs_width x) pre;
  ci_wf : WF (mkidx (fst st) nc n [snd st]);
  ci_dense : forall p1 ii p2, pre = p1 ++ ii :: p2 -> forall r c, 0 <= r < n -> 0 <= c < cs_width ii ->
             dense (mkidx (fst st) nc n [snd st]) r [cs_off p1 + c] = dense ii r (cs_col ii c);
}.

Lemma cs_step_inv n nc pre st ii : cs_inv n nc pre st -> cs_input_ok n ii ->
  cs_inv n nc (pre ++ [ii]) (cs_step nc st ii).
Proof.
  intros [Io Inn Iw Id] (WI & NI & LI). destruct st as [acc off]. cbn [fst snd] in *.
  pose proof (shift_common_wf ii nc WI) as WS. pose proof (shift_common_common ii nc) as CS.
  destruct (shift_common_shape ii nc) as [NS HS].
  set (ii' := shift_common ii nc) in *.
  assert (Hnn : 0 <= cs_width ii).
  { unfold cs_width. pose proof (wf_hshape ii WI) as H. destruct (hshape ii) as [|e t]; [lia|]. inversion H; assumption. }
  (* the shape of the input decides the branch *)
  assert (Hbranch : exists twod,
     cs_step nc (acc, off) ii = (dict_add (rekey (cs_key twod off) (entries ii')) acc, off + cs_width ii)
     /\ (twod = false -> cs_width ii = 1)
     /\ (forall k, In k (keys (entries ii')) -> 0 <= colof twod k < cs_width ii /\ snd k = colhc twod (colof twod k))
     /\ (forall c, colhc twod c = cs_col ii c)).
  { unfold cs_step. fold ii'. cbn [fst snd]. rewrite HS. unfold cs_width, cs_col.
    destruct (hshape ii) as [|e [|e2 t]] eqn:Hs.
    - exists false. split; [reflexivity|]. split; [reflexivity|]. split; [|reflexivity].
      intros k Hk. unfold keys in Hk. apply in_map_iff in Hk. destruct Hk as [[k0 rows] [<- Hin]].
      apply (wf_hc ii' WS) in Hin. rewrite HS in Hin. inversion Hin. cbn [fst snd colof colhc]. split; [lia|auto].
    - exists true. split; [reflexivity|]. split; [discriminate|]. split; [|reflexivity].
      intros k Hk. unfold keys in Hk. apply in_map_iff in Hk. destruct Hk as [[k0 rows] [<- Hin]].
      apply (wf_hc ii' WS) in Hin. rewrite HS in Hin. destruct (in_hshape_single _ _ Hin) as [c [Ec Rc]].
      cbn [fst snd colof colhc]. rewrite Ec. cbn [hd]. split; [exact Rc|reflexivity].
    - cbn [length] in LI. lia. }
  destruct Hbranch as (twod & Estep & Hw1 & Hcol & Hcc). rewrite Estep.
  assert (NS' : nrows ii' = n) by congruence.
  constructor; cbn [fst snd].
  - rewrite cs_off_app. cbn [cs_off]. lia.
  - apply Forall_app. split; [exact Inn|constructor; [exact Hnn|constructor]].
  - apply (stack_wf n nc off (cs_width ii) acc ii' twod Iw WS CS NS' Hnn Hw1 Hcol).
  - intros p1 jj p2 E r c Hr Hc.
    destruct (snoc_or_inside p1 jj p2 pre ii (eq_sym E)) as [(p2' & Epre & _)|(Ep1 & Ejj & _)].
    + (* an earlier input *)
      assert (Hlt : cs_off p1 + c < off).
      { rewrite Io, Epre, cs_off_app. cbn [cs_off].
        assert (0 <= cs_off p2').
        { apply cs_off_nonneg. rewrite Epre in Inn. apply Forall_app in Inn. destruct Inn as [_ Inn]. inversion Inn; assumption. }
        lia. }
      rewrite (stack_dense_old n nc off (cs_width ii) acc ii' twod Iw WS CS NS' Hnn Hw1 Hcol r _ Hlt).
      apply (Id p1 jj p2' Epre r c Hr Hc).
    + subst p1 jj. rewrite <- Io. replace (off + c) with (c + off) by lia.
      rewrite (stack_dense_new n nc off (cs_width ii) acc ii' twod Iw WS CS NS' Hnn Hw1 Hcol r c Hc).
      rewrite Hcc. unfold ii'. apply shift_common_dense; [exact WI|]. split; [lia|].
      unfold cs_col, cs_width in *. destruct (hshape ii) as [|e [|? ?]]; [constructor|constructor; [exact Hc|constructor]|cbn in LI; lia].
Qed.

Lemma cs_fold_inv n nc rest : forall pre st, cs_inv n nc pre st -> Forall (cs_input_ok n) rest ->
  cs_inv n nc (pre ++ rest) (fold_left (cs_step nc) rest st).
Proof.
  induction rest as [|a rest IH]; intros pre st I F; cbn [fold_left].
  - rewrite app_nil_r. exact I.
  - inversion F as [|? ? Fa Fr]; subst. change (pre ++ a :: rest) with (pre ++ [a] ++ rest). rewrite app_assoc.
    apply IH; [apply cs_step_inv; assumption|exact Fr].
Qed.

Lemma cs_inv_init n nc : 0 <= n <= 2 ^ 32 -> cs_inv n nc [] ([], 0).
Proof.
  intros Hn. constructor; cbn [fst snd cs_off].
  - reflexivity.
  - constructor.
  - constructor; cbn [entries common nrows hshape mkidx]; try (intros; contradiction).
    + exact Hn.
    + constructor; [lia|constructor].
    + constructor.
    + intros r hc v v' [rows [[] _]].
  - intros p1 ii p2 E. destruct p1; discriminate.
Qed.

(* ------------------------------------------------------------------ theorems *)
Definition cs_args_ok (idxs : list iindex) : Prop :=
  match idxs with [] => False | i0 :: _ => Forall (cs_input_ok (nrows i0)) idxs end.

Lemma column_stack_master idxs nc0 : cs_args_ok idxs ->
  exists out, column_stack idxs nc0 = Ok out /\
    nrows out = nrows (hd out idxs) /\ hshape out = [cs_off idxs] /\
    common out = match nc0 with Some c => c | None => match cs_auto_common idxs with Some c => c | None => 0 end end /\
    WF out /\
    forall p1 ii p2, idxs = p1 ++ ii :: p2 -> forall r c, 0 <= r < nrows out -> 0 <= c < cs_width ii ->
      dense out r [cs_off p1 + c] = dense ii r (cs_col ii c).
Proof.
  intros OK. destruct idxs as [|i0 rest]; [contradiction|]. cbn [cs_args_ok] in OK.
  set (idxs := i0 :: rest) in *.
  set (nc := match nc0 with Some c => c | None => match cs_auto_common idxs with Some c => c | None => 0 end end).
  assert (Hall : forallb (fun ii => nrows ii =? nrows i0) idxs = true).
  { apply forallb_forall. intros ii Hin. rewrite Forall_forall in OK. destruct (OK ii Hin) as (_ & E & _). apply Z.eqb_eq. exact E. }
  assert (Hn : 0 <= nrows i0 <= 2 ^ 32).
  { inversion OK as [|? ? (W0 & _ & _) _]; subst. apply (wf_nrows i0 W0). }
  pose proof (cs_fold_inv (nrows i0) nc idxs [] ([], 0) (cs_inv_init _ nc Hn) OK) as I. cbn [app] in I.
  destruct I as [Io _ Iw Id].
  eexists. split.
  - unfold column_stack. fold idxs. unfold idxs at 1. rewrite Hall. cbn [negb]. reflexivity.
  - fold nc. cbn [nrows hshape common hd idxs]. split; [reflexivity|]. split; [f_equal; exact Io|]. split; [reflexivity|].
    split; [exact Iw|]. exact Id.
Qed.

(* the result is the row count of the inputs by the sum of their widths (1 for a 1-D input) *)
Theorem column_stack_shape idxs nc0 out : cs_args_ok idxs -> column_stack idxs nc0 = Ok out ->
  nrows out = nrows (hd out idxs) /\ hshape out = [cs_off idxs] /\ (forall c, nc0 = Some c -> common out = c).
Proof.
  intros OK E. destruct (column_stack_master idxs nc0 OK) as (o & E' & A & B & C & _). rewrite E in E'. inversion E'; subst o.
  split; [exact A|]. split; [exact B|]. intros c ->. exact C.
Qed.

Theorem column_stack_total idxs nc0 : cs_args_ok idxs -> exists out, column_stack idxs nc0 = Ok out.
Proof. intros OK. destruct (column_stack_master idxs nc0 OK) as (o & E & _). eauto. Qed.

Theorem column_stack_wf idxs nc0 out : cs_args_ok idxs -> column_stack idxs nc0 = Ok out -> WF out.
Proof.
  intros OK E. destruct (column_stack_master idxs nc0 OK) as (o & E' & _ & _ & _ & W & _). rewrite E in E'. inversion E'; subst o. exact W.
Qed.

(* numpy.column_stack: the block of columns contributed by the input ii (after the inputs p1)
   holds ii's columns; a 1-D input contributes its single column *)
Theorem column_stack_dense idxs nc0 out : cs_args_ok idxs -> column_stack idxs nc0 = Ok out ->
  forall p1 ii p2, idxs = p1 ++ ii :: p2 -> forall r c, 0 <= r < nrows out -> 0 <= c < cs_width ii ->
    dense out r [cs_off p1 + c] = dense ii r (cs_col ii c).
Proof.
  intros OK E. destruct (column_stack_master idxs nc0 OK) as (o & E' & _ & _ & _ & _ & D). rewrite E in E'. inversion E'; subst o. exact D.
Qed.

(* every column of the result belongs to exactly one such block *)
Theorem column_stack_cover idxs : Forall (fun x => 0 <= cs_width x) idxs -> forall c, 0 <= c < cs_off idxs ->
  exists p1 ii p2 c0, idxs = p1 ++ ii :: p2 /\ 0 <= c0 < cs_width ii /\ c = cs_off p1 + c0.
Proof.
  induction 1 as [|x l Hx Hl IH]; intros c Hc; cbn [cs_off] in Hc; [lia|].
  destruct (Z_lt_ge_dec c (cs_width x)) as [Lt|Ge].
  - exists [], x, l, c. cbn [app cs_off]. split; [reflexivity|]. split; lia.
  - destruct (IH (c - cs_width x)) as (p1 & ii & p2 & c0 & E & R & Ec); [lia|].
    exists (x :: p1), ii, p2, c0. subst l. cbn [app cs_off]. split; [reflexivity|]. split; [exact R|lia].
Qed.

Theorem column_stack_empty nc0 : column_stack [] nc0 = Err EIndexError.
Proof. reflexivity. Qed.

Theorem column_stack_rows_differ i0 rest nc0 :
  (exists ii, In ii (i0 :: rest) /\ nrows ii <> nrows i0) -> column_stack (i0 :: rest) nc0 = Err EValueError.
Proof.
  intros [ii [Hin N]]. unfold column_stack.
  assert (forallb (fun ii => nrows ii =? nrows i0) (i0 :: rest) = false).
  { destruct (forallb _ _) eqn:E; [|reflexivity]. rewrite forallb_forall in E. specialize (E ii Hin). apply Z.eqb_eq in E. contradiction. }
  rewrite H. reflexivity.
Qed.
