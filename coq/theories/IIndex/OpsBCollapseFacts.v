(* IIndex/OpsBCollapseFacts.v - counting infrastructure for collapsed (iindexes.py:554-642):
   - what the gathered dict-of-lists holds, as counts per row ([cntr], [gsum], [ecount]);
   - the wrapping decrement of the per-row common counter is exact modulo 2^w ([arr_dec_all_spec]);
   - for a well-formed index the number of ENTRIES that contain row r and satisfy a predicate on their
     (mapped) value equals the number of CELLS of row r whose (mapped) value is not the (mapped) common
     and satisfies it ([ecount_cells]). *)
From Coq Require Import ZArith List Bool Lia Permutation.
From Catii Require Import Base.Sorted IIndex.Model IIndex.ModelFacts IIndex.Res IIndex.OpsA IIndex.OpsB
  IIndex.OpsBFacts IIndex.OpsBGather IIndex.Count.
Import ListNotations.
Open Scope Z_scope.

(* number of the lists that contain r *)
Fixpoint cntr (r : Z) (ls : list (list Z)) : Z :=
  match ls with [] => 0 | l :: ls' => (if memZ r l then 1 else 0) + cntr r ls' end.

Lemma cntr_nonneg r ls : 0 <= cntr r ls.
Proof. induction ls as [|l ls IH]; cbn [cntr]; [lia|]. destruct (memZ r l); lia. Qed.
Lemma cntr_app r a b : cntr r (a ++ b) = cntr r a + cntr r b.
Proof. induction a as [|l a IH]; cbn [cntr app]; [lia|]. rewrite IH. lia. Qed.
Lemma cntr_pos r ls : existsb (memZ r) ls = true <-> 0 < cntr r ls.
Proof.
  induction ls as [|l ls IH]; cbn [cntr existsb]; [split; [discriminate|lia]|].
  pose proof (cntr_nonneg r ls). destruct (memZ r l); cbn [orb]; [split; [lia|reflexivity]|].
  rewrite IH. split; lia.
Qed.

(* ---- the wrapping counter ---- *)
Lemma arr_dec_all_spec w r n : forall ls a K, a r = (n - K) mod 2 ^ w ->
  arr_dec_all w ls a r = (n - (K + cntr r ls)) mod 2 ^ w.
Proof.
  unfold arr_dec_all. induction ls as [|l ls IH]; intros a K H; cbn [fold_left cntr].
  - rewrite H. f_equal. lia.
  - destruct (memZ r l) eqn:E.
    + rewrite (IH _ (K + 1)); [f_equal; lia|]. unfold arr_dec. rewrite E, H, Zminus_mod_idemp_l. f_equal. lia.
    + rewrite (IH _ K); [f_equal; lia|]. unfold arr_dec. rewrite E. exact H.
Qed.

(* ---- sums over the gathered dict ---- *)
Definition gd := list (Z * list (list Z)).
Fixpoint gsum (phi : Z -> bool) (r : Z) (g : gd) : Z :=
  match g with [] => 0 | kl :: g' => (if phi (fst kl) then cntr r (snd kl) else 0) + gsum phi r g' end.

Lemma gsum_append phi r k rows (g : gd) :
  gsum phi r (g_append Z.eqb k rows g) = gsum phi r g + (if phi k then (if memZ r rows then 1 else 0) else 0).
Proof.
  induction g as [|[k' ls] g IH]; cbn [g_append gsum fst snd cntr].
  - destruct (phi k); lia.
  - destruct (Z.eqb_spec k k') as [->|N]; cbn [gsum fst snd].
    + rewrite cntr_app. cbn [cntr]. destruct (phi k'); lia.
    + rewrite IH. lia.
Qed.

Lemma lists_of_append (g : gd) k rows q :
  lists_of (g_append Z.eqb k rows g) q = if q =? k then lists_of g q ++ [rows] else lists_of g q.
Proof. unfold lists_of. exact (glists_append Z.eqb Z.eqb_eq q k rows g). Qed.

Lemma fold_dec_notin w r n prec : forall (g : gd) cc K, cc r = (n - K) mod 2 ^ w ->
  fold_left (fun cc kl => if memZ (fst kl) prec then cc else arr_dec_all w (snd kl) cc) g cc r
  = (n - (K + gsum (fun k => negb (memZ k prec)) r g)) mod 2 ^ w.
Proof.
  induction g as [|[k ls] g IH]; intros cc K H; cbn [fold_left gsum fst snd].
  - rewrite H. f_equal. lia.
  - destruct (memZ k prec); cbn [negb].
    + rewrite (IH _ K H). f_equal.
    + rewrite (IH _ (K + cntr r ls)); [f_equal; lia|]. apply arr_dec_all_spec. exact H.
Qed.

(* ---- counting entries ---- *)
Section ECount.
  Variables (f : Z -> Z) (nc : Z).
  Definition cg_step (g : gd) (e : entry) : gd :=
    let w := f (fst (fst e)) in if w =? nc then g else g_append Z.eqb w (snd e) g.
  Lemma collapse_gather_fold es : collapse_gather f nc es = fold_left cg_step es [].
  Proof. reflexivity. Qed.

  (* entries that contain r, whose mapped value is not the mapped common and satisfies phi *)
  Fixpoint ecount (phi : Z -> bool) (r : Z) (es : list entry) : Z :=
    match es with
    | [] => 0
    | e :: es' => (if negb (f (fst (fst e)) =? nc) && phi (f (fst (fst e))) && memZ r (snd e) then 1 else 0)
                  + ecount phi r es'
    end.

  Lemma ecount_nonneg phi r es : 0 <= ecount phi r es.
  Proof. induction es as [|e es IH]; cbn [ecount]; [lia|]. destruct (_ && _); lia. Qed.

  Lemma ecount_ext phi psi r es : (forall w, phi w = psi w) -> ecount phi r es = ecount psi r es.
  Proof. intros H. induction es as [|e es IH]; cbn [ecount]; [reflexivity|]. rewrite IH, H. reflexivity. Qed.

  Lemma ecount_or phi psi r es : (forall w, phi w && psi w = false) ->
    ecount phi r es + ecount psi r es = ecount (fun w => phi w || psi w) r es.
  Proof.
    intros H. induction es as [|e es IH]; cbn [ecount]; [reflexivity|]. rewrite <- IH.
    specialize (H (f (fst (fst e)))).
    destruct (negb (f (fst (fst e)) =? nc)), (phi (f (fst (fst e)))), (psi (f (fst (fst e)))), (memZ r (snd e));
      cbn [andb orb] in *; try discriminate; lia.
  Qed.

  Lemma gsum_fold phi r es : forall g, gsum phi r (fold_left cg_step es g) = gsum phi r g + ecount phi r es.
  Proof.
    induction es as [|e es IH]; intros g; cbn [fold_left ecount]; [lia|]. rewrite IH. unfold cg_step.
    destruct (f (fst (fst e)) =? nc); cbn [negb andb]; [lia|]. rewrite gsum_append.
    destruct (phi (f (fst (fst e)))); cbn [andb]; lia.
  Qed.
  Lemma gsum_gather phi r es : gsum phi r (collapse_gather f nc es) = ecount phi r es.
  Proof. rewrite collapse_gather_fold, gsum_fold. cbn [gsum]. lia. Qed.

  Lemma lists_of_fold q r es : forall g,
    cntr r (lists_of (fold_left cg_step es g) q) = cntr r (lists_of g q) + ecount (Z.eqb q) r es.
  Proof.
    induction es as [|e es IH]; intros g; cbn [fold_left ecount]; [lia|]. rewrite IH. unfold cg_step.
    destruct (f (fst (fst e)) =? nc); cbn [negb andb]; [lia|]. rewrite lists_of_append.
    destruct (q =? f (fst (fst e))); cbn [andb]; [|lia]. rewrite cntr_app. cbn [cntr]. lia.
  Qed.
  Lemma lists_of_gather q r es : cntr r (lists_of (collapse_gather f nc es) q) = ecount (Z.eqb q) r es.
  Proof. rewrite collapse_gather_fold, lists_of_fold. cbn. lia. Qed.

  Definition epred (phi : Z -> bool) (r : Z) (e : entry) : bool :=
    negb (f (fst (fst e)) =? nc) && phi (f (fst (fst e))) && memZ r (snd e).
  Lemma ecount_length phi r es : ecount phi r es = Z.of_nat (length (filter (epred phi r) es)).
  Proof.
    induction es as [|e es IH]; cbn [ecount filter]; [reflexivity|]. fold (epred phi r e).
    destruct (epred phi r e); cbn [length]; lia.
  Qed.
End ECount.

Lemma NoDup_map_inj_in {A B} (h : A -> B) (l : list A) :
  NoDup l -> (forall x y, In x l -> In y l -> h x = h y -> x = y) -> NoDup (map h l).
Proof.
  induction l as [|a l IH]; intros ND Hinj; cbn [map]; [constructor|].
  inversion ND as [|? ? Ha ND']; subst. constructor.
  - intros C. apply in_map_iff in C. destruct C as [b [E Hb]]. apply Ha.
    rewrite (Hinj a b); [exact Hb|left; reflexivity|right; exact Hb|symmetry; exact E].
  - apply IH; [exact ND'|]. intros x y Hx Hy. apply Hinj; right; assumption.
Qed.

(* entries containing r  <->  listed cells of row r *)
Lemma ecount_cells idx f phi r : WF idx -> 0 <= r < nrows idx ->
  ecount f (f (common idx)) phi r (entries idx) =
  Z.of_nat (length (filter (fun hc => negb (f (dense idx r hc) =? f (common idx)) && phi (f (dense idx r hc)))
                           (all_hcs (hshape idx)))).
Proof.
  intros W Hr. rewrite ecount_length. f_equal.
  set (nc := f (common idx)).
  set (A := filter (epred f nc phi r) (entries idx)).
  rewrite <- (map_length (fun e : entry => snd (fst e)) A). symmetry.
  apply length_filter_nodup.
  - apply NoDup_all_hcs.
  - apply NoDup_map_inj_in.
    + apply NoDup_filter. apply NoDup_entries. exact W.
    + intros [[v1 h1] rows1] [[v2 h2] rows2] H1 H2 E. unfold A in H1, H2. apply filter_In in H1, H2.
      destruct H1 as [I1 P1], H2 as [I2 P2]. cbn [fst snd] in E. subst h2.
      unfold epred in P1, P2. cbn [fst snd] in P1, P2. apply andb_true_iff in P1, P2.
      destruct P1 as [_ M1], P2 as [_ M2]. apply memZ_In in M1, M2.
      assert (v1 = v2) by (apply (wf_excl idx W r h1); [exists rows1|exists rows2]; auto). subst v2.
      apply (entry_unique (entries idx)); [apply W|exact I1|exact I2|reflexivity].
  - intros hc. rewrite in_map_iff. split.
    + intros [[[v h] rows] [E Hin]]. cbn [fst snd] in E. subst h. unfold A in Hin. apply filter_In in Hin.
      destruct Hin as [I P]. unfold epred in P. cbn [fst snd] in P. rewrite !andb_true_iff in P.
      destruct P as [[P1 P2] M]. apply memZ_In in M.
      assert (L : listed idx r hc v) by (exists rows; auto).
      rewrite (dense_listed idx r hc v W L). split; [|fold nc; rewrite P1, P2; reflexivity].
      apply in_all_hcs. eapply (wf_hc idx W (v, hc)). exact I.
    + intros [Hh P]. apply andb_true_iff in P. destruct P as [P1 P2].
      assert (N : dense idx r hc <> common idx).
      { intros C. rewrite C in P1. fold nc in P1. rewrite Z.eqb_refl in P1. discriminate. }
      apply dense_not_common_listed in N. destruct N as [rows [I M]].
      exists ((dense idx r hc, hc), rows). split; [reflexivity|]. unfold A. apply filter_In. split; [exact I|].
      unfold epred. cbn [fst snd]. fold nc in P1. rewrite P1, P2. cbn [andb]. apply memZ_In. exact M.
Qed.
