(* IIndex/ModelFacts.v — general facts about the shared index model (Model.v).
   Part 1: the dict (assoc_get / assoc_set / assoc_del / assoc_set_if / filter) as a finite map,
           through [rows_at k es] = the row ids stored under k, [] when absent. *)
From Coq Require Import ZArith List Bool Lia.
From Catii Require Import Base.Sorted IIndex.Model.
Import ListNotations.
Open Scope Z_scope.

(* ---------- equality tests ---------- *)
Lemma zl_eqb_eq a b : zl_eqb a b = true <-> a = b.
Proof.
  revert b. induction a as [|x a IH]; intros [|y b]; cbn [zl_eqb]; try (split; congruence).
  rewrite andb_true_iff, Z.eqb_eq, IH. split; [intros [-> ->]; reflexivity | intros H; inversion H; auto].
Qed.
Lemma zl_eqb_refl a : zl_eqb a a = true.
Proof. apply zl_eqb_eq. reflexivity. Qed.
Lemma key_eqb_eq a b : key_eqb a b = true <-> a = b.
Proof.
  destruct a as [v h], b as [v' h']. unfold key_eqb. cbn [fst snd].
  rewrite andb_true_iff, Z.eqb_eq, zl_eqb_eq. split; [intros [-> ->]; reflexivity | intros H; inversion H; auto].
Qed.
Lemma key_eqb_refl a : key_eqb a a = true.
Proof. apply key_eqb_eq. reflexivity. Qed.
Lemma key_eqb_neq a b : key_eqb a b = false <-> a <> b.
Proof.
  split.
  - intros H E. apply key_eqb_eq in E. congruence.
  - intros H. destruct (key_eqb a b) eqn:E; [apply key_eqb_eq in E; contradiction | reflexivity].
Qed.
Lemma key_eqb_spec a b : reflect (a = b) (key_eqb a b).
Proof. destruct (key_eqb a b) eqn:E; constructor; [apply key_eqb_eq | apply key_eqb_neq]; assumption. Qed.
Lemma key_eqb_sym a b : key_eqb a b = key_eqb b a.
Proof. destruct (key_eqb_spec a b), (key_eqb_spec b a); congruence. Qed.

Lemma memZ_In r l : memZ r l = true <-> In r l.
Proof.
  unfold memZ. rewrite existsb_exists. split.
  - intros [x [H E]]. apply Z.eqb_eq in E. congruence.
  - intros H. exists r. split; [assumption | apply Z.eqb_refl].
Qed.
Lemma memZ_false r l : memZ r l = false <-> ~ In r l.
Proof.
  split.
  - intros H E. apply memZ_In in E. congruence.
  - intros H. destruct (memZ r l) eqn:E; [apply memZ_In in E; contradiction | reflexivity].
Qed.

(* ---------- the dict as a finite map ---------- *)
Definition rows_at (k : key) (es : list entry) : list Z :=
  match assoc_get k es with Some r => r | None => [] end.
Definition has_key (k : key) (es : list entry) : bool :=
  match assoc_get k es with Some _ => true | None => false end.
Definition keys (es : list entry) : list key := map fst es.

Lemma assoc_get_In k es v : assoc_get k es = Some v -> In (k, v) es.
Proof.
  induction es as [|[k' v'] es IH]; cbn [assoc_get]; [discriminate|].
  destruct (key_eqb_spec k k') as [->|N]; intros H.
  - inversion H; subst. now left.
  - right. auto.
Qed.
Lemma assoc_get_None k es : assoc_get k es = None <-> ~ In k (keys es).
Proof.
  unfold keys. induction es as [|[k' v'] es IH]; cbn [assoc_get map fst In]; [tauto|].
  destruct (key_eqb_spec k k') as [->|N].
  - split; [discriminate | intros H; exfalso; apply H; now left].
  - rewrite IH. split; [intros H [E|E]; [congruence|contradiction] | tauto].
Qed.
Lemma In_assoc_get k v es : NoDup (keys es) -> In (k, v) es -> assoc_get k es = Some v.
Proof.
  unfold keys. induction es as [|[k' v'] es IH]; cbn [assoc_get map fst]; intros ND H; [contradiction|].
  inversion ND as [|? ? Hn ND']; subst. destruct H as [H|H].
  - inversion H; subst. rewrite key_eqb_refl. reflexivity.
  - destruct (key_eqb_spec k k') as [->|N]; [|auto].
    exfalso. apply Hn. apply in_map_iff. exists (k', v). auto.
Qed.
Lemma In_key k v (es : list entry) : In (k, v) es -> In k (keys es).
Proof. intros H. apply in_map_iff. exists (k, v). auto. Qed.
Lemma has_key_In k es : has_key k es = true <-> In k (keys es).
Proof.
  unfold has_key. destruct (assoc_get k es) eqn:E.
  - split; [intros _ | reflexivity]. eapply In_key, assoc_get_In; eassumption.
  - apply assoc_get_None in E. split; [discriminate | contradiction].
Qed.

Lemma assoc_get_set k k' v es :
  assoc_get k (assoc_set k' v es) = if key_eqb k k' then Some v else assoc_get k es.
Proof.
  induction es as [|[k0 v0] es IH]; cbn [assoc_set assoc_get].
  - reflexivity.
  - destruct (key_eqb_spec k' k0) as [->|N]; cbn [assoc_get].
    + destruct (key_eqb k k0); reflexivity.
    + rewrite IH. destruct (key_eqb_spec k k0) as [->|N2]; [|reflexivity].
      destruct (key_eqb_spec k0 k'); [congruence | reflexivity].
Qed.
Lemma keys_assoc_set k k' v es : In k (keys (assoc_set k' v es)) <-> k = k' \/ In k (keys es).
Proof.
  unfold keys. induction es as [|[k0 v0] es IH]; cbn [assoc_set map fst In].
  - intuition.
  - destruct (key_eqb_spec k' k0) as [->|N]; cbn [map fst In].
    + intuition.
    + rewrite IH. intuition.
Qed.
Lemma nodup_assoc_set k v es : NoDup (keys es) -> NoDup (keys (assoc_set k v es)).
Proof.
  unfold keys. induction es as [|[k0 v0] es IH]; cbn [assoc_set map fst]; intros ND.
  - constructor; [intros []|constructor].
  - inversion ND as [|? ? Hn ND']; subst. destruct (key_eqb_spec k k0) as [->|N]; cbn [map fst].
    + constructor; assumption.
    + constructor; [|auto]. intros H. apply (keys_assoc_set k0 k v es) in H. destruct H; [congruence|contradiction].
Qed.

Lemma assoc_get_filter (p : key -> bool) k es :
  assoc_get k (filter (fun e => p (fst e)) es) = if p k then assoc_get k es else None.
Proof.
  induction es as [|[k0 v0] es IH]; cbn [filter assoc_get fst].
  - destruct (p k); reflexivity.
  - destruct (p k0) eqn:P0; cbn [assoc_get]; rewrite IH.
    + destruct (key_eqb_spec k k0) as [->|N]; [rewrite P0|]; reflexivity.
    + destruct (key_eqb_spec k k0) as [->|N]; [rewrite P0|]; reflexivity.
Qed.
Lemma nodup_filter (q : entry -> bool) es : NoDup (keys es) -> NoDup (keys (filter q es)).
Proof.
  unfold keys. induction es as [|e es IH]; cbn [filter map]; intros ND; [constructor|].
  inversion ND as [|? ? Hn ND']; subst. destruct (q e); cbn [map]; [|auto].
  constructor; [|auto]. intros H. apply Hn. apply in_map_iff in H. destruct H as [x [E Hx]].
  apply filter_In in Hx. apply in_map_iff. exists x. tauto.
Qed.
Lemma assoc_get_del k k' es :
  assoc_get k (assoc_del k' es) = if key_eqb k k' then None else assoc_get k es.
Proof.
  unfold assoc_del. rewrite (assoc_get_filter (fun x => negb (key_eqb k' x))).
  rewrite (key_eqb_sym k' k). destruct (key_eqb k k'); reflexivity.
Qed.
Lemma nodup_assoc_del k es : NoDup (keys es) -> NoDup (keys (assoc_del k es)).
Proof. apply nodup_filter. Qed.
Lemma nodup_assoc_set_if k v es : NoDup (keys es) -> NoDup (keys (assoc_set_if k v es)).
Proof. destruct v; cbn [assoc_set_if]; [apply nodup_assoc_del | apply nodup_assoc_set]. Qed.

(* rows_at through the dict operations *)
Lemma rows_at_set k k' v es : rows_at k (assoc_set k' v es) = if key_eqb k k' then v else rows_at k es.
Proof. unfold rows_at. rewrite assoc_get_set. destruct (key_eqb k k'); reflexivity. Qed.
Lemma rows_at_del k k' es : rows_at k (assoc_del k' es) = if key_eqb k k' then [] else rows_at k es.
Proof. unfold rows_at. rewrite assoc_get_del. destruct (key_eqb k k'); reflexivity. Qed.
Lemma rows_at_set_if k k' v es : rows_at k (assoc_set_if k' v es) = if key_eqb k k' then v else rows_at k es.
Proof. destruct v; cbn [assoc_set_if]; [apply rows_at_del | apply rows_at_set]. Qed.
Lemma rows_at_filter (p : key -> bool) k es :
  rows_at k (filter (fun e => p (fst e)) es) = if p k then rows_at k es else [].
Proof. unfold rows_at. rewrite assoc_get_filter. destruct (p k); reflexivity. Qed.
Lemma rows_at_nil k : rows_at k [] = [].
Proof. reflexivity. Qed.

Lemma rows_at_In k es r : In r (rows_at k es) -> exists rows, In (k, rows) es /\ In r rows.
Proof.
  unfold rows_at. destruct (assoc_get k es) eqn:E; [|intros []].
  intros H. exists l. split; [apply assoc_get_In|]; assumption.
Qed.
Lemma In_rows_at k rows es : NoDup (keys es) -> In (k, rows) es -> rows_at k es = rows.
Proof. intros ND H. unfold rows_at. rewrite (In_assoc_get k rows es ND H). reflexivity. Qed.

(* all entries non-empty *)
Definition nonempty_es (es : list entry) : Prop := forall k rows, In (k, rows) es -> rows <> [].
Lemma nonempty_assoc_set k v es : v <> [] -> nonempty_es es -> nonempty_es (assoc_set k v es).
Proof.
  intros Hv. induction es as [|[k0 v0] es IH]; cbn [assoc_set]; intros NE k' rows H.
  - destruct H as [H|[]]. inversion H; subst; assumption.
  - destruct (key_eqb k k0).
    + destruct H as [H|H]; [inversion H; subst; assumption | eapply NE; right; eassumption].
    + destruct H as [H|H]; [eapply NE; left; eassumption|].
      eapply IH; [|eassumption]. intros k1 r1 H1. eapply NE. right. eassumption.
Qed.
Lemma nonempty_filter (q : entry -> bool) es : nonempty_es es -> nonempty_es (filter q es).
Proof. intros NE k rows H. apply filter_In in H. eapply NE. apply H. Qed.
Lemma nonempty_assoc_set_if k v es : nonempty_es es -> nonempty_es (assoc_set_if k v es).
Proof.
  destruct v; cbn [assoc_set_if]; intros NE; [apply nonempty_filter; assumption|].
  apply nonempty_assoc_set; [discriminate | assumption].
Qed.
Lemma nonempty_nil : nonempty_es [].
Proof. intros k rows []. Qed.

(* under NoDup + non-empty entries, presence of a key = non-empty rows_at *)
Lemma rows_at_nonempty_key k es : rows_at k es <> [] -> In k (keys es).
Proof.
  unfold rows_at. destruct (assoc_get k es) eqn:E; [|congruence].
  intros _. eapply In_key, assoc_get_In; eassumption.
Qed.
Lemma key_rows_at_nonempty k es : nonempty_es es -> In k (keys es) -> rows_at k es <> [].
Proof.
  intros NE H. apply has_key_In in H. unfold has_key, rows_at in *.
  destruct (assoc_get k es) eqn:E; [|discriminate]. eapply NE. apply assoc_get_In. eassumption.
Qed.

(* ====================================================================================== *)
(* Part 2: sorted lists, ranges, shapes                                                    *)
(* ====================================================================================== *)
Lemma sincr_cons x l : sincr (x :: l) <-> (forall y, In y l -> x < y) /\ sincr l.
Proof.
  revert x. induction l as [|y l IH]; intros x.
  - cbn [sincr In]. split; [intros _; split; [intros ? []|exact I] | tauto].
  - change (sincr (x :: y :: l)) with (x < y /\ sincr (y :: l)). rewrite (IH y). split.
    + intros [Hxy [Hy Hs]]. split; [|tauto]. intros z [<-|Hz]; [assumption|]. specialize (Hy z Hz). lia.
    + intros [Hx [Hy Hs]]. split; [apply Hx; now left|tauto].
Qed.
Lemma sincr_b_spec l : sincr_b l = true <-> sincr l.
Proof.
  induction l as [|x l IH]; [cbn; tauto|].
  cbn [sincr_b sincr]. rewrite andb_true_iff, IH. destruct l as [|y l]; [tauto|]. rewrite Z.ltb_lt. tauto.
Qed.
Lemma sincr_NoDup l : sincr l -> NoDup l.
Proof.
  induction l as [|x l IH]; intros H; [constructor|]. apply sincr_cons in H. destruct H as [Hx Hs].
  constructor; [|auto]. intros Hin. specialize (Hx x Hin). lia.
Qed.
Lemma sincr_filter (p : Z -> bool) l : sincr l -> sincr (filter p l).
Proof.
  induction l as [|x l IH]; intros H; [exact I|]. apply sincr_cons in H. destruct H as [Hx Hs].
  cbn [filter]. destruct (p x); [|auto]. apply sincr_cons. split; [|auto].
  intros y Hy. apply filter_In in Hy. apply Hx. tauto.
Qed.
Lemma sincr_app a b : sincr a -> sincr b -> (forall x y, In x a -> In y b -> x < y) -> sincr (a ++ b).
Proof.
  induction a as [|x a IH]; intros Ha Hb H; [assumption|]. cbn [app].
  apply sincr_cons in Ha. destruct Ha as [Hx Ha]. apply sincr_cons. split.
  - intros y Hy. apply in_app_iff in Hy. destruct Hy; [auto | apply H; [now left|assumption]].
  - apply IH; [assumption|assumption|]. intros; apply H; [now right|assumption].
Qed.
Lemma sincr_map_mono (f : Z -> Z) l :
  (forall x y, In x l -> In y l -> x < y -> f x < f y) -> sincr l -> sincr (map f l).
Proof.
  induction l as [|x l IH]; intros Hf H; [exact I|]. apply sincr_cons in H. destruct H as [Hx Hs].
  cbn [map]. apply sincr_cons. split.
  - intros y Hy. apply in_map_iff in Hy. destruct Hy as [z [<- Hz]]. apply Hf; [now left|now right|auto].
  - apply IH; [|assumption]. intros; apply Hf; [now right|now right|assumption].
Qed.
(* two strictly increasing lists with the same elements are equal *)
Lemma sincr_ext a b : sincr a -> sincr b -> (forall x, In x a <-> In x b) -> a = b.
Proof.
  revert b. induction a as [|x a IH]; intros b Ha Hb H.
  - destruct b as [|y b]; [reflexivity|]. exfalso. apply (H y). now left.
  - destruct b as [|y b]; [exfalso; apply (H x); now left|].
    apply sincr_cons in Ha. apply sincr_cons in Hb. destruct Ha as [Hx Ha], Hb as [Hy Hb].
    assert (x = y).
    { destruct (proj1 (H x) (or_introl eq_refl)) as [E|E]; [congruence|].
      destruct (proj2 (H y) (or_introl eq_refl)) as [E'|E']; [congruence|].
      specialize (Hx y E'). specialize (Hy x E). lia. }
    subst y. f_equal. apply IH; [assumption|assumption|]. intros z. split; intros Hz.
    + destruct (proj1 (H z) (or_intror Hz)) as [E|E]; [|assumption]. subst z. specialize (Hx x Hz). lia.
    + destruct (proj2 (H z) (or_intror Hz)) as [E|E]; [|assumption]. subst z. specialize (Hy x Hz). lia.
Qed.

Lemma in_zrange r n : In r (zrange n) <-> 0 <= r < n.
Proof.
  unfold zrange. rewrite in_map_iff. split.
  - intros [k [<- Hk]]. apply in_seq in Hk. lia.
  - intros H. exists (Z.to_nat r). split; [lia | apply in_seq; lia].
Qed.
Lemma sincr_seq a n : sincr (map Z.of_nat (seq a n)).
Proof.
  revert a. induction n as [|n IH]; intros a; [exact I|]. cbn [seq map]. apply sincr_cons. split; [|apply IH].
  intros y Hy. apply in_map_iff in Hy. destruct Hy as [k [<- Hk]]. apply in_seq in Hk. lia.
Qed.
Lemma sincr_zrange n : sincr (zrange n).
Proof. apply sincr_seq. Qed.
Lemma length_zrange n : 0 <= n -> Z.of_nat (length (zrange n)) = n.
Proof. intros H. unfold zrange. rewrite map_length, seq_length. lia. Qed.

Lemma in_hshape_b_spec hc hs : in_hshape_b hc hs = true <-> in_hshape hc hs.
Proof.
  unfold in_hshape. revert hs. induction hc as [|c hc IH]; intros [|e hs]; cbn [in_hshape_b].
  - split; [constructor|reflexivity].
  - split; [discriminate|intros H; inversion H].
  - split; [discriminate|intros H; inversion H].
  - rewrite !andb_true_iff, IH, Z.leb_le, Z.ltb_lt. split.
    + intros [[? ?] ?]. constructor; [lia|assumption].
    + intros H. inversion H; subst. tauto.
Qed.
Lemma in_all_hcs hc hs : In hc (all_hcs hs) <-> in_hshape hc hs.
Proof.
  unfold in_hshape. revert hc. induction hs as [|e hs IH]; intros hc; cbn [all_hcs].
  - split; [intros [<-|[]]; constructor | intros H; inversion H; now left].
  - rewrite in_flat_map. split.
    + intros [c [Hc H]]. apply in_map_iff in H. destruct H as [t [<- Ht]]. apply in_zrange in Hc.
      constructor; [assumption | apply IH; assumption].
    + intros H. inversion H as [|c ? t ? Hc Ht]; subst. exists c. split; [apply in_zrange; assumption|].
      apply in_map_iff. exists t. split; [reflexivity | apply IH; assumption].
Qed.
Lemma nodup_app {A} (a b : list A) : NoDup a -> NoDup b -> (forall x, In x a -> ~ In x b) -> NoDup (a ++ b).
Proof.
  induction a as [|x a IH]; intros Ha Hb H; [assumption|]. cbn [app].
  inversion Ha as [|? ? Hn Ha']; subst. constructor.
  - intros Hin. apply in_app_iff in Hin. destruct Hin as [Hin|Hin]; [contradiction|]. apply (H x); [now left|assumption].
  - apply IH; [assumption|assumption|]. intros y Hy. apply H. now right.
Qed.
Lemma nodup_flat_map {A B} (f : A -> list B) l :
  NoDup l -> (forall a, In a l -> NoDup (f a)) ->
  (forall a b x, In a l -> In b l -> In x (f a) -> In x (f b) -> a = b) -> NoDup (flat_map f l).
Proof.
  induction l as [|a l IH]; intros ND Hf Hd; [constructor|]. cbn [flat_map].
  inversion ND as [|? ? Hn ND']; subst. apply nodup_app.
  - apply Hf. now left.
  - apply IH; [assumption| |].
    + intros b Hb. apply Hf. now right.
    + intros b c x Hb Hc. apply Hd; now right.
  - intros x Hx Hin. apply in_flat_map in Hin. destruct Hin as [b [Hb Hxb]].
    assert (a = b) by (apply (Hd a b x); [now left|now right|assumption|assumption]). subst b. contradiction.
Qed.
Lemma nodup_map_inj {A B} (f : A -> B) l : (forall a b, f a = f b -> a = b) -> NoDup l -> NoDup (map f l).
Proof.
  intros Hf. induction l as [|a l IH]; intros ND; [constructor|]. inversion ND as [|? ? Hn ND']; subst.
  cbn [map]. constructor; [|auto]. intros H. apply in_map_iff in H. destruct H as [b [E Hb]].
  apply Hf in E. subst b. contradiction.
Qed.
Lemma NoDup_all_hcs hs : NoDup (all_hcs hs).
Proof.
  induction hs as [|e hs IH]; cbn [all_hcs]; [constructor; [intros []|constructor]|].
  apply nodup_flat_map.
  - apply sincr_NoDup, sincr_zrange.
  - intros c _. apply nodup_map_inj; [intros a b E; inversion E; reflexivity | assumption].
  - intros a b x _ _ Ha Hb. apply in_map_iff in Ha, Hb. destruct Ha as [t [<- _]], Hb as [t' [E _]]. inversion E; reflexivity.
Qed.


(* ====================================================================================== *)
(* Part 3: listed, dense, common_rowids                                                    *)
(* ====================================================================================== *)
Lemma listed_rows_at idx r hc v :
  NoDup (keys (entries idx)) -> (listed idx r hc v <-> In r (rows_at (v, hc) (entries idx))).
Proof.
  intros ND. split.
  - intros [rows [Hin Hr]]. rewrite (In_rows_at _ _ _ ND Hin). assumption.
  - intros H. apply rows_at_In in H. exact H.
Qed.
Lemma covers_true r hc e : covers r hc e = true <-> snd (fst e) = hc /\ In r (snd e).
Proof. unfold covers. rewrite andb_true_iff, zl_eqb_eq, memZ_In. tauto. Qed.
Lemma covers_listed idx r hc e : In e (entries idx) -> covers r hc e = true -> listed idx r hc (fst (fst e)).
Proof.
  intros Hin Hc. apply covers_true in Hc. destruct Hc as [H1 H2]. destruct e as [[v h] rows].
  cbn [fst snd] in *. subst. exists rows. auto.
Qed.
Lemma listed_covers idx r hc v : listed idx r hc v -> exists e, In e (entries idx) /\ covers r hc e = true /\ fst (fst e) = v.
Proof.
  intros [rows [Hin Hr]]. exists ((v, hc), rows). split; [assumption|]. split; [|reflexivity].
  apply covers_true. cbn [fst snd]. auto.
Qed.
Lemma dense_listed_excl idx r hc v :
  (forall a b, listed idx r hc a -> listed idx r hc b -> a = b) -> listed idx r hc v -> dense idx r hc = v.
Proof.
  intros X L. unfold dense. destruct (find (covers r hc) (entries idx)) as [e|] eqn:F.
  - apply find_some in F. destruct F as [Hin Hc]. apply X; [eapply covers_listed; eassumption | assumption].
  - exfalso. apply listed_covers in L. destruct L as [e [Hin [Hc _]]].
    pose proof (find_none _ _ F e Hin). congruence.
Qed.
Lemma dense_listed idx r hc v : WF idx -> listed idx r hc v -> dense idx r hc = v.
Proof. intros W. apply dense_listed_excl. intros a b. apply (wf_excl idx W). Qed.
Lemma dense_unlisted idx r hc : (forall v, ~ listed idx r hc v) -> dense idx r hc = common idx.
Proof.
  intros H. unfold dense. destruct (find (covers r hc) (entries idx)) as [e|] eqn:F; [|reflexivity].
  apply find_some in F. destruct F as [Hin Hc]. exfalso. eapply H. eapply covers_listed; eassumption.
Qed.
Lemma dense_cases idx r hc :
  listed idx r hc (dense idx r hc) \/ ((forall v, ~ listed idx r hc v) /\ dense idx r hc = common idx).
Proof.
  unfold dense. destruct (find (covers r hc) (entries idx)) as [e|] eqn:F.
  - left. apply find_some in F. destruct F. eapply covers_listed; eassumption.
  - right. split; [|reflexivity]. intros v L. apply listed_covers in L. destruct L as [e [Hin [Hc _]]].
    pose proof (find_none _ _ F e Hin). congruence.
Qed.
(* a cell whose value is not the common value is listed under it *)
Lemma dense_not_common_listed idx r hc : dense idx r hc <> common idx -> listed idx r hc (dense idx r hc).
Proof. intros H. destruct (dense_cases idx r hc) as [L|[_ E]]; [assumption|contradiction]. Qed.
Lemma wf_dense_iff idx r hc v : WF idx -> v <> common idx -> (dense idx r hc = v <-> listed idx r hc v).
Proof.
  intros W Hv. split; [|apply dense_listed; assumption].
  intros <-. apply dense_not_common_listed. assumption.
Qed.
Lemma wf_listed_in_range idx r hc v : WF idx -> listed idx r hc v -> in_range idx r hc.
Proof.
  intros W [rows [Hin Hr]]. split; [eapply (wf_rows idx W); eassumption|].
  apply (wf_hc idx W) in Hin. exact Hin.
Qed.
Lemma wf_listed_not_common idx r hc v : WF idx -> listed idx r hc v -> v <> common idx.
Proof. intros W [rows [Hin Hr]]. apply (wf_nocommon idx W) in Hin. exact Hin. Qed.

Lemma is_listed_b_spec idx r hc : is_listed_b idx r hc = true <-> exists v, listed idx r hc v.
Proof.
  unfold is_listed_b. rewrite existsb_exists. split.
  - intros [e [Hin Hc]]. eexists. eapply covers_listed; eassumption.
  - intros [v L]. apply listed_covers in L. destruct L as [e [Hin [Hc _]]]. exists e. auto.
Qed.
Lemma is_listed_b_false idx r hc : is_listed_b idx r hc = false <-> forall v, ~ listed idx r hc v.
Proof.
  split.
  - intros H v L. assert (is_listed_b idx r hc = true) by (apply is_listed_b_spec; eauto). congruence.
  - intros H. destruct (is_listed_b idx r hc) eqn:E; [|reflexivity]. apply is_listed_b_spec in E.
    destruct E as [v L]. exfalso. eapply H. eassumption.
Qed.
Lemma in_common_rowids idx r hc :
  In r (common_rowids idx hc) <-> 0 <= r < nrows idx /\ forall v, ~ listed idx r hc v.
Proof.
  unfold common_rowids. rewrite filter_In, in_zrange, negb_true_iff, is_listed_b_false. tauto.
Qed.
Lemma common_rowids_sincr idx hc : sincr (common_rowids idx hc).
Proof. apply sincr_filter, sincr_zrange. Qed.
(* C06 common_rowids: exactly the rows of that column holding the common value *)
Lemma common_rowids_dense idx r hc : WF idx ->
  (In r (common_rowids idx hc) <-> 0 <= r < nrows idx /\ dense idx r hc = common idx).
Proof.
  intros W. rewrite in_common_rowids. split; intros [Hr H]; (split; [assumption|]).
  - apply dense_unlisted. assumption.
  - intros v L. pose proof (dense_listed idx r hc v W L). apply (wf_listed_not_common idx r hc v W L). congruence.
Qed.

(* ====================================================================================== *)
(* Part 4: well-formedness in terms of rows_at; boolean reflection                         *)
(* ====================================================================================== *)
Record WFr (idx : iindex) : Prop := {
  wr_nrows : 0 <= nrows idx <= 2 ^ 32;
  wr_hshape : Forall (fun e => 0 <= e) (hshape idx);
  wr_keys : NoDup (keys (entries idx));
  wr_nonempty : nonempty_es (entries idx);
  wr_key : forall k, rows_at k (entries idx) <> [] -> in_hshape (snd k) (hshape idx) /\ fst k <> common idx;
  wr_sorted : forall k, sincr (rows_at k (entries idx));
  wr_rows : forall k r, In r (rows_at k (entries idx)) -> 0 <= r < nrows idx;
  wr_excl : forall hc v v' r, In r (rows_at (v, hc) (entries idx)) -> In r (rows_at (v', hc) (entries idx)) -> v = v';
}.
Lemma rows_at_cases k es : (exists rows, In (k, rows) es /\ rows_at k es = rows) \/ rows_at k es = [].
Proof.
  unfold rows_at. destruct (assoc_get k es) eqn:E; [left|right; reflexivity].
  exists l. split; [apply assoc_get_In; assumption|reflexivity].
Qed.
Lemma WF_WFr idx : WF idx <-> WFr idx.
Proof.
  split; intros W.
  - pose proof (wf_keys idx W) as ND. constructor.
    + apply W. + apply W. + exact ND.
    + intros k rows H. eapply (wf_nonempty idx W); eassumption.
    + intros k H. destruct (rows_at_cases k (entries idx)) as [[rows [Hin E]]|E]; [|congruence].
      split; [eapply (wf_hc idx W); eassumption | eapply (wf_nocommon idx W); eassumption].
    + intros k. destruct (rows_at_cases k (entries idx)) as [[rows [Hin E]]|E]; rewrite E; [|exact I].
      eapply (wf_sorted idx W); eassumption.
    + intros k r H. apply rows_at_In in H. destruct H as [rows [Hin Hr]]. eapply (wf_rows idx W); eassumption.
    + intros hc v v' r H H'. apply (wf_excl idx W r hc); apply listed_rows_at; assumption.
  - pose proof (wr_keys idx W) as ND.
    assert (R: forall k rows, In (k, rows) (entries idx) -> rows_at k (entries idx) = rows)
      by (intros; apply In_rows_at; assumption).
    constructor.
    + apply W. + apply W. + exact ND.
    + intros k rows H. apply (wr_key idx W k). rewrite (R _ _ H). eapply (wr_nonempty idx W); eassumption.
    + intros k rows H. rewrite <- (R _ _ H). apply (wr_sorted idx W).
    + intros k rows r H Hr. apply (wr_rows idx W k). rewrite (R _ _ H). assumption.
    + intros k rows H. eapply (wr_nonempty idx W); eassumption.
    + intros k rows H. apply (wr_key idx W k). rewrite (R _ _ H). eapply (wr_nonempty idx W); eassumption.
    + intros r hc v v' L L'. apply listed_rows_at in L, L'; try assumption. eapply (wr_excl idx W); eassumption.
Qed.

(* ---- wf_b idx = true <-> WF idx ---- *)
Lemma existsb_key_In k ks : existsb (key_eqb k) ks = true <-> In k ks.
Proof.
  rewrite existsb_exists. split.
  - intros [x [H E]]. apply key_eqb_eq in E. congruence.
  - intros H. exists k. split; [assumption|apply key_eqb_refl].
Qed.
Lemma nodup_keys_b_spec ks : nodup_keys_b ks = true <-> NoDup ks.
Proof.
  induction ks as [|k ks IH]; cbn [nodup_keys_b].
  - split; [constructor|reflexivity].
  - rewrite andb_true_iff, negb_true_iff, IH. split.
    + intros [H ND]. constructor; [|assumption]. intros Hin. apply existsb_key_In in Hin. congruence.
    + intros ND. inversion ND as [|? ? Hn ND']; subst. split; [|assumption].
      destruct (existsb (key_eqb k) ks) eqn:E; [|reflexivity]. apply existsb_key_In in E. contradiction.
Qed.
Lemma disjoint_b_spec a b : disjoint_b a b = true <-> forall x, In x a -> ~ In x b.
Proof.
  unfold disjoint_b. rewrite forallb_forall. split; intros H x Hx.
  - specialize (H x Hx). apply negb_true_iff, memZ_false in H. assumption.
  - apply negb_true_iff, memZ_false. auto.
Qed.
Definition excl_es (es : list entry) : Prop :=
  forall k rows k' rows' r, In (k, rows) es -> In (k', rows') es -> snd k = snd k' -> In r rows -> In r rows' -> fst k = fst k'.
Lemma excl_b_spec es : excl_b es = true <-> excl_es es.
Proof.
  unfold excl_es. induction es as [|[k rows] es IH]; cbn [excl_b].
  - split; [intros _ ? ? ? ? ? [] | reflexivity].
  - rewrite andb_true_iff, IH, forallb_forall. split.
    + intros [Hh Ht] k1 r1 k2 r2 r [E1|H1] [E2|H2] Hs Hr1 Hr2.
      * congruence.
      * inversion E1; subst. specialize (Hh _ H2). cbn [fst snd] in Hh.
        rewrite !orb_true_iff, negb_true_iff, Z.eqb_eq, disjoint_b_spec in Hh.
        destruct Hh as [[Hh|Hh]|Hh]; [|assumption|exfalso; eapply Hh; eassumption].
        rewrite Hs, zl_eqb_refl in Hh. discriminate.
      * inversion E2; subst. specialize (Hh _ H1). cbn [fst snd] in Hh.
        rewrite !orb_true_iff, negb_true_iff, Z.eqb_eq, disjoint_b_spec in Hh.
        destruct Hh as [[Hh|Hh]|Hh]; [|congruence|exfalso; eapply Hh; eassumption].
        rewrite <- Hs, zl_eqb_refl in Hh. discriminate.
      * eapply Ht; eassumption.
    + intros H. split.
      * intros [k2 r2] H2. cbn [fst snd]. rewrite !orb_true_iff, negb_true_iff, Z.eqb_eq, disjoint_b_spec.
        destruct (zl_eqb (snd k) (snd k2)) eqn:Eh; [|left; left; reflexivity].
        apply zl_eqb_eq in Eh. destruct (Z.eq_dec (fst k) (fst k2)) as [E|N]; [left; right; assumption|].
        right. intros x Hx Hx2. apply N. eapply (H k rows k2 r2 x); [now left|now right|assumption|assumption|assumption].
      * intros k1 r1 k2 r2 r H1 H2. apply H; now right.
Qed.
Lemma excl_es_listed idx : excl_es (entries idx) <-> (forall r hc v v', listed idx r hc v -> listed idx r hc v' -> v = v').
Proof.
  unfold excl_es. split.
  - intros H r hc v v' [rows [Hin Hr]] [rows' [Hin' Hr']]. apply (H _ _ _ _ r Hin Hin'); auto.
  - intros H [v hc] rows [v' hc'] rows' r Hin Hin' Hs Hr Hr'. cbn [fst snd] in *. subst hc'.
    apply (H r hc); [exists rows|exists rows']; auto.
Qed.
Lemma entry_ok_b_spec idx k rows :
  entry_ok_b idx (k, rows) = true <->
  in_hshape (snd k) (hshape idx) /\ sincr rows /\ (forall r, In r rows -> 0 <= r < nrows idx) /\ rows <> [] /\ fst k <> common idx.
Proof.
  unfold entry_ok_b. rewrite !andb_true_iff, in_hshape_b_spec, sincr_b_spec, forallb_forall, !negb_true_iff, Z.eqb_neq.
  assert (A: (forall x, In x rows -> (0 <=? x) && (x <? nrows idx) = true) <-> (forall r, In r rows -> 0 <= r < nrows idx)).
  { split; intros H r Hr; specialize (H r Hr); [apply andb_true_iff in H|apply andb_true_iff]; rewrite Z.leb_le, Z.ltb_lt in *; assumption. }
  rewrite A. assert (B: match rows with [] => true | _ => false end = false <-> rows <> []) by (destruct rows; split; congruence).
  rewrite B. tauto.
Qed.
Theorem wf_b_spec idx : wf_b idx = true <-> WF idx.
Proof.
  unfold wf_b. rewrite !andb_true_iff, Z.leb_le, Z.leb_le, nodup_keys_b_spec, excl_b_spec, excl_es_listed, !forallb_forall.
  split.
  - intros [[[[[H1 H2] H3] H4] H5] H6].
    assert (E: forall k rows, In (k, rows) (entries idx) -> entry_ok_b idx (k, rows) = true) by (intros; apply H5; assumption).
    constructor; try assumption.
    + lia.
    + apply Forall_forall. intros x Hx. apply Z.leb_le. auto.
    + intros k rows H. apply E, entry_ok_b_spec in H. tauto.
    + intros k rows H. apply E, entry_ok_b_spec in H. tauto.
    + intros k rows r H. apply E, entry_ok_b_spec in H. destruct H as [_ [_ [H _]]]. auto.
    + intros k rows H. apply E, entry_ok_b_spec in H. tauto.
    + intros k rows H. apply E, entry_ok_b_spec in H. tauto.
  - intros W. repeat split.
    + apply W. + apply W.
    + intros x Hx. apply Z.leb_le. pose proof (wf_hshape idx W) as F. rewrite Forall_forall in F. auto.
    + apply W.
    + intros [k rows] H. apply entry_ok_b_spec. repeat split.
      * eapply (wf_hc idx W); eassumption. * eapply (wf_sorted idx W); eassumption.
      * eapply (wf_rows idx W); eassumption. * eapply (wf_rows idx W); eassumption.
      * eapply (wf_nonempty idx W); eassumption. * eapply (wf_nocommon idx W); eassumption.
    + apply W.
Qed.
