(* IIndex/ArgsCheck.v - harness side, DEFINITIONS ONLY, no proofs.
   Boolean form of the argument condition [HistorySpec.args_ok] (the quantifier of the C06/C07 history
   theorems), assembled from the boolean twins of IIndex/ArgsOkB.v (each proved sound there) and the three
   decidable leftovers (append_ok, filtered_ok, collapse_ok).  The harness evaluates it on every generated
   step to MEASURE how many steps of the correspondence run lie inside the theorems' hypotheses, and which
   kinds lie outside on purpose (collapsed on a 1-D index -> TypeError, sliced() without arguments, ...).
   It is evidence only: no verdict depends on it, and Check.v does not import this file, so the
   correspondence still runs when a proof file in this file's cone is broken. *)
From Coq Require Import ZArith List Bool.
From Catii Require Import Base.Cases Base.Sorted IIndex.Model IIndex.Res IIndex.OpsB IIndex.OpsA IIndex.Step
  IIndex.ArgsOkB IIndex.Check.
Import ListNotations.
Open Scope Z_scope.

Definition int_range_b (mn mx : Z) : bool :=
  (- 2 ^ 63 <=? mn) && (mx <? 2 ^ 64) && (negb (mn <? 0) || (mx <? 2 ^ 63)).

Definition args_ok_b (idx : iindex) (o : op) : bool :=
  match o with
  | OShiftAuto | OShift _ | OCopy | OReindexed _ _ => true
  | OAppend other => wf_b other && zl_eqb (hshape other) (hshape idx) && (nrows idx + nrows other <=? 2 ^ 32)
  | OUpdate upd => upd_ok_b idx upd
  | OUnion other => other_ok_b idx other
  | OInter other | ODiff other => nodup_keys_b (map fst other)
  | OSetIf k v => set_if_ok_b idx k v
  | OFiltered mask => Z.of_nat (length mask) =? nrows idx
  | OCollapsed prec _ =>
      match hshape idx with [n] => n <? 2 ^ 64 | _ => false end
      && nodupZ_b prec
      && match prec with [] => false | p0 :: _ => int_range_b (zmin_list p0 prec) (zmax_list p0 prec) end
  | OSliced orders => orders_ok_b orders (hshape idx)
  | OColumnStack pre post _ => cs_args_ok_b (pre ++ idx :: post)
  | OGetForce _ | OItemsForce | OToDictForce | OCommonRowids _ | OSlices1d => true
  end.

Definition chk_args (c : scase) : bool := wf_b (s_before c) && args_ok_b (s_before c) (s_op c).
