(* IIndex/ArgsCheck.v - harness side, DEFINITIONS ONLY, no proofs.
   Evaluates [HistoryB.args_ok_b] - the boolean form, proved sound there ([args_ok_b_sound]), of the argument
   condition [HistorySpec.args_ok] that the C06/C07 history theorems quantify over - on every generated step,
   to MEASURE how many steps of the correspondence run lie inside the theorems' hypotheses and which kinds lie
   outside on purpose (collapsed on a 1-D index -> TypeError, sliced() without arguments, ...).
   Evidence only: no verdict depends on it, and Check.v does not import this file, so the correspondence
   still runs when a proof file in this file's cone is broken. *)
From Coq Require Import ZArith List Bool.
From Catii Require Import IIndex.Model IIndex.Step IIndex.HistoryB IIndex.Check.

Definition chk_args (c : scase) : bool := wf_b (s_before c) && args_ok_b (s_before c) (s_op c).
