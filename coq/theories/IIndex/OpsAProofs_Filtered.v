(* IIndex/OpsAProofs_Filtered.v — `filtered` (iindexes.py:652) before its final shift_common():
   filtered_raw idx mask is well-formed and stands for the NumPy boolean row selection a[mask].
   Route: positions of True in the mask ([rank], [kept_from]) -> new_rowids is the inverse of
   kept_rows on the kept rows -> rows_at view of filtered_entries -> WF through WFr -> dense. *)
From Coq Require Import ZArith List Bool Lia.
From Catii Require Import Base.Sorted IIndex.Model IIndex.ModelFacts IIndex.OpsA IIndex.Step.
Import ListNotations.
Open Scope Z_scope.

(* ====================================================================================== *)
(* Part 1: the mask                                                                        *)
(* ====================================================================================== *)
(* number of True strictly before position n *)
Fixpoint rank (mask : list bool) (n : nat) : nat :=
  match n, mask with
  | O, _ => O
  | S _, [] => O
  | S n', b :: m => ((if b then 1 else 0) + rank m n')%nat
  end.
(* the selected positions, counted from i *)
Fixpoint kept_from (mask : list bool) (i : Z) : list Z :=
  match mask with
  | [] => []
  | b :: m => if b then i :: kept_from m (i + 1) else kept_from m (i + 1)
  end.

Lemma nth_true_lt (mask : list bool) n : nth n mask false = true -> (n < length mask)%nat.
Proof.
  intros H. destruct (Nat.lt_ge_cases n (length mask)) as [L|G]; [assumption|].
  rewrite (nth_overflow mask false G) in H. discriminate.
Qed.

Lemma new_rowids_rank mask : forall n next,
  nth n mask false = true -> nth n (new_rowids_from mask next) 0 = next + Z.of_nat (rank mask n).
Proof.
  induction mask as [|b m IH]; intros n next H.
  - destruct n; discriminate.
  - destruct n as [|n]; cbn [nth] in H.
    + subst b. cbn [new_rowids_from nth rank]. lia.
    + cbn [new_rowids_from rank]. destruct b; cbn [nth]; rewrite (IH n _ H); lia.
Qed.

Lemma kept_from_rank mask : forall n i,
  nth n mask false = true ->
  (rank mask n < length (kept_from mask i))%nat /\ nth (rank mask n) (kept_from mask i) 0 = i + Z.of_nat n.
Proof.
  induction mask as [|b m IH]; intros n i H.
  - destruct n; discriminate.
  - destruct n as [|n]; cbn [nth] in H.
    + subst b. cbn [kept_from rank length nth]. split; lia.
    + destruct (IH n (i + 1) H) as [L E]. cbn [kept_from rank]. destruct b.
      * cbn [length Nat.add nth]. split; [lia | rewrite E; lia].
      * cbn [Nat.add]. split; [assumption | rewrite E; lia].
Qed.

Lemma kept_from_nth mask : forall j i,
  (j < length (kept_from mask i))%nat ->
  exists n, nth n mask false = true /\ nth j (kept_from mask i) 0 = i + Z.of_nat n /\ rank mask n = j.
Proof.
  induction mask as [|b m IH]; intros j i H.
  - cbn [kept_from length] in H. lia.
  - cbn [kept_from] in *. destruct b.
    + destruct j as [|j].
      * exists O. cbn [nth rank]. repeat split. lia.
      * cbn [length] in H. destruct (IH j (i + 1)) as [n [H1 [H2 H3]]]; [lia|].
        exists (S n). cbn [nth rank Nat.add]. repeat split; [assumption | lia | lia].
    + destruct (IH j (i + 1) H) as [n [H1 [H2 H3]]].
      exists (S n). cbn [nth rank Nat.add]. repeat split; [assumption | lia | lia].
Qed.

Lemma rank_mono mask : forall n n', (n <= n')%nat -> (rank mask n <= rank mask n')%nat.
Proof.
  induction mask as [|b m IH]; intros n n' H.
  - destruct n, n'; cbn [rank]; lia.
  - destruct n as [|n]; [cbn [rank]; lia|]. destruct n' as [|n']; [lia|].
    cbn [rank]. specialize (IH n n'). destruct b; lia.
Qed.
Lemma rank_strict mask : forall n n',
  (n < n')%nat -> nth n mask false = true -> (rank mask n < rank mask n')%nat.
Proof.
  induction mask as [|b m IH]; intros n n' H T.
  - destruct n; discriminate.
  - destruct n' as [|n']; [lia|]. destruct n as [|n]; cbn [nth] in T.
    + subst b. cbn [rank]. lia.
    + cbn [rank]. assert (n < n')%nat as Hn by lia. specialize (IH n n' Hn T). destruct b; lia.
Qed.

Lemma kept_from_length mask : forall i, (length (kept_from mask i) <= length mask)%nat.
Proof.
  induction mask as [|b m IH]; intros i; cbn [kept_from length]; [lia|].
  specialize (IH (i + 1)). destruct b; cbn [length]; lia.
Qed.

(* kept_rows (filter over zrange) is kept_from 0 *)
Lemma filter_seq_kept_from mask : forall a,
  filter (fun r => nth (Z.to_nat r - a) mask false) (map Z.of_nat (seq a (length mask)))
  = kept_from mask (Z.of_nat a).
Proof.
  induction mask as [|b m IH]; intros a; [reflexivity|].
  cbn [length seq map].
  assert (E: filter (fun r => nth (Z.to_nat r - a) (b :: m) false) (map Z.of_nat (seq (S a) (length m)))
             = kept_from m (Z.of_nat a + 1)).
  { replace (Z.of_nat a + 1) with (Z.of_nat (S a)) by lia. rewrite <- IH.
    apply filter_ext_in. intros r Hr. apply in_map_iff in Hr. destruct Hr as [k [<- Hk]].
    apply in_seq in Hk. replace (Z.to_nat (Z.of_nat k) - a)%nat with (S (Z.to_nat (Z.of_nat k) - S a)) by lia.
    reflexivity. }
  cbn [filter]. rewrite E.
  replace (Z.to_nat (Z.of_nat a) - a)%nat with O by lia. cbn [nth kept_from]. reflexivity.
Qed.
Lemma kept_rows_kept_from mask : kept_rows mask = kept_from mask 0.
Proof.
  unfold kept_rows, zrange. rewrite Nat2Z.id. change 0 with (Z.of_nat 0).
  rewrite <- filter_seq_kept_from. apply filter_ext. intros r. unfold mask_at.
  rewrite Nat.sub_0_r. reflexivity.
Qed.

Lemma count_true_kept mask : count_true mask = lenZ (kept_rows mask).
Proof. reflexivity. Qed.

Lemma in_kept_rows mask r : In r (kept_rows mask) <-> 0 <= r < Z.of_nat (length mask) /\ mask_at mask r = true.
Proof. unfold kept_rows. rewrite filter_In, in_zrange. tauto. Qed.
Lemma kept_rows_sincr mask : sincr (kept_rows mask).
Proof. apply sincr_filter, sincr_zrange. Qed.
Lemma count_true_bounds mask : 0 <= count_true mask <= Z.of_nat (length mask).
Proof.
  rewrite count_true_kept, kept_rows_kept_from. unfold lenZ.
  pose proof (kept_from_length mask 0). lia.
Qed.

(* the renumbering new_rowids[.] *)
Definition newid (mask : list bool) (r : Z) : Z := nth (Z.to_nat r) (new_rowids_from mask 0) 0.

Lemma newid_range mask r : 0 <= r -> mask_at mask r = true -> 0 <= newid mask r < count_true mask.
Proof.
  intros Hr T. unfold mask_at in T. unfold newid. rewrite (new_rowids_rank mask _ 0 T).
  rewrite count_true_kept, kept_rows_kept_from. unfold lenZ.
  destruct (kept_from_rank mask _ 0 T) as [L _]. lia.
Qed.
(* kept_rows[newid r] = r *)
Lemma kept_newid mask r : 0 <= r -> mask_at mask r = true ->
  nth (Z.to_nat (newid mask r)) (kept_rows mask) 0 = r.
Proof.
  intros Hr T. unfold mask_at in T. unfold newid. rewrite (new_rowids_rank mask _ 0 T).
  rewrite kept_rows_kept_from. destruct (kept_from_rank mask _ 0 T) as [_ E].
  replace (Z.to_nat (0 + Z.of_nat (rank mask (Z.to_nat r)))) with (rank mask (Z.to_nat r)) by lia.
  rewrite E. lia.
Qed.
Lemma newid_inj mask r r' : 0 <= r -> 0 <= r' -> mask_at mask r = true -> mask_at mask r' = true ->
  newid mask r = newid mask r' -> r = r'.
Proof.
  intros Hr Hr' T T' E. rewrite <- (kept_newid mask r Hr T), <- (kept_newid mask r' Hr' T'), E. reflexivity.
Qed.
Lemma newid_mono mask r r' : 0 <= r -> mask_at mask r = true -> r < r' -> mask_at mask r' = true ->
  newid mask r < newid mask r'.
Proof.
  intros Hr T L T'. unfold mask_at in T, T'. unfold newid.
  rewrite (new_rowids_rank mask _ 0 T), (new_rowids_rank mask _ 0 T').
  assert (Z.to_nat r < Z.to_nat r')%nat as Ln by lia.
  pose proof (rank_strict mask _ _ Ln T). lia.
Qed.
(* newid (kept_rows[j]) = j *)
Lemma newid_kept mask j : 0 <= j < count_true mask ->
  let x := nth (Z.to_nat j) (kept_rows mask) 0 in
  0 <= x < Z.of_nat (length mask) /\ mask_at mask x = true /\ newid mask x = j.
Proof.
  intros Hj x.
  assert (Hin: In x (kept_rows mask)).
  { apply nth_In. rewrite count_true_kept in Hj. unfold lenZ in Hj. lia. }
  apply in_kept_rows in Hin. destruct Hin as [Hx T]. split; [assumption|]. split; [assumption|].
  assert (Hl: (Z.to_nat j < length (kept_from mask 0))%nat).
  { rewrite <- kept_rows_kept_from. rewrite count_true_kept in Hj. unfold lenZ in Hj. lia. }
  destruct (kept_from_nth mask _ 0 Hl) as [n [H1 [H2 H3]]].
  assert (Ex: x = Z.of_nat n). { unfold x. rewrite kept_rows_kept_from, H2. lia. }
  unfold newid. rewrite Ex, Nat2Z.id, (new_rowids_rank mask n 0 H1), H3. lia.
Qed.

(* ====================================================================================== *)
(* Part 2: filtered_entries as a finite map                                                *)
(* ====================================================================================== *)
Definition frows (mask : list bool) (rows : list Z) : list Z :=
  map (newid mask) (filter (mask_at mask) rows).
Definition fstep (mask : list bool) (acc : list entry) (e : entry) : list entry :=
  match filter (mask_at mask) (snd e) with
  | [] => acc
  | kept => assoc_set (fst e) (map (newid mask) kept) acc
  end.
Definition orelse (l d : list Z) : list Z := match l with [] => d | _ => l end.

Lemma filtered_entries_fold mask es : filtered_entries mask es = fold_left (fstep mask) es [].
Proof. reflexivity. Qed.

Lemma rows_at_fstep mask k acc k0 v0 :
  rows_at k (fstep mask acc (k0, v0)) = if key_eqb k k0 then orelse (frows mask v0) (rows_at k acc) else rows_at k acc.
Proof.
  unfold fstep, frows, orelse. cbn [fst snd]. destruct (filter (mask_at mask) v0) as [|x l].
  - cbn [map]. destruct (key_eqb k k0); reflexivity.
  - rewrite rows_at_set. cbn [map]. reflexivity.
Qed.
Lemma rows_at_cons k k0 v0 es : rows_at k ((k0, v0) :: es) = if key_eqb k k0 then v0 else rows_at k es.
Proof. unfold rows_at. cbn [assoc_get]. destruct (key_eqb k k0); reflexivity. Qed.
Lemma rows_at_absent k es : ~ In k (keys es) -> rows_at k es = [].
Proof. intros H. apply assoc_get_None in H. unfold rows_at. rewrite H. reflexivity. Qed.

Lemma rows_at_fold mask es : forall acc k, NoDup (keys es) ->
  rows_at k (fold_left (fstep mask) es acc) = orelse (frows mask (rows_at k es)) (rows_at k acc).
Proof.
  induction es as [|[k0 v0] es IH]; intros acc k ND.
  - reflexivity.
  - unfold keys in ND. cbn [map fst] in ND. inversion ND as [|? ? Hn ND']; subst.
    cbn [fold_left]. rewrite (IH _ k ND'), rows_at_fstep, rows_at_cons.
    destruct (key_eqb_spec k k0) as [->|N]; [|reflexivity].
    rewrite (rows_at_absent k0 es Hn). reflexivity.
Qed.
Lemma rows_at_filtered_entries mask es k : NoDup (keys es) ->
  rows_at k (filtered_entries mask es) = frows mask (rows_at k es).
Proof.
  intros ND. rewrite filtered_entries_fold, (rows_at_fold mask es [] k ND), rows_at_nil.
  unfold orelse. destruct (frows mask (rows_at k es)); reflexivity.
Qed.

Lemma nodup_fstep mask acc e : NoDup (keys acc) -> NoDup (keys (fstep mask acc e)).
Proof. intros H. unfold fstep. destruct (filter (mask_at mask) (snd e)); [assumption | apply nodup_assoc_set; assumption]. Qed.
Lemma nonempty_fstep mask acc e : nonempty_es acc -> nonempty_es (fstep mask acc e).
Proof.
  intros H. unfold fstep. destruct (filter (mask_at mask) (snd e)); [assumption|].
  apply nonempty_assoc_set; [cbn [map]; discriminate | assumption].
Qed.
Lemma nodup_filtered_entries mask es : NoDup (keys (filtered_entries mask es)).
Proof.
  rewrite filtered_entries_fold. assert (G: forall acc, NoDup (keys acc) -> NoDup (keys (fold_left (fstep mask) es acc))).
  { induction es as [|e es IH]; intros acc H; [assumption|]. cbn [fold_left]. apply IH, nodup_fstep, H. }
  apply G. constructor.
Qed.
Lemma nonempty_filtered_entries mask es : nonempty_es (filtered_entries mask es).
Proof.
  rewrite filtered_entries_fold. assert (G: forall acc, nonempty_es acc -> nonempty_es (fold_left (fstep mask) es acc)).
  { induction es as [|e es IH]; intros acc H; [assumption|]. cbn [fold_left]. apply IH, nonempty_fstep, H. }
  apply G, nonempty_nil.
Qed.

Lemma in_frows mask rows y : In y (frows mask rows) <-> exists x, In x rows /\ mask_at mask x = true /\ newid mask x = y.
Proof.
  unfold frows. rewrite in_map_iff. split.
  - intros [x [E H]]. apply filter_In in H. exists x. tauto.
  - intros [x [H [T E]]]. exists x. split; [assumption|]. apply filter_In. tauto.
Qed.

(* ====================================================================================== *)
(* Part 3: shape, well-formedness                                                          *)
(* ====================================================================================== *)
Theorem filtered_raw_shape idx mask : Z.of_nat (length mask) = nrows idx ->
   nrows (filtered_raw idx mask) = lenZ (kept_rows mask) /\ hshape (filtered_raw idx mask) = hshape idx.
Proof. intros _. split; reflexivity. Qed.

Lemma rows_at_filtered_raw idx mask k : NoDup (keys (entries idx)) ->
  rows_at k (entries (filtered_raw idx mask)) = frows mask (rows_at k (entries idx)).
Proof. intros ND. cbn [filtered_raw entries]. apply rows_at_filtered_entries, ND. Qed.

Theorem filtered_raw_wf idx mask : WF idx -> Z.of_nat (length mask) = nrows idx -> WF (filtered_raw idx mask).
Proof.
  intros W0 Hlen. apply WF_WFr. apply WF_WFr in W0. rename W0 into W.
  pose proof (wr_keys idx W) as ND.
  assert (R: forall k, rows_at k (entries (filtered_raw idx mask)) = frows mask (rows_at k (entries idx)))
    by (intros; apply rows_at_filtered_raw; assumption).
  constructor.
  - cbn [filtered_raw nrows]. pose proof (count_true_bounds mask). pose proof (wr_nrows idx W). lia.
  - cbn [filtered_raw hshape]. apply W.
  - cbn [filtered_raw entries]. apply nodup_filtered_entries.
  - cbn [filtered_raw entries]. apply nonempty_filtered_entries.
  - intros k H. rewrite R in H. cbn [filtered_raw hshape common]. apply (wr_key idx W k).
    intros E. rewrite E in H. apply H. reflexivity.
  - intros k. rewrite R. unfold frows. apply sincr_map_mono.
    + intros x y Hx Hy L. apply filter_In in Hx, Hy. destruct Hx as [Hx Tx], Hy as [Hy Ty].
      apply (wr_rows idx W) in Hx. apply newid_mono; try assumption. lia.
    + apply sincr_filter, (wr_sorted idx W).
  - intros k r H. rewrite R in H. apply in_frows in H. destruct H as [x [Hx [T <-]]].
    cbn [filtered_raw nrows]. apply (wr_rows idx W) in Hx. apply newid_range; [lia | assumption].
  - intros hc v v' r H H'. rewrite R in H, H'. apply in_frows in H, H'.
    destruct H as [x [Hx [T E]]], H' as [x' [Hx' [T' E']]].
    assert (x = x').
    { pose proof (wr_rows idx W _ _ Hx). pose proof (wr_rows idx W _ _ Hx').
      apply (newid_inj mask); first [assumption | lia | congruence]. }
    subst x'. eapply (wr_excl idx W); eassumption.
Qed.

(* ====================================================================================== *)
(* Part 4: the dense content: a[mask]                                                      *)
(* ====================================================================================== *)
Lemma filtered_raw_listed idx mask r hc v : WF idx -> Z.of_nat (length mask) = nrows idx ->
  0 <= r < nrows (filtered_raw idx mask) ->
  (listed (filtered_raw idx mask) r hc v <-> listed idx (nth (Z.to_nat r) (kept_rows mask) 0) hc v).
Proof.
  intros W0 Hlen Hr. pose proof W0 as W. apply WF_WFr in W. pose proof (wr_keys idx W) as ND.
  cbn [filtered_raw nrows] in Hr. destruct (newid_kept mask r Hr) as [Hx [T E]].
  set (x := nth (Z.to_nat r) (kept_rows mask) 0) in *.
  rewrite (listed_rows_at idx x hc v ND).
  rewrite (listed_rows_at (filtered_raw idx mask) r hc v) by (cbn [filtered_raw entries]; apply nodup_filtered_entries).
  rewrite (rows_at_filtered_raw idx mask _ ND), in_frows. split.
  - intros [y [Hy [Ty Ey]]]. pose proof (wr_rows idx W _ _ Hy).
    assert (y = x) by (apply (newid_inj mask); first [assumption | lia | congruence]). subst y. assumption.
  - intros H. exists x. auto.
Qed.

Theorem filtered_raw_dense idx mask r hc : WF idx -> Z.of_nat (length mask) = nrows idx ->
   0 <= r < nrows (filtered_raw idx mask) -> in_hshape hc (hshape idx) ->
   dense (filtered_raw idx mask) r hc = dense idx (nth (Z.to_nat r) (kept_rows mask) 0) hc.
Proof.
  intros W Hlen Hr _.
  pose proof (filtered_raw_wf idx mask W Hlen) as W'.
  destruct (dense_cases idx (nth (Z.to_nat r) (kept_rows mask) 0) hc) as [L|[U E]].
  - apply dense_listed; [assumption|]. apply filtered_raw_listed; assumption.
  - rewrite E. change (common idx) with (common (filtered_raw idx mask)). apply dense_unlisted. intros v L. apply (U v). apply filtered_raw_listed in L; assumption.
Qed.

(* the same, as the refinement statement of Step.v *)
Corollary filtered_raw_refines idx mask : WF idx -> Z.of_nat (length mask) = nrows idx ->
  refines (filtered_raw idx mask) (spec_filtered (darr_of idx) mask).
Proof.
  intros W Hlen. unfold refines, spec_filtered, darr_of, d_in_range. cbn [dn dhs df].
  split; [reflexivity|]. split; [reflexivity|]. intros r hc [Hr Hh].
  apply filtered_raw_dense; assumption.
Qed.
