(* IIndex/History.v - C06/C07 over histories: totality, well-formedness and refinement of every
   step of the operation ADT of Step.v, lifted to arbitrary finite histories by induction over [run]. *)
From Coq Require Import ZArith List Bool Lia.
From Catii Require Import Base.Sorted IIndex.Model IIndex.ModelFacts IIndex.Res IIndex.OpsB IIndex.OpsA IIndex.Step
  IIndex.ShiftCommon IIndex.OpsAProofs_Append IIndex.OpsAProofs_Update IIndex.OpsAProofs_Filtered
  IIndex.OpsAProofs_FilteredAuto IIndex.OpsAProofs_Observers IIndex.OpsAProofs_SetIf IIndex.ArgsOkB
  IIndex.OpsBFacts IIndex.OpsBProofs_reindexed IIndex.OpsBProofs_sliced IIndex.OpsBProofs_stack
  IIndex.OpsBProofs_collapsed IIndex.HistorySpec.
Import ListNotations.
Open Scope Z_scope.

Lemma refines_self idx : refines idx (darr_of idx).
Proof. unfold refines, darr_of. cbn [dn dhs df]. auto. Qed.

Lemma refines_range idx d r hc : refines idx d -> d_in_range d r hc -> in_range idx r hc.
Proof. intros [N [S _]] [Hr Hh]. split; [rewrite N; exact Hr|rewrite S; exact Hh]. Qed.

(* ================================================================== totality *)
Theorem step_total idx o : WF idx -> args_ok idx o -> exists idx', step idx o = Ok idx'.
Proof.
  intros W OK. destruct o; cbn [step args_ok] in *; try (eexists; reflexivity).
  - destruct OK as [_ [Hs Hn]]. rewrite Hs, zl_eqb_refl. apply Z.leb_le in Hn. rewrite Hn. eexists. reflexivity.
  - unfold filtered_ok in OK. rewrite OK, Z.eqb_refl. eexists. reflexivity.
  - apply collapsed_total; assumption.
  - destruct OK as [->|OK]; [eexists; reflexivity|]. rewrite (sliced_ok idx orders OK). eexists. reflexivity.
  - apply column_stack_total. exact OK.
Qed.

(* ================================================================== C07: every step preserves WF *)
Theorem step_wf idx o idx' : WF idx -> args_ok idx o -> step idx o = Ok idx' -> WF idx'.
Proof.
  intros W OK E. destruct o; cbn [step args_ok] in *; try (inversion E; subst; exact W).
  - inversion E; subst. apply shift_common_auto_wf. exact W.
  - inversion E; subst. apply shift_common_wf. exact W.
  - destruct OK as [Wo AO]. destruct (_ && _); [|discriminate]. inversion E; subst. apply append_wf; assumption.
  - inversion E; subst. apply update_wf; assumption.
  - inversion E; subst. apply union_update_wf; assumption.
  - inversion E; subst. apply intersection_update_wf; assumption.
  - inversion E; subst. apply difference_update_wf; assumption.
  - inversion E; subst. apply set_if_wf'; assumption.
  - destruct (_ =? _); [|discriminate]. inversion E; subst. apply filtered_wf; assumption.
  - inversion E; subst. apply reindexed_wf. exact W.
  - eapply collapsed_wf; eassumption.
  - destruct OK as [->|OK]; [cbn [sliced] in E; inversion E; subst; exact W|]. eapply sliced_wf; eassumption.
  - eapply column_stack_wf; eassumption.
Qed.

Theorem history_wf : forall ops s0, WF s0 -> hist_ok s0 ops -> exists s, run s0 ops = Ok s /\ WF s.
Proof.
  induction ops as [|o ops IH]; intros s0 W H; cbn [run].
  - exists s0. auto.
  - destruct H as [OK Hrest]. destruct (step_total s0 o W OK) as [s1 E]. rewrite E.
    apply IH; [eapply step_wf; eassumption|apply Hrest; exact E].
Qed.

(* the form of DESIGN 4/C07: if the run succeeds the final state is well-formed *)
Corollary history_wf_run ops s0 s : WF s0 -> hist_ok s0 ops -> run s0 ops = Ok s -> WF s.
Proof. intros W H E. destruct (history_wf ops s0 W H) as [s' [E' W']]. congruence. Qed.

(* ================================================================== C06: every step tracks NumPy *)
Lemma d_values_listed idx d : WF idx -> refines idx d -> d_values (common idx) d = listed_values idx.
Proof.
  intros W [N [S D]]. apply sincr_ext; [apply sort_uniq_sincr|apply sort_uniq_sincr|].
  intros v. unfold d_values, listed_values. rewrite !in_sort_uniq, filter_In, !in_map_iff. split.
  - intros [[[r hc] [E Hin]] Nc]. cbn [fst snd] in E. apply negb_true_iff, Z.eqb_neq in Nc.
    unfold d_cells in Hin. apply in_flat_map in Hin. destruct Hin as [r' [Hr Hin]]. apply in_map_iff in Hin.
    destruct Hin as [hc' [E' Hh]]. inversion E'; subst r' hc'. apply in_zrange in Hr. apply in_all_hcs in Hh.
    rewrite <- (D r hc) in E by (split; assumption). subst v.
    apply dense_not_common_listed in Nc. destruct Nc as [rows [Hin _]].
    exists ((dense idx r hc, hc), rows). auto.
  - intros [[[v' hc] rows] [E Hin]]. cbn [fst] in E. subst v'.
    pose proof (wf_nonempty idx W _ _ Hin) as NE. destruct rows as [|r rows]; [congruence|].
    assert (L : listed idx r hc v) by (exists (r :: rows); split; [exact Hin|left; reflexivity]).
    destruct (wf_listed_in_range idx r hc v W L) as [Hr Hh]. split.
    + exists (r, hc). cbn [fst snd]. split.
      * rewrite <- (D r hc) by (split; [rewrite <- N; exact Hr|rewrite <- S; exact Hh]). apply dense_listed; assumption.
      * unfold d_cells. apply in_flat_map. exists r. split; [apply in_zrange; rewrite <- N; exact Hr|].
        apply in_map. apply in_all_hcs. rewrite <- S. exact Hh.
    + apply negb_true_iff, Z.eqb_neq. apply (wf_nocommon idx W _ _ Hin).
Qed.

Lemma spec_fun_model idx d m : WF idx -> refines idx d -> forall v, spec_fun (common idx) d m v = reindex_fun idx m v.
Proof.
  intros W R v. destruct m as [m|]; [reflexivity|]. unfold spec_fun, d_default_fun, reindex_fun, default_mapping.
  rewrite (d_values_listed idx d W R). reflexivity.
Qed.

Lemma row_vals_refines idx d f r : refines idx d -> 0 <= r < nrows idx ->
  map (fun hc => f (df d r hc)) (all_hcs (dhs d)) = row_vals idx f r.
Proof.
  intros [N [S D]] Hr. unfold row_vals. rewrite <- S. apply map_ext_in. intros hc Hin. apply in_all_hcs in Hin.
  rewrite D; [reflexivity|]. split; [rewrite <- N; exact Hr|rewrite <- S; exact Hin].
Qed.

(* column_stack *)
Lemma cs_width_d ii d : refines ii d -> cs_width ii = d_width d.
Proof. intros [_ [S _]]. unfold cs_width, d_width. rewrite S. reflexivity. Qed.
Lemma cs_off_d idxs ds : Forall2 refines idxs ds -> cs_off idxs = d_off ds.
Proof. induction 1 as [|ii d idxs ds R _ IH]; cbn [cs_off d_off]; [reflexivity|]. rewrite IH, (cs_width_d ii d R). reflexivity. Qed.

Lemma cs_lookup_spec p1 ds1 : Forall2 refines p1 ds1 -> forall ii d ds2 r c,
  refines ii d -> Forall (fun x => 0 <= cs_width x) p1 -> (length (hshape ii) <= 1)%nat ->
  0 <= c < cs_width ii -> 0 <= r < nrows ii ->
  cs_lookup (ds1 ++ d :: ds2) r (cs_off p1 + c) = dense ii r (cs_col ii c).
Proof.
  induction 1 as [|x dx p1 ds1 Rx F IH]; intros ii d ds2 r c R NN L1 Hc Hr.
  - cbn [app cs_lookup cs_off]. rewrite Z.add_0_l. rewrite <- (cs_width_d ii d R).
    destruct (Z.ltb_spec c (cs_width ii)); [|lia]. destruct R as [N [S D]].
    unfold d_col, cs_col. rewrite <- S. symmetry. apply D. split; [rewrite <- N; exact Hr|].
    rewrite <- S. unfold cs_width in Hc. destruct (hshape ii) as [|e [|e2 t]]; cbn [length] in L1; try lia.
    + constructor.
    + constructor; [exact Hc|constructor].
  - inversion NN as [|? ? Hx NN']; subst. pose proof (cs_off_nonneg p1 NN') as Hoff.
    cbn [app cs_lookup cs_off]. rewrite <- (cs_width_d x dx Rx).
    destruct (Z.ltb_spec (cs_width x + cs_off p1 + c) (cs_width x)); [lia|].
    replace (cs_width x + cs_off p1 + c - cs_width x) with (cs_off p1 + c) by lia.
    apply IH; assumption.
Qed.

Lemma cs_input_width n ii : cs_input_ok n ii -> 0 <= cs_width ii.
Proof.
  intros [W [_ L]]. unfold cs_width. pose proof (wf_hshape ii W) as F. destruct (hshape ii) as [|e t]; [lia|].
  inversion F; subst. assumption.
Qed.

Theorem column_stack_refines idxs ds nc out : cs_args_ok idxs -> Forall2 refines idxs ds ->
  column_stack idxs nc = Ok out -> refines out (spec_column_stack ds).
Proof.
  intros OK F E. destruct (column_stack_shape idxs nc out OK E) as [N [S _]].
  assert (IO : exists i0, Forall (cs_input_ok (nrows i0)) idxs /\ hd out idxs = i0).
  { unfold cs_args_ok in OK. destruct idxs as [|i0 rest]; [contradiction|]. exists i0. auto. }
  destruct IO as [i0 [IO Hhd]]. rewrite Hhd in N.
  assert (NNw : Forall (fun x => 0 <= cs_width x) idxs).
  { apply Forall_forall. intros x Hx. rewrite Forall_forall in IO. eapply cs_input_width. apply IO. exact Hx. }
  unfold refines, spec_column_stack. cbn [dn dhs df]. split; [|split].
  - rewrite N. destruct F as [|x dx l l' R F]; cbn [hd] in *; [unfold cs_args_ok in OK; contradiction|].
    subst x. destruct R as [R _]. exact R.
  - rewrite S, (cs_off_d idxs ds F). reflexivity.
  - intros r hc [Hr Hh]. cbn [dn dhs] in Hr, Hh. apply in_hshape_single in Hh. destruct Hh as [c [-> Hc]]. cbn [hd].
    rewrite <- (cs_off_d idxs ds F) in Hc.
    destruct (column_stack_cover idxs NNw c Hc) as (p1 & ii & p2 & c0 & Ei & Hc0 & Ec). subst c.
    assert (Hii : cs_input_ok (nrows i0) ii).
    { rewrite Forall_forall in IO. apply IO. rewrite Ei. apply in_or_app. right. left. reflexivity. }
    assert (Hr' : 0 <= r < nrows i0).
    { destruct F as [|x dx l l' R F]; cbn [hd] in *; [unfold cs_args_ok in OK; contradiction|]. subst x.
      destruct R as [R _]. rewrite R. exact Hr. }
    rewrite (column_stack_dense idxs nc out OK E p1 ii p2 Ei r c0) by (rewrite ?N; assumption).
    rewrite Ei in F. apply Forall2_app_inv_l in F. destruct F as (ds1 & ds2' & F1 & F2 & ->).
    inversion F2 as [|? d ? ds2 R F2']; subst. symmetry. destruct Hii as [_ [Nii Lii]].
    apply cs_lookup_spec; try assumption.
    + apply Forall_app in NNw. tauto.
    + rewrite Nii. exact Hr'.
Qed.

Lemma Forall2_refines_self l : Forall2 refines l (map darr_of l).
Proof. induction l; cbn [map]; constructor; [apply refines_self|assumption]. Qed.

(* the step theorem: the result of every operation stands for what NumPy computes *)
Theorem step_refines idx d o idx' : WF idx -> args_ok idx o -> refines idx d -> step idx o = Ok idx' ->
  refines idx' (spec_step (common idx) d o).
Proof.
  intros W OK R E. pose proof R as [N [S D]].
  destruct o; cbn [step args_ok spec_step] in *; try (inversion E; subst; exact R).
  - (* shift_common() *) inversion E; subst. destruct (shift_common_auto_shape idx) as [N' S'].
    split; [congruence|]. split; [congruence|]. intros r hc H. rewrite shift_common_auto_dense; [apply D; exact H|exact W|].
    eapply refines_range; eassumption.
  - (* shift_common(v) *) inversion E; subst. destruct (shift_common_shape idx v) as [N' S'].
    split; [congruence|]. split; [congruence|]. intros r hc H. rewrite shift_common_dense; [apply D; exact H|exact W|].
    eapply refines_range; eassumption.
  - (* append *) destruct OK as [Wo AO]. destruct (_ && _); [|discriminate]. inversion E; subst.
    apply append_refines; try assumption. apply refines_self.
  - (* update *) inversion E; subst. apply update_refines; assumption.
  - (* union_update *) inversion E; subst. destruct (set_update_shape idx other) as [[N' [S' _]] _].
    unfold spec_update. split; [cbn [dn]; congruence|]. split; [cbn [dhs]; congruence|]. cbn [dn dhs df].
    intros r hc H. rewrite union_update_dense by assumption. rewrite (D r hc H). reflexivity.
  - (* intersection_update *) inversion E; subst. destruct (set_update_shape idx other) as [_ [[N' [S' _]] _]].
    unfold spec_inter. split; [cbn [dn]; congruence|]. split; [cbn [dhs]; congruence|]. cbn [dn dhs df].
    intros r hc H. rewrite intersection_update_dense by assumption. rewrite (D r hc H). reflexivity.
  - (* difference_update *) inversion E; subst. destruct (set_update_shape idx other) as [_ [_ [N' [S' _]]]].
    unfold spec_diff. split; [cbn [dn]; congruence|]. split; [cbn [dhs]; congruence|]. cbn [dn dhs df].
    intros r hc H. rewrite difference_update_dense by assumption. rewrite (D r hc H). reflexivity.
  - (* set_if *) inversion E; subst. unfold spec_set_if. split; [exact N|]. split; [exact S|]. cbn [dn dhs df].
    intros r hc H. rewrite set_if_dense by assumption. rewrite (D r hc H). reflexivity.
  - (* filtered *) destruct (_ =? _); [|discriminate]. inversion E; subst. apply filtered_refines; assumption.
  - (* reindexed *) inversion E; subst. destruct (reindexed_shape idx m shift) as [N' S'].
    unfold spec_map. split; [cbn [dn]; congruence|]. split; [cbn [dhs]; congruence|]. cbn [dn dhs df].
    intros r hc H. rewrite reindexed_dense; [|exact W|eapply refines_range; eassumption].
    rewrite (spec_fun_model idx d m W R), (D r hc H). reflexivity.
  - (* collapsed *) destruct (collapsed_shape idx prec m idx' W OK E) as [N' S'].
    unfold spec_collapsed. split; [cbn [dn]; congruence|]. split; [cbn [dhs]; exact S'|]. cbn [dn dhs df].
    intros r hc [Hr Hh]. inversion Hh; subst hc. rewrite <- N in Hr.
    rewrite (collapsed_dense idx prec m idx' r W OK E Hr). rewrite (row_vals_refines idx d _ r R Hr). reflexivity.
  - (* sliced *) destruct OK as [->|OK]; [cbn [sliced spec_sliced] in *; inversion E; subst; exact R|].
    destruct (sliced_shape idx orders idx' OK E) as [N' [S' _]]. unfold spec_sliced.
    destruct orders as [|o os].
    + cbn [sliced] in E. inversion E; subst. exact R.
    + split; [cbn [dn]; congruence|]. split; [cbn [dhs]; congruence|]. cbn [dn dhs df]. intros r hc' [Hr Hh].
      assert (IR : in_range idx' r hc') by (split; [rewrite N', N; exact Hr|rewrite S', S; exact Hh]).
      rewrite (sliced_dense idx (o :: os) idx' r hc' W OK E IR). apply D.
      destruct (sliced_unslice_in_range idx (o :: os) idx' r hc' OK E IR) as [A B].
      split; [rewrite <- N; exact A|rewrite <- S; exact B].
  - (* column_stack *) eapply column_stack_refines; [exact OK| |exact E].
    apply Forall2_app; [apply Forall2_refines_self|]. constructor; [exact R|apply Forall2_refines_self].
Qed.

(* ================================================================== the history theorem *)
Theorem history_refines : forall ops s0 d0, WF s0 -> refines s0 d0 -> hist_ok s0 ops ->
  exists s, run s0 ops = Ok s /\ WF s /\ refines s (spec_run s0 d0 ops).
Proof.
  induction ops as [|o ops IH]; intros s0 d0 W R H; cbn [run spec_run].
  - exists s0. auto.
  - destruct H as [OK Hrest]. destruct (step_total s0 o W OK) as [s1 E]. rewrite E.
    apply IH; [eapply step_wf; eassumption|eapply step_refines; eassumption|apply Hrest; exact E].
Qed.

(* starting from the array the index stands for *)
Corollary history_dense ops s0 : WF s0 -> hist_ok s0 ops ->
  exists s, run s0 ops = Ok s /\ WF s /\ refines s (spec_run s0 (darr_of s0) ops).
Proof. intros W H. apply history_refines; [exact W|apply refines_self|exact H]. Qed.

(* for histories of operations whose NumPy meaning does not mention the common value, the NumPy side
   is a plain fold over the dense array (the statement of DESIGN 4/C06) *)
Lemma spec_step_common_free c c' d o : common_free o = true -> spec_step c d o = spec_step c' d o.
Proof. destruct o; cbn [common_free spec_step]; try reflexivity; try discriminate. destruct m; [reflexivity|discriminate]. Qed.

Theorem spec_run_fold : forall ops s0 d0, WF s0 -> hist_ok s0 ops -> forallb common_free ops = true ->
  spec_run s0 d0 ops = fold_left (spec_step 0) ops d0.
Proof.
  induction ops as [|o ops IH]; intros s0 d0 W H CF; cbn [spec_run fold_left]; [reflexivity|].
  cbn [forallb] in CF. apply andb_true_iff in CF. destruct CF as [C1 C2].
  destruct H as [OK Hrest]. destruct (step_total s0 o W OK) as [s1 E]. rewrite E.
  rewrite (spec_step_common_free (common s0) 0 d0 o C1).
  apply IH; [eapply step_wf; eassumption|apply Hrest; exact E|exact C2].
Qed.

Corollary history_refines_fold ops s0 d0 : WF s0 -> refines s0 d0 -> hist_ok s0 ops ->
  forallb common_free ops = true ->
  exists s, run s0 ops = Ok s /\ WF s /\ refines s (fold_left (spec_step 0) ops d0).
Proof.
  intros W R H CF. rewrite <- (spec_run_fold ops s0 d0 W H CF). apply history_refines; assumption.
Qed.
