(* IIndex/OpsAProofs_SetIf.v - set_if (iindexes.py:524): the dense effect of replacing one entry.
   Under [set_if_ok] (ArgsOkB.v; the hypotheses of set_if_wf) the cells of column (snd k) listed in v
   obtain the value fst k, the cells that were listed under k and are not in v fall back to the common
   value, and nothing else changes. *)
From Coq Require Import ZArith List Bool Lia.
From Catii Require Import Base.Sorted IIndex.Model IIndex.ModelFacts IIndex.OpsA IIndex.OpsAProofs_Update IIndex.ArgsOkB.
Import ListNotations.
Open Scope Z_scope.

Theorem set_if_wf' idx k v : WF idx -> set_if_ok idx k v -> WF (set_if idx k v).
Proof. intros W (H1 & H2 & H3 & H4). apply set_if_wf; assumption. Qed.

Theorem set_if_shape idx k v :
  nrows (set_if idx k v) = nrows idx /\ hshape (set_if idx k v) = hshape idx /\ common (set_if idx k v) = common idx.
Proof. repeat split. Qed.

Theorem listed_set_if idx k v r hc u : NoDup (keys (entries idx)) ->
  (listed (set_if idx k v) r hc u <-> if key_eqb (u, hc) k then In r v else listed idx r hc u).
Proof.
  intros ND. rewrite listed_rows_at by (unfold set_if, with_entries; cbn [entries]; apply nodup_assoc_set_if; exact ND).
  rewrite set_if_rows. destruct (key_eqb (u, hc) k); [tauto|]. rewrite listed_rows_at by exact ND. tauto.
Qed.

Theorem set_if_dense idx k v r hc : WF idx -> set_if_ok idx k v ->
  dense (set_if idx k v) r hc =
  if zl_eqb hc (snd k)
  then (if memZ r v then fst k else if dense idx r hc =? fst k then common idx else dense idx r hc)
  else dense idx r hc.
Proof.
  intros W OK. pose proof (set_if_wf' idx k v W OK) as W'. pose proof (wf_keys idx W) as ND.
  destruct k as [kv kh]. cbn [fst snd].
  assert (Keep : forall u, (u, hc) <> (kv, kh) -> (listed (set_if idx (kv, kh) v) r hc u <-> listed idx r hc u)).
  { intros u N. rewrite listed_set_if by exact ND. destruct (key_eqb_spec (u, hc) (kv, kh)); [contradiction|tauto]. }
  assert (Same : (forall u, listed idx r hc u -> (u, hc) <> (kv, kh)) ->
                 (forall u, listed (set_if idx (kv, kh) v) r hc u -> (u, hc) <> (kv, kh)) ->
                 dense (set_if idx (kv, kh) v) r hc = dense idx r hc).
  { intros H1 H2. destruct (dense_cases idx r hc) as [L|[U E]].
    - apply dense_listed; [exact W'|]. apply Keep; [apply H1; exact L|exact L].
    - rewrite E. change (common idx) with (common (set_if idx (kv, kh) v)). apply dense_unlisted.
      intros u L. apply (U u). apply Keep; [apply H2; exact L|exact L]. }
  destruct (zl_eqb hc kh) eqn:Eh.
  - apply zl_eqb_eq in Eh. subst kh. destruct (memZ r v) eqn:Mv.
    + apply dense_listed; [exact W'|]. rewrite listed_set_if by exact ND. rewrite key_eqb_refl. apply memZ_In. exact Mv.
    + apply memZ_false in Mv. destruct (Z.eqb_spec (dense idx r hc) kv) as [Ed|Nd].
      * change (common idx) with (common (set_if idx (kv, hc) v)). apply dense_unlisted. intros u L.
        rewrite listed_set_if in L by exact ND. destruct (key_eqb_spec (u, hc) (kv, hc)) as [E|N]; [contradiction|].
        apply N. f_equal. rewrite <- Ed. symmetry. apply dense_listed; assumption.
      * apply Same.
        -- intros u L E. inversion E; subst u. apply Nd. apply dense_listed; assumption.
        -- intros u L E. inversion E; subst u. rewrite listed_set_if in L by exact ND. rewrite key_eqb_refl in L. contradiction.
  - apply Same; intros u _ E; inversion E; subst; rewrite zl_eqb_refl in Eh; discriminate.
Qed.
