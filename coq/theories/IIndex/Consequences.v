(* IIndex/Consequences.v - what well-formedness buys the users of an index (C07 "consequently ..."):
   no listed value occurs nowhere, hence the extent a cube infers for the dimension
   (ccubes.py:57-59: max([coords[0] for coords in d] + [d.common]) + 1) is reached by a value that
   occurs, unless it is the common value itself.  (abscissae and sparsity: Count.wf_abscissae, wf_sparsity.) *)
From Coq Require Import ZArith List Bool Lia.
From Catii Require Import Base.Sorted IIndex.Model IIndex.ModelFacts.
Import ListNotations.
Open Scope Z_scope.

Definition listed_vals (idx : iindex) : list Z := map (fun e : entry => fst (fst e)) (entries idx).

Theorem wf_listed_occurs idx v : WF idx -> In v (listed_vals idx) ->
  exists r hc, in_range idx r hc /\ dense idx r hc = v.
Proof.
  intros W Hv. unfold listed_vals in Hv. apply in_map_iff in Hv. destruct Hv as [[[v' hc] rows] [E Hin]].
  cbn [fst] in E. subst v'. pose proof (wf_nonempty idx W _ _ Hin) as NE. destruct rows as [|r rows]; [congruence|].
  assert (L : listed idx r hc v) by (exists (r :: rows); split; [exact Hin|left; reflexivity]).
  exists r, hc. split; [eapply wf_listed_in_range; eassumption|apply dense_listed; assumption].
Qed.

Definition infer_extent (idx : iindex) : Z := fold_left Z.max (listed_vals idx) (common idx) + 1.

Lemma fold_max_spec l : forall x, (fold_left Z.max l x = x \/ In (fold_left Z.max l x) l) /\
  x <= fold_left Z.max l x /\ forall v, In v l -> v <= fold_left Z.max l x.
Proof.
  induction l as [|y l IH]; intros x; cbn [fold_left].
  - split; [left; reflexivity|]. split; [lia|intros v []].
  - destruct (IH (Z.max x y)) as [H1 [H2 H3]]. split; [|split; [lia|]].
    + destruct H1 as [H1|H1]; [|right; right; exact H1]. rewrite H1.
      destruct (Z.max_spec x y) as [[_ E]|[_ E]]; rewrite E; [right; left; reflexivity|left; reflexivity].
    + intros v [<-|Hv]; [lia|apply H3; exact Hv].
Qed.

Theorem wf_infer_extent idx : WF idx ->
  (forall r hc, dense idx r hc < infer_extent idx) /\
  (infer_extent idx - 1 = common idx \/
   exists r hc, in_range idx r hc /\ dense idx r hc = infer_extent idx - 1).
Proof.
  intros W. unfold infer_extent. destruct (fold_max_spec (listed_vals idx) (common idx)) as [H1 [H2 H3]]. split.
  - intros r hc. destruct (dense_cases idx r hc) as [[rows [Hin _]]|[_ E]]; [|lia].
    assert (In (dense idx r hc) (listed_vals idx)).
    { unfold listed_vals. apply in_map_iff. exists ((dense idx r hc, hc), rows). auto. }
    specialize (H3 _ H). lia.
  - destruct H1 as [E|Hin]; [left; lia|right].
    replace (fold_left Z.max (listed_vals idx) (common idx) + 1 - 1) with (fold_left Z.max (listed_vals idx) (common idx)) by lia.
    apply wf_listed_occurs; assumption.
Qed.
