(* IIndex/Res.v — result type shared by the iindex operation models (opsA, opsB).
   Err e models "the Python call raises an exception of class e"; the receiver
   is then left as it was (the models never return a half-updated state). *)

Inductive err := ETypeError | EValueError | EKeyError | EOverflow | EIndexError | EOther.

Inductive res (A : Type) := Ok (a : A) | Err (e : err).
Arguments Ok {A} a.
Arguments Err {A} e.

Definition res_bind {A B : Type} (r : res A) (f : A -> res B) : res B :=
  match r with Ok a => f a | Err e => Err e end.

Definition res_map {A B : Type} (f : A -> B) (r : res A) : res B :=
  match r with Ok a => Ok (f a) | Err e => Err e end.

Definition is_ok {A : Type} (r : res A) : bool :=
  match r with Ok _ => true | Err _ => false end.

Definition err_eqb (a b : err) : bool :=
  match a, b with
  | ETypeError, ETypeError | EValueError, EValueError | EKeyError, EKeyError
  | EOverflow, EOverflow | EIndexError, EIndexError | EOther, EOther => true
  | _, _ => false
  end.
