(* IIndex/OpsAProofs_Append.v — C06/C07 for append (iindexes.py:848): vertical stacking.
   NumPy specification: numpy.concatenate([a, b]).

   Part 1: extend (self[k] = shifted / numpy.append(self[k], shifted)) in the rows_at view.
   Part 2: the two loops (append_entries over other.items(), append_common over the columns).
   Part 3: rows_at / listed characterisation of append_raw.
   Part 4: well-formedness and the dense array of append_raw.
   Part 5: append = shift_common_auto after append_raw; refinement of spec_append.
   No axioms. *)
From Coq Require Import ZArith List Bool Lia.
From Catii Require Import Base.Sorted IIndex.Model IIndex.ModelFacts IIndex.OpsA IIndex.ShiftCommon IIndex.Step.
Import ListNotations.
Open Scope Z_scope.

(* the quantifier of the append theorems: same higher extents, the row ids still fit uint32 *)
Definition append_ok (idx other : iindex) : Prop :=
  hshape other = hshape idx /\ nrows idx + nrows other <= 2 ^ 32.

(* ====================================================================================== *)
(* Part 0: small helpers                                                                   *)
(* ====================================================================================== *)
Lemma ap_rows_at_cons k k0 r0 es : rows_at k ((k0, r0) :: es) = if key_eqb k k0 then r0 else rows_at k es.
Proof. unfold rows_at. cbn [assoc_get]. destruct (key_eqb k k0); reflexivity. Qed.
Lemma ap_rows_at_absent k es : ~ In k (keys es) -> rows_at k es = [].
Proof. intros H. apply assoc_get_None in H. unfold rows_at. rewrite H. reflexivity. Qed.

Lemma in_shift d l r : In r (shift_rows d l) <-> exists r', r = r' + d /\ In r' l.
Proof.
  unfold shift_rows. rewrite in_map_iff.
  split; intros [x [H1 H2]]; exists x; (split; [lia|assumption]).
Qed.
Lemma sincr_shift d l : sincr l -> sincr (shift_rows d l).
Proof. intros H. unfold shift_rows. apply sincr_map_mono; [intros; lia|assumption]. Qed.
Lemma shift_nil_iff d l : shift_rows d l = [] <-> l = [].
Proof. unfold shift_rows. destruct l; cbn [map]; split; congruence. Qed.
Lemma sincr_app_shift d a b :
  sincr a -> sincr b -> (forall x, In x a -> x < d) -> (forall y, In y b -> 0 <= y) ->
  sincr (a ++ shift_rows d b).
Proof.
  intros Ha Hb Hlt Hge. apply sincr_app; [assumption | apply sincr_shift; assumption |].
  intros x y Hx Hy. apply in_shift in Hy. destruct Hy as [y' [-> Hy]].
  specialize (Hlt x Hx). specialize (Hge y' Hy). lia.
Qed.

(* ====================================================================================== *)
(* Part 1: extend                                                                          *)
(* ====================================================================================== *)
Lemma extend_rows_at k rows es k' :
  rows_at k' (extend k rows es) = if key_eqb k' k then rows_at k es ++ rows else rows_at k' es.
Proof.
  unfold extend. destruct (assoc_get k es) as [old|] eqn:E; rewrite rows_at_set.
  - assert (rows_at k es = old) as -> by (unfold rows_at; rewrite E; reflexivity). reflexivity.
  - assert (rows_at k es = []) as -> by (unfold rows_at; rewrite E; reflexivity). reflexivity.
Qed.
Lemma extend_nodup k rows es : NoDup (keys es) -> NoDup (keys (extend k rows es)).
Proof. intros ND. unfold extend. destruct (assoc_get k es); apply nodup_assoc_set; assumption. Qed.
Lemma extend_nonempty k rows es : rows <> [] -> nonempty_es es -> nonempty_es (extend k rows es).
Proof.
  intros Hr NE. unfold extend. destruct (assoc_get k es) as [old|] eqn:E; apply nonempty_assoc_set; try assumption.
  intros H. apply app_eq_nil in H. destruct H as [_ H]. contradiction.
Qed.

(* ====================================================================================== *)
(* Part 2: the two loops                                                                   *)
(* ====================================================================================== *)
Definition ae_step (c d : Z) (es : list entry) (e : entry) : list entry :=
  if Z.eqb (fst (fst e)) c then es else extend (fst e) (shift_rows d (snd e)) es.
Lemma append_entries_fold c d l es : append_entries c d l es = fold_left (ae_step c d) l es.
Proof. reflexivity. Qed.

Lemma append_entries_rows_at c d l : NoDup (keys l) -> forall es k,
  rows_at k (append_entries c d l es) =
  rows_at k es ++ (if fst k =? c then [] else shift_rows d (rows_at k l)).
Proof.
  induction l as [|[k0 r0] l IH]; intros ND es k; rewrite append_entries_fold; cbn [fold_left].
  - rewrite rows_at_nil. cbn [shift_rows map]. destruct (fst k =? c); rewrite app_nil_r; reflexivity.
  - unfold keys in ND. cbn [map fst] in ND. inversion ND as [|? ? Hn ND']; subst.
    rewrite <- append_entries_fold, (IH ND'). rewrite ap_rows_at_cons.
    unfold ae_step. cbn [fst snd].
    destruct (Z.eqb_spec (fst k0) c) as [E0|N0].
    + destruct (key_eqb_spec k k0) as [->|N]; [|reflexivity].
      rewrite E0, Z.eqb_refl. reflexivity.
    + rewrite extend_rows_at. destruct (key_eqb_spec k k0) as [->|N]; [|reflexivity].
      destruct (Z.eqb_spec (fst k0) c) as [|_]; [contradiction|].
      rewrite (ap_rows_at_absent k0 l Hn). cbn [shift_rows map]. rewrite app_nil_r. reflexivity.
Qed.
Lemma append_entries_nodup c d l : forall es, NoDup (keys es) -> NoDup (keys (append_entries c d l es)).
Proof.
  induction l as [|e l IH]; intros es ND; rewrite append_entries_fold; cbn [fold_left]; [assumption|].
  rewrite <- append_entries_fold. apply IH. unfold ae_step.
  destruct (fst (fst e) =? c); [assumption | apply extend_nodup; assumption].
Qed.
Lemma append_entries_nonempty c d l : nonempty_es l -> forall es, nonempty_es es -> nonempty_es (append_entries c d l es).
Proof.
  induction l as [|e l IH]; intros NEl es NE; rewrite append_entries_fold; cbn [fold_left]; [assumption|].
  rewrite <- append_entries_fold. apply IH.
  - intros k rows H. eapply NEl. right. eassumption.
  - unfold ae_step. destruct (fst (fst e) =? c); [assumption|]. apply extend_nonempty; [|assumption].
    intros H. apply shift_nil_iff in H. destruct e as [k rows]. cbn [snd] in H.
    eapply NEl; [left; reflexivity | exact H].
Qed.

Definition ac_step (other : iindex) (d : Z) (es : list entry) (hc : list Z) : list entry :=
  match shift_rows d (common_rowids other hc) with
  | [] => es
  | rows => extend (common other, hc) rows es
  end.
Lemma append_common_fold other d hcs es : append_common other d hcs es = fold_left (ac_step other d) hcs es.
Proof. reflexivity. Qed.
Lemma ac_step_rows_at other d es hc k :
  rows_at k (ac_step other d es hc) =
  if key_eqb k (common other, hc) then rows_at k es ++ shift_rows d (common_rowids other hc) else rows_at k es.
Proof.
  unfold ac_step. destruct (shift_rows d (common_rowids other hc)) as [|x l] eqn:E.
  - rewrite app_nil_r. destruct (key_eqb k (common other, hc)); reflexivity.
  - rewrite extend_rows_at. destruct (key_eqb_spec k (common other, hc)) as [->|N]; reflexivity.
Qed.
Lemma append_common_rows_at other d hcs : NoDup hcs -> forall es k,
  rows_at k (append_common other d hcs es) =
  rows_at k es ++ (if (fst k =? common other) && existsb (zl_eqb (snd k)) hcs
                   then shift_rows d (common_rowids other (snd k)) else []).
Proof.
  induction hcs as [|hc hcs IH]; intros ND es k; rewrite append_common_fold; cbn [fold_left existsb].
  - rewrite andb_false_r, app_nil_r. reflexivity.
  - inversion ND as [|? ? Hn ND']; subst.
    rewrite <- append_common_fold, (IH ND'), ac_step_rows_at.
    destruct k as [u h]. unfold key_eqb. cbn [fst snd].
    destruct (u =? common other); cbn [andb]; [|reflexivity].
    destruct (zl_eqb h hc) eqn:E; cbn [orb].
    + apply zl_eqb_eq in E. subst hc.
      assert (existsb (zl_eqb h) hcs = false) as ->.
      { destruct (existsb (zl_eqb h) hcs) eqn:E; [|reflexivity]. apply existsb_zl_In in E. contradiction. }
      rewrite app_nil_r. reflexivity.
    + reflexivity.
Qed.
Lemma append_common_nodup other d hcs : forall es, NoDup (keys es) -> NoDup (keys (append_common other d hcs es)).
Proof.
  induction hcs as [|hc hcs IH]; intros es ND; rewrite append_common_fold; cbn [fold_left]; [assumption|].
  rewrite <- append_common_fold. apply IH. unfold ac_step.
  destruct (shift_rows d (common_rowids other hc)); [assumption | apply extend_nodup; assumption].
Qed.
Lemma append_common_nonempty other d hcs : forall es, nonempty_es es -> nonempty_es (append_common other d hcs es).
Proof.
  induction hcs as [|hc hcs IH]; intros es NE; rewrite append_common_fold; cbn [fold_left]; [assumption|].
  rewrite <- append_common_fold. apply IH. unfold ac_step.
  destruct (shift_rows d (common_rowids other hc)) eqn:E; [assumption|].
  apply extend_nonempty; [discriminate | assumption].
Qed.

(* ====================================================================================== *)
(* Part 3: append_raw, characterised                                                       *)
(* ====================================================================================== *)
Lemma append_raw_entries idx other :
  entries (append_raw idx other) =
  if common other =? common idx
  then append_entries (common idx) (nrows idx) (entries other) (entries idx)
  else append_common other (nrows idx) (all_hcs (hshape idx))
         (append_entries (common idx) (nrows idx) (entries other) (entries idx)).
Proof. reflexivity. Qed.
Lemma append_raw_nrows idx other : nrows (append_raw idx other) = nrows idx + nrows other.
Proof. reflexivity. Qed.
Lemma append_raw_hshape idx other : hshape (append_raw idx other) = hshape idx.
Proof. reflexivity. Qed.
Lemma append_raw_common idx other : common (append_raw idx other) = common idx.
Proof. reflexivity. Qed.

Lemma append_raw_nodup idx other :
  NoDup (keys (entries idx)) -> NoDup (keys (entries (append_raw idx other))).
Proof.
  intros ND. rewrite append_raw_entries. destruct (common other =? common idx).
  - apply append_entries_nodup. assumption.
  - apply append_common_nodup, append_entries_nodup. assumption.
Qed.
Lemma append_raw_nonempty idx other :
  nonempty_es (entries idx) -> nonempty_es (entries other) -> nonempty_es (entries (append_raw idx other)).
Proof.
  intros NE NEo. rewrite append_raw_entries. destruct (common other =? common idx).
  - apply append_entries_nonempty; assumption.
  - apply append_common_nonempty, append_entries_nonempty; assumption.
Qed.

(* what the key (u, hc) receives from other (before the shift by nrows idx) *)
Definition appended_rows (idx other : iindex) (u : Z) (hc : list Z) : list Z :=
  if u =? common idx then []
  else if (u =? common other) && in_hshape_b hc (hshape idx) then common_rowids other hc
  else rows_at (u, hc) (entries other).

Lemma append_raw_rows_at idx other u hc : WF other ->
  rows_at (u, hc) (entries (append_raw idx other)) =
  rows_at (u, hc) (entries idx) ++ shift_rows (nrows idx) (appended_rows idx other u hc).
Proof.
  intros Wo. pose proof (proj1 (WF_WFr other) Wo) as Wor.
  assert (R0: rows_at (common other, hc) (entries other) = []).
  { destruct (rows_at (common other, hc) (entries other)) eqn:E; [reflexivity|].
    exfalso. destruct (wr_key other Wor (common other, hc)) as [_ H]; [congruence|]. apply H. reflexivity. }
  assert (EX: existsb (zl_eqb hc) (all_hcs (hshape idx)) = in_hshape_b hc (hshape idx)).
  { destruct (in_hshape_b hc (hshape idx)) eqn:Eh.
    - apply existsb_zl_In, in_all_hcs, in_hshape_b_spec. assumption.
    - destruct (existsb (zl_eqb hc) (all_hcs (hshape idx))) eqn:E; [|reflexivity].
      apply existsb_zl_In, in_all_hcs, in_hshape_b_spec in E. congruence. }
  rewrite append_raw_entries. unfold appended_rows.
  destruct (Z.eqb_spec (common other) (common idx)) as [Ec|Nc].
  - rewrite append_entries_rows_at by apply Wo. cbn [fst].
    destruct (Z.eqb_spec u (common idx)) as [->|Hu]; [reflexivity|].
    destruct (Z.eqb_spec u (common other)) as [->|Huo]; [congruence|]. cbn [andb]. reflexivity.
  - rewrite append_common_rows_at by apply NoDup_all_hcs.
    rewrite append_entries_rows_at by apply Wo. cbn [fst snd]. rewrite EX.
    destruct (Z.eqb_spec u (common idx)) as [->|Hu].
    + destruct (Z.eqb_spec (common idx) (common other)) as [E|_]; [congruence|]. cbn [andb].
      rewrite app_nil_r. reflexivity.
    + destruct (Z.eqb_spec u (common other)) as [->|Huo]; cbn [andb].
      * rewrite R0. destruct (in_hshape_b hc (hshape idx)); cbn [shift_rows map]; rewrite ?app_nil_r; reflexivity.
      * rewrite app_nil_r. reflexivity.
Qed.

Lemma in_appended_rows idx other u hc r' : WF other -> hshape other = hshape idx ->
  (In r' (appended_rows idx other u hc) <->
   u <> common idx /\
   (listed other r' hc u \/ (u = common other /\ in_range other r' hc /\ forall w, ~ listed other r' hc w))).
Proof.
  intros Wo Hs. unfold appended_rows.
  assert (NL: ~ listed other r' hc (common other)).
  { intros H. apply (wf_listed_not_common other r' hc _ Wo H). reflexivity. }
  destruct (Z.eqb_spec u (common idx)) as [->|Hu]; [cbn [In]; tauto|].
  destruct (Z.eqb_spec u (common other)) as [->|Huo]; cbn [andb].
  - destruct (in_hshape_b hc (hshape idx)) eqn:Eh.
    + apply in_hshape_b_spec in Eh. rewrite in_common_rowids. unfold in_range. rewrite Hs. tauto.
    + rewrite <- (listed_rows_at other r' hc (common other) (wf_keys other Wo)).
      split; [tauto|]. intros [_ [H|[_ [[_ H] _]]]]; [assumption|].
      rewrite Hs in H. apply in_hshape_b_spec in H. congruence.
  - rewrite <- (listed_rows_at other r' hc u (wf_keys other Wo)). tauto.
Qed.

(* the characterising lemma *)
Lemma listed_append_raw idx other r hc v : WF idx -> WF other -> append_ok idx other ->
  (listed (append_raw idx other) r hc v <->
   listed idx r hc v \/
   (v <> common idx /\ exists r', r = r' + nrows idx /\
      (listed other r' hc v \/ (v = common other /\ in_range other r' hc /\ forall w, ~ listed other r' hc w)))).
Proof.
  intros W Wo [Hs Hn].
  rewrite (listed_rows_at _ r hc v (append_raw_nodup idx other (wf_keys idx W))).
  rewrite (append_raw_rows_at idx other v hc Wo), in_app_iff, in_shift.
  rewrite <- (listed_rows_at idx r hc v (wf_keys idx W)).
  split; (intros [H|H]; [left; assumption|right]).
  - destruct H as [r' [Er H]]. apply in_appended_rows in H; try assumption. destruct H as [Nv H].
    split; [assumption|]. exists r'. auto.
  - destruct H as [Nv [r' [Er H]]]. exists r'. split; [assumption|]. apply in_appended_rows; auto.
Qed.

(* every row id received from other is a row of other *)
Lemma appended_rows_range idx other u hc r' : WF other -> hshape other = hshape idx ->
  In r' (appended_rows idx other u hc) -> 0 <= r' < nrows other.
Proof.
  intros Wo Hs H. apply in_appended_rows in H; try assumption.
  destruct H as [_ [H|[_ [[H _] _]]]]; [|assumption].
  apply (wf_listed_in_range other r' hc u Wo) in H. apply H.
Qed.
Lemma appended_rows_sincr idx other u hc : WF other -> sincr (appended_rows idx other u hc).
Proof.
  intros Wo. pose proof (proj1 (WF_WFr other) Wo) as Wor. unfold appended_rows.
  destruct (u =? common idx); [exact I|].
  destruct ((u =? common other) && in_hshape_b hc (hshape idx)); [apply common_rowids_sincr | apply (wr_sorted other Wor)].
Qed.

(* ====================================================================================== *)
(* Part 4: append_raw: WF and dense                                                        *)
(* ====================================================================================== *)
Theorem append_raw_wf idx other : WF idx -> WF other -> append_ok idx other -> WF (append_raw idx other).
Proof.
  intros W Wo OK. pose proof OK as [Hs Hn].
  pose proof (proj1 (WF_WFr idx) W) as Wr. pose proof (proj1 (WF_WFr other) Wo) as Wor.
  pose proof (append_raw_nodup idx other (wf_keys idx W)) as ND'.
  pose proof (wf_nrows idx W) as Ni. pose proof (wf_nrows other Wo) as No.
  assert (L: forall r hc v, In r (rows_at (v, hc) (entries (append_raw idx other))) <->
             listed (append_raw idx other) r hc v).
  { intros. symmetry. apply listed_rows_at. assumption. }
  apply WF_WFr. constructor.
  - rewrite append_raw_nrows. lia.
  - rewrite append_raw_hshape. apply W.
  - exact ND'.
  - apply append_raw_nonempty; [apply Wr | apply Wor].
  - intros [v hc] Hne. cbn [fst snd]. rewrite append_raw_hshape, append_raw_common.
    destruct (rows_at (v, hc) (entries (append_raw idx other))) as [|r l] eqn:E; [congruence|].
    assert (Hin: In r (rows_at (v, hc) (entries (append_raw idx other)))) by (rewrite E; now left).
    apply L, listed_append_raw in Hin; try assumption.
    destruct Hin as [Hl|[Nv [r' [_ Hl]]]].
    + split; [apply (wf_listed_in_range idx r hc v W Hl) | apply (wf_listed_not_common idx r hc v W Hl)].
    + split; [|assumption]. rewrite <- Hs.
      destruct Hl as [Hl|[_ [[_ Hl] _]]]; [apply (wf_listed_in_range other r' hc v Wo Hl) | assumption].
  - intros [v hc]. rewrite (append_raw_rows_at idx other v hc Wo). apply sincr_app_shift.
    + apply (wr_sorted idx Wr).
    + apply appended_rows_sincr. assumption.
    + intros x Hx. apply (wr_rows idx Wr) in Hx. lia.
    + intros y Hy. apply appended_rows_range in Hy; try assumption. lia.
  - intros [v hc] r Hin. rewrite append_raw_nrows.
    rewrite (append_raw_rows_at idx other v hc Wo), in_app_iff, in_shift in Hin.
    destruct Hin as [Hin|[r' [-> Hin]]].
    + apply (wr_rows idx Wr) in Hin. lia.
    + apply appended_rows_range in Hin; try assumption. lia.
  - intros hc a b r Ha Hb. apply L, listed_append_raw in Ha, Hb; try assumption.
    destruct Ha as [Ha|[Na [ra [Era Ha]]]], Hb as [Hb|[Nb [rb [Erb Hb]]]].
    + eapply (wf_excl idx W); eassumption.
    + exfalso. apply (wf_listed_in_range idx r hc a W) in Ha. destruct Ha as [Ha _].
      assert (0 <= rb).
      { destruct Hb as [Hb|[_ [[Hb _] _]]]; [apply (wf_listed_in_range other rb hc b Wo) in Hb; destruct Hb as [Hb _]|]; lia. }
      lia.
    + exfalso. apply (wf_listed_in_range idx r hc b W) in Hb. destruct Hb as [Hb _].
      assert (0 <= ra).
      { destruct Ha as [Ha|[_ [[Ha _] _]]]; [apply (wf_listed_in_range other ra hc a Wo) in Ha; destruct Ha as [Ha _]|]; lia. }
      lia.
    + assert (rb = ra) by lia. subst rb.
      destruct Ha as [Ha|[-> [_ Ua]]], Hb as [Hb|[-> [_ Ub]]]; try reflexivity.
      * eapply (wf_excl other Wo); eassumption.
      * exfalso. eapply Ub. eassumption.
      * exfalso. eapply Ua. eassumption.
Qed.

Theorem append_raw_dense idx other r hc : WF idx -> WF other -> append_ok idx other ->
  0 <= r < nrows idx + nrows other -> in_hshape hc (hshape idx) ->
  dense (append_raw idx other) r hc = if r <? nrows idx then dense idx r hc else dense other (r - nrows idx) hc.
Proof.
  intros W Wo OK Hr Hh. pose proof OK as [Hs Hn].
  pose proof (append_raw_wf idx other W Wo OK) as W'.
  assert (L: forall v, listed (append_raw idx other) r hc v <-> _)
    by (intros v; apply (listed_append_raw idx other r hc v W Wo OK)).
  assert (RG: forall v r', listed other r' hc v \/ (v = common other /\ in_range other r' hc /\ forall w, ~ listed other r' hc w) ->
                           0 <= r' < nrows other).
  { intros v r' [H|[_ [[H _] _]]]; [|assumption]. apply (wf_listed_in_range other r' hc v Wo) in H. apply H. }
  destruct (Z.ltb_spec r (nrows idx)) as [Hlt|Hge].
  - (* a row of the receiver *)
    destruct (dense_cases idx r hc) as [Li|[Un E]].
    + apply dense_listed; [assumption|]. apply L. left. assumption.
    + rewrite E, <- (append_raw_common idx other). apply dense_unlisted.
      intros v Hv. apply L in Hv. destruct Hv as [Hv|[_ [r' [Er Hv]]]].
      * eapply Un; eassumption.
      * apply RG in Hv. lia.
  - (* a row of other *)
    set (r' := r - nrows idx).
    assert (FROM: forall v, listed (append_raw idx other) r hc v ->
                  v <> common idx /\ (listed other r' hc v \/ (v = common other /\ in_range other r' hc /\ forall w, ~ listed other r' hc w))).
    { intros v Hv. apply L in Hv. destruct Hv as [Hv|[Nv [r'' [Er Hv]]]].
      - apply (wf_listed_in_range idx r hc v W) in Hv. destruct Hv as [Hv _]. lia.
      - assert (r'' = r') by (unfold r'; lia). subst r''. auto. }
    destruct (dense_cases other r' hc) as [Lo|[Un E]].
    + destruct (Z.eq_dec (dense other r' hc) (common idx)) as [Ec|Nc].
      * (* listed in other under the receiver's common value: skipped, implicitly common *)
        rewrite Ec, <- (append_raw_common idx other). apply dense_unlisted.
        intros v Hv. apply FROM in Hv. destruct Hv as [Nv [Hv|[_ [_ Hv]]]].
        -- apply Nv. rewrite <- Ec. eapply (wf_excl other Wo); eassumption.
        -- eapply Hv. eassumption.
      * apply dense_listed; [assumption|]. apply L. right. split; [assumption|].
        exists r'. split; [unfold r'; lia|]. left. assumption.
    + rewrite E. destruct (Z.eq_dec (common other) (common idx)) as [Ec|Nc].
      * rewrite Ec, <- (append_raw_common idx other). apply dense_unlisted.
        intros v Hv. apply FROM in Hv. destruct Hv as [Nv [Hv|[Ev _]]].
        -- eapply Un. eassumption.
        -- apply Nv. congruence.
      * apply dense_listed; [assumption|]. apply L. right. split; [assumption|].
        exists r'. split; [unfold r'; lia|]. right. split; [reflexivity|]. split; [|assumption].
        split; [unfold r'; lia|]. rewrite Hs. assumption.
Qed.

(* ====================================================================================== *)
(* Part 5: append                                                                          *)
(* ====================================================================================== *)
Theorem append_wf idx other : WF idx -> WF other -> append_ok idx other -> WF (append idx other).
Proof. intros W Wo OK. unfold append. apply shift_common_auto_wf, append_raw_wf; assumption. Qed.

Theorem append_shape idx other :
  nrows (append idx other) = nrows idx + nrows other /\ hshape (append idx other) = hshape idx.
Proof.
  unfold append. destruct (shift_common_auto_shape (append_raw idx other)) as [-> ->].
  rewrite append_raw_nrows, append_raw_hshape. auto.
Qed.

Theorem append_dense idx other r hc : WF idx -> WF other -> append_ok idx other ->
  0 <= r < nrows idx + nrows other -> in_hshape hc (hshape idx) ->
  dense (append idx other) r hc = if r <? nrows idx then dense idx r hc else dense other (r - nrows idx) hc.
Proof.
  intros W Wo OK Hr Hh. unfold append. rewrite shift_common_auto_dense.
  - apply append_raw_dense; assumption.
  - apply append_raw_wf; assumption.
  - split; [rewrite append_raw_nrows | rewrite append_raw_hshape]; assumption.
Qed.

(* C06 for append: the index after append stands for numpy.concatenate([a, b]) *)
Theorem append_refines idx other d e : WF idx -> WF other -> append_ok idx other ->
  refines idx d -> refines other e -> refines (append idx other) (spec_append d e).
Proof.
  intros W Wo OK [Nd [Sd Dd]] [Ne [Se De]]. pose proof OK as [Hs Hn].
  destruct (append_shape idx other) as [N S].
  unfold refines, spec_append, d_in_range. cbn [dn dhs df].
  split; [rewrite N; congruence|]. split; [rewrite S; assumption|].
  intros r hc [Hr Hh]. rewrite <- Nd, <- Ne in Hr. rewrite <- Sd in Hh.
  rewrite append_dense by assumption. rewrite <- Nd.
  destruct (Z.ltb_spec r (nrows idx)) as [Hlt|Hge].
  - apply Dd. split; [lia | rewrite <- Sd; assumption].
  - apply De. split; [lia | rewrite <- Se, Hs; assumption].
Qed.
