(* IIndex/Step.v — the operation ADT of the C06/C07/C15 histories (ALL operations, opsA's and opsB's),
   the step function on model states, observers, and the NumPy-level ("dense array") specification
   of every step.  DEFINITIONS ONLY (proofs: History.v and the OpsAProofs / OpsBProofs files). *)
From Coq Require Import ZArith List Bool.
From Catii Require Import Base.Sorted IIndex.Model IIndex.Res IIndex.OpsB IIndex.OpsA.
Import ListNotations.
Open Scope Z_scope.

Inductive op :=
(* receiver-mutating *)
| OShiftAuto                                   (* shift_common()            *)
| OShift (v : Z)                               (* shift_common(v)           *)
| OAppend (other : iindex)                     (* append(other)             *)
| OUpdate (upd : list entry)                   (* update({coords: rowids})  *)
| OUnion (other : list entry)                  (* union_update(other)       *)
| OInter (other : list entry)                  (* intersection_update       *)
| ODiff (other : list entry)                   (* difference_update         *)
| OSetIf (k : key) (v : list Z)                (* set_if(k, v); v = [] also stands for None *)
(* returning a new index with which the history continues *)
| OCopy
| OFiltered (mask : list bool)                 (* filtered(mask, mask.sum()) *)
| OReindexed (m : option (list (Z * Z))) (shift : bool)
| OCollapsed (prec : list Z) (m : option (list (Z * Z)))
| OSliced (orders : list order)
| OColumnStack (pre post : list iindex) (nc : option Z)   (* column_stack(pre + [self] + post, nc) *)
(* observers: the receiver is unchanged *)
| OGetForce (k : key)
| OItemsForce
| OToDictForce
| OCommonRowids (hc : list Z)
| OSlices1d.

(* Arguments outside the quantifier of C06 (shape mismatch, more than 2^32 rows, mask of the wrong
   length) give Err EOther here: the theorems exclude them, the harness never generates them. *)
Definition step (idx : iindex) (o : op) : res iindex :=
  match o with
  | OShiftAuto => Ok (shift_common_auto idx)
  | OShift v => Ok (shift_common idx v)
  | OAppend other =>
      if zl_eqb (hshape idx) (hshape other) && (nrows idx + nrows other <=? 2 ^ 32)
      then Ok (append idx other) else Err EOther
  | OUpdate upd => Ok (update idx upd)
  | OUnion other => Ok (union_update idx other)
  | OInter other => Ok (intersection_update idx other)
  | ODiff other => Ok (difference_update idx other)
  | OSetIf k v => Ok (set_if idx k v)
  | OCopy => Ok (copy idx)
  | OFiltered mask =>
      if Z.of_nat (length mask) =? nrows idx then Ok (filtered idx mask) else Err EOther
  | OReindexed m sh => Ok (reindexed idx m sh)
  | OCollapsed prec m => collapsed idx prec m
  | OSliced orders => sliced idx orders
  | OColumnStack pre post nc => column_stack (pre ++ idx :: post) nc
  | OGetForce _ | OItemsForce | OToDictForce | OCommonRowids _ | OSlices1d => Ok idx
  end.

Fixpoint run (idx : iindex) (ops : list op) : res iindex :=
  match ops with
  | [] => Ok idx
  | o :: ops' => match step idx o with Ok idx' => run idx' ops' | Err e => Err e end
  end.

(* what an observer returns *)
Inductive obs :=
| ObsNone
| ObsRows (r : option (list Z))
| ObsItems (l : list entry)
| ObsSlices (l : list (list Z * iindex)).

Definition observe (idx : iindex) (o : op) : obs :=
  match o with
  | OGetForce k => ObsRows (get_force idx k)
  | OItemsForce => ObsItems (items_force idx)
  | OToDictForce => ObsItems (to_dict_force idx)
  | OCommonRowids hc => ObsRows (Some (common_rowids idx hc))
  | OSlices1d => ObsSlices (slices1d idx)
  | _ => ObsNone
  end.

(* library-chosen common after this step (C15's list: normalising without an argument, appending,
   filtering, collapsing; from_array without a common is C01's) *)
Definition lib_chosen (o : op) : bool :=
  match o with OShiftAuto | OAppend _ | OFiltered _ | OCollapsed _ _ => true | _ => false end.
(* steps that MAY normalise (reindexed shifts only when it merged; column_stack picks by sparsity):
   there the stored common is compared up to the library's own choice *)
Definition may_choose (o : op) : bool :=
  match o with
  | OShiftAuto | OAppend _ | OFiltered _ | OCollapsed _ _ => true
  | OReindexed _ true => true
  | OColumnStack _ _ None => true
  | _ => false
  end.

(* ------------------------------------------------------------------------------------------ *)
(* The NumPy side: a dense array is its extents and a cell function, compared pointwise in range *)
(* ------------------------------------------------------------------------------------------ *)
Record darr := { dn : Z; dhs : list Z; df : Z -> list Z -> Z }.
Definition darr_of (idx : iindex) : darr := {| dn := nrows idx; dhs := hshape idx; df := dense idx |}.

Definition d_in_range (d : darr) (r : Z) (hc : list Z) : Prop := 0 <= r < dn d /\ in_hshape hc (dhs d).
(* refinement relation: the index stands for the array *)
Definition refines (idx : iindex) (d : darr) : Prop :=
  nrows idx = dn d /\ hshape idx = dhs d /\ forall r hc, d_in_range d r hc -> dense idx r hc = df d r hc.

(* numpy.concatenate([a, b]) *)
Definition spec_append (a b : darr) : darr :=
  {| dn := dn a + dn b; dhs := dhs a; df := fun r hc => if r <? dn a then df a r hc else df b (r - dn a) hc |}.
(* a[mask] : row r' of the result is the r'-th selected row *)
Definition kept_rows (mask : list bool) : list Z := filter (mask_at mask) (zrange (Z.of_nat (length mask))).
Definition spec_filtered (a : darr) (mask : list bool) : darr :=
  {| dn := lenZ (kept_rows mask); dhs := dhs a; df := fun r hc => df a (nth (Z.to_nat r) (kept_rows mask) 0) hc |}.
(* a[rowids, col...] = value for every entry of the update dict *)
Definition spec_update (a : darr) (upd : list entry) : darr :=
  {| dn := dn a; dhs := dhs a;
     df := fun r hc => match find (covers r hc) upd with Some e => fst (fst e) | None => df a r hc end |}.
