(* Model of iindex.from_array (src/catii/iindexes.py:297-434).  DEFINITIONS ONLY.

   Arrays.  A 1-D or 2-D integer array is a list of rows plus the extents of the higher axes:
   a_hshape = [] for a 1-D array (every row is the singleton [v]), a_hshape = [c] for an (N, c)
   array (every row has c cells).  The cells of a row are indexed by the higher-coordinate tuples
   all_hcs (a_hshape) of IIndex/Model.v, in that order, so that the key of the entry for value v in
   column j is (v, [j]) and in a 1-D array (v, []), exactly the tuples (v, j) / (v,) of the code.
   The code has one copy of each loop for ndim = 1 and one for ndim = 2 that differ only in the key
   tuple; the model runs the same loop over [columns a] = [([], values)] resp. [([j], values.T[j])].

   What is mirrored: counting (numpy.bincount / numpy.unique both give the distinct values in
   ascending order with their multiplicities; or the caller's dict in the caller's order), the
   defaultdict final_counts through the mapping (insertion order), the first strict maximum, the
   min(mapping.values()) / ValueError rule for "no values", mapping[common] for a caller's common,
   the numpy.where path (per distinct value, per column, set_operations.union with the rows already
   stored under the mapped key), the row-scan path (per column, per row, list append), the uint32
   row-id arrays, and every KeyError a missing mapping key raises.

   What is NOT modelled: the float-valued strategy switch (len(counts) / uncommon_ratio < 100).
   The strategy is a free argument [strat] of the model; the theorems hold for both values on every
   input, so whichever the code picks is covered. *)
From Coq Require Import ZArith List Bool.
From Catii Require Import Base.Sorted IIndex.Res IIndex.Model.
Import ListNotations.
Open Scope Z_scope.

(* ---- arrays ---- *)
Record array := { a_rows : list (list Z); a_hshape : list Z }.

Definition ncells (hs : list Z) : nat := length (all_hcs hs).
Definition a_nrows (a : array) : Z := Z.of_nat (length (a_rows a)).
(* values.flat : row-major *)
Definition flat (a : array) : list Z := concat (a_rows a).
(* values.T[j] *)
Definition column (a : array) (j : nat) : list Z := map (fun row => nth j row 0) (a_rows a).
(* enumerate(values.T) with the key suffix of each column *)
Definition columns (a : array) : list (list Z * list Z) :=
  map (fun j => (nth j (all_hcs (a_hshape a)) [], column a j)) (seq 0 (ncells (a_hshape a))).

Definition arr1 (vals : list Z) : array := {| a_rows := map (fun v => [v]) vals; a_hshape := [] |}.
Definition arr2 (ncols : Z) (rows : list (list Z)) : array := {| a_rows := rows; a_hshape := [ncols] |}.
Definition arr_map (f : Z -> Z) (a : array) : array :=
  {| a_rows := map (map f) (a_rows a); a_hshape := a_hshape a |}.

(* ---- options ---- *)
Definition zdict := list (Z * Z).               (* a Python dict {int: int} in insertion order *)
Record opts := { o_counts : option zdict; o_common : option Z; o_mapping : option zdict }.
Inductive strategy := Where | RowScan.

Fixpoint map_get (m : zdict) (k : Z) : option Z :=
  match m with
  | [] => None
  | (k', v) :: m' => if Z.eqb k k' then Some v else map_get m' k
  end.

(* mapping[value]; no mapping = identity *)
Definition mapv (o : opts) (v : Z) : res Z :=
  match o_mapping o with
  | None => Ok v
  | Some m => match map_get m v with Some x => Ok x | None => Err EKeyError end
  end.

(* ---- counting: iindexes.py:317-337 ---- *)
Fixpoint cnt_insert (v : Z) (l : zdict) : zdict :=
  match l with
  | [] => [(v, 1)]
  | (k, c) :: l' =>
      if v <? k then (v, 1) :: l
      else if v =? k then (k, c + 1) :: l'
      else (k, c) :: cnt_insert v l'
  end.
Definition count_values (xs : list Z) : zdict := fold_left (fun acc v => cnt_insert v acc) xs [].

(* ---- final_counts: iindexes.py:339-344 (defaultdict(int), insertion order) ---- *)
Fixpoint fc_add (k c : Z) (l : zdict) : zdict :=
  match l with
  | [] => [(k, c)]
  | (k', c') :: l' => if k =? k' then (k', c' + c) :: l' else (k', c') :: fc_add k c l'
  end.
Fixpoint final_counts_m (m counts acc : zdict) : res zdict :=
  match counts with
  | [] => Ok acc
  | (dv, c) :: t =>
      match map_get m dv with
      | None => Err EKeyError
      | Some mv => final_counts_m m t (fc_add mv c acc)
      end
  end.
Definition final_counts (o : opts) (counts : zdict) : res zdict :=
  match o_mapping o with None => Ok counts | Some m => final_counts_m m counts [] end.

(* ---- the common value: iindexes.py:346-364 ---- *)
Fixpoint first_max (l : zdict) (best : option (Z * Z)) : option (Z * Z) :=
  match l with
  | [] => best
  | (v, c) :: t =>
      match best with
      | None => first_max t (Some (v, c))
      | Some (_, bc) => if c >? bc then first_max t (Some (v, c)) else first_max t best
      end
  end.
Definition minl (l : list Z) : Z := match l with [] => 0 | x :: t => fold_left Z.min t x end.
Definition maxl (l : list Z) : Z := match l with [] => 0 | x :: t => fold_left Z.max t x end.

Definition choose_common (o : opts) (fc : zdict) : res Z :=
  match o_common o with
  | Some c => mapv o c
  | None =>
      match first_max fc None with
      | Some (v, _) => Ok v
      | None =>
          match o_mapping o with
          | Some ((_ :: _) as m) => Ok (minl (map snd m))      (* `elif mapping:` - a non-empty dict *)
          | _ => Err EValueError                              (* "No values or common value provided." *)
          end
      end
  end.

(* ---- the numpy.where path: iindexes.py:382-409 ---- *)
(* numpy.where(col == dv)[0], positions counted from i *)
Fixpoint where_from (i dv : Z) (col : list Z) : list Z :=
  match col with
  | [] => []
  | x :: t => if x =? dv then i :: where_from (i + 1) dv t else where_from (i + 1) dv t
  end.
Definition u32 (r : Z) : Z := r mod 2 ^ 32.       (* .astype(uint32) wraps silently *)
(* set_operations.union(entries.get(key), rowids): None on the left returns the right operand *)
Definition union_opt (cur : option (list Z)) (rows : list Z) : list Z :=
  match cur with None => rows | Some l => union_spec l rows end.

Fixpoint where_cols (mv dv : Z) (cols : list (list Z * list Z)) (es : list entry) : list entry :=
  match cols with
  | [] => es
  | (hc, col) :: t =>
      match where_from 0 dv col with
      | [] => where_cols mv dv t es                                       (* len(rowids) > 0 fails *)
      | rowids => where_cols mv dv t
                    (assoc_set (mv, hc) (union_opt (assoc_get (mv, hc) es) (map u32 rowids)) es)
      end
  end.
Fixpoint where_vals (o : opts) (cmn : Z) (cols : list (list Z * list Z)) (keys : list Z) (es : list entry)
  : res (list entry) :=
  match keys with
  | [] => Ok es
  | dv :: t =>
      match mapv o dv with
      | Err e => Err e
      | Ok mv => if mv =? cmn then where_vals o cmn cols t es
                 else where_vals o cmn cols t (where_cols mv dv cols es)
      end
  end.

(* ---- the row-scan path: iindexes.py:410-432 ---- *)
(* entries[key].append(rowid) on a defaultdict(list) *)
Definition assoc_append (k : key) (r : Z) (es : list entry) : list entry :=
  assoc_set k (match assoc_get k es with Some l => l ++ [r] | None => [r] end) es.
Fixpoint scan_col (o : opts) (cmn : Z) (hc : list Z) (i : Z) (col : list Z) (es : list entry)
  : res (list entry) :=
  match col with
  | [] => Ok es
  | x :: t =>
      match mapv o x with
      | Err e => Err e
      | Ok v => if v =? cmn then scan_col o cmn hc (i + 1) t es
                else scan_col o cmn hc (i + 1) t (assoc_append (v, hc) i es)
      end
  end.
Fixpoint scan_cols (o : opts) (cmn : Z) (cols : list (list Z * list Z)) (es : list entry)
  : res (list entry) :=
  match cols with
  | [] => Ok es
  | (hc, col) :: t =>
      match scan_col o cmn hc 0 col es with
      | Err e => Err e
      | Ok es' => scan_cols o cmn t es'
      end
  end.
(* numpy.array(rowids, dtype=uint32): NumPy 2 raises OverflowError for a Python int >= 2^32 *)
Definition to_u32_arrays (es : list entry) : res (list entry) :=
  if forallb (fun e : entry => forallb (fun r => (0 <=? r) && (r <? 2 ^ 32)) (snd e)) es
  then Ok es else Err EOverflow.

(* ---- from_array ---- *)
Definition eff_counts (a : array) (o : opts) : zdict :=
  match o_counts o with Some cs => cs | None => count_values (flat a) end.

Definition build_entries (a : array) (o : opts) (s : strategy) (cmn : Z) : res (list entry) :=
  match s with
  | Where => where_vals o cmn (columns a) (map fst (eff_counts a o)) []
  | RowScan => res_bind (scan_cols o cmn (columns a) []) to_u32_arrays
  end.

Definition from_array (a : array) (o : opts) (s : strategy) : res iindex :=
  res_bind (final_counts o (eff_counts a o)) (fun fc =>
  res_bind (choose_common o fc) (fun cmn =>
  res_bind (build_entries a o s cmn) (fun es =>
  Ok {| entries := es; common := cmn; nrows := a_nrows a; hshape := a_hshape a |}))).

(* ---- vocabulary of the theorems ---- *)
(* rectangular, one or two dimensions *)
Definition rect (a : array) : Prop :=
  (a_hshape a = [] \/ exists c, 0 <= c /\ a_hshape a = [c]) /\
  Forall (fun row => length row = ncells (a_hshape a)) (a_rows a).
Definition rect_b (a : array) : bool :=
  match a_hshape a with [] => true | [c] => 0 <=? c | _ => false end &&
  forallb (fun row => Nat.eqb (length row) (ncells (a_hshape a))) (a_rows a).

(* the total function the (optional) mapping stands for on its domain *)
Definition fmap (o : opts) (v : Z) : Z :=
  match o_mapping o with
  | None => v
  | Some m => match map_get m v with Some x => x | None => 0 end
  end.

Definition mapping_defined (o : opts) (v : Z) : Prop :=
  match o_mapping o with None => True | Some m => map_get m v <> None end.

(* The documented contract of from_array (docstring, iindexes.py:301-313):
   - supplied counts list every value that occurs;
   - the mapping is defined on every counted value (hence on every occurring one) and on the
     supplied common value;
   - there is something to choose a common value from. *)
Record pre (a : array) (o : opts) : Prop := {
  pre_counts  : forall v, In v (flat a) -> In v (map fst (eff_counts a o));
  pre_mapping : forall v, In v (map fst (eff_counts a o)) -> mapping_defined o v;
  pre_common  : forall c, o_common o = Some c -> mapping_defined o c;
  pre_some    : eff_counts a o <> [] \/ o_common o <> None \/ (exists p m, o_mapping o = Some (p :: m));
}.
(* the data part of the contract alone (everything but "something to choose from") *)
Record pre_data (a : array) (o : opts) : Prop := {
  pd_counts  : forall v, In v (flat a) -> In v (map fst (eff_counts a o));
  pd_mapping : forall v, In v (map fst (eff_counts a o)) -> mapping_defined o v;
  pd_common  : forall c, o_common o = Some c -> mapping_defined o c;
}.

(* boolean twin of [pre] (used for the Examples and by the correspondence: every generated case
   that the harness calls valid must satisfy it) *)
Definition is_some {A : Type} (x : option A) : bool := match x with Some _ => true | None => false end.
Definition mapping_defined_b (o : opts) (v : Z) : bool :=
  match o_mapping o with None => true | Some m => is_some (map_get m v) end.
Definition pre_b (a : array) (o : opts) : bool :=
  let keys := map fst (eff_counts a o) in
  forallb (fun v => memZ v keys) (flat a)
  && forallb (mapping_defined_b o) keys
  && match o_common o with Some c => mapping_defined_b o c | None => true end
  && (match eff_counts a o with [] => false | _ => true end
      || is_some (o_common o)
      || match o_mapping o with Some (_ :: _) => true | _ => false end).
