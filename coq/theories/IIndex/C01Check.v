(* Executable checkers for the C01 correspondence (harness/props/c01.py).  No proofs.

   A case holds one real call  idx = iindex.from_array(arr, **opts)  followed by one real call
   idx.to_array(mapping=, dtype=):  the input, the strategy the implementation was OBSERVED to take,
   the real resulting index abstracted as a Model.v record (entries in dict order) or the class of
   the exception, the to_array arguments, and the real output (cells + dtype) or exception class.
   Compared at the level of the property: shape, dense content, well-formedness of the REAL index,
   compatibility of the common value (exact when the caller chose it or there are no values; a
   most-frequent final value - ties free - when the library chose it), and for to_array the cell
   values and the dtype. *)
From Coq Require Import ZArith List Bool.
From Catii Require Import Base.Cases Base.Sorted IIndex.Res IIndex.Model IIndex.FromArray IIndex.ToArray
  Dtype.FitSpec Dtype.FitHand.
Import ListNotations.
Open Scope Z_scope.

Record c01_case := {
  c_arr : array; c_opts : opts; c_strat : strategy;
  c_impl : res iindex;
  c_tmap : option zdict; c_tdtype : option dtype;
  c_out : res (array * dtype);
}.

Definition mk_opts (cs : option zdict) (cm : option Z) (m : option zdict) : opts :=
  {| o_counts := cs; o_common := cm; o_mapping := m |}.
Definition mk_idx (es : list entry) (cm n : Z) (hs : list Z) : iindex :=
  {| entries := es; common := cm; nrows := n; hshape := hs |}.
Definition mk_arr (rows : list (list Z)) (hs : list Z) : array := {| a_rows := rows; a_hshape := hs |}.
Definition mk_case a o s i tm td out : c01_case :=
  {| c_arr := a; c_opts := o; c_strat := s; c_impl := i; c_tmap := tm; c_tdtype := td; c_out := out |}.

Definition rows_eqb (a b : list (list Z)) : bool := list_eqb zlist_eqb a b.
Definition arr_eqb (a b : array) : bool :=
  zlist_eqb (a_hshape a) (a_hshape b) && rows_eqb (a_rows a) (a_rows b).

Definition other (s : strategy) : strategy := match s with Where => RowScan | RowScan => Where end.

(* total count of a final value *)
Definition fc_count (fc : zdict) (v : Z) : option Z := map_get fc v.
Definition is_max_count (fc : zdict) (v : Z) : bool :=
  match fc_count fc v with
  | None => false
  | Some c => forallb (fun p : Z * Z => snd p <=? c) fc
  end.

Definition common_ok (c : c01_case) (ri mi : iindex) : bool :=
  match o_common (c_opts c) with
  | Some _ => common ri =? common mi
  | None =>
      match final_counts (c_opts c) (eff_counts (c_arr c) (c_opts c)) with
      | Ok [] => common ri =? common mi            (* min(mapping.values()) *)
      | Ok fc => is_max_count fc (common ri)        (* a most frequent final value; ties free *)
      | Err _ => false
      end
  end.

Definition chk_from (c : c01_case) : bool :=
  rect_b (c_arr c) &&
  match c_impl c, from_array (c_arr c) (c_opts c) (c_strat c) with
  | Err _, Err _ => true      (* both refuse: the exception CLASS is not part of any property *)
  | Ok ri, Ok mi =>
      (nrows ri =? a_nrows (c_arr c)) && zlist_eqb (hshape ri) (a_hshape (c_arr c))
      && (nrows mi =? nrows ri) && zlist_eqb (hshape mi) (hshape ri)
      && wf_b ri && wf_b mi
      && rows_eqb (dense_rows ri) (map (map (fmap (c_opts c))) (a_rows (c_arr c)))
      && rows_eqb (dense_rows mi) (dense_rows ri)
      && common_ok c ri mi
      && match from_array (c_arr c) (c_opts c) (other (c_strat c)) with
         | Ok mi' => rows_eqb (dense_rows mi') (dense_rows ri) && wf_b mi' && (common mi' =? common mi)
         | Err _ => false
         end
  | _, _ => false
  end.

Definition chk_to (c : c01_case) : bool :=
  match c_impl c with
  | Err _ => true
  | Ok ri =>
      match c_out c, to_array ri (c_tmap c) (c_tdtype c) with
      | Err _, Err _ => true      (* both refuse: the exception CLASS is not part of any property *)
      | Ok (a, d), Ok (a', d') =>
          arr_eqb a a' && dtype_eqb d d'
          && arr_eqb a (arr_map (tmap (use_map (c_tmap c))) (dense_array ri))
      | _, _ => false
      end
  end.

Definition chk (c : c01_case) : bool := chk_from c && chk_to c.

(* what the model says, for the report on a disagreeing case *)
Definition res_code {A : Type} (r : res A) : Z :=
  match r with
  | Ok _ => 0
  | Err ETypeError => 1 | Err EValueError => 2 | Err EKeyError => 3
  | Err EOverflow => 4 | Err EIndexError => 5 | Err EOther => 6
  end.
Definition explain (c : c01_case) :=
  (chk_from c, chk_to c,
   from_array (c_arr c) (c_opts c) (c_strat c),
   match c_impl c with
   | Ok ri => (res_code (to_array ri (c_tmap c) (c_tdtype c)),
               match to_array ri (c_tmap c) (c_tdtype c) with Ok (a, d) => Some (a_rows a, dtype_code d) | Err _ => None end)
   | Err _ => (-1, None)
   end).
