(* IIndex/Check.v — executable checkers for the stepwise simulation of C06 / C07 / C15.
   No proofs.  The harness (harness/iindex_hist.py) writes one [scase] per STEP of a history: the model
   state abstracted from the REAL index just before the step, the operation with its (abstracted)
   operands, the abstracted REAL outcome, what a real observer returned, and the dense rows NumPy
   computes for the result.  Everything is compared at the level the properties talk about:
   shape, dense content, well-formedness of the real result, "common is a most frequent value"
   where the library chose it.  Entry order, tie-breaks and strategy choices are free. *)
From Coq Require Import ZArith List Bool.
From Catii Require Import Base.Cases Base.Sorted IIndex.Model IIndex.Res IIndex.OpsB IIndex.OpsA IIndex.Step.
Import ListNotations.
Open Scope Z_scope.

Definition mk := Build_iindex.

Record scase := mkcase {
  s_before : iindex;            (* abstraction of the real receiver before the step (re-abstracted every step) *)
  s_op : op;
  s_after : res iindex;         (* real outcome: receiver after a mutation / returned index / Err = raised *)
  s_obs : obs;                  (* what a real observer returned (ObsNone otherwise) *)
  s_expect : option (list (list Z))   (* NumPy oracle on the dense array: expected rows of the result *)
}.

(* ---------- comparisons ---------- *)
Definition shape_same (m r : iindex) : bool := (nrows m =? nrows r) && zl_eqb (hshape m) (hshape r).
Definition dense_same (m r : iindex) : bool := list_eqb zl_eqb (dense_rows m) (dense_rows r).
(* entries equal as dicts (order free) *)
Definition dict_same (m r : list entry) : bool :=
  Nat.eqb (length m) (length r)
  && forallb (fun e => match assoc_get (fst e) r with Some rows => zl_eqb rows (snd e) | None => false end) m.
Definition idx_same (m r : iindex) : bool :=
  shape_same m r && (common m =? common r) && dense_same m r && dict_same (entries m) (entries r).

Fixpoint count_z (v : Z) (l : list Z) : Z :=
  match l with [] => 0 | x :: l' => (if x =? v then 1 else 0) + count_z v l' end.
(* C15: no value occurs more often in the dense content than the stored common *)
(* (evaluated by the call-by-value VM: the count of the common value is computed once, and every DISTINCT value of the
   dense content is tested once - same meaning as testing every cell) *)
Definition distinct_z (l : list Z) : list Z := fold_left (fun acc x => if memZ x acc then acc else x :: acc) l [].
Definition most_frequent_b (idx : iindex) : bool :=
  let flat := concat (dense_rows idx) in
  let c := count_z (common idx) flat in
  forallb (fun v => count_z v flat <=? c) (distinct_z flat).

(* entry-wise operations are specified on the entries themselves *)
Definition entrywise (o : op) : bool :=
  match o with OUnion _ | OInter _ | ODiff _ | OSetIf _ _ => true | _ => false end.

(* the model's answer; for column_stack(new_common=None) an exact tie between float sums is a free
   library tie-break (OpsB.cs_tied_commons) *)
Definition model_step (c : scase) : res iindex :=
  match s_op c, s_after c with
  | OColumnStack pre post None, Ok r =>
      if memZ (common r) (cs_tied_commons (pre ++ s_before c :: post))
      then column_stack (pre ++ s_before c :: post) (Some (common r))
      else step (s_before c) (s_op c)
  | o, _ => step (s_before c) o
  end.

Definition common_ok (o : op) (m r : iindex) : bool :=
  if common m =? common r then true else if may_choose o then most_frequent_b r else false.

(* observers: real answer vs model answer (dicts order-free) *)
Definition obs_same (m r : obs) : bool :=
  match m, r with
  | ObsNone, ObsNone => true
  | ObsRows a, ObsRows b => option_eqb zl_eqb a b
  | ObsItems a, ObsItems b => dict_same a b
  | ObsSlices a, ObsSlices b =>
      list_eqb (fun x y => zl_eqb (fst x) (fst y) && idx_same (snd x) (snd y)) a b
  | _, _ => false
  end.

(* observers: real answer vs the dense array it must describe (property level, no operation model) *)
Definition grid (idx : iindex) : list (Z * list Z) :=
  flat_map (fun r => map (fun hc => (r, hc)) (all_hcs (hshape idx))) (zrange (nrows idx)).
Definition items_describe (idx : iindex) (items : list entry) : bool :=
  forallb (fun e => sincr_b (snd e) && in_hshape_b (snd (fst e)) (hshape idx)
                    && forallb (fun r => (0 <=? r) && (r <? nrows idx)) (snd e)) items
  && forallb (fun c => zl_eqb (map (fun e => fst (fst e)) (filter (covers (fst c) (snd c)) items))
                              [dense idx (fst c) (snd c)]) (grid idx).
Definition rows_describe (idx : iindex) (v : Z) (hc : list Z) (rows : list Z) : bool :=
  sincr_b rows
  && zl_eqb rows (filter (fun r => dense idx r hc =? v) (zrange (nrows idx))).
Definition obs_describes (idx : iindex) (o : op) (r : obs) : bool :=
  match o, r with
  | OGetForce k, ObsRows x =>
      negb (in_hshape_b (snd k) (hshape idx))
      || rows_describe idx (fst k) (snd k) (match x with Some l => l | None => [] end)
         && negb (match x with Some [] => true | _ => false end)
  | OCommonRowids hc, ObsRows (Some l) => rows_describe idx (common idx) hc l
  | OToDictForce, ObsItems l => items_describe idx l
  | OItemsForce, ObsItems l => items_describe idx l
  | OSlices1d, ObsSlices l =>
      (* every column slice exactly once, labelled with its own higher coordinates (any order) *)
      Nat.eqb (length l) (length (all_hcs (hshape idx)))
      && nodup_keys_b (map (fun s => (0, fst s)) l)
      && forallb (fun s => in_hshape_b (fst s) (hshape idx)
                        && (nrows (snd s) =? nrows idx) && zl_eqb (hshape (snd s)) []
                        && zl_eqb (map (fun r => dense (snd s) r []) (zrange (nrows idx)))
                                  (map (fun r => dense idx r (fst s)) (zrange (nrows idx)))) l
  | _, ObsNone => true
  | _, _ => false
  end.

Definition expect_ok (c : scase) (r : iindex) : bool :=
  match s_expect c with Some rows => list_eqb zl_eqb (dense_rows r) rows | None => true end.

(* ---------- C06: the real step tracks the model step and NumPy ---------- *)
Definition chk06 (c : scase) : bool :=
  wf_b (s_before c) &&
  match model_step c, s_after c with
  | Ok m, Ok r =>
      shape_same m r && dense_same m r && common_ok (s_op c) m r && expect_ok c r
      && (negb (entrywise (s_op c)) || dict_same (entries m) (entries r))
      && obs_same (observe (s_before c) (s_op c)) (s_obs c)
      && obs_describes (s_before c) (s_op c) (s_obs c)
  | Err _, Err _ => true      (* both refuse: the exception CLASS is not part of any property *)
  | _, _ => false
  end.

(* ---------- C07: the REAL result is well-formed (and so is the model's) ---------- *)
Definition obs_wf (r : obs) : bool :=
  match r with ObsSlices l => forallb (fun s => wf_b (snd s)) l | _ => true end.
Definition chk07 (c : scase) : bool :=
  wf_b (s_before c) &&
  match s_after c with Ok r => wf_b r | Err _ => true end &&
  match model_step c with Ok m => wf_b m | Err _ => true end &&
  obs_wf (s_obs c).

(* ---------- C15: after a library-chosen normalisation the common is a most frequent value ---------- *)
Definition chk15 (c : scase) : bool :=
  wf_b (s_before c) &&
  (if lib_chosen (s_op c)
   then match s_after c with Ok r => most_frequent_b r | Err _ => true end &&
        match model_step c with Ok m => most_frequent_b m | Err _ => true end
   else true).

(* diagnostics: which conjunct failed, and what the model says *)
Definition explain (c : scase) :=
  (wf_b (s_before c),
   match model_step c, s_after c with
   | Ok m, Ok r => [shape_same m r; dense_same m r; common_ok (s_op c) m r; expect_ok c r;
                    negb (entrywise (s_op c)) || dict_same (entries m) (entries r);
                    obs_same (observe (s_before c) (s_op c)) (s_obs c);
                    obs_describes (s_before c) (s_op c) (s_obs c);
                    wf_b r; wf_b m; most_frequent_b r; most_frequent_b m]
   | _, _ => []
   end,
   model_step c, observe (s_before c) (s_op c)).

(* ---------- C15: == / != against twins and perturbed twins ---------- *)
(* e_eq / e_ne : 1 = True, 0 = False, -1 = raised *)
Record ecase := mkecase { e_a : iindex; e_b : iindex; e_eq : Z; e_ne : Z }.
Definition same_abstract (a b : iindex) : bool :=
  shape_same a b && (common a =? common b) && dense_same a b.
Definition chk15eq (c : ecase) : bool :=
  wf_b (e_a c) && wf_b (e_b c)
  && (e_eq c =? (if eq_model (e_a c) (e_b c) then 1 else 0))
  && (e_ne c =? (if ne_model (e_a c) (e_b c) then 1 else 0))
  && (e_eq c =? (if same_abstract (e_a c) (e_b c) then 1 else 0))
  && (e_ne c =? 1 - e_eq c).
Definition explain_eq (c : ecase) :=
  (wf_b (e_a c), wf_b (e_b c), eq_model (e_a c) (e_b c), ne_model (e_a c) (e_b c), same_abstract (e_a c) (e_b c)).

(* ---------- C07: indexes that enter a history from outside: INDX load, from_array ---------- *)
(* l_orig: abstraction of the real index that was saved; l_loaded: abstraction of the index rebuilt from
   what the real IndxIO.load returned for the real file. *)
Record lcase := mklcase { l_orig : iindex; l_loaded : iindex }.
Definition chk07load (c : lcase) : bool :=
  wf_b (l_orig c) && wf_b (l_loaded c) && idx_same (l_orig c) (l_loaded c).
Definition explain_load (c : lcase) :=
  (wf_b (l_orig c), wf_b (l_loaded c), shape_same (l_orig c) (l_loaded c), dense_same (l_orig c) (l_loaded c),
   dict_same (entries (l_orig c)) (entries (l_loaded c))).

(* f_rows: the dense array given to the real from_array (row-major, one list per row); f_n / f_hs its shape;
   f_common: the common argument (None = library-chosen); f_res: abstraction of the real result. *)
Record fcase := mkfcase { f_rows : list (list Z); f_n : Z; f_hs : list Z; f_common : option Z; f_res : iindex }.
Definition chk07from (c : fcase) : bool :=
  wf_b (f_res c)
  && (nrows (f_res c) =? f_n c) && zl_eqb (hshape (f_res c)) (f_hs c)
  && list_eqb zl_eqb (dense_rows (f_res c)) (f_rows c)
  && match f_common c with Some v => common (f_res c) =? v | None => most_frequent_b (f_res c) end.
Definition explain_from (c : fcase) :=
  (wf_b (f_res c), dense_rows (f_res c), most_frequent_b (f_res c)).
