(* IIndex/Count.v — how many cells of the dense array hold each value, and the automatic choice of the
   common value (first half of shift_common, iindexes.py:455-461), plus the .abscissae (209) and
   .sparsity (223) properties.

   The library never looks at the dense array: it sums len(rowids) per value and gives the common value
   "the rest".  Here that arithmetic is proved equal to the specification-level count (number of in-range
   cells of the dense array holding the value) for every well-formed index, hence the value chosen by
   max((count, value)) is a most frequent value of the array. *)
From Coq Require Import ZArith List Bool Lia Permutation.
From Catii Require Import Base.Sorted IIndex.Model IIndex.ModelFacts IIndex.OpsA.
Import ListNotations.
Open Scope Z_scope.

(* specification-level count: number of in-range cells of the dense array holding v *)
Definition cells (n : Z) (hs : list Z) : list (Z * list Z) :=
  flat_map (fun r => map (fun hc => (r, hc)) (all_hcs hs)) (zrange n).
Definition count_cells (f : Z -> list Z -> Z) (n : Z) (hs : list Z) (v : Z) : Z :=
  Z.of_nat (length (filter (fun c => f (fst c) (snd c) =? v) (cells n hs))).
Definition dense_count (idx : iindex) (v : Z) : Z := count_cells (dense idx) (nrows idx) (hshape idx) v.

(* ====================================================================================== *)
(* Part 1: generic list counting                                                           *)
(* ====================================================================================== *)
(* a duplicate-free list L that enumerates exactly the elements of G satisfying p has the length of the filter *)
Lemma length_filter_nodup {A} (p : A -> bool) (G L : list A) :
  NoDup G -> NoDup L -> (forall x, In x L <-> In x G /\ p x = true) -> length (filter p G) = length L.
Proof.
  intros HG HL H. apply Permutation_length. apply NoDup_Permutation.
  - apply NoDup_filter. assumption.
  - assumption.
  - intros x. rewrite filter_In. symmetry. apply H.
Qed.
Lemma length_filter_split {A} (p : A -> bool) (l : list A) :
  (length (filter p l) + length (filter (fun x => negb (p x)) l) = length l)%nat.
Proof.
  induction l as [|a l IH]; [reflexivity|]. cbn [filter]. destruct (p a); cbn [negb length]; lia.
Qed.
Lemma length_flat_map_const {A B} (f : A -> list B) (l : list A) (k : nat) :
  (forall a, In a l -> length (f a) = k) -> length (flat_map f l) = (length l * k)%nat.
Proof.
  induction l as [|a l IH]; intros H; [reflexivity|]. cbn [flat_map length]. rewrite app_length.
  rewrite IH by (intros b Hb; apply H; now right). rewrite (H a) by (now left). lia.
Qed.
Lemma filter_nonempty_ex {A} (p : A -> bool) (l : list A) :
  (0 < length (filter p l))%nat -> exists x, In x l /\ p x = true.
Proof.
  destruct (filter p l) as [|x t] eqn:E; cbn [length]; [lia|]. intros _.
  exists x. apply filter_In. rewrite E. now left.
Qed.
Lemma filter_ex_nonempty {A} (p : A -> bool) (l : list A) x :
  In x l -> p x = true -> (0 < length (filter p l))%nat.
Proof.
  intros Hin Hp. assert (H: In x (filter p l)) by (apply filter_In; auto).
  destruct (filter p l); [destruct H | cbn [length]; lia].
Qed.

(* ====================================================================================== *)
(* Part 2: the cells of a shape                                                            *)
(* ====================================================================================== *)
Lemma in_cells_iff n hs r hc : In (r, hc) (cells n hs) <-> 0 <= r < n /\ in_hshape hc hs.
Proof.
  unfold cells. rewrite in_flat_map. split.
  - intros [r' [Hr H]]. apply in_map_iff in H. destruct H as [h [E Hh]]. inversion E; subst.
    split; [apply in_zrange; assumption | apply in_all_hcs; assumption].
  - intros [Hr Hh]. exists r. split; [apply in_zrange; assumption|].
    apply in_map_iff. exists hc. split; [reflexivity | apply in_all_hcs; assumption].
Qed.
Lemma NoDup_cells n hs : NoDup (cells n hs).
Proof.
  unfold cells. apply nodup_flat_map.
  - apply sincr_NoDup, sincr_zrange.
  - intros r _. apply nodup_map_inj; [intros a b E; inversion E; reflexivity | apply NoDup_all_hcs].
  - intros a b x _ _ Ha Hb. apply in_map_iff in Ha, Hb.
    destruct Ha as [h [<- _]], Hb as [h' [E _]]. inversion E; reflexivity.
Qed.

Lemma count_cells_ext f g n hs v :
  (forall r hc, 0 <= r < n -> in_hshape hc hs -> f r hc = g r hc) -> count_cells f n hs v = count_cells g n hs v.
Proof.
  intros H. unfold count_cells. f_equal. f_equal. apply filter_ext_in.
  intros [r hc] Hin. apply in_cells_iff in Hin. cbn [fst snd]. rewrite (H r hc) by tauto. reflexivity.
Qed.
Lemma count_cells_nonneg f n hs v : 0 <= count_cells f n hs v.
Proof. unfold count_cells. lia. Qed.
Lemma dense_count_nonneg idx v : 0 <= dense_count idx v.
Proof. apply count_cells_nonneg. Qed.
(* a positive count is a witness cell, and conversely *)
Lemma count_cells_pos f n hs v :
  0 < count_cells f n hs v <-> exists r hc, (0 <= r < n /\ in_hshape hc hs) /\ f r hc = v.
Proof.
  unfold count_cells. split.
  - intros H. destruct (filter_nonempty_ex (fun c => f (fst c) (snd c) =? v) (cells n hs)) as [[r hc] [Hin Hp]]; [lia|].
    cbn [fst snd] in Hp. apply Z.eqb_eq in Hp. apply in_cells_iff in Hin. exists r, hc. auto.
  - intros [r [hc [Hin Hp]]]. apply in_cells_iff in Hin.
    pose proof (filter_ex_nonempty (fun c => f (fst c) (snd c) =? v) (cells n hs) (r, hc) Hin) as H.
    cbn [fst snd] in H. rewrite Hp, Z.eqb_refl in H. specialize (H eq_refl). lia.
Qed.

Lemma fold_mul_acc hs a : fold_left Z.mul hs a = a * fold_left Z.mul hs 1.
Proof.
  revert a. induction hs as [|e hs IH]; intros a; cbn [fold_left]; [ring|].
  rewrite (IH (a * e)), (IH (1 * e)). ring.
Qed.
Lemma length_all_hcs hs : Forall (fun e => 0 <= e) hs -> Z.of_nat (length (all_hcs hs)) = fold_left Z.mul hs 1.
Proof.
  induction hs as [|e hs IH]; intros H; [reflexivity|]. inversion H; subst. cbn [all_hcs fold_left].
  rewrite (length_flat_map_const _ _ (length (all_hcs hs))) by (intros; apply map_length).
  rewrite Nat2Z.inj_mul, length_zrange, IH by assumption. rewrite (fold_mul_acc hs (1 * e)). ring.
Qed.
Lemma length_cells_gen n hs : 0 <= n -> Forall (fun e => 0 <= e) hs ->
  Z.of_nat (length (cells n hs)) = fold_left Z.mul hs n.
Proof.
  intros Hn Hs. unfold cells.
  rewrite (length_flat_map_const _ _ (length (all_hcs hs))) by (intros; apply map_length).
  rewrite Nat2Z.inj_mul, length_zrange, length_all_hcs by assumption. rewrite (fold_mul_acc hs n). reflexivity.
Qed.
Lemma length_cells idx : WF idx -> Z.of_nat (length (cells (nrows idx) (hshape idx))) = size idx.
Proof.
  intros W. unfold size. apply length_cells_gen; [apply (wf_nrows idx W) | apply (wf_hshape idx W)].
Qed.

(* ====================================================================================== *)
(* Part 3: the cells listed by the entries                                                 *)
(* ====================================================================================== *)
Definition ecells (e : entry) : list (Z * list Z) := map (fun r => (r, snd (fst e))) (snd e).
Definition lcells (es : list entry) : list (Z * list Z) := flat_map ecells es.
(* sum(len(rowids) for rowids in es.values()) *)
Fixpoint sum_len (es : list entry) : Z :=
  match es with [] => 0 | e :: es' => lenZ (snd e) + sum_len es' end.

Lemma length_lcells es : Z.of_nat (length (lcells es)) = sum_len es.
Proof.
  unfold lcells. induction es as [|e es IH]; [reflexivity|]. cbn [flat_map sum_len].
  rewrite app_length, Nat2Z.inj_add, IH. unfold ecells, lenZ. rewrite map_length. reflexivity.
Qed.
Lemma sum_len_nonneg es : 0 <= sum_len es.
Proof. rewrite <- length_lcells. lia. Qed.
Lemma in_ecells r hc e : In (r, hc) (ecells e) <-> snd (fst e) = hc /\ In r (snd e).
Proof.
  unfold ecells. rewrite in_map_iff. split.
  - intros [r' [E H]]. inversion E; subst. auto.
  - intros [<- H]. exists r. auto.
Qed.
Lemma in_lcells r hc es : In (r, hc) (lcells es) <-> exists e, In e es /\ snd (fst e) = hc /\ In r (snd e).
Proof.
  unfold lcells. rewrite in_flat_map.
  split; intros [e [H1 H2]]; exists e; (split; [assumption|]); apply in_ecells; assumption.
Qed.

Lemma entry_unique (es : list entry) a b : NoDup (keys es) -> In a es -> In b es -> fst a = fst b -> a = b.
Proof.
  intros ND Ha Hb E. destruct a as [k ra], b as [k' rb]. cbn [fst] in E. subst k'.
  pose proof (In_assoc_get _ _ _ ND Ha). pose proof (In_assoc_get _ _ _ ND Hb). congruence.
Qed.

(* no cell is listed twice: row ids strictly increase inside an entry, entries of one column with different
   values are disjoint (wf_excl), and there is one entry per (value, column) (wf_keys) *)
Lemma NoDup_lcells idx es' : WF idx -> NoDup es' -> incl es' (entries idx) -> NoDup (lcells es').
Proof.
  intros W ND Hincl. unfold lcells. apply nodup_flat_map.
  - assumption.
  - intros [k rows] H. apply Hincl in H. unfold ecells. apply nodup_map_inj.
    + intros a b E. inversion E; reflexivity.
    + cbn [snd]. apply sincr_NoDup. eapply (wf_sorted idx W); eassumption.
  - intros a b [r hc] Ha Hb Hxa Hxb. apply Hincl in Ha, Hb.
    apply in_ecells in Hxa, Hxb. destruct Hxa as [Ea Ra], Hxb as [Eb Rb].
    apply (entry_unique (entries idx)); [apply (wf_keys idx W)|assumption|assumption|].
    destruct a as [[va ha] ra], b as [[vb hb] rb]. cbn [fst snd] in *. subst ha hb.
    f_equal. apply (wf_excl idx W r hc); [exists ra|exists rb]; auto.
Qed.
Lemma NoDup_entries idx : WF idx -> NoDup (entries idx).
Proof. intros W. apply (NoDup_map_inv fst). apply (wf_keys idx W). Qed.

Lemma in_lcells_listed idx r hc (p : Z -> bool) :
  In (r, hc) (lcells (filter (fun e => p (fst (fst e))) (entries idx))) <-> exists v, p v = true /\ listed idx r hc v.
Proof.
  rewrite in_lcells. split.
  - intros [[[v h] rows] [Hin [Eh Hr]]]. apply filter_In in Hin. cbn [fst snd] in *. subst h.
    exists v. split; [tauto|]. exists rows. tauto.
  - intros [v [Hp [rows [Hin Hr]]]]. exists ((v, hc), rows). cbn [fst snd].
    split; [apply filter_In; cbn [fst snd]; auto | auto].
Qed.
Lemma in_lcells_all idx r hc : In (r, hc) (lcells (entries idx)) <-> exists v, listed idx r hc v.
Proof.
  rewrite in_lcells. split.
  - intros [[[v h] rows] [Hin [Eh Hr]]]. cbn [fst snd] in *. subst h. exists v, rows. auto.
  - intros [v [rows [Hin Hr]]]. exists ((v, hc), rows). cbn [fst snd]. auto.
Qed.

(* ---- the counters ---- *)
Lemma cnt_get_add v k d cs : cnt_get v (cnt_add k d cs) = cnt_get v cs + (if v =? k then d else 0).
Proof.
  induction cs as [|[k' c] cs IH]; cbn [cnt_add cnt_get].
  - destruct (v =? k); lia.
  - destruct (k =? k') eqn:E; cbn [cnt_get].
    + apply Z.eqb_eq in E. subst k'. destruct (v =? k); lia.
    + destruct (v =? k') eqn:E2; [|apply IH]. apply Z.eqb_eq in E2. subst k'.
      destruct (v =? k) eqn:E3; [|lia]. apply Z.eqb_eq in E3. subst. rewrite Z.eqb_refl in E. discriminate.
Qed.
Lemma cnt_sum_add k d cs : cnt_sum (cnt_add k d cs) = cnt_sum cs + d.
Proof.
  induction cs as [|[k' c] cs IH]; cbn [cnt_add cnt_sum snd]; [lia|].
  destruct (k =? k'); cbn [cnt_sum snd]; lia.
Qed.
Lemma cnt_get_counts_gen v (es : list entry) cs :
  cnt_get v (fold_left (fun cs (e : entry) => cnt_add (fst (fst e)) (lenZ (snd e)) cs) es cs)
  = cnt_get v cs + sum_len (filter (fun e : entry => fst (fst e) =? v) es).
Proof.
  revert cs. induction es as [|e es IH]; intros cs; cbn [fold_left filter sum_len]; [lia|].
  rewrite IH, cnt_get_add. rewrite (Z.eqb_sym v). destruct (fst (fst e) =? v); cbn [sum_len]; lia.
Qed.
Lemma cnt_sum_counts_gen (es : list entry) cs :
  cnt_sum (fold_left (fun cs (e : entry) => cnt_add (fst (fst e)) (lenZ (snd e)) cs) es cs) = cnt_sum cs + sum_len es.
Proof.
  revert cs. induction es as [|e es IH]; intros cs; cbn [fold_left sum_len]; [lia|].
  rewrite IH, cnt_sum_add. lia.
Qed.
(* counts[v] = sum of len(rowids) over the entries whose value is v *)
Lemma cnt_get_value_counts v es : cnt_get v (value_counts es) = sum_len (filter (fun e : entry => fst (fst e) =? v) es).
Proof. unfold value_counts. rewrite cnt_get_counts_gen. cbn [cnt_get]. lia. Qed.
(* sum(counts.values()) = sum of all len(rowids) *)
Lemma cnt_sum_value_counts es : cnt_sum (value_counts es) = sum_len es.
Proof. unfold value_counts. rewrite cnt_sum_counts_gen. cbn [cnt_sum]. lia. Qed.

(* ====================================================================================== *)
(* Part 4: the library's arithmetic equals the count over the dense array                  *)
(* ====================================================================================== *)
Theorem count_listed idx v : WF idx -> v <> common idx ->
  dense_count idx v = cnt_get v (value_counts (entries idx)).
Proof.
  intros W Hv. rewrite cnt_get_value_counts, <- length_lcells.
  unfold dense_count, count_cells. f_equal. apply length_filter_nodup.
  - apply NoDup_cells.
  - apply (NoDup_lcells idx); [assumption | apply NoDup_filter, NoDup_entries; assumption | apply incl_filter].
  - intros [r hc]. cbn [fst snd].
    rewrite (in_lcells_listed idx r hc (fun x => x =? v)), in_cells_iff, Z.eqb_eq. split.
    + intros [v' [E L]]. apply Z.eqb_eq in E. subst v'. split.
      * apply (wf_listed_in_range idx r hc v W L).
      * apply dense_listed; assumption.
    + intros [_ E]. exists v. split; [apply Z.eqb_refl|]. apply wf_dense_iff; assumption.
Qed.

Lemma count_not_common idx : WF idx ->
  Z.of_nat (length (filter (fun c => negb (dense idx (fst c) (snd c) =? common idx)) (cells (nrows idx) (hshape idx))))
  = sum_len (entries idx).
Proof.
  intros W. rewrite <- length_lcells. f_equal. apply length_filter_nodup.
  - apply NoDup_cells.
  - apply (NoDup_lcells idx); [assumption | apply NoDup_entries; assumption | apply incl_refl].
  - intros [r hc]. cbn [fst snd]. rewrite in_lcells_all, in_cells_iff, negb_true_iff, Z.eqb_neq. split.
    + intros [v L]. split.
      * apply (wf_listed_in_range idx r hc v W L).
      * rewrite (dense_listed idx r hc v W L). apply (wf_listed_not_common idx r hc v W L).
    + intros [_ N]. exists (dense idx r hc). apply dense_not_common_listed. assumption.
Qed.
Lemma count_common_sum_len idx : WF idx -> dense_count idx (common idx) = size idx - sum_len (entries idx).
Proof.
  intros W. rewrite <- (length_cells idx W), <- (count_not_common idx W). unfold dense_count, count_cells.
  pose proof (length_filter_split (fun c => dense idx (fst c) (snd c) =? common idx) (cells (nrows idx) (hshape idx))).
  lia.
Qed.
Theorem count_common idx : WF idx ->
  dense_count idx (common idx) = size idx - cnt_sum (value_counts (entries idx)).
Proof. intros W. rewrite cnt_sum_value_counts. apply count_common_sum_len. assumption. Qed.

(* ====================================================================================== *)
(* Part 5: the automatic choice is a most frequent value                                   *)
(* ====================================================================================== *)
Lemma cnt_get_set v k c cs : cnt_get v (cnt_set k c cs) = if v =? k then c else cnt_get v cs.
Proof.
  induction cs as [|[k' c'] cs IH]; cbn [cnt_set cnt_get]; [reflexivity|].
  destruct (k =? k') eqn:E; cbn [cnt_get].
  - apply Z.eqb_eq in E. subst k'. destruct (v =? k); reflexivity.
  - destruct (v =? k') eqn:E2; [|apply IH]. apply Z.eqb_eq in E2. subst k'.
    destruct (v =? k) eqn:E3; [|reflexivity]. apply Z.eqb_eq in E3. subst. rewrite Z.eqb_refl in E. discriminate.
Qed.
Lemma in_keys_cnt_add x k d cs : In x (map fst (cnt_add k d cs)) <-> x = k \/ In x (map fst cs).
Proof.
  induction cs as [|[k' c] cs IH]; cbn [cnt_add map fst In].
  - split; intros [H|H]; auto.
  - destruct (k =? k') eqn:E; cbn [map fst In].
    + apply Z.eqb_eq in E. subst k'. split; [intros [H|H]; auto | intros [H|[H|H]]; auto].
    + rewrite IH. tauto.
Qed.
Lemma NoDup_cnt_add k d cs : NoDup (map fst cs) -> NoDup (map fst (cnt_add k d cs)).
Proof.
  induction cs as [|[k' c] cs IH]; cbn [cnt_add map fst]; intros ND.
  - constructor; [intros []|constructor].
  - inversion ND as [|? ? Hn ND']; subst. destruct (k =? k') eqn:E; cbn [map fst].
    + constructor; assumption.
    + constructor; [|auto]. intros H. apply in_keys_cnt_add in H. destruct H as [H|H]; [|contradiction].
      subst k'. rewrite Z.eqb_refl in E. discriminate.
Qed.
Lemma keys_cnt_set k c d cs : map fst (cnt_set k c cs) = map fst (cnt_add k d cs).
Proof.
  induction cs as [|[k' c'] cs IH]; cbn [cnt_set cnt_add map fst]; [reflexivity|].
  destruct (k =? k'); cbn [map fst]; [reflexivity | rewrite IH; reflexivity].
Qed.
Lemma NoDup_cnt_set k c cs : NoDup (map fst cs) -> NoDup (map fst (cnt_set k c cs)).
Proof. intros ND. rewrite (keys_cnt_set k c 0 cs). apply NoDup_cnt_add. assumption. Qed.
Lemma NoDup_counts_gen (es : list entry) cs :
  NoDup (map fst cs) -> NoDup (map fst (fold_left (fun cs (e : entry) => cnt_add (fst (fst e)) (lenZ (snd e)) cs) es cs)).
Proof.
  revert cs. induction es as [|e es IH]; intros cs ND; cbn [fold_left]; [assumption|].
  apply IH, NoDup_cnt_add. assumption.
Qed.
Lemma NoDup_all_counts idx : NoDup (map fst (all_counts idx)).
Proof. unfold all_counts. cbv zeta. apply NoDup_cnt_set. unfold value_counts. apply NoDup_counts_gen. constructor. Qed.
Lemma cnt_set_nonempty k c cs : cnt_set k c cs <> [].
Proof. destruct cs as [|[k' c'] cs]; cbn [cnt_set]; [discriminate|]. destruct (k =? k'); discriminate. Qed.

Lemma cnt_get_In k c cs : NoDup (map fst cs) -> In (k, c) cs -> cnt_get k cs = c.
Proof.
  induction cs as [|[k' c'] cs IH]; cbn [map fst cnt_get]; intros ND H; [destruct H|].
  inversion ND as [|? ? Hn ND']; subst. destruct H as [H|H].
  - inversion H; subst. rewrite Z.eqb_refl. reflexivity.
  - destruct (k =? k') eqn:E; [|auto]. apply Z.eqb_eq in E. subst k'.
    exfalso. apply Hn. apply in_map_iff. exists (k, c). auto.
Qed.
Lemma cnt_get_cases v cs : In (v, cnt_get v cs) cs \/ cnt_get v cs = 0.
Proof.
  induction cs as [|[k' c'] cs IH]; cbn [cnt_get]; [right; reflexivity|].
  destruct (v =? k') eqn:E.
  - apply Z.eqb_eq in E. subst k'. left. now left.
  - destruct IH as [IH|IH]; [left; now right | right; assumption].
Qed.
(* a value with a non-zero counter is a key of the counter *)
Lemma cnt_get_key v cs : cnt_get v cs <> 0 -> In v (map fst cs).
Proof.
  intros H. destruct (cnt_get_cases v cs) as [Hc|Hc]; [|contradiction].
  apply in_map_iff. exists (v, cnt_get v cs). auto.
Qed.

Lemma cv_lt_true a b : cv_lt a b = true -> snd a <= snd b.
Proof.
  unfold cv_lt. rewrite orb_true_iff, andb_true_iff, Z.ltb_lt, Z.eqb_eq. lia.
Qed.
Lemma cv_lt_false a b : cv_lt a b = false -> snd b <= snd a.
Proof.
  unfold cv_lt. rewrite orb_false_iff, Z.ltb_ge. lia.
Qed.
(* max(...) returns an element of the list whose count is >= every count in the list *)
Lemma max_cv_spec best cs :
  In (max_cv best cs) (best :: cs) /\ snd best <= snd (max_cv best cs)
  /\ forall x, In x cs -> snd x <= snd (max_cv best cs).
Proof.
  revert best. induction cs as [|c cs IH]; intros best; cbn [max_cv].
  - split; [now left|]. split; [lia | intros x []].
  - destruct (IH (if cv_lt best c then c else best)) as [H1 [H2 H3]].
    destruct (cv_lt best c) eqn:E.
    + apply cv_lt_true in E. split; [destruct H1 as [H1|H1]; [right; left; assumption | right; right; assumption]|].
      split; [lia|]. intros x [<-|Hx]; [assumption | apply H3; assumption].
    + apply cv_lt_false in E. split; [destruct H1 as [H1|H1]; [left; assumption | right; right; assumption]|].
      split; [assumption|]. intros x [<-|Hx]; [lia | apply H3; assumption].
Qed.
Lemma max_cv_max c cs v :
  NoDup (map fst (c :: cs)) -> (forall k, 0 <= cnt_get k (c :: cs)) ->
  cnt_get v (c :: cs) <= cnt_get (fst (max_cv c cs)) (c :: cs).
Proof.
  intros ND NN. destruct (max_cv_spec c cs) as [Hin [Hb Hx]].
  assert (E: cnt_get (fst (max_cv c cs)) (c :: cs) = snd (max_cv c cs)).
  { apply cnt_get_In; [assumption|]. destruct (max_cv c cs); exact Hin. }
  destruct (cnt_get_cases v (c :: cs)) as [Hc|Hc].
  - rewrite E. destruct Hc as [Hc|Hc].
    + apply (f_equal snd) in Hc. cbn [snd] in Hc. lia.
    + apply Hx in Hc. cbn [snd] in Hc. exact Hc.
  - rewrite Hc. apply NN.
Qed.

(* the library's table of counts is the table of dense counts *)
Theorem dense_count_all_counts idx v : WF idx -> dense_count idx v = cnt_get v (all_counts idx).
Proof.
  intros W. unfold all_counts. cbv zeta. rewrite cnt_get_set. destruct (v =? common idx) eqn:E.
  - apply Z.eqb_eq in E. subst v. apply count_common. assumption.
  - apply Z.eqb_neq in E. apply count_listed; assumption.
Qed.

Theorem auto_common_is_max idx : WF idx -> forall v, dense_count idx v <= dense_count idx (auto_common idx).
Proof.
  intros W v. rewrite !dense_count_all_counts by assumption.
  assert (NN: forall k, 0 <= cnt_get k (all_counts idx))
    by (intros k; rewrite <- dense_count_all_counts by assumption; apply dense_count_nonneg).
  pose proof (NoDup_all_counts idx) as ND.
  unfold auto_common. destruct (all_counts idx) as [|c cs] eqn:AC.
  - exfalso. revert AC. unfold all_counts. cbv zeta. apply cnt_set_nonempty.
  - apply max_cv_max; assumption.
Qed.

(* ====================================================================================== *)
(* Part 6: consequences for the properties (C07)                                           *)
(* ====================================================================================== *)
Definition abscissae (idx : iindex) : list Z :=          (* iindexes.py:209 *)
  map (fun k => fst k) (keys (entries idx))
  ++ (if cnt_sum (value_counts (entries idx)) <? size idx then [common idx] else []).

Theorem wf_abscissae idx v : WF idx ->
  (In v (abscissae idx) <-> exists r hc, in_range idx r hc /\ dense idx r hc = v).
Proof.
  intros W. unfold abscissae. rewrite in_app_iff.
  pose proof (count_common idx W) as CC.
  pose proof (count_cells_pos (dense idx) (nrows idx) (hshape idx) (common idx)) as CP.
  fold (dense_count idx (common idx)) in CP. split.
  - intros [H|H].
    + apply in_map_iff in H. destruct H as [k [<- Hk]]. apply in_map_iff in Hk.
      destruct Hk as [[k' rows] [Ek Hin]]. cbn [fst] in Ek. subst k'.
      destruct rows as [|r rows']; [exfalso; eapply (wf_nonempty idx W); [exact Hin | reflexivity]|].
      assert (L: listed idx r (snd k) (fst k)).
      { exists (r :: rows'). split; [|now left]. destruct k; exact Hin. }
      exists r, (snd k). split; [apply (wf_listed_in_range idx _ _ _ W L) | apply dense_listed; assumption].
    + destruct (cnt_sum (value_counts (entries idx)) <? size idx) eqn:E; [|destruct H].
      destruct H as [<-|[]]. apply Z.ltb_lt in E. apply CP. lia.
  - intros [r [hc [R D]]]. destruct (Z.eq_dec v (common idx)) as [->|N].
    + right. assert (P: 0 < dense_count idx (common idx)) by (apply CP; exists r, hc; auto).
      destruct (cnt_sum (value_counts (entries idx)) <? size idx) eqn:E; [now left|].
      apply Z.ltb_ge in E. lia.
    + left. subst v. apply dense_not_common_listed in N. destruct N as [rows [Hin Hr]].
      apply in_map_iff. exists (dense idx r hc, hc). split; [reflexivity|].
      eapply In_key. eassumption.
Qed.

(* numerator of .sparsity = number of cells equal to common *)
Theorem wf_sparsity idx : WF idx ->
  size idx - cnt_sum (value_counts (entries idx)) = dense_count idx (common idx).
Proof. intros W. symmetry. apply count_common. assumption. Qed.

(* Model.count_of (the closed form used by other areas) is the same table *)
Lemma fold_sum_len_acc (es : list entry) a :
  fold_left (fun a (e : entry) => a + Z.of_nat (length (snd e))) es a = a + sum_len es.
Proof.
  revert a. induction es as [|e es IH]; intros a; cbn [fold_left sum_len]; [lia|]. rewrite IH. unfold lenZ. lia.
Qed.
Lemma fold_sum_len_if_acc v (es : list entry) a :
  fold_left (fun a (e : entry) => if Z.eqb (fst (fst e)) v then a + Z.of_nat (length (snd e)) else a) es a
  = a + sum_len (filter (fun e : entry => fst (fst e) =? v) es).
Proof.
  revert a. induction es as [|e es IH]; intros a; cbn [fold_left filter]; [cbn [sum_len]; lia|]. rewrite IH.
  destruct (fst (fst e) =? v); cbn [sum_len]; unfold lenZ; lia.
Qed.
Theorem count_of_dense_count idx v : WF idx -> count_of idx v = dense_count idx v.
Proof.
  intros W. unfold count_of. destruct (v =? common idx) eqn:E.
  - apply Z.eqb_eq in E. subst v. rewrite fold_sum_len_acc, count_common_sum_len by assumption. lia.
  - apply Z.eqb_neq in E. rewrite fold_sum_len_if_acc, count_listed, cnt_get_value_counts by assumption. lia.
Qed.
