(* Proofs for C01: from_array (both strategies) refines the mapped input array and yields a
   well-formed index; to_array of a well-formed index is its dense content; the composition. *)
From Coq Require Import ZArith List Bool Lia FinFun.
From Catii Require Import Base.Sorted IIndex.Res IIndex.Model IIndex.FromArray IIndex.ToArray IIndex.C01Facts
  Dtype.FitSpec Dtype.FitHand Dtype.FitTactics Dtype.FitProofs.
Import ListNotations.
Open Scope Z_scope.

(* ====================================================================== *)
(* Part 1: from_array                                                      *)
(* ====================================================================== *)

(* cell r of a column holds x *)
Definition at_col (col : list Z) (r x : Z) : Prop := 0 <= r /\ nth_error col (Z.to_nat r) = Some x.

Lemma at_col_bound col r x : at_col col r x -> 0 <= r < Z.of_nat (length col).
Proof.
  intros [H1 H2]. assert (Z.to_nat r < length col)%nat by (apply nth_error_Some; congruence). lia.
Qed.
Lemma at_col_fun col r x y : at_col col r x -> at_col col r y -> x = y.
Proof. intros [_ H1] [_ H2]. congruence. Qed.

(* The invariant of both construction loops: the dict [es] lists exactly the cells described by S,
   every stored row list is strictly increasing and non-empty, keys are distinct. *)
Definition EInv (es : list entry) (S : Z -> list Z -> Z -> Prop) : Prop :=
  NoDup (map fst es) /\
  (forall k rows, assoc_get k es = Some rows -> sincr rows /\ rows <> []) /\
  (forall v hc r, (exists rows, assoc_get (v, hc) es = Some rows /\ In r rows) <-> S v hc r).

Lemma EInv_nil : EInv [] (fun _ _ _ => False).
Proof.
  split; [constructor|]. split; [intros k rows H; discriminate|].
  intros v hc r. split; [intros [rows [H _]]; discriminate|intros []].
Qed.
Lemma EInv_ext es S S' : EInv es S -> (forall v hc r, S v hc r <-> S' v hc r) -> EInv es S'.
Proof. intros (A & B & C) H. split; [exact A|split; [exact B|]]. intros v hc r. rewrite C. apply H. Qed.

Lemma EInv_set es S k rows' (P : Z -> Prop) :
  EInv es S -> sincr rows' -> rows' <> [] ->
  (forall r, In r rows' <-> (exists rows, assoc_get k es = Some rows /\ In r rows) \/ P r) ->
  EInv (assoc_set k rows' es) (fun v hc r => S v hc r \/ ((v, hc) = k /\ P r)).
Proof.
  intros (ND & SR & CH) Hs Hne Hm. split; [apply assoc_set_nodup; exact ND|]. split.
  - intros k0 rows H. destruct (key_eqb k k0) eqn:E.
    + apply key_eqb_eq in E. subst k0. rewrite assoc_get_set_same in H. inversion H; subst. split; assumption.
    + apply key_eqb_neq in E. rewrite assoc_get_set_other in H by exact E. apply SR in H. exact H.
  - intros v hc r. destruct (key_eqb k (v, hc)) eqn:E.
    + apply key_eqb_eq in E. subst k. rewrite assoc_get_set_same. split.
      * intros [rows [H1 H2]]. inversion H1; subst rows. apply Hm in H2.
        destruct H2 as [H2|H2]; [left; apply CH; exact H2|right; split; [reflexivity|exact H2]].
      * intros [H|[_ H]]; exists rows'; (split; [reflexivity|]); apply Hm; [left; apply CH; exact H|right; exact H].
    + apply key_eqb_neq in E. rewrite assoc_get_set_other by exact E. rewrite CH.
      split; [intros H; left; exact H|intros [H|[H _]]; [exact H|congruence]].
Qed.

(* ---- numpy.where(col == dv) ---- *)
Lemma nth_error_step {A : Type} (x : A) t r i : i + 1 <= r ->
  nth_error (x :: t) (Z.to_nat (r - i)) = nth_error t (Z.to_nat (r - (i + 1))).
Proof. intros H. replace (Z.to_nat (r - i)) with (S (Z.to_nat (r - (i + 1)))) by lia. reflexivity. Qed.

Lemma where_from_In col : forall i dv r,
  In r (where_from i dv col) <-> i <= r /\ nth_error col (Z.to_nat (r - i)) = Some dv.
Proof.
  induction col as [|x t IH]; intros i dv r; cbn [where_from].
  - split; [intros []|intros [_ H]; destruct (Z.to_nat (r - i)); discriminate].
  - destruct (x =? dv) eqn:E.
    + apply Z.eqb_eq in E. cbn [In]. rewrite IH. split.
      * intros [<-|[H1 H2]].
        -- split; [lia|]. rewrite Z.sub_diag. cbn. congruence.
        -- split; [lia|]. rewrite nth_error_step by lia. exact H2.
      * intros [H1 H2]. destruct (Z.eq_dec i r) as [->|N]; [left; reflexivity|right].
        split; [lia|]. rewrite <- (nth_error_step x) by lia. exact H2.
    + apply Z.eqb_neq in E. rewrite IH. split.
      * intros [H1 H2]. split; [lia|]. rewrite nth_error_step by lia. exact H2.
      * intros [H1 H2]. destruct (Z.eq_dec i r) as [->|N].
        -- rewrite Z.sub_diag in H2. cbn in H2. congruence.
        -- split; [lia|]. rewrite <- (nth_error_step x) by lia. exact H2.
Qed.
Lemma where_from_sincr col : forall i dv, sincr (where_from i dv col).
Proof.
  induction col as [|x t IH]; intros i dv; cbn [where_from]; [exact I|].
  destruct (x =? dv); [|apply IH].
  apply sincr_cons. split; [|apply IH]. intros y Hy. apply where_from_In in Hy. lia.
Qed.
Lemma map_u32_id l : (forall r, In r l -> 0 <= r < 2 ^ 32) -> map u32 l = l.
Proof.
  induction l as [|x l IH]; intros H; [reflexivity|].
  cbn [map]. f_equal; [unfold u32; apply Z.mod_small; apply H; left; reflexivity|apply IH; intros r Hr; apply H; right; exact Hr].
Qed.

(* ---- the where path ---- *)
Lemma where_cols_inv mv dv cols : forall es S,
  EInv es S -> (forall hc col, In (hc, col) cols -> Z.of_nat (length col) <= 2 ^ 32) ->
  EInv (where_cols mv dv cols es)
       (fun v hc r => S v hc r \/ (v = mv /\ exists col, In (hc, col) cols /\ at_col col r dv)).
Proof.
  induction cols as [|[hc col] t IH]; intros es S HI HB.
  - cbn [where_cols]. eapply EInv_ext; [exact HI|]. intros v hc r.
    split; [intros H; left; exact H|intros [H|[_ [col [[] _]]]]; exact H].
  - cbn [where_cols].
    assert (HW : forall r, In r (where_from 0 dv col) <-> at_col col r dv).
    { intros r. rewrite where_from_In. unfold at_col. rewrite Z.sub_0_r. tauto. }
    pose proof (where_from_sincr col 0 dv) as HS.
    remember (where_from 0 dv col) as rw eqn:W. destruct rw as [|z l].
    + eapply EInv_ext; [apply IH; [exact HI|intros; eapply HB; right; eassumption]|].
      intros v hc' r. cbn beta. split.
      * intros [H|[H1 [c [H2 H3]]]]; [left; exact H|right; split; [exact H1|exists c; split; [right; exact H2|exact H3]]].
      * intros [H|[H1 [c [[H2|H2] H3]]]]; [left; exact H| |right; split; [exact H1|exists c; split; assumption]].
        inversion H2; subst. apply HW in H3. destruct H3.
    + assert (HU : map u32 (z :: l) = z :: l).
      { apply map_u32_id. intros r Hr. apply HW in Hr. apply at_col_bound in Hr.
        specialize (HB hc col (or_introl eq_refl)). lia. }
      rewrite HU.
      set (rows' := union_opt (assoc_get (mv, hc) es) (z :: l)).
      assert (HM : forall r, In r rows' <-> (exists rows, assoc_get (mv, hc) es = Some rows /\ In r rows) \/ at_col col r dv).
      { intros r. unfold rows'. rewrite <- HW. destruct (assoc_get (mv, hc) es) as [l0|] eqn:G; cbn [union_opt].
        - rewrite union_spec_In. split.
          + intros [H|H]; [left; exists l0; split; [reflexivity|exact H]|right; exact H].
          + intros [[rows [H1 H2]]|H]; [left; inversion H1; subst; exact H2|right; exact H].
        - split; [intros H; right; exact H|intros [[rows [H1 _]]|H]; [discriminate|exact H]]. }
      assert (HSR : sincr rows').
      { unfold rows'. destruct (assoc_get (mv, hc) es) as [l0|] eqn:G; cbn [union_opt]; [|exact HS].
        apply union_spec_sincr; [|exact HS]. destruct HI as (_ & SR & _). apply (SR _ _ G). }
      assert (HNE : rows' <> []).
      { intros E. assert (X : In z rows') by (apply HM; right; apply HW; left; reflexivity). rewrite E in X. destruct X. }
      eapply EInv_ext.
      * apply IH; [|intros; eapply HB; right; eassumption].
        apply (EInv_set es S (mv, hc) rows' (fun r => at_col col r dv) HI HSR HNE HM).
      * intros v hc' r. cbn beta. split.
        -- intros [[H|[H1 H2]]|[H1 [c [H2 H3]]]].
           ++ left; exact H.
           ++ inversion H1; subst. right. split; [reflexivity|]. exists col. split; [left; reflexivity|exact H2].
           ++ right. split; [exact H1|]. exists c. split; [right; exact H2|exact H3].
        -- intros [H|[H1 [c [[H2|H2] H3]]]].
           ++ left; left; exact H.
           ++ inversion H2; subst. left; right. split; [reflexivity|exact H3].
           ++ right. split; [exact H1|]. exists c. split; assumption.
Qed.

Lemma where_vals_inv o cmn cols keys : forall es S es',
  EInv es S -> (forall hc col, In (hc, col) cols -> Z.of_nat (length col) <= 2 ^ 32) ->
  where_vals o cmn cols keys es = Ok es' ->
  EInv es' (fun v hc r => S v hc r \/
     (v <> cmn /\ exists dv, In dv keys /\ mapv o dv = Ok v /\ exists col, In (hc, col) cols /\ at_col col r dv)).
Proof.
  induction keys as [|dv t IH]; intros es S es' HI HB H; cbn [where_vals] in H.
  - inversion H; subst. eapply EInv_ext; [exact HI|]. intros v hc r.
    split; [intros X; left; exact X|intros [X|[_ [? [[] _]]]]; exact X].
  - destruct (mapv o dv) as [mv|e] eqn:M; [|discriminate]. destruct (mv =? cmn) eqn:E.
    + apply Z.eqb_eq in E. eapply EInv_ext; [eapply IH; eassumption|]. intros v hc r; cbn beta. split.
      * intros [H1|(H1 & dv' & H2 & H3)]; [left; assumption|right; split; [assumption|exists dv'; split; [right; assumption|assumption]]].
      * intros [H1|(H1 & dv' & [H2|H2] & H3 & H4)]; [left; assumption| |right; split; [assumption|exists dv'; tauto]].
        subst dv'. rewrite M in H3. inversion H3. congruence.
    + apply Z.eqb_neq in E.
      eapply EInv_ext; [eapply IH; [apply where_cols_inv; eassumption|exact HB|exact H]|].
      intros v hc r; cbn beta. split.
      * intros [[H1|[H1 H2]]|(H1 & dv' & H2 & H3)].
        -- left; exact H1.
        -- subst v. right. split; [exact E|]. exists dv. split; [left; reflexivity|]. split; [exact M|exact H2].
        -- right. split; [exact H1|]. exists dv'. split; [right; exact H2|exact H3].
      * intros [H1|(H1 & dv' & [H2|H2] & H3 & H4)].
        -- left; left; exact H1.
        -- subst dv'. rewrite M in H3. inversion H3; subst v. left; right. split; [reflexivity|exact H4].
        -- right. split; [exact H1|]. exists dv'. tauto.
Qed.

Lemma where_vals_total o cmn cols keys : forall es,
  (forall dv, In dv keys -> mapping_defined o dv) -> exists es', where_vals o cmn cols keys es = Ok es'.
Proof.
  induction keys as [|dv t IH]; intros es H; cbn [where_vals]; [eexists; reflexivity|].
  assert (D : mapping_defined o dv) by (apply H; left; reflexivity).
  assert (H' : forall dv', In dv' t -> mapping_defined o dv') by (intros; apply H; right; assumption).
  unfold mapv. unfold mapping_defined in D. destruct (o_mapping o) as [m|].
  - destruct (map_get m dv) as [x|]; [|congruence]. destruct (x =? cmn); apply IH; exact H'.
  - destruct (dv =? cmn); apply IH; exact H'.
Qed.

(* ---- the row-scan path ---- *)
Lemma scan_col_inv o cmn hc col : forall i es S es',
  EInv es S -> 0 <= i -> (forall v r, S v hc r -> r < i) ->
  scan_col o cmn hc i col es = Ok es' ->
  EInv es' (fun v hc' r => S v hc' r \/
     (hc' = hc /\ v <> cmn /\ exists x, i <= r /\ nth_error col (Z.to_nat (r - i)) = Some x /\ mapv o x = Ok v)).
Proof.
  induction col as [|x t IH]; intros i es S es' HI Hi HB H; cbn [scan_col] in H.
  - inversion H; subst. eapply EInv_ext; [exact HI|]. intros v hc' r. split; [intros X; left; exact X|].
    intros [X|(_ & _ & y & _ & Y & _)]; [exact X|]. destruct (Z.to_nat (r - i)); discriminate.
  - destruct (mapv o x) as [v0|e] eqn:M; [|discriminate]. destruct (v0 =? cmn) eqn:E.
    + apply Z.eqb_eq in E.
      eapply EInv_ext; [eapply (IH (i + 1) es S es' HI); [lia|intros v r X; specialize (HB v r X); lia|exact H]|].
      intros v hc' r; cbn beta. split.
      * intros [X|(H1 & H2 & y & H3 & H4 & H5)]; [left; exact X|right].
        split; [exact H1|split; [exact H2|]]. exists y. split; [lia|]. split; [|exact H5]. rewrite nth_error_step by lia. exact H4.
      * intros [X|(H1 & H2 & y & H3 & H4 & H5)]; [left; exact X|right].
        split; [exact H1|split; [exact H2|]]. exists y.
        destruct (Z.eq_dec i r) as [->|N].
        -- rewrite Z.sub_diag in H4. cbn in H4. inversion H4; subst y. rewrite M in H5. inversion H5. congruence.
        -- split; [lia|]. split; [|exact H5]. rewrite <- (nth_error_step x) by lia. exact H4.
    + apply Z.eqb_neq in E. unfold assoc_append in H.
      set (rows' := match assoc_get (v0, hc) es with Some l => l ++ [i] | None => [i] end) in H.
      assert (HM : forall r, In r rows' <-> (exists rows, assoc_get (v0, hc) es = Some rows /\ In r rows) \/ r = i).
      { intros r. unfold rows'. destruct (assoc_get (v0, hc) es) as [l0|] eqn:G.
        - rewrite in_app_iff. cbn [In]. split.
          + intros [X|[X|[]]]; [left; exists l0; split; [reflexivity|exact X]|right; congruence].
          + intros [[rows [H1 H2]]|X]; [left; inversion H1; subst; exact H2|right; left; congruence].
        - cbn [In]. split; [intros [X|[]]; right; congruence|intros [[rows [H1 _]]|X]; [discriminate|left; congruence]]. }
      assert (HSR : sincr rows').
      { unfold rows'. destruct (assoc_get (v0, hc) es) as [l0|] eqn:G; [|cbn; split; exact I].
        destruct HI as (_ & SR & CH). apply sincr_app_last; [apply (SR _ _ G)|].
        intros r Hr. apply (HB v0 r). apply CH. exists l0. split; [exact G|exact Hr]. }
      assert (HNE : rows' <> []).
      { unfold rows'. destruct (assoc_get (v0, hc) es) as [l0|]; [destruct l0; discriminate|discriminate]. }
      pose proof (EInv_set es S (v0, hc) rows' (fun r => r = i) HI HSR HNE HM) as HI1.
      eapply EInv_ext; [eapply (IH (i + 1) _ _ es' HI1); [lia| |exact H]|].
      * intros v r [X|[_ X]]; [specialize (HB v r X); lia|lia].
      * intros v hc' r; cbn beta. split.
        -- intros [[X|[H1 H2]]|(H1 & H2 & y & H3 & H4 & H5)].
           ++ left; exact X.
           ++ inversion H1; subst. right. split; [reflexivity|split; [exact E|]]. exists x.
              split; [lia|]. rewrite Z.sub_diag. cbn. split; [reflexivity|exact M].
           ++ right. split; [exact H1|split; [exact H2|]]. exists y. split; [lia|]. split; [|exact H5].
              rewrite nth_error_step by lia. exact H4.
        -- intros [X|(H1 & H2 & y & H3 & H4 & H5)]; [left; left; exact X|].
           destruct (Z.eq_dec i r) as [->|N].
           ++ rewrite Z.sub_diag in H4. cbn in H4. inversion H4; subst y. rewrite M in H5. inversion H5; subst v0.
              left; right. subst hc'. split; reflexivity.
           ++ right. split; [exact H1|split; [exact H2|]]. exists y. split; [lia|]. split; [|exact H5].
              rewrite <- (nth_error_step x) by lia. exact H4.
Qed.

Lemma scan_cols_inv o cmn cols : forall es S es',
  EInv es S -> NoDup (map fst cols) -> (forall v hc r, S v hc r -> ~ In hc (map fst cols)) ->
  scan_cols o cmn cols es = Ok es' ->
  EInv es' (fun v hc r => S v hc r \/
     (v <> cmn /\ exists col x, In (hc, col) cols /\ at_col col r x /\ mapv o x = Ok v)).
Proof.
  induction cols as [|[hc col] t IH]; intros es S es' HI ND HF H; cbn [scan_cols] in H.
  - inversion H; subst. eapply EInv_ext; [exact HI|]. intros v hc r.
    split; [intros X; left; exact X|intros [X|(_ & c & x & [] & _)]; exact X].
  - destruct (scan_col o cmn hc 0 col es) as [es1|e] eqn:SC; [|discriminate].
    cbn [map fst] in ND, HF. inversion ND as [|? ? Hn ND']; subst.
    assert (HB0 : forall v r, S v hc r -> r < 0).
    { intros v r X. exfalso. apply (HF v hc r X). left; reflexivity. }
    pose proof (scan_col_inv o cmn hc col 0 es S es1 HI (Z.le_refl 0) HB0 SC) as HI1.
    eapply EInv_ext; [eapply (IH es1 _ es' HI1 ND'); [|exact H]|].
    + intros v hc' r [X|(-> & _)]; [|exact Hn]. intros Y. apply (HF v hc' r X). right; exact Y.
    + intros v hc' r; cbn beta. split.
      * intros [[X|(H1 & H2 & y & H3 & H4 & H5)]|(H1 & c & y & H2 & H3)].
        -- left; exact X.
        -- subst hc'. right. split; [exact H2|]. exists col, y. split; [left; reflexivity|]. split; [|exact H5].
           split; [exact H3|]. rewrite Z.sub_0_r in H4. exact H4.
        -- right. split; [exact H1|]. exists c, y. split; [right; exact H2|exact H3].
      * intros [X|(H1 & c & y & [H2|H2] & [H3 H4] & H5)].
        -- left; left; exact X.
        -- inversion H2; subst. left; right. split; [reflexivity|split; [exact H1|]]. exists y.
           split; [exact H3|]. rewrite Z.sub_0_r. split; assumption.
        -- right. split; [exact H1|]. exists c, y. split; [exact H2|]. split; [split; assumption|exact H5].
Qed.

Lemma scan_col_total o cmn hc col : forall i es,
  (forall x, In x col -> mapping_defined o x) -> exists es', scan_col o cmn hc i col es = Ok es'.
Proof.
  induction col as [|x t IH]; intros i es H; cbn [scan_col]; [eexists; reflexivity|].
  assert (D : mapping_defined o x) by (apply H; left; reflexivity).
  assert (H' : forall y, In y t -> mapping_defined o y) by (intros; apply H; right; assumption).
  unfold mapv. unfold mapping_defined in D. destruct (o_mapping o) as [m|].
  - destruct (map_get m x) as [y|]; [|congruence]. destruct (y =? cmn); apply IH; exact H'.
  - destruct (x =? cmn); apply IH; exact H'.
Qed.
Lemma scan_cols_total o cmn cols : forall es,
  (forall hc col x, In (hc, col) cols -> In x col -> mapping_defined o x) -> exists es', scan_cols o cmn cols es = Ok es'.
Proof.
  induction cols as [|[hc col] t IH]; intros es H; cbn [scan_cols]; [eexists; reflexivity|].
  destruct (scan_col_total o cmn hc col 0 es) as [es1 E1].
  - intros x Hx. eapply H; [left; reflexivity|exact Hx].
  - rewrite E1. apply IH. intros hc' col' x H1 H2. eapply H; [right; exact H1|exact H2].
Qed.

(* ---- arrays and their columns ---- *)
Lemma columns_In a hc col :
  In (hc, col) (columns a) <->
  exists j, (j < ncells (a_hshape a))%nat /\ hc = nth j (all_hcs (a_hshape a)) [] /\ col = column a j.
Proof.
  unfold columns. rewrite in_map_iff. split.
  - intros [j [E Hj]]. inversion E; subst. apply in_seq in Hj. exists j. split; [lia|split; reflexivity].
  - intros [j [Hj [-> ->]]]. exists j. split; [reflexivity|apply in_seq; lia].
Qed.
Lemma column_length a j : length (column a j) = length (a_rows a).
Proof. unfold column. apply map_length. Qed.
Lemma columns_keys a : map fst (columns a) = all_hcs (a_hshape a).
Proof. unfold columns, ncells. rewrite map_map. cbn [fst]. symmetry. apply map_nth_seq. Qed.

Lemma nth_error_map_some {A B : Type} (f : A -> B) l : forall n y,
  nth_error (map f l) n = Some y -> exists x, nth_error l n = Some x /\ f x = y.
Proof.
  induction l as [|a l IH]; intros [|n] y; cbn; try discriminate.
  - intros H; inversion H. exists a. split; reflexivity.
  - apply IH.
Qed.
Lemma nth_error_map_nth {A B : Type} (f : A -> B) l d : forall n, (n < length l)%nat ->
  nth_error (map f l) n = Some (f (nth n l d)).
Proof.
  induction l as [|a l IH]; intros [|n] H; cbn in *; try lia; [reflexivity|]. apply IH. lia.
Qed.

Lemma all_hcs_shape hs : forall hc, In hc (all_hcs hs) <-> in_hshape hc hs.
Proof.
  unfold in_hshape. induction hs as [|e hs IH]; intros hc; cbn [all_hcs].
  - cbn [In]. split; [intros [<-|[]]; constructor|intros H; inversion H; left; reflexivity].
  - rewrite in_flat_map. split.
    + intros [c [Hc H]]. apply in_map_iff in H. destruct H as [hc' [<- H']]. apply In_zrange in Hc.
      constructor; [exact Hc|apply IH; exact H'].
    + intros H. inversion H as [|c e' hc' hs'' Hc H']; subst. exists c.
      split; [apply In_zrange; exact Hc|apply in_map_iff; exists hc'; split; [reflexivity|apply IH; exact H']].
Qed.
Lemma NoDup_all_hcs_rect hs : (hs = [] \/ exists c, 0 <= c /\ hs = [c]) -> NoDup (all_hcs hs).
Proof.
  intros [->|[c [_ ->]]].
  - cbn. constructor; [intros []|constructor].
  - rewrite all_hcs_one. apply Injective_map_NoDup; [intros x y H; inversion H; reflexivity|apply NoDup_zrange].
Qed.
Lemma NoDup_fst_unique {A B : Type} (l : list (A * B)) k v v' :
  NoDup (map fst l) -> In (k, v) l -> In (k, v') l -> v = v'.
Proof.
  induction l as [|[k0 v0] l IH]; cbn [map fst In]; intros ND H1 H2; [contradiction|].
  inversion ND as [|? ? Hn ND']; subst. destruct H1 as [H1|H1], H2 as [H2|H2].
  - congruence.
  - inversion H1; subst. exfalso. apply Hn. apply in_map_iff. exists (k, v'). split; [reflexivity|exact H2].
  - inversion H2; subst. exfalso. apply Hn. apply in_map_iff. exists (k, v). split; [reflexivity|exact H1].
  - apply IH; assumption.
Qed.

Lemma column_cell a j r x : rect a -> (j < ncells (a_hshape a))%nat -> at_col (column a j) r x ->
  exists row, nth_error (a_rows a) (Z.to_nat r) = Some row /\ x = nth j row 0 /\ In x (flat a).
Proof.
  intros [_ RF] Hj [Hr H]. unfold column in H. apply nth_error_map_some in H. destruct H as [row [H1 H2]].
  exists row. split; [exact H1|]. split; [symmetry; exact H2|].
  assert (Hin : In row (a_rows a)) by (eapply nth_error_In; exact H1).
  assert (Hl : length row = ncells (a_hshape a)) by (rewrite Forall_forall in RF; apply RF; exact Hin).
  unfold flat. apply in_concat. exists row. split; [exact Hin|]. subst x. apply nth_In. lia.
Qed.

(* ---- what the finished dict lists ---- *)
Definition cellS (a : array) (o : opts) (cmn : Z) (v : Z) (hc : list Z) (r : Z) : Prop :=
  v <> cmn /\ exists col x, In (hc, col) (columns a) /\ at_col col r x /\ mapv o x = Ok v.

Definition mk_index (a : array) (cmn : Z) (es : list entry) : iindex :=
  {| entries := es; common := cmn; nrows := a_nrows a; hshape := a_hshape a |}.

Lemma scan_cols_cellS a o cmn es0 : rect a ->
  scan_cols o cmn (columns a) [] = Ok es0 -> EInv es0 (cellS a o cmn).
Proof.
  intros R SC.
  eapply EInv_ext; [eapply scan_cols_inv; [exact EInv_nil| |intros v hc r []|exact SC]|].
  - rewrite columns_keys. apply NoDup_all_hcs_rect. exact (proj1 R).
  - intros v hc r. cbn beta. unfold cellS. tauto.
Qed.

Lemma build_entries_inv a o s cmn es :
  rect a -> a_nrows a <= 2 ^ 32 ->
  (forall x, In x (flat a) -> In x (map fst (eff_counts a o))) ->
  build_entries a o s cmn = Ok es -> EInv es (cellS a o cmn).
Proof.
  intros R HN HC H.
  assert (HB : forall hc col, In (hc, col) (columns a) -> Z.of_nat (length col) <= 2 ^ 32).
  { intros hc col Hin. apply columns_In in Hin. destruct Hin as [j [_ [_ ->]]]. rewrite column_length. exact HN. }
  destruct s; cbn [build_entries] in H.
  - eapply EInv_ext; [eapply where_vals_inv; [exact EInv_nil|exact HB|exact H]|].
    intros v hc r. cbn beta. unfold cellS. split.
    + intros [[]|(H1 & dv & H2 & H3 & col & H4 & H5)]. split; [exact H1|]. exists col, dv. tauto.
    + intros (H1 & col & x & H2 & H3 & H4). right. split; [exact H1|]. exists x.
      split; [|split; [exact H4|exists col; split; assumption]].
      apply HC. pose proof H2 as H2'. apply columns_In in H2'. destruct H2' as [j [Hj [_ ->]]].
      destruct (column_cell a j r x R Hj H3) as [row [_ [_ X]]]. exact X.
  - unfold res_bind in H. destruct (scan_cols o cmn (columns a) []) as [es0|e] eqn:SC; [|discriminate].
    unfold to_u32_arrays in H. destruct (forallb _ es0); [|discriminate]. inversion H; subst es0.
    apply scan_cols_cellS; assumption.
Qed.

Lemma listed_cellS a o cmn es : EInv es (cellS a o cmn) ->
  forall r hc v, listed (mk_index a cmn es) r hc v <-> cellS a o cmn v hc r.
Proof.
  intros (ND & SR & CH) r hc v. rewrite <- CH. unfold listed, mk_index. cbn [entries].
  split; intros [rows [H1 H2]]; exists rows; (split; [|exact H2]).
  - apply In_assoc_get; assumption.
  - apply assoc_get_In; assumption.
Qed.

Lemma cellS_fun a o cmn v v' hc r : rect a -> cellS a o cmn v hc r -> cellS a o cmn v' hc r -> v = v'.
Proof.
  intros R (_ & col & x & H1 & H2 & H3) (_ & col' & x' & H1' & H2' & H3').
  assert (col = col').
  { eapply NoDup_fst_unique; [|exact H1|exact H1']. rewrite columns_keys. apply NoDup_all_hcs_rect. exact (proj1 R). }
  subst col'. assert (x = x') by (eapply at_col_fun; eassumption). subst x'. congruence.
Qed.

Lemma EInv_WF a o cmn es : rect a -> a_nrows a <= 2 ^ 32 -> EInv es (cellS a o cmn) -> WF (mk_index a cmn es).
Proof.
  intros R HN HI. pose proof (listed_cellS a o cmn es HI) as HL. destruct HI as (ND & SR & CH).
  assert (HE : forall v hc rows, In ((v, hc), rows) es -> exists r0, In r0 rows /\ cellS a o cmn v hc r0).
  { intros v hc rows Hin. apply In_assoc_get in Hin; [|exact ND]. destruct (SR _ _ Hin) as [_ NE].
    destruct rows as [|r0 rows']; [congruence|]. exists r0. split; [left; reflexivity|].
    apply CH. exists (r0 :: rows'). split; [exact Hin|left; reflexivity]. }
  constructor; unfold mk_index; cbn [entries common nrows hshape].
  - unfold a_nrows in *. lia.
  - destruct R as [[E|[c [Hc E]]] _]; rewrite E; [constructor|constructor; [exact Hc|constructor]].
  - exact ND.
  - intros [v hc] rows Hin. cbn [snd]. destruct (HE v hc rows Hin) as [r0 [_ (_ & col & x & H1 & _)]].
    apply columns_In in H1. destruct H1 as [j [Hj [-> _]]]. apply all_hcs_shape. apply nth_In. exact Hj.
  - intros k rows Hin. apply In_assoc_get in Hin; [|exact ND]. apply (SR _ _ Hin).
  - intros [v hc] rows r Hin Hr. apply In_assoc_get in Hin; [|exact ND].
    assert (X : cellS a o cmn v hc r) by (apply CH; exists rows; split; assumption).
    destruct X as (_ & col & x & H1 & H2 & _). apply at_col_bound in H2.
    apply columns_In in H1. destruct H1 as [j [_ [_ ->]]]. rewrite column_length in H2. exact H2.
  - intros k rows Hin. apply In_assoc_get in Hin; [|exact ND]. apply (SR _ _ Hin).
  - intros [v hc] rows Hin. cbn [fst]. destruct (HE v hc rows Hin) as [r0 [_ [X _]]]. exact X.
  - intros r hc v v' L1 L2. apply HL in L1. apply HL in L2. eapply cellS_fun; eassumption.
Qed.

(* pointwise dense refinement: cell (i, j) of the index is the mapped cell of the array *)
Lemma EInv_dense_pt a o cmn es : rect a -> EInv es (cellS a o cmn) ->
  (forall x, In x (flat a) -> mapping_defined o x) ->
  forall i j, (i < length (a_rows a))%nat -> (j < ncells (a_hshape a))%nat ->
  dense (mk_index a cmn es) (Z.of_nat i) (nth j (all_hcs (a_hshape a)) []) = fmap o (nth j (nth i (a_rows a) []) 0).
Proof.
  intros R HI HD i j Hi Hj. pose proof (listed_cellS a o cmn es HI) as HL.
  set (hc := nth j (all_hcs (a_hshape a)) []). set (x := nth j (nth i (a_rows a) []) 0).
  assert (HC : In (hc, column a j) (columns a)) by (apply columns_In; exists j; split; [exact Hj|split; reflexivity]).
  assert (HA : at_col (column a j) (Z.of_nat i) x).
  { split; [lia|]. rewrite Nat2Z.id. unfold column. apply (nth_error_map_nth (fun row => nth j row 0) (a_rows a) []). exact Hi. }
  assert (HX : In x (flat a)).
  { destruct (column_cell a j (Z.of_nat i) x R Hj HA) as [row [_ [_ X]]]. exact X. }
  assert (HM : mapv o x = Ok (fmap o x)).
  { specialize (HD x HX). unfold mapv, fmap, mapping_defined in *. destruct (o_mapping o) as [m|]; [|reflexivity].
    destruct (map_get m x); [reflexivity|congruence]. }
  assert (HF : forall v1 v2, listed (mk_index a cmn es) (Z.of_nat i) hc v1 -> listed (mk_index a cmn es) (Z.of_nat i) hc v2 -> v1 = v2).
  { intros v1 v2 L1 L2. apply HL in L1. apply HL in L2. eapply cellS_fun; eassumption. }
  destruct (Z.eq_dec (fmap o x) cmn) as [E|N].
  - rewrite dense_unlisted; [cbn [mk_index common]; congruence|].
    intros v L. apply HL in L. assert (X : cellS a o cmn v hc (Z.of_nat i)) by exact L.
    destruct L as (Hv & col & y & H1 & H2 & H3).
    assert (col = column a j).
    { eapply NoDup_fst_unique; [|exact H1|exact HC]. rewrite columns_keys. apply NoDup_all_hcs_rect. exact (proj1 R). }
    subst col. assert (y = x) by (eapply at_col_fun; eassumption). subst y. rewrite HM in H3. inversion H3. congruence.
  - apply dense_listed; [exact HF|]. apply HL. split; [exact N|]. exists (column a j), x. split; [exact HC|split; [exact HA|exact HM]].
Qed.

Lemma map_eq_nth {A B C : Type} (F : A -> C) (G : B -> C) d1 d2 : forall l1 l2,
  length l1 = length l2 -> (forall j, (j < length l1)%nat -> F (nth j l1 d1) = G (nth j l2 d2)) -> map F l1 = map G l2.
Proof.
  induction l1 as [|x l1 IH]; intros [|y l2] HL H; cbn [length] in HL; try discriminate; [reflexivity|].
  cbn [map]. f_equal; [apply (H 0%nat); cbn; lia|]. apply IH; [lia|]. intros j Hj. apply (H (S j)). cbn [length]. lia.
Qed.

Lemma EInv_dense_rows a o cmn es : rect a -> EInv es (cellS a o cmn) ->
  (forall x, In x (flat a) -> mapping_defined o x) ->
  dense_rows (mk_index a cmn es) = map (map (fmap o)) (a_rows a).
Proof.
  intros R HI HD. unfold dense_rows, zrange. rewrite map_map.
  change (nrows (mk_index a cmn es)) with (a_nrows a). change (hshape (mk_index a cmn es)) with (a_hshape a).
  unfold a_nrows. rewrite Nat2Z.id.
  apply (map_eq_nth _ _ 0%nat []); [apply seq_length|].
  intros i Hi. rewrite seq_length in Hi. rewrite seq_nth by exact Hi. cbn [Nat.add].
  assert (HR : length (nth i (a_rows a) []) = ncells (a_hshape a)).
  { destruct R as [_ RF]. rewrite Forall_forall in RF. apply RF. apply nth_In. exact Hi. }
  apply (map_eq_nth _ _ [] 0); [symmetry; exact HR|].
  intros j Hj. apply EInv_dense_pt; assumption.
Qed.

(* ---- totality ---- *)
Lemma fc_add_nonempty k c l : fc_add k c l <> [].
Proof. destruct l as [|[k' c'] l]; cbn; [discriminate|destruct (k =? k'); discriminate]. Qed.

Lemma final_counts_m_total m counts : forall acc,
  (forall v, In v (map fst counts) -> map_get m v <> None) ->
  exists fc, final_counts_m m counts acc = Ok fc /\ (counts <> [] \/ acc <> [] -> fc <> []) /\ (counts = [] -> fc = acc).
Proof.
  induction counts as [|[dv c] t IH]; intros acc H; cbn [final_counts_m].
  - exists acc. split; [reflexivity|split; [intros [X|X]; [congruence|exact X]|reflexivity]].
  - destruct (map_get m dv) as [mv|] eqn:G; [|exfalso; apply (H dv); [left; reflexivity|exact G]].
    destruct (IH (fc_add mv c acc)) as [fc [H1 [H2 _]]]; [intros v Hv; apply H; right; exact Hv|].
    exists fc. split; [exact H1|split; [intros _; apply H2; right; apply fc_add_nonempty|discriminate]].
Qed.

Lemma final_counts_total a o : (forall v, In v (map fst (eff_counts a o)) -> mapping_defined o v) ->
  exists fc, final_counts o (eff_counts a o) = Ok fc /\ (fc = [] <-> eff_counts a o = []).
Proof.
  intros H. unfold final_counts. unfold mapping_defined in H. destruct (o_mapping o) as [m|].
  - destruct (final_counts_m_total m (eff_counts a o) [] H) as [fc [H1 [H2 H3]]]. exists fc. split; [exact H1|]. split.
    + intros E. destruct (eff_counts a o); [reflexivity|]. exfalso. apply H2; [left; discriminate|exact E].
    + intros E. apply H3. exact E.
  - exists (eff_counts a o). split; [reflexivity|tauto].
Qed.

Lemma first_max_some l : forall b, first_max l (Some b) <> None.
Proof.
  induction l as [|[v c] t IH]; intros [bv bc]; cbn [first_max]; [discriminate|]. destruct (c >? bc); apply IH.
Qed.
Lemma first_max_none l : first_max l None = None <-> l = [].
Proof.
  destruct l as [|[v c] t]; cbn [first_max]; [tauto|].
  split; [intros H; exfalso; eapply first_max_some; exact H|discriminate].
Qed.

Lemma mapv_defined o v : mapping_defined o v -> mapv o v = Ok (fmap o v).
Proof.
  unfold mapv, fmap, mapping_defined. destruct (o_mapping o) as [m|]; [|reflexivity].
  destruct (map_get m v); [reflexivity|congruence].
Qed.

Lemma pre_pre_data a o : pre a o -> pre_data a o.
Proof. intros [P1 P2 P3 _]. constructor; assumption. Qed.

Lemma choose_common_total a o fc : pre a o -> (fc = [] <-> eff_counts a o = []) -> exists cmn, choose_common o fc = Ok cmn.
Proof.
  intros P HF. unfold choose_common. destruct (o_common o) as [c|] eqn:C.
  - rewrite mapv_defined; [eexists; reflexivity|]. apply (pre_common a o P). exact C.
  - destruct (first_max fc None) as [[v c]|] eqn:FM; [eexists; reflexivity|].
    apply first_max_none in FM. destruct (pre_some a o P) as [X|[X|[p [m X]]]].
    + exfalso. apply X. apply HF. exact FM.
    + congruence.
    + rewrite X. eexists; reflexivity.
Qed.

Lemma build_entries_total a o s cmn : rect a -> a_nrows a <= 2 ^ 32 -> pre_data a o ->
  exists es, build_entries a o s cmn = Ok es.
Proof.
  intros R HN P. destruct s; cbn [build_entries].
  - apply where_vals_total. apply (pd_mapping a o P).
  - destruct (scan_cols_total o cmn (columns a) []) as [es0 E0].
    + intros hc col x H1 H2. apply (pd_mapping a o P). apply (pd_counts a o P).
      apply columns_In in H1. destruct H1 as [j [Hj [_ ->]]].
      apply In_nth_error in H2. destruct H2 as [n H2].
      destruct (column_cell a j (Z.of_nat n) x R Hj) as [row [_ [_ X]]]; [split; [lia|rewrite Nat2Z.id; exact H2]|exact X].
    + rewrite E0. unfold res_bind, to_u32_arrays.
      pose proof (scan_cols_cellS a o cmn es0 R E0) as (ND & SR & CH).
      assert (F : forallb (fun e : entry => forallb (fun r => (0 <=? r) && (r <? 2 ^ 32)) (snd e)) es0 = true).
      { apply forallb_forall. intros [[v hc] rows] Hin. apply forallb_forall. intros r Hr. cbn [snd] in Hr.
        apply In_assoc_get in Hin; [|exact ND].
        assert (X : cellS a o cmn v hc r) by (apply CH; exists rows; split; assumption).
        destruct X as (_ & col & x & H1 & H2 & _). apply at_col_bound in H2.
        apply columns_In in H1. destruct H1 as [j [_ [_ ->]]]. rewrite column_length in H2. unfold a_nrows in HN.
        apply andb_true_iff. split; [apply Z.leb_le|apply Z.ltb_lt]; lia. }
      rewrite F. eexists; reflexivity.
Qed.

(* ---- the theorems about from_array ---- *)
Theorem from_array_total a o s : rect a -> a_nrows a <= 2 ^ 32 -> pre a o -> exists idx, from_array a o s = Ok idx.
Proof.
  intros R HN P. unfold from_array.
  destruct (final_counts_total a o (pre_mapping a o P)) as [fc [E1 HF]]. rewrite E1. cbn [res_bind].
  destruct (choose_common_total a o fc P HF) as [cmn E2]. rewrite E2. cbn [res_bind].
  destruct (build_entries_total a o s cmn R HN (pre_pre_data a o P)) as [es E3]. rewrite E3. cbn [res_bind].
  eexists; reflexivity.
Qed.

Lemma pre_cases a o : pre_data a o ->
  pre a o \/ (eff_counts a o = [] /\ o_common o = None /\ (o_mapping o = None \/ o_mapping o = Some [])).
Proof.
  intros [P1 P2 P3].
  assert (D1 : eff_counts a o = [] \/ eff_counts a o <> []) by (destruct (eff_counts a o); [left; reflexivity|right; discriminate]).
  assert (D2 : o_common o = None \/ o_common o <> None) by (destruct (o_common o); [right; discriminate|left; reflexivity]).
  assert (D3 : (o_mapping o = None \/ o_mapping o = Some []) \/ exists p m, o_mapping o = Some (p :: m)).
  { destruct (o_mapping o) as [[|p m]|]; [left; right; reflexivity|right; exists p, m; reflexivity|left; left; reflexivity]. }
  destruct D1 as [D1|D1]; [|left; constructor; tauto].
  destruct D2 as [D2|D2]; [|left; constructor; tauto].
  destruct D3 as [D3|D3]; [|left; constructor; tauto].
  right. tauto.
Qed.

(* the documented refusal is the only error *)
Theorem from_array_err_only a o s e : rect a -> a_nrows a <= 2 ^ 32 -> pre_data a o -> from_array a o s = Err e ->
  e = EValueError /\ eff_counts a o = [] /\ o_common o = None /\ (o_mapping o = None \/ o_mapping o = Some []).
Proof.
  intros R HN PD H. destruct (pre_cases a o PD) as [P|(E1 & E2 & E3)].
  - destruct (from_array_total a o s R HN P) as [idx X]. congruence.
  - split; [|tauto]. unfold from_array in H. rewrite E1 in H. unfold final_counts, choose_common in H. rewrite E2 in H.
    destruct E3 as [E3|E3]; rewrite E3 in H; cbn [final_counts_m res_bind first_max] in H; congruence.
Qed.

Lemma from_array_inv a o s idx : from_array a o s = Ok idx ->
  exists fc cmn es, final_counts o (eff_counts a o) = Ok fc /\ choose_common o fc = Ok cmn /\
    build_entries a o s cmn = Ok es /\ idx = mk_index a cmn es.
Proof.
  unfold from_array, res_bind.
  destruct (final_counts o (eff_counts a o)) as [fc|] eqn:E1; [|discriminate].
  destruct (choose_common o fc) as [cmn|] eqn:E2; [|discriminate].
  destruct (build_entries a o s cmn) as [es|] eqn:E3; [|discriminate].
  intros H. inversion H. exists fc, cmn, es. split; [reflexivity|split; [exact E2|split; [exact E3|reflexivity]]].
Qed.

Theorem from_array_wf a o s idx : rect a -> a_nrows a <= 2 ^ 32 -> pre_data a o -> from_array a o s = Ok idx -> WF idx.
Proof.
  intros R HN PD H. destruct (from_array_inv a o s idx H) as (fc & cmn & es & _ & _ & E3 & ->).
  eapply EInv_WF; [exact R|exact HN|]. eapply build_entries_inv; [exact R|exact HN|apply (pd_counts a o PD)|exact E3].
Qed.

Theorem from_array_dense a o s idx : rect a -> a_nrows a <= 2 ^ 32 -> pre_data a o -> from_array a o s = Ok idx ->
  nrows idx = a_nrows a /\ hshape idx = a_hshape a /\
  dense_rows idx = map (map (fmap o)) (a_rows a) /\
  (forall i j, (i < length (a_rows a))%nat -> (j < ncells (a_hshape a))%nat ->
     dense idx (Z.of_nat i) (nth j (all_hcs (a_hshape a)) []) = fmap o (nth j (nth i (a_rows a) []) 0)).
Proof.
  intros R HN PD H. destruct (from_array_inv a o s idx H) as (fc & cmn & es & _ & _ & E3 & ->).
  assert (HI : EInv es (cellS a o cmn)).
  { eapply build_entries_inv; [exact R|exact HN|apply (pd_counts a o PD)|exact E3]. }
  assert (HD : forall x, In x (flat a) -> mapping_defined o x).
  { intros x Hx. apply (pd_mapping a o PD). apply (pd_counts a o PD). exact Hx. }
  split; [reflexivity|split; [reflexivity|split]].
  - apply EInv_dense_rows; assumption.
  - intros i j Hi Hj. apply EInv_dense_pt; assumption.
Qed.

(* the common value of the result *)
Theorem from_array_common a o s idx : from_array a o s = Ok idx ->
  (forall c, o_common o = Some c -> mapping_defined o c -> common idx = fmap o c).
Proof.
  intros H c C D. destruct (from_array_inv a o s idx H) as (fc & cmn & es & _ & E2 & _ & ->).
  unfold choose_common in E2. rewrite C in E2. rewrite (mapv_defined o c D) in E2. inversion E2. reflexivity.
Qed.

(* ====================================================================== *)
(* Part 2: to_array                                                        *)
(* ====================================================================== *)

Lemma upd_length {A : Type} (l : list A) : forall n x, length (upd l n x) = length l.
Proof. induction l as [|y l IH]; intros [|n] x; cbn [upd length]; try reflexivity. rewrite IH. reflexivity. Qed.
Lemma nth_upd_same {A : Type} (l : list A) : forall n x d, (n < length l)%nat -> nth n (upd l n x) d = x.
Proof.
  induction l as [|y l IH]; intros [|n] x d H; cbn [upd nth length] in *; try lia; [reflexivity|]. apply IH. lia.
Qed.
Lemma nth_upd_other {A : Type} (l : list A) : forall n m x d, n <> m -> nth m (upd l n x) d = nth m l d.
Proof.
  induction l as [|y l IH]; intros [|n] [|m] x d H; cbn [upd nth]; try reflexivity; try congruence.
  apply IH. congruence.
Qed.

Definition shape_ok (out : list (list Z)) (n c : nat) : Prop :=
  length out = n /\ forall r, (r < n)%nat -> length (nth r out []) = c.
Definition cell (out : list (list Z)) (r j : nat) : Z := nth j (nth r out []) 0.

Lemma set_cell_shape out n c r j v : shape_ok out n c -> shape_ok (set_cell out r j v) n c.
Proof.
  intros [H1 H2]. unfold set_cell. split; [rewrite upd_length; exact H1|].
  intros r' Hr'. destruct (Nat.eq_dec r r') as [<-|N].
  - rewrite nth_upd_same by lia. rewrite upd_length. apply H2. exact Hr'.
  - rewrite nth_upd_other by exact N. apply H2. exact Hr'.
Qed.
Lemma set_cell_get out n c r j v r' j' : shape_ok out n c -> (r < n)%nat -> (j < c)%nat ->
  cell (set_cell out r j v) r' j' = if Nat.eqb r' r && Nat.eqb j' j then v else cell out r' j'.
Proof.
  intros [H1 H2] Hr Hj. unfold cell, set_cell.
  destruct (Nat.eqb_spec r' r) as [->|N]; cbn [andb].
  - rewrite nth_upd_same by lia. destruct (Nat.eqb_spec j' j) as [->|N'].
    + apply nth_upd_same. rewrite H2 by exact Hr. exact Hj.
    + apply nth_upd_other. congruence.
  - rewrite nth_upd_other by congruence. reflexivity.
Qed.

Lemma scatter_rows_spec n c N j v : forall rows out,
  shape_ok out n c -> n = Z.to_nat N -> (j < c)%nat -> (forall r, In r rows -> 0 <= r < N) ->
  exists out', scatter_rows out N j v rows = Ok out' /\ shape_ok out' n c /\
    forall r' j', cell out' r' j' = if Nat.eqb j' j && memZ (Z.of_nat r') rows then v else cell out r' j'.
Proof.
  induction rows as [|r t IH]; intros out HS Hn Hj HR; cbn [scatter_rows].
  - exists out. split; [reflexivity|split; [exact HS|]]. intros r' j'. cbn. rewrite andb_false_r. reflexivity.
  - assert (Hr : 0 <= r < N) by (apply HR; left; reflexivity).
    assert (E : (0 <=? r) && (r <? N) = true) by (apply andb_true_iff; split; [apply Z.leb_le|apply Z.ltb_lt]; lia).
    rewrite E.
    destruct (IH (set_cell out (Z.to_nat r) j v)) as [out' [H1 [H2 H3]]];
      [apply set_cell_shape; exact HS|exact Hn|exact Hj|intros r0 H0; apply HR; right; exact H0|].
    exists out'. split; [exact H1|split; [exact H2|]]. intros r' j'. rewrite H3.
    rewrite (set_cell_get out n c) by (try exact HS; try exact Hj; lia).
    unfold memZ. cbn [existsb]. fold (memZ (Z.of_nat r') t).
    destruct (Nat.eqb_spec j' j); destruct (Nat.eqb_spec r' (Z.to_nat r)); destruct (Z.eqb_spec (Z.of_nat r') r);
      destruct (memZ (Z.of_nat r') t); cbn; try reflexivity; lia.
Qed.

Definition hits_b (hs : list Z) (r' j' : nat) (e : entry) : bool :=
  match col_index hs (snd (fst e)) with Some j => Nat.eqb j' j | None => false end && memZ (Z.of_nat r') (snd e).
Fixpoint last_val (g : Z -> Z) (hs : list Z) (r' j' : nat) (es : list entry) (acc : Z) : Z :=
  match es with
  | [] => acc
  | e :: t => last_val g hs r' j' t (if hits_b hs r' j' e then g (fst (fst e)) else acc)
  end.

Lemma scatter_entries_spec um d N hs n c : n = Z.to_nat N ->
  forall es out, shape_ok out n c ->
  (forall v hc rows, In ((v, hc), rows) es ->
     out_value um v = Ok (tmap um v) /\ fits d (tmap um v) = true /\
     (exists j, col_index hs hc = Some j /\ (j < c)%nat) /\ (forall r, In r rows -> 0 <= r < N)) ->
  exists out', scatter_entries um d N hs es out = Ok out' /\ shape_ok out' n c /\
    forall r' j', cell out' r' j' = last_val (tmap um) hs r' j' es (cell out r' j').
Proof.
  intros Hn. induction es as [|[[v hc] rows] t IH]; intros out HS H; cbn [scatter_entries last_val].
  - exists out. split; [reflexivity|split; [exact HS|reflexivity]].
  - destruct (H v hc rows (or_introl eq_refl)) as (H1 & H2 & (j & H3 & H4) & H5).
    rewrite H1, H2, H3. cbn [negb].
    destruct (scatter_rows_spec n c N j (tmap um v) rows out HS Hn H4 H5) as [out1 [E1 [S1 C1]]].
    rewrite E1.
    destruct (IH out1 S1) as [out' [E2 [S2 C2]]]; [intros v' hc' rows' Hin; apply H; right; exact Hin|].
    exists out'. split; [exact E2|split; [exact S2|]]. intros r' j'. rewrite C2, C1.
    unfold hits_b. cbn [fst snd]. rewrite H3. reflexivity.
Qed.

Lemma last_val_cases g hs r' j' es : forall acc,
  (last_val g hs r' j' es acc = acc /\ forall e, In e es -> hits_b hs r' j' e = false) \/
  (exists e, In e es /\ hits_b hs r' j' e = true /\ last_val g hs r' j' es acc = g (fst (fst e))).
Proof.
  induction es as [|e t IH]; intros acc; cbn [last_val].
  - left. split; [reflexivity|intros e []].
  - destruct (hits_b hs r' j' e) eqn:Hh.
    + destruct (IH (g (fst (fst e)))) as [[H1 H2]|[e' [H1 [H2 H3]]]].
      * right. exists e. split; [left; reflexivity|split; [exact Hh|exact H1]].
      * right. exists e'. split; [right; exact H1|split; [exact H2|exact H3]].
    + destruct (IH acc) as [[H1 H2]|[e' [H1 [H2 H3]]]].
      * left. split; [exact H1|]. intros e0 [<-|H0]; [exact Hh|apply H2; exact H0].
      * right. exists e'. split; [right; exact H1|split; [exact H2|exact H3]].
Qed.

(* ---- col_index ---- *)
Lemma nth_zrange j n : (j < Z.to_nat n)%nat -> nth j (zrange n) 0 = Z.of_nat j.
Proof.
  intros H. unfold zrange. change 0 with (Z.of_nat 0). rewrite map_nth. rewrite seq_nth by exact H. reflexivity.
Qed.
Lemma ncells_one c : ncells [c] = Z.to_nat c.
Proof. unfold ncells. rewrite all_hcs_one, map_length, zrange_length. reflexivity. Qed.
Lemma col_index_spec hs hc j : col_index hs hc = Some j -> (j < ncells hs)%nat /\ nth j (all_hcs hs) [] = hc.
Proof.
  destruct hs as [|c [|c' hs]]; destruct hc as [|z [|z' hc]]; cbn [col_index]; try discriminate.
  - intros H; inversion H; subst. cbn. split; [lia|reflexivity].
  - destruct ((0 <=? z) && (z <? c)) eqn:E; [|discriminate]. intros H; inversion H; subst j.
    apply andb_true_iff in E. destruct E as [E1 E2]. apply Z.leb_le in E1. apply Z.ltb_lt in E2.
    rewrite ncells_one. split; [lia|]. rewrite all_hcs_one.
    rewrite (nth_indep _ [] [0]) by (rewrite map_length, zrange_length; lia).
    rewrite (map_nth (fun j => [j])). rewrite nth_zrange by lia. f_equal. lia.
Qed.
Lemma col_index_total hs hc : (length hs <= 1)%nat -> in_hshape hc hs -> exists j, col_index hs hc = Some j.
Proof.
  unfold in_hshape. intros HL H. destruct hs as [|c [|c' hs]]; [| |cbn in HL; lia].
  - inversion H. exists 0%nat. reflexivity.
  - inversion H as [|z c0 hc' hs' Hz H']; subst. inversion H'; subst. cbn [col_index].
    assert (E : (0 <=? z) && (z <? c) = true) by (apply andb_true_iff; split; [apply Z.leb_le|apply Z.ltb_lt]; lia).
    rewrite E. eexists; reflexivity.
Qed.

(* ---- lists of lists through their cells ---- *)
Lemma nested_ext out n c (F : nat -> nat -> Z) : shape_ok out n c ->
  (forall r j, (r < n)%nat -> (j < c)%nat -> cell out r j = F r j) ->
  out = map (fun r => map (fun j => F r j) (seq 0 c)) (seq 0 n).
Proof.
  intros [H1 H2] H. apply (list_ext_seq out [] n); [exact H1|]. intros r Hr.
  apply (list_ext_seq (nth r out []) 0 c); [apply H2; exact Hr|]. intros j Hj. apply H; assumption.
Qed.
Lemma map_via_nth {A B : Type} (f : A -> B) l d : map f l = map (fun j => f (nth j l d)) (seq 0 (length l)).
Proof.
  transitivity (map f (map (fun j => nth j l d) (seq 0 (length l)))); [f_equal; apply map_nth_seq|apply map_map].
Qed.
Lemma nth_repeat_lt {A : Type} (x d : A) n i : (i < n)%nat -> nth i (repeat x n) d = x.
Proof. intros H. apply (repeat_spec n x). apply nth_In. rewrite repeat_length. exact H. Qed.

Lemma wf_shape_cases idx : WF idx -> (length (hshape idx) <= 1)%nat ->
  hshape idx = [] \/ exists c, 0 <= c /\ hshape idx = [c].
Proof.
  intros W HL. pose proof (wf_hshape idx W) as HF. destruct (hshape idx) as [|c [|c' hs]]; [left; reflexivity| |cbn in HL; lia].
  right. exists c. split; [inversion HF; assumption|reflexivity].
Qed.

(* ---- to_array of a well-formed index ---- *)
Theorem to_array_core idx mapping dt : WF idx -> (length (hshape idx) <= 1)%nat ->
  let um := use_map mapping in
  let d := match dt with Some d => d | None => default_dtype idx um end in
  (forall v, In v (map (fun e : entry => fst (fst e)) (entries idx)) -> out_value um v = Ok (tmap um v)) ->
  (forall v, In v (index_values idx) -> fits d (tmap um v) = true) ->
  to_array idx mapping dt = Ok (arr_map (tmap um) (dense_array idx), d).
Proof.
  intros W HL um d HV HFit.
  assert (TA : to_array idx mapping dt = to_array_body idx mapping dt (hshape idx)).
  { unfold to_array. destruct (hshape idx) as [|c [|c' hs]]; [reflexivity|reflexivity|cbn in HL; lia]. }
  rewrite TA. unfold to_array_body. fold um. fold d.
  assert (FT : fill_value um (common idx) = tmap um (common idx)) by (destruct um; reflexivity).
  rewrite FT.
  assert (FC : fits d (tmap um (common idx)) = true).
  { apply HFit. unfold index_values. apply in_app_iff. right. left. reflexivity. }
  rewrite FC. cbn [negb].
  set (hs := hshape idx) in *. set (n := Z.to_nat (nrows idx)). set (c := ncells hs).
  set (fillv := tmap um (common idx)).
  assert (S0 : shape_ok (repeat (repeat fillv c) n) n c).
  { split; [apply repeat_length|]. intros r Hr. rewrite nth_repeat_lt by exact Hr. apply repeat_length. }
  assert (C0 : forall r j, (r < n)%nat -> (j < c)%nat -> cell (repeat (repeat fillv c) n) r j = fillv).
  { intros r j Hr Hj. unfold cell. rewrite nth_repeat_lt by exact Hr. apply nth_repeat_lt. exact Hj. }
  destruct (scatter_entries_spec um d (nrows idx) hs n c eq_refl (entries idx) _ S0) as [out' [E1 [S1 C1]]].
  { intros v hc rows Hin. split; [|split; [|split]].
    - apply HV. apply in_map_iff. exists ((v, hc), rows). split; [reflexivity|exact Hin].
    - apply HFit. unfold index_values. apply in_app_iff. left. apply in_map_iff. exists ((v, hc), rows). split; [reflexivity|exact Hin].
    - pose proof (wf_hc idx W (v, hc) rows Hin) as X. cbn [snd] in X.
      destruct (col_index_total hs hc HL X) as [j Hj]. exists j. split; [exact Hj|]. apply (col_index_spec hs hc j Hj).
    - intros r Hr. apply (wf_rows idx W (v, hc) rows r Hin Hr). }
  rewrite E1. f_equal. f_equal. unfold arr_map, dense_array. cbn [a_rows a_hshape]. f_equal.
  (* the cells *)
  pose proof (NoDup_all_hcs_rect hs (wf_shape_cases idx W HL)) as NDH.
  assert (CELL : forall r j, (r < n)%nat -> (j < c)%nat ->
            cell out' r j = tmap um (dense idx (Z.of_nat r) (nth j (all_hcs hs) []))).
  { intros r j Hr Hj. rewrite C1, C0 by assumption.
    set (hc := nth j (all_hcs hs) []).
    assert (HITS : forall e, In e (entries idx) -> (hits_b hs r j e = true <-> covers (Z.of_nat r) hc e = true)).
    { intros [[v hce] rows] Hin. unfold hits_b, covers. cbn [fst snd].
      pose proof (wf_hc idx W (v, hce) rows Hin) as X. cbn [snd] in X.
      destruct (col_index_total hs hce HL X) as [j0 Hj0]. rewrite Hj0.
      destruct (col_index_spec hs hce j0 Hj0) as [B0 N0].
      rewrite !andb_true_iff. rewrite zl_eqb_eq. rewrite Nat.eqb_eq. split.
      - intros [-> H2]. split; [symmetry; exact N0|exact H2].
      - intros [H1 H2]. split; [|exact H2]. unfold hc in H1. rewrite <- N0 in H1.
        apply (proj1 (NoDup_nth (all_hcs hs) []) NDH); [exact Hj|exact B0|symmetry; exact H1]. }
    destruct (last_val_cases (tmap um) hs r j (entries idx) fillv) as [[H1 H2]|[e [H1 [H2 H3]]]].
    - rewrite H1. unfold fillv. f_equal. symmetry. apply dense_unlisted.
      intros v L. destruct (listed_covers _ _ _ _ L) as [e [Hin [Hc _]]].
      apply HITS in Hc; [|exact Hin]. rewrite (H2 e Hin) in Hc. discriminate.
    - rewrite H3. f_equal. symmetry. apply dense_listed; [intros v1 v2; apply (wf_excl idx W)|].
      apply covers_listed; [exact H1|]. apply HITS; assumption. }
  rewrite (nested_ext out' n c _ S1 CELL).
  unfold dense_rows, zrange. fold hs. fold n. rewrite !map_map. apply map_ext. intros r.
  rewrite map_map. symmetry. apply (map_via_nth (fun hc => tmap um (dense idx (Z.of_nat r) hc)) (all_hcs hs) []).
Qed.

(* ---- the three modes ---- *)
Lemma arr_map_id a : arr_map (fun v => v) a = a.
Proof.
  destruct a as [rows hs]. unfold arr_map. cbn [a_rows a_hshape]. f_equal.
  rewrite (map_ext _ (fun r : list Z => r)); [apply map_id|intros r; apply map_id].
Qed.

(* an empty dict is "no mapping" *)
Lemma to_array_empty_mapping idx dt : to_array idx (Some []) dt = to_array idx None dt.
Proof. reflexivity. Qed.

Theorem to_array_dense idx dt : WF idx -> (length (hshape idx) <= 1)%nat ->
  (forall v, In v (index_values idx) -> fits dt v = true) ->
  to_array idx None (Some dt) = Ok (dense_array idx, dt).
Proof.
  intros W HL HF. pose proof (to_array_core idx None (Some dt) W HL) as H. cbv zeta in H.
  cbn [use_map] in H. change (tmap None) with (fun v : Z => v) in H. rewrite arr_map_id in H.
  apply H; [intros v _; reflexivity|exact HF].
Qed.

Lemma fold_min_le l : forall x, fold_left Z.min l x <= x /\ forall v, In v l -> fold_left Z.min l x <= v.
Proof.
  induction l as [|y l IH]; intros x; cbn [fold_left].
  - split; [lia|intros v []].
  - destruct (IH (Z.min x y)) as [H1 H2]. split; [lia|]. intros v [<-|Hv]; [lia|apply H2; exact Hv].
Qed.
Lemma fold_max_ge l : forall x, x <= fold_left Z.max l x /\ forall v, In v l -> v <= fold_left Z.max l x.
Proof.
  induction l as [|y l IH]; intros x; cbn [fold_left].
  - split; [lia|intros v []].
  - destruct (IH (Z.max x y)) as [H1 H2]. split; [lia|]. intros v [<-|Hv]; [lia|apply H2; exact Hv].
Qed.
Lemma minl_le l v : In v l -> minl l <= v.
Proof. destruct l as [|x l]; [intros []|]. cbn [minl]. destruct (fold_min_le l x) as [H1 H2]. intros [<-|H]; [exact H1|apply H2; exact H]. Qed.
Lemma maxl_ge l v : In v l -> v <= maxl l.
Proof. destruct l as [|x l]; [intros []|]. cbn [maxl]. destruct (fold_max_ge l x) as [H1 H2]. intros [<-|H]; [exact H1|apply H2; exact H]. Qed.

Lemma fit_contains mx mn v : mn <= v <= mx -> np_int_range mn mx -> fits (fit_dtype mx mn) v = true.
Proof.
  intros Hv (R1 & R2 & R3).
  assert (E : eff_min mx mn = mn).
  { unfold eff_min. destruct (mx <? 0) eqn:A; destruct (mn =? 0) eqn:B; cbn [andb]; try reflexivity.
    apply Z.ltb_lt in A. apply Z.eqb_eq in B. lia. }
  pose proof (fit_hand_C19 mx mn) as H. cbv zeta in H. rewrite E in H.
  destruct H as [[H1 H2] _]; try lia.
  unfold fits, containsb. apply andb_true_iff. split; apply Z.leb_le; lia.
Qed.
Lemma fit_narrowest mx mn : mn <= mx -> np_int_range mn mx -> spec_choice mx mn = Some (fit_dtype mx mn).
Proof.
  intros Hv (R1 & R2 & R3).
  assert (E : eff_min mx mn = mn).
  { unfold eff_min. destruct (mx <? 0) eqn:A; destruct (mn =? 0) eqn:B; cbn [andb]; try reflexivity.
    apply Z.ltb_lt in A. apply Z.eqb_eq in B. lia. }
  pose proof (fit_hand_spec mx mn) as H. cbv zeta in H. rewrite E in H. apply H; lia.
Qed.
Lemma fits_zero d : fits d 0 = true.
Proof. destruct d; reflexivity. Qed.

Theorem to_array_default idx : WF idx -> (length (hshape idx) <= 1)%nat ->
  let vs := index_values idx in
  np_int_range (minl vs) (maxl vs) ->
  to_array idx None None = Ok (dense_array idx, fit_dtype (maxl vs) (minl vs)) /\
  spec_choice (maxl vs) (minl vs) = Some (fit_dtype (maxl vs) (minl vs)).
Proof.
  intros W HL vs HR.
  assert (HC : In (common idx) vs) by (unfold vs, index_values; apply in_app_iff; right; left; reflexivity).
  split.
  - pose proof (to_array_core idx None None W HL) as H. cbv zeta in H.
    cbn [use_map] in H. change (tmap None) with (fun v : Z => v) in H. rewrite arr_map_id in H.
    unfold default_dtype in H. fold vs in H. apply H; [intros v _; reflexivity|].
    intros v Hv. apply fit_contains; [|exact HR]. split; [apply minl_le|apply maxl_ge]; exact Hv.
  - apply fit_narrowest; [|exact HR]. pose proof (minl_le vs _ HC). pose proof (maxl_ge vs _ HC). lia.
Qed.

Lemma use_map_cons m : m <> [] -> use_map (Some m) = Some m.
Proof. destruct m; [congruence|reflexivity]. Qed.
Lemma map_get_In m v x : map_get m v = Some x -> In x (map snd m).
Proof.
  induction m as [|[k y] m IH]; cbn [map_get map snd]; [discriminate|].
  destruct (v =? k); [intros H; inversion H; left; reflexivity|intros H; right; apply IH; exact H].
Qed.

(* with a mapping: the cells are m.get(value, 0), and m[value] must exist for every entry value *)
Theorem to_array_mapping idx m dt : WF idx -> (length (hshape idx) <= 1)%nat -> m <> [] ->
  (forall v, In v (map (fun e : entry => fst (fst e)) (entries idx)) -> map_get m v <> None) ->
  let d := match dt with Some d => d | None => fit_dtype (maxl (map snd m)) (minl (map snd m)) end in
  (forall v, In v (index_values idx) -> fits d (tmap (Some m) v) = true) ->
  to_array idx (Some m) dt = Ok (arr_map (tmap (Some m)) (dense_array idx), d).
Proof.
  intros W HL HM HD d HF. pose proof (to_array_core idx (Some m) dt W HL) as H. cbv zeta in H.
  rewrite (use_map_cons m HM) in H. unfold default_dtype in H. apply H; [|exact HF].
  intros v Hv. specialize (HD v Hv). cbn [out_value tmap]. destruct (map_get m v); [reflexivity|congruence].
Qed.

(* ... and its default dtype always holds the cells when one integer dtype holds all of m's values *)
Theorem to_array_mapping_default idx m : WF idx -> (length (hshape idx) <= 1)%nat -> m <> [] ->
  (forall v, In v (map (fun e : entry => fst (fst e)) (entries idx)) -> map_get m v <> None) ->
  np_int_range (minl (map snd m)) (maxl (map snd m)) ->
  to_array idx (Some m) None =
    Ok (arr_map (tmap (Some m)) (dense_array idx), fit_dtype (maxl (map snd m)) (minl (map snd m))).
Proof.
  intros W HL HM HD HR. apply (to_array_mapping idx m None W HL HM HD). cbv zeta.
  intros v _. cbn [tmap]. destruct (map_get m v) as [x|] eqn:G.
  - apply map_get_In in G. apply fit_contains; [|exact HR]. split; [apply minl_le|apply maxl_ge]; exact G.
  - destruct HR as (R1 & R2 & R3). destruct m as [|[k y] m']; [congruence|].
    assert (Y : In y (map snd ((k, y) :: m'))) by (left; reflexivity).
    pose proof (minl_le _ _ Y). pose proof (maxl_ge _ _ Y).
    assert (E : eff_min (maxl (map snd ((k, y) :: m'))) (minl (map snd ((k, y) :: m'))) = minl (map snd ((k, y) :: m'))).
    { unfold eff_min. destruct (_ <? 0) eqn:A; destruct (_ =? 0) eqn:B; cbn [andb]; try reflexivity.
      apply Z.ltb_lt in A. apply Z.eqb_eq in B. lia. }
    pose proof (fit_hand_C19 (maxl (map snd ((k, y) :: m'))) (minl (map snd ((k, y) :: m')))) as H1. cbv zeta in H1.
    rewrite E in H1. destruct H1 as [[H1 H2] _]; try lia.
    unfold fits, containsb. apply andb_true_iff.
    set (dd := fit_dtype _ _) in *. split; apply Z.leb_le; [lia|].
    destruct dd; cbn; lia.
Qed.

(* ====================================================================== *)
(* Part 3: the composition                                                 *)
(* ====================================================================== *)

Lemma rect_ndim a idx : rect a -> hshape idx = a_hshape a -> (length (hshape idx) <= 1)%nat.
Proof. intros [[E|[c [_ E]]] _] H; rewrite H, E; cbn; lia. Qed.
Lemma arr_map_map f g a : arr_map g (arr_map f a) = arr_map (fun v => g (f v)) a.
Proof.
  destruct a as [rows hs]. unfold arr_map. cbn [a_rows a_hshape]. f_equal.
  rewrite map_map. apply map_ext. intros r. apply map_map.
Qed.

(* counting: the keys of count_values are exactly the values that occur *)
Lemma cnt_insert_keys v l : forall k, In k (map fst (cnt_insert v l)) <-> k = v \/ In k (map fst l).
Proof.
  induction l as [|[k0 c] l IH]; intros k; cbn [cnt_insert map fst In].
  - split; [intros [H|[]]; left; congruence|intros [H|[]]; left; congruence].
  - destruct (v <? k0) eqn:E1; [|destruct (v =? k0) eqn:E2]; cbn [map fst In].
    + split; [intros [H|H]; [left; congruence|right; exact H]|intros [H|H]; [left; congruence|right; exact H]].
    + apply Z.eqb_eq in E2. subst k0. split; [intros [H|H]; [right; left; exact H|right; right; exact H]|intros [H|[H|H]]; [left; congruence|left; exact H|right; exact H]].
    + rewrite IH. tauto.
Qed.
Lemma count_fold_keys xs : forall acc k,
  In k (map fst (fold_left (fun acc v => cnt_insert v acc) xs acc)) <-> In k xs \/ In k (map fst acc).
Proof.
  induction xs as [|x xs IH]; intros acc k; cbn [fold_left In]; [tauto|].
  rewrite IH, cnt_insert_keys. split; [intros [H|[H|H]]; [left; right; exact H|left; left; congruence|right; exact H]|
                                      intros [[H|H]|H]; [right; left; congruence|left; exact H|right; right; exact H]].
Qed.
Lemma count_values_keys xs k : In k (map fst (count_values xs)) <-> In k xs.
Proof. unfold count_values. rewrite count_fold_keys. cbn. tauto. Qed.

(* without caller-supplied counts the contract is the documented one *)
Lemma pre_no_counts a o : o_counts o = None ->
  (forall v, In v (flat a) -> mapping_defined o v) ->
  (forall c, o_common o = Some c -> mapping_defined o c) ->
  (flat a <> [] \/ o_common o <> None \/ exists p m, o_mapping o = Some (p :: m)) ->
  pre a o.
Proof.
  intros HC H1 H2 H3.
  assert (E : eff_counts a o = count_values (flat a)) by (unfold eff_counts; rewrite HC; reflexivity).
  constructor; rewrite ?E.
  - intros v Hv. apply count_values_keys. exact Hv.
  - intros v Hv. apply H1. apply count_values_keys. exact Hv.
  - exact H2.
  - destruct H3 as [H3|H3]; [left|right; exact H3]. intros X. apply H3.
    destruct (flat a) as [|x l]; [reflexivity|]. exfalso.
    assert (Y : In x (map fst (count_values (x :: l)))) by (apply count_values_keys; left; reflexivity).
    rewrite X in Y. destruct Y.
Qed.

(* where the values of the resulting index come from *)
Lemma first_max_In l : forall b v c, first_max l b = Some (v, c) -> In (v, c) l \/ b = Some (v, c).
Proof.
  induction l as [|[v0 c0] t IH]; intros b v c H; cbn [first_max] in H; [right; exact H|].
  destruct b as [[bv bc]|].
  - destruct (c0 >? bc); apply IH in H; destruct H as [H|H]; try (left; right; exact H); [left; left; congruence|right; exact H].
  - apply IH in H. destruct H as [H|H]; [left; right; exact H|left; left; congruence].
Qed.
Lemma fc_add_keys k c l : forall k', In k' (map fst (fc_add k c l)) <-> k' = k \/ In k' (map fst l).
Proof.
  induction l as [|[k0 c0] l IH]; intros k'; cbn [fc_add map fst In].
  - split; [intros [H|[]]; left; congruence|intros [H|[]]; left; congruence].
  - destruct (k =? k0) eqn:E; cbn [map fst In].
    + apply Z.eqb_eq in E. subst k0. split; [intros [H|H]; [right; left; exact H|right; right; exact H]|intros [H|[H|H]]; [left; congruence|left; exact H|right; exact H]].
    + rewrite IH. tauto.
Qed.
Lemma final_counts_m_keys m counts : forall acc fc, final_counts_m m counts acc = Ok fc ->
  forall k, In k (map fst fc) -> In k (map fst acc) \/ exists dv, In dv (map fst counts) /\ map_get m dv = Some k.
Proof.
  induction counts as [|[dv c] t IH]; intros acc fc H k Hk; cbn [final_counts_m] in H.
  - inversion H; subst. left; exact Hk.
  - destruct (map_get m dv) as [mv|] eqn:G; [|discriminate].
    destruct (IH _ _ H k Hk) as [X|[dv' [X1 X2]]].
    + apply fc_add_keys in X. destruct X as [->|X]; [right; exists dv; split; [left; reflexivity|exact G]|left; exact X].
    + right. exists dv'. split; [right; exact X1|exact X2].
Qed.

Lemma fold_min_In l : forall x, fold_left Z.min l x = x \/ In (fold_left Z.min l x) l.
Proof.
  induction l as [|y l IH]; intros x; cbn [fold_left]; [left; reflexivity|].
  destruct (IH (Z.min x y)) as [E|E]; [|right; right; exact E].
  rewrite E. destruct (Z.min_spec x y) as [[_ M]|[_ M]]; [left; exact M|right; left; symmetry; exact M].
Qed.
Lemma minl_In l : l <> [] -> In (minl l) l.
Proof.
  destruct l as [|x l]; [congruence|]. intros _. cbn [minl].
  destruct (fold_min_In l x) as [E|E]; [left; symmetry; exact E|right; exact E].
Qed.

(* every value of the resulting index is: the mapped supplied common, a mapped counted value, or -
   for an input without values - a value of the mapping *)
Lemma from_array_common_src a o s idx : from_array a o s = Ok idx ->
  (exists c, o_common o = Some c /\ mapv o c = Ok (common idx)) \/
  (exists k, In k (map fst (eff_counts a o)) /\ common idx = fmap o k) \/
  (exists m, o_mapping o = Some m /\ In (common idx) (map snd m)).
Proof.
  intros H. destruct (from_array_inv a o s idx H) as (fc & cmn & es & E1 & E2 & _ & ->).
  cbn [mk_index common]. unfold choose_common in E2. destruct (o_common o) as [c|].
  - left. exists c. split; [reflexivity|exact E2].
  - destruct (first_max fc None) as [[v c]|] eqn:FM.
    + inversion E2; subst v. right; left. apply first_max_In in FM. destruct FM as [FM|FM]; [|discriminate].
      assert (K : In cmn (map fst fc)) by (apply in_map_iff; exists (cmn, c); split; [reflexivity|exact FM]).
      unfold final_counts in E1. unfold fmap. destruct (o_mapping o) as [m|].
      * destruct (final_counts_m_keys m _ _ _ E1 cmn K) as [[]|[dv [X1 X2]]]. exists dv. rewrite X2. split; [exact X1|reflexivity].
      * inversion E1; subst fc. exists cmn. split; [exact K|reflexivity].
    + right; right. destruct (o_mapping o) as [[|p m]|]; try discriminate. inversion E2; subst cmn.
      exists (p :: m). split; [reflexivity|].
      apply (minl_In (map snd (p :: m))). cbn. discriminate.
Qed.

Lemma from_array_values a o s idx : rect a -> a_nrows a <= 2 ^ 32 -> pre_data a o -> from_array a o s = Ok idx ->
  forall v, In v (index_values idx) -> v = common idx \/ exists x, In x (flat a) /\ v = fmap o x.
Proof.
  intros R HN PD H v Hv. destruct (from_array_inv a o s idx H) as (fc & cmn & es & _ & _ & E3 & ->).
  unfold index_values in Hv. apply in_app_iff in Hv. destruct Hv as [Hv|[<-|[]]]; [|left; reflexivity].
  right. apply in_map_iff in Hv. destruct Hv as [[[v' hc] rows] [E Hin]]. cbn [fst] in E. subst v'.
  cbn [mk_index entries] in Hin.
  pose proof (build_entries_inv a o s cmn es R HN (pd_counts a o PD) E3) as (ND & SR & CH).
  apply In_assoc_get in Hin; [|exact ND]. destruct (SR _ _ Hin) as [_ NE]. destruct rows as [|r0 rows']; [congruence|].
  assert (X : cellS a o cmn v hc r0) by (apply CH; exists (r0 :: rows'); split; [exact Hin|left; reflexivity]).
  destruct X as (_ & col & x & H1 & H2 & H3). exists x. split.
  - apply columns_In in H1. destruct H1 as [j [Hj [_ ->]]]. destruct (column_cell a j r0 x R Hj H2) as [row [_ [_ X]]]. exact X.
  - unfold mapv, fmap in *. destruct (o_mapping o) as [m|]; [destruct (map_get m x); congruence|congruence].
Qed.

(* The round trip, for both strategies and every option combination. *)
Theorem C01_roundtrip a o s : rect a -> a_nrows a <= 2 ^ 32 -> pre a o ->
  exists idx, from_array a o s = Ok idx /\ WF idx /\
    (* (1) explicit dtype that holds the values of the index *)
    (forall dt, (forall v, In v (index_values idx) -> fits dt v = true) ->
        to_array idx None (Some dt) = Ok (arr_map (fmap o) a, dt)) /\
    (* (2) default dtype: it exists as soon as one NumPy integer dtype can hold all the values, and is the narrowest *)
    (let vs := index_values idx in np_int_range (minl vs) (maxl vs) ->
        to_array idx None None = Ok (arr_map (fmap o) a, fit_dtype (maxl vs) (minl vs)) /\
        spec_choice (maxl vs) (minl vs) = Some (fit_dtype (maxl vs) (minl vs))) /\
    (* (3) a value mapping on the way back *)
    (forall m dt, m <> [] -> (forall v, In v (index_values idx) -> map_get m v <> None) ->
        let d := match dt with Some d => d | None => fit_dtype (maxl (map snd m)) (minl (map snd m)) end in
        (forall v, In v (index_values idx) -> fits d (tmap (Some m) v) = true) ->
        to_array idx (Some m) dt = Ok (arr_map (fun v => tmap (Some m) (fmap o v)) a, d)).
Proof.
  intros R HN P. destruct (from_array_total a o s R HN P) as [idx H]. exists idx.
  pose proof (pre_pre_data a o P) as PD.
  pose proof (from_array_wf a o s idx R HN PD H) as W.
  destruct (from_array_dense a o s idx R HN PD H) as (D1 & D2 & D3 & _).
  assert (DA : dense_array idx = arr_map (fmap o) a) by (unfold dense_array, arr_map; rewrite D2, D3; reflexivity).
  pose proof (rect_ndim a idx R D2) as HL.
  split; [exact H|split; [exact W|split; [|split]]].
  - intros dt HF. rewrite <- DA. apply to_array_dense; assumption.
  - intros vs HR. rewrite <- DA. apply (to_array_default idx W HL HR).
  - intros m dt HM HD d HF. rewrite <- arr_map_map, <- DA. apply (to_array_mapping idx m dt W HL HM); [|exact HF].
    intros v Hv. apply HD. unfold index_values. apply in_app_iff. left. exact Hv.
Qed.

(* ---- the property's own domain: values anywhere in int64 ---- *)
Definition in_int64 (v : Z) : Prop := - 2 ^ 63 <= v < 2 ^ 63.

(* every value the index can come to contain, read off the INPUT *)
Definition inputs_in (P : Z -> Prop) (a : array) (o : opts) : Prop :=
  (forall x, In x (flat a) -> P (fmap o x)) /\
  (forall c, o_common o = Some c -> P (fmap o c)) /\
  (forall cs k, o_counts o = Some cs -> In k (map fst cs) -> P (fmap o k)) /\
  (forall m x, o_mapping o = Some m -> eff_counts a o = [] -> o_common o = None -> In x (map snd m) -> P x).

Lemma final_counts_m_nonempty m counts : forall acc fc, final_counts_m m counts acc = Ok fc -> acc <> [] -> fc <> [].
Proof.
  induction counts as [|[dv c] t IH]; intros acc fc H NE; cbn [final_counts_m] in H.
  - inversion H; subst. exact NE.
  - destruct (map_get m dv); [|discriminate]. eapply IH; [exact H|apply fc_add_nonempty].
Qed.
Lemma final_counts_nil o counts : final_counts o counts = Ok [] -> counts = [].
Proof.
  unfold final_counts. destruct (o_mapping o) as [m|]; [|intros H; inversion H; reflexivity].
  destruct counts as [|[dv c] t]; [reflexivity|]. cbn [final_counts_m]. destruct (map_get m dv); [|discriminate].
  intros H. exfalso. eapply final_counts_m_nonempty; [exact H|apply fc_add_nonempty|reflexivity].
Qed.
Lemma mapv_fmap o x v : mapv o x = Ok v -> v = fmap o x.
Proof. unfold mapv, fmap. destruct (o_mapping o) as [m|]; [destruct (map_get m x); congruence|congruence]. Qed.

Lemma from_array_common_P (P : Z -> Prop) a o s idx : inputs_in P a o -> from_array a o s = Ok idx -> P (common idx).
Proof.
  intros (I1 & I2 & I3 & I4) H. destruct (from_array_inv a o s idx H) as (fc & cmn & es & E1 & E2 & _ & ->).
  cbn [mk_index common]. unfold choose_common in E2. destruct (o_common o) as [c|] eqn:C.
  - apply mapv_fmap in E2. subst cmn. apply I2. reflexivity.
  - destruct (first_max fc None) as [[v c]|] eqn:FM.
    + inversion E2; subst v. apply first_max_In in FM. destruct FM as [FM|FM]; [|discriminate].
      assert (K : In cmn (map fst fc)) by (apply in_map_iff; exists (cmn, c); split; [reflexivity|exact FM]).
      assert (X : exists k, In k (map fst (eff_counts a o)) /\ cmn = fmap o k).
      { unfold final_counts in E1. unfold fmap. destruct (o_mapping o) as [m|].
        - destruct (final_counts_m_keys m _ _ _ E1 cmn K) as [[]|[dv [X1 X2]]]. exists dv. rewrite X2. split; [exact X1|reflexivity].
        - inversion E1; subst fc. exists cmn. split; [exact K|reflexivity]. }
      destruct X as [k [X1 ->]]. unfold eff_counts in X1. destruct (o_counts o) as [cs|] eqn:CS.
      * eapply I3; [reflexivity|exact X1].
      * apply I1. apply count_values_keys. exact X1.
    + apply first_max_none in FM. subst fc. apply final_counts_nil in E1.
      destruct (o_mapping o) as [[|p m]|] eqn:M; try discriminate. inversion E2; subst cmn.
      eapply I4; [reflexivity|exact E1|reflexivity|]. apply (minl_In (map snd (p :: m))). cbn. discriminate.
Qed.

Lemma from_array_values_P (P : Z -> Prop) a o s idx : rect a -> a_nrows a <= 2 ^ 32 -> pre_data a o ->
  inputs_in P a o -> from_array a o s = Ok idx -> forall v, In v (index_values idx) -> P v.
Proof.
  intros R HN PD I H v Hv. destruct (from_array_values a o s idx R HN PD H v Hv) as [->|[x [X1 ->]]].
  - eapply from_array_common_P; eassumption.
  - apply (proj1 I). exact X1.
Qed.

Lemma fold_max_In l : forall x, fold_left Z.max l x = x \/ In (fold_left Z.max l x) l.
Proof.
  induction l as [|y l IH]; intros x; cbn [fold_left]; [left; reflexivity|].
  destruct (IH (Z.max x y)) as [E|E]; [|right; right; exact E].
  rewrite E. destruct (Z.max_spec x y) as [[_ M]|[_ M]]; [right; left; symmetry; exact M|left; exact M].
Qed.
Lemma maxl_In l : l <> [] -> In (maxl l) l.
Proof.
  destruct l as [|x l]; [congruence|]. intros _. cbn [maxl].
  destruct (fold_max_In l x) as [E|E]; [left; symmetry; exact E|right; exact E].
Qed.

Lemma fits_int64 v : in_int64 v -> fits D_int64 v = true.
Proof.
  unfold in_int64, fits, containsb. change (lo D_int64) with (- 2 ^ 63). change (hi D_int64) with (2 ^ 63 - 1).
  intros H. apply andb_true_iff. split; apply Z.leb_le; lia.
Qed.

(* C01 on the property's stated domain: all (mapped) values in int64.  Both the explicit int64
   round trip and the default-dtype round trip succeed and return the mapped input. *)
Theorem C01_roundtrip_int64 a o s : rect a -> a_nrows a <= 2 ^ 32 -> pre a o -> inputs_in in_int64 a o ->
  exists idx, from_array a o s = Ok idx /\ WF idx /\
    to_array idx None (Some D_int64) = Ok (arr_map (fmap o) a, D_int64) /\
    exists dt, to_array idx None None = Ok (arr_map (fmap o) a, dt) /\
               forall x, In x (flat a) -> fits dt (fmap o x) = true.
Proof.
  intros R HN P I. destruct (C01_roundtrip a o s R HN P) as (idx & H & W & T1 & T2 & _). exists idx.
  pose proof (from_array_values_P in_int64 a o s idx R HN (pre_pre_data a o P) I H) as HV.
  split; [exact H|split; [exact W|split]].
  - apply T1. intros v Hv. apply fits_int64. apply HV. exact Hv.
  - cbv zeta in T2.
    assert (NE : index_values idx <> []) by (unfold index_values; intros E; apply app_eq_nil in E; destruct E; discriminate).
    pose proof (HV _ (minl_In _ NE)) as B1. pose proof (HV _ (maxl_In _ NE)) as B2. unfold in_int64 in B1, B2.
    destruct T2 as [T2 _]; [unfold np_int_range; lia|].
    eexists. split; [exact T2|]. intros x Hx.
    apply fit_contains; [|unfold np_int_range; lia].
    assert (In (fmap o x) (index_values idx) \/ fmap o x = common idx) as X.
    { (* a cell value is either listed or the common value *)
      destruct (Z.eq_dec (fmap o x) (common idx)) as [E|N]; [right; exact E|left].
      destruct (from_array_inv a o s idx H) as (fc & cmn & es & _ & _ & E3 & ->).
      pose proof (build_entries_inv a o s cmn es R HN (pre_counts a o P) E3) as HI.
      pose proof HI as (ND & SR & CH). cbn [mk_index common] in N.
      (* locate the cell *)
      unfold flat in Hx. apply in_concat in Hx. destruct Hx as [row [Hrow Hx]].
      apply In_nth_error in Hrow. destruct Hrow as [i Hi]. apply (In_nth _ _ 0) in Hx. destruct Hx as [j [Hj Ej]].
      assert (Hl : length row = ncells (a_hshape a)).
      { destruct R as [_ RF]. rewrite Forall_forall in RF. apply RF. eapply nth_error_In. exact Hi. }
      assert (CS : cellS a o cmn (fmap o x) (nth j (all_hcs (a_hshape a)) []) (Z.of_nat i)).
      { split; [exact N|]. exists (column a j), x. split; [apply columns_In; exists j; split; [lia|split; reflexivity]|].
        split; [split; [lia|]|].
        - rewrite Nat2Z.id. unfold column.
          assert (Hi' : (i < length (a_rows a))%nat) by (apply nth_error_Some; congruence).
          rewrite (nth_error_map_nth (fun row => nth j row 0) (a_rows a) [] i Hi').
          rewrite (nth_error_nth (a_rows a) i [] Hi). rewrite Ej. reflexivity.
        - apply mapv_defined. apply (pre_mapping a o P). apply (pre_counts a o P).
          unfold flat. apply in_concat. exists row. split; [eapply nth_error_In; exact Hi|rewrite <- Ej; apply nth_In; exact Hj]. }
      apply CH in CS. destruct CS as [rows [G _]]. apply assoc_get_In in G.
      unfold index_values, mk_index. cbn [entries common]. apply in_app_iff. left.
      apply in_map_iff. eexists. split; [|exact G]. reflexivity. }
    destruct X as [X|X]; [split; [apply minl_le|apply maxl_ge]; exact X|].
    rewrite X. assert (C : In (common idx) (index_values idx)) by (unfold index_values; apply in_app_iff; right; left; reflexivity).
    split; [apply minl_le|apply maxl_ge]; exact C.
Qed.

(* ---- the boolean twins are sound ---- *)
Lemma rect_b_sound a : rect_b a = true -> rect a.
Proof.
  unfold rect_b, rect. intros H. apply andb_true_iff in H. destruct H as [H1 H2]. split.
  - destruct (a_hshape a) as [|c [|c' hs]]; [left; reflexivity| |discriminate].
    right. exists c. split; [apply Z.leb_le; exact H1|reflexivity].
  - apply Forall_forall. intros row Hr. rewrite forallb_forall in H2. apply Nat.eqb_eq. apply H2. exact Hr.
Qed.
Lemma mapping_defined_b_sound o v : mapping_defined_b o v = true -> mapping_defined o v.
Proof.
  unfold mapping_defined_b, mapping_defined. destruct (o_mapping o) as [m|]; [|intros _; exact I].
  destruct (map_get m v); [intros _; discriminate|discriminate].
Qed.
Lemma pre_b_sound a o : pre_b a o = true -> pre a o.
Proof.
  unfold pre_b. intros H. apply andb_true_iff in H. destruct H as [H H4]. apply andb_true_iff in H. destruct H as [H H3].
  apply andb_true_iff in H. destruct H as [H1 H2]. constructor.
  - intros v Hv. rewrite forallb_forall in H1. apply memZ_In. apply H1. exact Hv.
  - intros v Hv. rewrite forallb_forall in H2. apply mapping_defined_b_sound. apply H2. exact Hv.
  - intros c C. rewrite C in H3. apply mapping_defined_b_sound. exact H3.
  - apply orb_true_iff in H4. destruct H4 as [H4|H4]; [apply orb_true_iff in H4; destruct H4 as [H4|H4]|].
    + left. destruct (eff_counts a o); [discriminate|discriminate].
    + right; left. destruct (o_common o); [discriminate|discriminate].
    + right; right. destruct (o_mapping o) as [[|p m]|]; try discriminate. exists p, m. reflexivity.
Qed.
