(* General facts used by the C01 proofs: the dict (association list) of Model.v, strictly increasing
   lists and their merge, zrange / all_hcs, list extensionality through nth, dense vs listed.
   (Some overlap with IIndex/ModelFacts.v is deliberate: the two were written in parallel.) *)
From Coq Require Import ZArith List Bool Lia FinFun.
From Catii Require Import Base.Sorted IIndex.Model.
Import ListNotations.
Open Scope Z_scope.

(* ---- equality tests ---- *)
Lemma zl_eqb_eq a b : zl_eqb a b = true <-> a = b.
Proof.
  revert b. induction a as [|x a IH]; intros [|y b]; cbn [zl_eqb]; split; intros H; try reflexivity; try discriminate.
  - apply andb_true_iff in H. destruct H as [H1 H2]. apply Z.eqb_eq in H1. apply IH in H2. congruence.
  - inversion H; subst. rewrite Z.eqb_refl. cbn [andb]. apply IH. reflexivity.
Qed.
Lemma zl_eqb_refl a : zl_eqb a a = true.
Proof. apply zl_eqb_eq. reflexivity. Qed.
Lemma key_eqb_eq a b : key_eqb a b = true <-> a = b.
Proof.
  destruct a as [x a], b as [y b]. unfold key_eqb. cbn [fst snd]. rewrite andb_true_iff, Z.eqb_eq, zl_eqb_eq.
  split; [intros [-> ->]; reflexivity|intros H; inversion H; auto].
Qed.
Lemma key_eqb_refl a : key_eqb a a = true.
Proof. apply key_eqb_eq. reflexivity. Qed.
Lemma key_eqb_neq a b : key_eqb a b = false <-> a <> b.
Proof.
  split.
  - intros H E. apply key_eqb_eq in E. congruence.
  - intros H. destruct (key_eqb a b) eqn:E; [apply key_eqb_eq in E; contradiction|reflexivity].
Qed.
Lemma memZ_In r l : memZ r l = true <-> In r l.
Proof.
  unfold memZ. rewrite existsb_exists. split.
  - intros [x [H E]]. apply Z.eqb_eq in E. congruence.
  - intros H. exists r. split; [assumption|apply Z.eqb_refl].
Qed.

(* ---- the dict ---- *)
Lemma assoc_get_In k es rows : assoc_get k es = Some rows -> In (k, rows) es.
Proof.
  induction es as [|[k' v] es IH]; cbn [assoc_get]; [discriminate|].
  destruct (key_eqb k k') eqn:E.
  - intros H. inversion H; subst. apply key_eqb_eq in E. subst. left. reflexivity.
  - intros H. right. apply IH. exact H.
Qed.
Lemma In_assoc_get k es rows : NoDup (map fst es) -> In (k, rows) es -> assoc_get k es = Some rows.
Proof.
  induction es as [|[k' v] es IH]; cbn [assoc_get map fst]; intros ND H; [contradiction|].
  inversion ND as [|? ? Hn ND']; subst. destruct H as [H|H].
  - inversion H; subst. rewrite key_eqb_refl. reflexivity.
  - destruct (key_eqb k k') eqn:E.
    + apply key_eqb_eq in E. subst. exfalso. apply Hn. apply in_map_iff. exists (k', rows). split; [reflexivity|assumption].
    + apply IH; assumption.
Qed.
Lemma assoc_get_set_same k v es : assoc_get k (assoc_set k v es) = Some v.
Proof.
  induction es as [|[k' v'] es IH]; cbn [assoc_set assoc_get].
  - rewrite key_eqb_refl. reflexivity.
  - destruct (key_eqb k k') eqn:E; cbn [assoc_get]; [rewrite key_eqb_refl; reflexivity|rewrite E; exact IH].
Qed.
Lemma assoc_get_set_other k k' v es : k <> k' -> assoc_get k' (assoc_set k v es) = assoc_get k' es.
Proof.
  intros N. induction es as [|[k0 v0] es IH]; cbn [assoc_set assoc_get].
  - assert (E : key_eqb k' k = false) by (apply key_eqb_neq; congruence). rewrite E. reflexivity.
  - destruct (key_eqb k k0) eqn:E; cbn [assoc_get].
    + apply key_eqb_eq in E. subst k0.
      assert (E' : key_eqb k' k = false) by (apply key_eqb_neq; congruence). rewrite E'. reflexivity.
    + destruct (key_eqb k' k0); [reflexivity|exact IH].
Qed.
Lemma assoc_set_keys k v es : forall k', In k' (map fst (assoc_set k v es)) <-> k' = k \/ In k' (map fst es).
Proof.
  induction es as [|[k0 v0] es IH]; intros k'; cbn [assoc_set map fst In].
  - split; [intros [H|[]]; left; congruence|intros [H|[]]; left; congruence].
  - destruct (key_eqb k k0) eqn:E; cbn [map fst In].
    + apply key_eqb_eq in E. subst k0. split; [intros [H|H]; [left; congruence|right; right; exact H]|intros [H|[H|H]]; [left; congruence|left; exact H|right; exact H]].
    + rewrite IH. tauto.
Qed.
Lemma assoc_set_nodup k v es : NoDup (map fst es) -> NoDup (map fst (assoc_set k v es)).
Proof.
  induction es as [|[k0 v0] es IH]; cbn [assoc_set map fst]; intros ND.
  - constructor; [intros []|constructor].
  - inversion ND as [|? ? Hn ND']; subst. destruct (key_eqb k k0) eqn:E; cbn [map fst].
    + apply key_eqb_eq in E. subst k0. constructor; assumption.
    + constructor; [|apply IH; exact ND'].
      intros H. apply assoc_set_keys in H. destruct H as [H|H]; [|contradiction].
      subst k0. rewrite key_eqb_refl in E. discriminate.
Qed.

(* ---- strictly increasing lists ---- *)
Lemma sincr_cons x l : sincr (x :: l) <-> (forall y, In y l -> x < y) /\ sincr l.
Proof.
  revert x. induction l as [|z l IH]; intros x.
  - cbn. split; [intros _; split; [intros ? []|exact I]|intros _; split; exact I].
  - change (sincr (x :: z :: l)) with (x < z /\ sincr (z :: l)). rewrite (IH z). split.
    + intros [H1 [H2 H3]]. split; [|split; assumption].
      intros y [<-|Hy]; [exact H1|]. specialize (H2 y Hy). lia.
    + intros [H1 [H2 H3]]. split; [apply H1; left; reflexivity|split; assumption].
Qed.
Lemma sincr_app_last l i : sincr l -> (forall r, In r l -> r < i) -> sincr (l ++ [i]).
Proof.
  induction l as [|x l IH]; intros S B.
  - cbn. split; exact I.
  - change ((x :: l) ++ [i]) with (x :: (l ++ [i])). apply sincr_cons. apply sincr_cons in S. destruct S as [S1 S2]. split.
    + intros y Hy. apply in_app_iff in Hy. destruct Hy as [Hy|[<-|[]]]; [apply S1; exact Hy|apply B; left; reflexivity].
    + apply IH; [exact S2|intros r Hr; apply B; right; exact Hr].
Qed.

Lemma merge_fuel_In f : forall L R x, (length L + length R <= f)%nat ->
  (In x (merge_fuel f L R) <-> In x L \/ In x R).
Proof.
  induction f as [|f IH]; intros L R x Hf.
  - destruct L; destruct R; cbn in Hf; try lia. cbn. tauto.
  - destruct L as [|a L]; [cbn; tauto|]. destruct R as [|b R]; [cbn; tauto|].
    cbn [merge_fuel]. cbn [length] in Hf.
    destruct (a <? b) eqn:E1; [|destruct (b <? a) eqn:E2].
    + cbn [In]. rewrite IH by (cbn [length]; lia). cbn [In]. tauto.
    + cbn [In]. rewrite IH by (cbn [length]; lia). cbn [In]. tauto.
    + apply Z.ltb_ge in E1, E2. assert (a = b) by lia. subst b.
      cbn [In]. rewrite IH by lia. tauto.
Qed.
Lemma merge_fuel_sincr f : forall L R, (length L + length R <= f)%nat -> sincr L -> sincr R -> sincr (merge_fuel f L R).
Proof.
  induction f as [|f IH]; intros L R Hf SL SR.
  - cbn. exact I.
  - destruct L as [|a L]; [exact SR|]. destruct R as [|b R]; [exact SL|].
    cbn [merge_fuel]. cbn [length] in Hf.
    pose proof SL as SL'. pose proof SR as SR'. apply sincr_cons in SL'. apply sincr_cons in SR'.
    destruct SL' as [A1 A2]. destruct SR' as [B1 B2].
    destruct (a <? b) eqn:E1; [|destruct (b <? a) eqn:E2].
    + apply Z.ltb_lt in E1. apply sincr_cons. split; [|apply IH; [cbn [length]; lia|exact A2|exact SR]].
      intros y Hy. apply merge_fuel_In in Hy; [|cbn [length]; lia].
      destruct Hy as [Hy|[<-|Hy]]; [apply A1; exact Hy|exact E1|specialize (B1 y Hy); lia].
    + apply Z.ltb_lt in E2. apply sincr_cons. split; [|apply IH; [cbn [length]; lia|exact SL|exact B2]].
      intros y Hy. apply merge_fuel_In in Hy; [|cbn [length]; lia].
      destruct Hy as [[<-|Hy]|Hy]; [exact E2|specialize (A1 y Hy); lia|apply B1; exact Hy].
    + apply Z.ltb_ge in E1, E2. assert (a = b) by lia. subst b.
      apply sincr_cons. split; [|apply IH; [lia|exact A2|exact B2]].
      intros y Hy. apply merge_fuel_In in Hy; [|lia]. destruct Hy as [Hy|Hy]; [apply A1|apply B1]; exact Hy.
Qed.
Lemma union_spec_In x L R : In x (union_spec L R) <-> In x L \/ In x R.
Proof. unfold union_spec. apply merge_fuel_In. lia. Qed.
Lemma union_spec_sincr L R : sincr L -> sincr R -> sincr (union_spec L R).
Proof. unfold union_spec. apply merge_fuel_sincr. lia. Qed.

(* ---- zrange, all_hcs ---- *)
Lemma In_zrange x n : In x (zrange n) <-> 0 <= x < n.
Proof.
  unfold zrange. rewrite in_map_iff. split.
  - intros [k [<- Hk]]. apply in_seq in Hk. lia.
  - intros H. exists (Z.to_nat x). split; [lia|apply in_seq; lia].
Qed.
Lemma zrange_length n : length (zrange n) = Z.to_nat n.
Proof. unfold zrange. rewrite map_length, seq_length. reflexivity. Qed.
Lemma NoDup_zrange n : NoDup (zrange n).
Proof.
  unfold zrange. apply FinFun.Injective_map_NoDup; [|apply seq_NoDup].
  intros a b H. lia.
Qed.
Lemma flat_map_single {A B : Type} (g : A -> B) l : flat_map (fun x => [g x]) l = map g l.
Proof. induction l as [|x l IH]; cbn; [reflexivity|rewrite IH; reflexivity]. Qed.
Lemma all_hcs_one c : all_hcs [c] = map (fun j => [j]) (zrange c).
Proof. cbn [all_hcs map]. apply flat_map_single. Qed.

(* ---- lists through nth ---- *)
Lemma map_nth_seq {A : Type} (l : list A) d : l = map (fun i => nth i l d) (seq 0 (length l)).
Proof.
  induction l as [|x l IH]; [reflexivity|].
  cbn [length seq map nth]. f_equal. rewrite <- seq_shift, map_map. exact IH.
Qed.
Lemma list_ext_seq {A : Type} (l : list A) d n (G : nat -> A) :
  length l = n -> (forall i, (i < n)%nat -> nth i l d = G i) -> l = map G (seq 0 n).
Proof.
  intros <- H. rewrite (map_nth_seq l d) at 1. apply map_ext_in. intros i Hi. apply in_seq in Hi. apply H. lia.
Qed.

(* ---- dense vs listed ---- *)
Lemma covers_listed idx r hc e : In e (entries idx) -> covers r hc e = true -> listed idx r hc (fst (fst e)).
Proof.
  intros Hin Hc. unfold covers in Hc. apply andb_true_iff in Hc. destruct Hc as [H1 H2].
  apply zl_eqb_eq in H1. apply memZ_In in H2. destruct e as [[v h] rows]. cbn [fst snd] in *. subst. exists rows. auto.
Qed.
Lemma listed_covers idx r hc v : listed idx r hc v -> exists e, In e (entries idx) /\ covers r hc e = true /\ fst (fst e) = v.
Proof.
  intros [rows [Hin Hr]]. exists ((v, hc), rows). split; [exact Hin|]. split; [|reflexivity].
  unfold covers. cbn [fst snd]. rewrite zl_eqb_refl. cbn [andb]. apply memZ_In. exact Hr.
Qed.
Lemma dense_listed idx r hc v :
  (forall v1 v2, listed idx r hc v1 -> listed idx r hc v2 -> v1 = v2) -> listed idx r hc v -> dense idx r hc = v.
Proof.
  intros X L. unfold dense. destruct (find (covers r hc) (entries idx)) as [e|] eqn:F.
  - apply find_some in F. destruct F as [Hin Hc]. apply X; [eapply covers_listed; eassumption|exact L].
  - exfalso. destruct (listed_covers _ _ _ _ L) as [e [Hin [Hc _]]].
    eapply find_none in F; [|exact Hin]. congruence.
Qed.
Lemma dense_unlisted idx r hc : (forall v, ~ listed idx r hc v) -> dense idx r hc = common idx.
Proof.
  intros H. unfold dense. destruct (find (covers r hc) (entries idx)) as [e|] eqn:F; [|reflexivity].
  apply find_some in F. destruct F as [Hin Hc]. exfalso. eapply H. eapply covers_listed; eassumption.
Qed.
