(* IIndex/OpsBFacts.v - general lemmas used by the OpsB proofs: dense/listed, dict building,
   re-keying, coordinates and shapes, sorting. *)
From Coq Require Import ZArith List Bool Lia Permutation.
From Catii Require Import Base.Sorted IIndex.Model IIndex.ModelFacts IIndex.Res IIndex.OpsA IIndex.OpsB.
Import ListNotations.
Open Scope Z_scope.

(* ------------------------------------------------------------------ listed / dense *)
Lemma covers_true r hc e : covers r hc e = true <-> snd (fst e) = hc /\ In r (snd e).
Proof. unfold covers. rewrite andb_true_iff, zl_eqb_eq, memZ_In. tauto. Qed.

Lemma covers_is_listed idx r hc e :
  In e (entries idx) -> covers r hc e = true -> listed idx r hc (fst (fst e)).
Proof.
  intros Hin Hc. apply covers_true in Hc. destruct Hc as [H1 H2].
  destruct e as [[v h] rows]. cbn [fst snd] in *. subst. exists rows. auto.
Qed.

Lemma dense_of_listed idx r hc v :
  (forall v', listed idx r hc v' -> v' = v) -> listed idx r hc v -> dense idx r hc = v.
Proof.
  intros Hex [rows [Hin Hr]]. unfold dense.
  destruct (find (covers r hc) (entries idx)) as [e|] eqn:F.
  - apply find_some in F. destruct F as [Hin' Hc]. apply Hex. eapply covers_is_listed; eassumption.
  - exfalso. eapply find_none in F; [|exact Hin].
    assert (covers r hc ((v, hc), rows) = true) by (apply covers_true; cbn [fst snd]; auto). congruence.
Qed.

Lemma dense_listed_wf idx r hc v : WF idx -> listed idx r hc v -> dense idx r hc = v.
Proof. intros W L. apply dense_of_listed; [|exact L]. intros v' L'. eapply (wf_excl idx W); eassumption. Qed.

Lemma dense_of_unlisted idx r hc : (forall v, ~ listed idx r hc v) -> dense idx r hc = common idx.
Proof.
  intros H. unfold dense. destruct (find (covers r hc) (entries idx)) as [e|] eqn:F; [|reflexivity].
  apply find_some in F. destruct F as [Hin Hc]. exfalso. eapply H. eapply covers_is_listed; eassumption.
Qed.

Lemma listed_or_not idx r hc : (exists v, listed idx r hc v) \/ (forall v, ~ listed idx r hc v).
Proof.
  destruct (find (covers r hc) (entries idx)) as [e|] eqn:F.
  - left. apply find_some in F. destruct F. eexists. eapply covers_is_listed; eassumption.
  - right. intros v [rows [Hin Hr]]. eapply find_none in F; [|exact Hin].
    assert (covers r hc ((v, hc), rows) = true) by (apply covers_true; cbn [fst snd]; auto). congruence.
Qed.

(* dense determines listed, for a well-formed index *)
Lemma listed_iff_dense idx r hc v : WF idx ->
  (listed idx r hc v <-> dense idx r hc = v /\ v <> common idx /\ exists w, listed idx r hc w).
Proof.
  intros W. split.
  - intros L. split; [apply dense_listed_wf; assumption|]. split; [|eauto].
    destruct L as [rows [Hin _]]. apply (wf_nocommon idx W) in Hin. exact Hin.
  - intros [D [N [w L]]]. rewrite (dense_listed_wf idx r hc w W L) in D. subst. exact L.
Qed.

Lemma dense_cases idx r hc : WF idx ->
  (listed idx r hc (dense idx r hc) /\ dense idx r hc <> common idx)
  \/ (dense idx r hc = common idx /\ forall v, ~ listed idx r hc v).
Proof.
  intros W. destruct (listed_or_not idx r hc) as [[v L]|N].
  - left. rewrite (dense_listed_wf idx r hc v W L). split; [exact L|].
    destruct L as [rows [Hin _]]. apply (wf_nocommon idx W) in Hin. exact Hin.
  - right. split; [apply dense_of_unlisted; exact N|exact N].
Qed.

Lemma listed_in_range idx r hc v : WF idx -> listed idx r hc v -> in_range idx r hc.
Proof.
  intros W [rows [Hin Hr]]. split.
  - eapply (wf_rows idx W); eassumption.
  - apply (wf_hc idx W) in Hin. exact Hin.
Qed.

(* ------------------------------------------------------------------ dict building *)
Lemma assoc_set_fresh k v es : ~ In k (keys es) -> assoc_set k v es = es ++ [(k, v)].
Proof.
  induction es as [|[k' v'] es IH]; intros H; cbn [assoc_set app]; [reflexivity|].
  destruct (key_eqb_spec k k') as [->|N].
  - exfalso. apply H. left. reflexivity.
  - f_equal. apply IH. intros H'. apply H. right. exact H'.
Qed.

Lemma dict_add_nodup items : forall acc, NoDup (keys (acc ++ items)) -> dict_add items acc = acc ++ items.
Proof.
  unfold dict_add. induction items as [|[k v] items IH]; intros acc H; cbn [fold_left fst snd].
  - rewrite app_nil_r. reflexivity.
  - assert (Hk : ~ In k (keys acc)).
    { unfold keys in *. rewrite map_app in H. apply NoDup_remove_2 in H. intros C. apply H. apply in_or_app. left. exact C. }
    rewrite (assoc_set_fresh k v acc Hk). rewrite IH; rewrite <- app_assoc; [reflexivity|exact H].
Qed.

Lemma dict_of_nodup items : NoDup (keys items) -> dict_of items = items.
Proof. intros H. unfold dict_of. rewrite dict_add_nodup; [reflexivity|exact H]. Qed.

(* ------------------------------------------------------------------ re-keying *)
Lemma In_rekey phi es k' rows :
  In (k', rows) (rekey phi es) <-> exists k, In (k, rows) es /\ phi k = Some k'.
Proof.
  unfold rekey. rewrite in_flat_map. split.
  - intros [[k rs] [Hin H]]. cbn [fst snd] in H. destruct (phi k) eqn:E; [|contradiction].
    destruct H as [H|[]]. inversion H; subst. exists k. auto.
  - intros [k [Hin E]]. exists (k, rows). split; [exact Hin|]. cbn [fst snd]. rewrite E. left. reflexivity.
Qed.

Lemma In_keys_rekey phi es k' :
  In k' (keys (rekey phi es)) <-> exists k, In k (keys es) /\ phi k = Some k'.
Proof.
  unfold keys. rewrite in_map_iff. split.
  - intros [[k2 rows] [E Hin]]. cbn [fst] in E. subst. apply In_rekey in Hin. destruct Hin as [k [Hin E]].
    exists k. split; [|exact E]. apply in_map_iff. exists (k, rows). auto.
  - intros [k [Hin E]]. apply in_map_iff in Hin. destruct Hin as [[k2 rows] [E2 Hin]]. cbn [fst] in E2. subst.
    exists (k', rows). split; [reflexivity|]. apply In_rekey. exists k. auto.
Qed.

Lemma nodup_rekey phi es :
  NoDup (keys es) ->
  (forall k1 k2 k', In k1 (keys es) -> In k2 (keys es) -> phi k1 = Some k' -> phi k2 = Some k' -> k1 = k2) ->
  NoDup (keys (rekey phi es)).
Proof.
  induction es as [|[k rows] es IH]; intros ND Inj; [constructor|].
  cbn [keys map fst] in ND. inversion ND as [|? ? Hk ND']; subst.
  assert (IH' : NoDup (keys (rekey phi es))).
  { apply IH; [exact ND'|]. intros k1 k2 k' H1 H2. apply Inj; right; assumption. }
  unfold rekey. cbn [flat_map fst snd]. fold (rekey phi es).
  destruct (phi k) as [k'|] eqn:E; [|exact IH'].
  cbn [app keys map fst]. constructor; [|exact IH'].
  intros C. apply In_keys_rekey in C. destruct C as [k2 [Hin E2]].
  assert (k = k2) by (eapply Inj; [left; reflexivity|right; exact Hin|exact E|exact E2]).
  subst. apply Hk. exact Hin.
Qed.

(* ------------------------------------------------------------------ coordinates and shapes *)
Lemma in_hshape_length hc hs : in_hshape hc hs -> length hc = length hs.
Proof. intros H. induction H; cbn [length]; congruence. Qed.

Lemma in_zrange x n : In x (zrange n) <-> 0 <= x < n.
Proof.
  unfold zrange. rewrite in_map_iff. split.
  - intros [k [<- H]]. apply in_seq in H. lia.
  - intros H. exists (Z.to_nat x). split; [lia|apply in_seq; lia].
Qed.

Lemma nodup_zrange n : NoDup (zrange n).
Proof.
  unfold zrange. apply FinFun.Injective_map_NoDup; [|apply seq_NoDup].
  intros a b H. lia.
Qed.

Lemma in_all_hcs hs hc : In hc (all_hcs hs) <-> in_hshape hc hs.
Proof.
  revert hc. induction hs as [|e hs IH]; intros hc; cbn [all_hcs].
  - split; [intros [<-|[]]; constructor|intros H; inversion H; left; reflexivity].
  - rewrite in_flat_map. split.
    + intros [c [Hc H]]. apply in_map_iff in H. destruct H as [t [<- Ht]]. apply in_zrange in Hc.
      constructor; [exact Hc|apply IH; exact Ht].
    + intros H. inversion H as [|c e' t hs' Hc Ht]; subst. exists c. split; [apply in_zrange; exact Hc|].
      apply in_map_iff. exists t. split; [reflexivity|apply IH; exact Ht].
Qed.

(* ------------------------------------------------------------------ strictly increasing lists *)
Lemma sincr_cons_lt x l : sincr (x :: l) -> forall y, In y l -> x < y.
Proof.
  revert x. induction l as [|z l IH]; intros x H y Hy; [contradiction|].
  cbn [sincr] in H. destruct H as [Hxz Hs]. destruct Hy as [<-|Hy]; [exact Hxz|].
  assert (z < y) by (apply IH; assumption). lia.
Qed.

Lemma sincr_tail x l : sincr (x :: l) -> sincr l.
Proof. cbn [sincr]. tauto. Qed.

Lemma sincr_ext l l' : sincr l -> sincr l' -> (forall x, In x l <-> In x l') -> l = l'.
Proof.
  revert l'. induction l as [|x l IH]; intros l' S S' E.
  - destruct l' as [|y l']; [reflexivity|]. exfalso. apply (E y). left. reflexivity.
  - destruct l' as [|y l']. { exfalso. apply (E x). left. reflexivity. }
    pose proof (sincr_cons_lt x l S) as Lx. pose proof (sincr_cons_lt y l' S') as Ly.
    assert (x = y).
    { assert (Hx : In x (y :: l')) by (apply E; left; reflexivity).
      assert (Hy : In y (x :: l)) by (apply E; left; reflexivity).
      destruct Hx as [Hx|Hx]; [congruence|]. destruct Hy as [Hy|Hy]; [congruence|].
      apply Ly in Hx. apply Lx in Hy. lia. }
    subst y. f_equal. apply IH; [eapply sincr_tail; eassumption|eapply sincr_tail; eassumption|].
    intros z. split; intros Hz.
    + assert (In z (x :: l')) by (apply E; right; exact Hz). destruct H as [<-|H]; [|exact H].
      apply Lx in Hz. lia.
    + assert (In z (x :: l)) by (apply E; right; exact Hz). destruct H as [<-|H]; [|exact H].
      apply Ly in Hz. lia.
Qed.

Lemma sincr_nodup l : sincr l -> NoDup l.
Proof.
  induction l as [|x l IH]; intros S; constructor.
  - intros C. apply (sincr_cons_lt x l S) in C. lia.
  - apply IH. eapply sincr_tail; eassumption.
Qed.

(* ------------------------------------------------------------------ sorting *)
Fixpoint sorted_le (l : list Z) : Prop :=
  match l with
  | [] => True
  | x :: l' => match l' with [] => True | y :: _ => x <= y end /\ sorted_le l'
  end.

Lemma in_insert_sorted x y l : In y (insert_sorted x l) <-> y = x \/ In y l.
Proof.
  induction l as [|z l IH]; cbn [insert_sorted].
  - cbn. intuition.
  - destruct (x <=? z); cbn [In]; [intuition|]. rewrite IH. intuition.
Qed.

Lemma insert_sorted_le x l : sorted_le l -> sorted_le (insert_sorted x l).
Proof.
  induction l as [|z l IH]; intros S; cbn [insert_sorted].
  - cbn. auto.
  - destruct (x <=? z) eqn:E.
    + cbn [sorted_le]. split; [apply Z.leb_le; exact E|exact S].
    + apply Z.leb_gt in E. cbn [sorted_le] in S. destruct S as [S1 S2]. specialize (IH S2).
      destruct l as [|w l]; cbn [insert_sorted] in *.
      * cbn. lia.
      * destruct (x <=? w) eqn:E2; cbn [sorted_le] in *; [apply Z.leb_le in E2|]; intuition lia.
Qed.

Lemma in_isort y l : In y (isort l) <-> In y l.
Proof. induction l as [|x l IH]; cbn [isort]; [tauto|]. rewrite in_insert_sorted, IH. cbn. intuition. Qed.

Lemma isort_sorted l : sorted_le (isort l).
Proof. induction l as [|x l IH]; cbn [isort]; [exact I|]. apply insert_sorted_le. exact IH. Qed.

Lemma in_dedup_adj y l : In y (dedup_adj l) <-> In y l.
Proof.
  induction l as [|x l IH]; [tauto|]. cbn [dedup_adj]. destruct l as [|z l].
  - tauto.
  - destruct (Z.eqb_spec x z) as [->|N].
    + rewrite IH. cbn. intuition.
    + cbn [In] in *. rewrite IH. tauto.
Qed.

Lemma dedup_adj_head x l : sorted_le (x :: l) -> forall y, In y (dedup_adj (x :: l)) -> x <= y.
Proof.
  intros S y Hy. rewrite in_dedup_adj in Hy. revert x S y Hy.
  induction l as [|z l IH]; intros x S y Hy.
  - destruct Hy as [<-|[]]. lia.
  - destruct Hy as [<-|Hy]; [lia|]. cbn [sorted_le] in S. destruct S as [S1 S2].
    specialize (IH z S2 y Hy). lia.
Qed.

Lemma dedup_adj_sincr l : sorted_le l -> sincr (dedup_adj l).
Proof.
  induction l as [|x l IH]; intros S; [exact I|].
  cbn [dedup_adj]. destruct l as [|z l]; [cbn; auto|].
  pose proof S as S0. cbn [sorted_le] in S. destruct S as [S1 S2]. specialize (IH S2).
  destruct (Z.eqb_spec x z) as [->|N]; [exact IH|].
  remember (dedup_adj (z :: l)) as d eqn:Ed. destruct d as [|w d]; [cbn; auto|].
  cbn [sincr]. split; [|exact IH].
  assert (z <= w) by (apply (dedup_adj_head z l S2); rewrite <- Ed; left; reflexivity).
  assert (In w (z :: l)) by (apply (proj1 (in_dedup_adj w (z :: l))); rewrite <- Ed; left; reflexivity).
  (* w = z or w later; either way x < w *)
  lia.
Qed.

Lemma in_sort_uniq y l : In y (sort_uniq l) <-> In y l.
Proof. unfold sort_uniq. rewrite in_dedup_adj, in_isort. tauto. Qed.
Lemma sort_uniq_sincr l : sincr (sort_uniq l).
Proof. unfold sort_uniq. apply dedup_adj_sincr. apply isort_sorted. Qed.
