(* IIndex/ArgsOkB.v - boolean twins of the argument conditions (`args_ok`) of the operation theorems,
   with soundness lemmas.  Used for the non-vacuity Examples of Properties/C06.v, C07.v, C15.v
   (a concrete argument satisfies the hypothesis: evaluate the boolean) and available to a checker
   that wants to assert that the generated arguments lie inside the theorems' quantifier. *)
From Coq Require Import ZArith List Bool Lia.
From Catii Require Import Base.Sorted IIndex.Model IIndex.ModelFacts IIndex.Res IIndex.OpsA IIndex.OpsB
  IIndex.OpsBFacts IIndex.OpsAProofs_Update IIndex.OpsBProofs_sliced IIndex.OpsBProofs_stack.
Import ListNotations.
Open Scope Z_scope.

Lemma range_b_spec n rows :
  forallb (fun r => (0 <=? r) && (r <? n)) rows = true <-> (forall r, In r rows -> 0 <= r < n).
Proof.
  rewrite forallb_forall. split; intros H r Hr; specialize (H r Hr).
  - apply andb_true_iff in H. rewrite Z.leb_le, Z.ltb_lt in H. exact H.
  - apply andb_true_iff. rewrite Z.leb_le, Z.ltb_lt. exact H.
Qed.

(* ---- update ---- *)
Definition upd_entry_ok_b (idx : iindex) (e : entry) : bool :=
  in_hshape_b (snd (fst e)) (hshape idx) && sincr_b (snd e)
  && forallb (fun r => (0 <=? r) && (r <? nrows idx)) (snd e).
Definition upd_ok_b (idx : iindex) (upd : list entry) : bool :=
  nodup_keys_b (keys upd) && forallb (upd_entry_ok_b idx) upd && excl_b upd.

Lemma upd_ok_b_sound idx upd : upd_ok_b idx upd = true -> upd_ok idx upd.
Proof.
  unfold upd_ok_b. rewrite !andb_true_iff, nodup_keys_b_spec, forallb_forall, excl_b_spec.
  intros [[ND HE] HX]. split; [exact ND|]. split.
  - intros k rows Hin. specialize (HE _ Hin). unfold upd_entry_ok_b in HE. cbn [fst snd] in HE.
    rewrite !andb_true_iff, in_hshape_b_spec, sincr_b_spec, range_b_spec in HE. tauto.
  - intros r hc [k rows] [k' rows'] Hin Hin' C C'. apply covers_true in C, C'. cbn [fst snd] in *.
    destruct C as [E1 R1], C' as [E2 R2]. apply (HX k rows k' rows' r); try assumption. congruence.
Qed.

(* ---- union_update ---- *)
Definition other_ok_b (idx : iindex) (other : list entry) : bool :=
  nodup_keys_b (keys other) && forallb (entry_ok_b idx) other && excl_b (entries idx ++ other).

Lemma other_ok_b_sound idx other : other_ok_b idx other = true -> other_ok idx other.
Proof.
  unfold other_ok_b. rewrite !andb_true_iff, nodup_keys_b_spec, forallb_forall, excl_b_spec.
  intros [[ND HE] HX]. split; [exact ND|]. split.
  - intros k rows Hin. specialize (HE _ Hin). apply entry_ok_b_spec in HE. tauto.
  - assert (A : forall r hc v, listed idx r hc v \/ listed_in other r hc v ->
                exists rows, In ((v, hc), rows) (entries idx ++ other) /\ In r rows).
    { intros r hc v [[rows [H1 H2]]|[rows [H1 H2]]]; exists rows; (split; [apply in_or_app; auto|exact H2]). }
    intros r hc v v' L L'. apply A in L, L'. destruct L as [rows [H1 H2]], L' as [rows' [H1' H2']].
    apply (HX _ _ _ _ r H1 H1'); auto.
Qed.

(* ---- sliced ---- *)
Fixpoint nodupZ_b (l : list Z) : bool :=
  match l with [] => true | x :: l' => negb (memZ x l') && nodupZ_b l' end.
Lemma nodupZ_b_spec l : nodupZ_b l = true <-> NoDup l.
Proof.
  induction l as [|x l IH]; cbn [nodupZ_b]; [split; [constructor|reflexivity]|].
  rewrite andb_true_iff, negb_true_iff, memZ_false, IH. split.
  - intros [H1 H2]. constructor; assumption.
  - intros H. inversion H; subst. auto.
Qed.
Definition order_ok_b (o : order) (e : Z) : bool :=
  match o with
  | OAll => true
  | OInt i => (0 <=? i) && (i <? e)
  | OList l => nodupZ_b l && forallb (fun c => (0 <=? c) && (c <? e)) l
  end.
Fixpoint orders_ok_b (orders : list order) (hs : list Z) : bool :=
  match orders, hs with
  | [], [] => true
  | o :: os, e :: hs' => order_ok_b o e && orders_ok_b os hs'
  | _, _ => false
  end.
Lemma orders_ok_b_sound orders : forall hs, orders_ok_b orders hs = true -> orders_ok orders hs.
Proof.
  induction orders as [|o os IH]; intros [|e hs] H; cbn [orders_ok_b] in H; try discriminate; [constructor|].
  apply andb_true_iff in H. destruct H as [Ho Hr]. constructor; [|apply IH; exact Hr].
  destruct o as [|i|l]; cbn [order_ok order_ok_b] in *.
  - exact I.
  - apply andb_true_iff in Ho. rewrite Z.leb_le, Z.ltb_lt in Ho. exact Ho.
  - apply andb_true_iff in Ho. destruct Ho as [H1 H2]. split; [apply nodupZ_b_spec; exact H1|].
    apply Forall_forall. apply range_b_spec. exact H2.
Qed.

(* ---- column_stack ---- *)
Definition cs_args_ok_b (idxs : list iindex) : bool :=
  match idxs with
  | [] => false
  | i0 :: _ => forallb (fun ii => wf_b ii && (nrows ii =? nrows i0) && (length (hshape ii) <=? 1)%nat) idxs
  end.
Lemma cs_args_ok_b_sound idxs : cs_args_ok_b idxs = true -> cs_args_ok idxs.
Proof.
  unfold cs_args_ok_b, cs_args_ok. destruct idxs as [|i0 rest]; [discriminate|].
  rewrite forallb_forall. intros H. apply Forall_forall. intros ii Hin. specialize (H ii Hin).
  rewrite !andb_true_iff, Z.eqb_eq, Nat.leb_le in H. destruct H as [[H1 H2] H3].
  split; [apply wf_b_spec; exact H1|]. split; assumption.
Qed.

(* ---- set_if ---- *)
Definition set_if_ok (idx : iindex) (k : key) (v : list Z) : Prop :=
  (v <> [] -> in_hshape (snd k) (hshape idx) /\ fst k <> common idx) /\
  sincr v /\ (forall r, In r v -> 0 <= r < nrows idx) /\
  (forall r u, In r v -> listed idx r (snd k) u -> u = fst k).
Definition set_if_ok_b (idx : iindex) (k : key) (v : list Z) : bool :=
  (is_nil v || (in_hshape_b (snd k) (hshape idx) && negb (fst k =? common idx)))
  && sincr_b v && forallb (fun r => (0 <=? r) && (r <? nrows idx)) v
  && forallb (fun e : entry => negb (zl_eqb (snd (fst e)) (snd k)) || (fst (fst e) =? fst k) || disjoint_b v (snd e))
             (entries idx).
Lemma set_if_ok_b_sound idx k v : set_if_ok_b idx k v = true -> set_if_ok idx k v.
Proof.
  unfold set_if_ok_b, set_if_ok. rewrite !andb_true_iff, sincr_b_spec, range_b_spec, forallb_forall.
  intros [[[H1 H2] H3] H4]. split; [|split; [exact H2|split; [exact H3|]]].
  - intros NE. apply orb_true_iff in H1. destruct H1 as [H1|H1]; [destruct v; [congruence|discriminate]|].
    apply andb_true_iff in H1. destruct H1 as [H0 H1]. apply negb_true_iff, Z.eqb_neq in H1.
    apply in_hshape_b_spec in H0. auto.
  - intros r u Hr [rows [Hin Hrr]]. specialize (H4 _ Hin). cbn [fst snd] in H4.
    rewrite !orb_true_iff, negb_true_iff, Z.eqb_eq, disjoint_b_spec in H4.
    destruct H4 as [[H4|H4]|H4]; [rewrite zl_eqb_refl in H4; discriminate|exact H4|].
    exfalso. exact (H4 r Hr Hrr).
Qed.
