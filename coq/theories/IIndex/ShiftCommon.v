(* IIndex/ShiftCommon.v — shift_common (explicit value and automatic choice) preserves
   well-formedness (C07) and the dense array (C06: "changing the common value changes nothing"). *)
From Coq Require Import ZArith List Bool Lia.
From Catii Require Import Base.Sorted IIndex.Model IIndex.ModelFacts IIndex.OpsA.
Import ListNotations.
Open Scope Z_scope.

Definition is_nilZ (l : list Z) : bool := match l with [] => true | _ => false end.
Lemma is_nilZ_spec l : is_nilZ l = true <-> l = [].
Proof. destruct l; cbn; split; congruence. Qed.

Lemma existsb_zl_In hc hcs : existsb (zl_eqb hc) hcs = true <-> In hc hcs.
Proof.
  rewrite existsb_exists. split.
  - intros [x [H E]]. apply zl_eqb_eq in E. congruence.
  - intros H. exists hc. split; [assumption|apply zl_eqb_refl].
Qed.

Lemma set_common_rows_rows_at idx es hc k :
  rows_at k (set_common_rows idx es hc) =
  if key_eqb k (common idx, hc) && negb (is_nilZ (common_rowids idx hc)) then common_rowids idx hc else rows_at k es.
Proof.
  unfold set_common_rows. destruct (common_rowids idx hc) as [|x l] eqn:E.
  - cbn [is_nilZ negb]. rewrite andb_false_r. reflexivity.
  - rewrite rows_at_set. cbn [is_nilZ negb]. rewrite andb_true_r. reflexivity.
Qed.

Lemma mat_rows_at idx hcs es k :
  rows_at k (fold_left (set_common_rows idx) hcs es) =
  if (fst k =? common idx) && existsb (zl_eqb (snd k)) hcs && negb (is_nilZ (common_rowids idx (snd k)))
  then common_rowids idx (snd k) else rows_at k es.
Proof.
  revert es. induction hcs as [|hc hcs IH]; intros es; cbn [fold_left existsb].
  - rewrite andb_false_r. reflexivity.
  - rewrite IH, set_common_rows_rows_at. destruct k as [u h]. unfold key_eqb. cbn [fst snd].
    destruct (u =? common idx); cbn [andb]; [|reflexivity].
    destruct (zl_eqb h hc) eqn:E; cbn [orb andb].
    + apply zl_eqb_eq in E. subst hc. destruct (negb (is_nilZ (common_rowids idx h))); [|rewrite andb_false_r]; [|reflexivity].
      destruct (existsb (zl_eqb h) hcs); reflexivity.
    + reflexivity.
Qed.
Lemma mat_nodup idx hcs es : NoDup (keys es) -> NoDup (keys (fold_left (set_common_rows idx) hcs es)).
Proof.
  revert es. induction hcs as [|hc hcs IH]; intros es ND; cbn [fold_left]; [assumption|]. apply IH.
  unfold set_common_rows. destruct (common_rowids idx hc); [assumption|apply nodup_assoc_set; assumption].
Qed.
Lemma mat_nonempty idx hcs es : nonempty_es es -> nonempty_es (fold_left (set_common_rows idx) hcs es).
Proof.
  revert es. induction hcs as [|hc hcs IH]; intros es NE; cbn [fold_left]; [assumption|]. apply IH.
  unfold set_common_rows. destruct (common_rowids idx hc) eqn:E; [assumption|apply nonempty_assoc_set; [discriminate|assumption]].
Qed.

Lemma drop_value_rows_at v es k : rows_at k (drop_value v es) = if fst k =? v then [] else rows_at k es.
Proof.
  unfold drop_value. rewrite (rows_at_filter (fun k => negb (fst k =? v))). destruct (fst k =? v); reflexivity.
Qed.

(* the characterising lemma *)
Lemma shift_rows_at idx v u hc : WF idx -> v <> common idx ->
  rows_at (u, hc) (entries (shift_common idx v)) =
  if u =? v then []
  else if (u =? common idx) && in_hshape_b hc (hshape idx) then common_rowids idx hc
  else rows_at (u, hc) (entries idx).
Proof.
  intros W Hv. apply WF_WFr in W. unfold shift_common. destruct (Z.eqb_spec v (common idx)); [contradiction|].
  cbn [entries]. rewrite drop_value_rows_at. cbn [fst]. destruct (u =? v); [reflexivity|].
  unfold materialise_common. rewrite mat_rows_at. cbn [fst snd].
  destruct (Z.eqb_spec u (common idx)) as [->|Hu]; cbn [andb]; [|reflexivity].
  assert (R0: rows_at (common idx, hc) (entries idx) = []).
  { destruct (rows_at (common idx, hc) (entries idx)) eqn:E; [reflexivity|].
    exfalso. destruct (wr_key idx W (common idx, hc)) as [_ H]; [congruence|]. apply H. reflexivity. }
  destruct (in_hshape_b hc (hshape idx)) eqn:Eh.
  - assert (existsb (zl_eqb hc) (all_hcs (hshape idx)) = true) as ->.
    { apply existsb_zl_In, in_all_hcs, in_hshape_b_spec. assumption. }
    cbn [andb]. destruct (common_rowids idx hc) eqn:Ec; cbn [is_nilZ negb]; [assumption|reflexivity].
  - assert (existsb (zl_eqb hc) (all_hcs (hshape idx)) = false) as ->.
    { destruct (existsb (zl_eqb hc) (all_hcs (hshape idx))) eqn:E; [|reflexivity].
      apply existsb_zl_In, in_all_hcs, in_hshape_b_spec in E. congruence. }
    reflexivity.
Qed.

Lemma shift_common_fields idx v : v <> common idx ->
  common (shift_common idx v) = v /\ nrows (shift_common idx v) = nrows idx /\ hshape (shift_common idx v) = hshape idx.
Proof. intros Hv. unfold shift_common. destruct (Z.eqb_spec v (common idx)); [contradiction|]. auto. Qed.

Theorem shift_common_shape idx v :
  nrows (shift_common idx v) = nrows idx /\ hshape (shift_common idx v) = hshape idx.
Proof. unfold shift_common. destruct (v =? common idx); auto. Qed.

Theorem shift_common_common idx v : common (shift_common idx v) = v.
Proof. unfold shift_common. destruct (Z.eqb_spec v (common idx)); [congruence|reflexivity]. Qed.

Lemma listed_shift idx v r hc u : WF idx -> v <> common idx ->
  (listed (shift_common idx v) r hc u <->
   u <> v /\ (listed idx r hc u \/ (u = common idx /\ in_range idx r hc /\ forall w, ~ listed idx r hc w))).
Proof.
  intros W Hv.
  assert (ND': NoDup (keys (entries (shift_common idx v)))).
  { unfold shift_common. destruct (v =? common idx); [apply W|]. cbn [entries]. apply nodup_filter, mat_nodup, W. }
  rewrite (listed_rows_at _ r hc u ND'), (shift_rows_at idx v u hc W Hv).
  rewrite (listed_rows_at idx r hc u (wf_keys idx W)).
  destruct (Z.eqb_spec u v) as [->|Huv].
  - cbn [In]. tauto.
  - destruct (Z.eqb_spec u (common idx)) as [->|Hu]; cbn [andb].
    + assert (R0: ~ In r (rows_at (common idx, hc) (entries idx))).
      { intros H. apply (listed_rows_at idx r hc _ (wf_keys idx W)) in H.
        apply (wf_listed_not_common idx r hc _ W H). reflexivity. }
      destruct (in_hshape_b hc (hshape idx)) eqn:Eh.
      * apply in_hshape_b_spec in Eh. rewrite in_common_rowids. unfold in_range. tauto.
      * split; [tauto|]. intros [_ [H|[_ [[_ H] _]]]]; [contradiction|].
        apply in_hshape_b_spec in H. congruence.
    + tauto.
Qed.

Theorem shift_common_wf idx v : WF idx -> WF (shift_common idx v).
Proof.
  intros W. destruct (Z.eq_dec v (common idx)) as [E|Hv].
  { unfold shift_common. rewrite E, Z.eqb_refl. assumption. }
  destruct (shift_common_fields idx v Hv) as [C [N S]].
  pose proof (proj1 (WF_WFr idx) W) as Wr.
  assert (R: forall u hc, rows_at (u, hc) (entries (shift_common idx v)) = _) by (intros; apply shift_rows_at; assumption).
  apply WF_WFr. constructor.
  - rewrite N. apply W.
  - rewrite S. apply W.
  - unfold shift_common. destruct (v =? common idx); [apply W|]. cbn [entries]. apply nodup_filter, mat_nodup, W.
  - unfold shift_common. destruct (v =? common idx); [apply Wr|]. cbn [entries].
    apply nonempty_filter, mat_nonempty, Wr.
  - intros [u hc]. rewrite R, C, S. cbn [fst snd]. destruct (Z.eqb_spec u v) as [->|Huv]; [congruence|].
    destruct (Z.eqb_spec u (common idx)) as [->|Hu]; cbn [andb].
    + destruct (in_hshape_b hc (hshape idx)) eqn:Eh.
      * intros _. apply in_hshape_b_spec in Eh. auto.
      * intros H. destruct (wr_key idx Wr (common idx, hc) H) as [_ H']. exfalso. apply H'. reflexivity.
    + intros H. destruct (wr_key idx Wr (u, hc) H). auto.
  - intros [u hc]. rewrite R. destruct (u =? v); [exact I|].
    destruct ((u =? common idx) && in_hshape_b hc (hshape idx)); [apply common_rowids_sincr | apply (wr_sorted idx Wr)].
  - intros [u hc] r. rewrite R, N. destruct (u =? v); [intros []|].
    destruct ((u =? common idx) && in_hshape_b hc (hshape idx)).
    + intros H. apply in_common_rowids in H. tauto.
    + apply (wr_rows idx Wr).
  - intros hc a b r Ha Hb.
    assert (ND': NoDup (keys (entries (shift_common idx v)))).
    { unfold shift_common. destruct (v =? common idx); [apply W|]. cbn [entries]. apply nodup_filter, mat_nodup, W. }
    apply (listed_rows_at _ r hc _ ND') in Ha, Hb. apply listed_shift in Ha, Hb; try assumption.
    destruct Ha as [_ [Ha|[-> [_ Na]]]], Hb as [_ [Hb|[-> [_ Nb]]]]; try reflexivity.
    + eapply (wf_excl idx W); eassumption.
    + exfalso. eapply Nb. eassumption.
    + exfalso. eapply Na. eassumption.
Qed.

Theorem shift_common_dense idx v r hc : WF idx -> in_range idx r hc ->
  dense (shift_common idx v) r hc = dense idx r hc.
Proof.
  intros W Hr. destruct (Z.eq_dec v (common idx)) as [E|Hv].
  { unfold shift_common. rewrite E, Z.eqb_refl. reflexivity. }
  pose proof (shift_common_wf idx v W) as W'.
  pose proof (shift_common_common idx v) as C.
  destruct (dense_cases idx r hc) as [L|[Hn E]].
  - set (u := dense idx r hc) in *. destruct (Z.eq_dec u v) as [->|Huv].
    + rewrite dense_unlisted; [assumption|]. intros w Hw. apply listed_shift in Hw; try assumption.
      destruct Hw as [Hwv [Hw|[_ [_ Hn]]]].
      * apply Hwv. eapply (wf_excl idx W); eassumption.
      * eapply Hn. eassumption.
    + apply dense_listed; [assumption|]. apply listed_shift; try assumption. auto.
  - rewrite E. apply dense_listed; [assumption|]. apply listed_shift; try assumption.
    split; [congruence|]. right. auto.
Qed.

(* ---- the automatic choice: whatever value is chosen, nothing changes (tie-breaks are free) ---- *)
Theorem shift_common_auto_wf idx : WF idx -> WF (shift_common_auto idx).
Proof. apply shift_common_wf. Qed.
Theorem shift_common_auto_shape idx :
  nrows (shift_common_auto idx) = nrows idx /\ hshape (shift_common_auto idx) = hshape idx.
Proof. apply shift_common_shape. Qed.
Theorem shift_common_auto_dense idx r hc : WF idx -> in_range idx r hc ->
  dense (shift_common_auto idx) r hc = dense idx r hc.
Proof. apply shift_common_dense. Qed.
Theorem shift_common_auto_common idx : common (shift_common_auto idx) = auto_common idx.
Proof. apply shift_common_common. Qed.
