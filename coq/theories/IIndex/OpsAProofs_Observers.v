(* IIndex/OpsAProofs_Observers.v — the read-only operations of OpsA.v:
   copy (iindexes.py:644), get(key, default, force=True) (510), items(force=True) (535),
   to_dict(force=True) (436).  Each is characterised against the dense array the index stands for
   (Model.dense): get/items/to_dict with force=True are the full inverted index of that array. *)
From Coq Require Import ZArith List Bool Lia.
From Catii Require Import Base.Sorted IIndex.Model IIndex.ModelFacts IIndex.OpsA.
Import ListNotations.
Open Scope Z_scope.

(* ====================================================================================== *)
(* copy: nothing changes                                                                   *)
(* ====================================================================================== *)
Theorem copy_wf idx : WF idx -> WF (copy idx).
Proof. intros W. exact W. Qed.
Theorem copy_dense idx r hc : dense (copy idx) r hc = dense idx r hc.
Proof. reflexivity. Qed.
Theorem copy_same idx :
  nrows (copy idx) = nrows idx /\ hshape (copy idx) = hshape idx /\ common (copy idx) = common idx.
Proof. repeat split. Qed.

(* ====================================================================================== *)
(* get(key, force=True)                                                                    *)
(* ====================================================================================== *)
Definition opt_rows (o : option (list Z)) : list Z := match o with Some l => l | None => [] end.

Lemma opt_rows_assoc_get k es : opt_rows (assoc_get k es) = rows_at k es.
Proof. reflexivity. Qed.

(* the two branches of get_force, through opt_rows *)
Lemma get_force_common idx k : fst k = common idx ->
  opt_rows (get_force idx k) = common_rowids idx (snd k).
Proof.
  intros E. unfold get_force. rewrite E, Z.eqb_refl.
  destruct (common_rowids idx (snd k)); reflexivity.
Qed.
Lemma get_force_other idx k : fst k <> common idx ->
  get_force idx k = assoc_get k (entries idx).
Proof.
  intros N. unfold get_force. apply Z.eqb_neq in N. rewrite N. reflexivity.
Qed.

(* exactly the rows of that column holding the value *)
Theorem get_force_spec idx v hc r : WF idx -> in_hshape hc (hshape idx) ->
  (In r (opt_rows (get_force idx (v, hc))) <-> 0 <= r < nrows idx /\ dense idx r hc = v).
Proof.
  intros W _. destruct (Z.eq_dec v (common idx)) as [E|N].
  - rewrite get_force_common by exact E. cbn [fst snd]. subst v. apply common_rowids_dense. exact W.
  - rewrite get_force_other by exact N. rewrite opt_rows_assoc_get.
    rewrite <- (listed_rows_at idx r hc v (wf_keys idx W)).
    rewrite (wf_dense_iff idx r hc v W N). split.
    + intros L. split; [|exact L]. apply (wf_listed_in_range idx r hc v W L).
    + intros [_ L]. exact L.
Qed.

(* strictly increasing *)
Theorem get_force_sorted idx k : WF idx -> sincr (opt_rows (get_force idx k)).
Proof.
  intros W. destruct (Z.eq_dec (fst k) (common idx)) as [E|N].
  - rewrite get_force_common by exact E. apply common_rowids_sincr.
  - rewrite get_force_other by exact N. rewrite opt_rows_assoc_get.
    apply WF_WFr in W. apply (wr_sorted idx W).
Qed.

(* never an empty array: `default` instead *)
Theorem get_force_none idx k : WF idx -> get_force idx k <> Some [].
Proof.
  intros W. unfold get_force. destruct (Z.eqb (fst k) (common idx)).
  - destruct (common_rowids idx (snd k)); discriminate.
  - intros H. apply assoc_get_In in H. apply (wf_nonempty idx W) in H. apply H. reflexivity.
Qed.

Lemma in_filter_dense idx v hc r :
  In r (filter (fun r => dense idx r hc =? v) (zrange (nrows idx))) <-> 0 <= r < nrows idx /\ dense idx r hc = v.
Proof. rewrite filter_In, in_zrange, Z.eqb_eq. tauto. Qed.

(* i.e. get(key, force=True) is numpy.nonzero(dense[:, hc] == v)[0], or `default` when that is empty *)
Theorem get_force_filter idx v hc : WF idx -> in_hshape hc (hshape idx) ->
  opt_rows (get_force idx (v, hc)) = filter (fun r => dense idx r hc =? v) (zrange (nrows idx)).
Proof.
  intros W H. apply sincr_ext.
  - apply get_force_sorted. exact W.
  - apply sincr_filter, sincr_zrange.
  - intros r. rewrite (get_force_spec idx v hc r W H), in_filter_dense. tauto.
Qed.

(* ====================================================================================== *)
(* items(force=True)                                                                       *)
(* ====================================================================================== *)
Definition common_items (idx : iindex) : list entry :=
  map (fun hc => ((common idx, hc), common_rowids idx hc)) (all_hcs (hshape idx)).

Lemma items_force_app idx : items_force idx = entries idx ++ common_items idx.
Proof. reflexivity. Qed.

Lemma in_common_items idx k rows :
  In (k, rows) (common_items idx) <->
  fst k = common idx /\ in_hshape (snd k) (hshape idx) /\ rows = common_rowids idx (snd k).
Proof.
  unfold common_items. rewrite in_map_iff. split.
  - intros [hc [E H]]. inversion E; subst. cbn [fst snd]. apply in_all_hcs in H. auto.
  - intros [E1 [H E2]]. destruct k as [v hc]. cbn [fst snd] in *. subst. exists hc.
    split; [reflexivity | apply in_all_hcs; exact H].
Qed.

Lemma keys_common_items idx : keys (common_items idx) = map (fun hc => (common idx, hc)) (all_hcs (hshape idx)).
Proof. unfold keys, common_items. rewrite map_map. reflexivity. Qed.

Theorem items_force_spec idx v hc r : WF idx ->
  ((exists rows, In ((v, hc), rows) (items_force idx) /\ In r rows) <-> in_range idx r hc /\ dense idx r hc = v).
Proof.
  intros W. rewrite items_force_app. split.
  - intros [rows [Hin Hr]]. apply in_app_iff in Hin. destruct Hin as [Hin|Hin].
    + assert (L: listed idx r hc v) by (exists rows; auto). split.
      * apply (wf_listed_in_range idx r hc v W L).
      * apply (dense_listed idx r hc v W L).
    + apply in_common_items in Hin. cbn [fst snd] in Hin. destruct Hin as [-> [Hs ->]].
      apply (common_rowids_dense idx r hc W) in Hr. destruct Hr as [Hr Hd].
      split; [split; assumption | exact Hd].
  - intros [[Hr Hs] Hd]. destruct (Z.eq_dec v (common idx)) as [E|N].
    + exists (common_rowids idx hc). split.
      * apply in_app_iff. right. apply in_common_items. cbn [fst snd]. auto.
      * apply (common_rowids_dense idx r hc W). split; [exact Hr | congruence].
    + apply (wf_dense_iff idx r hc v W N) in Hd. destruct Hd as [rows [Hin Hin']].
      exists rows. split; [apply in_app_iff; left; exact Hin | exact Hin'].
Qed.

(* a cell holding the common value is found under the common key only (no stored entry lists it) *)
Lemma items_force_common_unlisted idx r hc : WF idx ->
  dense idx r hc = common idx -> forall v, ~ listed idx r hc v.
Proof.
  intros W Hd v L. apply (wf_listed_not_common idx r hc v W L).
  rewrite <- (dense_listed idx r hc v W L). exact Hd.
Qed.

Theorem items_force_keys idx : WF idx -> NoDup (keys (items_force idx)).
Proof.
  intros W. rewrite items_force_app. unfold keys. rewrite map_app. apply nodup_app.
  - apply (wf_keys idx W).
  - change (NoDup (keys (common_items idx))). rewrite keys_common_items.
    apply nodup_map_inj; [|apply NoDup_all_hcs]. intros a b E. inversion E. reflexivity.
  - intros k Hk Hc. change (In k (keys (common_items idx))) in Hc. rewrite keys_common_items in Hc.
    apply in_map_iff in Hc. destruct Hc as [hc [<- _]].
    apply in_map_iff in Hk. destruct Hk as [[k rows] [E Hin]]. cbn [fst] in E. subst k.
    apply (wf_nocommon idx W) in Hin. apply Hin. reflexivity.
Qed.

Theorem items_force_sorted idx k rows : WF idx -> In (k, rows) (items_force idx) -> sincr rows.
Proof.
  intros W H. rewrite items_force_app in H. apply in_app_iff in H. destruct H as [H|H].
  - apply (wf_sorted idx W k rows H).
  - apply in_common_items in H. destruct H as [_ [_ ->]]. apply common_rowids_sincr.
Qed.

(* ====================================================================================== *)
(* to_dict(force=True): a dict built by assignment from distinct keys, in order             *)
(* ====================================================================================== *)
Lemma assoc_set_fresh k v es : ~ In k (keys es) -> assoc_set k v es = es ++ [(k, v)].
Proof.
  unfold keys. induction es as [|[k0 v0] es IH]; cbn [assoc_set map fst In app]; intros H; [reflexivity|].
  destruct (key_eqb_spec k k0) as [->|N].
  - exfalso. apply H. now left.
  - f_equal. apply IH. intros Hin. apply H. now right.
Qed.

Lemma fold_assoc_set_fresh (l acc : list entry) :
  NoDup (keys l) -> (forall k, In k (keys l) -> ~ In k (keys acc)) ->
  fold_left (fun d (e : entry) => assoc_set (fst e) (snd e) d) l acc = acc ++ l.
Proof.
  unfold keys. revert acc. induction l as [|[k v] l IH]; intros acc ND D; cbn [fold_left fst snd].
  - rewrite app_nil_r. reflexivity.
  - cbn [map fst] in ND, D. inversion ND as [|? ? Hn ND']; subst.
    rewrite assoc_set_fresh by (apply D; now left).
    rewrite IH.
    + rewrite <- app_assoc. reflexivity.
    + exact ND'.
    + intros k' Hk' Hin. unfold keys in Hin. rewrite map_app in Hin. apply in_app_iff in Hin.
      destruct Hin as [Hin|Hin].
      * apply (D k'); [now right | exact Hin].
      * cbn [map fst In] in Hin. destruct Hin as [E|[]]. subst k'. contradiction.
Qed.

Theorem to_dict_force_items idx : WF idx -> to_dict_force idx = items_force idx.
Proof.
  intros W. unfold to_dict_force.
  (* the lambda of to_dict_force is the one of the lemma up to the unfolding of [entry] *)
  apply (fold_assoc_set_fresh (items_force idx) []).
  - apply items_force_keys. exact W.
  - intros k _ [].
Qed.

Theorem to_dict_force_spec idx v hc r : WF idx ->
  ((exists rows, In ((v, hc), rows) (to_dict_force idx) /\ In r rows) <-> in_range idx r hc /\ dense idx r hc = v).
Proof. intros W. rewrite (to_dict_force_items idx W). apply items_force_spec. exact W. Qed.

(* the dict view: looking a key up in to_dict(force=True) agrees with get(key, force=True), except that
   to_dict keeps the (possibly empty) common-value arrays that get replaces by `default` *)
Theorem to_dict_force_get idx k : WF idx -> in_hshape (snd k) (hshape idx) ->
  rows_at k (to_dict_force idx) = opt_rows (get_force idx k).
Proof.
  intros W Hs. rewrite (to_dict_force_items idx W). destruct k as [v hc]. cbn [snd] in Hs.
  pose proof (items_force_keys idx W) as ND.
  destruct (Z.eq_dec v (common idx)) as [E|N].
  - rewrite get_force_common by exact E. cbn [snd]. apply In_rows_at; [exact ND|].
    rewrite items_force_app. apply in_app_iff. right. apply in_common_items. cbn [fst snd]. auto.
  - rewrite get_force_other by exact N. rewrite opt_rows_assoc_get.
    destruct (rows_at_cases (v, hc) (entries idx)) as [[rows [Hin E]]|E]; rewrite E.
    + apply In_rows_at; [exact ND|]. rewrite items_force_app. apply in_app_iff. now left.
    + destruct (rows_at_cases (v, hc) (items_force idx)) as [[rows [Hin E']]|E']; [|exact E'].
      rewrite E'. rewrite items_force_app in Hin. apply in_app_iff in Hin. destruct Hin as [Hin|Hin].
      * rewrite (In_rows_at _ _ _ (wf_keys idx W) Hin) in E. exact E.
      * apply in_common_items in Hin. cbn [fst] in Hin. destruct Hin as [Hc _]. contradiction.
Qed.

