(* IIndex/CommonMax.v - C15: after every normalisation in which the LIBRARY chooses the common value
   (shift_common(), append, filtered; collapsed and from_array are in OpsBProofs_collapsed.v and
   FromArrayCommon.v) the stored common value occurs at least as often as every other value. *)
From Coq Require Import ZArith List Bool Lia.
From Catii Require Import Base.Sorted IIndex.Model IIndex.ModelFacts IIndex.OpsA IIndex.ShiftCommon IIndex.Count
  IIndex.Step IIndex.OpsAProofs_Append IIndex.OpsAProofs_Filtered IIndex.OpsAProofs_FilteredAuto.
Import ListNotations.
Open Scope Z_scope.

Lemma dense_count_shift idx v w : WF idx -> dense_count (shift_common idx v) w = dense_count idx w.
Proof.
  intros W. unfold dense_count. destruct (shift_common_shape idx v) as [-> ->].
  apply count_cells_ext. intros r hc Hr Hh. apply shift_common_dense; [exact W|split; assumption].
Qed.

Theorem shift_auto_common_max idx : WF idx ->
  forall v, dense_count (shift_common_auto idx) v <= dense_count (shift_common_auto idx) (common (shift_common_auto idx)).
Proof.
  intros W v. rewrite shift_common_auto_common. unfold shift_common_auto. rewrite !dense_count_shift by exact W.
  apply auto_common_is_max. exact W.
Qed.

Theorem append_common_max idx other : WF idx -> WF other -> append_ok idx other ->
  forall v, dense_count (append idx other) v <= dense_count (append idx other) (common (append idx other)).
Proof. intros W Wo OK. unfold append. apply shift_auto_common_max. apply append_raw_wf; assumption. Qed.

Theorem filtered_common_max idx mask : WF idx -> filtered_ok idx mask ->
  forall v, dense_count (filtered idx mask) v <= dense_count (filtered idx mask) (common (filtered idx mask)).
Proof. intros W OK. unfold filtered. apply shift_auto_common_max. apply filtered_raw_wf; assumption. Qed.

(* "so the stored row ids are as few as possible": the number of stored row ids is the number of cells
   that do not hold the common value *)
Theorem stored_rowids idx : WF idx -> sum_len (entries idx) = size idx - dense_count idx (common idx).
Proof. intros W. rewrite (count_common_sum_len idx W). lia. Qed.
