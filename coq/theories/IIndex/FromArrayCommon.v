(* IIndex/FromArrayCommon.v - C15 for from_array WITHOUT a caller-supplied common value (and without
   caller-supplied counts): the common value chosen by the library (iindexes.py:339-355: count the values,
   push the counts through the mapping, take the first maximum) occurs at least as often in the result
   as every other value.  Model: IIndex/FromArray.v (C01 vertical); this file only adds a theorem. *)
From Coq Require Import ZArith List Bool Lia.
From Catii Require Import Base.Sorted IIndex.Res IIndex.Model IIndex.ModelFacts IIndex.FromArray IIndex.C01Proofs
  IIndex.OpsA IIndex.Count.
Import ListNotations.
Open Scope Z_scope.

(* occurrences *)
Fixpoint occ (w : Z) (l : list Z) : Z :=
  match l with [] => 0 | x :: l' => (if x =? w then 1 else 0) + occ w l' end.
Lemma occ_app w a b : occ w (a ++ b) = occ w a + occ w b.
Proof. induction a as [|x a IH]; cbn [occ app]; [lia|]. rewrite IH. lia. Qed.
Lemma occ_nonneg w l : 0 <= occ w l.
Proof. induction l as [|x l IH]; cbn [occ]; [lia|]. destruct (x =? w); lia. Qed.

(* total count stored under a key *)
Fixpoint zsum (k : Z) (l : zdict) : Z :=
  match l with [] => 0 | kc :: l' => (if k =? fst kc then snd kc else 0) + zsum k l' end.
(* total count of the keys that the (partial) mapping sends to w *)
Fixpoint msum (mo : Z -> option Z) (w : Z) (l : zdict) : Z :=
  match l with
  | [] => 0
  | kc :: l' => (match mo (fst kc) with Some x => if x =? w then snd kc else 0 | None => 0 end) + msum mo w l'
  end.
Definition hits (mo : Z -> option Z) (w x : Z) : Z :=
  match mo x with Some y => if y =? w then 1 else 0 | None => 0 end.
Fixpoint occm (mo : Z -> option Z) (w : Z) (l : list Z) : Z :=
  match l with [] => 0 | x :: l' => hits mo w x + occm mo w l' end.

Lemma msum_some w l : msum Some w l = zsum w l.
Proof. induction l as [|[k c] l IH]; cbn [msum zsum fst snd]; [reflexivity|]. rewrite IH, (Z.eqb_sym k w). reflexivity. Qed.

Lemma msum_cnt_insert mo w v l : msum mo w (cnt_insert v l) = msum mo w l + hits mo w v.
Proof.
  unfold hits. induction l as [|[k c] l IH]; cbn [cnt_insert msum fst snd].
  - destruct (mo v) as [y|]; [destruct (y =? w)|]; lia.
  - destruct (v <? k); cbn [msum fst snd]; [destruct (mo v) as [y|]; [destruct (y =? w)|]; lia|].
    destruct (Z.eqb_spec v k) as [->|N]; cbn [msum fst snd].
    + destruct (mo k) as [y|]; [destruct (y =? w)|]; lia.
    + rewrite IH. lia.
Qed.
Lemma msum_count_fold mo w xs : forall acc,
  msum mo w (fold_left (fun acc v => cnt_insert v acc) xs acc) = msum mo w acc + occm mo w xs.
Proof.
  induction xs as [|x xs IH]; intros acc; cbn [fold_left occm]; [lia|]. rewrite IH, msum_cnt_insert. lia.
Qed.
Lemma msum_count_values mo w xs : msum mo w (count_values xs) = occm mo w xs.
Proof. unfold count_values. rewrite msum_count_fold. cbn [msum]. lia. Qed.

Lemma zsum_fc_add w k c l : zsum w (fc_add k c l) = zsum w l + (if w =? k then c else 0).
Proof.
  induction l as [|[k0 c0] l IH]; cbn [fc_add zsum fst snd]; [lia|].
  destruct (Z.eqb_spec k k0) as [->|N]; cbn [zsum fst snd].
  - destruct (w =? k0); lia.
  - rewrite IH. lia.
Qed.
Lemma zsum_final_counts_m m w counts : forall acc fc, final_counts_m m counts acc = Ok fc ->
  zsum w fc = zsum w acc + msum (FromArray.map_get m) w counts.
Proof.
  induction counts as [|[dv c] t IH]; intros acc fc H; cbn [final_counts_m msum fst snd] in *.
  - inversion H; subst. lia.
  - destruct (FromArray.map_get m dv) as [mv|]; [|discriminate]. rewrite (IH _ _ H), zsum_fc_add.
    rewrite (Z.eqb_sym w mv). lia.
Qed.

(* keys stay distinct *)
Lemma fc_add_nodup k c l : NoDup (map fst l) -> NoDup (map fst (fc_add k c l)).
Proof.
  induction l as [|[k0 c0] l IH]; intros ND; cbn [fc_add map fst].
  - constructor; [tauto|constructor].
  - inversion ND as [|? ? Hk ND']; subst. destruct (Z.eqb_spec k k0) as [->|N]; cbn [map fst].
    + constructor; assumption.
    + constructor; [|apply IH; exact ND']. intros C. apply fc_add_keys in C. destruct C as [C|C]; [congruence|contradiction].
Qed.
Lemma final_counts_m_nodup m counts : forall acc fc, final_counts_m m counts acc = Ok fc ->
  NoDup (map fst acc) -> NoDup (map fst fc).
Proof.
  induction counts as [|[dv c] t IH]; intros acc fc H ND; cbn [final_counts_m] in H.
  - inversion H; subst. exact ND.
  - destruct (FromArray.map_get m dv); [|discriminate]. eapply IH; [exact H|apply fc_add_nodup; exact ND].
Qed.
Lemma cnt_insert_sincr v l : sincr (map fst l) -> sincr (map fst (cnt_insert v l)).
Proof.
  induction l as [|[k c] l IH]; intros S; cbn [cnt_insert map fst]; [cbn [sincr]; auto|].
  cbn [map fst] in S. apply sincr_cons in S. destruct S as [Hlt S].
  destruct (Z.ltb_spec v k) as [Lt|Ge]; cbn [map fst].
  - apply sincr_cons. split; [|apply sincr_cons; auto]. intros y [<-|Hy]; [exact Lt|specialize (Hlt y Hy); lia].
  - destruct (Z.eqb_spec v k) as [->|N]; cbn [map fst]; [apply sincr_cons; auto|].
    apply sincr_cons. split; [|apply IH; exact S]. intros y Hy. apply cnt_insert_keys in Hy.
    destruct Hy as [->|Hy]; [lia|apply Hlt; exact Hy].
Qed.
Lemma count_values_nodup xs : NoDup (map fst (count_values xs)).
Proof.
  apply sincr_NoDup. unfold count_values.
  assert (G : forall acc, sincr (map fst acc) -> sincr (map fst (fold_left (fun acc v => cnt_insert v acc) xs acc))).
  { induction xs as [|x xs IH]; intros acc S; cbn [fold_left]; [exact S|]. apply IH, cnt_insert_sincr, S. }
  apply G. exact I.
Qed.

Lemma zsum_absent k l : ~ In k (map fst l) -> zsum k l = 0.
Proof.
  induction l as [|[k0 c0] l IH]; intros H; cbn [zsum fst snd]; [reflexivity|]. cbn [map fst In] in H.
  destruct (Z.eqb_spec k k0); [exfalso; apply H; left; congruence|]. rewrite IH; [lia|tauto].
Qed.
Lemma zsum_In k c l : NoDup (map fst l) -> In (k, c) l -> zsum k l = c.
Proof.
  induction l as [|[k0 c0] l IH]; intros ND Hin; [contradiction|]. cbn [map fst] in ND. inversion ND as [|? ? Hk ND']; subst.
  cbn [zsum fst snd]. destruct Hin as [E|Hin].
  - inversion E; subst. rewrite Z.eqb_refl, zsum_absent by exact Hk. lia.
  - destruct (Z.eqb_spec k k0) as [->|N]; [exfalso; apply Hk; apply in_map_iff; exists (k0, c); auto|].
    rewrite (IH ND' Hin). lia.
Qed.

(* the first maximum *)
Lemma first_max_max l : forall b v c, first_max l b = Some (v, c) ->
  (forall v' c', In (v', c') l -> c' <= c) /\ (forall bv bc, b = Some (bv, bc) -> bc <= c).
Proof.
  induction l as [|[v0 c0] t IH]; intros b v c H; cbn [first_max] in H.
  - subst b. split; [intros ? ? []|]. intros bv bc E. inversion E. lia.
  - destruct b as [[bv bc]|].
    + destruct (Z.gtb_spec c0 bc) as [Gt|Le].
      * destruct (IH _ _ _ H) as [A B]. specialize (B v0 c0 eq_refl). split.
        -- intros v' c' [E|Hin]; [inversion E; subst; exact B|eapply A; exact Hin].
        -- intros ? ? E. inversion E; subst. lia.
      * destruct (IH _ _ _ H) as [A B]. specialize (B bv bc eq_refl). split.
        -- intros v' c' [E|Hin]; [inversion E; subst; lia|eapply A; exact Hin].
        -- intros ? ? E. inversion E; subst. exact B.
    + destruct (IH _ _ _ H) as [A B]. specialize (B v0 c0 eq_refl). split.
      * intros v' c' [E|Hin]; [inversion E; subst; exact B|eapply A; exact Hin].
      * intros ? ? E. discriminate.
Qed.

(* counting the cells of the result = counting the flattened dense rows *)
Lemma count_cells_rows g (H : list (list Z)) w : forall L : list Z,
  Z.of_nat (length (filter (fun c : Z * list Z => g (fst c) (snd c) =? w)
                           (flat_map (fun r => map (fun hc => (r, hc)) H) L)))
  = occ w (concat (map (fun r => map (fun hc => g r hc) H) L)).
Proof.
  induction L as [|r L IH]; [reflexivity|]. cbn [flat_map map concat]. rewrite filter_app, app_length, occ_app, Nat2Z.inj_add, IH.
  f_equal. clear IH. induction H as [|hc H IH]; [reflexivity|]. cbn [map filter fst snd occ].
  destruct (g r hc =? w); cbn [length]; lia.
Qed.
Lemma dense_count_rows idx w : dense_count idx w = occ w (concat (dense_rows idx)).
Proof. unfold dense_count, count_cells, cells, dense_rows. apply count_cells_rows. Qed.

Lemma occm_map mo (h : Z -> Z) w xs : (forall x, In x xs -> mo x = Some (h x)) -> occm mo w xs = occ w (map h xs).
Proof.
  induction xs as [|x xs IH]; intros H; cbn [occm occ map]; [reflexivity|].
  rewrite IH by (intros y Hy; apply H; right; exact Hy). unfold hits. rewrite (H x) by (left; reflexivity). reflexivity.
Qed.

Theorem from_array_common_max a o s idx :
  rect a -> a_nrows a <= 2 ^ 32 -> pre_data a o -> o_common o = None -> o_counts o = None ->
  from_array a o s = Ok idx ->
  forall w, dense_count idx w <= dense_count idx (common idx).
Proof.
  intros R HN PD HC HK H.
  destruct (from_array_dense a o s idx R HN PD H) as (_ & _ & DR & _).
  destruct (from_array_inv a o s idx H) as (fc & cmn & es & E1 & E2 & _ & ->).
  assert (EC : eff_counts a o = count_values (flat a)) by (unfold eff_counts; rewrite HK; reflexivity).
  assert (DC : forall w, dense_count (mk_index a cmn es) w = occ w (map (fmap o) (flat a))).
  { intros w. rewrite dense_count_rows, DR. unfold flat. rewrite concat_map. reflexivity. }
  assert (HD : forall x, In x (flat a) -> mapping_defined o x).
  { intros x Hx. apply (pd_mapping a o PD). apply (pd_counts a o PD). exact Hx. }
  (* the final counts are the occurrence counts of the mapped values, under distinct keys *)
  assert (FC : (forall w, zsum w fc = occ w (map (fmap o) (flat a))) /\ NoDup (map fst fc)).
  { unfold final_counts in E1. rewrite EC in E1. destruct (o_mapping o) as [m|] eqn:EM.
    - split.
      + intros w. rewrite (zsum_final_counts_m m w _ _ _ E1). cbn [zsum]. rewrite msum_count_values.
        rewrite Z.add_0_l. apply occm_map. intros x Hx. specialize (HD x Hx). unfold mapping_defined, fmap in *. rewrite EM in *.
        destruct (FromArray.map_get m x); [reflexivity|congruence].
      + eapply final_counts_m_nodup; [exact E1|constructor].
    - inversion E1; subst fc. split; [|apply count_values_nodup].
      intros w. rewrite <- msum_some, msum_count_values. apply occm_map. intros x _. unfold fmap. rewrite EM. reflexivity. }
  destruct FC as [FC ND].
  intros w. rewrite !DC, <- !FC. cbn [common mk_index].
  unfold choose_common in E2. rewrite HC in E2. destruct (first_max fc None) as [[v c]|] eqn:FM.
  - inversion E2; subst cmn. destruct (first_max_max fc None v c FM) as [MX _].
    assert (Hin : In (v, c) fc) by (apply first_max_In in FM; destruct FM as [FM|FM]; [exact FM|discriminate]).
    rewrite (zsum_In v c fc ND Hin).
    destruct (in_dec Z.eq_dec w (map fst fc)) as [Hw|Hw].
    + apply in_map_iff in Hw. destruct Hw as [[w' c'] [Ew Hw]]. cbn [fst] in Ew. subst w'.
      rewrite (zsum_In w c' fc ND Hw). eapply MX. exact Hw.
    + rewrite (zsum_absent w fc Hw). rewrite <- (zsum_In v c fc ND Hin), FC. apply occ_nonneg.
  - apply first_max_none in FM. subst fc. cbn [zsum]. lia.
Qed.
