(* IIndex/OpsB.v - executable models of the "transformed copies" half of the iindex operations
   (src/catii/iindexes.py, current HEAD incl. repairs F7-F11 and F23):
     sliced, slices1d, reindexed, collapsed, column_stack, __eq__/__ne__.
   DEFINITIONS ONLY (proofs: OpsBFacts.v, OpsBProofs_*.v, EqProofs.v).

   Conventions (Model.v): a dict is an association list in insertion order; assignment to an
   existing key replaces in place, a new key is appended.  coords = (value, higher coords).
   NumPy arrays indexed by row id that the code overwrites step by step (collapsed's `output`
   and `common_count`) are modelled as functions Z -> Z with functional update and are
   materialised over range(numrows) at the end.

   Faithfulness limits (documented, outside the property quantifiers):
   * shift_common / collapsed / column_stack are 1-D/2-D code; the models follow the 2-D reading
     for higher arities (all_hcs of the shape), which the real code does not.
   * column_stack's automatic common compares float sums of sparsity*ncols; the model compares
     the exact values (proportional to the number of common cells because all inputs have the
     same row count).  Floats can break EXACT ties differently; [cs_tied_commons] lists every
     exact-tie candidate so a checker can treat that library tie-break as free. *)
From Coq Require Import ZArith List Bool.
From Catii Require Import Base.Sorted IIndex.Model IIndex.Res IIndex.OpsA Dtype.FitSpec Dtype.FitHand.
Import ListNotations.
Open Scope Z_scope.

Inductive order := OAll | OInt (i : Z) | OList (l : list Z).

(* ------------------------------------------------------------------------------------------ *)
(* small list utilities                                                                       *)
(* ------------------------------------------------------------------------------------------ *)

(* list.index / `in` *)
Fixpoint index_of (c : Z) (l : list Z) : option Z :=
  match l with
  | [] => None
  | x :: l' => if c =? x then Some 0 else option_map Z.succ (index_of c l')
  end.

(* numpy sort (insertion sort; keeps duplicates) *)
Fixpoint insert_sorted (x : Z) (l : list Z) : list Z :=
  match l with
  | [] => [x]
  | y :: l' => if x <=? y then x :: l else y :: insert_sorted x l'
  end.
Fixpoint isort (l : list Z) : list Z :=
  match l with [] => [] | x :: l' => insert_sorted x (isort l') end.
(* mask[:1] = True; mask[1:] = a[1:] != a[:-1]; a[mask] *)
Fixpoint dedup_adj (l : list Z) : list Z :=
  match l with
  | [] => []
  | x :: l' => match l' with
               | [] => [x]
               | y :: _ => if x =? y then dedup_adj l' else x :: dedup_adj l'
               end
  end.
Definition sort_uniq (l : list Z) : list Z := dedup_adj (isort l).

Fixpoint sum_lens (es : list entry) : Z :=
  match es with [] => 0 | e :: es' => Z.of_nat (length (snd e)) + sum_lens es' end.

(* dict(...) built by successive assignment *)
Definition dict_add (items acc : list entry) : list entry :=
  fold_left (fun acc kv => assoc_set (fst kv) (snd kv) acc) items acc.
Definition dict_of (items : list entry) : list entry := dict_add items [].

(* `for coords, rowids in self.items(): ... new[phi(coords)] = rowids` with entries dropped when
   phi is undefined: the (new key, rowids) pairs in iteration order *)
Definition rekey (phi : key -> option key) (es : list entry) : list entry :=
  flat_map (fun e => match phi (fst e) with Some k' => [(k', snd e)] | None => [] end) es.

(* (count, value) tuple comparison used by max([(v, k) ...]) / list.sort()[-1] *)
Definition lex_gt (c1 v1 c2 v2 : Z) : bool := (c2 <? c1) || ((c1 =? c2) && (v2 <? v1)).

(* ------------------------------------------------------------------------------------------ *)
(* sliced (iindexes.py:679)                                                                   *)
(* ------------------------------------------------------------------------------------------ *)

(* the per-entry coordinate rewrite; None = `keep = False`.  Coordinates of axes beyond
   len(orders) are DROPPED by the code (new_coords only collects the sliced axes). *)
Fixpoint slice_hc (orders : list order) (hc : list Z) : option (list Z) :=
  match orders with
  | [] => Some []
  | o :: os =>
    match hc with
    | [] => None
    | c :: hc' =>
      match o with
      | OAll => option_map (cons c) (slice_hc os hc')
      | OInt i => if c =? i then slice_hc os hc' else None
      | OList l => match index_of c l with
                   | Some k => option_map (cons k) (slice_hc os hc')
                   | None => None
                   end
      end
    end
  end.

Fixpoint slice_shape (orders : list order) (hs : list Z) : list Z :=
  match orders, hs with
  | o :: os, e :: hs' =>
    match o with
    | OAll => e :: slice_shape os hs'
    | OInt _ => slice_shape os hs'
    | OList l => Z.of_nat (length l) :: slice_shape os hs'
    end
  | _, _ => []
  end.

Definition slice_key (orders : list order) (k : key) : option key :=
  option_map (pair (fst k)) (slice_hc orders (snd k)).

Definition sliced (idx : iindex) (orders : list order) : res iindex :=
  match orders with
  | [] => Ok idx
  | _ =>
    if (length (hshape idx) <? length orders)%nat then Err ETypeError
    else Ok {| entries := dict_of (rekey (slice_key orders) (entries idx));
               common := common idx; nrows := nrows idx;
               hshape := slice_shape orders (hshape idx) |}
  end.

(* ------------------------------------------------------------------------------------------ *)
(* slices1d (iindexes.py:811)                                                                 *)
(* ------------------------------------------------------------------------------------------ *)

(* buckets[coord] : entries whose LAST coordinate is coord, keyed by coords[:-1] *)
Definition bucket_key (c : Z) (k : key) : option key :=
  if last (snd k) 0 =? c then Some (fst k, removelast (snd k)) else None.
Definition bucket (idx : iindex) (c : Z) : iindex :=
  {| entries := dict_of (rekey (bucket_key c) (entries idx));
     common := common idx; nrows := nrows idx; hshape := removelast (hshape idx) |}.

(* fuel = number of higher axes (len(shape) - 1); the recursion passes (coord,) + base_coords *)
Fixpoint slices1d_aux (n : nat) (base : list Z) (idx : iindex) : list (list Z * iindex) :=
  match n with
  | O => [(base, idx)]
  | S n' => flat_map (fun c => slices1d_aux n' (c :: base) (bucket idx c))
                     (zrange (last (hshape idx) 0))
  end.
Definition slices1d (idx : iindex) : list (list Z * iindex) :=
  slices1d_aux (length (hshape idx)) [] idx.

(* shift_common (iindexes.py:446): OpsA.shift_common idx v (explicit value; identity when v is
   already the common) and OpsA.shift_common_auto idx (the (count, value) maximum). *)

(* ------------------------------------------------------------------------------------------ *)
(* gathering row-id arrays per key: dict of lists, `v = d.get(k); v.append(..) / d[k] = [..]` *)
(* ------------------------------------------------------------------------------------------ *)
Section Gather.
  Context {K : Type} (keqb : K -> K -> bool).
  Definition gdict := list (K * list (list Z)).
  Fixpoint g_get (k : K) (g : gdict) : option (list (list Z)) :=
    match g with
    | [] => None
    | (k', ls) :: g' => if keqb k k' then Some ls else g_get k g'
    end.
  Fixpoint g_append (k : K) (rows : list Z) (g : gdict) : gdict :=
    match g with
    | [] => [(k, [rows])]
    | (k', ls) :: g' => if keqb k k' then (k', ls ++ [rows]) :: g' else (k', ls) :: g_append k rows g'
    end.
  Definition g_mem (k : K) (g : gdict) : bool :=
    match g_get k g with Some _ => true | None => false end.
End Gather.

(* ------------------------------------------------------------------------------------------ *)
(* reindexed (iindexes.py:739)                                                                *)
(* ------------------------------------------------------------------------------------------ *)

(* mapping.get(k, k) *)
Definition map_get (m : list (Z * Z)) (k : Z) : Z :=
  match find (fun p => fst p =? k) m with Some p => snd p | None => k end.

(* {k: i for i, k in enumerate(sorted({k[0] for k in self}))} *)
Definition default_mapping (idx : iindex) : list (Z * Z) :=
  let vals := sort_uniq (map (fun e => fst (fst e)) (entries idx)) in
  combine vals (zrange (Z.of_nat (length vals))).

Definition reindex_step (f : Z -> Z) (nc : Z)
    (st : list (key * list (list Z)) * bool) (e : entry) : list (key * list (list Z)) * bool :=
  let w := f (fst (fst e)) in
  if w =? nc then (fst st, true)
  else let k := (w, snd (fst e)) in
       (g_append key_eqb k (snd e) (fst st), snd st || g_mem key_eqb k (fst st)).

(* len(rowid_lists) > 1: concatenate, sort, drop adjacent duplicates; else the single array *)
Definition merge_rows (ls : list (list Z)) : list Z :=
  match ls with
  | [l] => l
  | _ => dedup_adj (isort (concat ls))
  end.

Definition reindex_core (idx : iindex) (f : Z -> Z) : iindex * bool :=
  let nc := f (common idx) in
  let st := fold_left (reindex_step f nc) (entries idx) ([], false) in
  ({| entries := map (fun kl => (fst kl, merge_rows (snd kl))) (fst st);
      common := nc; nrows := nrows idx; hshape := hshape idx |}, snd st).

Definition reindex_fun (idx : iindex) (mapping : option (list (Z * Z))) : Z -> Z :=
  map_get (match mapping with Some m => m | None => default_mapping idx end).

Definition reindexed (idx : iindex) (mapping : option (list (Z * Z))) (shift : bool) : iindex :=
  let '(ni, merged) := reindex_core idx (reindex_fun idx mapping) in
  if shift && merged then shift_common_auto ni else ni.

(* ------------------------------------------------------------------------------------------ *)
(* from_array on a 1-D array without options (iindexes.py:298), as used by collapsed          *)
(* ------------------------------------------------------------------------------------------ *)

Fixpoint count_in (v : Z) (l : list Z) : Z :=
  match l with [] => 0 | x :: l' => (if x =? v then 1 else 0) + count_in v l' end.
(* bincount / unique: ascending distinct values with their counts *)
Definition fa1_counts (vals : list Z) : list (Z * Z) :=
  map (fun v => (v, count_in v vals)) (sort_uniq vals).
(* `if common_count is None or c > common_count` : first strict maximum *)
Definition fa1_common (cs : list (Z * Z)) : option (Z * Z) :=
  fold_left (fun best vc => match best with
                            | None => Some vc
                            | Some b => if snd b <? snd vc then Some vc else best
                            end) cs None.
(* numpy.where(values == v)[0] *)
Fixpoint positions_from (i : Z) (v : Z) (l : list Z) : list Z :=
  match l with
  | [] => []
  | x :: l' => if x =? v then i :: positions_from (i + 1) v l' else positions_from (i + 1) v l'
  end.
Definition from_array_1d (vals : list Z) : res iindex :=
  let cs := fa1_counts vals in
  match fa1_common cs with
  | None => Err EValueError                 (* "No values or common value provided." *)
  | Some (c, _) =>
    Ok {| entries := flat_map (fun vc => if fst vc =? c then []
                                         else [((fst vc, []), positions_from 0 (fst vc) vals)]) cs;
          common := c; nrows := Z.of_nat (length vals); hshape := [] |}
  end.

(* ------------------------------------------------------------------------------------------ *)
(* collapsed (iindexes.py:554)                                                                *)
(* ------------------------------------------------------------------------------------------ *)

Fixpoint zmax_list (d : Z) (l : list Z) : Z := match l with [] => d | x :: l' => zmax_list (Z.max d x) l' end.
Fixpoint zmin_list (d : Z) (l : list Z) : Z := match l with [] => d | x :: l' => zmin_list (Z.min d x) l' end.

(* value representable in the dtype (NumPy 2 raises OverflowError when storing a Python int
   that is out of bounds) *)
Definition fits (d : dtype) (v : Z) : bool := containsb d v v.

Definition arr := Z -> Z.
(* a[rowids] = v *)
Definition arr_set (rows : list Z) (v : Z) (a : arr) : arr := fun r => if memZ r rows then v else a r.
(* a[rowids] -= 1 in an unsigned dtype of width w (wraps silently) *)
Definition arr_dec (w : Z) (rows : list Z) (a : arr) : arr :=
  fun r => if memZ r rows then (a r - 1) mod 2 ^ w else a r.
Definition arr_dec_all (w : Z) (ls : list (list Z)) (a : arr) : arr :=
  fold_left (fun a rows => arr_dec w rows a) ls a.

Definition lists_of (g : list (Z * list (list Z))) (k : Z) : list (list Z) :=
  match g_get Z.eqb k g with Some ls => ls | None => [] end.

(* list(dict.fromkeys(precedence)): the first occurrence of every value, in order (F23 repair) *)
Fixpoint dedup_keep (seen l : list Z) : list Z :=
  match l with
  | [] => []
  | x :: l' => if memZ x seen then dedup_keep seen l' else x :: dedup_keep (x :: seen) l'
  end.

(* state of the reverse-precedence loop: output, common_count (None = the local variable was
   never assigned), common_has_been_written *)
Record cstate := { c_out : arr; c_cc : option arr; c_chbw : bool }.

Definition collapse_step (dt : dtype) (w nc : Z) (g : list (Z * list (list Z)))
    (st : res cstate) (coord : Z) : res cstate :=
  match st with
  | Err e => Err e
  | Ok s =>
    if coord =? nc then
      if c_chbw s then Ok s                                (* `if not common_has_been_written:` *)
      else
        match c_cc s with
        | None => Err EOther                              (* UnboundLocalError: common_count *)
        | Some cc =>
          if fits dt coord
          then Ok {| c_out := fun r => if cc r =? 0 then c_out s r else coord;   (* output[common_count != 0] = coord *)
                     c_cc := c_cc s; c_chbw := true |}
          else Err EOverflow
        end
    else
      fold_left (fun st rows =>
                   match st with
                   | Err e => Err e
                   | Ok s =>
                     if fits dt coord then
                       if c_chbw s then Ok {| c_out := arr_set rows coord (c_out s); c_cc := c_cc s; c_chbw := true |}
                       else match c_cc s with
                            | None => Err EOther
                            | Some cc => Ok {| c_out := arr_set rows coord (c_out s);
                                               c_cc := Some (arr_dec w rows cc); c_chbw := false |}
                            end
                     else Err EOverflow
                   end) (lists_of g coord) (Ok s)
  end.

Definition collapse_gather (f : Z -> Z) (nc : Z) (es : list entry) : list (Z * list (list Z)) :=
  fold_left (fun g e => let w := f (fst (fst e)) in
                        if w =? nc then g else g_append Z.eqb w (snd e) g) es [].

(* current HEAD incl. repair F23: a value listed more than once counts at its first position only
   (`ordered`); the per-row counter is set up exactly when some row may have to obtain the common value
   without being listed under it; the loop runs over ALL of reversed(ordered). *)
Definition collapse_output (idx : iindex) (ncols : Z) (prec : list Z) (f : Z -> Z) : res (list Z) :=
  let nc := f (common idx) in
  let g := collapse_gather f nc (entries idx) in
  match prec with
  | [] => Err EValueError                                (* max() of an empty sequence *)
  | p0 :: _ =>
    let dt := fit_dtype (zmax_list p0 prec) (zmin_list p0 prec) in
    let default := last prec 0 in
    if negb (fits dt default) then Err EOverflow
    else
      let ordered := dedup_keep [] prec in
      let cdt := fit_dtype ncols 0 in
      let w := width cdt in
      let init : res cstate :=
        if memZ nc ordered && (negb (default =? nc) || negb (last ordered 0 =? nc)) then
          if negb (fits cdt ncols) then Err EOverflow
          else
            let cc0 : arr := fun _ => ncols in
            let cc1 := fold_left (fun cc kl => if memZ (fst kl) ordered then cc else arr_dec_all w (snd kl) cc) g cc0 in
            Ok {| c_out := fun _ => default; c_cc := Some cc1; c_chbw := false |}
        else Ok {| c_out := fun _ => default; c_cc := None; c_chbw := true |} in
      match fold_left (collapse_step dt w nc g) (rev ordered) init with
      | Err e => Err e
      | Ok s => Ok (map (c_out s) (zrange (nrows idx)))
      end
  end.

Definition collapsed (idx : iindex) (prec : list Z) (mapping : option (list (Z * Z))) : res iindex :=
  match hshape idx with
  | [] => Err ETypeError
  | ncols :: _ =>
    let f := match mapping with Some m => map_get m | None => (fun v => v) end in
    if nrows idx =? 0
    then Ok {| entries := []; common := f (common idx); nrows := 0; hshape := [] |}
    else res_bind (collapse_output idx ncols prec f) from_array_1d
  end.

(* ------------------------------------------------------------------------------------------ *)
(* column_stack (iindexes.py:992)                                                             *)
(* ------------------------------------------------------------------------------------------ *)

(* exact stand-in for sparsity * ncols (see header): number of common cells, 0 for size 0 *)
Definition cs_w (ii : iindex) : Z :=
  if size ii =? 0 then 0 else size ii - sum_lens (entries ii).
Definition cs_weight (idxs : list iindex) (c : Z) : Z :=
  fold_left (fun a ii => if common ii =? c then a + cs_w ii else a) idxs 0.
Definition cs_auto_common (idxs : list iindex) : option Z :=
  match idxs with
  | [] => None                                         (* sparsities[-1] : IndexError *)
  | i0 :: _ =>
    Some (fold_left (fun best ii => let c := common ii in
                       if lex_gt (cs_weight idxs c) c (cs_weight idxs best) best then c else best)
                    idxs (common i0))
  end.
(* every common value whose exact weight is maximal (free library tie-break under float rounding) *)
Definition cs_tied_commons (idxs : list iindex) : list Z :=
  filter (fun c => forallb (fun ii => cs_weight idxs (common ii) <=? cs_weight idxs c) idxs) (map common idxs).

(* entries[(coords[0], coords[1] + i)] = rowids   /   entries[(coords[0], i)] = rowids *)
Definition cs_key (twod : bool) (i : Z) (k : key) : option key :=
  Some (fst k, [if twod then hd 0 (snd k) + i else i]).
Definition cs_step (nc : Z) (st : list entry * Z) (ii : iindex) : list entry * Z :=
  let ii' := shift_common ii nc in                     (* on a copy; identity when commons agree *)
  match hshape ii' with
  | [] => (dict_add (rekey (cs_key false (snd st)) (entries ii')) (fst st), snd st + 1)
  | ncols :: _ => (dict_add (rekey (cs_key true (snd st)) (entries ii')) (fst st), snd st + ncols)
  end.

Definition column_stack (idxs : list iindex) (new_common : option Z) : res iindex :=
  match idxs with
  | [] => Err EIndexError
  | i0 :: _ =>
    if negb (forallb (fun ii => nrows ii =? nrows i0) idxs) then Err EValueError
    else
      let nc := match new_common with
                | Some c => c
                | None => match cs_auto_common idxs with Some c => c | None => 0 end
                end in
      let st := fold_left (cs_step nc) idxs ([], 0) in
      Ok {| entries := fst st; common := nc; nrows := nrows i0; hshape := [snd st] |}
  end.

(* ------------------------------------------------------------------------------------------ *)
(* __eq__ / __ne__ (iindexes.py:135, 149)                                                     *)
(* ------------------------------------------------------------------------------------------ *)

(* numpy.setxor1d as a set (the code only takes its length) *)
Definition setxor (a b : list Z) : list Z :=
  filter (fun x => negb (memZ x b)) a ++ filter (fun x => negb (memZ x a)) b.
Definition is_nil {A : Type} (l : list A) : bool := match l with [] => true | _ => false end.

Definition eq_model (a b : iindex) : bool :=
  (nrows a =? nrows b) && zl_eqb (hshape a) (hshape b)
  && (common a =? common b)
  && Nat.eqb (length (entries a)) (length (entries b))
  && forallb (fun e => is_nil (setxor (snd e) (match assoc_get (fst e) (entries b) with
                                               | Some rows => rows
                                               | None => []
                                               end))) (entries a).
Definition ne_model (a b : iindex) : bool := negb (eq_model a b).
