(* IIndex/OpsA.v — models of the index operations owned by opsA.  DEFINITIONS ONLY.
   Each function mirrors the ALGORITHM of src/catii/iindexes.py (current HEAD, repairs F6-F11 in):
   dict = association list (Model.v), loops = folds in dict order, masks = membership tests.
   Row ids are mathematical integers; the uint32 arithmetic of append (rowids.astype(uint32) + shift)
   is exact under the hypothesis nrows self + nrows other <= 2^32 carried by the theorems. *)
From Coq Require Import ZArith List Bool.
From Catii Require Import Base.Sorted IIndex.Model.
Import ListNotations.
Open Scope Z_scope.

Definition with_entries (idx : iindex) (es : list entry) : iindex :=
  {| entries := es; common := common idx; nrows := nrows idx; hshape := hshape idx |}.

(* ------------------------------------------------------------------ shift_common (iindexes.py:446) *)
(* `for col, m in enumerate(mask.T): rows = m.nonzero()[0]; if len(rows): self[(self.common, col)] = rows`
   (1-D: the single call of common_rowids()).  The mask is computed from the ORIGINAL entries. *)
Definition set_common_rows (idx : iindex) (es : list entry) (hc : list Z) : list entry :=
  match common_rowids idx hc with [] => es | rows => assoc_set (common idx, hc) rows es end.
Definition materialise_common (idx : iindex) : list entry :=
  fold_left (set_common_rows idx) (all_hcs (hshape idx)) (entries idx).
(* `for coords in list(self.keys()): if coords[0] == new_common: del self[coords]` *)
Definition drop_value (v : Z) (es : list entry) : list entry :=
  filter (fun e => negb (Z.eqb (fst (fst e)) v)) es.
Definition shift_common (idx : iindex) (v : Z) : iindex :=
  if Z.eqb v (common idx) then idx
  else {| entries := drop_value v (materialise_common idx); common := v; nrows := nrows idx; hshape := hshape idx |}.

(* the automatic choice: counts = defaultdict(int); counts[coords[0]] += len(rowids);
   counts[self.common] = self.size - sum(counts.values()); max([(v, k) for k, v in counts.items()])[1] *)
Fixpoint cnt_add (k d : Z) (cs : list (Z * Z)) : list (Z * Z) :=
  match cs with
  | [] => [(k, d)]
  | (k', c) :: cs' => if Z.eqb k k' then (k', c + d) :: cs' else (k', c) :: cnt_add k d cs'
  end.
Fixpoint cnt_set (k c : Z) (cs : list (Z * Z)) : list (Z * Z) :=
  match cs with
  | [] => [(k, c)]
  | (k', c') :: cs' => if Z.eqb k k' then (k', c) :: cs' else (k', c') :: cnt_set k c cs'
  end.
Fixpoint cnt_sum (cs : list (Z * Z)) : Z :=
  match cs with [] => 0 | kc :: cs' => snd kc + cnt_sum cs' end.
Fixpoint cnt_get (k : Z) (cs : list (Z * Z)) : Z :=
  match cs with [] => 0 | (k', c) :: cs' => if Z.eqb k k' then c else cnt_get k cs' end.
Definition lenZ (l : list Z) : Z := Z.of_nat (length l).
Definition value_counts (es : list entry) : list (Z * Z) :=
  fold_left (fun cs e => cnt_add (fst (fst e)) (lenZ (snd e)) cs) es [].
Definition all_counts (idx : iindex) : list (Z * Z) :=
  let cs := value_counts (entries idx) in cnt_set (common idx) (size idx - cnt_sum cs) cs.
(* tuples (count, value) compared lexicographically; pairs here are (value, count) *)
Definition cv_lt (a b : Z * Z) : bool :=
  (snd a <? snd b) || ((snd a =? snd b) && (fst a <? fst b)).
Fixpoint max_cv (best : Z * Z) (cs : list (Z * Z)) : Z * Z :=
  match cs with [] => best | c :: cs' => max_cv (if cv_lt best c then c else best) cs' end.
Definition auto_common (idx : iindex) : Z :=
  match all_counts idx with [] => common idx | c :: cs => fst (max_cv c cs) end.
Definition shift_common_auto (idx : iindex) : iindex := shift_common idx (auto_common idx).

(* ------------------------------------------------------------------ copy (iindexes.py:644) *)
(* no heap in this model: a copy is the same abstract value (storage sharing: harness + C17) *)
Definition copy (idx : iindex) : iindex := idx.

(* ------------------------------------------------------------------ get / items / to_dict, force=True *)
Definition get_force (idx : iindex) (k : key) : option (list Z) :=
  if Z.eqb (fst k) (common idx)
  then match common_rowids idx (snd k) with [] => None | rows => Some rows end
  else assoc_get k (entries idx).
(* chain(self.items(), ((common, col), common_rowids(col)) for every column): empty arrays are yielded too *)
Definition items_force (idx : iindex) : list entry :=
  entries idx ++ map (fun hc => ((common idx, hc), common_rowids idx hc)) (all_hcs (hshape idx)).
(* {coords: rowids.tolist() for coords, rowids in self.items(True)} : a dict built by assignment *)
Definition to_dict_force (idx : iindex) : list entry :=
  fold_left (fun d e => assoc_set (fst e) (snd e) d) (items_force idx) [].

(* ------------------------------------------------------------------ append (iindexes.py:848) *)
Definition shift_rows (d : Z) (rows : list Z) : list Z := map (fun r => r + d) rows.
(* rowids = self.get(k); self[k] = shifted if rowids is None else numpy.append(rowids, shifted) *)
Definition extend (k : key) (rows : list Z) (es : list entry) : list entry :=
  match assoc_get k es with None => assoc_set k rows es | Some old => assoc_set k (old ++ rows) es end.
Definition append_entries (self_common d : Z) (other_es es : list entry) : list entry :=
  fold_left (fun es e => if Z.eqb (fst (fst e)) self_common then es
                         else extend (fst e) (shift_rows d (snd e)) es) other_es es.
Definition append_common (other : iindex) (d : Z) (hcs : list (list Z)) (es : list entry) : list entry :=
  fold_left (fun es hc => match shift_rows d (common_rowids other hc) with
                          | [] => es                                   (* F6 repair: skip empties *)
                          | rows => extend (common other, hc) rows es end) hcs es.
Definition append_raw (idx other : iindex) : iindex :=
  let d := nrows idx in
  let es1 := append_entries (common idx) d (entries other) (entries idx) in
  let es2 := if Z.eqb (common other) (common idx) then es1
             else append_common other d (all_hcs (hshape idx)) es1 in
  {| entries := es2; common := common idx; nrows := nrows idx + nrows other; hshape := hshape idx |}.
Definition append (idx other : iindex) : iindex := shift_common_auto (append_raw idx other).

(* ------------------------------------------------------------------ filtered (iindexes.py:652) *)
(* new_rowids = empty(len(mask)); new_rowids[mask] = arange(new_length): position r holds the number of
   True before r when mask[r] (cells under False are uninitialised in the code; 0 here, never read) *)
Fixpoint new_rowids_from (mask : list bool) (next : Z) : list Z :=
  match mask with
  | [] => []
  | b :: m => if b then next :: new_rowids_from m (next + 1) else 0 :: new_rowids_from m next
  end.
Definition mask_at (mask : list bool) (r : Z) : bool := nth (Z.to_nat r) mask false.
Definition count_true (mask : list bool) : Z := lenZ (filter (fun r => mask_at mask r) (zrange (Z.of_nat (length mask)))).
Definition filtered_entries (mask : list bool) (es : list entry) : list entry :=
  let nr := new_rowids_from mask 0 in
  fold_left (fun acc e =>
               match filter (mask_at mask) (snd e) with
               | [] => acc                                             (* `if numpy.any(m)` *)
               | kept => assoc_set (fst e) (map (fun r => nth (Z.to_nat r) nr 0) kept) acc
               end) es [].
Definition filtered_raw (idx : iindex) (mask : list bool) : iindex :=
  {| entries := filtered_entries mask (entries idx); common := common idx;
     nrows := count_true mask; hshape := hshape idx |}.
Definition filtered (idx : iindex) (mask : list bool) : iindex := shift_common_auto (filtered_raw idx mask).

(* ------------------------------------------------------------------ set updates (iindexes.py:941-989) *)
(* union(None, r) = r, union(l, r) = merge; a None/empty result makes set_if pop the key *)
Definition py_union (l : option (list Z)) (r : list Z) : list Z :=
  match l with None => r | Some l => union_spec l r end.
Definition py_inter (l : option (list Z)) (r : list Z) : list Z :=
  match l with None => [] | Some l => inter_spec l r end.
Definition py_diff (l : option (list Z)) (r : list Z) : list Z :=
  match l with None => [] | Some l => diff_spec l r end.
Definition union_update_es (other es : list entry) : list entry :=
  fold_left (fun es e => assoc_set_if (fst e) (py_union (assoc_get (fst e) es) (snd e)) es) other es.
Definition has_key_b (k : key) (es : list entry) : bool := existsb (fun e => key_eqb k (fst e)) es.
Definition intersection_update_es (other es : list entry) : list entry :=
  let es1 := filter (fun e => has_key_b (fst e) other) es in        (* del self[coords] if coords not in other *)
  fold_left (fun es e => assoc_set_if (fst e) (py_inter (assoc_get (fst e) es) (snd e)) es) other es1.
Definition difference_update_es (other es : list entry) : list entry :=
  fold_left (fun es e => assoc_set_if (fst e) (py_diff (assoc_get (fst e) es) (snd e)) es) other es.
Definition union_update (idx : iindex) (other : list entry) : iindex := with_entries idx (union_update_es other (entries idx)).
Definition intersection_update (idx : iindex) (other : list entry) : iindex := with_entries idx (intersection_update_es other (entries idx)).
Definition difference_update (idx : iindex) (other : list entry) : iindex := with_entries idx (difference_update_es other (entries idx)).
Definition set_if (idx : iindex) (k : key) (v : list Z) : iindex := with_entries idx (assoc_set_if k v (entries idx)).

(* ------------------------------------------------------------------ update (iindexes.py:909) *)
(* other_cell_mask[(new_rowids,) + coords[1:]] = True *)
Definition in_cells (upd : list entry) (r : Z) (hc : list Z) : bool := existsb (covers r hc) upd.
(* first pass, over self.items(): partial match -> self[k] = rowids[~matches]; full match -> to_delete *)
Definition mask_out_step (upd : list entry) (acc : list entry * list key) (e : entry) : list entry * list key :=
  let k := fst e in
  let matches := map (fun r => in_cells upd r (snd k)) (snd e) in
  if existsb (fun b => b) matches
  then if forallb (fun b => b) matches
       then (fst acc, snd acc ++ [k])
       else (assoc_set k (filter (fun r => negb (in_cells upd r (snd k))) (snd e)) (fst acc), snd acc)
  else acc.
Definition mask_out (upd es : list entry) : list entry :=
  let acc := fold_left (mask_out_step upd) es (es, []) in
  fold_left (fun es k => assoc_del k es) (snd acc) (fst acc).
Definition update (idx : iindex) (upd : list entry) : iindex :=
  with_entries idx
    (union_update_es (filter (fun e => negb (Z.eqb (fst (fst e)) (common idx))) upd)
                     (mask_out upd (entries idx))).
