(* IIndex/OpsAProofs_Update.v — C06/C07 for the in-place updates of OpsA.v:
   union_update / intersection_update / difference_update / set_if (iindexes.py:941-989, 524)
   and update (iindexes.py:909).

   Part 1: entry-wise set algebra of the three set updates (rows_at view), NoDup keys, non-empty entries.
   Part 2: mask_out (first pass of update).
   Part 3: well-formedness of the three set updates; listed-level characterisations.
   Part 4: update: WF, shape, dense refinement (NumPy assignment a[rowids, col] = value).
   Part 5: dense-level corollaries of the set updates.
   No axioms. *)
From Coq Require Import ZArith List Bool Lia.
From Catii Require Import Base.Sorted Base.SortedFacts IIndex.Model IIndex.ModelFacts IIndex.OpsA IIndex.Step.
Import ListNotations.
Open Scope Z_scope.

(* ====================================================================================== *)
(* Part 0: small helpers                                                                   *)
(* ====================================================================================== *)
Lemma fold_left_ext {A B} (f g : A -> B -> A) l :
  (forall a b, f a b = g a b) -> forall a, fold_left f l a = fold_left g l a.
Proof.
  intros H. induction l as [|b l IH]; intros a; cbn [fold_left]; [reflexivity|].
  rewrite H. apply IH.
Qed.

Lemma has_key_b_has_key k es : has_key_b k es = has_key k es.
Proof.
  unfold has_key_b, has_key. induction es as [|[k' v] es IH]; cbn [existsb assoc_get fst]; [reflexivity|].
  destruct (key_eqb k k'); cbn [orb]; [reflexivity | exact IH].
Qed.
Lemma rows_at_no_key k es : has_key k es = false -> rows_at k es = [].
Proof. unfold has_key, rows_at. destruct (assoc_get k es); [discriminate|reflexivity]. Qed.
Lemma rows_at_cons k k0 r0 es : rows_at k ((k0, r0) :: es) = if key_eqb k k0 then r0 else rows_at k es.
Proof. unfold rows_at. cbn [assoc_get]. destruct (key_eqb k k0); reflexivity. Qed.
Lemma has_key_cons k k0 r0 es : has_key k ((k0, r0) :: es) = key_eqb k k0 || has_key k es.
Proof. unfold has_key. cbn [assoc_get]. destruct (key_eqb k k0); reflexivity. Qed.
Lemma rows_at_Some k es rows : assoc_get k es = Some rows -> rows_at k es = rows.
Proof. unfold rows_at. intros ->. reflexivity. Qed.
Lemma rows_at_None k es : assoc_get k es = None -> rows_at k es = [].
Proof. unfold rows_at. intros ->. reflexivity. Qed.

(* ====================================================================================== *)
(* Part 1: the three set updates, entry by entry                                           *)
(* ====================================================================================== *)
(* the common shape of the three loops: for k, r in other.items(): set_if(k, f(self.get(k), r)) *)
Section SetIfFold.
  Variable f : list Z -> list Z -> list Z.
  Definition upd_step (es : list entry) (e : entry) : list entry :=
    assoc_set_if (fst e) (f (rows_at (fst e) es) (snd e)) es.

  Lemma rows_at_fold_step other : NoDup (keys other) -> forall es k,
    rows_at k (fold_left upd_step other es) =
    if has_key k other then f (rows_at k es) (rows_at k other) else rows_at k es.
  Proof.
    induction other as [|[k0 r0] other IH]; intros ND es k; cbn [fold_left]; [reflexivity|].
    unfold keys in ND. cbn [map fst] in ND. inversion ND as [|? ? Hn ND']; subst.
    rewrite (IH ND'). unfold upd_step. cbn [fst snd]. rewrite !rows_at_set_if, rows_at_cons, has_key_cons.
    destruct (key_eqb_spec k k0) as [->|N]; cbn [orb]; [|reflexivity].
    destruct (has_key k0 other) eqn:E; [|reflexivity].
    exfalso. apply Hn. apply has_key_In in E. exact E.
  Qed.
  Lemma nodup_fold_step other : forall es, NoDup (keys es) -> NoDup (keys (fold_left upd_step other es)).
  Proof.
    induction other as [|e other IH]; intros es ND; cbn [fold_left]; [assumption|].
    apply IH. apply nodup_assoc_set_if. assumption.
  Qed.
  Lemma nonempty_fold_step other : forall es, nonempty_es es -> nonempty_es (fold_left upd_step other es).
  Proof.
    induction other as [|e other IH]; intros es NE; cbn [fold_left]; [assumption|].
    apply IH. apply nonempty_assoc_set_if. assumption.
  Qed.
End SetIfFold.

Lemma py_union_rows_at k es r : py_union (assoc_get k es) r = union_spec (rows_at k es) r.
Proof. unfold rows_at, py_union. destruct (assoc_get k es); [reflexivity|]. symmetry. apply union_spec_nil_l. Qed.
Lemma py_inter_rows_at k es r : py_inter (assoc_get k es) r = inter_spec (rows_at k es) r.
Proof. unfold rows_at, py_inter. destruct (assoc_get k es); reflexivity. Qed.
Lemma py_diff_rows_at k es r : py_diff (assoc_get k es) r = diff_spec (rows_at k es) r.
Proof. unfold rows_at, py_diff. destruct (assoc_get k es); reflexivity. Qed.

Lemma union_update_es_fold other es :
  union_update_es other es = fold_left (upd_step union_spec) other es.
Proof.
  unfold union_update_es. apply fold_left_ext. intros a b. unfold upd_step.
  rewrite py_union_rows_at. reflexivity.
Qed.
Lemma intersection_update_es_fold other es :
  intersection_update_es other es =
  fold_left (upd_step inter_spec) other (filter (fun e => has_key_b (fst e) other) es).
Proof.
  unfold intersection_update_es. cbv zeta. apply fold_left_ext. intros a b. unfold upd_step.
  rewrite py_inter_rows_at. reflexivity.
Qed.
Lemma difference_update_es_fold other es :
  difference_update_es other es = fold_left (upd_step diff_spec) other es.
Proof.
  unfold difference_update_es. apply fold_left_ext. intros a b. unfold upd_step.
  rewrite py_diff_rows_at. reflexivity.
Qed.

(* ---- C06, entry level: for EVERY key (absent keys read as []) ---- *)
Theorem union_update_es_rows k other es : NoDup (keys other) ->
  rows_at k (union_update_es other es) = union_spec (rows_at k es) (rows_at k other).
Proof.
  intros ND. rewrite union_update_es_fold, rows_at_fold_step by assumption.
  destruct (has_key k other) eqn:E; [reflexivity|].
  rewrite (rows_at_no_key _ _ E), union_spec_nil_r. reflexivity.
Qed.
Theorem intersection_update_es_rows k other es : NoDup (keys other) ->
  rows_at k (intersection_update_es other es) = inter_spec (rows_at k es) (rows_at k other).
Proof.
  intros ND. rewrite intersection_update_es_fold, rows_at_fold_step by assumption.
  rewrite (rows_at_filter (fun k => has_key_b k other)), has_key_b_has_key.
  destruct (has_key k other) eqn:E; [reflexivity|].
  rewrite (rows_at_no_key _ _ E), inter_spec_nil_r. reflexivity.
Qed.
Theorem difference_update_es_rows k other es : NoDup (keys other) ->
  rows_at k (difference_update_es other es) = diff_spec (rows_at k es) (rows_at k other).
Proof.
  intros ND. rewrite difference_update_es_fold, rows_at_fold_step by assumption.
  destruct (has_key k other) eqn:E; [reflexivity|].
  rewrite (rows_at_no_key _ _ E), diff_spec_nil_r. reflexivity.
Qed.

Theorem union_update_es_nodup other es : NoDup (keys es) -> NoDup (keys (union_update_es other es)).
Proof. intros ND. rewrite union_update_es_fold. apply nodup_fold_step. assumption. Qed.
Theorem intersection_update_es_nodup other es : NoDup (keys es) -> NoDup (keys (intersection_update_es other es)).
Proof. intros ND. rewrite intersection_update_es_fold. apply nodup_fold_step, nodup_filter. assumption. Qed.
Theorem difference_update_es_nodup other es : NoDup (keys es) -> NoDup (keys (difference_update_es other es)).
Proof. intros ND. rewrite difference_update_es_fold. apply nodup_fold_step. assumption. Qed.

Theorem union_update_es_nonempty other es : nonempty_es es -> nonempty_es (union_update_es other es).
Proof. intros NE. rewrite union_update_es_fold. apply nonempty_fold_step. assumption. Qed.
Theorem intersection_update_es_nonempty other es : nonempty_es es -> nonempty_es (intersection_update_es other es).
Proof. intros NE. rewrite intersection_update_es_fold. apply nonempty_fold_step, nonempty_filter. assumption. Qed.
Theorem difference_update_es_nonempty other es : nonempty_es es -> nonempty_es (difference_update_es other es).
Proof. intros NE. rewrite difference_update_es_fold. apply nonempty_fold_step. assumption. Qed.

(* set_if itself: rows_at_set_if / nodup_assoc_set_if / nonempty_assoc_set_if of ModelFacts, restated on the index *)
Theorem set_if_rows idx k v k' :
  rows_at k' (entries (set_if idx k v)) = if key_eqb k' k then v else rows_at k' (entries idx).
Proof. unfold set_if, with_entries. cbn [entries]. apply rows_at_set_if. Qed.

(* ====================================================================================== *)
(* Part 2: mask_out, the first pass of update                                              *)
(* ====================================================================================== *)
Section MaskOut.
  Variable upd : list entry.
  Definition keep_rows (hc : list Z) (rows : list Z) : list Z :=
    filter (fun r => negb (in_cells upd r hc)) rows.
  Definition m_any (hc : list Z) (rows : list Z) : bool :=
    existsb (fun b : bool => b) (map (fun r => in_cells upd r hc) rows).
  Definition m_all (hc : list Z) (rows : list Z) : bool :=
    forallb (fun b : bool => b) (map (fun r => in_cells upd r hc) rows).
  Definition m_part hc rows := m_any hc rows && negb (m_all hc rows).
  Definition m_full hc rows := m_any hc rows && m_all hc rows.

  Lemma keep_none hc rows : m_any hc rows = false -> keep_rows hc rows = rows.
  Proof.
    unfold m_any, keep_rows. induction rows as [|r rows IH]; cbn [map existsb filter]; [reflexivity|].
    intros H. apply orb_false_iff in H. destruct H as [H1 H2]. rewrite H1. cbn [negb]. f_equal. auto.
  Qed.
  Lemma keep_all hc rows : m_all hc rows = true -> keep_rows hc rows = [].
  Proof.
    unfold m_all, keep_rows. induction rows as [|r rows IH]; cbn [map forallb filter]; [reflexivity|].
    intros H. apply andb_true_iff in H. destruct H as [H1 H2]. rewrite H1. cbn [negb]. auto.
  Qed.
  Lemma keep_partial hc rows : m_all hc rows = false -> keep_rows hc rows <> [].
  Proof.
    unfold m_all, keep_rows. induction rows as [|r rows IH]; cbn [map forallb filter]; [discriminate|].
    destruct (in_cells upd r hc); cbn [negb andb]; intros H; [auto|discriminate].
  Qed.

  Lemma mask_step_fst st k rows :
    fst (mask_out_step upd st (k, rows)) =
    if m_part (snd k) rows then assoc_set k (keep_rows (snd k) rows) (fst st) else fst st.
  Proof.
    unfold mask_out_step, m_part. cbn [fst snd].
    change (existsb (fun b : bool => b) (map (fun r => in_cells upd r (snd k)) rows)) with (m_any (snd k) rows).
    change (forallb (fun b : bool => b) (map (fun r => in_cells upd r (snd k)) rows)) with (m_all (snd k) rows).
    destruct (m_any (snd k) rows), (m_all (snd k) rows); reflexivity.
  Qed.
  Lemma mask_step_snd st k rows :
    snd (mask_out_step upd st (k, rows)) = if m_full (snd k) rows then snd st ++ [k] else snd st.
  Proof.
    unfold mask_out_step, m_full. cbn [fst snd].
    change (existsb (fun b : bool => b) (map (fun r => in_cells upd r (snd k)) rows)) with (m_any (snd k) rows).
    change (forallb (fun b : bool => b) (map (fun r => in_cells upd r (snd k)) rows)) with (m_all (snd k) rows).
    destruct (m_any (snd k) rows), (m_all (snd k) rows); reflexivity.
  Qed.

  (* the loop runs over the entries [l] (read from the ORIGINAL dict) and writes into [fst st] *)
  Lemma mask_fold_rows l : NoDup (keys l) -> forall st k,
    rows_at k (fst (fold_left (mask_out_step upd) l st)) =
    match assoc_get k l with
    | Some rows => if m_part (snd k) rows then keep_rows (snd k) rows else rows_at k (fst st)
    | None => rows_at k (fst st)
    end.
  Proof.
    induction l as [|[k0 r0] l IH]; intros ND st k; cbn [fold_left assoc_get]; [reflexivity|].
    unfold keys in ND. cbn [map fst] in ND. inversion ND as [|? ? Hn ND']; subst.
    rewrite (IH ND'), mask_step_fst.
    destruct (key_eqb_spec k k0) as [->|N].
    - assert (E: assoc_get k0 l = None) by (apply assoc_get_None; exact Hn). rewrite E.
      destruct (m_part (snd k0) r0); [rewrite rows_at_set, key_eqb_refl|]; reflexivity.
    - assert (R: rows_at k (if m_part (snd k0) r0 then assoc_set k0 (keep_rows (snd k0) r0) (fst st) else fst st)
                 = rows_at k (fst st)).
      { destruct (m_part (snd k0) r0); [|reflexivity]. rewrite rows_at_set.
        destruct (key_eqb_spec k k0); [contradiction|reflexivity]. }
      rewrite R. reflexivity.
  Qed.
  Lemma mask_fold_del l : forall st k,
    In k (snd (fold_left (mask_out_step upd) l st)) <->
    In k (snd st) \/ exists rows, In (k, rows) l /\ m_full (snd k) rows = true.
  Proof.
    induction l as [|[k0 r0] l IH]; intros st k; cbn [fold_left].
    - split; [auto|]. intros [H|[rows [[] _]]]. exact H.
    - rewrite IH, mask_step_snd. split.
      + intros [H|[rows [Hin Hf]]].
        * destruct (m_full (snd k0) r0) eqn:F; [|left; exact H].
          apply in_app_iff in H. destruct H as [H|[<-|[]]]; [left; exact H|].
          right. exists r0. split; [now left|exact F].
        * right. exists rows. split; [now right|exact Hf].
      + intros [H|[rows [[E|Hin] Hf]]].
        * left. destruct (m_full (snd k0) r0); [apply in_app_iff; left|]; exact H.
        * inversion E; subst. left. rewrite Hf. apply in_app_iff. right. now left.
        * right. exists rows. auto.
  Qed.
  Lemma mask_fold_nodup l : forall st, NoDup (keys (fst st)) -> NoDup (keys (fst (fold_left (mask_out_step upd) l st))).
  Proof.
    induction l as [|[k0 r0] l IH]; intros st ND; cbn [fold_left]; [assumption|].
    apply IH. rewrite mask_step_fst. destruct (m_part (snd k0) r0); [apply nodup_assoc_set|]; assumption.
  Qed.
  Lemma mask_fold_nonempty l : forall st, nonempty_es (fst st) -> nonempty_es (fst (fold_left (mask_out_step upd) l st)).
  Proof.
    induction l as [|[k0 r0] l IH]; intros st NE; cbn [fold_left]; [assumption|].
    apply IH. rewrite mask_step_fst. destruct (m_part (snd k0) r0) eqn:P; [|assumption].
    apply nonempty_assoc_set; [|assumption]. apply keep_partial.
    unfold m_part in P. apply andb_true_iff in P. destruct P as [_ P]. apply negb_true_iff in P. exact P.
  Qed.

  (* second loop: for coords in to_delete: del self[coords] *)
  Lemma rows_at_fold_del ks : forall es k,
    rows_at k (fold_left (fun es k => assoc_del k es) ks es) = if existsb (key_eqb k) ks then [] else rows_at k es.
  Proof.
    induction ks as [|k0 ks IH]; intros es k; cbn [fold_left existsb]; [reflexivity|].
    rewrite IH, rows_at_del. destruct (key_eqb k k0), (existsb (key_eqb k) ks); reflexivity.
  Qed.
  Lemma nodup_fold_del ks : forall es, NoDup (keys es) -> NoDup (keys (fold_left (fun es k => assoc_del k es) ks es)).
  Proof.
    induction ks as [|k0 ks IH]; intros es ND; cbn [fold_left]; [assumption|]. apply IH, nodup_assoc_del. assumption.
  Qed.
  Lemma nonempty_fold_del ks : forall es, nonempty_es es -> nonempty_es (fold_left (fun es k => assoc_del k es) ks es).
  Proof.
    induction ks as [|k0 ks IH]; intros es NE; cbn [fold_left]; [assumption|]. apply IH.
    unfold assoc_del. apply nonempty_filter. assumption.
  Qed.

  Theorem mask_out_rows es k : NoDup (keys es) ->
    rows_at k (mask_out upd es) = filter (fun r => negb (in_cells upd r (snd k))) (rows_at k es).
  Proof.
    intros ND. change (filter (fun r => negb (in_cells upd r (snd k))) (rows_at k es)) with (keep_rows (snd k) (rows_at k es)).
    unfold mask_out. cbv zeta. rewrite rows_at_fold_del, (mask_fold_rows es ND). cbn [fst].
    destruct (existsb (key_eqb k) (snd (fold_left (mask_out_step upd) es (es, [])))) eqn:D.
    - apply existsb_key_In, mask_fold_del in D. cbn [snd In] in D. destruct D as [[]|[rows [Hin Hf]]].
      rewrite (In_rows_at _ _ _ ND Hin). symmetry. apply keep_all.
      unfold m_full in Hf. apply andb_true_iff in Hf. apply Hf.
    - destruct (assoc_get k es) as [rows|] eqn:G.
      + rewrite (rows_at_Some _ _ _ G). destruct (m_part (snd k) rows) eqn:P; [reflexivity|].
        destruct (m_any (snd k) rows) eqn:A; [|symmetry; apply keep_none; exact A].
        exfalso. unfold m_part in P. rewrite A in P. cbn [andb] in P. apply negb_false_iff in P.
        assert (In k (snd (fold_left (mask_out_step upd) es (es, [])))) as X.
        { apply mask_fold_del. right. exists rows. split; [apply assoc_get_In; exact G|].
          unfold m_full. rewrite A, P. reflexivity. }
        apply existsb_key_In in X. congruence.
      + rewrite (rows_at_None _ _ G). reflexivity.
  Qed.
  Theorem mask_out_nodup es : NoDup (keys es) -> NoDup (keys (mask_out upd es)).
  Proof. intros ND. unfold mask_out. cbv zeta. apply nodup_fold_del, mask_fold_nodup. exact ND. Qed.
  Theorem mask_out_nonempty es : nonempty_es es -> nonempty_es (mask_out upd es).
  Proof. intros NE. unfold mask_out. cbv zeta. apply nonempty_fold_del, mask_fold_nonempty. exact NE. Qed.
End MaskOut.

(* ====================================================================================== *)
(* Part 3: well-formedness of the set updates                                              *)
(* ====================================================================================== *)
Lemma WFr_build idx es' :
  0 <= nrows idx <= 2 ^ 32 -> Forall (fun e => 0 <= e) (hshape idx) ->
  NoDup (keys es') -> nonempty_es es' ->
  (forall k, rows_at k es' <> [] -> in_hshape (snd k) (hshape idx) /\ fst k <> common idx) ->
  (forall k, sincr (rows_at k es')) ->
  (forall k r, In r (rows_at k es') -> 0 <= r < nrows idx) ->
  (forall hc v v' r, In r (rows_at (v, hc) es') -> In r (rows_at (v', hc) es') -> v = v') ->
  WF (with_entries idx es').
Proof. intros. apply WF_WFr. constructor; assumption. Qed.

(* shrinking every entry keeps the index well-formed *)
Lemma WF_sub idx es' : WF idx -> NoDup (keys es') -> nonempty_es es' ->
  (forall k, sincr (rows_at k es')) ->
  (forall k r, In r (rows_at k es') -> In r (rows_at k (entries idx))) ->
  WF (with_entries idx es').
Proof.
  intros W ND NE HS Hsub. pose proof (proj1 (WF_WFr idx) W) as Wr. apply WFr_build; try assumption.
  - apply W.
  - apply W.
  - intros k H. apply (wr_key idx Wr). destruct (rows_at k es') as [|r l] eqn:E; [congruence|].
    intros E0. specialize (Hsub k r). rewrite E, E0 in Hsub. destruct (Hsub (or_introl eq_refl)).
  - intros k r H. apply (wr_rows idx Wr k). auto.
  - intros hc v v' r H H'. apply (wr_excl idx Wr hc v v' r); auto.
Qed.

Theorem intersection_update_wf idx other : WF idx -> NoDup (keys other) -> WF (intersection_update idx other).
Proof.
  intros W ND. pose proof (proj1 (WF_WFr idx) W) as Wr. unfold intersection_update. apply WF_sub.
  - exact W.
  - apply intersection_update_es_nodup, Wr.
  - apply intersection_update_es_nonempty, Wr.
  - intros k. rewrite intersection_update_es_rows by assumption. apply inter_spec_sincr, Wr.
  - intros k r H. rewrite intersection_update_es_rows in H by assumption. apply inter_spec_In in H. tauto.
Qed.
Theorem difference_update_wf idx other : WF idx -> NoDup (keys other) -> WF (difference_update idx other).
Proof.
  intros W ND. pose proof (proj1 (WF_WFr idx) W) as Wr. unfold difference_update. apply WF_sub.
  - exact W.
  - apply difference_update_es_nodup, Wr.
  - apply difference_update_es_nonempty, Wr.
  - intros k. rewrite difference_update_es_rows by assumption. apply diff_spec_sincr, Wr.
  - intros k r H. rewrite difference_update_es_rows in H by assumption. apply diff_spec_In in H. tauto.
Qed.

(* cells of a plain dict {coords -> rowids} *)
Definition listed_in (other : list entry) (r : Z) (hc : list Z) (v : Z) : Prop :=
  exists rows, In ((v, hc), rows) other /\ In r rows.
Lemma listed_in_rows_at other r hc v :
  NoDup (keys other) -> (listed_in other r hc v <-> In r (rows_at (v, hc) other)).
Proof.
  intros ND. split.
  - intros [rows [Hin Hr]]. rewrite (In_rows_at _ _ _ ND Hin). assumption.
  - intros H. apply rows_at_In in H. exact H.
Qed.
Lemma listed_in_covers other r hc v :
  listed_in other r hc v <-> exists e, In e other /\ covers r hc e = true /\ fst (fst e) = v.
Proof.
  split.
  - intros [rows [Hin Hr]]. exists ((v, hc), rows). split; [assumption|]. split; [|reflexivity].
    apply covers_true. cbn [fst snd]. auto.
  - intros [[[v0 h] rows] [Hin [Hc E]]]. apply covers_true in Hc. cbn [fst snd] in *. destruct Hc as [-> Hr].
    subst v0. exists rows. auto.
Qed.

(* what a caller of union_update owes: a dict of sorted in-range non-common entries whose cells do not
   contradict the receiver's nor one another *)
Definition other_ok (idx : iindex) (other : list entry) : Prop :=
  NoDup (keys other) /\
  (forall k rows, In (k, rows) other ->
     in_hshape (snd k) (hshape idx) /\ sincr rows /\ (forall r, In r rows -> 0 <= r < nrows idx) /\ fst k <> common idx) /\
  (forall r hc v v', (listed idx r hc v \/ listed_in other r hc v) ->
                     (listed idx r hc v' \/ listed_in other r hc v') -> v = v').

Theorem union_update_wf idx other : WF idx -> other_ok idx other -> WF (union_update idx other).
Proof.
  intros W [ND [Hent Hex]]. pose proof (proj1 (WF_WFr idx) W) as Wr. unfold union_update. apply WFr_build.
  - apply W.
  - apply W.
  - apply union_update_es_nodup, Wr.
  - apply union_update_es_nonempty, Wr.
  - intros k H. rewrite union_update_es_rows in H by assumption.
    destruct (rows_at k (entries idx)) as [|x l] eqn:E1.
    + rewrite union_spec_nil_l in H. destruct (rows_at_cases k other) as [[rows [Hin E]]|E]; [|congruence].
      apply Hent in Hin. tauto.
    + apply (wr_key idx Wr). rewrite E1. discriminate.
  - intros k. rewrite union_update_es_rows by assumption. apply union_spec_sincr; [apply Wr|].
    destruct (rows_at_cases k other) as [[rows [Hin E]]|E]; rewrite E; [apply Hent in Hin; tauto | exact I].
  - intros k r H. rewrite union_update_es_rows in H by assumption. apply union_spec_In in H.
    destruct H as [H|H]; [eapply (wr_rows idx Wr); eassumption|].
    apply rows_at_In in H. destruct H as [rows [Hin Hr]]. apply Hent in Hin. destruct Hin as [_ [_ [Hrg _]]]. auto.
  - intros hc v v' r H H'. rewrite union_update_es_rows in H, H' by assumption. apply union_spec_In in H, H'.
    apply (Hex r hc).
    + destruct H as [H|H]; [left; apply listed_rows_at; [apply Wr|assumption] | right; apply rows_at_In in H; exact H].
    + destruct H' as [H'|H']; [left; apply listed_rows_at; [apply Wr|assumption] | right; apply rows_at_In in H'; exact H'].
Qed.

(* ---- the three updates, cell by cell ---- *)
Theorem listed_union_update idx other r hc v : NoDup (keys (entries idx)) -> NoDup (keys other) ->
  (listed (union_update idx other) r hc v <-> listed idx r hc v \/ listed_in other r hc v).
Proof.
  intros NDi ND. rewrite listed_rows_at by (apply union_update_es_nodup; exact NDi).
  unfold union_update, with_entries. cbn [entries].
  rewrite union_update_es_rows, union_spec_In, (listed_rows_at idx), (listed_in_rows_at other) by assumption.
  reflexivity.
Qed.
Theorem listed_intersection_update idx other r hc v : NoDup (keys (entries idx)) -> NoDup (keys other) ->
  (listed (intersection_update idx other) r hc v <-> listed idx r hc v /\ listed_in other r hc v).
Proof.
  intros NDi ND. rewrite listed_rows_at by (apply intersection_update_es_nodup; exact NDi).
  unfold intersection_update, with_entries. cbn [entries].
  rewrite intersection_update_es_rows, inter_spec_In, (listed_rows_at idx), (listed_in_rows_at other) by assumption.
  reflexivity.
Qed.
Theorem listed_difference_update idx other r hc v : NoDup (keys (entries idx)) -> NoDup (keys other) ->
  (listed (difference_update idx other) r hc v <-> listed idx r hc v /\ ~ listed_in other r hc v).
Proof.
  intros NDi ND. rewrite listed_rows_at by (apply difference_update_es_nodup; exact NDi).
  unfold difference_update, with_entries. cbn [entries].
  rewrite difference_update_es_rows, diff_spec_In, (listed_rows_at idx), (listed_in_rows_at other) by assumption.
  reflexivity.
Qed.

(* ====================================================================================== *)
(* Part 4: update = mask out the target cells, then union in the non-common new entries    *)
(* ====================================================================================== *)
Definition upd_ok (idx : iindex) (upd : list entry) : Prop :=
  NoDup (keys upd) /\
  (forall k rows, In (k, rows) upd ->
     in_hshape (snd k) (hshape idx) /\ sincr rows /\ (forall r, In r rows -> 0 <= r < nrows idx)) /\
  (forall r hc e e', In e upd -> In e' upd -> covers r hc e = true -> covers r hc e' = true ->
                     fst (fst e) = fst (fst e')).

Definition masked (idx : iindex) (upd : list entry) : iindex := with_entries idx (mask_out upd (entries idx)).
Definition newpart (idx : iindex) (upd : list entry) : list entry :=
  filter (fun e => negb (Z.eqb (fst (fst e)) (common idx))) upd.

Lemma update_decomp idx upd : update idx upd = union_update (masked idx upd) (newpart idx upd).
Proof. reflexivity. Qed.

Lemma in_cells_true upd r hc : in_cells upd r hc = true <-> exists e, In e upd /\ covers r hc e = true.
Proof. unfold in_cells. apply existsb_exists. Qed.
Lemma in_cells_find upd r hc :
  in_cells upd r hc = match find (covers r hc) upd with Some _ => true | None => false end.
Proof.
  unfold in_cells. induction upd as [|e upd IH]; cbn [existsb find]; [reflexivity|].
  destruct (covers r hc e); cbn [orb]; [reflexivity | exact IH].
Qed.
Lemma in_cells_false_listed_in upd r hc v : in_cells upd r hc = false -> ~ listed_in upd r hc v.
Proof.
  intros H L. apply listed_in_covers in L. destruct L as [e [Hin [Hc _]]].
  assert (in_cells upd r hc = true) by (apply in_cells_true; eauto). congruence.
Qed.

Lemma masked_wf idx upd : WF idx -> WF (masked idx upd).
Proof.
  intros W. pose proof (proj1 (WF_WFr idx) W) as Wr. pose proof (wr_keys idx Wr) as ND. unfold masked. apply WF_sub.
  - exact W.
  - apply mask_out_nodup, ND.
  - apply mask_out_nonempty, Wr.
  - intros k. rewrite mask_out_rows by exact ND. apply sincr_filter, Wr.
  - intros k r H. rewrite mask_out_rows in H by exact ND. apply filter_In in H. tauto.
Qed.
Lemma listed_masked idx upd r hc v : NoDup (keys (entries idx)) ->
  (listed (masked idx upd) r hc v <-> listed idx r hc v /\ in_cells upd r hc = false).
Proof.
  intros ND. rewrite listed_rows_at by (apply mask_out_nodup; exact ND).
  unfold masked, with_entries. cbn [entries]. rewrite mask_out_rows by exact ND. cbn [snd].
  rewrite filter_In, negb_true_iff, (listed_rows_at idx) by exact ND. reflexivity.
Qed.
Lemma listed_in_newpart idx upd r hc v :
  listed_in (newpart idx upd) r hc v <-> listed_in upd r hc v /\ v <> common idx.
Proof.
  unfold listed_in, newpart. split.
  - intros [rows [Hin Hr]]. apply filter_In in Hin. cbn [fst] in Hin. destruct Hin as [Hin Hv].
    apply negb_true_iff, Z.eqb_neq in Hv. split; [exists rows; auto | exact Hv].
  - intros [[rows [Hin Hr]] Hv]. exists rows. split; [|exact Hr]. apply filter_In. cbn [fst].
    split; [exact Hin|]. apply negb_true_iff, Z.eqb_neq. exact Hv.
Qed.
Lemma newpart_nodup idx upd : NoDup (keys upd) -> NoDup (keys (newpart idx upd)).
Proof. apply nodup_filter. Qed.

Lemma newpart_ok idx upd : WF idx -> upd_ok idx upd -> other_ok (masked idx upd) (newpart idx upd).
Proof.
  intros W [ND [Hent Hcell]]. pose proof (wf_keys idx W) as NDi. split; [|split].
  - apply newpart_nodup, ND.
  - intros k rows Hin. unfold newpart in Hin. apply filter_In in Hin. cbn [fst] in Hin. destruct Hin as [Hin Hv].
    apply negb_true_iff, Z.eqb_neq in Hv. apply Hent in Hin.
    unfold masked, with_entries. cbn [hshape nrows common]. tauto.
  - intros r hc v v' H H'.
    assert (C: forall u, listed (masked idx upd) r hc u \/ listed_in (newpart idx upd) r hc u ->
               (listed idx r hc u /\ in_cells upd r hc = false) \/ listed_in upd r hc u).
    { intros u [L|L]; [left; apply listed_masked in L; assumption | right; apply listed_in_newpart in L; tauto]. }
    apply C in H, H'. destruct H as [[L F]|L], H' as [[L' F']|L'].
    + apply (wf_excl idx W r hc); assumption.
    + exfalso. eapply in_cells_false_listed_in; eassumption.
    + exfalso. eapply in_cells_false_listed_in; eassumption.
    + apply listed_in_covers in L, L'. destruct L as [e [Hin [Hc <-]]], L' as [e' [Hin' [Hc' <-]]].
      eapply Hcell; eassumption.
Qed.

Theorem update_wf idx upd : WF idx -> upd_ok idx upd -> WF (update idx upd).
Proof.
  intros W U. rewrite update_decomp. apply union_update_wf; [apply masked_wf; exact W | apply newpart_ok; assumption].
Qed.
Theorem update_shape idx upd :
  nrows (update idx upd) = nrows idx /\ hshape (update idx upd) = hshape idx /\ common (update idx upd) = common idx.
Proof. repeat split. Qed.

(* entry level: old rows outside the assigned cells, merged with the new rows of a non-common value *)
Theorem update_rows idx upd k : NoDup (keys (entries idx)) -> NoDup (keys upd) ->
  rows_at k (entries (update idx upd)) =
  union_spec (filter (fun r => negb (in_cells upd r (snd k))) (rows_at k (entries idx)))
             (if Z.eqb (fst k) (common idx) then [] else rows_at k upd).
Proof.
  intros NDi ND. unfold update, with_entries. cbn [entries].
  rewrite union_update_es_rows by (apply (newpart_nodup idx), ND).
  rewrite mask_out_rows by exact NDi.
  rewrite (rows_at_filter (fun k => negb (Z.eqb (fst k) (common idx)))).
  destruct (Z.eqb (fst k) (common idx)); reflexivity.
Qed.

(* cell level *)
Theorem listed_update idx upd r hc v : NoDup (keys (entries idx)) -> NoDup (keys upd) ->
  (listed (update idx upd) r hc v <->
   (listed idx r hc v /\ in_cells upd r hc = false) \/ (listed_in upd r hc v /\ v <> common idx)).
Proof.
  intros NDi ND. rewrite update_decomp, listed_union_update.
  - rewrite listed_masked, listed_in_newpart by exact NDi. reflexivity.
  - unfold masked, with_entries. cbn [entries]. apply mask_out_nodup, NDi.
  - apply newpart_nodup, ND.
Qed.

(* NumPy: for coords, rowids in entries.items(): a[rowids, coords[1:]] = coords[0] *)
Theorem update_dense idx upd r hc : WF idx -> upd_ok idx upd -> in_range idx r hc ->
  dense (update idx upd) r hc =
  match find (covers r hc) upd with Some e => fst (fst e) | None => dense idx r hc end.
Proof.
  intros W U _. pose proof (update_wf idx upd W U) as W'. pose proof (wf_keys idx W) as NDi.
  destruct U as [ND [Hent Hcell]].
  destruct (find (covers r hc) upd) as [e|] eqn:F.
  - apply find_some in F. destruct F as [Hin Hc].
    assert (Le: listed_in upd r hc (fst (fst e))) by (apply listed_in_covers; exists e; auto).
    destruct (Z.eq_dec (fst (fst e)) (common idx)) as [E|N].
    + rewrite E. apply (dense_unlisted (update idx upd)). intros v' L'.
      apply listed_update in L'; try assumption. destruct L' as [[_ Fc]|[L' N']].
      * eapply in_cells_false_listed_in; eassumption.
      * apply listed_in_covers in L'. destruct L' as [e' [Hin' [Hc' <-]]].
        apply N'. rewrite <- E. eapply Hcell; eassumption.
    + apply dense_listed; [exact W'|]. apply listed_update; try assumption. right. split; assumption.
  - assert (Fc: in_cells upd r hc = false) by (rewrite in_cells_find, F; reflexivity).
    destruct (dense_cases idx r hc) as [L|[NL E]].
    + apply dense_listed; [exact W'|]. apply listed_update; try assumption. left. split; assumption.
    + rewrite E. apply (dense_unlisted (update idx upd)). intros v' L'.
      apply listed_update in L'; try assumption. destruct L' as [[L' _]|[L' _]].
      * exact (NL v' L').
      * eapply in_cells_false_listed_in; eassumption.
Qed.

(* the same as a refinement step of the dense-array specification (Step.v) *)
Theorem update_refines idx upd d : WF idx -> upd_ok idx upd ->
  refines idx d -> refines (update idx upd) (spec_update d upd).
Proof.
  intros W U [Hn [Hs Hd]]. split; [exact Hn|]. split; [exact Hs|].
  intros r hc [Hr Hh]. cbn [spec_update dn dhs df] in *.
  rewrite update_dense; [| exact W | exact U | split; [rewrite Hn; exact Hr | rewrite Hs; exact Hh]].
  destruct (find (covers r hc) upd); [reflexivity|]. apply Hd. split; assumption.
Qed.

(* ====================================================================================== *)
(* Part 5: the set updates on the dense array                                              *)
(* ====================================================================================== *)
(* difference: a cell whose (value, position) is listed in [other] falls back to the common value *)
Theorem difference_update_dense idx other r hc : WF idx -> NoDup (keys other) ->
  dense (difference_update idx other) r hc =
  if memZ r (rows_at (dense idx r hc, hc) other) then common idx else dense idx r hc.
Proof.
  intros W ND. pose proof (difference_update_wf idx other W ND) as W'. pose proof (wf_keys idx W) as NDi.
  destruct (dense_cases idx r hc) as [L|[NL E]].
  - destruct (memZ r (rows_at (dense idx r hc, hc) other)) eqn:M.
    + apply memZ_In, listed_in_rows_at in M; [|exact ND].
      apply (dense_unlisted (difference_update idx other)). intros v' L'.
      apply listed_difference_update in L'; try assumption. destruct L' as [L1 N1].
      assert (v' = dense idx r hc) by (apply (wf_excl idx W r hc); assumption). subst v'. contradiction.
    + apply memZ_false in M. apply dense_listed; [exact W'|].
      apply listed_difference_update; try assumption. split; [exact L|].
      intros X. apply M. apply listed_in_rows_at; assumption.
  - rewrite E. transitivity (common idx); [|destruct (memZ r (rows_at (common idx, hc) other)); reflexivity].
    apply (dense_unlisted (difference_update idx other)). intros v' L'.
    apply listed_difference_update in L'; try assumption. destruct L' as [L1 _]. exact (NL v' L1).
Qed.
(* intersection: only the cells listed in [other] under their current value survive *)
Theorem intersection_update_dense idx other r hc : WF idx -> NoDup (keys other) ->
  dense (intersection_update idx other) r hc =
  if memZ r (rows_at (dense idx r hc, hc) other) then dense idx r hc else common idx.
Proof.
  intros W ND. pose proof (intersection_update_wf idx other W ND) as W'. pose proof (wf_keys idx W) as NDi.
  destruct (dense_cases idx r hc) as [L|[NL E]].
  - destruct (memZ r (rows_at (dense idx r hc, hc) other)) eqn:M.
    + apply memZ_In, listed_in_rows_at in M; [|exact ND]. apply dense_listed; [exact W'|].
      apply listed_intersection_update; try assumption. split; assumption.
    + apply memZ_false in M. apply (dense_unlisted (intersection_update idx other)). intros v' L'.
      apply listed_intersection_update in L'; try assumption. destruct L' as [L1 L2].
      assert (v' = dense idx r hc) by (apply (wf_excl idx W r hc); assumption). subst v'.
      apply M. apply listed_in_rows_at; assumption.
  - rewrite E. transitivity (common idx); [|destruct (memZ r (rows_at (common idx, hc) other)); reflexivity].
    apply (dense_unlisted (intersection_update idx other)). intros v' L'.
    apply listed_intersection_update in L'; try assumption. destruct L' as [L1 _]. exact (NL v' L1).
Qed.
(* union with an admissible dict: its cells are written, the others stay *)
Theorem union_update_dense idx other r hc : WF idx -> other_ok idx other ->
  dense (union_update idx other) r hc =
  match find (covers r hc) other with Some e => fst (fst e) | None => dense idx r hc end.
Proof.
  intros W O. pose proof (union_update_wf idx other W O) as W'. pose proof (wf_keys idx W) as NDi.
  destruct O as [ND [Hent Hex]].
  destruct (find (covers r hc) other) as [e|] eqn:F.
  - apply find_some in F. destruct F as [Hin Hc]. apply dense_listed; [exact W'|].
    apply listed_union_update; try assumption. right. apply listed_in_covers. exists e. auto.
  - assert (Fc: in_cells other r hc = false) by (rewrite in_cells_find, F; reflexivity).
    destruct (dense_cases idx r hc) as [L|[NL E]].
    + apply dense_listed; [exact W'|]. apply listed_union_update; try assumption. left. exact L.
    + rewrite E. apply (dense_unlisted (union_update idx other)). intros v' L'.
      apply listed_union_update in L'; try assumption. destruct L' as [L'|L'].
      * exact (NL v' L').
      * eapply in_cells_false_listed_in; eassumption.
Qed.
Theorem set_update_shape idx other :
  (nrows (union_update idx other) = nrows idx /\ hshape (union_update idx other) = hshape idx /\ common (union_update idx other) = common idx) /\
  (nrows (intersection_update idx other) = nrows idx /\ hshape (intersection_update idx other) = hshape idx /\ common (intersection_update idx other) = common idx) /\
  (nrows (difference_update idx other) = nrows idx /\ hshape (difference_update idx other) = hshape idx /\ common (difference_update idx other) = common idx).
Proof. repeat split. Qed.

(* set_if on a well-formed index: replacing one entry by a sorted in-range set of rows that no other
   value of that column claims *)
Theorem set_if_wf idx k v : WF idx ->
  (v <> [] -> in_hshape (snd k) (hshape idx) /\ fst k <> common idx) ->
  sincr v -> (forall r, In r v -> 0 <= r < nrows idx) ->
  (forall r u, In r v -> listed idx r (snd k) u -> u = fst k) ->
  WF (set_if idx k v).
Proof.
  intros W Hk Hs Hr Hx. pose proof (proj1 (WF_WFr idx) W) as Wr. unfold set_if. apply WFr_build.
  - apply W.
  - apply W.
  - apply nodup_assoc_set_if, Wr.
  - apply nonempty_assoc_set_if, Wr.
  - intros k' H. rewrite rows_at_set_if in H. destruct (key_eqb_spec k' k) as [E|N]; [subst k'; auto | apply (wr_key idx Wr); exact H].
  - intros k'. rewrite rows_at_set_if. destruct (key_eqb k' k); [exact Hs | apply Wr].
  - intros k' r. rewrite rows_at_set_if. destruct (key_eqb k' k); [apply Hr | apply (wr_rows idx Wr)].
  - intros hc a b r. rewrite !rows_at_set_if.
    destruct (key_eqb_spec (a, hc) k) as [Ea|Na], (key_eqb_spec (b, hc) k) as [Eb|Nb]; intros Ha Hb.
    + congruence.
    + subst k. cbn [fst snd] in *. symmetry. apply (Hx r b Ha). apply listed_rows_at; [apply Wr|exact Hb].
    + subst k. cbn [fst snd] in *. apply (Hx r a Hb). apply listed_rows_at; [apply Wr|exact Ha].
    + eapply (wr_excl idx Wr); eassumption.
Qed.
