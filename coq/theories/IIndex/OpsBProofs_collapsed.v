(* IIndex/OpsBProofs_collapsed.v - collapsed (iindexes.py:554-642) against its NumPy-level
   specification: every row obtains the first value of the precedence list that is present among
   the (mapped) values of the row, else the last listed value.

   The model (OpsB.collapsed) mirrors the algorithm: gather the row-id arrays per mapped value,
   fill the output with the last listed value, then overwrite in REVERSE precedence order; the
   common value, which has no row-id arrays, is handled by the per-row counter `common_count`
   (unsigned, wrapping) of the cells that have not been accounted for by lower-precedence values.
   A value listed more than once counts at its first position (`ordered`, repair F23).
   The loop invariant is [Inv] below.  Hypotheses ([collapse_ok]): a 2-D index; a non-empty
   precedence list (repeats allowed) whose range fits a NumPy integer dtype. *)
From Coq Require Import ZArith List Bool Lia.
From Catii Require Import Base.Sorted IIndex.Model IIndex.ModelFacts IIndex.Res IIndex.OpsA IIndex.OpsB
  IIndex.OpsBFacts IIndex.OpsBFromArray1 IIndex.Count IIndex.OpsBCollapseFacts
  Dtype.FitSpec Dtype.FitHand Dtype.FitProofs.
Import ListNotations.
Open Scope Z_scope.

(* ---------------------------------------------------------------- the NumPy side *)
Definition map_fun (m : option (list (Z * Z))) : Z -> Z :=
  match m with Some m => map_get m | None => (fun v => v) end.
(* the (mapped) values of row r, over all columns *)
Definition row_vals (idx : iindex) (f : Z -> Z) (r : Z) : list Z :=
  map (fun hc => f (dense idx r hc)) (all_hcs (hshape idx)).
Definition spec_collapse (prec vals : list Z) : Z :=
  match find (fun p => memZ p vals) prec with Some p => p | None => last prec 0 end.

Definition int_range (mn mx : Z) : Prop := - 2 ^ 63 <= mn /\ mx < 2 ^ 64 /\ (mn < 0 -> mx < 2 ^ 63).
Definition collapse_ok (idx : iindex) (prec : list Z) : Prop :=
  (exists ncols, hshape idx = [ncols] /\ ncols < 2 ^ 64) /\
  match prec with [] => False | p0 :: _ => int_range (zmin_list p0 prec) (zmax_list p0 prec) end.

Lemma spec_cons_present q l vals : In q vals -> spec_collapse (q :: l) vals = q.
Proof. intros H. unfold spec_collapse. cbn [find]. apply memZ_In in H. rewrite H. reflexivity. Qed.
Lemma spec_cons_absent q l vals : ~ In q vals -> l <> [] -> spec_collapse (q :: l) vals = spec_collapse l vals.
Proof.
  intros H NE. unfold spec_collapse. cbn [find]. apply memZ_false in H. rewrite H.
  destruct l as [|x l]; [congruence|]. reflexivity.
Qed.

(* ---------------------------------------------------------------- dtype facts *)
Lemma zmax_list_ge l : forall d, d <= zmax_list d l /\ forall x, In x l -> x <= zmax_list d l.
Proof.
  induction l as [|y l IH]; intros d; cbn [zmax_list].
  - split; [lia|intros x []].
  - destruct (IH (Z.max d y)) as [H1 H2]. split; [lia|]. intros x [<-|Hx]; [lia|apply H2; exact Hx].
Qed.
Lemma zmin_list_le l : forall d, zmin_list d l <= d /\ forall x, In x l -> zmin_list d l <= x.
Proof.
  induction l as [|y l IH]; intros d; cbn [zmin_list].
  - split; [lia|intros x []].
  - destruct (IH (Z.min d y)) as [H1 H2]. split; [lia|]. intros x [<-|Hx]; [lia|apply H2; exact Hx].
Qed.
Lemma fit_contains mx mn v : mn <= v <= mx -> int_range mn mx -> fits (fit_dtype mx mn) v = true.
Proof.
  intros Hv (R1 & R2 & R3).
  assert (E : eff_min mx mn = mn).
  { unfold eff_min. destruct (mx <? 0) eqn:A; destruct (mn =? 0) eqn:B; cbn [andb]; try reflexivity.
    apply Z.ltb_lt in A. apply Z.eqb_eq in B. lia. }
  pose proof (fit_hand_C19 mx mn) as H. cbv zeta in H. rewrite E in H.
  destruct H as [[H1 H2] _]; try lia.
  unfold fits, containsb. apply andb_true_iff. split; apply Z.leb_le; lia.
Qed.
Lemma fit_counter n : 0 <= n < 2 ^ 64 -> fits (fit_dtype n 0) n = true /\ n < 2 ^ width (fit_dtype n 0).
Proof.
  intros H. destruct (fit_unsigned_holds n H) as [S Hh]. unfold fits, containsb, lo, hi in *. rewrite S in *.
  split; [apply andb_true_iff; split; apply Z.leb_le; lia|lia].
Qed.

Lemma nth_zrange {A} (h : Z -> A) n r d : 0 <= r < n -> nth (Z.to_nat r) (map h (zrange n)) d = h r.
Proof.
  intros H. unfold zrange. rewrite map_map.
  rewrite (nth_indep _ d (h (Z.of_nat 0))) by (rewrite map_length, seq_length; lia).
  rewrite (map_nth (fun x => h (Z.of_nat x)) (seq 0 (Z.to_nat n)) 0%nat). rewrite seq_nth by lia. f_equal. lia.
Qed.

Lemma filter_all_false {A} (p : A -> bool) l : (forall x, In x l -> p x = false) -> filter p l = [].
Proof.
  induction l as [|a l IH]; intros H; cbn [filter]; [reflexivity|].
  rewrite (H a) by (left; reflexivity). apply IH. intros x Hx. apply H. right. exact Hx.
Qed.

Lemma match_hd {B} (l : list Z) (a : B) (F : Z -> B) :
  l <> [] -> match l with [] => a | x :: _ => F x end = F (hd 0 l).
Proof. destruct l; [congruence|reflexivity]. Qed.

(* ---------------------------------------------------------------- first occurrences *)
Lemma in_dedup_keep l : forall seen y, In y (dedup_keep seen l) <-> In y l /\ ~ In y seen.
Proof.
  induction l as [|x l IH]; intros seen y; cbn [dedup_keep In]; [tauto|].
  destruct (memZ x seen) eqn:M.
  - apply memZ_In in M. rewrite IH. split; [tauto|]. intros [[<-|H] N]; [contradiction|tauto].
  - apply memZ_false in M. cbn [In]. rewrite IH. cbn [In]. split.
    + intros [<-|[H N]]; [tauto|]. split; [tauto|]. intros C. apply N. right. exact C.
    + intros [[<-|H] N]; [left; reflexivity|]. destruct (Z.eq_dec x y) as [->|Nxy]; [left; reflexivity|].
      right. split; [exact H|]. intros [C|C]; contradiction.
Qed.
Lemma nodup_dedup_keep l : forall seen, NoDup (dedup_keep seen l).
Proof.
  induction l as [|x l IH]; intros seen; cbn [dedup_keep]; [constructor|].
  destruct (memZ x seen); [apply IH|]. constructor; [|apply IH].
  intros C. apply in_dedup_keep in C. destruct C as [_ C]. apply C. left. reflexivity.
Qed.
Lemma find_dedup_keep (p : Z -> bool) l : forall seen, (forall x, In x seen -> p x = false) ->
  find p (dedup_keep seen l) = find p l.
Proof.
  induction l as [|x l IH]; intros seen H; cbn [dedup_keep find]; [reflexivity|].
  destruct (memZ x seen) eqn:M.
  - apply memZ_In in M. rewrite (H x M). apply IH. exact H.
  - cbn [find]. destruct (p x) eqn:P; [reflexivity|]. apply IH. intros y [<-|Hy]; [exact P|apply H; exact Hy].
Qed.
Lemma last_in (l : list Z) d : l <> [] -> In (last l d) l.
Proof.
  induction l as [|x l IH]; intros H; [congruence|]. destruct l as [|y l]; [left; reflexivity|].
  right. apply IH. discriminate.
Qed.
Lemma last_app_cons (a : list Z) x b d : last (a ++ x :: b) d = last (x :: b) d.
Proof.
  induction a as [|y a IH]; [reflexivity|]. cbn [app]. rewrite <- IH. cbn [last].
  destruct (a ++ x :: b) eqn:E; [destruct a; discriminate|reflexivity].
Qed.

(* ---------------------------------------------------------------- the loop *)
Section Loop.
  Variables (idx : iindex) (ncols : Z) (prec : list Z) (f : Z -> Z).
  Hypothesis W : WF idx.
  Hypothesis HS : hshape idx = [ncols].
  Hypothesis Hnc : ncols < 2 ^ 64.
  Hypothesis NE : prec <> [].
  Hypothesis HR : int_range (zmin_list (hd 0 prec) prec) (zmax_list (hd 0 prec) prec).

  Let nc := f (common idx).
  Let es := entries idx.
  Let g := collapse_gather f nc es.
  Let dt := fit_dtype (zmax_list (hd 0 prec) prec) (zmin_list (hd 0 prec) prec).
  Let default := last prec 0.
  Let ordered := dedup_keep [] prec.
  Let cdt := fit_dtype ncols 0.
  Let w := width cdt.
  (* the counter is needed *)
  Let cond := memZ nc ordered && (negb (default =? nc) || negb (last ordered 0 =? nc)).

  Lemma ncols_nonneg : 0 <= ncols.
  Proof. pose proof (wf_hshape idx W) as F. rewrite HS in F. inversion F; subst. assumption. Qed.

  Lemma ncols_cells : Z.of_nat (length (all_hcs (hshape idx))) = ncols.
  Proof. rewrite length_all_hcs by apply W. rewrite HS. cbn [fold_left]. lia. Qed.

  Lemma fits_prec q : In q prec -> fits dt q = true.
  Proof.
    intros H. apply fit_contains; [|exact HR]. split.
    - apply zmin_list_le. exact H.
    - apply zmax_list_ge. exact H.
  Qed.

  Lemma default_in : In default prec.
  Proof. apply last_in. exact NE. Qed.
  Lemma in_ordered x : In x ordered <-> In x prec.
  Proof. unfold ordered. rewrite in_dedup_keep. cbn [In]. tauto. Qed.
  Lemma nodup_ordered : NoDup ordered.
  Proof. apply nodup_dedup_keep. Qed.

  Definition present (r q : Z) : Prop := In q (row_vals idx f r).

  Lemma present_iff r q : present r q <-> exists hc, In hc (all_hcs (hshape idx)) /\ f (dense idx r hc) = q.
  Proof.
    unfold present, row_vals. rewrite in_map_iff. split; intros [hc [A B]]; exists hc; auto.
  Qed.

  Lemma present_lists r q : 0 <= r < nrows idx -> q <> nc ->
    (existsb (memZ r) (lists_of g q) = true <-> present r q).
  Proof.
    intros Hr Nq. rewrite cntr_pos. unfold g, es. rewrite lists_of_gather. unfold nc.
    rewrite (ecount_cells idx f (Z.eqb q) r W Hr). rewrite present_iff. split.
    - intros H. match type of H with 0 < Z.of_nat (length ?l) => assert (H' : (0 < length l)%nat) by lia end.
      destruct (filter_nonempty_ex _ _ H') as [hc [Hin P]].
      apply andb_true_iff in P. destruct P as [_ P]. apply Z.eqb_eq in P. exists hc. auto.
    - intros [hc [Hin E]].
      match goal with |- 0 < Z.of_nat (length ?l) => assert (H' : (0 < length l)%nat); [|lia] end.
      apply (filter_ex_nonempty _ _ hc Hin). rewrite E. rewrite Z.eqb_refl. fold nc.
      destruct (Z.eqb_spec q nc); [contradiction|reflexivity].
  Qed.

  Lemma counter_ok : fits cdt ncols = true /\ 0 <= ncols < 2 ^ w.
  Proof. pose proof ncols_nonneg. destruct (fit_counter ncols) as [A B]; [lia|]. split; [exact A|]. unfold w, cdt. lia. Qed.

  (* values already accounted for in the counter: the processed ones and the unlisted ones *)
  Definition lowb (PD : list Z) (x : Z) : bool := memZ x PD || negb (memZ x ordered).

  (* the counter at row r = number of cells of the row holding the common value or a not yet processed listed value *)
  Lemma cc_cells PD r : 0 <= r < nrows idx ->
    (ncols - ecount f nc (lowb PD) r es) mod 2 ^ w =
    Z.of_nat (length (filter (fun hc => negb (negb (f (dense idx r hc) =? nc) && lowb PD (f (dense idx r hc))))
                             (all_hcs (hshape idx)))).
  Proof.
    intros Hr. unfold es, nc. rewrite (ecount_cells idx f (lowb PD) r W Hr). fold nc.
    pose proof (length_filter_split (fun hc => negb (f (dense idx r hc) =? nc) && lowb PD (f (dense idx r hc)))
                                    (all_hcs (hshape idx))) as S.
    cbv beta in S. pose proof ncols_cells as NC. destruct counter_ok as [_ B].
    rewrite Z.mod_small; lia.
  Qed.

  (* the specification restricted to the values processed so far *)
  Definition specD (PD vals : list Z) : Z :=
    match find (fun p => memZ p vals) PD with Some p => p | None => default end.
  Lemma specD_present q PD vals : In q vals -> specD (q :: PD) vals = q.
  Proof. intros H. unfold specD. cbn [find]. apply memZ_In in H. rewrite H. reflexivity. Qed.
  Lemma specD_absent q PD vals : ~ In q vals -> specD (q :: PD) vals = specD PD vals.
  Proof. intros H. unfold specD. cbn [find]. apply memZ_false in H. rewrite H. reflexivity. Qed.
  Lemma specD_ordered vals : specD ordered vals = spec_collapse prec vals.
  Proof.
    unfold specD, spec_collapse, ordered. rewrite find_dedup_keep by (intros x []). reflexivity.
  Qed.

  (* LOOP INVARIANT.  PD = the values processed so far, highest precedence first; R = those still to come
     (in processing order), so that ordered = rev R ++ PD.
     (a) a row none of whose values is still to come already holds its final value;
     (b) the flag says whether the counter is (no longer) needed;
     (c) until then the counter is exact (modulo 2^w);
     (d) before the first step the output is the fill value. *)
  Definition Inv (PD R : list Z) (s : cstate) : Prop :=
    (forall r, 0 <= r < nrows idx -> (forall q, In q R -> ~ present r q) ->
       c_out s r = specD PD (row_vals idx f r)) /\
    c_chbw s = negb cond || memZ nc PD /\
    (c_chbw s = false -> exists cc, c_cc s = Some cc /\
       forall r, cc r = (ncols - ecount f nc (lowb PD) r es) mod 2 ^ w) /\
    (PD = [] -> forall r, c_out s r = default).

  Definition inner (q : Z) (st : res cstate) (rows : list Z) : res cstate :=
    match st with
    | Err e => Err e
    | Ok s =>
      if fits dt q then
        if c_chbw s then Ok {| c_out := arr_set rows q (c_out s); c_cc := c_cc s; c_chbw := true |}
        else match c_cc s with
             | None => Err EOther
             | Some cc => Ok {| c_out := arr_set rows q (c_out s);
                                c_cc := Some (arr_dec w rows cc); c_chbw := false |}
             end
      else Err EOverflow
    end.

  Lemma collapse_step_unfold s q : collapse_step dt w nc g (Ok s) q =
    if q =? nc then
      if c_chbw s then Ok s
      else match c_cc s with
           | None => Err EOther
           | Some cc => if fits dt q
                        then Ok {| c_out := fun r => if cc r =? 0 then c_out s r else q; c_cc := c_cc s; c_chbw := true |}
                        else Err EOverflow
           end
    else fold_left (inner q) (lists_of g q) (Ok s).
  Proof. reflexivity. Qed.

  Lemma inner_fold q : fits dt q = true -> forall ls s, (c_chbw s = false -> c_cc s <> None) ->
    exists s', fold_left (inner q) ls (Ok s) = Ok s' /\
      (forall r, c_out s' r = if existsb (memZ r) ls then q else c_out s r) /\
      c_chbw s' = c_chbw s /\
      (c_chbw s = false -> forall cc, c_cc s = Some cc -> exists cc', c_cc s' = Some cc' /\
         forall r n K, cc r = (n - K) mod 2 ^ w -> cc' r = (n - (K + cntr r ls)) mod 2 ^ w).
  Proof.
    intros Hf. induction ls as [|rows ls IH]; intros s Hs; cbn [fold_left].
    - exists s. split; [reflexivity|]. split; [intros r; reflexivity|]. split; [reflexivity|].
      intros _ cc E. exists cc. split; [exact E|]. intros r n K H. cbn [cntr]. rewrite H. f_equal. lia.
    - unfold inner at 2. rewrite Hf. destruct (c_chbw s) eqn:Eb.
      + destruct (IH {| c_out := arr_set rows q (c_out s); c_cc := c_cc s; c_chbw := true |}) as (s' & E & O & B & _).
        { cbn [c_chbw]. discriminate. }
        exists s'. split; [exact E|]. split; [|split; [exact B|discriminate]].
        intros r. rewrite O. cbn [c_out existsb]. unfold arr_set. destruct (memZ r rows), (existsb (memZ r) ls); reflexivity.
      + destruct (c_cc s) as [cc|] eqn:Ec; [|exfalso; apply Hs; reflexivity].
        destruct (IH {| c_out := arr_set rows q (c_out s); c_cc := Some (arr_dec w rows cc); c_chbw := false |}) as (s' & E & O & B & C).
        { cbn [c_cc]. discriminate. }
        exists s'. split; [exact E|]. split; [|split; [exact B|]].
        * intros r. rewrite O. cbn [c_out existsb]. unfold arr_set. destruct (memZ r rows), (existsb (memZ r) ls); reflexivity.
        * intros _ cc0 E0. inversion E0; subst cc0. destruct (C eq_refl (arr_dec w rows cc) eq_refl) as [cc' [E' H']].
          exists cc'. split; [exact E'|]. intros r n K H. cbn [cntr]. unfold arr_dec in H'.
          destruct (memZ r rows) eqn:M.
          -- rewrite (H' r n (K + 1)); [f_equal; lia|]. rewrite M, H, Zminus_mod_idemp_l. f_equal. lia.
          -- rewrite (H' r n K); [f_equal; lia|]. rewrite M. exact H.
  Qed.

  Lemma step_ok q R' PD s : ordered = rev R' ++ q :: PD -> Inv PD (q :: R') s ->
    exists s1, collapse_step dt w nc g (Ok s) q = Ok s1 /\ Inv (q :: PD) R' s1.
  Proof.
    intros Hp (Ia & Ib & Ic & Id).
    assert (Hqo : In q ordered) by (rewrite Hp; apply in_or_app; right; left; reflexivity).
    assert (Hq : In q prec) by (apply in_ordered; exact Hqo).
    assert (Hmem : forall x, In x ordered -> In x R' \/ x = q \/ In x PD).
    { intros x. rewrite Hp. rewrite in_app_iff, <- in_rev. cbn [In]. intros [H|[H|H]]; auto. }
    assert (Hnq : ~ In q R' /\ ~ In q PD).
    { pose proof nodup_ordered as ND'. rewrite Hp in ND'. apply NoDup_remove_2 in ND'.
      rewrite in_app_iff, <- in_rev in ND'. split; intros C; apply ND'; auto. }
    destruct Hnq as (Hq1 & Hq2).
    rewrite collapse_step_unfold. destruct (Z.eqb_spec q nc) as [Eq|Nq].
    - (* the common value *)
      assert (Mq : memZ nc PD = false) by (apply memZ_false; rewrite <- Eq; exact Hq2).
      assert (Mn : memZ nc (q :: PD) = true) by (apply memZ_In; left; exact Eq).
      destruct (c_chbw s) eqn:Hb.
      + (* the counter was never needed: the output was filled with the common value, which is processed first *)
        rewrite Mq, orb_false_r in Ib. symmetry in Ib. apply negb_true_iff in Ib. pose proof Ib as Hc. unfold cond in Ib.
        assert (Mo : memZ nc ordered = true) by (apply memZ_In; rewrite <- Eq; exact Hqo).
        rewrite Mo in Ib. cbn [andb] in Ib. apply orb_false_iff in Ib. destruct Ib as [Hd Hl].
        apply negb_false_iff, Z.eqb_eq in Hd. apply negb_false_iff, Z.eqb_eq in Hl.
        assert (EPD : PD = []).
        { destruct PD as [|p PD']; [reflexivity|]. exfalso. rewrite Hp, last_app_cons in Hl.
          assert (H : In (last (p :: PD') 0) (p :: PD')) by (apply last_in; discriminate).
          change (last (q :: p :: PD') 0) with (last (p :: PD') 0) in Hl. rewrite Hl, <- Eq in H. contradiction. }
        subst PD. exists s. split; [reflexivity|]. split; [|split; [|split]].
        * intros r Hr Hnp. rewrite (Id eq_refl r), Hd. unfold specD. cbn [find].
          rewrite Eq. destruct (memZ nc (row_vals idx f r)); [reflexivity|symmetry; exact Hd].
        * rewrite Hb, Mn, orb_true_r. reflexivity.
        * rewrite Hb. discriminate.
        * discriminate.
      + (* rows whose counter is not exhausted obtain the common value *)
        destruct (Ic eq_refl) as [cc [Ecc Hcc]]. rewrite Ecc, (fits_prec q Hq). eexists. split; [reflexivity|].
        split; [|split; [|split]].
        * cbn [c_out]. intros r Hr Hnp. rewrite Hcc, (cc_cells PD r Hr).
          destruct (in_dec Z.eq_dec q (row_vals idx f r)) as [P|NP].
          -- rewrite specD_present by exact P.
             apply present_iff in P. destruct P as [hc [Hin E]].
             match goal with |- (if Z.of_nat (length ?l) =? 0 then _ else _) = _ =>
               assert (H' : (0 < length l)%nat);
               [|destruct (Z.eqb_spec (Z.of_nat (length l)) 0); [lia|reflexivity]] end.
             apply (filter_ex_nonempty _ _ hc Hin). rewrite E, Eq, Z.eqb_refl. reflexivity.
          -- rewrite specD_absent by assumption. rewrite <- Ia; [|exact Hr|].
             2:{ intros q' [<-|Hq']; [exact NP|apply Hnp; exact Hq']. }
             match goal with |- (if Z.of_nat (length ?l) =? 0 then _ else _) = _ =>
               assert (H' : l = []); [|rewrite H'; reflexivity] end.
             apply filter_all_false. intros hc Hin. apply negb_false_iff. apply andb_true_iff.
             set (x := f (dense idx r hc)).
             assert (Px : present r x) by (apply present_iff; exists hc; auto).
             split.
             ++ apply negb_true_iff. apply Z.eqb_neq. intros C. apply NP. rewrite Eq, <- C. exact Px.
             ++ unfold lowb. destruct (memZ x ordered) eqn:M; [|rewrite orb_true_r; reflexivity].
                apply memZ_In, Hmem in M. destruct M as [M|[M|M]].
                ** exfalso. exact (Hnp x M Px).
                ** exfalso. apply NP. rewrite <- M. exact Px.
                ** apply memZ_In in M. rewrite M. reflexivity.
        * cbn [c_chbw]. rewrite Mn, orb_true_r. reflexivity.
        * cbn [c_chbw]. discriminate.
        * discriminate.
    - (* an uncommon value: its rows obtain it; until the common value is passed they are counted *)
      destruct (inner_fold q (fits_prec q Hq) (lists_of g q) s) as (s1 & E1 & O1 & B1 & C1).
      { intros Hb. destruct (Ic Hb) as [cc [Ecc _]]. congruence. }
      exists s1. split; [exact E1|]. split; [|split; [|split]].
      + intros r Hr Hnp. rewrite O1. destruct (in_dec Z.eq_dec q (row_vals idx f r)) as [P|NP].
        * rewrite specD_present by exact P. apply (present_lists r q Hr Nq) in P. rewrite P. reflexivity.
        * rewrite specD_absent by assumption.
          assert (X : existsb (memZ r) (lists_of g q) = false).
          { destruct (existsb (memZ r) (lists_of g q)) eqn:X; [|reflexivity].
            apply (present_lists r q Hr Nq) in X. contradiction. }
          rewrite X. apply Ia; [exact Hr|]. intros q' [<-|Hq']; [exact NP|apply Hnp; exact Hq'].
      + rewrite B1, Ib. f_equal. unfold memZ. cbn [existsb]. destruct (Z.eqb_spec nc q); [congruence|]. reflexivity.
      + intros Hb1. rewrite B1 in Hb1. destruct (Ic Hb1) as [cc [Ecc Hcc]].
        destruct (C1 Hb1 cc Ecc) as [cc' [Ecc' Hcc']].
        exists cc'. split; [exact Ecc'|]. intros r.
        rewrite (Hcc' r ncols (ecount f nc (lowb PD) r es) (Hcc r)).
        f_equal. f_equal. unfold g. rewrite lists_of_gather. rewrite ecount_or.
        * apply ecount_ext. intros x. unfold lowb, memZ. cbn [existsb]. rewrite (Z.eqb_sym q x).
          destruct (x =? q), (existsb (Z.eqb x) PD), (negb (existsb (Z.eqb x) ordered)); reflexivity.
        * intros x. unfold lowb. destruct (Z.eqb_spec q x) as [<-|]; [|apply andb_false_r]. rewrite andb_true_r.
          assert (M1 : memZ q PD = false) by (apply memZ_false; exact Hq2).
          assert (M2 : memZ q ordered = true) by (apply memZ_In; exact Hqo). rewrite M1, M2. reflexivity.
      + discriminate.
  Qed.

  Lemma loop_ok : forall R PD s, ordered = rev R ++ PD -> Inv PD R s ->
    exists s', fold_left (collapse_step dt w nc g) R (Ok s) = Ok s' /\ Inv (rev R ++ PD) [] s'.
  Proof.
    induction R as [|q R' IH]; intros PD s Hp HI; cbn [fold_left].
    - exists s. split; [reflexivity|exact HI].
    - cbn [rev] in Hp. rewrite <- app_assoc in Hp. cbn [app] in Hp.
      destruct (step_ok q R' PD s Hp HI) as (s1 & E1 & I1). rewrite E1.
      destruct (IH (q :: PD) s1 Hp I1) as (s' & E' & I'). exists s'. split; [exact E'|].
      cbn [rev]. rewrite <- app_assoc. exact I'.
  Qed.

  (* ---- the whole computation of the output array ---- *)
  Theorem collapse_output_spec : exists h,
    collapse_output idx ncols prec f = Ok (map h (zrange (nrows idx))) /\
    forall r, 0 <= r < nrows idx -> h r = spec_collapse prec (row_vals idx f r).
  Proof.
    assert (Hd : fits dt default = true) by (apply fits_prec, default_in).
    set (R0 := rev ordered).
    assert (Hp : ordered = rev R0 ++ []).
    { unfold R0. rewrite rev_involutive, app_nil_r. reflexivity. }
    assert (HI : exists s0, (if cond then
                   if negb (fits cdt ncols) then Err EOverflow
                   else Ok {| c_out := fun _ => default;
                              c_cc := Some (fold_left (fun cc kl => if memZ (fst kl) ordered then cc else arr_dec_all w (snd kl) cc) g
                                              (fun _ => ncols));
                              c_chbw := false |}
                   else Ok {| c_out := fun _ => default; c_cc := None; c_chbw := true |}) = Ok s0 /\ Inv [] R0 s0).
    { destruct cond eqn:EC.
      - destruct counter_ok as [Fc Bc]. rewrite Fc. cbn [negb]. eexists. split; [reflexivity|]. split; [|split; [|split]].
        + intros r _ _. reflexivity.
        + cbn [c_chbw]. rewrite EC. reflexivity.
        + intros _. eexists. split; [reflexivity|]. intros r.
          rewrite (fold_dec_notin w r ncols ordered g _ 0).
          2:{ rewrite Z.sub_0_r, Z.mod_small; [reflexivity|exact Bc]. }
          f_equal. f_equal. unfold g. rewrite gsum_gather. rewrite Z.add_0_l. apply ecount_ext. intros x. reflexivity.
        + intros _ r. reflexivity.
      - eexists. split; [reflexivity|]. split; [|split; [|split]].
        + intros r _ _. reflexivity.
        + cbn [c_chbw]. rewrite EC. reflexivity.
        + cbn [c_chbw]. discriminate.
        + intros _ r. reflexivity. }
    destruct HI as (s0 & E0 & I0).
    destruct (loop_ok R0 [] s0 Hp I0) as (s' & E' & (Ia & _)).
    exists (c_out s'). split.
    - unfold collapse_output. rewrite match_hd by exact NE.
      fold dt. fold default. rewrite Hd. cbn [negb]. fold ordered. fold cdt. fold w. fold nc. fold es. fold g. fold cond.
      rewrite E0. fold R0. rewrite E'. reflexivity.
    - intros r Hr. rewrite (Ia r Hr) by (intros q []). rewrite app_nil_r. unfold R0. rewrite rev_involutive.
      apply specD_ordered.
  Qed.
End Loop.

(* ---------------------------------------------------------------- collapsed *)
Lemma dense_count_1d out h n : nrows out = n -> hshape out = [] ->
  (forall r, 0 <= r < n -> dense out r [] = h r) ->
  forall v, dense_count out v = count_in v (map h (zrange n)).
Proof.
  intros Hn Hs Hd v. unfold dense_count, count_cells, cells. rewrite Hn, Hs. cbn [all_hcs map].
  assert (G : forall l, (forall r, In r l -> 0 <= r < n) ->
            Z.of_nat (length (filter (fun c : Z * list Z => dense out (fst c) (snd c) =? v)
                                     (flat_map (fun r => [(r, @nil Z)]) l))) = count_in v (map h l)).
  { induction l as [|r l IH]; intros Hl; [reflexivity|]. cbn [flat_map app filter map count_in fst snd].
    rewrite <- IH by (intros r' Hr'; apply Hl; right; exact Hr').
    rewrite (Hd r) by (apply Hl; left; reflexivity). destruct (h r =? v); cbn [length]; lia. }
  apply G. intros r Hr. apply in_zrange in Hr. exact Hr.
Qed.

Theorem collapsed_spec idx prec m : WF idx -> collapse_ok idx prec ->
  exists out, collapsed idx prec m = Ok out /\ WF out /\ nrows out = nrows idx /\ hshape out = [] /\
    (forall r, 0 <= r < nrows idx -> dense out r [] = spec_collapse prec (row_vals idx (map_fun m) r)) /\
    (forall v, dense_count out v <= dense_count out (common out)).
Proof.
  intros W [[ncols [HS Hn]] HR].
  assert (NE : prec <> []) by (destruct prec; [contradiction|discriminate]).
  assert (HR' : int_range (zmin_list (hd 0 prec) prec) (zmax_list (hd 0 prec) prec)).
  { destruct prec; [contradiction|exact HR]. }
  unfold collapsed. rewrite HS. fold (map_fun m).
  destruct (Z.eqb_spec (nrows idx) 0) as [Z0|NZ].
  - eexists. split; [reflexivity|]. split; [apply wf_b_spec; reflexivity|]. cbn [nrows hshape].
    split; [symmetry; exact Z0|]. split; [reflexivity|]. split; [intros r Hr; lia|].
    intros v. unfold dense_count, count_cells, cells. cbn [nrows hshape]. cbn. lia.
  - destruct (collapse_output_spec idx ncols prec (map_fun m) W HS Hn NE HR') as [h [E Hh]].
    rewrite E. cbn [res_bind].
    pose proof (wf_nrows idx W) as Hrows.
    assert (Hlen : Z.of_nat (length (map h (zrange (nrows idx)))) = nrows idx).
    { rewrite map_length. apply length_zrange. lia. }
    assert (Hne : map h (zrange (nrows idx)) <> []).
    { intros C. rewrite C in Hlen. cbn in Hlen. lia. }
    destruct (from_array_1d_spec (map h (zrange (nrows idx))) Hne) as (out & Eo & Wo & No & So & Do & _ & Mo).
    { rewrite Hlen. lia. }
    exists out. split; [exact Eo|]. split; [exact Wo|]. rewrite Hlen in No, Do.
    split; [exact No|]. split; [exact So|]. split.
    + intros r Hr. rewrite (Do r 0 Hr), nth_zrange by exact Hr. apply Hh. exact Hr.
    + intros v. rewrite !(dense_count_1d out h (nrows idx) No So).
      * apply Mo.
      * intros r Hr. rewrite (Do r 0 Hr). apply nth_zrange. exact Hr.
      * intros r Hr. rewrite (Do r 0 Hr). apply nth_zrange. exact Hr.
Qed.

(* the separate statements, in the form of the other operations *)
Theorem collapsed_total idx prec m : WF idx -> collapse_ok idx prec -> exists out, collapsed idx prec m = Ok out.
Proof. intros W OK. destruct (collapsed_spec idx prec m W OK) as [out [E _]]. eauto. Qed.

Theorem collapsed_shape idx prec m out : WF idx -> collapse_ok idx prec -> collapsed idx prec m = Ok out ->
  nrows out = nrows idx /\ hshape out = [].
Proof. intros W OK E. destruct (collapsed_spec idx prec m W OK) as [out' [E' H]]. rewrite E in E'. inversion E'; subst. tauto. Qed.

Theorem collapsed_wf idx prec m out : WF idx -> collapse_ok idx prec -> collapsed idx prec m = Ok out -> WF out.
Proof. intros W OK E. destruct (collapsed_spec idx prec m W OK) as [out' [E' H]]. rewrite E in E'. inversion E'; subst. tauto. Qed.

Theorem collapsed_dense idx prec m out r : WF idx -> collapse_ok idx prec -> collapsed idx prec m = Ok out ->
  0 <= r < nrows idx -> dense out r [] = spec_collapse prec (row_vals idx (map_fun m) r).
Proof.
  intros W OK E Hr. destruct (collapsed_spec idx prec m W OK) as [out' [E' H]]. rewrite E in E'. inversion E'; subst.
  apply H. exact Hr.
Qed.

(* C15: the common value chosen by the closing from_array is a most frequent value *)
Theorem collapsed_common_max idx prec m out : WF idx -> collapse_ok idx prec -> collapsed idx prec m = Ok out ->
  forall v, dense_count out v <= dense_count out (common out).
Proof. intros W OK E. destruct (collapsed_spec idx prec m W OK) as [out' [E' H]]. rewrite E in E'. inversion E'; subst. tauto. Qed.

(* the documented refusal: a 1-D index cannot be collapsed *)
Theorem collapsed_1d idx prec m : hshape idx = [] -> collapsed idx prec m = Err ETypeError.
Proof. intros H. unfold collapsed. rewrite H. reflexivity. Qed.

(* the specification read out: the result is listed, present in the row unless it is the last listed value *)
Theorem spec_collapse_first prec vals p :
  spec_collapse prec vals = p ->
  (In p prec /\ In p vals /\ forall pre post, prec = pre ++ p :: post -> ~ In p pre -> forall q, In q pre -> ~ In q vals)
  \/ (p = last prec 0 /\ forall q, In q prec -> ~ In q vals).
Proof.
  unfold spec_collapse. destruct (find (fun p0 => memZ p0 vals) prec) as [p0|] eqn:F; intros <-.
  - left. destruct (find_some _ _ F) as [Hin Hm]. apply memZ_In in Hm. split; [exact Hin|]. split; [exact Hm|].
    intros pre post E Np q Hq C. subst prec.
    revert F. clear Hin. induction pre as [|x pre IH]; [destruct Hq|]. cbn [app find].
    destruct (memZ x vals) eqn:Mx.
    + intros F. inversion F; subst x. apply Np. left. reflexivity.
    + destruct Hq as [<-|Hq]; [apply memZ_In in C; congruence|].
      apply IH; [|exact Hq]. intros C'. apply Np. right. exact C'.
  - right. split; [reflexivity|]. intros q Hq C. apply memZ_In in C.
    pose proof (find_none _ _ F q Hq) as X. cbv beta in X. congruence.
Qed.
