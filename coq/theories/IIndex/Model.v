(* The inverted-index model shared by C01, C06, C07, C15 (and INDX load_wf).  DEFINITIONS ONLY.

   An iindex (src/catii/iindexes.py:56) is a Python dict {coords tuple -> uint32 row-id array} plus
   .common and .shape.  Model: association list in insertion order (assignment to an existing key
   replaces in place, a new key is appended - CPython dict semantics), coords split into the value
   (coords[0]) and the higher coordinates (coords[1:]), shape split into the row count and the
   extents of the higher axes. *)
From Coq Require Import ZArith List Bool.
From Catii Require Import Base.Sorted.
Import ListNotations.
Open Scope Z_scope.

Definition key := (Z * list Z)%type.            (* (value, higher coordinates) *)
Definition entry := (key * list Z)%type.        (* key -> row ids *)
Record iindex := { entries : list entry; common : Z; nrows : Z; hshape : list Z }.

Definition ndim (idx : iindex) : nat := S (length (hshape idx)).

(* ---- equality tests (by Fixpoint; never list_eq_dec) ---- *)
Fixpoint zl_eqb (a b : list Z) : bool :=
  match a, b with
  | [], [] => true
  | x :: a', y :: b' => Z.eqb x y && zl_eqb a' b'
  | _, _ => false
  end.
Definition key_eqb (a b : key) : bool := Z.eqb (fst a) (fst b) && zl_eqb (snd a) (snd b).

(* ---- the dict ---- *)
Fixpoint assoc_get (k : key) (es : list entry) : option (list Z) :=
  match es with
  | [] => None
  | (k', v) :: es' => if key_eqb k k' then Some v else assoc_get k es'
  end.
Fixpoint assoc_set (k : key) (v : list Z) (es : list entry) : list entry :=
  match es with
  | [] => [(k, v)]
  | (k', v') :: es' => if key_eqb k k' then (k, v) :: es' else (k', v') :: assoc_set k v es'
  end.
Definition assoc_del (k : key) (es : list entry) : list entry :=
  filter (fun e => negb (key_eqb k (fst e))) es.
(* set_if (iindexes.py:513): pop when empty, else set *)
Definition assoc_set_if (k : key) (v : list Z) (es : list entry) : list entry :=
  match v with [] => assoc_del k es | _ => assoc_set k v es end.

(* ---- shape ---- *)
Fixpoint in_hshape_b (hc hs : list Z) : bool :=
  match hc, hs with
  | [], [] => true
  | c :: hc', e :: hs' => (0 <=? c) && (c <? e) && in_hshape_b hc' hs'
  | _, _ => false
  end.
Definition in_hshape (hc hs : list Z) : Prop := Forall2 (fun c e => 0 <= c < e) hc hs.

Definition zrange (n : Z) : list Z := map Z.of_nat (seq 0 (Z.to_nat n)).
(* all higher-coordinate tuples of a shape, first axis outermost *)
Fixpoint all_hcs (hs : list Z) : list (list Z) :=
  match hs with
  | [] => [[]]
  | e :: hs' => flat_map (fun c => map (cons c) (all_hcs hs')) (zrange e)
  end.

Definition size (idx : iindex) : Z := fold_left Z.mul (hshape idx) (nrows idx).

(* ---- meaning ---- *)
Definition listed (idx : iindex) (r : Z) (hc : list Z) (v : Z) : Prop :=
  exists rows, In ((v, hc), rows) (entries idx) /\ In r rows.

Definition in_range (idx : iindex) (r : Z) (hc : list Z) : Prop :=
  0 <= r < nrows idx /\ in_hshape hc (hshape idx).

Definition covers (r : Z) (hc : list Z) (e : entry) : bool :=
  zl_eqb (snd (fst e)) hc && memZ r (snd e).

(* the dense array the index stands for *)
Definition dense (idx : iindex) (r : Z) (hc : list Z) : Z :=
  match find (covers r hc) (entries idx) with Some e => fst (fst e) | None => common idx end.

Definition dense_rows (idx : iindex) : list (list Z) :=     (* executable: row-major dense content *)
  map (fun r => map (fun hc => dense idx r hc) (all_hcs (hshape idx))) (zrange (nrows idx)).

(* ---- well-formedness (C07) ---- *)
Record WF (idx : iindex) : Prop := {
  wf_nrows   : 0 <= nrows idx <= 2 ^ 32;
  wf_hshape  : Forall (fun e => 0 <= e) (hshape idx);
  wf_keys    : NoDup (map fst (entries idx));                                (* a dict *)
  wf_hc      : forall k rows, In (k, rows) (entries idx) -> in_hshape (snd k) (hshape idx);  (* arity + extents *)
  wf_sorted  : forall k rows, In (k, rows) (entries idx) -> sincr rows;       (* strictly increasing *)
  wf_rows    : forall k rows r, In (k, rows) (entries idx) -> In r rows -> 0 <= r < nrows idx;
  wf_nonempty: forall k rows, In (k, rows) (entries idx) -> rows <> [];
  wf_nocommon: forall k rows, In (k, rows) (entries idx) -> fst k <> common idx;
  wf_excl    : forall r hc v v', listed idx r hc v -> listed idx r hc v' -> v = v';
}.

(* boolean twin, run by the harness on REAL states *)
Fixpoint nodup_keys_b (ks : list key) : bool :=
  match ks with
  | [] => true
  | k :: ks' => negb (existsb (key_eqb k) ks') && nodup_keys_b ks'
  end.
Definition disjoint_b (a b : list Z) : bool := forallb (fun x => negb (memZ x b)) a.
Fixpoint excl_b (es : list entry) : bool :=
  match es with
  | [] => true
  | (k, rows) :: es' =>
      forallb (fun e => negb (zl_eqb (snd k) (snd (fst e))) || Z.eqb (fst k) (fst (fst e)) || disjoint_b rows (snd e)) es'
      && excl_b es'
  end.
Definition entry_ok_b (idx : iindex) (e : entry) : bool :=
  let '(k, rows) := e in
  in_hshape_b (snd k) (hshape idx) && sincr_b rows
  && forallb (fun r => (0 <=? r) && (r <? nrows idx)) rows
  && negb (match rows with [] => true | _ => false end)
  && negb (Z.eqb (fst k) (common idx)).
Definition wf_b (idx : iindex) : bool :=
  (0 <=? nrows idx) && (nrows idx <=? 2 ^ 32) && forallb (fun e => 0 <=? e) (hshape idx)
  && nodup_keys_b (map fst (entries idx)) && forallb (entry_ok_b idx) (entries idx) && excl_b (entries idx).

(* ---- operations every area needs ---- *)
Definition is_listed_b (idx : iindex) (r : Z) (hc : list Z) : bool := existsb (covers r hc) (entries idx).
(* common_rowids (iindexes.py:474): mask of ones, cleared by every entry of that column *)
Definition common_rowids (idx : iindex) (hc : list Z) : list Z :=
  filter (fun r => negb (is_listed_b idx r hc)) (zrange (nrows idx)).

(* counts as the library computes them: per value, sum of len(rowids); common gets the rest *)
Definition count_of (idx : iindex) (v : Z) : Z :=
  if Z.eqb v (common idx)
  then size idx - fold_left (fun a e => a + Z.of_nat (length (snd e))) (entries idx) 0
  else fold_left (fun a e => if Z.eqb (fst (fst e)) v then a + Z.of_nat (length (snd e)) else a) (entries idx) 0.
