(* IIndex/HistoryCommon.v - C15 over histories: whenever the last step of a history is one in which the
   library chooses the common value ([lib_chosen]: shift_common(), append, filtered, collapsed), the stored
   common value of the resulting state is a most frequent value of its dense content. *)
From Coq Require Import ZArith List Bool Lia.
From Catii Require Import Base.Sorted IIndex.Model IIndex.ModelFacts IIndex.Res IIndex.OpsB IIndex.OpsA IIndex.Step
  IIndex.Count IIndex.CommonMax IIndex.OpsBProofs_collapsed IIndex.HistorySpec IIndex.History.
Import ListNotations.
Open Scope Z_scope.

Theorem step_common_max idx o idx' : WF idx -> args_ok idx o -> lib_chosen o = true -> step idx o = Ok idx' ->
  forall v, dense_count idx' v <= dense_count idx' (common idx').
Proof.
  intros W OK L E. destruct o; cbn [lib_chosen] in L; try discriminate; cbn [step args_ok] in *.
  - inversion E; subst. apply shift_auto_common_max. exact W.
  - destruct OK as [Wo AO]. destruct (_ && _); [|discriminate]. inversion E; subst. apply append_common_max; assumption.
  - destruct (_ =? _); [|discriminate]. inversion E; subst. apply filtered_common_max; assumption.
  - eapply collapsed_common_max; eassumption.
Qed.

Theorem history_common_max ops o s0 s : WF s0 -> hist_ok s0 (ops ++ [o]) -> lib_chosen o = true ->
  run s0 (ops ++ [o]) = Ok s -> forall v, dense_count s v <= dense_count s (common s).
Proof.
  revert s0. induction ops as [|o1 ops IH]; intros s0 W H L E.
  - cbn [app run] in E. cbn [app hist_ok] in H. destruct H as [OK _].
    destruct (step s0 o) as [s1|] eqn:E1; [|discriminate]. inversion E; subst. eapply step_common_max; eassumption.
  - cbn [app run] in E. cbn [app hist_ok] in H. destruct H as [OK Hrest].
    destruct (step s0 o1) as [s1|] eqn:E1; [|discriminate].
    apply (IH s1); [eapply step_wf; eassumption|apply Hrest; reflexivity|exact L|exact E].
Qed.
