(* IIndex/OpsAProofs_FilteredAuto.v - filtered = shift_common_auto o filtered_raw (iindexes.py:652-677):
   the theorems of OpsAProofs_Filtered.v (renumbering) composed with those of ShiftCommon.v
   (the closing normalisation changes neither shape, nor dense content, nor well-formedness). *)
From Coq Require Import ZArith List Bool Lia.
From Catii Require Import Base.Sorted IIndex.Model IIndex.ModelFacts IIndex.OpsA IIndex.ShiftCommon IIndex.Step
  IIndex.OpsAProofs_Filtered.
Import ListNotations.
Open Scope Z_scope.

Definition filtered_ok (idx : iindex) (mask : list bool) : Prop := Z.of_nat (length mask) = nrows idx.

Theorem filtered_wf idx mask : WF idx -> filtered_ok idx mask -> WF (filtered idx mask).
Proof. intros W H. unfold filtered. apply shift_common_auto_wf, filtered_raw_wf; assumption. Qed.

Theorem filtered_shape idx mask : filtered_ok idx mask ->
  nrows (filtered idx mask) = lenZ (kept_rows mask) /\ hshape (filtered idx mask) = hshape idx.
Proof.
  intros H. unfold filtered. destruct (shift_common_auto_shape (filtered_raw idx mask)) as [-> ->].
  apply filtered_raw_shape. exact H.
Qed.

Theorem filtered_dense idx mask r hc : WF idx -> filtered_ok idx mask ->
  0 <= r < lenZ (kept_rows mask) -> in_hshape hc (hshape idx) ->
  dense (filtered idx mask) r hc = dense idx (nth (Z.to_nat r) (kept_rows mask) 0) hc.
Proof.
  intros W H Hr Hh. destruct (filtered_raw_shape idx mask H) as [N S].
  unfold filtered. rewrite shift_common_auto_dense.
  - apply filtered_raw_dense; assumption.
  - apply filtered_raw_wf; assumption.
  - split; [rewrite N; exact Hr|rewrite S; exact Hh].
Qed.

Theorem filtered_common idx mask : common (filtered idx mask) = auto_common (filtered_raw idx mask).
Proof. unfold filtered. apply shift_common_auto_common. Qed.

(* C06 for filtered: the result stands for a[mask] *)
Theorem filtered_refines idx mask d : WF idx -> filtered_ok idx mask -> refines idx d ->
  refines (filtered idx mask) (spec_filtered d mask).
Proof.
  intros W H [Nd [Sd Dd]]. destruct (filtered_shape idx mask H) as [N S].
  unfold refines, spec_filtered, d_in_range. cbn [dn dhs df].
  split; [exact N|]. split; [rewrite S; exact Sd|]. intros r hc [Hr Hh]. rewrite <- Sd in Hh.
  rewrite filtered_dense by assumption. apply Dd. split; [|rewrite <- Sd; exact Hh].
  rewrite <- Nd, <- H.
  assert (Hin : In (nth (Z.to_nat r) (kept_rows mask) 0) (kept_rows mask)).
  { apply nth_In. unfold lenZ in Hr. lia. }
  apply in_kept_rows in Hin. lia.
Qed.
