(* IIndex/EqProofs.v - C15: equality of well-formed indexes is canonical.
   eq_model mirrors iindex.__eq__ (shape, common, entry count, per-entry symmetric difference
   against other.get(coords, [])); ne_model mirrors __ne__ (`not self == other`). *)
From Coq Require Import ZArith List Bool Lia Permutation.
From Catii Require Import Base.Sorted IIndex.Model IIndex.ModelFacts IIndex.Res IIndex.OpsA IIndex.OpsB IIndex.OpsBFacts.
Import ListNotations.
Open Scope Z_scope.

Definition same_rows (x y : list Z) : Prop := forall r, In r x <-> In r y.

Lemma filter_nil_iff {A : Type} (p : A -> bool) l : filter p l = [] <-> forall x, In x l -> p x = false.
Proof.
  induction l as [|a l IH]; cbn [filter]; [split; [intros _ x []|reflexivity]|].
  destruct (p a) eqn:E.
  - split; [discriminate|]. intros H. specialize (H a (or_introl eq_refl)). congruence.
  - rewrite IH. split.
    + intros H x [<-|Hx]; [exact E|apply H; exact Hx].
    + intros H x Hx. apply H. right. exact Hx.
Qed.

Lemma setxor_nil x y : is_nil (setxor x y) = true <-> same_rows x y.
Proof.
  unfold setxor, same_rows. split.
  - intros H. destruct (filter (fun r => negb (memZ r y)) x ++ filter (fun r => negb (memZ r x)) y) eqn:E; [|discriminate].
    apply app_eq_nil in E. destruct E as [E1 E2].
    rewrite filter_nil_iff in E1, E2. intros r. split; intros Hr.
    + specialize (E1 r Hr). apply negb_false_iff in E1. apply memZ_In. exact E1.
    + specialize (E2 r Hr). apply negb_false_iff in E2. apply memZ_In. exact E2.
  - intros H.
    assert (E1 : filter (fun r => negb (memZ r y)) x = []).
    { apply filter_nil_iff. intros r Hr. apply negb_false_iff, memZ_In, H. exact Hr. }
    assert (E2 : filter (fun r => negb (memZ r x)) y = []).
    { apply filter_nil_iff. intros r Hr. apply negb_false_iff, memZ_In, H. exact Hr. }
    rewrite E1, E2. reflexivity.
Qed.

Definition got (k : key) (es : list entry) : list Z :=
  match assoc_get k es with Some rows => rows | None => [] end.

Definition listed_equiv (a b : iindex) : Prop := forall r hc v, listed a r hc v <-> listed b r hc v.

Lemma keys_length (es : list entry) : length (keys es) = length es.
Proof. unfold keys. apply map_length. Qed.

(* the entry-wise part of __eq__ *)
Definition entries_agree (a b : iindex) : Prop :=
  length (entries a) = length (entries b) /\
  forall k rows, In (k, rows) (entries a) -> same_rows rows (got k (entries b)).

Lemma eq_model_unfold a b : eq_model a b = true <->
  nrows a = nrows b /\ hshape a = hshape b /\ common a = common b /\ entries_agree a b.
Proof.
  unfold eq_model, entries_agree. rewrite !andb_true_iff, !Z.eqb_eq, zl_eqb_eq, Nat.eqb_eq, forallb_forall.
  split.
  - intros ((((A & B) & C) & D) & E). repeat split; try assumption.
    + intros Hr. specialize (E (k, rows) H). cbn [fst snd] in E. apply setxor_nil in E. apply E. exact Hr.
    + intros Hr. specialize (E (k, rows) H). cbn [fst snd] in E. apply setxor_nil in E. apply E. exact Hr.
  - intros (A & B & C & D & E). repeat split; try assumption.
    intros [k rows] Hin. cbn [fst snd]. apply setxor_nil. apply E. exact Hin.
Qed.

Lemma got_In k rows es : NoDup (keys es) -> In (k, rows) es -> got k es = rows.
Proof. intros ND Hin. unfold got. rewrite (In_assoc_get k rows es ND Hin). reflexivity. Qed.

Lemma got_nonempty_In k es : got k es <> [] -> In (k, got k es) es.
Proof.
  unfold got. destruct (assoc_get k es) as [rows|] eqn:E; [|congruence]. intros _. apply assoc_get_In. exact E.
Qed.

Lemma entries_agree_incl a b : WF a -> entries_agree a b -> incl (keys (entries a)) (keys (entries b)).
Proof.
  intros Wa [_ H] k Hk. unfold keys in Hk. apply in_map_iff in Hk. destruct Hk as [[k0 rows] [<- Hin]]. cbn [fst].
  pose proof (wf_nonempty a Wa _ _ Hin) as Hne. specialize (H _ _ Hin).
  assert (got k0 (entries b) <> []).
  { destruct rows as [|r rows]; [congruence|]. intros C. rewrite C in H. apply (H r). left. reflexivity. }
  eapply In_key. apply got_nonempty_In. exact H0.
Qed.

Lemma entries_agree_listed a b : WF a -> WF b -> entries_agree a b -> listed_equiv a b.
Proof.
  intros Wa Wb Ag. pose proof (entries_agree_incl a b Wa Ag) as Inc.
  assert (Inc' : incl (keys (entries b)) (keys (entries a))).
  { apply NoDup_length_incl; [apply (wf_keys a Wa)| |exact Inc]. rewrite !keys_length. destruct Ag as [L _]. lia. }
  destruct Ag as [_ Ag]. intros r hc v. split.
  - intros [rows [Hin Hr]]. specialize (Ag _ _ Hin). apply Ag in Hr.
    exists (got (v, hc) (entries b)). split; [|exact Hr]. apply got_nonempty_In. intros C. rewrite C in Hr. exact Hr.
  - intros [rows' [Hin Hr]]. assert (Hk : In (v, hc) (keys (entries a))) by (apply Inc'; eapply In_key; exact Hin).
    unfold keys in Hk. apply in_map_iff in Hk. destruct Hk as [[k0 rows] [E Hin']]. cbn [fst] in E. subst k0.
    exists rows. split; [exact Hin'|]. apply (Ag _ _ Hin'). rewrite (got_In _ _ _ (wf_keys b Wb) Hin). exact Hr.
Qed.

Lemma listed_equiv_sym a b : listed_equiv a b -> listed_equiv b a.
Proof. intros H r hc v. symmetry. apply H. Qed.

Lemma listed_equiv_entry a b k rows : WF a -> WF b -> listed_equiv a b ->
  In (k, rows) (entries a) -> exists rows', In (k, rows') (entries b) /\ same_rows rows rows'.
Proof.
  intros Wa Wb Eq Hin. destruct k as [v hc].
  pose proof (wf_nonempty a Wa _ _ Hin) as Hne. destruct rows as [|r0 rows0] eqn:Er; [congruence|]. rewrite <- Er in *.
  assert (L0 : listed a r0 hc v) by (exists rows; split; [exact Hin|rewrite Er; left; reflexivity]).
  apply Eq in L0. destruct L0 as [rows' [Hin' _]]. exists rows'. split; [exact Hin'|].
  intros r. split; intros Hr.
  - assert (L : listed a r hc v) by (exists rows; auto). apply Eq in L. destruct L as [rows2 [Hin2 Hr2]].
    assert (rows2 = rows').
    { pose proof (In_assoc_get _ _ _ (wf_keys b Wb) Hin2). pose proof (In_assoc_get _ _ _ (wf_keys b Wb) Hin'). congruence. }
    subst. exact Hr2.
  - assert (L : listed b r hc v) by (exists rows'; auto). apply Eq in L. destruct L as [rows2 [Hin2 Hr2]].
    assert (rows2 = rows).
    { pose proof (In_assoc_get _ _ _ (wf_keys a Wa) Hin2). pose proof (In_assoc_get _ _ _ (wf_keys a Wa) Hin). congruence. }
    subst. exact Hr2.
Qed.

Lemma listed_equiv_agree a b : WF a -> WF b -> listed_equiv a b -> entries_agree a b.
Proof.
  intros Wa Wb Eq.
  assert (I1 : incl (keys (entries a)) (keys (entries b))).
  { intros k Hk. unfold keys in Hk. apply in_map_iff in Hk. destruct Hk as [[k0 rows] [<- Hin]]. cbn [fst].
    destruct (listed_equiv_entry a b _ _ Wa Wb Eq Hin) as [rows' [Hin' _]]. eapply In_key; exact Hin'. }
  assert (I2 : incl (keys (entries b)) (keys (entries a))).
  { intros k Hk. unfold keys in Hk. apply in_map_iff in Hk. destruct Hk as [[k0 rows] [<- Hin]]. cbn [fst].
    destruct (listed_equiv_entry b a _ _ Wb Wa (listed_equiv_sym _ _ Eq) Hin) as [rows' [Hin' _]]. eapply In_key; exact Hin'. }
  split.
  - rewrite <- !keys_length. apply Nat.le_antisymm; apply NoDup_incl_length; auto; [apply (wf_keys a Wa)|apply (wf_keys b Wb)].
  - intros k rows Hin. destruct (listed_equiv_entry a b _ _ Wa Wb Eq Hin) as [rows' [Hin' S]].
    rewrite (got_In _ _ _ (wf_keys b Wb) Hin'). exact S.
Qed.

Lemma listed_equiv_dense a b r hc : WF a -> WF b -> common a = common b -> listed_equiv a b ->
  dense a r hc = dense b r hc.
Proof.
  intros Wa Wb C Eq. destruct (listed_or_not a r hc) as [[v L]|N].
  - rewrite (dense_listed_wf a r hc v Wa L). symmetry. apply dense_listed_wf; [exact Wb|]. apply Eq. exact L.
  - rewrite (dense_of_unlisted a r hc N), C. symmetry. apply dense_of_unlisted. intros v L. apply Eq in L. exact (N v L).
Qed.

Definition same_content (a b : iindex) : Prop :=
  nrows a = nrows b /\ hshape a = hshape b /\ common a = common b /\
  forall r hc, in_range a r hc -> dense a r hc = dense b r hc.

Lemma same_content_listed a b : WF a -> WF b -> same_content a b -> listed_equiv a b.
Proof.
  intros Wa Wb (N & S & C & D).
  assert (Half : forall x y, WF x -> WF y -> nrows x = nrows y -> hshape x = hshape y -> common x = common y ->
            (forall r hc, in_range x r hc -> dense x r hc = dense y r hc) ->
            forall r hc v, listed x r hc v -> listed y r hc v).
  { intros x y Wx Wy Nx Sx Cx Dx r hc v L. pose proof (listed_in_range x r hc v Wx L) as R.
    apply (listed_iff_dense x r hc v Wx) in L. destruct L as (Dv & Nv & _). rewrite (Dx r hc R) in Dv.
    destruct (dense_cases y r hc Wy) as [[Ly _]|[Ey _]]; [rewrite Dv in Ly; exact Ly|]. congruence. }
  intros r hc v. split; [apply Half; assumption|].
  apply Half; try assumption; try congruence.
  intros r' hc' R. symmetry. apply D. unfold in_range in *. rewrite N, S. exact R.
Qed.

(* ---- C15 ---- *)
Theorem eq_spec a b : WF a -> WF b -> (eq_model a b = true <-> same_content a b).
Proof.
  intros Wa Wb. rewrite eq_model_unfold. unfold same_content. split.
  - intros (N & S & C & Ag). repeat split; try assumption. intros r hc _.
    apply listed_equiv_dense; try assumption. apply entries_agree_listed; assumption.
  - intros (N & S & C & D). split; [exact N|]. split; [exact S|]. split; [exact C|].
    apply listed_equiv_agree; try assumption. apply same_content_listed; try assumption.
    unfold same_content. auto.
Qed.

Theorem canonical a b : WF a -> WF b -> same_content a b -> Permutation (entries a) (entries b).
Proof.
  intros Wa Wb SC. pose proof (same_content_listed a b Wa Wb SC) as Eq.
  assert (Half : forall x y, WF x -> WF y -> listed_equiv x y -> incl (entries x) (entries y)).
  { intros x y Wx Wy E [k rows] Hin. destruct (listed_equiv_entry x y _ _ Wx Wy E Hin) as [rows' [Hin' S]].
    assert (rows = rows'); [|subst; exact Hin'].
    apply sincr_ext; [eapply (wf_sorted x Wx); exact Hin|eapply (wf_sorted y Wy); exact Hin'|exact S]. }
  apply NoDup_Permutation.
  - eapply NoDup_map_inv. apply (wf_keys a Wa).
  - eapply NoDup_map_inv. apply (wf_keys b Wb).
  - intros e. split; [apply Half; assumption|apply Half; try assumption; apply listed_equiv_sym; exact Eq].
Qed.

(* a == b gives dict-equal entries (same keys, same row lists), not only equal as sets *)
Corollary eq_canonical a b : WF a -> WF b -> eq_model a b = true -> Permutation (entries a) (entries b).
Proof. intros Wa Wb E. apply canonical; try assumption. apply eq_spec; assumption. Qed.

Theorem ne_spec a b : ne_model a b = negb (eq_model a b).
Proof. reflexivity. Qed.

Lemma same_content_refl a : same_content a a.
Proof. unfold same_content. auto. Qed.
Lemma same_content_sym a b : same_content a b -> same_content b a.
Proof.
  intros (N & S & C & D). unfold same_content. repeat split; try congruence.
  intros r hc R. symmetry. apply D. unfold in_range in *. rewrite N, S. exact R.
Qed.
Lemma same_content_trans a b c : same_content a b -> same_content b c -> same_content a c.
Proof.
  intros (N & S & C & D) (N' & S' & C' & D'). unfold same_content. repeat split; try congruence.
  intros r hc R. rewrite (D r hc R). apply D'. unfold in_range in *. rewrite <- N, <- S. exact R.
Qed.

Theorem eq_refl_wf a : WF a -> eq_model a a = true.
Proof. intros W. apply eq_spec; [exact W|exact W|apply same_content_refl]. Qed.

Theorem eq_sym_wf a b : WF a -> WF b -> eq_model a b = eq_model b a.
Proof.
  intros Wa Wb. apply Bool.eq_iff_eq_true. rewrite (eq_spec a b Wa Wb), (eq_spec b a Wb Wa).
  split; apply same_content_sym.
Qed.

Theorem eq_trans_wf a b c : WF a -> WF b -> WF c ->
  eq_model a b = true -> eq_model b c = true -> eq_model a c = true.
Proof.
  intros Wa Wb Wc H1 H2. apply (eq_spec a b Wa Wb) in H1. apply (eq_spec b c Wb Wc) in H2.
  apply (eq_spec a c Wa Wc). eapply same_content_trans; eassumption.
Qed.

(* a difference in shape, common or any cell makes them unequal, and != is the negation *)
Corollary ne_true_iff a b : WF a -> WF b -> (ne_model a b = true <-> ~ same_content a b).
Proof.
  intros Wa Wb. unfold ne_model. rewrite negb_true_iff. rewrite <- (eq_spec a b Wa Wb).
  destruct (eq_model a b); split; congruence.
Qed.
