(* IIndex/OpsBFromArray1.v - from_array on a 1-D array without options (the last step of
   collapsed): total on non-empty input, well-formed, lossless, common = a most frequent value. *)
From Coq Require Import ZArith List Bool Lia.
From Catii Require Import Base.Sorted IIndex.Model IIndex.ModelFacts IIndex.Res IIndex.OpsA IIndex.OpsB IIndex.OpsBFacts.
Import ListNotations.
Open Scope Z_scope.

Lemma count_in_nonneg v l : 0 <= count_in v l.
Proof. induction l as [|x l IH]; cbn [count_in]; [lia|]. destruct (x =? v); lia. Qed.

Lemma count_in_pos v l : In v l <-> 0 < count_in v l.
Proof.
  induction l as [|x l IH]; cbn [count_in In]; [split; [tauto|lia]|].
  pose proof (count_in_nonneg v l). destruct (Z.eqb_spec x v) as [E|N].
  - split; [lia|auto].
  - rewrite IH. split; [intros [C|C]; [contradiction|lia]|intros C; right; lia].
Qed.

(* first strict maximum *)
Lemma fa1_fold_some (cs : list (Z * Z)) : forall b : Z * Z,
  exists b', fold_left (fun (best : option (Z * Z)) (vc : Z * Z) => match best with
                                       | None => Some vc
                                       | Some b => if snd b <? snd vc then Some vc else best
                                       end) cs (Some b) = Some b'
             /\ (b' = b \/ In b' cs) /\ snd b <= snd b' /\ forall x, In x cs -> snd x <= snd b'.
Proof.
  induction cs as [|x cs IH]; intros b; cbn [fold_left].
  - exists b. split; [reflexivity|]. split; [auto|]. split; [lia|intros x []].
  - destruct (Z.ltb_spec (snd b) (snd x)) as [Lt|Ge].
    + destruct (IH x) as (b' & E & Hin & Hle & Hall). exists b'. split; [exact E|]. split.
      * right. destruct Hin as [->|Hin]; [left; reflexivity|right; exact Hin].
      * split; [lia|]. intros y [<-|Hy]; [exact Hle|apply Hall; exact Hy].
    + destruct (IH b) as (b' & E & Hin & Hle & Hall). exists b'. split; [exact E|]. split.
      * destruct Hin as [->|Hin]; [left; reflexivity|right; right; exact Hin].
      * split; [exact Hle|]. intros y [<-|Hy]; [lia|apply Hall; exact Hy].
Qed.

Lemma fa1_common_spec cs : cs <> [] ->
  exists b, fa1_common cs = Some b /\ In b cs /\ forall x, In x cs -> snd x <= snd b.
Proof.
  intros H. destruct cs as [|x cs]; [congruence|]. unfold fa1_common. cbn [fold_left].
  destruct (fa1_fold_some cs x) as (b' & E & Hin & Hle & Hall). exists b'. split; [exact E|]. split.
  - destruct Hin as [->|Hin]; [left; reflexivity|right; exact Hin].
  - intros y [<-|Hy]; [exact Hle|apply Hall; exact Hy].
Qed.

Lemma in_fa1_counts vals v n : In (v, n) (fa1_counts vals) <-> In v vals /\ n = count_in v vals.
Proof.
  unfold fa1_counts. rewrite in_map_iff. split.
  - intros [v0 [E Hin]]. inversion E; subst. rewrite in_sort_uniq in Hin. auto.
  - intros [Hin ->]. exists v. split; [reflexivity|apply (proj2 (in_sort_uniq v vals)); exact Hin].
Qed.

(* numpy.where(values == v)[0] *)
Lemma in_positions_from v l : forall i r, In r (positions_from i v l) <->
  i <= r < i + Z.of_nat (length l) /\ nth (Z.to_nat (r - i)) l (v + 1) = v.
Proof.
  induction l as [|x l IH]; intros i r; cbn [positions_from length].
  - split; [intros []|lia].
  - assert (Hstep : In r (positions_from (i + 1) v l) <->
              i + 1 <= r < i + 1 + Z.of_nat (length l) /\ nth (Z.to_nat (r - (i + 1))) l (v + 1) = v) by apply IH.
    assert (Hnth : i + 1 <= r -> nth (Z.to_nat (r - i)) (x :: l) (v + 1) = nth (Z.to_nat (r - (i + 1))) l (v + 1)).
    { intros Hr. replace (Z.to_nat (r - i)) with (S (Z.to_nat (r - (i + 1)))) by lia. reflexivity. }
    destruct (Z.eqb_spec x v) as [E|N]; cbn [In]; rewrite Hstep; split.
    + intros [<-|[R Hn]]; [split; [lia|]; rewrite Z.sub_diag; cbn; exact E|]. split; [lia|]. rewrite Hnth by lia. exact Hn.
    + intros [R Hn]. destruct (Z.eq_dec r i) as [->|Nr]; [left; reflexivity|right].
      split; [lia|]. rewrite <- Hnth by lia. exact Hn.
    + intros [R Hn]. split; [lia|]. rewrite Hnth by lia. exact Hn.
    + intros [R Hn]. destruct (Z.eq_dec r i) as [->|Nr].
      * rewrite Z.sub_diag in Hn. cbn in Hn. contradiction.
      * split; [lia|]. rewrite <- Hnth by lia. exact Hn.
Qed.

Lemma positions_from_lb v l : forall i r, In r (positions_from i v l) -> i <= r.
Proof. intros i r H. apply in_positions_from in H. lia. Qed.

Lemma positions_from_sincr v l : forall i, sincr (positions_from i v l).
Proof.
  induction l as [|x l IH]; intros i; cbn [positions_from]; [exact I|].
  destruct (x =? v); [|apply IH]. cbn [sincr]. split; [|apply IH].
  destruct (positions_from (i + 1) v l) as [|y t] eqn:E; [exact I|].
  assert (i + 1 <= y) by (apply (positions_from_lb v l); rewrite E; left; reflexivity). lia.
Qed.

Section FA1.
  Variable vals : list Z.
  Hypothesis Hne : vals <> [].
  Hypothesis Hlen : Z.of_nat (length vals) <= 2 ^ 32.

  Lemma fa1_counts_ne : fa1_counts vals <> [].
  Proof.
    destruct vals as [|x l] eqn:E; [congruence|]. intros C.
    assert (In (x, count_in x (x :: l)) (fa1_counts (x :: l))) by (apply in_fa1_counts; split; [left|]; reflexivity).
    rewrite C in H. exact H.
  Qed.

  Lemma from_array_1d_ok : exists c n out,
    fa1_common (fa1_counts vals) = Some (c, n) /\ from_array_1d vals = Ok out /\
    common out = c /\ nrows out = Z.of_nat (length vals) /\ hshape out = [] /\
    In c vals /\ (forall v, count_in v vals <= count_in c vals) /\
    entries out = flat_map (fun vc => if fst vc =? c then []
                                      else [((fst vc, []), positions_from 0 (fst vc) vals)]) (fa1_counts vals).
  Proof.
    destruct (fa1_common_spec _ fa1_counts_ne) as ([c n] & E & Hin & Hmax).
    exists c, n. unfold from_array_1d. rewrite E. eexists. split; [reflexivity|]. split; [reflexivity|].
    cbn [common nrows hshape entries]. apply in_fa1_counts in Hin. destruct Hin as [Hc ->].
    repeat split; try reflexivity; try assumption.
    intros v. destruct (count_in_pos v vals) as [_ B]. pose proof (count_in_nonneg v vals).
    destruct (Z.eq_dec (count_in v vals) 0) as [Z0|NZ]; [pose proof (count_in_nonneg c vals); lia|].
    assert (In v vals) by (apply B; lia).
    specialize (Hmax (v, count_in v vals)). cbn [snd] in Hmax. apply Hmax. apply in_fa1_counts. auto.
  Qed.

  Lemma fa1_entry_In out c k rows :
    entries out = flat_map (fun vc => if fst vc =? c then []
                                      else [((fst vc, []), positions_from 0 (fst vc) vals)]) (fa1_counts vals) ->
    (In (k, rows) (entries out) <->
     exists v, k = (v, []) /\ v <> c /\ In v vals /\ rows = positions_from 0 v vals).
  Proof.
    intros ->. rewrite in_flat_map. split.
    - intros [[v n] [Hin H]]. cbn [fst] in H. destruct (Z.eqb_spec v c) as [E|N]; [contradiction|].
      destruct H as [H|[]]. inversion H; subst. apply in_fa1_counts in Hin. exists v. tauto.
    - intros [v (-> & N & Hin & ->)]. exists (v, count_in v vals). split; [apply in_fa1_counts; auto|].
      cbn [fst]. destruct (Z.eqb_spec v c); [contradiction|left; reflexivity].
  Qed.

  Lemma fa1_listed out c r hc v :
    entries out = flat_map (fun vc => if fst vc =? c then []
                                      else [((fst vc, []), positions_from 0 (fst vc) vals)]) (fa1_counts vals) ->
    (listed out r hc v <-> hc = [] /\ v <> c /\ 0 <= r < Z.of_nat (length vals) /\ nth (Z.to_nat r) vals (v + 1) = v).
  Proof.
    intros He. unfold listed. split.
    - intros [rows [Hin Hr]]. apply (fa1_entry_In out c _ _ He) in Hin. destruct Hin as [v0 (E & N & Hv & ->)].
      inversion E; subst. apply in_positions_from in Hr. rewrite Z.sub_0_r in Hr. split; [reflexivity|]. split; [exact N|]. lia || (split; [lia|tauto]).
    - intros (-> & N & R & Hn). exists (positions_from 0 v vals). split.
      + apply (fa1_entry_In out c _ _ He). exists v. repeat split; try assumption; try reflexivity.
        rewrite <- Hn. apply nth_In. lia.
      + apply in_positions_from. rewrite Z.sub_0_r. split; [lia|exact Hn].
  Qed.

  Theorem from_array_1d_spec : exists out, from_array_1d vals = Ok out /\ WF out /\
    nrows out = Z.of_nat (length vals) /\ hshape out = [] /\
    (forall r d, 0 <= r < Z.of_nat (length vals) -> dense out r [] = nth (Z.to_nat r) vals d) /\
    In (common out) vals /\ (forall v, count_in v vals <= count_in (common out) vals).
  Proof.
    destruct from_array_1d_ok as (c & n & out & Ec & Eo & Hc & Hn & Hs & Hin & Hmax & He).
    exists out. split; [exact Eo|].
    assert (Wout : WF out).
    { constructor.
      - rewrite Hn. lia.
      - rewrite Hs. constructor.
      - rewrite He. unfold keys. clear He.
        assert (ND : NoDup (map fst (fa1_counts vals))).
        { unfold fa1_counts. rewrite map_map. cbn [fst]. rewrite map_id. apply sincr_nodup. apply sort_uniq_sincr. }
        revert ND. generalize (fa1_counts vals) as cs. induction cs as [|[v m] cs IH]; intros ND; cbn [flat_map]; [constructor|].
        cbn [map fst] in ND. apply NoDup_cons_iff in ND. destruct ND as [Hv ND']. cbn [fst]. destruct (v =? c); cbn [app map fst]; [apply IH; exact ND'|].
        constructor; [|apply IH; exact ND']. intros C. apply in_map_iff in C. destruct C as [[k rows] [Ek Hk]]. cbn [fst] in Ek. subst k.
        apply in_flat_map in Hk. destruct Hk as [[v2 m2] [H2 Hk]]. cbn [fst] in Hk. destruct (v2 =? c); [contradiction|].
        destruct Hk as [Hk|[]]. inversion Hk as [[Ev Er]]. apply Hv. apply in_map_iff. exists (v2, m2). split; [cbn [fst]; congruence|exact H2].
      - intros k rows H. apply (fa1_entry_In out c _ _ He) in H. destruct H as [v (-> & _)]. rewrite Hs. constructor.
      - intros k rows H. apply (fa1_entry_In out c _ _ He) in H. destruct H as [v (_ & _ & _ & ->)]. apply positions_from_sincr.
      - intros k rows r H Hr. apply (fa1_entry_In out c _ _ He) in H. destruct H as [v (_ & _ & _ & ->)].
        apply in_positions_from in Hr. rewrite Hn. lia.
      - intros k rows H. apply (fa1_entry_In out c _ _ He) in H. destruct H as [v (_ & _ & Hv & ->)].
        apply In_nth with (d := v + 1) in Hv. destruct Hv as [i [Hi Hnth]]. intros C.
        assert (In (Z.of_nat i) (positions_from 0 v vals)).
        { apply in_positions_from. rewrite Z.sub_0_r, Nat2Z.id. split; [lia|exact Hnth]. }
        rewrite C in H. exact H.
      - intros k rows H. apply (fa1_entry_In out c _ _ He) in H. destruct H as [v (-> & N & _)]. cbn [fst]. rewrite Hc. exact N.
      - intros r hc v v' L1 L2. apply (fa1_listed out c _ _ _ He) in L1, L2.
        destruct L1 as (_ & _ & R & H1), L2 as (_ & _ & _ & H2).
        rewrite (nth_indep vals (v + 1) 0) in H1 by lia. rewrite (nth_indep vals (v' + 1) 0) in H2 by lia. congruence. }
    split; [exact Wout|]. split; [exact Hn|]. split; [exact Hs|]. split; [|rewrite Hc; auto].
    intros r d R. set (x := nth (Z.to_nat r) vals d).
    destruct (Z.eq_dec x c) as [E|N].
    - rewrite dense_of_unlisted; [rewrite Hc; symmetry; exact E|].
      intros v L. apply (fa1_listed out c _ _ _ He) in L. destruct L as (_ & Nv & _ & Hv).
      rewrite (nth_indep vals (v + 1) d) in Hv by lia. unfold x in E. congruence.
    - apply dense_listed_wf; [exact Wout|]. apply (fa1_listed out c _ _ _ He). split; [reflexivity|]. split; [exact N|].
      split; [exact R|]. unfold x. apply nth_indep. lia.
  Qed.
End FA1.
