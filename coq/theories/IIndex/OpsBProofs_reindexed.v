(* IIndex/OpsBProofs_reindexed.v - reindexed: element-wise value mapping (explicit mapping incl.
   many-to-one and onto the common value; default mapping = rank among the listed values),
   shape, well-formedness. *)
From Coq Require Import ZArith List Bool Lia.
From Catii Require Import Base.Sorted IIndex.Model IIndex.ModelFacts IIndex.Res IIndex.OpsA IIndex.ShiftCommon
  IIndex.OpsB IIndex.OpsBFacts IIndex.OpsBGather.
Import ListNotations.
Open Scope Z_scope.

Definition rx_kf (f : Z -> Z) (nc : Z) (e : entry) : option key :=
  if f (fst (fst e)) =? nc then None else Some (f (fst (fst e)), snd (fst e)).

Lemma reindex_fold_fst f nc es : forall st,
  fst (fold_left (reindex_step f nc) es st) = fold_left (gstep key_eqb (rx_kf f nc)) es (fst st).
Proof.
  induction es as [|e es IH]; intros st; [reflexivity|].
  cbn [fold_left]. rewrite IH. f_equal. unfold reindex_step, gstep, rx_kf.
  destruct (f (fst (fst e)) =? nc); reflexivity.
Qed.

Definition rx_idx (idx : iindex) (f : Z -> Z) : iindex := fst (reindex_core idx f).

Lemma rx_entries idx f : entries (rx_idx idx f) =
  map (fun kl => (fst kl, merge_rows (snd kl))) (gather_by key_eqb (rx_kf f (f (common idx))) (entries idx)).
Proof. unfold rx_idx, reindex_core. cbn [fst entries]. rewrite reindex_fold_fst. reflexivity. Qed.

Lemma rx_fields idx f : common (rx_idx idx f) = f (common idx) /\ nrows (rx_idx idx f) = nrows idx
  /\ hshape (rx_idx idx f) = hshape idx.
Proof. unfold rx_idx, reindex_core. cbn. auto. Qed.

Lemma rx_In idx f k rows : In (k, rows) (entries (rx_idx idx f)) <->
  exists ls, In (k, ls) (gather_by key_eqb (rx_kf f (f (common idx))) (entries idx)) /\ rows = merge_rows ls.
Proof.
  rewrite rx_entries, in_map_iff. split.
  - intros [[k0 ls] [E Hin]]. cbn [fst snd] in E. inversion E; subst. eauto.
  - intros [ls [Hin ->]]. exists (k, ls). auto.
Qed.

Lemma rx_kmatch f nc w hc e : kmatch key_eqb (rx_kf f nc) (w, hc) e = true <->
  f (fst (fst e)) = w /\ snd (fst e) = hc /\ w <> nc.
Proof.
  unfold kmatch, rx_kf. destruct (Z.eqb_spec (f (fst (fst e))) nc) as [E|N].
  - split; [discriminate|]. intros (A & _ & C). congruence.
  - rewrite key_eqb_eq. split.
    + intros E. inversion E; subst. auto.
    + intros (A & B & _). subst. reflexivity.
Qed.

Section RX.
  Variable idx : iindex.
  Variable f : Z -> Z.
  Hypothesis W : WF idx.
  Let nc := f (common idx).
  Let es := entries idx.

  (* row lists gathered under a new key *)
  Lemma rx_ls_spec w hc l :
    In l (map snd (filter (kmatch key_eqb (rx_kf f nc) (w, hc)) es)) <->
    w <> nc /\ exists v, f v = w /\ In ((v, hc), l) es.
  Proof.
    rewrite in_map_iff. split.
    - intros [[[v h] l0] [E Hin]]. cbn [snd] in E. subst l0. apply filter_In in Hin. destruct Hin as [Hin M].
      apply rx_kmatch in M. cbn [fst snd] in M. destruct M as (A & B & C). subst. split; [exact C|]. eauto.
    - intros [C [v [A Hin]]]. exists ((v, hc), l). split; [reflexivity|]. apply filter_In. split; [exact Hin|].
      apply rx_kmatch. cbn [fst snd]. auto.
  Qed.

  Lemma rx_listed r hc w :
    listed (rx_idx idx f) r hc w <-> w <> nc /\ exists v, f v = w /\ listed idx r hc v.
  Proof.
    unfold listed at 1. split.
    - intros [rows [Hin Hr]]. apply rx_In in Hin. destruct Hin as [ls [Hin ->]].
      apply (gather_In key_eqb key_eqb_eq) in Hin. destruct Hin as [E _].
      apply in_merge_rows in Hr. apply in_concat in Hr. destruct Hr as [l [Hl Hr]].
      rewrite E in Hl. apply rx_ls_spec in Hl. destruct Hl as [C [v [A Hin]]].
      split; [exact C|]. exists v. split; [exact A|]. exists l. auto.
    - intros [C [v [A [l [Hin Hr]]]]].
      assert (Kf : rx_kf f nc ((v, hc), l) = Some (w, hc)).
      { unfold rx_kf. cbn [fst snd]. rewrite A. destruct (Z.eqb_spec w nc); [contradiction|reflexivity]. }
      pose proof (gather_In_conv key_eqb key_eqb_eq (rx_kf f nc) es _ _ Hin Kf) as G.
      exists (merge_rows (map snd (filter (kmatch key_eqb (rx_kf f nc) (w, hc)) es))). split.
      + apply rx_In. eexists. split; [exact G|reflexivity].
      + apply in_merge_rows. apply in_concat. exists l. split; [|exact Hr]. apply rx_ls_spec. split; [exact C|]. eauto.
  Qed.

  Lemma rx_wf : WF (rx_idx idx f).
  Proof.
    destruct (rx_fields idx f) as (Fc & Fn & Fh).
    assert (Ent : forall k rows, In (k, rows) (entries (rx_idx idx f)) ->
              fst k <> nc /\ rows = merge_rows (map snd (filter (kmatch key_eqb (rx_kf f nc) k) es)) /\
              (forall l, In l (map snd (filter (kmatch key_eqb (rx_kf f nc) k) es)) -> exists v, In ((v, snd k), l) es) /\
              (exists l, In l (map snd (filter (kmatch key_eqb (rx_kf f nc) k) es)))).
    { intros k rows Hin. apply rx_In in Hin. destruct Hin as [ls [Hin ->]].
      apply (gather_In key_eqb key_eqb_eq) in Hin. destruct Hin as [E Hne]. destruct k as [w hc]. cbn [fst snd].
      assert (Hall : forall l, In l ls -> w <> nc /\ exists v, In ((v, hc), l) es).
      { intros l Hl. rewrite E in Hl. apply rx_ls_spec in Hl. destruct Hl as [C [v [_ Hin]]]. eauto. }
      assert (Hex : exists l0, In l0 ls) by (destruct ls as [|l0 ?]; [congruence|exists l0; left; reflexivity]).
      destruct Hex as [l0 H0].
      split; [apply (Hall l0 H0)|]. split; [f_equal; exact E|]. change (map snd (filter (kmatch key_eqb (rx_kf f nc) (w, hc)) es)) with (map snd (filter (kmatch key_eqb (rx_kf f (f (common idx))) (w, hc)) (entries idx))). rewrite <- E. split; [intros l Hl; apply (Hall l Hl)|eauto]. }
    constructor.
    - rewrite Fn. apply (wf_nrows idx W).
    - rewrite Fh. apply (wf_hshape idx W).
    - rewrite rx_entries. unfold keys. rewrite map_map. cbn [fst].
      apply (gather_nodup key_eqb key_eqb_eq).
    - intros k rows Hin. destruct (Ent _ _ Hin) as (_ & _ & A & [l Hl]). destruct (A l Hl) as [v Hv].
      rewrite Fh. apply (wf_hc idx W) in Hv. exact Hv.
    - intros k rows Hin. destruct (Ent _ _ Hin) as (_ & -> & A & _). apply merge_rows_sincr.
      intros l Hl. destruct (A l Hl) as [v Hv]. eapply (wf_sorted idx W); exact Hv.
    - intros k rows r Hin Hr. destruct (Ent _ _ Hin) as (_ & -> & A & _). apply in_merge_rows in Hr.
      apply in_concat in Hr. destruct Hr as [l [Hl Hr]]. destruct (A l Hl) as [v Hv]. rewrite Fn.
      eapply (wf_rows idx W); eassumption.
    - intros k rows Hin. destruct (Ent _ _ Hin) as (_ & -> & A & [l Hl]). destruct (A l Hl) as [v Hv].
      pose proof (wf_nonempty idx W _ _ Hv) as Hne. destruct l as [|r l]; [congruence|].
      intros C. assert (In r (merge_rows (map snd (filter (kmatch key_eqb (rx_kf f nc) k) es)))).
      { apply in_merge_rows. apply in_concat. exists (r :: l). split; [exact Hl|left; reflexivity]. }
      rewrite C in H. exact H.
    - intros k rows Hin. destruct (Ent _ _ Hin) as (A & _). rewrite Fc. exact A.
    - intros r hc w w' L1 L2. apply rx_listed in L1, L2.
      destruct L1 as [_ [v [A L1]]], L2 as [_ [v' [A' L2]]].
      assert (v = v') by (eapply (wf_excl idx W); eassumption). congruence.
  Qed.

  Lemma rx_dense r hc : dense (rx_idx idx f) r hc = f (dense idx r hc).
  Proof.
    destruct (rx_fields idx f) as (Fc & _ & _).
    destruct (listed_or_not idx r hc) as [[v L]|N].
    - rewrite (dense_listed_wf idx r hc v W L). destruct (Z.eq_dec (f v) nc) as [E|NE].
      + rewrite dense_of_unlisted; [rewrite Fc; symmetry; exact E|].
        intros w Lw. apply rx_listed in Lw. destruct Lw as [C [v' [A L']]].
        assert (v' = v) by (eapply (wf_excl idx W); eassumption). congruence.
      + apply dense_listed_wf; [apply rx_wf|]. apply rx_listed. split; [exact NE|]. eauto.
    - rewrite (dense_of_unlisted idx r hc N). rewrite dense_of_unlisted; [exact Fc|].
      intros w Lw. apply rx_listed in Lw. destruct Lw as [_ [v [_ L]]]. exact (N v L).
  Qed.
End RX.

(* ------------------------------------------------------------------ the public operation *)
Lemma reindexed_unfold idx m sh :
  reindexed idx m sh =
  if sh && snd (reindex_core idx (reindex_fun idx m))
  then shift_common_auto (rx_idx idx (reindex_fun idx m)) else rx_idx idx (reindex_fun idx m).
Proof. unfold reindexed, rx_idx. destruct (reindex_core idx (reindex_fun idx m)). reflexivity. Qed.

Theorem reindexed_shape idx m sh :
  nrows (reindexed idx m sh) = nrows idx /\ hshape (reindexed idx m sh) = hshape idx.
Proof.
  rewrite reindexed_unfold. destruct (rx_fields idx (reindex_fun idx m)) as (_ & A & B).
  destruct (sh && _); [|auto]. destruct (shift_common_auto_shape (rx_idx idx (reindex_fun idx m))). split; congruence.
Qed.

Theorem reindexed_wf idx m sh : WF idx -> WF (reindexed idx m sh).
Proof.
  intros W. rewrite reindexed_unfold. destruct (sh && _); [apply shift_common_auto_wf|]; apply rx_wf; exact W.
Qed.

(* re-indexing is element-wise value mapping: every cell v becomes mapping.get(v, v) *)
Theorem reindexed_dense idx m sh r hc : WF idx -> in_range idx r hc ->
  dense (reindexed idx m sh) r hc = reindex_fun idx m (dense idx r hc).
Proof.
  intros W R. rewrite reindexed_unfold. destruct (sh && _); [|apply rx_dense; exact W].
  rewrite shift_common_auto_dense; [apply rx_dense; exact W|apply rx_wf; exact W|].
  destruct (rx_fields idx (reindex_fun idx m)) as (_ & A & B). unfold in_range in *. rewrite A, B. exact R.
Qed.

(* without the final normalisation the common value is the image of the old one *)
Theorem reindexed_noshift_common idx m : common (reindexed idx m false) = reindex_fun idx m (common idx).
Proof. rewrite reindexed_unfold. cbn [andb]. apply rx_fields. Qed.

(* ------------------------------------------------------------------ the mapping itself *)
Theorem reindex_fun_explicit idx m v : reindex_fun idx (Some m) v = map_get m v.
Proof. reflexivity. Qed.

Definition listed_values (idx : iindex) : list Z := sort_uniq (map (fun e => fst (fst e)) (entries idx)).

Lemma listed_values_sincr idx : sincr (listed_values idx).
Proof. apply sort_uniq_sincr. Qed.

Lemma in_listed_values idx v : In v (listed_values idx) <-> exists hc rows, In ((v, hc), rows) (entries idx).
Proof.
  unfold listed_values. rewrite in_sort_uniq, in_map_iff. split.
  - intros [[[v0 hc] rows] [E Hin]]. cbn [fst] in E. subst. eauto.
  - intros [hc [rows Hin]]. exists ((v, hc), rows). auto.
Qed.

Lemma map_get_combine_rank vals : NoDup vals -> forall s k, (k < length vals)%nat ->
  map_get (combine vals (map Z.of_nat (seq s (length vals)))) (nth k vals 0) = Z.of_nat (s + k).
Proof.
  unfold map_get. induction vals as [|x vals IH]; intros ND s k Hk; cbn [length] in Hk; [lia|].
  inversion ND as [|? ? Hx ND']; subst. cbn [length seq map combine find fst snd].
  destruct k as [|k].
  - cbn [nth]. rewrite Z.eqb_refl. cbn [snd]. f_equal. lia.
  - cbn [nth]. assert (Hin : In (nth k vals 0) vals) by (apply nth_In; lia).
    destruct (Z.eqb_spec x (nth k vals 0)) as [E|N]; [rewrite <- E in Hin; contradiction|].
    rewrite (IH ND' (S s) k) by lia. f_equal. lia.
Qed.

Lemma map_get_combine_other vals (ws : list Z) v : ~ In v vals -> map_get (combine vals ws) v = v.
Proof.
  unfold map_get. revert ws. induction vals as [|x vals IH]; intros ws H; [reflexivity|].
  destruct ws as [|w ws]; [reflexivity|]. cbn [combine find fst].
  destruct (Z.eqb_spec x v) as [E|N]; [exfalso; apply H; left; exact E|].
  apply IH. intros C. apply H. right. exact C.
Qed.

(* default mapping: the k-th smallest listed value goes to k (0-based), everything else -
   in particular the common value of a well-formed index - stays *)
Theorem default_fun_rank idx k : (k < length (listed_values idx))%nat ->
  reindex_fun idx None (nth k (listed_values idx) 0) = Z.of_nat k.
Proof.
  intros Hk. unfold reindex_fun, default_mapping. fold (listed_values idx). unfold zrange.
  rewrite Nat2Z.id. rewrite map_get_combine_rank; [reflexivity| |exact Hk].
  apply sincr_nodup. apply listed_values_sincr.
Qed.

Theorem default_fun_other idx v : ~ In v (listed_values idx) -> reindex_fun idx None v = v.
Proof. intros H. unfold reindex_fun, default_mapping. fold (listed_values idx). apply map_get_combine_other. exact H. Qed.

Theorem default_fun_common idx : WF idx -> reindex_fun idx None (common idx) = common idx.
Proof.
  intros W. apply default_fun_other. intros H. apply in_listed_values in H. destruct H as [hc [rows Hin]].
  apply (wf_nocommon idx W) in Hin. apply Hin. reflexivity.
Qed.
