(* C17 - the effect IR.

   harness/translate_effects.py abstracts every in-scope Python function of catii
   (aggregate __init__/get_initial_regions/fill/reduce, cube __init__/calculate/walk,
   the non-mutating index methods) into a statement of this language.  Only what
   matters for purity is kept: which objects a variable may denote, which objects an
   object may hold references to, which objects are modified in place.

   Definitions only; the semantics is in Sem.v, the analysis in Analysis.v, its
   soundness proof in Sound.v. *)
From Coq Require Import List Bool Arith.
Import ListNotations.

Definition var := nat.      (* IR variable (a Python local, attribute temporary, ...) *)
Definition loc := nat.      (* heap location = one mutable object / one array buffer *)
Definition tag := nat.      (* abstract origin of a location: tag 0 = memory owned by the caller
                               that the property protects, other small tags = other
                               caller-provided worlds (result regions, diagnostics), the rest =
                               allocation sites (one per source position of an allocating expression) *)
Definition field := nat.    (* 0 = "any" (subscript, element, iteration, unknown); > 0 = an attribute name *)

Inductive stmt :=
| SAlias  (x : var) (ys : list var)
    (* x denotes one of the objects the ys denote: `x = y`, numpy.asarray of an array, a basic
       slice / `.T` / reshape / ravel view (same buffer), `a or b`, returning an argument *)
| SLoad   (x : var) (f : field) (ys : list var)
    (* x denotes an object REFERENCED BY one of the ys under field f: attribute read `y.f`,
       tuple unpacking, `y[k]` on a container, the element of an iteration (f = 0) *)
| SFresh  (x : var) (site : tag) (ys : list var)
    (* x denotes a NEW object (allocation site `site`) that holds references (field 0) to the
       objects the ys denote: `.copy()`, `.astype()`, arithmetic, boolean/fancy-index read,
       numpy.zeros/full/sum/..., tuple/list/dict displays, closures *)
| SMutate (x : var)
    (* the object x denotes is modified in place: `x[...] = scalar`, augmented assignment on an
       array, `x.sort()`, `x.fill()`, `del x[k]`, `x.pop()`, `x.reverse()` *)
| SStore  (o : var) (f : field) (x : var)
    (* the object o denotes is modified in place AND now references x under f:
       `o.f = x`, `o[k] = x`, `o.append(x)`, dict.__init__(o, x) *)
| SSeq    (s1 s2 : stmt)
| SIf     (s1 s2 : stmt)      (* either branch *)
| SLoop   (s : stmt)          (* zero or more iterations: for / while / comprehension / recursion *)
| SSkip.

(* A call whose callee is unknown, or known only by a summary "may write to the arguments ms",
   is not a primitive: it is the MOST GENERAL CLIENT of its arguments, written with the
   primitives above.  `t` ranges over everything reachable from the arguments ys, `w` over
   everything reachable from the arguments ms the callee may write to; the callee may, any
   number of times and in any order, follow references, allocate (site `site`), modify any
   object in w in place and store into it a reference to any object in t.  The result x may be
   any object it could reach or create.  Fail-closed default of the translator: ms = ys = every
   argument (including the receiver and the callee object itself). *)
Fixpoint seqs (l : list stmt) : stmt :=
  match l with
  | [] => SSkip
  | [s] => s
  | s :: r => SSeq s (seqs r)
  end.

Definition SCall (x : var) (site : tag) (t w n : var) (ms ys : list var) : stmt :=
  seqs [ SAlias t ys; SAlias w ms;
         SLoop (seqs [ SLoad n 0 [t]; SAlias t [t; n];        (* follow references *)
                       SLoad n 0 [w]; SAlias w [w; n];
                       SFresh n site [t]; SAlias t [t; n]; SAlias w [w; n];   (* allocate *)
                       SMutate w; SStore w 0 t ]);            (* modify / store *)
         SAlias x [t] ].

Fixpoint size (s : stmt) : nat :=
  match s with
  | SSeq a b | SIf a b => S (size a + size b)
  | SLoop a => S (size a)
  | _ => 1
  end.
