(* C17 - the origin (points-to) analysis and the checker `pure`.

   Abstract state: for every variable the set of ORIGINS (tags) of the objects it may point
   to  (`may x <= {Param worlds} u {allocation sites}`), and an abstract heap: for every tag the
   set of (field, tag) references objects of that origin may hold.  Flow-sensitive, joins at
   SIf, post-fixpoint at SLoop (computed by bounded iteration, then CHECKED - so the iteration
   itself needs no proof), and the analysis answers None as soon as an object whose origin is
   protected may be modified in place (SMutate / SStore), or an allocation site is declared
   protected.

   Definitions only (executable; `pure` is evaluated by vm_compute on the generated programs). *)
From Coq Require Import List Bool Arith.
From Catii Require Import Effects.IR Effects.Sem.
Import ListNotations.

(* ---- finite sets as duplicate-free lists ---- *)
Definition mem {A} (eqb : A -> A -> bool) (x : A) (l : list A) : bool := existsb (eqb x) l.
Definition add {A} (eqb : A -> A -> bool) (x : A) (l : list A) : list A := if mem eqb x l then l else x :: l.
Definition union {A} (eqb : A -> A -> bool) (xs ys : list A) : list A := fold_right (add eqb) ys xs.
Definition subset {A} (eqb : A -> A -> bool) (xs ys : list A) : bool := forallb (fun x => mem eqb x ys) xs.

Definition peqb (a b : field * tag) : bool := Nat.eqb (fst a) (fst b) && Nat.eqb (snd a) (snd b).
Definition tunion := union Nat.eqb.
Definition punion := union peqb.

(* ---- maps nat -> A as lists (missing index = default) ---- *)
Fixpoint lset {A} (d : A) (l : list A) (i : nat) (v : A) : list A :=
  match i, l with
  | 0, [] => [v]
  | 0, _ :: t => v :: t
  | S i', [] => d :: lset d [] i' v
  | S i', h :: t => h :: lset d t i' v
  end.

Fixpoint zipw {A} (f : A -> A -> A) (a b : list A) : list A :=
  match a, b with
  | [], _ => b
  | _, [] => a
  | x :: a', y :: b' => f x y :: zipw f a' b'
  end.

Record astate := { av : list (list tag); ah : list (list (field * tag)) }.

Definition getv (a : astate) (x : var) : list tag := nth x (av a) [].
Definition geth (a : astate) (t : tag) : list (field * tag) := nth t (ah a) [].
Definition setv (a : astate) (x : var) (v : list tag) : astate := {| av := lset [] (av a) x v; ah := ah a |}.
Definition seth (a : astate) (t : tag) (v : list (field * tag)) : astate := {| av := av a; ah := lset [] (ah a) t v |}.

Definition dvars (a : astate) (ys : list var) : list tag :=
  fold_right (fun y acc => tunion (getv a y) acc) [] ys.

Definition aload1 (a : astate) (f : field) (t : tag) : list tag :=
  map snd (filter (fun e => fmatch f (fst e)) (geth a t)).
Definition aload (a : astate) (f : field) (ts : list tag) : list tag :=
  fold_right (fun t acc => tunion (aload1 a f t) acc) [] ts.

Definition astore (a : astate) (ts : list tag) (f : field) (vx : list tag) : astate :=
  fold_left (fun a t => seth a t (punion (map (pair f) vx) (geth a t))) ts a.

Definition ajoin (a b : astate) : astate :=
  {| av := zipw tunion (av a) (av b); ah := zipw punion (ah a) (ah b) |}.

(* pointwise inclusion of two maps-as-lists (missing index = empty set); one simultaneous pass, so
   that comparing two abstract states is linear in their size (the generated programs have
   thousands of variables and the comparison runs at every loop iteration) *)
Fixpoint lle {A} (sub : list A -> list A -> bool) (a b : list (list A)) : bool :=
  match a with
  | [] => true
  | x :: a' => match b with
               | [] => sub x [] && lle sub a' []
               | y :: b' => sub x y && lle sub a' b'
               end
  end.

Definition ale (a b : astate) : bool :=
  lle (subset Nat.eqb) (av a) (av b) && lle (subset peqb) (ah a) (ah b).

(* bounded ascending iteration towards a post-fixpoint of F above a *)
Fixpoint iter (n : nat) (F : astate -> option astate) (a : astate) : astate :=
  match n with
  | 0 => a
  | S n' => match F a with
            | Some b => if ale b a then a else iter n' F (ajoin a b)
            | None => a
            end
  end.

Section Analyse.
Variable fuel : nat.             (* iteration bound for loops; exhaustion => None (fail closed) *)
Variable pt : tag -> bool.       (* protected origins *)

Fixpoint analyse (s : stmt) (a : astate) : option astate :=
  match s with
  | SAlias x ys => Some (setv a x (dvars a ys))
  | SLoad x f ys => Some (setv a x (aload a f (dvars a ys)))
  | SFresh x site ys =>
      if pt site then None
      else Some (seth (setv a x [site]) site (punion (map (pair 0) (dvars a ys)) (geth a site)))
  | SMutate x => if existsb pt (getv a x) then None else Some a
  | SStore o f x => if existsb pt (getv a o) then None else Some (astore a (getv a o) f (getv a x))
  | SSeq s1 s2 => match analyse s1 a with Some b => analyse s2 b | None => None end
  | SIf s1 s2 => match analyse s1 a, analyse s2 a with Some b, Some c => Some (ajoin b c) | _, _ => None end
  | SLoop s1 =>
      let a1 := iter fuel (analyse s1) a in
      match analyse s1 a1 with
      | Some b => if ale b a1 && ale a a1 then Some a1 else None
      | None => None
      end
  | SSkip => Some a
  end.
End Analyse.

(* ---- programs and the checker ---- *)
Record program := {
  pname     : nat;            (* index into the name table printed by the translator *)
  body      : stmt;
  entry     : astate;         (* what the parameters may point to at entry, and the abstract heap
                                 of the caller-provided worlds *)
  protected : list tag;       (* origins the property protects (tag 0: every array, index,
                                 tuple, mapping passed in; not the result regions / diagnostics) *)
  rets      : list var;       (* variables holding what the function returns *)
  ret_fresh : bool            (* must the result be free of references to protected memory
                                 (functions documented to return materialised copies)? *)
}.

Definition LOOP_FUEL : nat := 40.
Definition ptf (p : list tag) : tag -> bool := fun t => mem Nat.eqb t p.

(* set of tags closed under the abstract heap, computed by iteration and then CHECKED closed *)
Fixpoint close (n : nat) (a : astate) (ts : list tag) : list tag :=
  match n with
  | 0 => ts
  | S n' => let ts' := tunion (aload a 0 ts) ts in
            if subset Nat.eqb ts' ts then ts else close n' a ts'
  end.
Definition closed (a : astate) (ts : list tag) : bool :=
  forallb (fun t => subset Nat.eqb (aload1 a 0 t) ts) ts.

Definition result_ok (p : program) (a : astate) : bool :=
  negb (ret_fresh p) ||
  (let ts := close LOOP_FUEL a (dvars a (rets p)) in
   closed a ts && subset Nat.eqb (dvars a (rets p)) ts && negb (existsb (ptf (protected p)) ts)).

Definition pure (p : program) : bool :=
  match analyse LOOP_FUEL (ptf (protected p)) (body p) (entry p) with
  | Some a => result_ok p a
  | None => false
  end.
