(* C17 - non-vacuity: the hypotheses of pure_sound are satisfiable on a concrete heap with a non-empty
   protected set, on the hand translation of the weights branch of ffunc_count.__init__
       weights = asarray(weights) ; weights = weights.copy() ; weights[~validity] = 0 ; self.weights = weights
   and the same branch without the copy is rejected by the checker. *)
From Coq Require Import List Bool Arith Lia.
From Catii Require Import Effects.IR Effects.Sem Effects.Analysis Effects.Sound.
Import ListNotations.

(* variables: 0 = weights (parameter, protected), 1 = self (tag 1), 2 = local `weights`, 3 = temporary *)
Definition hand_entry : astate := {| av := [[0]; [1]]; ah := [[(1, 0)]; [(0, 1)]] |}.

Definition hand_body (with_copy : bool) : stmt :=
  seqs [ SFresh 3 3 []; SAlias 2 [0; 3];                              (* numpy.asarray: the argument or a new array *)
         (if with_copy then SFresh 2 4 [] else SSkip);                 (* weights = weights.copy() *)
         SMutate 2;                                                    (* weights[~validity] = 0 *)
         SStore 1 2 2 ].                                               (* self.weights = weights *)

Definition hand_prog (with_copy : bool) : program :=
  {| pname := 0; body := hand_body with_copy; entry := hand_entry; protected := [0]; rets := []; ret_fresh := false |}.

Lemma hand_accepted : pure (hand_prog true) = true.
Proof. vm_compute. reflexivity. Qed.

Lemma hand_rejected_without_copy : pure (hand_prog false) = false.
Proof. vm_compute. reflexivity. Qed.

(* a concrete caller heap: location 0 = the caller's weights array (protected), location 1 = self *)
Definition hand_state : state :=
  {| env := fun x => match x with 0 => [0] | 1 => [1] | _ => [] end;
     heap := fun _ => [];
     ver := fun _ => 0;
     tagof := fun l => match l with 0 => 0 | _ => 1 end;
     next := 2 |}.
Definition hand_P (l : loc) : bool := Nat.eqb l 0.

Lemma hand_covers : covers hand_P (ptf [0]) hand_entry hand_state.
Proof.
  split; [|split].
  - intros x l H. destruct x as [|[|x]]; cbn in H.
    + destruct H as [<-|[]]. split; [left; reflexivity|cbn; lia].
    + destruct H as [<-|[]]. split; [left; reflexivity|cbn; lia].
    + destruct H.
  - intros l f l' H. destruct H.
  - intros l H. unfold hand_P in H. apply Nat.eqb_eq in H. subst l. split; [reflexivity|cbn; lia].
Qed.

(* the hypotheses of pure_sound hold together on a non-trivial input: an accepted program, a covered
   concrete state with a protected location, an execution that really modifies an object (the copy),
   and the conclusion says something about the protected location *)
Lemma hand_nonvacuous :
  exists st', exec (body (hand_prog true)) hand_state st' /\ hand_P 0 = true /\
              ver st' 3 = 1 (* the copy (location 3) was modified *) /\ untouched hand_state st' 0.
Proof.
  eexists. split.
  - unfold hand_prog, hand_body, body, seqs.
    eapply ESeq; [apply EFresh|]. eapply ESeq; [apply EAlias|]. eapply ESeq; [apply EFresh|].
    eapply ESeq; [eapply EMutate with (l := 3); cbn; left; reflexivity|].
    eapply EStore with (l := 1). cbn. left. reflexivity.
  - split; [reflexivity|]. split; [|split; reflexivity]. cbn. reflexivity.
Qed.
