(* C17 - heap semantics of the effect IR.

   Deliberately NOT functional: there is a heap of objects that reference each other, every
   object carries a version counter that every in-place modification bumps, and variables are
   (sets of) pointers, so that "the caller's arrays are untouched" is a statement that can be
   false (and is false for, e.g., `weights[~validity] = 0` without the preceding `.copy()`).

   A variable denotes the set of locations it MAY point to (collecting semantics: the IR has
   forgotten values and branch conditions, so `SIf`/`SLoop`/`SMutate`/`SStore` are
   nondeterministic).  New objects take the next unallocated location.  `tagof` is ghost state
   (the allocation site of each location); it does not influence execution.

   Definitions only. *)
From Coq Require Import List Bool Arith.
From Catii Require Import Effects.IR.
Import ListNotations.

Record state := {
  env   : var -> list loc;               (* what each variable may point to *)
  heap  : loc -> list (field * loc);     (* references held by each object, by field *)
  ver   : loc -> nat;                    (* bumped by every in-place modification *)
  tagof : loc -> tag;                    (* ghost: origin / allocation site *)
  next  : loc                            (* first unallocated location *)
}.

Definition upd {A} (e : nat -> A) (x : nat) (v : A) : nat -> A :=
  fun y => if Nat.eqb y x then v else e y.

Definition fmatch (f g : field) : bool := Nat.eqb f 0 || Nat.eqb g 0 || Nat.eqb f g.

Definition contents (h : loc -> list (field * loc)) (f : field) (l : loc) : list loc :=
  map snd (filter (fun e => fmatch f (fst e)) (h l)).

Definition pts (e : var -> list loc) (ys : list var) : list loc := flat_map e ys.

Inductive exec : stmt -> state -> state -> Prop :=
| EAlias x ys s :
    exec (SAlias x ys) s
      {| env := upd (env s) x (pts (env s) ys); heap := heap s; ver := ver s; tagof := tagof s; next := next s |}
| ELoad x f ys s :
    exec (SLoad x f ys) s
      {| env := upd (env s) x (flat_map (contents (heap s) f) (pts (env s) ys));
         heap := heap s; ver := ver s; tagof := tagof s; next := next s |}
| EFresh x site ys s :
    exec (SFresh x site ys) s
      {| env := upd (env s) x [next s];
         heap := upd (heap s) (next s) (map (pair 0) (pts (env s) ys));
         ver := ver s; tagof := upd (tagof s) (next s) site; next := S (next s) |}
| EMutate x s l :
    In l (env s x) ->
    exec (SMutate x) s
      {| env := env s; heap := heap s; ver := upd (ver s) l (S (ver s l)); tagof := tagof s; next := next s |}
| EStore o f x s l :
    In l (env s o) ->
    exec (SStore o f x) s
      {| env := env s; heap := upd (heap s) l (heap s l ++ map (pair f) (env s x));
         ver := upd (ver s) l (S (ver s l)); tagof := tagof s; next := next s |}
| ESeq s1 s2 a b c : exec s1 a b -> exec s2 b c -> exec (SSeq s1 s2) a c
| EIfL s1 s2 a b : exec s1 a b -> exec (SIf s1 s2) a b
| EIfR s1 s2 a b : exec s2 a b -> exec (SIf s1 s2) a b
| ELoop0 s a : exec (SLoop s) a a
| ELoopS s a b c : exec s a b -> exec (SLoop s) b c -> exec (SLoop s) a c
| ESkip a : exec SSkip a a.

(* l' is reachable from l through references *)
Inductive reach (h : loc -> list (field * loc)) : loc -> loc -> Prop :=
| reach_refl l : reach h l l
| reach_step l f m l' : In (f, m) (h l) -> reach h m l' -> reach h l l'.

(* "location l is untouched": same version (no in-place modification happened) and it
   references the same objects *)
Definition untouched (s s' : state) (l : loc) : Prop :=
  ver s' l = ver s l /\ heap s' l = heap s l.
