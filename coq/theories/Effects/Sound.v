(* C17 - soundness of the origin analysis against the heap semantics. *)
From Coq Require Import List Bool Arith Lia.
From Catii Require Import Effects.IR Effects.Sem Effects.Analysis.
Import ListNotations.

(* ------------------------------------------------------------------ *)
(* finite sets as lists                                                 *)
(* ------------------------------------------------------------------ *)
Section SetLemmas.
Variable A : Type.
Variable eqb : A -> A -> bool.
Hypothesis eqb_ok : forall a b, eqb a b = true <-> a = b.

Lemma mem_In x l : mem eqb x l = true <-> In x l.
Proof.
  unfold mem. rewrite existsb_exists. split.
  - intros [y [Hy E]]. apply eqb_ok in E. now subst.
  - intros H. exists x. split; [assumption|]. now apply eqb_ok.
Qed.

Lemma In_add x y l : In x (add eqb y l) <-> x = y \/ In x l.
Proof.
  unfold add. destruct (mem eqb y l) eqn:M.
  - apply mem_In in M. split; [now right|]. intros [->|H]; assumption.
  - cbn [In]. split; intros [H|H]; auto.
Qed.

Lemma In_union x xs ys : In x (union eqb xs ys) <-> In x xs \/ In x ys.
Proof.
  unfold union. induction xs as [|a xs IH]; cbn [fold_right In].
  - tauto.
  - rewrite In_add, IH. split; [intros [->|[H|H]]|intros [[->|H]|H]]; auto.
Qed.

Lemma subset_In xs ys : subset eqb xs ys = true <-> (forall x, In x xs -> In x ys).
Proof.
  unfold subset. rewrite forallb_forall. split; intros H x Hx.
  - apply mem_In. auto.
  - apply mem_In. auto.
Qed.

Lemma nth_zipw_union : forall (a b : list (list A)) i x,
  In x (nth i (zipw (union eqb) a b) []) <-> In x (nth i a []) \/ In x (nth i b []).
Proof.
  induction a as [|u a IH]; intros [|v b] i x; cbn [zipw].
  - destruct i; cbn; tauto.
  - destruct i; cbn [nth In]; tauto.
  - destruct i; cbn [nth In]; tauto.
  - destruct i; cbn [nth].
    + apply In_union.
    + apply IH.
Qed.
End SetLemmas.

Lemma nateqb_ok : forall a b : nat, Nat.eqb a b = true <-> a = b.
Proof. intros. apply Nat.eqb_eq. Qed.

Lemma peqb_ok : forall a b : field * tag, peqb a b = true <-> a = b.
Proof.
  intros [a1 a2] [b1 b2]. unfold peqb. cbn [fst snd]. rewrite andb_true_iff, !Nat.eqb_eq.
  split; [intros [-> ->]; reflexivity|intros H; inversion H; auto].
Qed.

Lemma In_tunion x xs ys : In x (tunion xs ys) <-> In x xs \/ In x ys.
Proof. apply In_union, nateqb_ok. Qed.
Lemma In_punion x xs ys : In x (punion xs ys) <-> In x xs \/ In x ys.
Proof. apply In_union, peqb_ok. Qed.

(* ------------------------------------------------------------------ *)
(* list maps                                                            *)
(* ------------------------------------------------------------------ *)
Lemma nth_nil A (d : A) j : nth j [] d = d.
Proof. destruct j; reflexivity. Qed.

Lemma nth_lset A (d : A) : forall i l j v,
  nth j (lset d l i v) d = if Nat.eqb j i then v else nth j l d.
Proof.
  induction i as [|i IH]; intros [|h t] [|j] v; cbn [lset nth Nat.eqb]; try reflexivity;
    try (rewrite IH); try (destruct j; reflexivity); try reflexivity.
Qed.

Lemma getv_setv a x v y : getv (setv a x v) y = if Nat.eqb y x then v else getv a y.
Proof. unfold getv, setv. cbn [av]. apply nth_lset. Qed.
Lemma geth_setv a x v t : geth (setv a x v) t = geth a t.
Proof. reflexivity. Qed.
Lemma geth_seth a t0 v t : geth (seth a t0 v) t = if Nat.eqb t t0 then v else geth a t.
Proof. unfold geth, seth. cbn [ah]. apply nth_lset. Qed.
Lemma getv_seth a t0 v y : getv (seth a t0 v) y = getv a y.
Proof. reflexivity. Qed.

Lemma In_dvars a ys t : In t (dvars a ys) <-> exists y, In y ys /\ In t (getv a y).
Proof.
  unfold dvars. induction ys as [|y ys IH]; cbn [fold_right In].
  - split; [tauto|intros [y [[] _]]].
  - rewrite In_tunion, IH. split.
    + intros [H|[z [Hz H]]]; [exists y|exists z]; auto.
    + intros [z [[->|Hz] H]]; [left|right; exists z]; auto.
Qed.

Lemma In_aload1 a f t u : In u (aload1 a f t) <-> exists g, In (g, u) (geth a t) /\ fmatch f g = true.
Proof.
  unfold aload1. rewrite in_map_iff. split.
  - intros [[g u'] [E H]]. cbn [snd] in E. subst u'. apply filter_In in H. cbn [fst] in H. exists g. exact H.
  - intros [g [H M]]. exists (g, u). split; [reflexivity|]. apply filter_In. cbn [fst]. auto.
Qed.

Lemma In_aload a f ts u : In u (aload a f ts) <-> exists t, In t ts /\ In u (aload1 a f t).
Proof.
  unfold aload. induction ts as [|t ts IH]; cbn [fold_right In].
  - split; [tauto|intros [t [[] _]]].
  - rewrite In_tunion, IH. split.
    + intros [H|[z [Hz H]]]; [exists t|exists z]; auto.
    + intros [z [[->|Hz] H]]; [left|right; exists z]; auto.
Qed.

Lemma astore_spec f vx : forall ts a,
  (forall y, getv (astore a ts f vx) y = getv a y) /\
  (forall t e, In e (geth a t) -> In e (geth (astore a ts f vx) t)) /\
  (forall t u, In t ts -> In u vx -> In (f, u) (geth (astore a ts f vx) t)).
Proof.
  unfold astore. induction ts as [|t0 ts IH]; intros a; cbn [fold_left].
  - split; [reflexivity|]. split; [auto|intros t u []].
  - set (a1 := seth a t0 (punion (map (pair f) vx) (geth a t0))).
    destruct (IH a1) as [Hav [Hmono Hnew]]. split; [intros y; rewrite Hav; reflexivity|]. split.
    + intros t e He. apply Hmono. unfold a1. rewrite geth_seth.
      destruct (Nat.eqb_spec t t0); [subst; apply In_punion; now right|assumption].
    + intros t u [->|Ht] Hu.
      * apply Hmono. unfold a1. rewrite geth_seth, Nat.eqb_refl. apply In_punion. left. now apply in_map.
      * now apply Hnew.
Qed.

Lemma ajoin_v a b x t : In t (getv (ajoin a b) x) <-> In t (getv a x) \/ In t (getv b x).
Proof. unfold getv, ajoin. cbn [av]. apply nth_zipw_union, nateqb_ok. Qed.
Lemma ajoin_h a b t e : In e (geth (ajoin a b) t) <-> In e (geth a t) \/ In e (geth b t).
Proof. unfold geth, ajoin. cbn [ah]. apply nth_zipw_union, peqb_ok. Qed.

Definition ale_prop (a b : astate) : Prop :=
  (forall x t, In t (getv a x) -> In t (getv b x)) /\ (forall t e, In e (geth a t) -> In e (geth b t)).

Lemma lle_nth A (eqb : A -> A -> bool) (eqb_ok : forall a b, eqb a b = true <-> a = b) :
  forall (a b : list (list A)), lle (subset eqb) a b = true ->
  forall i x, In x (nth i a []) -> In x (nth i b []).
Proof.
  induction a as [|u a IH]; intros b H i x Hx.
  - rewrite nth_nil in Hx. destruct Hx.
  - cbn [lle] in H. destruct b as [|v b]; apply andb_true_iff in H; destruct H as [H1 H2].
    + destruct i as [|i]; cbn [nth] in Hx.
      * exfalso. exact (proj1 (subset_In A eqb eqb_ok _ _) H1 x Hx).
      * specialize (IH [] H2 i x Hx). rewrite nth_nil in IH. destruct IH.
    + destruct i as [|i]; cbn [nth] in Hx |- *.
      * exact (proj1 (subset_In A eqb eqb_ok _ _) H1 x Hx).
      * exact (IH b H2 i x Hx).
Qed.

Lemma ale_sound a b : ale a b = true -> ale_prop a b.
Proof.
  unfold ale. rewrite andb_true_iff. intros [Hv Hh]. split.
  - intros x t Ht. unfold getv in *. exact (lle_nth nat Nat.eqb nateqb_ok _ _ Hv x t Ht).
  - intros t e He. unfold geth in *. exact (lle_nth _ peqb peqb_ok _ _ Hh t e He).
Qed.

(* ------------------------------------------------------------------ *)
(* the loop rule of the semantics as an invariant principle             *)
(* ------------------------------------------------------------------ *)
Lemma exec_loop_inv s (I : state -> Prop) :
  (forall a b, I a -> exec s a b -> I b) -> forall a c, exec (SLoop s) a c -> I a -> I c.
Proof.
  intros Hstep a c He. remember (SLoop s) as L eqn:EL. induction He; inversion EL; subst; intros Ha.
  - exact Ha.
  - apply IHHe2; [reflexivity|]. eapply Hstep; eassumption.
Qed.

(* ------------------------------------------------------------------ *)
(* soundness                                                            *)
(* ------------------------------------------------------------------ *)
Section Sound.
Variable P : loc -> bool.      (* the protected locations: everything the caller passed in and the
                                  property says must not change *)
Variable pt : tag -> bool.     (* the origins declared protected in the program *)
Variable fuel : nat.

(* the abstract state describes the concrete one *)
Definition covers (a : astate) (s : state) : Prop :=
  (forall x l, In l (env s x) -> In (tagof s l) (getv a x) /\ l < next s) /\
  (forall l f l', In (f, l') (heap s l) -> In (f, tagof s l') (geth a (tagof s l)) /\ l' < next s) /\
  (forall l, P l = true -> pt (tagof s l) = true /\ l < next s).

Definition unchanged (s s' : state) : Prop := forall l, P l = true -> untouched s s' l.

Lemma unchanged_refl s : unchanged s s.
Proof. intros l _. split; reflexivity. Qed.

Lemma unchanged_trans a b c : unchanged a b -> unchanged b c -> unchanged a c.
Proof.
  intros H1 H2 l Hp. destruct (H1 l Hp) as [V1 E1]. destruct (H2 l Hp) as [V2 E2].
  split; congruence.
Qed.

Lemma covers_mono a b s : ale_prop a b -> covers a s -> covers b s.
Proof.
  intros [Lv Lh] [C1 [C2 C3]]. split; [|split].
  - intros x l Hl. destruct (C1 x l Hl). auto.
  - intros l f l' Hl. destruct (C2 l f l' Hl). auto.
  - exact C3.
Qed.

Lemma pts_cover a s ys l : covers a s -> In l (pts (env s) ys) -> In (tagof s l) (dvars a ys) /\ l < next s.
Proof.
  intros [C1 _] Hl. unfold pts in Hl. apply in_flat_map in Hl. destruct Hl as [y [Hy Hl]].
  destruct (C1 y l Hl) as [T N]. split; [|exact N]. apply In_dvars. eauto.
Qed.

Lemma contents_cover a s f ys l' :
  covers a s -> In l' (flat_map (contents (heap s) f) (pts (env s) ys)) ->
  In (tagof s l') (aload a f (dvars a ys)) /\ l' < next s.
Proof.
  intros C Hl. apply in_flat_map in Hl. destruct Hl as [l [Hl Hc]].
  destruct (pts_cover _ _ _ _ C Hl) as [T _]. destruct C as [_ [C2 _]].
  unfold contents in Hc. apply in_map_iff in Hc. destruct Hc as [[g m] [E Hf]]. cbn [snd] in E. subst m.
  apply filter_In in Hf. cbn [fst] in Hf. destruct Hf as [Hin M].
  destruct (C2 l g l' Hin) as [T2 N2]. split; [|exact N2].
  apply In_aload. exists (tagof s l). split; [exact T|]. apply In_aload1. eauto.
Qed.

Lemma not_protected a s x l :
  covers a s -> existsb pt (getv a x) = false -> In l (env s x) -> P l = true -> False.
Proof.
  intros [C1 [_ C3]] E Hl Hp. destruct (C1 x l Hl) as [T _]. destruct (C3 l Hp) as [Q _].
  assert (X : existsb pt (getv a x) = true) by (apply existsb_exists; eauto). congruence.
Qed.

Lemma sound : forall s a a' st st',
  analyse fuel pt s a = Some a' -> covers a st -> exec s st st' -> covers a' st' /\ unchanged st st'.
Proof.
  induction s as [x ys|x f ys|x site ys|x|o f x|s1 IH1 s2 IH2|s1 IH1 s2 IH2|s1 IH1|];
    intros a a' st st' Ha Hc He; cbn [analyse] in Ha.
  - (* alias *) inversion He; subst; clear He. inversion Ha; subst; clear Ha.
    split; [|intros l0 _; split; reflexivity]. pose proof Hc as [C1 [C2 C3]]. split; [|split]; cbn [env heap tagof next].
    + intros y l Hl. rewrite getv_setv. unfold upd in Hl. destruct (Nat.eqb y x).
      * eapply pts_cover; eassumption.
      * apply C1. exact Hl.
    + exact C2.
    + exact C3.
  - (* load *) inversion He; subst; clear He. inversion Ha; subst; clear Ha.
    split; [|intros l0 _; split; reflexivity]. pose proof Hc as [C1 [C2 C3]]. split; [|split]; cbn [env heap tagof next].
    + intros y l Hl. rewrite getv_setv. unfold upd in Hl. destruct (Nat.eqb y x).
      * eapply contents_cover; eassumption.
      * apply C1. exact Hl.
    + exact C2.
    + exact C3.
  - (* fresh *) inversion He; subst; clear He. destruct (pt site); [discriminate|]. inversion Ha; subst; clear Ha.
    pose proof Hc as [C1 [C2 C3]]. split.
    + split; [|split]; cbn [env heap tagof next].
      * intros y l Hl. rewrite getv_seth, getv_setv. unfold upd in Hl |- *. destruct (Nat.eqb y x).
        -- destruct Hl as [<-|[]]. rewrite Nat.eqb_refl. split; [now left|lia].
        -- destruct (C1 y l Hl) as [T N]. destruct (Nat.eqb_spec l (next st)); [lia|]. split; [exact T|lia].
      * intros l g l' Hl. unfold upd in Hl |- *. destruct (Nat.eqb_spec l (next st)) as [->|Nl].
        -- apply in_map_iff in Hl. destruct Hl as [m [E Hm]]. inversion E; subst g m; clear E.
           destruct (pts_cover _ _ _ _ Hc Hm) as [T N]. destruct (Nat.eqb_spec l' (next st)); [lia|].
           split; [|lia]. rewrite geth_seth, Nat.eqb_refl. apply In_punion. left.
           apply in_map_iff. eauto.
        -- destruct (C2 l g l' Hl) as [T N]. destruct (Nat.eqb_spec l' (next st)); [lia|]. split; [|lia].
           rewrite geth_seth, geth_setv. destruct (Nat.eqb_spec (tagof st l) site) as [E|E].
           ++ apply In_punion. right. rewrite <- E. exact T.
           ++ exact T.
      * intros l Hp. destruct (C3 l Hp) as [Q N]. unfold upd. destruct (Nat.eqb_spec l (next st)); [lia|]. split; [exact Q|lia].
    + intros l Hp. destruct (C3 l Hp) as [_ N]. split; cbn [ver heap]; [reflexivity|].
      unfold upd. destruct (Nat.eqb_spec l (next st)); [lia|reflexivity].
  - (* mutate *) inversion He; subst; clear He. destruct (existsb pt (getv a x)) eqn:E; [discriminate|].
    inversion Ha; subst; clear Ha. split; [exact Hc|].
    intros l0 Hp. split; cbn [ver heap]; [|reflexivity]. unfold upd.
    destruct (Nat.eqb_spec l0 l); [subst; exfalso; eapply not_protected; eassumption|reflexivity].
  - (* store *) inversion He; subst; clear He. destruct (existsb pt (getv a o)) eqn:E; [discriminate|].
    inversion Ha; subst; clear Ha. pose proof Hc as [C1 [C2 C3]].
    match goal with H : In l (env st o) |- _ => rename H into Hlo end.
    destruct (astore_spec f (getv a x) (getv a o) a) as [Hav [Hmono Hnew]]. split.
    + split; [|split]; cbn [env heap tagof next].
      * intros y l0 Hl. rewrite Hav. apply C1. exact Hl.
      * intros m g l' Hl. unfold upd in Hl. destruct (Nat.eqb_spec m l) as [->|Nm].
        -- apply in_app_iff in Hl. destruct Hl as [Hl|Hl].
           ++ destruct (C2 l g l' Hl) as [T N]. split; [apply Hmono; exact T|exact N].
           ++ apply in_map_iff in Hl. destruct Hl as [u [Eu Hu]]. inversion Eu; subst g u; clear Eu.
              destruct (C1 x l' Hu) as [T N]. destruct (C1 o l Hlo) as [To _]. split; [|exact N]. now apply Hnew.
        -- destruct (C2 m g l' Hl) as [T N]. split; [apply Hmono; exact T|exact N].
      * exact C3.
    + intros l0 Hp. unfold untouched; cbn [ver heap]. unfold upd.
      destruct (Nat.eqb_spec l0 l); [subst; exfalso; eapply not_protected; eassumption|split; reflexivity].
  - (* seq *) inversion He; subst; clear He. destruct (analyse fuel pt s1 a) as [b0|] eqn:A1; [|discriminate].
    match goal with H : exec s1 st ?m, H' : exec s2 ?m st' |- _ =>
      destruct (IH1 _ _ _ _ A1 Hc H) as [Cb U1]; destruct (IH2 _ _ _ _ Ha Cb H') as [Cc U2] end.
    split; [exact Cc|eapply unchanged_trans; eassumption].
  - (* if *) destruct (analyse fuel pt s1 a) as [b0|] eqn:A1; [|discriminate].
    destruct (analyse fuel pt s2 a) as [c0|] eqn:A2; [|discriminate]. inversion Ha; subst; clear Ha.
    inversion He; subst; clear He.
    + match goal with H : exec s1 st st' |- _ => destruct (IH1 _ _ _ _ A1 Hc H) as [Cb U] end. split; [|exact U].
      eapply covers_mono; [|exact Cb]. split; [intros y t Ht; apply ajoin_v; now left|intros t e Ht; apply ajoin_h; now left].
    + match goal with H : exec s2 st st' |- _ => destruct (IH2 _ _ _ _ A2 Hc H) as [Cb U] end. split; [|exact U].
      eapply covers_mono; [|exact Cb]. split; [intros y t Ht; apply ajoin_v; now right|intros t e Ht; apply ajoin_h; now right].
  - (* loop *) set (a1 := iter fuel (analyse fuel pt s1) a) in *.
    destruct (analyse fuel pt s1 a1) as [b0|] eqn:A1; [|discriminate].
    destruct (ale b0 a1 && ale a a1) eqn:L; [|discriminate]. inversion Ha; subst a'; clear Ha.
    apply andb_true_iff in L. destruct L as [L1 L2]. apply ale_sound in L1. apply ale_sound in L2.
    assert (C0 : covers a1 st) by (exact (covers_mono _ _ _ L2 Hc)).
    apply (exec_loop_inv s1 (fun s' => covers a1 s' /\ unchanged st s')) with (a := st); [|exact He|].
    + intros u v [Cu Uu] Huv. destruct (IH1 _ _ _ _ A1 Cu Huv) as [Cv Uv].
      split; [exact (covers_mono _ _ _ L1 Cv)|eapply unchanged_trans; eassumption].
    + split; [exact C0|apply unchanged_refl].
  - (* skip *) inversion He; subst. inversion Ha; subst. split; [exact Hc|apply unchanged_refl].
Qed.

(* a set of tags closed under the abstract heap contains the origin of everything reachable *)
Lemma reach_closed a s ts :
  covers a s -> closed a ts = true ->
  forall l l', reach (heap s) l l' -> In (tagof s l) ts -> In (tagof s l') ts.
Proof.
  intros [_ [C2 _]] Hcl l l' R. induction R as [l|l f m l' Hin R IH]; [auto|].
  intros Ht. apply IH. unfold closed in Hcl. rewrite forallb_forall in Hcl.
  specialize (Hcl _ Ht). eapply subset_In in Hcl; [exact Hcl|exact nateqb_ok|].
  apply In_aload1. exists f. destruct (C2 l f m Hin) as [T _]. split; [exact T|]. reflexivity.
Qed.
End Sound.

(* ------------------------------------------------------------------ *)
(* the theorems                                                         *)
(* ------------------------------------------------------------------ *)

(* If the analysis accepts the statement from an abstract state that covers the concrete one,
   no execution modifies a protected location: its version counter (bumped by every in-place
   modification: SMutate and SStore - attribute stores, container stores - and therefore also
   by every "call", which is the most general client written with them) and the references it
   holds are what they were.  Loads (SLoad) are covered through `covers`. *)
Theorem analysis_sound P pt fuel s a a' st st' :
  analyse fuel pt s a = Some a' -> covers P pt a st -> exec s st st' ->
  forall l, P l = true -> ver st' l = ver st l /\ heap st' l = heap st l.
Proof. intros Ha Hc He l Hp. destruct (sound P pt fuel s a a' st st' Ha Hc He) as [_ U]. exact (U l Hp). Qed.

(* the final abstract state still covers the final concrete state (used for composition) *)
Theorem analysis_covers P pt fuel s a a' st st' :
  analyse fuel pt s a = Some a' -> covers P pt a st -> exec s st st' -> covers P pt a' st'.
Proof. intros Ha Hc He. destruct (sound P pt fuel s a a' st st' Ha Hc He) as [C _]. exact C. Qed.

Lemma result_ok_inv p a :
  result_ok p a = true -> ret_fresh p = true ->
  exists ts, closed a ts = true /\ subset Nat.eqb (dvars a (rets p)) ts = true /\
             existsb (ptf (protected p)) ts = false.
Proof.
  unfold result_ok. intros H RF. rewrite RF in H.
  generalize dependent (close LOOP_FUEL a (dvars a (rets p))). intros ts H.
  change (negb true) with false in H. rewrite orb_false_l in H.
  apply andb_true_iff in H. destruct H as [H NP]. apply andb_true_iff in H. destruct H as [Hcl Hsub].
  exists ts. split; [exact Hcl|]. split; [exact Hsub|]. apply negb_true_iff. exact NP.
Qed.

(* what `pure p = true` means *)
Theorem pure_sound p P st st' :
  pure p = true -> covers P (ptf (protected p)) (entry p) st -> exec (body p) st st' ->
  (forall l, P l = true -> untouched st st' l) /\
  (ret_fresh p = true ->
   forall x l l', In x (rets p) -> In l (env st' x) -> reach (heap st') l l' -> P l' = false).
Proof.
  unfold pure. intros Hp Hc He.
  destruct (analyse LOOP_FUEL (ptf (protected p)) (body p) (entry p)) as [a'|] eqn:A; [|discriminate].
  destruct (sound P _ _ _ _ _ _ _ A Hc He) as [C U]. split; [exact U|].
  intros RF x l l' Hx Hl R.
  destruct (result_ok_inv p a' Hp RF) as [ts [Hcl [Hsub NP]]].
  assert (T : In (tagof st' l) ts).
  { eapply subset_In in Hsub; [exact Hsub|exact nateqb_ok|]. apply In_dvars. exists x. split; [exact Hx|].
    destruct C as [C1 _]. apply (C1 x l Hl). }
  pose proof (reach_closed P _ a' st' ts C Hcl l l' R T) as T'.
  destruct (P l') eqn:Pl; [|reflexivity]. exfalso.
  destruct C as [_ [_ C3]]. destruct (C3 l' Pl) as [Q _].
  assert (X : existsb (ptf (protected p)) ts = true) by (apply existsb_exists; eauto).
  rewrite X in NP. discriminate NP.
Qed.
