(* C17 - `calculate` computes several aggregates in one pass; model level.

   Model of cube.calculate(funcs): one list of regions per aggregate (get_initial_regions), ONE walk
   over the cells of the cube which hands every cell (coordinates, row ids) to the fill of every
   aggregate in turn (ccube._walk: `for func in funcs: func(coords, rowids)`; xcube: `for func, regions
   in zip(funcs, results): func.fill(coordinates, regions)`), then reduce per aggregate.  The fills are
   interleaved cell by cell; each fill reads the cell and its OWN regions only and writes its own
   regions only - that is what C17_effects establishes for the code (no fill modifies the row ids, the
   cube or the aggregate; get_initial_regions returns new regions) - so the model gives fill the type
   region -> cell -> region.  Under that typing the interleaved pass equals the separate passes, in any
   order of the aggregates, and repeating it gives the same result. *)
From Coq Require Import List.
Import ListNotations.

Section Calc.
Variables (agg cell region result : Type).
Variable init : agg -> region.                       (* get_initial_regions *)
Variable fill : agg -> region -> cell -> region.     (* one call of the fill closure *)
Variable reduce : agg -> region -> result.

(* all aggregates together: for each cell, every aggregate's fill in turn *)
Fixpoint step (fs : list agg) (rs : list region) (c : cell) : list region :=
  match fs, rs with
  | f :: fs', r :: rs' => fill f r c :: step fs' rs' c
  | _, _ => []
  end.

Fixpoint finish (fs : list agg) (rs : list region) : list result :=
  match fs, rs with
  | f :: fs', r :: rs' => reduce f r :: finish fs' rs'
  | _, _ => []
  end.

Definition calculate (fs : list agg) (cells : list cell) : list result :=
  finish fs (fold_left (step fs) cells (map init fs)).

(* one aggregate alone *)
Definition alone (f : agg) (cells : list cell) : result :=
  reduce f (fold_left (fill f) cells (init f)).

Lemma fold_step_cons : forall cells f fs r rs,
  fold_left (step (f :: fs)) cells (r :: rs) = fold_left (fill f) cells r :: fold_left (step fs) cells rs.
Proof.
  induction cells as [|c cells IH]; intros f fs r rs; cbn [fold_left]; [reflexivity|].
  change (step (f :: fs) (r :: rs) c) with (fill f r c :: step fs rs c). apply IH.
Qed.

Lemma calculate_cons f fs cells :
  calculate (f :: fs) cells = alone f cells :: calculate fs cells.
Proof. unfold calculate, alone. cbn [map]. rewrite fold_step_cons. reflexivity. Qed.

Lemma calculate_nil cells : calculate [] cells = [].
Proof. unfold calculate. cbn [map]. destruct (fold_left (step []) cells []); reflexivity. Qed.

(* calculate(list)[i] == calculate([list[i]])[0], for every list and every cube *)
Theorem calculate_pointwise fs cells : calculate fs cells = map (fun f => alone f cells) fs.
Proof. induction fs as [|f fs IH]; [apply calculate_nil|]. rewrite calculate_cons, IH. reflexivity. Qed.

Theorem calculate_single f cells : calculate [f] cells = [alone f cells].
Proof. rewrite calculate_pointwise. reflexivity. Qed.

(* any re-ordering of the aggregates re-orders the results and nothing else *)
Theorem calculate_reorder (idx : list nat) fs d cells :
  calculate (map (fun i => nth i fs d) idx) cells =
  map (fun i => alone (nth i fs d) cells) idx.
Proof. rewrite calculate_pointwise, map_map. reflexivity. Qed.
End Calc.
