(* C17 - the checker accepts every generated program (vm_compute on the generated terms, in the
   eight files gen/Shard<k>.v so that they are evaluated in parallel), and what that means for each
   of them (corollaries of Sound.pure_sound).

   gen/Progs.v is regenerated from the working tree by harness/translate_effects.py on every run:
   when a source change makes a function modify (or possibly modify) caller-owned memory, `pure`
   evaluates to false on its program and the shard lemma - hence `all_progs_pure` - stops compiling. *)
From Coq Require Import List Bool Arith.
From Catii Require Import Effects.IR Effects.Sem Effects.Analysis Effects.Sound Effects.gen.Progs.
From Catii Require Import Effects.gen.Shard0 Effects.gen.Shard1 Effects.gen.Shard2 Effects.gen.Shard3
                          Effects.gen.Shard4 Effects.gen.Shard5 Effects.gen.Shard6 Effects.gen.Shard7.
Import ListNotations.

Lemma all_progs_pure : forallb pure all_progs = true.
Proof.
  unfold all_progs. rewrite !forallb_app.
  rewrite shard0_pure, shard1_pure, shard2_pure, shard3_pure, shard4_pure, shard5_pure, shard6_pure, shard7_pure.
  reflexivity.
Qed.

(* every claimed function, every state the entry description covers, every execution: nothing the
   property protects is modified - version counter and outgoing references of every protected
   location are what they were - and, for the functions declared `ret_fresh`, nothing reachable
   from the result is protected memory *)
Lemma all_progs_sound : forall p, In p all_progs ->
  forall P st st', covers P (ptf (protected p)) (entry p) st -> exec (body p) st st' ->
  (forall l, P l = true -> untouched st st' l) /\
  (ret_fresh p = true ->
   forall x l l', In x (rets p) -> In l (env st' x) -> reach (heap st') l l' -> P l' = false).
Proof.
  intros p Hin P st st' Hc He.
  pose proof all_progs_pure as H. rewrite forallb_forall in H.
  exact (pure_sound p P st st' (H p Hin) Hc He).
Qed.

(* the checker is not vacuous: the control mutants (same translator, same sources, one `.copy()`
   deleted) are rejected, and there is at least one of them *)
Lemma controls_rejected : neg_progs <> [] /\ forallb (fun p => negb (pure p)) neg_progs = true.
Proof. split; [discriminate|vm_compute; reflexivity]. Qed.

(* the claim is not empty either *)
Lemma all_progs_many : 100 <=? length all_progs = true.
Proof. vm_compute. reflexivity. Qed.
