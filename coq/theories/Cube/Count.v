(* Unweighted count cube: ccube.count() = ffunc_count (weights=None), ffuncs.py:189-299, and the
   shape inference of ccube.__init__ (ccubes.py:56-59).  DEFINITIONS ONLY. *)
From Coq Require Import ZArith List Bool.
From Catii Require Import Base.Cases Base.Sorted Cube.Dim Cube.Walk Cube.Diff Cube.Region.
Import ListNotations.
Open Scope Z_scope.

Definition zregion := aregion Z.

(* counts[x_coords] = len(x_rowids) *)
Definition len_rows (rows : list Z) : Z := Z.of_nat (length rows).
Definition fill_count (shape : list Z) (ems : list emission) (R : zregion) : zregion :=
  fill_with Z len_rows shape ems R.

(* get_initial_regions: zeros, counts[corner] = N ; then the walk fills it *)
Definition count_filled (N : Z) (dims : list dim) (shape : list Z) : zregion :=
  fill_count shape (walk dims) (init_region Z 0 shape N).

(* reduce: marginal differencing over every axis ... *)
Definition count_diffed (N : Z) (dims : list dim) (shape : list Z) : zregion :=
  adiff_all Z Z.add Z.sub 0 shape (map dcommon dims) (length dims) (count_filled N dims shape).

(* ... counts[cube.marginless] (cells with 0 <= c_d < e_d), missings = isclose(counts, 0) *)
Definition reduce_count (R : zregion) (cell : list Z) : Z * bool :=
  let v := R cell in (v, Z.eqb v 0).

(* the (value, missing) pair of a cell inside the shape *)
Definition count_cube (N : Z) (dims : list dim) (shape : list Z) (cell : list Z) : Z * bool :=
  reduce_count (count_diffed N dims shape) cell.

(* the three report formats (adjust_zeros + return_missing_as) *)
Definition report_nan (vm : Z * bool) : option Z := if snd vm then None else Some (fst vm).    (* NaN *)
Definition report_pair (null : Z) (vm : Z * bool) : Z * bool :=                                 (* (null, False) *)
  ((if snd vm then null else fst vm), negb (snd vm)).
Definition report_plain (null : Z) (vm : Z * bool) : Z := if snd vm then null else fst vm.       (* e.g. 0 *)

(* interacting_shape = tuple(max([coords[0] for coords in d] + [d.common]) + 1 for d in dims) *)
Definition py_max (l : list Z) : Z :=
  match l with [] => 0 | x :: l' => fold_left Z.max l' x end.
Definition infer_extent_keys (keys : list Z) (common : Z) : Z := py_max (keys ++ [common]) + 1.
Definition infer_extent (d : dim) : Z := infer_extent_keys (dkeys d) (dcommon d).
Definition infer_shape (dims : list dim) : list Z := map infer_extent dims.
