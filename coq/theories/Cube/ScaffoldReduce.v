(* C13 - the reduce step acts block-wise.

   ccube._compute_common_cells_from_marginal_diffs (ccubes.py:211-226) works on the WHOLE stacked region: for
   every interacting axis a it assigns

       region[scaffold + (.., common_a, ..)] = region[scaffold + (.., -1, ..)] - region[scaffold + (.., :-1, ..)].sum(axis = len(scaffold) + a)

   where `scaffold` is one full slice per extra axis.  [gdiff_axis m] is that statement on a region given as a
   function of the GLOBAL coordinates (m extra-axis positions followed by the interacting coordinates): only position
   m + a of the coordinate list is inspected or changed.  The theorem says that the block selected by any fixed
   combination j of extra-axis positions is transformed exactly as a cube of its own would be
   (Region.adiff_axis / adiff_all, the differencing of C02): differencing commutes with taking a block.
   Together with C02_count this turns "each block of the reduced stacked result is the reduced sub-cube" from an
   assumption validated at run time into a theorem about the model; margins cut and zero -> missing are cell-wise
   and commute with taking a block trivially. *)
From Coq Require Import ZArith List Bool Lia.
From Catii Require Import Base.Cases Base.Sorted Cube.Dim Cube.Walk Cube.Diff Cube.Region.
Import ListNotations.
Open Scope Z_scope.

Section StackedDiff.
Variable V : Type.
Variable vadd vsub : V -> V -> V.
Variable vzero : V.

(* the same assignment as Region.adiff_axis, on global coordinates: axis number m + a *)
Definition gdiff_axis (m : nat) (shape coms : list Z) (a : nat) (S : aregion V) : aregion V :=
  let e := nth a shape 0 in
  let cm := norm_coord e (nth a coms 0) in
  fun c => if Z.eqb (nth (m + a) c 0) cm
           then vsub (S (set_nth (m + a) c e))
                     (vsum V vadd vzero (map (fun k => S (set_nth (m + a) c k)) (rowrange e)))
           else S c.

Fixpoint gdiff_all (m : nat) (shape coms : list Z) (k : nat) (S : aregion V) : aregion V :=
  match k with
  | O => S
  | Datatypes.S k' => gdiff_axis m shape coms k' (gdiff_all m shape coms k' S)
  end.

(* region[tuple(j)]: the view selected by the extra-axis positions j *)
Definition block (j : list Z) (S : aregion V) : aregion V := fun c => S (j ++ c).

Lemma nth_app_plus (j c : list Z) (a : nat) : nth (length j + a) (j ++ c) 0 = nth a c 0.
Proof. induction j as [|x j IH]; cbn [length app nth plus]; [reflexivity|exact IH]. Qed.

Lemma set_nth_app_plus (j c : list Z) (a : nat) (v : Z) :
  set_nth (length j + a) (j ++ c) v = j ++ set_nth a c v.
Proof. induction j as [|x j IH]; cbn [length app set_nth plus]; [reflexivity|rewrite IH; reflexivity]. Qed.

Lemma vsum_map_ext {A} (f g : A -> V) (l : list A) :
  (forall x, f x = g x) -> vsum V vadd vzero (map f l) = vsum V vadd vzero (map g l).
Proof. intros H. induction l as [|x l IH]; cbn [map vsum]; [reflexivity|rewrite H, IH; reflexivity]. Qed.

Lemma gdiff_axis_block (shape coms : list Z) (a : nat) (j : list Z) (S : aregion V) (c : list Z) :
  gdiff_axis (length j) shape coms a S (j ++ c) = adiff_axis V vadd vsub vzero shape coms a (block j S) c.
Proof.
  unfold gdiff_axis, adiff_axis, block.
  rewrite nth_app_plus.
  destruct (Z.eqb (nth a c 0) (norm_coord (nth a shape 0) (nth a coms 0))); [|reflexivity].
  rewrite set_nth_app_plus.
  f_equal.
  apply vsum_map_ext. intros k. rewrite set_nth_app_plus. reflexivity.
Qed.

Lemma block_ext (j : list Z) (S T : aregion V) : (forall c, S (j ++ c) = T (j ++ c)) -> forall c, block j S c = block j T c.
Proof. intros H c. exact (H c). Qed.

Lemma adiff_axis_ext (shape coms : list Z) (a : nat) (R R' : aregion V) :
  (forall c, R c = R' c) -> forall c, adiff_axis V vadd vsub vzero shape coms a R c = adiff_axis V vadd vsub vzero shape coms a R' c.
Proof.
  intros H c. unfold adiff_axis.
  destruct (Z.eqb (nth a c 0) (norm_coord (nth a shape 0) (nth a coms 0))); [|apply H].
  rewrite H. f_equal. apply vsum_map_ext. intros k. apply H.
Qed.

(* differencing every interacting axis of the stacked region = differencing each block on its own *)
Theorem gdiff_all_block (shape coms : list Z) (j : list Z) (S : aregion V) :
  forall k c, gdiff_all (length j) shape coms k S (j ++ c) = adiff_all V vadd vsub vzero shape coms k (block j S) c.
Proof.
  induction k as [|k IH]; intros c; cbn [gdiff_all adiff_all].
  - reflexivity.
  - rewrite gdiff_axis_block.
    apply adiff_axis_ext. intros c'. unfold block. apply IH.
Qed.

(* ... and it leaves every other block alone: the result at j ++ c depends on S only through block j *)
Theorem gdiff_all_local (shape coms : list Z) (j : list Z) (S T : aregion V) :
  (forall c, S (j ++ c) = T (j ++ c)) ->
  forall k c, gdiff_all (length j) shape coms k S (j ++ c) = gdiff_all (length j) shape coms k T (j ++ c).
Proof.
  intros H k c. rewrite !gdiff_all_block.
  revert c. induction k as [|k IH]; intros c; cbn [adiff_all].
  - apply H.
  - apply adiff_axis_ext. exact IH.
Qed.

End StackedDiff.

(* ---- with C02: every block of the reduced stacked count region is the contingency table of its sub-cube ---- *)
From Catii Require Import Cube.Count Cube.FillInv.

(* The stacked count region after all sub-cubes have filled their blocks: block j holds what the sub-cube with the
   1-D dimensions [dims_of j] filled (C13_index_cube_block: the blocks are written independently, each exactly once). *)
Theorem stacked_count_block (N : Z) (shape : list Z) (dims_of : list Z -> list dim) (S : aregion Z) (j : list Z) :
  (forall c, S (j ++ c) = count_filled N (dims_of j) shape c) ->
  0 <= N -> Forall (dim_wf N) (dims_of j) -> covers shape (dims_of j) ->
  forall cell, in_shape shape cell ->
    gdiff_all Z Z.add Z.sub 0 (length j) shape (map dcommon (dims_of j)) (length (dims_of j)) S (j ++ cell)
    = len_rows (cell_rows N (dims_of j) cell).
Proof.
  intros HS HN Hwf Hcov cell Hin.
  rewrite gdiff_all_block.
  assert (E : forall k c, adiff_all Z Z.add Z.sub 0 shape (map dcommon (dims_of j)) k (block Z j S) c
                        = adiff_all Z Z.add Z.sub 0 shape (map dcommon (dims_of j)) k (count_filled N (dims_of j) shape) c).
  { induction k as [|k IH]; intros c; cbn [adiff_all]; [apply HS|].
    apply adiff_axis_ext. exact IH. }
  rewrite E.
  unfold count_filled, fill_count.
  rewrite (cube_region_spec_Z N (dims_of j) shape (fun _ => 1) len_rows N Hwf Hcov).
  - unfold len_rows. clear. induction (cell_rows N (dims_of j) cell) as [|x l IH]; cbn [map vsum length]; [reflexivity|].
    rewrite IH. rewrite Nat2Z.inj_succ. lia.
  - intros rows. unfold len_rows. induction rows as [|x l IH]; cbn [map vsum length]; [reflexivity|].
    rewrite <- IH. rewrite Nat2Z.inj_succ. lia.
  - (* corner = number of rows *)
    assert (HL : N = Z.of_nat (length (rowrange N))) by (rewrite rowrange_length; lia).
    rewrite HL at 1.
    generalize (rowrange N). intros l. induction l as [|x l IH]; cbn [map vsum length]; [reflexivity|].
    rewrite <- IH. rewrite Nat2Z.inj_succ. lia.
  - exact Hin.
Qed.
