(* Proofs about the walk (C14): [walk_spec] - the model of `_walk` equals the comprehension of the
   property as lists - and its corollaries. *)
From Coq Require Import ZArith List Bool Lia.
From Catii Require Import Base.Sorted Base.SortedFacts Cube.Dim Cube.Walk Cube.WalkSpec.
Import ListNotations.
Open Scope Z_scope.

(* ---------- list plumbing ---------- *)
Lemma flat_map_ext_in {A B} (f g : A -> list B) l :
  (forall a, In a l -> f a = g a) -> flat_map f l = flat_map g l.
Proof.
  induction l as [|a l IH]; intros H; cbn [flat_map]; [reflexivity|].
  rewrite H by now left. rewrite IH; [reflexivity|]. intros; apply H; now right.
Qed.

Lemma map_flat_map {A B C} (g : B -> C) (f : A -> list B) l :
  map g (flat_map f l) = flat_map (fun a => map g (f a)) l.
Proof. induction l as [|a l IH]; cbn [flat_map map]; [reflexivity|]. now rewrite map_app, IH. Qed.

Lemma flat_map_map {A B C} (f : B -> list C) (g : A -> B) l :
  flat_map f (map g l) = flat_map (fun a => f (g a)) l.
Proof. induction l as [|a l IH]; cbn [flat_map map]; [reflexivity|]. now rewrite IH. Qed.

Lemma flat_map_flat_map {A B C} (f : B -> list C) (g : A -> list B) l :
  flat_map f (flat_map g l) = flat_map (fun a => flat_map f (g a)) l.
Proof. induction l as [|a l IH]; cbn [flat_map]; [reflexivity|]. now rewrite flat_map_app, IH. Qed.

Lemma flat_map_nil {A B} (f : A -> list B) l : (forall a, In a l -> f a = []) -> flat_map f l = [].
Proof.
  induction l as [|a l IH]; intros H; cbn [flat_map]; [reflexivity|].
  rewrite H by now left. apply IH. intros; apply H; now right.
Qed.

(* ---------- step 1: drop the accumulated base coordinates ---------- *)
Definition pre (bc : list Z) (em : emission) : emission := (bc ++ fst em, snd em).
Definition cons1 (k : Z) (em : emission) : emission := (k :: fst em, snd em).

Lemma pre_snoc bc k em : pre (bc ++ [k]) em = pre bc (cons1 k em).
Proof. unfold pre, cons1. cbn [fst snd]. now rewrite <- app_assoc. Qed.

Lemma walk_aux_pre dims : forall bc base,
  walk_aux dims bc base = map (pre bc) (walk_aux dims [] base).
Proof.
  induction dims as [|d rest IH]; intros bc base; [reflexivity|].
  cbn [walk_aux]. destruct rest as [|d' rest'].
  - destruct base as [b|].
    + rewrite map_app, map_flat_map. f_equal.
      * apply flat_map_ext_in. intros e _. cbv zeta. destruct (nonempty_b _); reflexivity.
      * destruct (nonempty_b b); reflexivity.
    + rewrite map_flat_map. apply flat_map_ext_in. intros e _. destruct (nonempty_b _); reflexivity.
  - rewrite map_app. f_equal.
    + destruct base as [b|]; rewrite map_flat_map; apply flat_map_ext_in; intros e _; cbv zeta.
      * destruct (nonempty_b _); [|reflexivity].
        rewrite (IH (bc ++ [fst e])), (IH ([] ++ [fst e])), map_map. apply map_ext. intros em.
        now rewrite !pre_snoc.
      * rewrite (IH (bc ++ [fst e])), (IH ([] ++ [fst e])), map_map. apply map_ext. intros em.
        now rewrite !pre_snoc.
    + rewrite (IH (bc ++ [margin])), (IH ([] ++ [margin])), map_map. apply map_ext. intros em.
      now rewrite !pre_snoc.
Qed.

(* ---------- step 2: the walk is the full product, filtered ---------- *)
Definition meet (base : option (list Z)) (rows : list Z) : list Z :=
  match base with None => rows | Some b => inter_spec b rows end.

Definition pcell := (list Z * option (list Z))%type.
Definition pcons (k : Z) (x : pcell) : pcell := (k :: fst x, snd x).

Fixpoint full (dims : list dim) (base : option (list Z)) : list pcell :=
  match dims with
  | [] => [([], base)]
  | d :: rest =>
      flat_map (fun e => map (pcons (fst e)) (full rest (Some (meet base (snd e))))) (dentries d)
      ++ map (pcons margin) (full rest base)
  end.

Definition keep (x : pcell) : list emission :=
  match snd x with
  | Some r => if nonempty_b r then [(fst x, r)] else []
  | None => []
  end.

Lemma keep_pcons k l : flat_map keep (map (pcons k) l) = map (cons1 k) (flat_map keep l).
Proof.
  induction l as [|x l IH]; cbn [map flat_map]; [reflexivity|].
  rewrite map_app, IH. f_equal. unfold keep, pcons, cons1. cbn [fst snd].
  destruct (snd x) as [r|]; [|reflexivity]. destruct (nonempty_b r); reflexivity.
Qed.

Lemma inter_spec_nil_l R : inter_spec [] R = [].
Proof. reflexivity. Qed.

Lemma full_pruned dims : forall x, In x (full dims (Some [])) -> snd x = Some [].
Proof.
  induction dims as [|d rest IH]; intros x Hx; cbn [full] in Hx.
  - destruct Hx as [<-|[]]. reflexivity.
  - apply in_app_or in Hx. destruct Hx as [Hx|Hx].
    + apply in_flat_map in Hx. destruct Hx as [e [_ Hx]]. apply in_map_iff in Hx.
      destruct Hx as [y [<- Hy]]. cbn [pcons snd]. apply IH. exact Hy.
    + apply in_map_iff in Hx. destruct Hx as [y [<- Hy]]. cbn [pcons snd]. apply IH. exact Hy.
Qed.

Lemma keep_pruned dims : flat_map keep (full dims (Some [])) = [].
Proof.
  apply flat_map_nil. intros x Hx. unfold keep. now rewrite (full_pruned dims x Hx).
Qed.

Lemma walk_aux_full dims : dims <> [] -> forall base,
  walk_aux dims [] base = flat_map keep (full dims base).
Proof.
  induction dims as [|d rest IH]; intros Hne base; [congruence|].
  cbn [walk_aux full]. destruct rest as [|d' rest'].
  - (* last dimension *)
    cbn [full map]. rewrite flat_map_app, flat_map_flat_map.
    destruct base as [b|].
    + f_equal.
      * apply flat_map_ext_in. intros e _. cbn [map flat_map meet keep pcons fst snd app].
        rewrite app_nil_r. reflexivity.
      * cbn [flat_map keep pcons fst snd app]. rewrite app_nil_r. reflexivity.
    + cbn [flat_map keep pcons fst snd app]. rewrite !app_nil_r.
      apply flat_map_ext_in. intros e _. cbn [map flat_map meet keep pcons fst snd app].
      rewrite app_nil_r. reflexivity.
  - assert (IH' := IH ltac:(discriminate)). clear IH.
    rewrite flat_map_app, flat_map_flat_map. f_equal.
    + destruct base as [b|]; apply flat_map_ext_in; intros e _; cbv zeta; rewrite keep_pcons.
      * cbn [meet]. destruct (inter_spec b (snd e)) as [|x r] eqn:E; cbn [nonempty_b].
        -- now rewrite keep_pruned.
        -- rewrite walk_aux_pre, IH'. apply map_ext. intros em. reflexivity.
      * cbn [meet]. rewrite walk_aux_pre, IH'. apply map_ext. intros em. reflexivity.
    + rewrite keep_pcons, walk_aux_pre, IH'. apply map_ext. intros em. reflexivity.
Qed.

(* ---------- step 3: the full product, coordinate by coordinate ---------- *)
Definition lookup (k : Z) (d : dim) : list Z :=
  match find (fun e => Z.eqb (fst e) k) (dentries d) with Some e => snd e | None => [] end.

Fixpoint sem (base : option (list Z)) (dims : list dim) (c : list Z) : option (list Z) :=
  match dims, c with
  | d :: rest, k :: c' =>
      if Z.eqb k margin then sem base rest c' else sem (Some (meet base (lookup k d))) rest c'
  | _, _ => base
  end.

Lemma lookup_entry d e : NoDup (dkeys d) -> In e (dentries d) -> lookup (fst e) d = snd e.
Proof.
  unfold lookup, dkeys. induction (dentries d) as [|e' l IH]; intros ND Hin; [contradiction|].
  cbn [map] in ND. inversion ND as [|? ? Hn ND']; subst. cbn [find].
  destruct Hin as [->|Hin].
  - now rewrite Z.eqb_refl.
  - destruct (Z.eqb_spec (fst e') (fst e)) as [E|_].
    + exfalso. apply Hn. rewrite E. now apply in_map.
    + now apply IH.
Qed.

Lemma full_sem dims : Forall (fun d => NoDup (dkeys d)) dims -> Forall no_margin_key dims -> forall base,
  full dims base = map (fun c => (c, sem base dims c)) (coord_product dims).
Proof.
  induction dims as [|d rest IH]; intros ND NM base; [reflexivity|].
  inversion ND as [|? ? ND1 ND2]; inversion NM as [|? ? NM1 NM2]; subst.
  cbn [full coord_product]. rewrite flat_map_app, map_app. f_equal.
  - unfold dkeys at 1. rewrite flat_map_map, map_flat_map. apply flat_map_ext_in. intros e He.
    rewrite IH by assumption. rewrite !map_map. apply map_ext. intros c.
    unfold pcons. cbn [fst snd sem].
    destruct (Z.eqb_spec (fst e) margin) as [E|_].
    + exfalso. apply NM1. rewrite <- E. now apply in_map.
    + now rewrite lookup_entry.
  - cbn [flat_map]. rewrite app_nil_r, IH by assumption. rewrite !map_map. apply map_ext. intros c.
    unfold pcons. cbn [fst snd sem]. now rewrite Z.eqb_refl.
Qed.

(* ---------- step 4: meaning of the intersections under well-formedness ---------- *)
Lemma In_rowrange N x : In x (rowrange N) <-> 0 <= x < N.
Proof.
  unfold rowrange. rewrite in_map_iff. split.
  - intros [k [<- Hk]]. apply in_seq in Hk. lia.
  - intros H. exists (Z.to_nat x). split; [lia|]. apply in_seq. lia.
Qed.

Lemma sincr_rowrange N : sincr (rowrange N).
Proof.
  unfold rowrange. generalize 0%nat. induction (Z.to_nat N) as [|n IH]; intros s; cbn [seq map]; [exact I|].
  apply sincr_cons; [|apply IH]. intros y Hy. apply in_map_iff in Hy. destruct Hy as [k [<- Hk]].
  apply in_seq in Hk. lia.
Qed.

Lemma find_covers_some d x e : find (dcovers x) (dentries d) = Some e -> In e (dentries d) /\ In x (snd e).
Proof.
  intros H. apply find_some in H. destruct H as [H1 H2]. split; [exact H1|].
  unfold dcovers in H2. now apply memZ_In.
Qed.

(* under well-formedness the rows stored under key k are exactly the rows whose dense value is k *)
Lemma dense_iff N d e x : dim_wf N d -> In e (dentries d) -> (In x (snd e) <-> dim_dense d x = fst e).
Proof.
  intros W He. unfold dim_dense. split.
  - intros Hx. destruct (find (dcovers x) (dentries d)) as [e'|] eqn:F.
    + apply find_covers_some in F. destruct F as [F1 F2].
      apply (dwf_excl N d W x); [exists (snd e')|exists (snd e)]; (split; [|assumption]).
      * now destruct e'.
      * now destruct e.
    + exfalso. apply (find_none _ _ F) in He. unfold dcovers in He. apply memZ_false in He. contradiction.
  - intros Hd. destruct (find (dcovers x) (dentries d)) as [e'|] eqn:F.
    + apply find_covers_some in F. destruct F as [F1 F2].
      assert (e' = e) as <-; [|exact F2].
      pose proof (dwf_keys N d W) as ND. unfold dkeys in ND.
      clear - ND F1 He Hd. induction (dentries d) as [|a l IH]; [contradiction|].
      cbn [map] in ND. inversion ND as [|? ? Hn ND']; subst.
      destruct F1 as [->|F1], He as [->|He]; try reflexivity.
      * exfalso. apply Hn. rewrite Hd. now apply in_map.
      * exfalso. apply Hn. rewrite <- Hd. now apply in_map.
      * now apply IH.
    + exfalso. apply (dwf_nocommon N d W). rewrite Hd. unfold dkeys. now apply in_map.
Qed.

Lemma lookup_in d k : In k (dkeys d) -> NoDup (dkeys d) -> exists e, In e (dentries d) /\ fst e = k /\ lookup k d = snd e.
Proof.
  intros Hk ND. unfold dkeys in Hk. apply in_map_iff in Hk. destruct Hk as [e [<- He]].
  exists e. split; [assumption|]. split; [reflexivity|]. now apply lookup_entry.
Qed.

Definition base_ok (N : Z) (base : option (list Z)) : Prop :=
  match base with Some b => sincr b /\ (forall x, In x b -> 0 <= x < N) | None => True end.
Definition in_base (N : Z) (base : option (list Z)) (x : Z) : Prop :=
  match base with Some b => In x b | None => 0 <= x < N end.

Lemma sem_spec N dims : Forall (dim_wf N) dims -> forall c, In c (coord_product dims) ->
  forall base, base_ok N base ->
  match sem base dims c with
  | None => base = None /\ all_margin c = true
  | Some r => sincr r /\ (forall x, In x r <-> in_base N base x /\ row_matches dims c x = true)
              /\ (base = None -> all_margin c = false)
  end.
Proof.
  induction dims as [|d rest IH]; intros W c Hc base Hb.
  - cbn [coord_product] in Hc. destruct Hc as [<-|[]]. cbn [sem].
    destruct base as [b|]; [|split; reflexivity].
    destruct Hb as [Hs Hr]. split; [exact Hs|]. split; [|discriminate].
    intros x. cbn [in_base row_matches]. tauto.
  - inversion W as [|? ? W1 W2]; subst. cbn [coord_product] in Hc.
    apply in_flat_map in Hc. destruct Hc as [k [Hk Hc]]. apply in_map_iff in Hc.
    destruct Hc as [c' [<- Hc']]. cbn [sem row_matches all_margin forallb].
    apply in_app_or in Hk. destruct Hk as [Hk|[<-|[]]].
    + (* an uncommon key *)
      destruct (lookup_in d k Hk (dwf_keys N d W1)) as [e [He [Ek El]]].
      destruct (Z.eqb_spec k margin) as [Em|Em].
      * (* the key is -1: treated as the margin by both sides *)
        specialize (IH W2 c' Hc' base Hb).
        destruct (sem base rest c') as [r|].
        -- destruct IH as [I1 [I2 I3]]. split; [exact I1|]. split.
           ++ intros x. rewrite I2. cbn [orb andb]. tauto.
           ++ intros Hn. rewrite Em, Z.eqb_refl. cbn [andb]. auto.
        -- destruct IH as [I1 I2]. split; [exact I1|]. rewrite Em, Z.eqb_refl. exact I2.
      * assert (Hb' : base_ok N (Some (meet base (lookup k d)))).
        { rewrite El. cbn [base_ok]. destruct base as [b|]; cbn [meet].
          - destruct Hb as [Hs Hr]. split; [now apply inter_spec_sincr|].
            intros x Hx. apply inter_spec_In in Hx. apply Hr. tauto.
          - split.
            + destruct e as [v rows]. exact (dwf_sorted N d W1 v rows He).
            + intros x Hx. destruct e as [v rows]. exact (dwf_rows N d W1 v rows x He Hx). }
        specialize (IH W2 c' Hc' _ Hb').
        destruct (sem (Some (meet base (lookup k d))) rest c') as [r|]; [|destruct IH; discriminate].
        destruct IH as [I1 [I2 _]]. split; [exact I1|]. split.
        -- intros x. rewrite I2. cbn [in_base]. rewrite El.
           assert (Hd : In x (snd e) <-> dim_dense d x = k) by (rewrite <- Ek; now apply (dense_iff N)).
           destruct (Z.eqb_spec (dim_dense d x) k) as [Ed|Ed]; rewrite ?orb_true_r, ?orb_false_r; cbn [andb].
           ++ destruct base as [b|]; cbn [meet in_base].
              ** rewrite inter_spec_In. tauto.
              ** split; [|tauto]. intros [Hx Hm]. split; [|exact Hm].
                 destruct e as [v rows]. exact (dwf_rows N d W1 v rows x He Hx).
           ++ destruct (Z.eqb_spec k margin); [contradiction|]. cbn [andb].
              destruct base as [b|]; cbn [meet in_base]; [rewrite inter_spec_In|]; split; try tauto;
                intros [? ?]; discriminate.
        -- intros _. destruct (Z.eqb_spec margin k); [congruence|reflexivity].
    + (* the margin *)
      rewrite Z.eqb_refl. cbn [orb andb].
      specialize (IH W2 c' Hc' base Hb).
      destruct (sem base rest c') as [r|]; exact IH.
Qed.

(* ---------- the theorem ---------- *)
Lemma map_filter_flat_map {A B} (F : A -> B) (P : A -> bool) l :
  map F (filter P l) = flat_map (fun c => if P c then [F c] else []) l.
Proof.
  induction l as [|a l IH]; cbn [filter map flat_map]; [reflexivity|].
  destruct (P a); cbn [map app]; now rewrite IH.
Qed.

Lemma sincr_rows_matching N dims c : sincr (rows_matching N dims c).
Proof. unfold rows_matching. apply sincr_filter, sincr_rowrange. Qed.

Lemma In_rows_matching N dims c x :
  In x (rows_matching N dims c) <-> 0 <= x < N /\ row_matches dims c x = true.
Proof. unfold rows_matching. now rewrite filter_In, In_rowrange. Qed.

Lemma wf_nodup N dims : Forall (dim_wf N) dims -> Forall (fun d => NoDup (dkeys d)) dims.
Proof. intros W. eapply Forall_impl; [|exact W]. intros d Wd. exact (dwf_keys N d Wd). Qed.

Theorem walk_spec N dims :
  Forall (dim_wf N) dims -> Forall no_margin_key dims -> walk dims = walk_spec_list N dims.
Proof.
  intros W NM. destruct dims as [|d rest] eqn:E; [reflexivity|]. rewrite <- E in *.
  assert (Hne : dims <> []) by (rewrite E; discriminate). clear E.
  unfold walk, walk_spec_list. rewrite walk_aux_full by exact Hne.
  rewrite (full_sem dims (wf_nodup N dims W) NM), flat_map_map, map_filter_flat_map.
  apply flat_map_ext_in. intros c Hc.
  pose proof (sem_spec N dims W c Hc None I) as HS.
  unfold keep, presented. cbn [fst snd].
  destruct (sem None dims c) as [r|].
  - destruct HS as [H1 [H2 H3]]. rewrite (H3 eq_refl). cbn [negb andb].
    assert (r = rows_matching N dims c) as <-; [|reflexivity].
    apply sincr_ext; [exact H1|apply sincr_rows_matching|].
    intros x. rewrite H2, In_rows_matching. reflexivity.
  - destruct HS as [_ H]. now rewrite H.
Qed.

(* ---------- corollaries: the wording of the property ---------- *)
Lemma nonempty_b_iff l : nonempty_b l = true <-> l <> [].
Proof. destruct l; cbn; split; congruence. Qed.

(* membership form *)
Lemma walk_In N dims c r : Forall (dim_wf N) dims -> Forall no_margin_key dims ->
  (In (c, r) (walk dims) <->
   In c (coord_product dims) /\ all_margin c = false /\ r = rows_matching N dims c /\ r <> []).
Proof.
  intros W NM. rewrite (walk_spec N dims W NM). unfold walk_spec_list.
  rewrite in_map_iff. split.
  - intros [c0 [E H]]. inversion E; subst. apply filter_In in H. destruct H as [H1 H2].
    unfold presented in H2. apply andb_true_iff in H2. destruct H2 as [H2 H3].
    apply negb_true_iff in H2. apply nonempty_b_iff in H3. auto.
  - intros [H1 [H2 [-> H3]]]. exists c. split; [reflexivity|]. apply filter_In. split; [exact H1|].
    unfold presented. rewrite H2. cbn [negb andb]. now apply nonempty_b_iff.
Qed.

Lemma NoDup_app_intro {A} (a b : list A) :
  NoDup a -> NoDup b -> (forall x, In x a -> In x b -> False) -> NoDup (a ++ b).
Proof.
  induction a as [|x a IH]; intros Ha Hb H; cbn [app]; [exact Hb|].
  inversion Ha as [|? ? Hn Ha']; subst. constructor.
  - intros Hx. apply in_app_or in Hx. destruct Hx as [Hx|Hx]; [contradiction|].
    apply (H x); [now left|exact Hx].
  - apply IH; [exact Ha'|exact Hb|]. intros y Hy. apply H. now right.
Qed.

Lemma NoDup_map_cons (k : Z) (l : list (list Z)) : NoDup l -> NoDup (map (cons k) l).
Proof.
  induction l as [|x l IH]; intros H; cbn [map]; [constructor|].
  inversion H as [|? ? Hn H']; subst. constructor; [|now apply IH].
  intros Hx. apply in_map_iff in Hx. destruct Hx as [y [E Hy]]. inversion E; subst. contradiction.
Qed.

Lemma NoDup_flat_map {A B} (f : A -> list B) l :
  NoDup l -> (forall a, In a l -> NoDup (f a)) ->
  (forall a b x, In a l -> In b l -> a <> b -> In x (f a) -> In x (f b) -> False) ->
  NoDup (flat_map f l).
Proof.
  induction l as [|a l IH]; intros ND H1 H2; cbn [flat_map]; [constructor|].
  inversion ND as [|? ? Hn ND']; subst.
  apply NoDup_app_intro.
  - apply H1. now left.
  - apply IH; [exact ND'|intros; apply H1; now right|].
    intros a' b x Ha Hb. apply H2; now right.
  - intros x Hx Hx'. apply in_flat_map in Hx'. destruct Hx' as [b [Hb Hx']].
    apply (H2 a b x); [now left|now right| |exact Hx|exact Hx']. intros ->. contradiction.
Qed.

Lemma coord_product_NoDup dims :
  Forall (fun d => NoDup (dkeys d)) dims -> Forall no_margin_key dims -> NoDup (coord_product dims).
Proof.
  induction dims as [|d rest IH]; intros ND NM; cbn [coord_product].
  - constructor; [intros []|constructor].
  - inversion ND as [|? ? ND1 ND2]; inversion NM as [|? ? NM1 NM2]; subst.
    apply NoDup_flat_map.
    + apply NoDup_app_intro; [exact ND1|constructor; [intros []|constructor]|].
      intros x Hx [<-|[]]. exact (NM1 Hx).
    + intros k _. apply NoDup_map_cons. now apply IH.
    + intros a b x _ _ Hab Ha Hb. apply in_map_iff in Ha, Hb.
      destruct Ha as [y [<- _]], Hb as [z [E _]]. inversion E. congruence.
Qed.

(* every coordinate combination is presented at most once *)
Theorem walk_coords_NoDup N dims :
  Forall (dim_wf N) dims -> Forall no_margin_key dims -> NoDup (map fst (walk dims)).
Proof.
  intros W NM. rewrite (walk_spec N dims W NM). unfold walk_spec_list.
  rewrite map_map. cbn [fst]. rewrite map_id. apply NoDup_filter.
  apply coord_product_NoDup; [now apply (wf_nodup N)|exact NM].
Qed.

(* what is delivered with a coordinate combination: the increasing, non-empty list of exactly the
   rows below N that match every non-marginal coordinate *)
Theorem walk_rows N dims c r :
  Forall (dim_wf N) dims -> Forall no_margin_key dims -> In (c, r) (walk dims) ->
  sincr r /\ r <> [] /\ (forall x, In x r <-> 0 <= x < N /\ row_matches dims c x = true).
Proof.
  intros W NM H. apply (walk_In N) in H; [|assumption|assumption].
  destruct H as [_ [_ [-> H]]]. split; [apply sincr_rows_matching|]. split; [exact H|].
  intros x. apply In_rows_matching.
Qed.

Lemma coord_product_shape dims c : In c (coord_product dims) ->
  Forall2 (fun d k => k = margin \/ In k (dkeys d)) dims c.
Proof.
  revert c. induction dims as [|d rest IH]; intros c Hc; cbn [coord_product] in Hc.
  - destruct Hc as [<-|[]]. constructor.
  - apply in_flat_map in Hc. destruct Hc as [k [Hk Hc]]. apply in_map_iff in Hc.
    destruct Hc as [c' [<- Hc']]. constructor; [|now apply IH].
    apply in_app_or in Hk. destruct Hk as [Hk|[<-|[]]]; auto.
Qed.

(* the common category of a dimension is never presented: every coordinate is the marginal marker
   or a stored (hence uncommon) category *)
Theorem walk_never_common N dims c r :
  Forall (dim_wf N) dims -> Forall no_margin_key dims -> In (c, r) (walk dims) ->
  Forall2 (fun d k => k = margin \/ (In k (dkeys d) /\ k <> dcommon d)) dims c /\ all_margin c = false.
Proof.
  intros W NM H. apply (walk_In N) in H; [|assumption|assumption].
  destruct H as [Hc [Hm _]]. split; [|exact Hm].
  apply coord_product_shape in Hc. clear - W Hc. revert c Hc.
  induction W as [|d rest Wd W IH]; intros c Hc; inversion Hc; subst; constructor.
  - destruct H1 as [->|Hk]; [now left|right]. split; [exact Hk|].
    intros ->. exact (dwf_nocommon N d Wd Hk).
  - now apply IH.
Qed.

(* completeness, in the wording of the property: every coordinate combination that is not entirely
   marginal and is matched by at least one row IS presented, with exactly its rows *)
Theorem walk_complete N dims c :
  Forall (dim_wf N) dims -> Forall no_margin_key dims ->
  In c (coord_product dims) -> all_margin c = false -> rows_matching N dims c <> [] ->
  In (c, rows_matching N dims c) (walk dims).
Proof. intros W NM H1 H2 H3. apply (walk_In N); auto. Qed.


(* ---------- reflection of the boolean twins run on the real dimensions ---------- *)
Lemma nodupZ_b_sound l : nodupZ_b l = true -> NoDup l.
Proof.
  induction l as [|x l IH]; intros H; [constructor|].
  cbn [nodupZ_b] in H. apply andb_true_iff in H. destruct H as [H1 H2].
  apply negb_true_iff, memZ_false in H1. constructor; auto.
Qed.

Lemma disjointZ_b_sound a b x : disjointZ_b a b = true -> In x a -> In x b -> False.
Proof.
  unfold disjointZ_b. rewrite forallb_forall. intros H Ha Hb.
  specialize (H x Ha). apply negb_true_iff, memZ_false in H. contradiction.
Qed.

Lemma pairwise_disjoint_same es : pairwise_disjoint_b es = true ->
  forall e e' x, In e es -> In e' es -> In x (snd e) -> In x (snd e') -> NoDup (map fst es) -> fst e = fst e'.
Proof.
  induction es as [|e0 es IH]; intros H e e' x He He' Hx Hx' ND; [destruct He|].
  cbn [pairwise_disjoint_b] in H. apply andb_true_iff in H. destruct H as [H1 H2].
  rewrite forallb_forall in H1. cbn [map] in ND. inversion ND as [|? ? Hn ND']; subst.
  destruct He as [<-|He], He' as [<-|He'].
  - reflexivity.
  - exfalso. exact (disjointZ_b_sound _ _ x (H1 e' He') Hx Hx').
  - exfalso. exact (disjointZ_b_sound _ _ x (H1 e He) Hx' Hx).
  - eapply IH; eauto.
Qed.

Theorem dim_wf_b_sound N d : dim_wf_b N d = true -> dim_wf N d.
Proof.
  unfold dim_wf_b. rewrite !andb_true_iff. intros [[[H1 H2] H3] H4].
  rewrite forallb_forall in H3.
  assert (E: forall v rows, In (v, rows) (dentries d) ->
             sincr rows /\ rows <> [] /\ forall r, In r rows -> 0 <= r < N).
  { intros v rows Hin. specialize (H3 _ Hin). unfold dentry_ok_b in H3. cbn [snd] in H3.
    rewrite !andb_true_iff in H3. destruct H3 as [[A B] C].
    split; [now apply sincr_b_iff|]. split; [now apply nonempty_b_iff|].
    rewrite forallb_forall in C. intros r Hr. specialize (C r Hr). lia. }
  constructor.
  - now apply nodupZ_b_sound.
  - apply negb_true_iff, memZ_false in H2. exact H2.
  - intros v rows Hin. apply (E v rows Hin).
  - intros v rows Hin. apply (E v rows Hin).
  - intros v rows r Hin. apply (E v rows Hin).
  - intros r v v' [rows [Hin Hr]] [rows' [Hin' Hr']].
    apply (pairwise_disjoint_same _ H4 (v, rows) (v', rows') r Hin Hin' Hr Hr').
    apply nodupZ_b_sound. exact H1.
Qed.

Lemma forall_dim_wf_b_sound N dims : forallb (dim_wf_b N) dims = true -> Forall (dim_wf N) dims.
Proof. rewrite forallb_forall. intros H. apply Forall_forall. intros d Hd. apply dim_wf_b_sound. auto. Qed.

Lemma forall_no_margin_key_b_sound dims : forallb no_margin_key_b dims = true -> Forall no_margin_key dims.
Proof.
  rewrite forallb_forall. intros H. apply Forall_forall. intros d Hd. specialize (H d Hd).
  unfold no_margin_key_b in H. apply negb_true_iff, memZ_false in H. exact H.
Qed.
