(* Per-cell algebra of the weighted aggregates (C03-C05), for an ARBITRARY list of rows: the
   per-row quantities of the models (FFuncs.validity / summable / countable_vc, shared by ffuncs.py
   and xfuncs.py) in terms of the specification's accessors (Direct.row_valid / num / den), and the
   array cube's per-cell functions (XCube.xf_*_cell) against Direct.direct_cell on every path.
   PROOFS ONLY. *)
From Coq Require Import ZArith QArith Qcanon List Bool Lia.
From Catii Require Import Base.Cases Base.Sorted Cube.Dim Cube.Walk Cube.Diff Cube.Region Cube.Count
     Cube.Direct Cube.FFuncs Cube.XCube Cube.FillInv Cube.AggBase.
Import ListNotations.
Open Scope Z_scope.

(* ---------- numbers ---------- *)
Lemma qc_eqb_true x y : qc_eqb x y = true -> x = y.
Proof. unfold qc_eqb. intros H. apply Qc_is_canon. now apply Qeq_bool_iff. Qed.
Lemma qc_eqb_refl x : qc_eqb x x = true.
Proof. unfold qc_eqb. apply Qeq_bool_iff. reflexivity. Qed.

Lemma adjust0_id x : adjust0 x = x.
Proof. unfold adjust0. destruct (qc_eqb x q0) eqn:E; [symmetry; now apply qc_eqb_true|reflexivity]. Qed.

Lemma qz_plus a b : qz (a + b) = Qcplus (qz a) (qz b).
Proof.
  unfold qz. apply Qc_is_canon. unfold Qcplus, Q2Qc. cbn [this].
  rewrite !Qred_correct, inject_Z_plus. reflexivity.
Qed.
Lemma qz_0 : qz 0 = q0.
Proof. reflexivity. Qed.
Lemma qz_1 : qz 1 = q1.
Proof. reflexivity. Qed.

Lemma lenZ_cons {A} (x : A) l : lenZ (x :: l) = 1 + lenZ l.
Proof. unfold lenZ. cbn [length]. lia. Qed.
Lemma lenZ_nil {A} : lenZ (@nil A) = 0.
Proof. reflexivity. Qed.
Lemma lenZ_nonneg {A} (l : list A) : 0 <= lenZ l.
Proof. unfold lenZ. lia. Qed.

Lemma sumQ_const c rows : sumQ (map (fun _ : Z => c) rows) = Qcmult (qz (lenZ rows)) c.
Proof.
  induction rows as [|r rows IH]; cbn [map sumQ].
  - rewrite lenZ_nil, qz_0. unfold q0. ring.
  - rewrite IH, lenZ_cons, qz_plus, qz_1. unfold q1. ring.
Qed.
Lemma sumQ_ones rows : sumQ (map (fun _ : Z => q1) rows) = qz (lenZ rows).
Proof. rewrite sumQ_const. unfold q1. ring. Qed.

(* a sum that zeroes the rows outside a predicate is the sum over the filtered rows *)
Lemma sumQ_filter (p : Z -> bool) (g : Z -> Qc) rows :
  sumQ (map (fun r => if p r then g r else q0) rows) = sumQ (map g (filter p rows)).
Proof.
  induction rows as [|r rows IH]; cbn [map sumQ filter]; [reflexivity|].
  rewrite IH. destruct (p r); cbn [map sumQ]; [reflexivity|unfold q0; ring].
Qed.
Lemma sumQ_map_ext (g1 g2 : Z -> Qc) rows : (forall r, g1 r = g2 r) -> sumQ (map g1 rows) = sumQ (map g2 rows).
Proof. intros H. f_equal. apply map_ext. exact H. Qed.
Lemma filter_all {A} (p : A -> bool) l : (forall x, p x = true) -> filter p l = l.
Proof. intros H. induction l as [|x l IH]; cbn [filter]; [reflexivity|]. now rewrite H, IH. Qed.
Lemma filter_none {A} (p : A -> bool) l : (forall x, p x = false) -> filter p l = [].
Proof. intros H. induction l as [|x l IH]; cbn [filter]; [reflexivity|]. now rewrite H, IH. Qed.

(* ---------- counters ---------- *)
Lemma countb_cons f r rows : countb f (r :: rows) = b2z (f r) + countb f rows.
Proof. reflexivity. Qed.
Lemma countb_ext f g rows : (forall r, f r = g r) -> countb f rows = countb g rows.
Proof. intros H. unfold countb. f_equal. apply map_ext. intros r. now rewrite H. Qed.

Lemma countb_valid_rows (wt fx : Z -> option Qc) rows : countb (row_valid wt fx) rows = lenZ (valid_rows wt fx rows).
Proof.
  unfold valid_rows. induction rows as [|r rows IH]; [reflexivity|].
  rewrite countb_cons, IH. cbn [filter]. destruct (row_valid wt fx r); cbn [b2z]; [rewrite lenZ_cons|]; lia.
Qed.
Lemma countb_filter f rows : countb f rows = lenZ (filter f rows).
Proof.
  induction rows as [|r rows IH]; [reflexivity|].
  rewrite countb_cons, IH. cbn [filter]. destruct (f r); cbn [b2z]; [rewrite lenZ_cons|]; lia.
Qed.
Lemma countb_negb vld rows : countb (fun r => negb (vld r)) rows = lenZ rows - countb vld rows.
Proof.
  induction rows as [|r rows IH]; [reflexivity|].
  rewrite !countb_cons, IH, lenZ_cons. destruct (vld r); cbn [negb b2z]; lia.
Qed.
Lemma countb_bounds f rows : 0 <= countb f rows <= lenZ rows.
Proof.
  induction rows as [|r rows IH]; [cbv; split; discriminate|].
  rewrite countb_cons, lenZ_cons. destruct (f r); cbn [b2z]; lia.
Qed.

Lemma mcount_forms mf vld rows : mcount mf vld rows = lenZ rows - countb vld rows.     (* MNeg and MSub agree *)
Proof. destruct mf; cbn [mcount]; [apply countb_negb|reflexivity]. Qed.

(* ---------- the per-row quantities ---------- *)
Lemma m_valid_get x r : m_valid x r = is_some (m_get x r).
Proof. destruct x as [l|v b]; cbn [m_valid m_get]; [reflexivity|]. now destruct (znth r b false). Qed.
(* a valid element is its value, whatever the stand-in *)
Lemma m_val_get h x r : m_valid x r = true -> m_val h x r = oq (m_get x r).
Proof.
  destruct x as [l|v b]; cbn [m_valid m_get m_val].
  - destruct (znth r l None); cbn [is_some oq]; [reflexivity|discriminate].
  - intros ->. reflexivity.
Qed.

Lemma validity_row_valid h x w r : validity x (norm_w h w) r = row_valid (w_get w) (m_get x) r.
Proof.
  unfold row_valid. rewrite <- m_valid_get.
  destruct w as [|o|v b|a]; cbn [norm_w validity nw_valid w_get is_some].
  - reflexivity.
  - apply andb_comm.
  - rewrite andb_comm. now destruct b.
  - rewrite andb_comm. now rewrite m_valid_get.
Qed.

(* the weight of a row whose weight is valid *)
Lemma nw_val_get h w r : is_some (w_get w r) = true -> nw_val (norm_w h w) r = oq (w_get w r).
Proof.
  destruct w as [|o|v b|a]; cbn [norm_w nw_val w_get].
  - reflexivity.
  - destruct o; cbn [is_some oq]; [reflexivity|discriminate].
  - destruct b; cbn [is_some oq]; [reflexivity|discriminate].
  - rewrite <- m_valid_get. apply m_val_get.
Qed.

Lemma summable_row h x w r :
  summable h x (norm_w h w) r =
  if row_valid (w_get w) (m_get x) r then Qcmult (oq (m_get x r)) (oq (w_get w r)) else q0.
Proof.
  unfold summable. rewrite validity_row_valid.
  destruct (row_valid (w_get w) (m_get x) r) eqn:E; [|reflexivity].
  unfold row_valid in E. apply andb_true_iff in E. destruct E as [Ew Ex].
  rewrite <- m_valid_get in Ex.
  rewrite (m_val_get h x r Ex). pose proof (nw_val_get h w r Ew) as Hw.
  destruct w as [|o|v b|a]; cbn [norm_w] in *; try (now rewrite Hw).
  cbn [w_get oq]. unfold q1. ring.
Qed.

Lemma countable_row h x w r :
  countable_vc x (norm_w h w) r = if row_valid (w_get w) (m_get x) r then oq (w_get w r) else q0.
Proof.
  unfold countable_vc. rewrite validity_row_valid.
  destruct (row_valid (w_get w) (m_get x) r) eqn:E; [|reflexivity].
  unfold row_valid in E. apply andb_true_iff in E. destruct E as [Ew Ex].
  pose proof (nw_val_get h w r Ew) as Hw. cbn [b2q].
  destruct w as [|o|v b|a]; cbn [norm_w] in *; try (rewrite Hw; unfold q1; ring).
  reflexivity.
Qed.

Lemma sum_summable h x w rows : sumQ (map (summable h x (norm_w h w)) rows) = num (w_get w) (m_get x) rows.
Proof.
  unfold num, valid_rows. rewrite <- sumQ_filter. apply sumQ_map_ext. intros r. apply summable_row.
Qed.
Lemma sum_countable h x w rows : sumQ (map (countable_vc x (norm_w h w)) rows) = den (w_get w) (m_get x) rows.
Proof.
  unfold den, valid_rows. rewrite <- sumQ_filter. apply sumQ_map_ext. intros r. apply countable_row.
Qed.

(* ---------- the missing marks ---------- *)
(* valid_count / sum / count with array weights: valid counter zero, or (propagating) a missing row *)
Lemma out_missing_counters (wt fx : Z -> option Qc) vld mf ign rows :
  (forall r, vld r = row_valid wt fx r) ->
  out_missing ign (countb vld rows =? 0) (mcount mf vld rows)
  = (lenZ (valid_rows wt fx rows) =? 0) || (negb ign && negb (lenZ (valid_rows wt fx rows) =? lenZ rows)).
Proof.
  intros H. rewrite mcount_forms, (countb_ext _ _ rows H), countb_valid_rows.
  unfold out_missing. destruct ign; cbn [negb andb].
  - now rewrite orb_false_r.
  - f_equal. f_equal.
    destruct (Z.eqb_spec (lenZ (valid_rows wt fx rows)) (lenZ rows)) as [E|E];
      destruct (Z.eqb_spec (lenZ rows - lenZ (valid_rows wt fx rows)) 0); try reflexivity; lia.
Qed.

Lemma den_no_valid (wt fx : Z -> option Qc) rows : lenZ (valid_rows wt fx rows) = 0 -> den wt fx rows = q0.
Proof.
  unfold den. destruct (valid_rows wt fx rows) as [|r l]; [reflexivity|].
  rewrite lenZ_cons. pose proof (lenZ_nonneg l). lia.
Qed.

(* the mean tests the WEIGHTED valid count: the same, because no valid row implies den = 0 *)
Lemma out_missing_mean (wt fx : Z -> option Qc) vld mf ign rows :
  (forall r, vld r = row_valid wt fx r) ->
  out_missing ign (qc_eqb (den wt fx rows) q0) (mcount mf vld rows)
  = cell_missing wt fx AMean ign rows.
Proof.
  intros H. unfold cell_missing. rewrite mcount_forms, (countb_ext _ _ rows H), countb_valid_rows.
  destruct (qc_eqb (den wt fx rows) q0) eqn:E.
  - rewrite orb_true_r. unfold out_missing. now destruct ign.
  - rewrite orb_false_r.
    assert (Hv : (lenZ (valid_rows wt fx rows) =? 0) = false).
    { destruct (Z.eqb_spec (lenZ (valid_rows wt fx rows)) 0) as [E0|E0]; [|reflexivity].
      rewrite (den_no_valid _ _ _ E0), qc_eqb_refl in E. discriminate. }
    rewrite Hv. unfold out_missing. destruct ign; cbn [negb andb orb]; [reflexivity|].
    f_equal.
    destruct (Z.eqb_spec (lenZ (valid_rows wt fx rows)) (lenZ rows)) as [E1|E1];
      destruct (Z.eqb_spec (lenZ rows - lenZ (valid_rows wt fx rows)) 0); try reflexivity; lia.
Qed.

Lemma cell_missing_nonmean (wt fx : Z -> option Qc) A ign rows : A <> AMean ->
  cell_missing wt fx A ign rows
  = (lenZ (valid_rows wt fx rows) =? 0) || (negb ign && negb (lenZ (valid_rows wt fx rows) =? lenZ rows)).
Proof. intros HA. unfold cell_missing. destruct A; try (now rewrite orb_false_r). contradiction. Qed.

(* ---------- the per-cell functions of one column ---------- *)
Lemma xf_sum_cell_direct h x w p ign rows :
  xf_sum_cell h x (norm_w h w) p ign rows = direct_cell (w_get w) (m_get x) ASum ign rows.
Proof.
  unfold xf_sum_cell, direct_cell. cbn [cell_value]. rewrite sum_summable. f_equal.
  rewrite cell_missing_nonmean by discriminate.
  apply out_missing_counters. intros r. apply validity_row_valid.
Qed.
Lemma xf_valid_count_cell_direct h x w p ign rows :
  xf_valid_count_cell x (norm_w h w) p ign rows = direct_cell (w_get w) (m_get x) AValidCount ign rows.
Proof.
  unfold xf_valid_count_cell, direct_cell. cbn [cell_value]. rewrite sum_countable. f_equal.
  rewrite cell_missing_nonmean by discriminate.
  apply out_missing_counters. intros r. apply validity_row_valid.
Qed.
Lemma xf_mean_cell_direct h x w ign rows :
  xf_mean_cell h x (norm_w h w) ign rows = direct_cell (w_get w) (m_get x) AMean ign rows.
Proof.
  unfold xf_mean_cell, direct_cell, countable_mean. cbn [cell_value].
  change (fun r => countable_vc x (norm_w h w) r) with (countable_vc x (norm_w h w)).
  rewrite sum_summable, sum_countable. f_equal.
  apply out_missing_mean. intros r. apply validity_row_valid.
Qed.
Lemma xf_valid_count_plain0_cell_direct h x w rows :
  xf_valid_count_plain0_cell x (norm_w h w) rows = cell_value (w_get w) (m_get x) AValidCount rows.
Proof. unfold xf_valid_count_plain0_cell. cbn [cell_value]. now rewrite adjust0_id, sum_countable. Qed.

(* ---------- the count ---------- *)
Lemma row_valid_ones wt r : row_valid wt ones r = is_some (wt r).
Proof. unfold row_valid, ones. cbn [is_some]. apply andb_true_r. Qed.

(* a scalar weight: every row has the weight [o] *)
Lemma xf_count_scalar (o : option Qc) v ign rows : (is_some o = true -> v = oq o) ->
  xf_count_cell (NWScalar v (is_some o)) ign (lenZ rows) rows = direct_cell (fun _ => o) ones ACount ign rows.
Proof.
  intros Hv. unfold xf_count_cell, direct_cell. cbn [cell_value]. unfold cell_missing, den, valid_rows.
  destruct o as [q|]; cbn [is_some negb b2z] in *.
  - rewrite (Hv eq_refl). cbn [oq].
    rewrite filter_all by (intros r; apply row_valid_ones).
    rewrite sumQ_const. f_equal.
    rewrite Z.mul_1_r, Z.mul_0_r, Z.eqb_refl. unfold out_missing. cbn [negb]. rewrite andb_false_r, !orb_false_r.
    now destruct ign.
  - rewrite filter_none by (intros r; apply row_valid_ones). cbn [map sumQ]. f_equal; [unfold q0; ring|].
    rewrite Z.mul_0_r. unfold out_missing. cbn [lenZ length Z.of_nat Z.eqb orb]. now destruct ign.
Qed.

Lemma xf_count_cell_direct h w ign rows :
  xf_count_cell (norm_w h w) ign (lenZ rows) rows = direct_cell (w_get w) ones ACount ign rows.
Proof.
  destruct w as [|o|v b|a]; cbn [norm_w].
  - (* unweighted *)
    unfold xf_count_cell, direct_cell. cbn [cell_value]. unfold cell_missing, den, valid_rows.
    rewrite filter_all by (intros r; reflexivity). cbn [w_get oq]. rewrite sumQ_ones. f_equal.
    rewrite Z.eqb_refl. cbn [negb]. now rewrite andb_false_r, !orb_false_r.
  - (* scalar, NaN-marked *)
    change (w_get (WScalarNaN o)) with (fun _ : Z => o). apply xf_count_scalar.
    destruct o; cbn [is_some oq]; [reflexivity|discriminate].
  - (* scalar (value, validity) *)
    change (w_get (WScalarPair v b)) with (fun _ : Z => if b then Some v else None).
    replace b with (is_some (if b then Some v else None)) at 1 by now destruct b.
    apply xf_count_scalar. destruct b; cbn [is_some oq]; [reflexivity|discriminate].
  - (* row weights *)
    unfold xf_count_cell, direct_cell. cbn [cell_value]. f_equal.
    + unfold den, valid_rows. rewrite <- sumQ_filter. apply sumQ_map_ext. intros r.
      rewrite row_valid_ones. cbn [w_get]. rewrite <- m_valid_get.
      destruct (m_valid a r) eqn:E; [now apply m_val_get|reflexivity].
    + rewrite cell_missing_nonmean by discriminate. apply out_missing_counters.
      intros r. rewrite row_valid_ones. cbn [w_get]. apply m_valid_get.
Qed.

(* ---------- all columns ---------- *)
Lemma fact_cols_marrs f : f <> FNone -> fact_cols f = map m_get (fact_marrs f).
Proof. destruct f; [contradiction|reflexivity|reflexivity]. Qed.

(* the array cube's per-cell function is the specification's, on every path *)
Theorem x_cols_direct A h f w p ign rows : agg_fact_ok A f ->
  x_cols A h f (norm_w h w) p ign (lenZ rows) rows = map (fun fx => direct_cell (w_get w) fx A ign rows) (fact_cols f).
Proof.
  intros HA. destruct A; cbn [agg_fact_ok] in HA; cbn [x_cols].
  - subst f. cbn [fact_cols map]. f_equal. apply xf_count_cell_direct.
  - rewrite (fact_cols_marrs f HA), map_map. apply map_ext. intros x. apply xf_valid_count_cell_direct.
  - rewrite (fact_cols_marrs f HA), map_map. apply map_ext. intros x. apply xf_sum_cell_direct.
  - rewrite (fact_cols_marrs f HA), map_map. apply map_ext. intros x. apply xf_mean_cell_direct.
Qed.

Theorem x_cols_plain0_direct h f w rows : f <> FNone ->
  x_cols_plain0 f (norm_w h w) rows = map (fun fx => cell_value (w_get w) fx AValidCount rows) (fact_cols f).
Proof.
  intros HA. unfold x_cols_plain0. rewrite (fact_cols_marrs f HA), map_map. apply map_ext. intros x.
  apply xf_valid_count_plain0_cell_direct.
Qed.

Print Assumptions x_cols_direct.
Print Assumptions x_cols_plain0_direct.
