(* Evaluating the count cube ONCE per case (for the correspondence check).  DEFINITIONS ONLY.

   The model regions of Cube/Region.v are functions, so every cell lookup of `count_diffed`
   recomputes the whole differencing.  Here the same computation is staged through dense tables:
   the filled region is tabulated over the working box (extent + 1 per axis), and after every
   `adiff_axis` step the result is tabulated again; a lookup is then a walk down a tree.
   Cube/CountProofs.v proves `count_table_spec`: inside the working box the table holds exactly
   `count_diffed` (no hypothesis on the dimensions - also for aliasing / uncovered cubes), and
   `count_lookup_spec`: what the checker evaluates IS the value of the model `count_cube`. *)
From Coq Require Import ZArith List Bool.
From Catii Require Import Base.Cases Base.Sorted Cube.Dim Cube.Walk Cube.Diff Cube.Region Cube.Count.
Import ListNotations.
Open Scope Z_scope.

Section Table.
Variable V : Type.
Variable dflt : V.

Inductive tree := Leaf (v : V) | Node (ts : list tree).

(* all cells with 0 <= c_d < w_d, as a tree of depth length ws *)
Fixpoint tabulate (ws : list Z) (R : list Z -> V) : tree :=
  match ws with
  | [] => Leaf (R [])
  | w :: ws' => Node (map (fun k => tabulate ws' (fun c => R (k :: c))) (rowrange w))
  end.

Fixpoint tlookup (c : list Z) (t : tree) : V :=
  match c, t with
  | [], Leaf v => v
  | k :: c', Node ts => match nth_error ts (Z.to_nat k) with Some t' => tlookup c' t' | None => dflt end
  | _, _ => dflt
  end.

Definition tfun (t : tree) : list Z -> V := fun c => tlookup c t.
End Table.

Arguments Leaf {V}.
Arguments Node {V}.

(* the working box: one margin slot per axis *)
Definition wbox (shape : list Z) : list Z := map (fun e => e + 1) shape.
Fixpoint in_wbox_b (shape c : list Z) : bool :=
  match shape, c with
  | [], [] => true
  | e :: shape', x :: c' => (0 <=? x) && (x <=? e) && in_wbox_b shape' c'
  | _, _ => false
  end.
Definition in_wbox (shape c : list Z) : Prop := Forall2 (fun e x => 0 <= x <= e) shape c.

Section Staged.
Variable V : Type.
Variable vadd vsub : V -> V -> V.
Variable vzero : V.

(* adiff_all with a table after every axis *)
Fixpoint adiff_all_tab (shape coms : list Z) (k : nat) (t0 : tree V) : tree V :=
  match k with
  | O => t0
  | Datatypes.S k' =>
      let t := adiff_all_tab shape coms k' t0 in
      tabulate V (wbox shape) (adiff_axis V vadd vsub vzero shape coms k' (tfun V vzero t))
  end.

Definition region_table (shape coms : list Z) (k : nat) (R : aregion V) : tree V :=
  adiff_all_tab shape coms k (tabulate V (wbox shape) R).
End Staged.

Definition count_table (N : Z) (dims : list dim) (shape : list Z) : tree Z :=
  region_table Z Z.add Z.sub 0 shape (map dcommon dims) (length dims) (count_filled N dims shape).

(* number of cells of the working box *)
Definition box_size (shape : list Z) : Z := fold_right (fun e acc => (Z.max e 0 + 1) * acc) 1 shape.
Definition TABLE_LIMIT : Z := 20000.

(* what the checker evaluates, once per case: a table for small boxes; for huge boxes (an axis at the
   255 .. 65537 boundaries) the right-hand side of theorem C02_count, which equals the model for every
   well-formed covered cube (the checker demands dim_wf_b and covers_b there) *)
Definition count_lookup (N : Z) (dims : list dim) (shape : list Z) : list Z -> Z :=
  if box_size shape <=? TABLE_LIMIT
  then let t := count_table N dims shape in fun c => tlookup Z 0 c t
  else fun c => len_rows (cell_rows N dims c).
Definition count_lookup_ok (N : Z) (dims : list dim) (shape : list Z) : bool :=
  (box_size shape <=? TABLE_LIMIT) || ((0 <=? N) && forallb (dim_wf_b N) dims && covers_b shape dims).
