(* C18 - weighted quantile (the repo's own algorithm): wq_missing - the cell is missing by the rule of
   C04 (any missing value OR WEIGHT under propagation, wherever it sorts); wq_scale - multiplying every
   weight by c > 0 leaves the result unchanged. *)
From Coq Require Import ZArith QArith Qcanon List Bool Lia Lqa ZifyBool.
From Catii Require Import Cube.XStats Cube.XStatsSpec Cube.XStatsCell Cube.XStatsBase Cube.XStatsGroup.
Import ListNotations.
Open Scope Z_scope.

(* ------------------------------------------------------------------ the segment of a cell *)
Lemma svalid_true_rw r : svalid true r = true -> is_some (rw r) = true.
Proof. unfold svalid. cbn [negb orb]. intro H. apply andb_prop in H. tauto. Qed.
Lemma pair_some_wq r : pair_some (summ true r, rw r) = svalid true r.
Proof.
  unfold pair_some. cbn [fst snd]. unfold summ.
  destruct (svalid true r) eqn:E.
  - rewrite (svalid_true_rw r E). unfold svalid in E. apply andb_prop in E. destruct E as [E _]. rewrite E. reflexivity.
  - reflexivity.
Qed.
Lemma pair_some_default : pair_some (@None Qc, @None Qc) = false.
Proof. reflexivity. Qed.

(* an element of the permuted segment is the default or comes from a row of the cell *)
Lemma apply_perm_In perm seg aw :
  In aw (apply_perm perm (wq_seg true seg)) ->
  aw = (None, None) \/ exists r, In r seg /\ aw = (summ true r, rw r).
Proof.
  unfold apply_perm. intro H. apply in_map_iff in H. destruct H as [i [<- _]].
  destruct (nth_in_or_default i (wq_seg true seg) (None, None)) as [H | H]; [ right | left; exact H ].
  unfold wq_seg in H. apply in_map_iff in H. destruct H as [r [E Hr]]. exists r. split; [ exact Hr | ].
  symmetry. exact E.
Qed.
(* every row of the cell appears in the permuted segment *)
Lemma is_perm_b_covers perm n i : is_perm_b perm n = true -> (i < n)%nat -> In i perm.
Proof.
  unfold is_perm_b. intros H Hi. apply andb_prop in H. destruct H as [_ H].
  rewrite forallb_forall in H. assert (I : In i (seq 0 n)) by (apply in_seq; lia).
  pose proof (H i I) as E. apply existsb_exists in E. destruct E as [k [Hk E]].
  apply Nat.eqb_eq in E. subst. exact Hk.
Qed.
Lemma is_perm_b_bound perm n i : is_perm_b perm n = true -> In i perm -> (i < n)%nat.
Proof.
  unfold is_perm_b. intros H Hi. apply andb_prop in H. destruct H as [H _]. apply andb_prop in H. destruct H as [_ H].
  rewrite forallb_forall in H. apply Nat.ltb_lt. apply H. exact Hi.
Qed.
Lemma apply_perm_covers perm seg r :
  is_perm_b perm (length seg) = true -> In r seg -> In (summ true r, rw r) (apply_perm perm (wq_seg true seg)).
Proof.
  intros HP Hr. destruct (In_nth seg r r Hr) as [i [Hi E]].
  unfold apply_perm. apply in_map_iff. exists i. split.
  - unfold wq_seg. rewrite (nth_map_in _ _ _ _ r) by exact Hi. rewrite E. reflexivity.
  - eapply is_perm_b_covers; eassumption.
Qed.

(* ------------------------------------------------------------------ wq_missing *)
Theorem wq_missing ign p perm seg :
  is_perm_b perm (length seg) = true ->
  missing_rule ign (map (svalid true) seg) = true ->
  wquantile_cell true ign p perm seg = None.
Proof.
  intros HP HM. unfold wquantile_cell. destruct seg as [ | r0 seg0] eqn:ES; [ reflexivity | ]. rewrite <- ES in *.
  unfold wq_1d. destruct ign.
  - (* ignore: no valid row, nothing survives the filter *)
    rewrite mr_ign in HM. apply Z.eqb_eq in HM. apply lenZ_0_nil in HM.
    assert (E : filter pair_some (apply_perm perm (wq_seg true seg)) = []).
    { destruct (filter pair_some (apply_perm perm (wq_seg true seg))) as [ | aw l] eqn:EF; [ reflexivity | ].
      assert (I : In aw (filter pair_some (apply_perm perm (wq_seg true seg)))) by (rewrite EF; left; reflexivity).
      apply filter_In in I. destruct I as [I PS].
      destruct (apply_perm_In perm seg aw I) as [-> | [r [Hr ->]]]; [ discriminate | ].
      rewrite pair_some_wq in PS.
      assert (I2 : In r (filter (svalid true) seg)) by (apply filter_In; split; assumption).
      rewrite HM in I2. contradiction. }
    rewrite E. reflexivity.
  - (* propagate: some row of the cell lacks its value or its weight, wherever it sorts *)
    assert (EX : exists r, In r seg /\ svalid true r = false).
    { rewrite ES in HM. unfold missing_rule in HM. cbn [map] in HM.
      rewrite <- (map_cons (svalid true) r0 seg0), forallb_id_map in HM. rewrite <- ES in HM.
      destruct (forallb (svalid true) seg) eqn:EF; [ discriminate | ].
      clear - EF. induction seg as [ | r seg IH]; [ discriminate | ].
      cbn [forallb] in EF. destruct (svalid true r) eqn:E.
      - destruct (IH EF) as [r' [H1 H2]]. exists r'. split; [ right; exact H1 | exact H2 ].
      - exists r. split; [ left; reflexivity | exact E ]. }
    destruct EX as [r [Hr Hv]].
    pose proof (apply_perm_covers perm seg r HP Hr) as I.
    destruct (apply_perm perm (wq_seg true seg)) as [ | aw l] eqn:EA; [ reflexivity | ]. rewrite <- EA in *.
    assert (EF : forallb pair_some (apply_perm perm (wq_seg true seg)) = false).
    { destruct (forallb pair_some (apply_perm perm (wq_seg true seg))) eqn:EF; [ | reflexivity ].
      rewrite forallb_forall in EF. pose proof (EF _ I) as C. rewrite pair_some_wq in C. congruence. }
    rewrite EF. reflexivity.
Qed.

(* ------------------------------------------------------------------ wq_scale: the core *)
Section Scale.
Variable c : Qc.
Hypothesis cpos : (0 < c)%Qc.
Let sc (x : Qc) : Qc := (c * x)%Qc.

Lemma c_nonzero : c <> 0%Qc.
Proof. intro E. rewrite E in cpos. exact (Qclt_not_eq _ _ cpos eq_refl). Qed.

Lemma cumsum_from_scale acc l : cumsum_from (sc acc) (map sc l) = map sc (cumsum_from acc l).
Proof.
  revert acc. induction l as [ | x l IH]; intro acc; [ reflexivity | ].
  cbn [map cumsum_from]. replace (sc acc + sc x)%Qc with (sc (acc + x)%Qc) by (unfold sc; ring).
  rewrite IH. reflexivity.
Qed.
Lemma cumsum_scale l : cumsum (map sc l) = map sc (cumsum l).
Proof. unfold cumsum. rewrite <- cumsum_from_scale. f_equal. unfold sc. ring. Qed.
Lemma nthQ_scale l i : nthQ (map sc l) i = sc (nthQ l i).
Proof.
  unfold nthQ. replace 0%Qc with (sc 0%Qc) at 1 by (unfold sc; ring). apply map_nth.
Qed.
Lemma Qle_bool_scale x y : Qle_bool (this (sc x)) (this (sc y)) = Qle_bool (this x) (this y).
Proof.
  destruct (Qle_bool (this x) (this y)) eqn:E.
  - apply Qle_bool_Qcle. apply Qle_bool_Qcle in E. unfold sc. clear - E cpos. qcq. nra.
  - apply Qle_bool_false_Qclt in E.
    destruct (Qle_bool (this (sc x)) (this (sc y))) eqn:E2; [ | reflexivity ].
    apply Qle_bool_Qcle in E2. unfold sc in E2. exfalso. clear - E E2 cpos. qcq. nra.
Qed.
Lemma digitize_scale x l : digitize (sc x) (map sc l) = digitize x l.
Proof.
  unfold digitize, countb. induction l as [ | y l IH]; [ reflexivity | ].
  cbn [map filter]. rewrite Qle_bool_scale. destruct (Qle_bool (this y) (this x)); rewrite ?lenZ_cons, IH; reflexivity.
Qed.
Lemma qmax0_scale x : qmax0 (sc x) = sc (qmax0 x).
Proof.
  unfold qmax0. replace (Qle_bool 0 (this (sc x))) with (Qle_bool (this (sc 0%Qc)) (this (sc x))).
  - rewrite Qle_bool_scale. change (this 0%Qc) with 0%Q. destruct (Qle_bool 0 (this x)); [ reflexivity | ].
    unfold sc. ring.
  - f_equal. unfold sc. replace (c * 0)%Qc with 0%Qc by ring. reflexivity.
Qed.

Lemma wq_core_scale p a w : wq_core p a (map sc w) = wq_core p a w.
Proof.
  unfold wq_core. rewrite lenZ_map, cumsum_scale.
  set (n := lenZ w). set (cs := cumsum w).
  replace (p * nthQ (map sc cs) (n - 1))%Qc with (sc (p * nthQ cs (n - 1))%Qc)
    by (rewrite nthQ_scale; unfold sc; ring).
  set (prob := (p * nthQ cs (n - 1))%Qc).
  rewrite digitize_scale. set (right := digitize prob cs). set (left := Z.max (right - 1) 0).
  rewrite !nthQ_scale.
  replace (sc prob - sc (nthQ cs left))%Qc with (sc (prob - nthQ cs left)%Qc) by (unfold sc; ring).
  rewrite qmax0_scale.
  set (num := qmax0 (prob - nthQ cs left)). set (den := nthQ w (Z.min right (n - 1))).
  assert (E : fdiv (Some (sc num)) (Some (sc den)) = fdiv (Some num) (Some den)).
  { destruct (Qc_eq_dec den 0%Qc) as [D | D].
    - rewrite (fdiv_zero _ _ D). apply fdiv_zero. unfold sc. rewrite D. ring.
    - rewrite (fdiv_some _ _ D).
      assert (D2 : sc den <> 0%Qc).
      { unfold sc. intro Z. apply Qcmult_integral in Z. destruct Z; [ apply c_nonzero; assumption | contradiction ]. }
      rewrite (fdiv_some _ _ D2). f_equal. unfold sc. field. split; [ exact D | exact c_nonzero ]. }
  rewrite E. reflexivity.
Qed.
End Scale.

(* ------------------------------------------------------------------ wq_scale: the cell *)
Definition scale_w (c : Qc) (r : srow) : srow := mk_srow (rc r) (rx r) (fmul (Some c) (rw r)).
Definition scale_aw (c : Qc) (aw : F * F) : F * F := (fst aw, fmul (Some c) (snd aw)).

Lemma is_some_fmul c w : is_some (fmul (Some c) w) = is_some w.
Proof. destruct w; reflexivity. Qed.
Lemma wq_seg_scale c seg : wq_seg true (map (scale_w c) seg) = map (scale_aw c) (wq_seg true seg).
Proof.
  unfold wq_seg. rewrite !map_map. apply map_ext. intro r.
  unfold scale_aw, scale_w, summ, svalid. cbn [rx rw fst snd]. rewrite is_some_fmul. reflexivity.
Qed.
Lemma apply_perm_map c perm l : apply_perm perm (map (scale_aw c) l) = map (scale_aw c) (apply_perm perm l).
Proof.
  unfold apply_perm. rewrite map_map. apply map_ext. intro i.
  change (@None Qc, @None Qc) with (scale_aw c (None, None)) at 1. apply map_nth.
Qed.
Lemma pair_some_scale c aw : pair_some (scale_aw c aw) = pair_some aw.
Proof. unfold pair_some, scale_aw. cbn [fst snd]. rewrite is_some_fmul. reflexivity. Qed.
Lemma filter_pair_some_scale c l : filter pair_some (map (scale_aw c) l) = map (scale_aw c) (filter pair_some l).
Proof.
  induction l as [ | aw l IH]; [ reflexivity | ].
  cbn [map filter]. rewrite pair_some_scale. destruct (pair_some aw); cbn [map]; rewrite IH; reflexivity.
Qed.
Lemma forallb_pair_some_scale c l : forallb pair_some (map (scale_aw c) l) = forallb pair_some l.
Proof. induction l as [ | aw l IH]; [ reflexivity | cbn [map forallb]; rewrite pair_some_scale, IH; reflexivity ]. Qed.
Lemma somes_fst_scale c l : somes (map fst (map (scale_aw c) l)) = somes (map fst l).
Proof. rewrite map_map. reflexivity. Qed.
Lemma somes_snd_scale c l : somes (map snd (map (scale_aw c) l)) = map (fun x => (c * x)%Qc) (somes (map snd l)).
Proof.
  induction l as [ | aw l IH]; [ reflexivity | ].
  cbn [map somes]. unfold scale_aw at 1. cbn [snd]. destruct (snd aw); cbn [fmul flift2 map]; rewrite IH; reflexivity.
Qed.

Lemma wq_1d_scale c ign p perm l :
  (0 < c)%Qc -> wq_1d ign p perm (map (scale_aw c) l) = wq_1d ign p perm l.
Proof.
  intro HC. unfold wq_1d. rewrite apply_perm_map.
  assert (G : forall s,
            match map (scale_aw c) s with
            | [] => None
            | _ :: _ => if forallb pair_some (map (scale_aw c) s)
                        then wq_core p (somes (map fst (map (scale_aw c) s))) (somes (map snd (map (scale_aw c) s)))
                        else None
            end
            = match s with
              | [] => None
              | _ :: _ => if forallb pair_some s then wq_core p (somes (map fst s)) (somes (map snd s)) else None
              end).
  { intro s. rewrite forallb_pair_some_scale, somes_fst_scale, somes_snd_scale, (wq_core_scale c HC).
    destruct s; reflexivity. }
  destruct ign.
  - rewrite filter_pair_some_scale. apply G.
  - apply G.
Qed.

Theorem wq_scale c ign p perm seg :
  (0 < c)%Qc ->
  wquantile_cell true ign p perm (map (scale_w c) seg) = wquantile_cell true ign p perm seg.
Proof.
  intro HC. unfold wquantile_cell. rewrite wq_seg_scale, wq_1d_scale by exact HC.
  destruct seg; reflexivity.
Qed.

(* the sort permutation of the rescaled cell is the same (the order only looks at the values) *)
Lemma sort_perm_ok_scale c perm seg :
  sort_perm_ok perm (wq_seg true (map (scale_w c) seg)) = sort_perm_ok perm (wq_seg true seg).
Proof.
  unfold sort_perm_ok. rewrite wq_seg_scale, map_length, apply_perm_map. f_equal.
  induction (apply_perm perm (wq_seg true seg)) as [ | x l IH]; [ reflexivity | ].
  cbn [map sorted_aw]. rewrite IH. destruct l; reflexivity.
Qed.
