(* C18 - formats_agree: the NaN report and the (values, validity) report of one statistic are two
   readings of the same (value, mask) cells - they describe the same missing cells and the same
   values exactly when no unmasked value is non-finite; and the two INPUT formats (NaN-marked,
   (values, validity) with arbitrary values under False) denote the same model input. *)
From Coq Require Import ZArith QArith Qcanon List Bool Lia ZifyBool.
From Catii Require Import Cube.XStats Cube.XStatsSpec Cube.XStatsCell Cube.XStatsBase Cube.XStatsGroup Cube.XStatsStddev.
Import ListNotations.
Open Scope Z_scope.

(* NaN format: a cell reads as missing iff it is NaN; pair format: iff its validity is False *)
Definition formats_agree (s : Qc) (vm : F * bool) : Prop :=
  let n := nan_format vm in
  let pr := pair_format s vm in
  is_some n = snd pr /\                       (* the same missing cells *)
  (snd pr = true -> n = fst pr) /\            (* the same values *)
  (snd pr = false -> fst pr = Some s).        (* the sentinel under False *)

Lemma formats_agree_iff s vm : formats_agree s vm <-> (snd vm = false -> is_some (fst vm) = true).
Proof.
  destruct vm as [v m]. unfold formats_agree, nan_format, pair_format. cbn [fst snd].
  destruct m; cbn [fst snd is_some].
  - split; [ intros _ H; discriminate | intros _; repeat split; intro H; try discriminate; reflexivity ].
  - split.
    + intros [H _] _. exact H.
    + intro H. repeat split; [ apply H; reflexivity | intro D; discriminate ].
Qed.

(* quantile / covariance / correlation and min / max: missings = isnan(result) *)
Theorem formats_of_nan s v : formats_agree s (of_nan v).
Proof. apply formats_agree_iff. unfold of_nan. cbn [fst snd]. destruct v; [ reflexivity | discriminate ]. Qed.

(* stddev: the mask is computed separately from the value; the formats agree when the variance of
   every unmasked cell is finite: always without weights, with weights when the valid weights of the cell
   do not sum to zero *)
Theorem formats_stddev s weighted ign size rows u d :
  0 <= u < size ->
  (weighted = false \/
   wtotal (map (xw_of weighted) (filter (svalid weighted) (cell_s u rows))) <> 0%Qc) ->
  formats_agree s (nth (Z.to_nat u) (stddev weighted ign size rows) d).
Proof.
  intros H HW. apply formats_agree_iff. intro HM.
  destruct (stddev_spec weighted ign size rows u d H) as [_ [S1 S2]].
  destruct HW as [-> | HW].
  - destruct (S2 HM eq_refl) as [E _]. rewrite E. reflexivity.
  - rewrite (S1 HM HW). reflexivity.
Qed.

(* ------------------------------------------------------------------ input formats *)
(* (values, validity): whatever sits under validity False does not reach the model *)
Theorem normalize_hidden_irrelevant vals vals' valid :
  length vals = length vals' ->
  (forall i, nth i valid false = true -> nth i vals 0%Qc = nth i vals' 0%Qc) ->
  normalize vals valid = normalize vals' valid.
Proof.
  revert vals' valid. induction vals as [ | v vals IH]; intros vals' valid HL H.
  - destruct vals'; [ reflexivity | discriminate ].
  - destruct vals' as [ | v' vals']; [ discriminate | ].
    destruct valid as [ | b valid]; [ reflexivity | ].
    cbn [normalize]. f_equal.
    + destruct b; [ | reflexivity ]. f_equal. apply (H 0%nat). reflexivity.
    + apply IH; [ cbn [length] in HL; lia | ]. intros i Hi. apply (H (S i)). exact Hi.
Qed.
(* NaN-marked: the same rows written as (values, validity) give the same model input *)
Theorem normalize_nan_marked (l : list F) : normalize (map unF l) (map is_some l) = l.
Proof.
  induction l as [ | x l IH]; [ reflexivity | ].
  cbn [map normalize]. rewrite IH. destruct x; reflexivity.
Qed.
