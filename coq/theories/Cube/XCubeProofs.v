(* Proofs about the array-cube model Cube/XCube.v: the multipliers are the textbook row-major
   strides, the coordinate the code computes (astype(mintype), `* m`, reduce(add)) is the flat
   row-major index of the row's cell and never wraps, and the array cube returns, for every cell in
   row-major order, its per-cell function applied to exactly the rows of that cell. *)
From Coq Require Import ZArith QArith Qcanon List Bool Lia.
From Catii Require Import Base.Cases Base.Sorted Cube.Dim Cube.Count Cube.Direct Cube.FFuncs Cube.XCube Cube.AggBase.
Import ListNotations.
Open Scope Z_scope.

(* the textbook strides and the row-major flat index *)
Fixpoint mults_spec (shape : list Z) : list Z :=
  match shape with [] => [] | e :: s => prodZ s :: mults_spec s end.
Fixpoint flat (shape cell : list Z) : Z :=
  match shape, cell with e :: s, c :: cs => c * prodZ s + flat s cs | _, _ => 0 end.

Definition xhyps (N : Z) (arrs : list (Z -> Z)) (shape : list Z) : Prop :=
  0 <= N /\ Forall (fun e => 0 <= e) shape /\ prodZ shape <= 4294967295 /\
  Forall2 (fun a e => forall r, 0 <= r < N -> 0 <= a r < e) arrs shape.

Local Notation inshape shape cell := (Forall2 (fun e c : Z => 0 <= c < e) shape cell).

(* ---- products, cumprod, multipliers ---- *)
Lemma prodZ_cons e s : prodZ (e :: s) = e * prodZ s.
Proof. reflexivity. Qed.

Lemma prodZ_app a b : prodZ (a ++ b) = prodZ a * prodZ b.
Proof.
  induction a as [|x a IH]; cbn [app].
  - unfold prodZ at 2. cbn [fold_right]. lia.
  - rewrite !prodZ_cons, IH. ring.
Qed.

Lemma prodZ_rev l : prodZ (rev l) = prodZ l.
Proof.
  induction l as [|x l IH]; cbn [rev]; [reflexivity|].
  rewrite prodZ_app, IH, !prodZ_cons. unfold prodZ at 2. cbn [fold_right]. ring.
Qed.

Lemma prodZ_nonneg shape : Forall (fun e => 0 <= e) shape -> 0 <= prodZ shape.
Proof.
  induction 1 as [|e s He Hs IH]; [unfold prodZ; cbn [fold_right]; lia|].
  rewrite prodZ_cons. apply Z.mul_nonneg_nonneg; assumption.
Qed.

Lemma cumprod_from_snoc l : forall acc e,
  cumprod_from acc (l ++ [e]) = cumprod_from acc l ++ [acc * prodZ l * e].
Proof.
  induction l as [|x l IH]; intros acc e; cbn [app cumprod_from].
  - f_equal. unfold prodZ. cbn [fold_right]. ring.
  - rewrite IH, prodZ_cons.
    replace (acc * (x * prodZ l) * e) with (acc * x * prodZ l * e) by ring. reflexivity.
Qed.

Lemma cumprod_rev_cons e s : rev (cumprod_rev (e :: s)) = (e * prodZ s) :: rev (cumprod_rev s).
Proof.
  unfold cumprod_rev. cbn [rev]. rewrite cumprod_from_snoc, rev_app_distr. cbn [rev app].
  rewrite prodZ_rev. f_equal. ring.
Qed.

Lemma rev_cumprod_rev_1 s : rev (cumprod_rev s) ++ [1] = prodZ s :: mults_spec s.
Proof.
  induction s as [|e s IH]; [reflexivity|].
  rewrite cumprod_rev_cons, <- app_comm_cons, IH. reflexivity.
Qed.

Lemma multipliers_spec shape : shape <> [] -> multipliers shape = mults_spec shape.
Proof.
  destruct shape as [|e s]; [congruence|]. intros _.
  unfold multipliers. rewrite cumprod_rev_cons. cbn [tl]. rewrite rev_cumprod_rev_1. reflexivity.
Qed.

Lemma maxmult_prod shape : maxmult shape = prodZ shape.
Proof.
  destruct shape as [|e s]; [reflexivity|].
  unfold maxmult, cumprod_rev. cbn [rev].
  rewrite cumprod_from_snoc, last_last, prodZ_rev, prodZ_cons. ring.
Qed.

(* ---- mintype, wrap, strided dimensions ---- *)
Lemma mintype_bits_ok mm : mm <= 4294967295 ->
  exists bits, mintype_bits mm = Some bits /\ mm < 2 ^ bits /\ 0 < bits.
Proof.
  intros H. unfold mintype_bits.
  destruct (mm <=? 255) eqn:E1.
  { apply Z.leb_le in E1. exists 8. change (2 ^ 8) with 256. repeat split; lia. }
  destruct (mm <=? 65535) eqn:E2.
  { apply Z.leb_le in E2. exists 16. change (2 ^ 16) with 65536. repeat split; lia. }
  destruct (mm <=? 4294967295) eqn:E3.
  { apply Z.leb_le in E3. exists 32. change (2 ^ 32) with 4294967296. repeat split; lia. }
  apply Z.leb_gt in E3. lia.
Qed.

Lemma wrap_small bits v : 0 <= v < 2 ^ bits -> wrap bits v = v.
Proof. intros H. unfold wrap. apply Z.mod_small. exact H. Qed.

Lemma fst_strided bits m a r : fst (strided_fun bits m a) r = wrap bits (a r) * m.
Proof.
  unfold strided_fun. destruct (m =? 1) eqn:E; cbn [fst]; [|reflexivity].
  apply Z.eqb_eq in E. subst m. ring.
Qed.

Fixpoint sumf (l : list sfun) (r : Z) : Z :=
  match l with [] => 0 | s :: l' => fst s r + sumf l' r end.

Lemma sumf_nonneg l r : Forall (fun t : sfun => 0 <= fst t r) l -> 0 <= sumf l r.
Proof. induction 1 as [|t l Ht Hl IH]; cbn [sumf]; lia. Qed.

(* reduce(operator.add): no narrow addition wraps when the total fits the mintype *)
Lemma fold_add_sfun bits r rest : forall s,
  0 <= fst s r -> Forall (fun t : sfun => 0 <= fst t r) rest ->
  fst s r + sumf rest r < 2 ^ bits ->
  fst (fold_left (add_sfun bits) rest s) r = fst s r + sumf rest r.
Proof.
  induction rest as [|t rest IH]; intros s Hs Hr Hlt; cbn [fold_left sumf].
  - lia.
  - inversion Hr as [|? ? Ht Hr']; subst. pose proof (sumf_nonneg _ _ Hr') as Hn.
    cbn [sumf] in Hlt.
    assert (Hadd : fst (add_sfun bits s t) r = fst s r + fst t r).
    { unfold add_sfun. destruct (snd s && snd t); cbn [fst]; [apply wrap_small; lia|reflexivity]. }
    rewrite IH; rewrite ?Hadd; try assumption; lia.
Qed.

(* ---- the flat index of in-shape cells ---- *)
Lemma flat_bound shape cell : inshape shape cell -> 0 <= flat shape cell < prodZ shape.
Proof.
  induction 1 as [|e c s cs Hc Hs IH].
  - unfold prodZ. cbn [flat fold_right]. lia.
  - cbn [flat]. rewrite prodZ_cons. nia.
Qed.

Lemma cell_lt_prod shape cell : inshape shape cell -> Forall (fun c => 0 <= c < prodZ shape) cell.
Proof.
  induction 1 as [|e c s cs Hc Hs IH]; [constructor|].
  pose proof (flat_bound _ _ Hs) as Hb. rewrite prodZ_cons. constructor.
  - nia.
  - eapply Forall_impl; [|exact IH]. cbn beta. intros x Hx. nia.
Qed.

Lemma arrs_inshape r (arrs : list (Z -> Z)) shape :
  Forall2 (fun (a : Z -> Z) e => 0 <= a r < e) arrs shape -> inshape shape (map (fun a => a r) arrs).
Proof. induction 1 as [|a e as' s Ha Hs IH]; cbn [map]; constructor; assumption. Qed.

Lemma xhyps_row N arrs shape r : xhyps N arrs shape -> 0 <= r < N ->
  Forall2 (fun (a : Z -> Z) e => 0 <= a r < e) arrs shape.
Proof.
  intros (_ & _ & _ & HF) Hr.
  induction HF as [|a e as' s Ha Hs IH]; constructor; [apply Ha; exact Hr|exact IH].
Qed.

Lemma xhyps_inshape N arrs shape r : xhyps N arrs shape -> 0 <= r < N ->
  inshape shape (map (fun a => a r) arrs).
Proof. intros H Hr. apply arrs_inshape. eapply xhyps_row; eassumption. Qed.

Lemma sumf_strided bits r : forall (arrs : list (Z -> Z)) shape,
  Forall2 (fun (a : Z -> Z) e => 0 <= a r < e) arrs shape ->
  Forall (fun a : Z -> Z => a r < 2 ^ bits) arrs ->
  sumf (map (fun ma : Z * (Z -> Z) => strided_fun bits (fst ma) (snd ma))
            (combine (mults_spec shape) arrs)) r
  = flat shape (map (fun a => a r) arrs)
  /\ Forall (fun t : sfun => 0 <= fst t r)
            (map (fun ma : Z * (Z -> Z) => strided_fun bits (fst ma) (snd ma))
                 (combine (mults_spec shape) arrs)).
Proof.
  intros arrs shape H. induction H as [|a e as' s Ha Hs IH]; intros Hb.
  - split; [reflexivity|constructor].
  - inversion Hb as [|? ? Hba Hb']; subst. destruct (IH Hb') as [IH1 IH2].
    pose proof (flat_bound _ _ (arrs_inshape _ _ _ Hs)) as Hp.
    cbn [mults_spec combine map sumf flat fst snd].
    rewrite fst_strided, wrap_small by lia.
    split; [rewrite IH1; reflexivity|].
    constructor; [|exact IH2]. rewrite fst_strided, wrap_small by lia. nia.
Qed.

(* mixed radix: the coordinate the code computes is the flat index of the row's cell *)
Theorem stride_bijection N arrs shape : xhyps N arrs shape -> arrs <> [] ->
  exists c, xcoords shape arrs = XCoords c /\
            forall r, 0 <= r < N -> c r = flat shape (map (fun a => a r) arrs) /\ 0 <= c r < prodZ shape.
Proof.
  intros H Hne. pose proof H as (HN & Hext & Hsz & HF).
  destruct arrs as [|a as']; [congruence|].
  inversion HF as [|? e ? s Ha HF']; subst.
  destruct (mintype_bits_ok _ Hsz) as (bits & Hb & Hlt & Hpos).
  unfold xcoords. rewrite maxmult_prod, Hb, multipliers_spec by discriminate.
  cbn [mults_spec combine map fst snd].
  eexists; split; [reflexivity|].
  intros r Hr.
  pose proof (xhyps_row _ _ _ r H Hr) as HFr.
  pose proof (arrs_inshape _ _ _ HFr) as Hin.
  pose proof (flat_bound _ _ Hin) as Hfb.
  pose proof (cell_lt_prod _ _ Hin) as Hcl.
  assert (Hbnd : Forall (fun a : Z -> Z => a r < 2 ^ bits) (a :: as')).
  { apply Forall_map in Hcl. eapply Forall_impl; [|exact Hcl]. cbn beta. intros x Hx. lia. }
  destruct (sumf_strided bits r _ _ HFr Hbnd) as [S1 S2].
  cbn [mults_spec combine map fst snd] in S1, S2.
  inversion S2 as [|? ? S2a S2b]; subst.
  cbn [sumf] in S1. cbn [map] in Hfb.
  rewrite fold_add_sfun; try assumption; rewrite S1; lia.
Qed.

(* ---- all_cells enumerates the flat indices in order ---- *)
Lemma map_zseq_shift k n : forall s, map (fun v => k + v) (zseq s n) = zseq (k + s) n.
Proof.
  induction n as [|n IH]; intros s; cbn [zseq map]; [reflexivity|].
  f_equal. rewrite IH. f_equal. lia.
Qed.

Lemma zseq_app a b : forall s, zseq s (a + b)%nat = zseq s a ++ zseq (s + Z.of_nat a) b.
Proof.
  induction a as [|a IH]; intros s.
  - cbn [Nat.add zseq app]. f_equal. lia.
  - change (S a + b)%nat with (S (a + b))%nat. cbn [zseq app]. f_equal. rewrite IH. f_equal. f_equal. lia.
Qed.

Lemma flat_map_blocks p : forall n s,
  flat_map (fun c => map (fun v => c * Z.of_nat p + v) (zseq 0 p)) (zseq s n)
  = zseq (s * Z.of_nat p) (n * p)%nat.
Proof.
  induction n as [|n IH]; intros s; [reflexivity|].
  change (S n * p)%nat with (p + n * p)%nat. cbn [zseq flat_map].
  rewrite IH, map_zseq_shift, zseq_app. f_equal; f_equal; lia.
Qed.

Lemma map_of_flat_map {A B C : Type} (f : B -> C) (g : A -> list B) l :
  map f (flat_map g l) = flat_map (fun x => map f (g x)) l.
Proof. induction l as [|x l IH]; cbn [flat_map map]; [reflexivity|]. rewrite map_app, IH. reflexivity. Qed.

Lemma flat_all_cells shape : Forall (fun e => 0 <= e) shape ->
  map (flat shape) (all_cells shape) = zrange (prodZ shape).
Proof.
  induction 1 as [|e s He Hs IH]; [reflexivity|].
  pose proof (prodZ_nonneg _ Hs) as HP.
  cbn [all_cells]. rewrite map_of_flat_map.
  rewrite (flat_map_ext _ (fun c => map (fun v => c * Z.of_nat (Z.to_nat (prodZ s)) + v)
                                         (zseq 0 (Z.to_nat (prodZ s))))).
  - rewrite <- zrange_rowrange. unfold zrange. rewrite flat_map_blocks.
    rewrite prodZ_cons, Z2Nat.inj_mul by assumption. reflexivity.
  - intros c. rewrite map_map. change (zseq 0 (Z.to_nat (prodZ s))) with (zrange (prodZ s)).
    rewrite <- IH, map_map, Z2Nat.id by assumption. reflexivity.
Qed.

Lemma flat_inj shape x y : inshape shape x -> inshape shape y -> flat shape x = flat shape y -> x = y.
Proof.
  revert x y. induction shape as [|e s IH]; intros x y Hx Hy Hf.
  - inversion Hx; inversion Hy; reflexivity.
  - inversion Hx as [|? c1 ? cs1 Hc1 Hs1]; subst. inversion Hy as [|? c2 ? cs2 Hc2 Hs2]; subst.
    cbn [flat] in Hf. pose proof (flat_bound _ _ Hs1). pose proof (flat_bound _ _ Hs2).
    assert (c1 = c2) by nia. subst c2. f_equal. apply IH; try assumption. lia.
Qed.

Lemma all_cells_in_shape shape cell : In cell (all_cells shape) -> inshape shape cell.
Proof.
  revert cell. induction shape as [|e s IH]; intros cell H; cbn [all_cells] in H.
  - destruct H as [<-|[]]. constructor.
  - apply in_flat_map in H. destruct H as (c & Hc & H).
    apply in_map_iff in H. destruct H as (cs & <- & Hcs).
    constructor; [apply In_rowrange_iff; exact Hc|apply IH; exact Hcs].
Qed.

(* ---- segments are cell rows ---- *)
Lemma seg_crows N c u : seg (crows N c) u = filter (fun r => c r =? u) (rowrange N).
Proof.
  unfold seg, crows. induction (rowrange N) as [|r l IH]; cbn [map filter snd]; [reflexivity|].
  destruct (c r =? u); cbn [map fst]; rewrite IH; reflexivity.
Qed.

Lemma row_in_cell_f_iff (arrs : list (Z -> Z)) : forall cell r,
  row_in_cell_f arrs cell r = true <-> map (fun a : Z -> Z => a r) arrs = cell.
Proof.
  induction arrs as [|a as' IH]; intros [|c cs] r; cbn [row_in_cell_f map].
  - split; reflexivity.
  - split; discriminate.
  - split; discriminate.
  - rewrite andb_true_iff, Z.eqb_eq, IH. split.
    + intros [-> ->]. reflexivity.
    + intros E. inversion E. split; reflexivity.
Qed.

Lemma cell_rows_flat N arrs shape c cell : xhyps N arrs shape ->
  (forall r, 0 <= r < N -> c r = flat shape (map (fun a => a r) arrs)) ->
  inshape shape cell ->
  filter (fun r => c r =? flat shape cell) (rowrange N) = cell_rows_f N arrs cell.
Proof.
  intros H Hc Hcell. unfold cell_rows_f. apply filter_ext_in. intros r Hr.
  apply In_rowrange_iff in Hr. rewrite (Hc r Hr).
  pose proof (xhyps_inshape _ _ _ r H Hr) as Hin.
  destruct (row_in_cell_f arrs cell r) eqn:R.
  - apply row_in_cell_f_iff in R. rewrite R. apply Z.eqb_refl.
  - apply Z.eqb_neq. intros F. apply flat_inj in F; try assumption.
    apply row_in_cell_f_iff in F. congruence.
Qed.

Lemma bincount_ok_true N c size : (forall r, 0 <= r < N -> 0 <= c r < size) ->
  bincount_ok (crows N c) size = true.
Proof.
  intros H. unfold bincount_ok, crows. apply forallb_forall. intros p Hp.
  apply in_map_iff in Hp. destruct Hp as (r & <- & Hr). apply In_rowrange_iff in Hr.
  cbn [snd]. specialize (H r Hr). apply andb_true_iff.
  split; [apply Z.leb_le|apply Z.ltb_lt]; lia.
Qed.

(* ---- no dimensions ---- *)
Lemma filter_true {A : Type} (l : list A) : filter (fun _ => true) l = l.
Proof. induction l as [|x l IH]; cbn [filter]; [reflexivity|]. rewrite IH. reflexivity. Qed.

Lemma lenZ_rowrange N : 0 <= N -> lenZ (rowrange N) = N.
Proof. intros H. unfold lenZ, rowrange. rewrite map_length, seq_length. lia. Qed.

Lemma cell_rows_f_nil N : cell_rows_f N [] [] = rowrange N.
Proof.
  unfold cell_rows_f. erewrite filter_ext; [apply filter_true|]. intros r. reflexivity.
Qed.

Lemma xcoords_nil : xcoords [] [] = XDimless.
Proof. reflexivity. Qed.

(* ---- the structural theorem ---- *)
Lemma xcube_cells_core N arrs e s : xhyps N arrs (e :: s) ->
  exists c, xcoords (e :: s) arrs = XCoords c /\
            bincount_ok (crows N c) (prodZ (e :: s)) = true /\
            forall (X : Type) (F : list Z -> X),
              map (fun u => F (seg (crows N c) u)) (zrange (prodZ (e :: s)))
              = map (fun cell => F (cell_rows_f N arrs cell)) (all_cells (e :: s)).
Proof.
  intros H. pose proof H as (HN & Hext & Hsz & HF).
  assert (Hne : arrs <> []) by (inversion HF; discriminate).
  destruct (stride_bijection _ _ _ H Hne) as (c & Hc & Hr).
  exists c. split; [exact Hc|]. split.
  - apply bincount_ok_true. intros r Hr'. apply (Hr r Hr').
  - intros X F. rewrite <- (flat_all_cells _ Hext), map_map. apply map_ext_in.
    intros cell Hcell. rewrite seg_crows.
    rewrite (cell_rows_flat N arrs (e :: s) c cell H); [reflexivity| |].
    + intros r Hr'. apply (Hr r Hr').
    + apply all_cells_in_shape. exact Hcell.
Qed.

Definition xpath_of (A : agg) (f : fact) (shape : list Z) : xpath :=
  match shape with [] => PZero | _ => path_of A f end.

Theorem xcube_agg_cells A N arrs shape h f w ign : xhyps N arrs shape ->
  xcube_agg A N arrs shape h f w ign =
  Some (map (fun cell => let rows := cell_rows_f N arrs cell in
                         x_cols A h f (norm_w h w) (xpath_of A f shape) ign (lenZ rows) rows)
            (all_cells shape)).
Proof.
  intros H. destruct shape as [|e s].
  - destruct H as (HN & _ & _ & HF). inversion HF; subst.
    unfold xcube_agg. rewrite xcoords_nil. cbn [all_cells map xpath_of]. cbv zeta.
    rewrite cell_rows_f_nil, lenZ_rowrange by assumption. reflexivity.
  - destruct (xcube_cells_core N arrs e s H) as (c & Hc & Hb & Hm).
    unfold xcube_agg, xpath_of. rewrite Hc. cbv beta iota zeta.
    destruct (path_of A f); rewrite ?Hb; f_equal;
      exact (Hm _ (fun rows => x_cols A h f (norm_w h w) _ ign (lenZ rows) rows)).
Qed.

Theorem xcube_valid_count_plain0_cells N arrs shape h f w : xhyps N arrs shape ->
  xcube_valid_count_plain0 N arrs shape h f w =
  Some (map (fun cell => x_cols_plain0 f (norm_w h w) (cell_rows_f N arrs cell)) (all_cells shape)).
Proof.
  intros H. destruct shape as [|e s].
  - destruct H as (HN & _ & _ & HF). inversion HF; subst.
    unfold xcube_valid_count_plain0. rewrite xcoords_nil. cbn [all_cells map]. cbv zeta.
    rewrite cell_rows_f_nil. reflexivity.
  - destruct (xcube_cells_core N arrs e s H) as (c & Hc & Hb & Hm).
    unfold xcube_valid_count_plain0. rewrite Hc. cbv beta iota zeta.
    destruct (path_of AValidCount f); rewrite ?Hb; f_equal;
      exact (Hm _ (fun rows => x_cols_plain0 f (norm_w h w) rows)).
Qed.

Print Assumptions stride_bijection.
Print Assumptions xcube_agg_cells.
Print Assumptions xcube_valid_count_plain0_cells.
