(* C18 - cov_spec / corr_missing_spec: numpy.cov / corrcoef per cell over NaN-masked rows, as modelled
   (None-absorbing sums), is the (weighted) covariance of the rows of the cell that enter the entry:
   the complete rows when missing values are ignored, all rows otherwise - and then the entry is
   missing as soon as one row lacks either column (or the weight). *)
From Coq Require Import ZArith QArith Qcanon List Bool Lia ZifyBool.
From Catii Require Import Cube.XStats Cube.XStatsSpec Cube.XStatsCell Cube.XStatsBase Cube.XStatsGroup.
Import ListNotations.
Open Scope Z_scope.

(* ------------------------------------------------------------------ entries of a row *)
Lemma colF_raw weighted i r :
  colF weighted i r = if is_some (rawcol i r) && mwvalid weighted r then rawcol i r else None.
Proof.
  unfold colF, marr, rawcol.
  exact (map_nth (fun x => if is_some x && mwvalid weighted r then x else None) (mxs r) None i).
Qed.
Lemma pair_valid_cols weighted i j r :
  pair_valid weighted i j r = true ->
  colF weighted i r = Some (fst (fst (xyw_of weighted i j r))) /\
  colF weighted j r = Some (snd (fst (xyw_of weighted i j r))) /\
  mweight weighted r = Some (snd (xyw_of weighted i j r)).
Proof.
  unfold pair_valid. intro H. apply andb_prop in H. destruct H as [H Hw]. apply andb_prop in H. destruct H as [Hi Hj].
  rewrite !colF_raw. unfold mwvalid. rewrite Hi, Hj, Hw. cbn [andb].
  unfold xyw_of, mweight. cbn [fst snd].
  destruct (rawcol i r); [ | discriminate ]. destruct (rawcol j r); [ | discriminate ].
  split; [ reflexivity | ]. split; [ reflexivity | ].
  destruct weighted; [ | reflexivity ]. cbn [negb orb] in Hw. destruct (mw r); [ reflexivity | discriminate ].
Qed.
Lemma pair_invalid_cols weighted i j r :
  pair_valid weighted i j r = false -> colF weighted i r = None \/ colF weighted j r = None.
Proof.
  unfold pair_valid. intro H. rewrite !colF_raw. unfold mwvalid.
  destruct (is_some (rawcol i r)); [ | left; reflexivity ].
  destruct (is_some (rawcol j r)); [ | right; reflexivity ].
  cbn [andb] in H. rewrite H. left. reflexivity.
Qed.

Lemma fmul_none_r a : fmul a None = None.
Proof. destruct a; reflexivity. Qed.
Lemma fsub_none_l b : fsub None b = None.
Proof. reflexivity. Qed.
Lemma fdiv_none_r a : fdiv a None = None.
Proof. destruct a; reflexivity. Qed.
Lemma fdiv_none_l b : fdiv None b = None.
Proof. reflexivity. Qed.

(* ------------------------------------------------------------------ numpy.cov on the rows of a cell *)
Lemma npcov_none weighted seg i j r :
  In r seg -> pair_valid weighted i j r = false -> npcov weighted seg i j = None.
Proof.
  intros Hin Hp. unfold npcov.
  rewrite (fsum_none _ seg r Hin); [ reflexivity | ].
  destruct (pair_invalid_cols weighted i j r Hp) as [E | E]; rewrite E.
  - rewrite fsub_none_l. cbn [fmul flift2]. apply fmul_none_r.
  - rewrite fsub_none_l. rewrite !fmul_none_r. reflexivity.
Qed.

Definition tV1 (T : list (Qc * Qc * Qc)) : Qc := sumQc (map snd T).
Definition tV2 (T : list (Qc * Qc * Qc)) : Qc := sumQc (map (fun t => snd t * snd t)%Qc T).

Lemma cov_w_map {A} (g : A -> Qc * Qc * Qc) seg :
  cov_w (map g seg)
  = (let V1 := sumQc (map (fun r => snd (g r)) seg) in
     let V2 := sumQc (map (fun r => snd (g r) * snd (g r)) seg) in
     let mx := sumQc (map (fun r => snd (g r) * fst (fst (g r))) seg) / V1 in
     let my := sumQc (map (fun r => snd (g r) * snd (fst (g r))) seg) / V1 in
     sumQc (map (fun r => snd (g r) * ((fst (fst (g r)) - mx) * (snd (fst (g r)) - my))) seg) / (V1 - V2 / V1))%Qc.
Proof. unfold cov_w. rewrite !map_map. reflexivity. Qed.

Lemma npcov_weighted seg i j :
  Forall (fun r => pair_valid true i j r = true) seg ->
  let T := map (xyw_of true i j) seg in
  tV1 T <> 0%Qc -> (tV1 T - tV2 T / tV1 T)%Qc <> 0%Qc ->
  npcov true seg i j = Some (cov_w T).
Proof.
  intros HV T H1 H2. rewrite Forall_forall in HV.
  assert (C : forall r, In r seg ->
            colF true i r = Some (fst (fst (xyw_of true i j r))) /\
            colF true j r = Some (snd (fst (xyw_of true i j r))) /\
            mweight true r = Some (snd (xyw_of true i j r))).
  { intros r Hr. apply pair_valid_cols. apply HV. exact Hr. }
  unfold tV1, tV2, T in H1, H2. repeat rewrite map_map in H1. repeat rewrite map_map in H2.
  unfold T. rewrite cov_w_map. cbv zeta.
  unfold npcov. rewrite !map_map.
  rewrite (fsum_some (mweight true) (fun r => snd (xyw_of true i j r)) seg) by (intros r Hr; apply (C r Hr)).
  rewrite (fsum_some (fun r => fmul (mweight true r) (colF true i r))
                     (fun r => snd (xyw_of true i j r) * fst (fst (xyw_of true i j r)))%Qc seg).
  2:{ intros r Hr. destruct (C r Hr) as [-> [_ ->]]. reflexivity. }
  rewrite (fsum_some (fun r => fmul (mweight true r) (colF true j r))
                     (fun r => snd (xyw_of true i j r) * snd (fst (xyw_of true i j r)))%Qc seg).
  2:{ intros r Hr. destruct (C r Hr) as [_ [-> ->]]. reflexivity. }
  rewrite (fsum_some (fun r => fmul (mweight true r) (mweight true r))
                     (fun r => snd (xyw_of true i j r) * snd (xyw_of true i j r))%Qc seg).
  2:{ intros r Hr. destruct (C r Hr) as [_ [_ ->]]. reflexivity. }
  rewrite !fdiv_some by exact H1. cbn [fsub flift2].
  set (mx := (sumQc (map (fun r => snd (xyw_of true i j r) * fst (fst (xyw_of true i j r))) seg)
              / sumQc (map (fun r => snd (xyw_of true i j r)) seg))%Qc).
  set (my := (sumQc (map (fun r => snd (xyw_of true i j r) * snd (fst (xyw_of true i j r))) seg)
              / sumQc (map (fun r => snd (xyw_of true i j r)) seg))%Qc).
  rewrite (fsum_some _ (fun r => snd (xyw_of true i j r)
                                 * ((fst (fst (xyw_of true i j r)) - mx) * (snd (fst (xyw_of true i j r)) - my)))%Qc seg).
  2:{ intros r Hr. destruct (C r Hr) as [-> [-> ->]]. reflexivity. }
  rewrite fdiv_some by exact H2. reflexivity.
Qed.

Lemma npcov_unweighted seg i j :
  Forall (fun r => pair_valid false i j r = true) seg -> 2 <= lenZ seg ->
  npcov false seg i j = Some (cov_u (map fst (map (xyw_of false i j) seg))).
Proof.
  intros HV HN. rewrite Forall_forall in HV.
  assert (C : forall r, In r seg ->
            colF false i r = Some (fst (fst (xyw_of false i j r))) /\
            colF false j r = Some (snd (fst (xyw_of false i j r))) /\
            mweight false r = Some 1%Qc).
  { intros r Hr. destruct (pair_valid_cols false i j r (HV r Hr)) as [A [B _]]. repeat split; assumption. }
  assert (N0 : ofZ (lenZ seg) <> 0%Qc) by (apply ofZ_nonzero; lia).
  assert (N1 : ofZ (lenZ seg - 1) <> 0%Qc) by (apply ofZ_nonzero; lia).
  unfold npcov.
  rewrite (fsum_some (mweight false) (fun _ => 1%Qc) seg) by (intros r Hr; apply (C r Hr)).
  rewrite sumQc_ones.
  rewrite (fsum_some (fun r => fmul (mweight false r) (colF false i r))
                     (fun r => fst (fst (xyw_of false i j r))) seg).
  2:{ intros r Hr. destruct (C r Hr) as [-> [_ ->]]. cbn [fmul flift2]. f_equal. ring. }
  rewrite (fsum_some (fun r => fmul (mweight false r) (colF false j r))
                     (fun r => snd (fst (xyw_of false i j r))) seg).
  2:{ intros r Hr. destruct (C r Hr) as [_ [-> ->]]. cbn [fmul flift2]. f_equal. ring. }
  rewrite !fdiv_some by exact N0.
  set (mx := (sumQc (map (fun r => fst (fst (xyw_of false i j r))) seg) / ofZ (lenZ seg))%Qc).
  set (my := (sumQc (map (fun r => snd (fst (xyw_of false i j r))) seg) / ofZ (lenZ seg))%Qc).
  rewrite (fsum_some _ (fun r => (fst (fst (xyw_of false i j r)) - mx) * (snd (fst (xyw_of false i j r)) - my))%Qc seg).
  2:{ intros r Hr. destruct (C r Hr) as [-> [-> ->]]. cbn [fsub fmul flift2]. f_equal. ring. }
  unfold fZ. rewrite fdiv_some by exact N1. f_equal.
  unfold cov_u. rewrite !lenZ_map, !map_map. reflexivity.
Qed.

Lemma npcov_single weighted r i j : npcov weighted [r] i j = None.
Proof.
  unfold npcov. cbn [map fsum].
  match goal with |- fdiv ?n ?f = None =>
    assert (Hf : f = None \/ f = Some 0%Qc);
      [ | destruct Hf as [-> | ->]; [ apply fdiv_none_r | apply fdiv_zero; reflexivity ] ] end.
  destruct weighted.
  - destruct (mweight true r) as [w | ]; [ | left; reflexivity ].
    cbn [fadd fmul flift2].
    destruct (Qc_eq_dec (w + 0)%Qc 0%Qc) as [E | E].
    + rewrite (fdiv_zero _ _ E). left. reflexivity.
    + rewrite fdiv_some by exact E. right. cbn [fsub flift2]. f_equal. field. intro W. apply E. rewrite W. ring.
  - right. unfold fZ. change (lenZ [r] - 1) with 0. rewrite ofZ_0. reflexivity.
Qed.

(* ------------------------------------------------------------------ rows used *)
Lemma forallb_map_c {A B} (f : B -> bool) (g : A -> B) l : forallb f (map g l) = forallb (fun x => f (g x)) l.
Proof. induction l as [ | x l IH]; [ reflexivity | cbn [map forallb]; rewrite IH; reflexivity ]. Qed.
Lemma forallb_ext_c {A} (f g : A -> bool) l : (forall x, f x = g x) -> forallb f l = forallb g l.
Proof. intro H. induction l as [ | x l IH]; [ reflexivity | cbn [forallb]; rewrite IH, H; reflexivity ]. Qed.
Lemma complete_row_complete weighted r : mxs r <> [] -> complete weighted r = row_complete weighted r.
Proof.
  intro HX. unfold complete, row_complete, marr. rewrite forallb_map_c. unfold mwvalid.
  destruct (negb weighted || is_some (mw r)).
  - rewrite andb_true_r. apply forallb_ext_c. intro x. destruct x; reflexivity.
  - rewrite andb_false_r. destruct (mxs r) as [ | x l]; [ contradiction | ].
    cbn [forallb]. rewrite andb_false_r. reflexivity.
Qed.
Lemma complete_pair_valid weighted r i j :
  complete weighted r = true -> (i < length (mxs r))%nat -> (j < length (mxs r))%nat ->
  pair_valid weighted i j r = true.
Proof.
  intros HC Hi Hj.
  assert (G : forall k, (k < length (mxs r))%nat -> is_some (rawcol k r) && mwvalid weighted r = true).
  { intros k Hk. unfold complete in HC. rewrite forallb_forall in HC.
    assert (I : In (colF weighted k r) (marr weighted r)).
    { unfold colF. apply nth_In. unfold marr. rewrite map_length. exact Hk. }
    pose proof (HC _ I) as S. rewrite colF_raw in S.
    destruct (is_some (rawcol k r) && mwvalid weighted r); [ reflexivity | discriminate ]. }
  pose proof (G i Hi) as Gi. pose proof (G j Hj) as Gj.
  apply andb_prop in Gi. apply andb_prop in Gj. destruct Gi as [Gi Gw]. destruct Gj as [Gj _].
  unfold pair_valid. unfold mwvalid in Gw. rewrite Gi, Gj, Gw. reflexivity.
Qed.

(* ------------------------------------------------------------------ cov_spec *)
Theorem cov_seg_spec weighted ign i j seg0 :
  let used := mused weighted ign seg0 in       (* complete rows of the cell | all rows of the cell *)
  let T := map (xyw_of weighted i j) used in
  (lenZ used < 2 -> cov_seg weighted ign i j seg0 = None) /\
  ((exists r, In r used /\ pair_valid weighted i j r = false) -> cov_seg weighted ign i j seg0 = None) /\
  (Forall (fun r => pair_valid weighted i j r = true) used -> 2 <= lenZ used ->
     if weighted
     then tV1 T <> 0%Qc -> (tV1 T - tV2 T / tV1 T)%Qc <> 0%Qc -> cov_seg weighted ign i j seg0 = Some (cov_w T)
     else cov_seg weighted ign i j seg0 = Some (cov_u (map fst T))).
Proof.
  intros used T. unfold cov_seg. fold used. split; [ | split ].
  - intro H. replace (1 <? lenZ used) with false by lia. reflexivity.
  - intros [r [Hr Hp]]. destruct (1 <? lenZ used); [ | reflexivity ]. eapply npcov_none; eassumption.
  - intros HV HN. replace (1 <? lenZ used) with true by lia.
    destruct weighted.
    + intros H1 H2. apply npcov_weighted; assumption.
    + apply npcov_unweighted; assumption.
Qed.

Theorem cov_spec weighted ign ncol size rows u i j d :
  0 <= u < size -> (i < ncol)%nat -> (j < ncol)%nat ->
  let seg0 := cell_m u rows in
  let used := mused weighted ign seg0 in
  let T := map (xyw_of weighted i j) used in
  let out := nth (i * ncol + j) (nth (Z.to_nat u) (covariance weighted ign ncol size rows) d) None in
  (lenZ used < 2 -> out = None) /\
  ((exists r, In r used /\ pair_valid weighted i j r = false) -> out = None) /\
  (Forall (fun r => pair_valid weighted i j r = true) used -> 2 <= lenZ used ->
     if weighted
     then tV1 T <> 0%Qc -> (tV1 T - tV2 T / tV1 T)%Qc <> 0%Qc -> out = Some (cov_w T)
     else out = Some (cov_u (map fst T))).
Proof.
  intros H Hi Hj seg0 used T out.
  assert (EO : out = cov_seg weighted ign i j seg0).
  { unfold out. rewrite covariance_group, per_cell_nth by exact H.
    apply (matrix_entry (fun i j => cov_seg weighted ign i j (filter (fun r => mc r =? u) rows))); assumption. }
  rewrite EO. apply cov_seg_spec.
Qed.

(* which rows are used: complete rows when ignoring (then every pair of in-range columns is present) *)
Theorem cov_used_rows weighted ign seg0 :
  (ign = true -> mused weighted ign seg0 = filter (complete weighted) seg0 /\
                 forall r i j, In r (mused weighted ign seg0) -> (i < length (mxs r))%nat -> (j < length (mxs r))%nat ->
                               pair_valid weighted i j r = true) /\
  (ign = false -> mused weighted ign seg0 = seg0).
Proof.
  split; intros ->; unfold mused; [ | reflexivity ].
  split; [ reflexivity | ]. intros r i j Hr Hi Hj. apply complete_pair_valid; [ | assumption | assumption ].
  eapply filter_In_true. exact Hr.
Qed.

(* ------------------------------------------------------------------ corr_missing_spec *)
Theorem corr_seg_spec weighted ign i j seg0 :
  let used := mused weighted ign seg0 in
  (lenZ used < 2 -> corr_seg weighted ign i j seg0 = None) /\
  ((exists r, In r used /\ pair_valid weighted i j r = false) -> corr_seg weighted ign i j seg0 = None) /\
  (forall cij cii cjj, corr_seg weighted ign i j seg0 = Some (cij, cii, cjj) ->
     npcov weighted used i j = Some cij /\ npcov weighted used i i = Some cii /\ npcov weighted used j j = Some cjj /\
     (cii * cjj)%Qc <> 0%Qc /\ Forall (fun r => pair_valid weighted i j r = true) used /\ 2 <= lenZ used).
Proof.
  intros used. unfold corr_seg. fold used. split; [ | split ].
  - intro H. destruct used as [ | r [ | r' l]]; [ reflexivity | | ].
    + rewrite npcov_single. reflexivity.
    + rewrite !lenZ_cons in H. pose proof (lenZ_nonneg l). lia.
  - intros [r [Hr Hp]]. destruct used as [ | r0 l] eqn:E; [ reflexivity | ].
    rewrite (npcov_none weighted (r0 :: l) i j r Hr Hp). reflexivity.
  - intros cij cii cjj H. destruct used as [ | r0 l] eqn:E; [ discriminate | ].
    destruct (npcov weighted (r0 :: l) i j) as [a | ] eqn:E1; [ | discriminate ].
    destruct (npcov weighted (r0 :: l) i i) as [b | ] eqn:E2; [ | discriminate ].
    destruct (npcov weighted (r0 :: l) j j) as [c | ] eqn:E3; [ | discriminate ].
    destruct (qc_is0 (b * c)%Qc) eqn:E4; [ discriminate | ].
    inversion H; subst. repeat split; try reflexivity.
    + apply qc_is0_false. exact E4.
    + apply Forall_forall. intros r Hr. destruct (pair_valid weighted i j r) eqn:Ep; [ reflexivity | ].
      rewrite (npcov_none weighted (r0 :: l) i j r Hr Ep) in E1. discriminate.
    + destruct l as [ | r1 l]; [ rewrite npcov_single in E1; discriminate | ].
      rewrite !lenZ_cons. pose proof (lenZ_nonneg l). lia.
Qed.

Theorem corr_missing_spec weighted ign ncol size rows u i j d :
  0 <= u < size -> (i < ncol)%nat -> (j < ncol)%nat ->
  let used := mused weighted ign (cell_m u rows) in
  let out := nth (i * ncol + j) (nth (Z.to_nat u) (corrcoef weighted ign ncol size rows) d) None in
  (lenZ used < 2 -> out = None) /\
  ((exists r, In r used /\ pair_valid weighted i j r = false) -> out = None) /\
  (forall cij cii cjj, out = Some (cij, cii, cjj) ->
     npcov weighted used i j = Some cij /\ npcov weighted used i i = Some cii /\ npcov weighted used j j = Some cjj /\
     (cii * cjj)%Qc <> 0%Qc /\ Forall (fun r => pair_valid weighted i j r = true) used /\ 2 <= lenZ used).
Proof.
  intros H Hi Hj used out.
  assert (EO : out = corr_seg weighted ign i j (cell_m u rows)).
  { unfold out. rewrite corrcoef_group, per_cell_nth by exact H.
    apply (matrix_entry (fun i j => corr_seg weighted ign i j (filter (fun r => mc r =? u) rows))); assumption. }
  rewrite EO. apply corr_seg_spec.
Qed.
