(* Small bridges shared by the proofs about the weighted aggregates (C03-C05): Direct.sumQ / sumZ
   are Diff.vsum at Qc / Z, Direct.zrange is Dim.rowrange, and which fact arguments an aggregate
   is called with. *)
From Coq Require Import ZArith QArith Qcanon List Bool Lia.
From Catii Require Import Base.Cases Base.Sorted Cube.Dim Cube.Walk Cube.Diff Cube.Region Cube.Count
     Cube.Direct Cube.FFuncs Cube.FillInv.
Import ListNotations.
Open Scope Z_scope.

(* count takes no fact variable; valid_count / sum / mean take one *)
Definition agg_fact_ok (A : agg) (f : fact) : Prop :=
  match A with ACount => f = FNone | _ => f <> FNone end.

Lemma vsum_sumQ l : vsum Qc Qcplus (Q2Qc 0) l = sumQ l.
Proof. induction l as [|x l IH]; cbn [vsum sumQ]; [reflexivity|now rewrite IH]. Qed.
Lemma vsum_sumZ l : vsum Z Z.add 0 l = sumZ l.
Proof. induction l as [|x l IH]; cbn [vsum sumZ]; [reflexivity|now rewrite IH]. Qed.

Lemma zseq_seq n : forall s, zseq (Z.of_nat s) n = map Z.of_nat (seq s n).
Proof.
  induction n as [|n IH]; intros s; cbn [zseq seq map]; [reflexivity|].
  f_equal. replace (Z.of_nat s + 1) with (Z.of_nat (Datatypes.S s)) by lia. apply IH.
Qed.
Lemma zrange_rowrange n : zrange n = rowrange n.
Proof. unfold zrange, rowrange. apply (zseq_seq (Z.to_nat n) 0). Qed.

Lemma In_rowrange_iff N x : In x (rowrange N) <-> 0 <= x < N.
Proof.
  unfold rowrange. rewrite in_map_iff. split.
  - intros [k [<- H]]. apply in_seq in H. lia.
  - intros H. exists (Z.to_nat x). split; [lia|]. apply in_seq. lia.
Qed.

Lemma sumQ_app a b : sumQ (a ++ b) = Qcplus (sumQ a) (sumQ b).
Proof. induction a as [|x a IH]; cbn [app sumQ]; [unfold q0; ring|rewrite IH; ring]. Qed.
Lemma sumZ_app a b : sumZ (a ++ b) = sumZ a + sumZ b.
Proof. induction a as [|x a IH]; cbn [app sumZ]; lia. Qed.
