From Coq Require Import ZArith List Bool Lia.
From Catii Require Import Base.Cases IIndex.Model Cube.Scaffold.
Import ListNotations.
Open Scope Z_scope.

Lemma zlist_eqb_eq a : forall b, zlist_eqb a b = true <-> a = b.
Proof.
  induction a as [|x a IH]; intros [|y b]; cbn [zlist_eqb]; split; intros H; try reflexivity; try discriminate.
  - apply andb_true_iff in H. destruct H as [H1 H2]. apply Z.eqb_eq in H1. apply IH in H2. congruence.
  - inversion H; subst. apply andb_true_iff. split; [apply Z.eqb_refl|apply IH; reflexivity].
Qed.

Lemma zlist_eqb_refl a : zlist_eqb a a = true.
Proof. apply zlist_eqb_eq. reflexivity. Qed.

Lemma zlist_eqb_neq a b : a <> b -> zlist_eqb a b = false.
Proof. intros H. destruct (zlist_eqb a b) eqn:E; [apply zlist_eqb_eq in E; contradiction|reflexivity]. Qed.

Section StackProofs.
Variables (Sl B : Type).
Variable fill : list Sl -> B.

Notation sdim := (sdim Sl).

Lemma in_product (ds : list sdim) : forall combo,
  In combo (product ds) <-> Forall2 (fun s d => In s d) combo ds.
Proof.
  induction ds as [|d ds IH]; intros combo; cbn [product].
  - split.
    + intros [<-|[]]. constructor.
    + intros H. inversion H. now left.
  - rewrite in_flat_map. split.
    + intros [s [Hs Hc]]. apply in_map_iff in Hc. destruct Hc as [c' [<- Hc']].
      constructor; [exact Hs|apply IH; exact Hc'].
    + intros H. inversion H as [|s d' c' ds' Hs Hc']; subst.
      exists s. split; [exact Hs|]. apply in_map_iff. exists c'. split; [reflexivity|apply IH; exact Hc'].
Qed.

Lemma product_length (ds : list sdim) :
  length (product ds) = fold_right (fun d n => (length d * n)%nat) 1%nat ds.
Proof.
  induction ds as [|d ds IH]; cbn [product fold_right]; [reflexivity|].
  rewrite <- IH. clear IH. induction d as [|s d IHd]; cbn [flat_map length]; [reflexivity|].
  rewrite app_length, map_length, IHd. lia.
Qed.

(* a dimension's slices: coordinates pairwise distinct, all of one arity *)
Definition wf_sdim (d : sdim) (k : nat) : Prop :=
  NoDup (map fst d) /\ forall s, In s d -> length (fst s) = k.

Lemma nodup_fst_inj (d : sdim) s1 s2 :
  NoDup (map fst d) -> In s1 d -> In s2 d -> fst s1 = fst s2 -> s1 = s2.
Proof.
  induction d as [|s d IH]; intros N H1 H2 E; [contradiction|].
  cbn [map] in N. inversion N as [|? ? Hn N']; subst.
  destruct H1 as [<-|H1], H2 as [<-|H2].
  - reflexivity.
  - exfalso. apply Hn. rewrite E. apply in_map. exact H2.
  - exfalso. apply Hn. rewrite <- E. apply in_map. exact H1.
  - apply IH; assumption.
Qed.

Lemma app_inj_len {A} (a1 a2 b1 b2 : list A) :
  length a1 = length a2 -> a1 ++ b1 = a2 ++ b2 -> a1 = a2 /\ b1 = b2.
Proof.
  revert a2. induction a1 as [|x a1 IH]; intros [|y a2] L E; cbn in *; try discriminate.
  - auto.
  - inversion E; subst. destruct (IH a2) as [-> ->]; [lia|assumption|]. auto.
Qed.

Lemma flat_coords_inj (ds : list sdim) : forall ks c1 c2,
  Forall2 wf_sdim ds ks -> In c1 (product ds) -> In c2 (product ds) ->
  flat_coords c1 = flat_coords c2 -> c1 = c2.
Proof.
  induction ds as [|d ds IH]; intros ks c1 c2 W H1 H2 E.
  - cbn in H1, H2. destruct H1 as [<-|[]], H2 as [<-|[]]. reflexivity.
  - apply in_product in H1. apply in_product in H2.
    inversion H1 as [|s1 d1 t1 ds1 Hs1 Ht1]; subst.
    inversion H2 as [|s2 d2 t2 ds2 Hs2 Ht2]; subst.
    inversion W as [|? k ? ks' [Nd Ar] W']; subst.
    unfold flat_coords in E. cbn [map concat] in E.
    apply app_inj_len in E; [|rewrite (Ar s1 Hs1), (Ar s2 Hs2); reflexivity].
    destruct E as [E1 E2].
    assert (s1 = s2) by (eapply nodup_fst_inj; eassumption). subst s2.
    f_equal. eapply IH; [exact W'|apply in_product; exact Ht1|apply in_product; exact Ht2|exact E2].
Qed.

Lemma nodup_map_inj {A C} (f : A -> C) (l : list A) :
  NoDup l -> (forall x y, In x l -> In y l -> f x = f y -> x = y) -> NoDup (map f l).
Proof.
  induction l as [|x l IH]; intros N Inj; cbn [map]; [constructor|].
  inversion N as [|? ? Hn N']; subst. constructor.
  - intros Hin. apply in_map_iff in Hin. destruct Hin as [y [E Hy]].
    assert (y = x) by (apply Inj; [now right|now left|exact E]). subst y. contradiction.
  - apply IH; [exact N'|]. intros a b Ha Hb. apply Inj; now right.
Qed.

Lemma nodup_of_nodup_fst (d : sdim) : NoDup (map fst d) -> NoDup d.
Proof.
  induction d as [|s d IH]; intros N; [constructor|].
  cbn [map] in N. inversion N as [|? ? Hn N']; subst. constructor; [|apply IH; exact N'].
  intros Hin. apply Hn. apply in_map. exact Hin.
Qed.


Lemma NoDup_app_intro {A} (l1 l2 : list A) :
  NoDup l1 -> NoDup l2 -> (forall x, In x l1 -> ~ In x l2) -> NoDup (l1 ++ l2).
Proof.
  induction l1 as [|x l1 IH]; intros N1 N2 D; cbn [app]; [exact N2|].
  inversion N1 as [|? ? Hn N1']; subst. constructor.
  - intros Hin. apply in_app_iff in Hin. destruct Hin as [Hin|Hin]; [contradiction|].
    apply (D x); [now left|exact Hin].
  - apply IH; [exact N1'|exact N2|]. intros y Hy. apply D. now right.
Qed.

Lemma nodup_product (ds : list sdim) : forall ks, Forall2 wf_sdim ds ks -> NoDup (product ds).
Proof.
  induction ds as [|d ds IH]; intros ks W; cbn [product].
  - constructor; [intros []|constructor].
  - inversion W as [|? k ? ks' [Nd Ar] W']; subst.
    specialize (IH ks' W'). apply nodup_of_nodup_fst in Nd. clear Ar W.
    induction d as [|s d IHd]; cbn [flat_map]; [constructor|].
    inversion Nd as [|? ? Hn Nd']; subst.
    apply NoDup_app_intro.
    + apply nodup_map_inj; [exact IH|]. intros x y _ _ E. inversion E. reflexivity.
    + apply IHd. exact Nd'.
    + intros c Hc Hc'. apply in_map_iff in Hc. destruct Hc as [t [<- Ht]].
      apply in_flat_map in Hc'. destruct Hc' as [s' [Hs' Hc']].
      apply in_map_iff in Hc'. destruct Hc' as [t' [E Ht']]. inversion E; subst. contradiction.
Qed.

Lemma nodup_flat_product ds ks : Forall2 wf_sdim ds ks -> NoDup (map flat_coords (product ds)).
Proof.
  intros W. apply nodup_map_inj; [eapply nodup_product; exact W|].
  intros x y Hx Hy. eapply flat_coords_inj; eassumption.
Qed.

(* ---- reading the stacked result ---- *)

Lemma read_fold_notin (l : list (list (list Z * Sl))) : forall (st : store B) j,
  ~ In j (map flat_coords l) -> read (fold_left (fill_one fill) l st) j = read st j.
Proof.
  induction l as [|c l IH]; intros st j Hn; cbn [fold_left]; [reflexivity|].
  rewrite IH by (intros H; apply Hn; now right).
  unfold fill_one, write. cbn [read].
  rewrite zlist_eqb_neq; [reflexivity|]. intros E. apply Hn. left. exact E.
Qed.

Lemma read_fold_in (l : list (list (list Z * Sl))) : forall (st : store B) combo,
  NoDup (map flat_coords l) -> In combo l ->
  read (fold_left (fill_one fill) l st) (flat_coords combo) = Some (fill (map snd combo)).
Proof.
  induction l as [|c l IH]; intros st combo N Hin; [contradiction|].
  cbn [map] in N. inversion N as [|? ? Hn N']; subst. cbn [fold_left].
  destruct Hin as [<-|Hin].
  - rewrite read_fold_notin by exact Hn. unfold fill_one, write. cbn [read].
    rewrite zlist_eqb_refl. reflexivity.
  - apply IH; assumption.
Qed.

(* C13, core: the block found at the flattened coordinates of a sub-cube is exactly what that
   sub-cube computes from its own 1-D slices, whatever the other sub-cubes wrote. *)
Theorem calculate_block ds ks combo :
  Forall2 wf_sdim ds ks -> In combo (product ds) ->
  read (calculate fill ds) (flat_coords combo) = Some (fill (map snd combo)).
Proof.
  intros W Hin. unfold calculate. apply read_fold_in; [eapply nodup_flat_product; exact W|exact Hin].
Qed.

(* every block is written exactly once *)
Lemma keys_fold (l : list (list (list Z * Sl))) : forall (st : store B),
  map fst (fold_left (fill_one fill) l st) = rev (map flat_coords l) ++ map fst st.
Proof.
  induction l as [|c l IH]; intros st; cbn [fold_left map rev]; [reflexivity|].
  rewrite IH. unfold fill_one, write. cbn [map fst]. rewrite <- app_assoc. reflexivity.
Qed.

Theorem calculate_writes_once ds ks :
  Forall2 wf_sdim ds ks ->
  NoDup (map fst (calculate fill ds)) /\ length (calculate fill ds) = length (product ds).
Proof.
  intros W. unfold calculate. split.
  - rewrite keys_fold. cbn [map]. rewrite app_nil_r. apply NoDup_rev. eapply nodup_flat_product; exact W.
  - rewrite <- (map_length fst), keys_fold. cbn [map]. rewrite app_nil_r, rev_length, map_length. reflexivity.
Qed.

(* nothing else is written *)
Theorem calculate_only_blocks ds j :
  ~ In j (map flat_coords (product ds)) -> read (calculate fill ds) j = None.
Proof. intros H. unfold calculate. rewrite read_fold_notin by exact H. reflexivity. Qed.

End StackProofs.
