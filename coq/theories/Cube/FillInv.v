(* The generic cube-region theorem (C02, and C03-C05 through cube-aggs): for any commutative group V
   and any per-row measure mu, the region computed by the code - zeros, grand total in the corner, one
   write per walked coordinate (value = sum of mu over the delivered rows), marginal differencing
   over every axis - holds at EVERY cell inside the shape the sum of mu over the rows of the cell.

     fill_with_hit / fill_with_miss   what a cell holds after the fill
     fill_inv0                        the filled region satisfies Diff.Inv 0   (uses walk_In = C14)
     adiff_all_reg_of                 Region.adiff_all on arrays = Diff.diff_all on patterns
     cube_region_spec (+ _Z, _Qc)     the composition with Diff.diff_all_correct

   PROOFS ONLY (definitions com_of / ext_of / pat_of_cell are the nat views Diff.v works with). *)
From Coq Require Import ZArith List Bool Lia Arith QArith Qcanon.
From Catii Require Import Base.Cases Base.Sorted Base.SortedFacts Cube.Dim Cube.Walk Cube.WalkSpec Cube.WalkProofs
     Cube.Diff Cube.Region.
Import ListNotations.
Open Scope Z_scope.

Definition com_of (dims : list dim) (d : nat) : nat := Z.to_nat (dcommon (nth d dims dim0)).
Definition ext_of (shape : list Z) (d : nat) : nat := Z.to_nat (nth d shape 0).
(* the pattern of a cell / the walk coordinates of a pattern *)
Definition pat_of_cell (cell : list Z) : pat := fun d => Some (Z.to_nat (nth d cell 0)).
Definition wcoord (o : option nat) : Z := match o with None => margin | Some k => Z.of_nat k end.
Definition wcoords (n : nat) (p : pat) : list Z := map (fun d => wcoord (p d)) (seq 0 n).

(* ---------- lists, pointwise ---------- *)
Lemma zlist_eqb_iff a : forall b, zlist_eqb a b = true <-> a = b.
Proof.
  induction a as [|x a IH]; intros [|y b]; cbn [zlist_eqb]; try (split; [discriminate|discriminate]); [tauto|].
  rewrite andb_true_iff, Z.eqb_eq, IH. split; [intros [-> ->]; reflexivity|intros E; inversion E; auto].
Qed.
Lemma zlist_eqb_refl a : zlist_eqb a a = true.
Proof. now apply zlist_eqb_iff. Qed.
Lemma zlist_eqb_neq a b : a <> b -> zlist_eqb a b = false.
Proof. intros H. destruct (zlist_eqb a b) eqn:E; [|reflexivity]. apply zlist_eqb_iff in E. contradiction. Qed.

Lemma rowrange_length N : length (rowrange N) = Z.to_nat N.
Proof. unfold rowrange. now rewrite map_length, seq_length. Qed.

Lemma norm_coords_length shape : forall c, length c = length shape -> length (norm_coords shape c) = length shape.
Proof.
  induction shape as [|e shape IH]; intros [|x c] H; cbn [norm_coords length] in *; try lia.
  rewrite IH; lia.
Qed.
Lemma norm_coords_nth shape : forall c d, length c = length shape -> (d < length shape)%nat ->
  nth d (norm_coords shape c) 0 = norm_coord (nth d shape 0) (nth d c 0).
Proof.
  induction shape as [|e shape IH]; intros [|x c] d H Hd; cbn [norm_coords length] in *; try lia.
  destruct d as [|d]; [reflexivity|]. cbn [nth]. apply IH; lia.
Qed.

Lemma coords_from_length shape : forall a p, length (coords_from a shape p) = length shape.
Proof. induction shape as [|e shape IH]; intros a p; cbn [coords_from length]; [reflexivity|now rewrite IH]. Qed.
Lemma coords_from_nth shape : forall a p d, (d < length shape)%nat ->
  nth d (coords_from a shape p) 0 = coord_of (nth d shape 0) (p (a + d)%nat).
Proof.
  induction shape as [|e shape IH]; intros a p d Hd; cbn [length] in Hd; [lia|].
  cbn [coords_from]. destruct d as [|d]; cbn [nth]; [now rewrite Nat.add_0_r|].
  rewrite IH by lia. f_equal. f_equal. lia.
Qed.
Lemma coords_of_length shape p : length (coords_of shape p) = length shape.
Proof. apply coords_from_length. Qed.
Lemma coords_of_nth shape p d : (d < length shape)%nat ->
  nth d (coords_of shape p) 0 = coord_of (nth d shape 0) (p d).
Proof. intros H. unfold coords_of. now rewrite coords_from_nth. Qed.

Lemma set_nth_length a : forall c v, length (set_nth a c v) = length c.
Proof. induction a as [|a IH]; intros [|x c] v; cbn [set_nth length]; try reflexivity. now rewrite IH. Qed.
Lemma set_nth_nth a : forall c v d, (a < length c)%nat ->
  nth d (set_nth a c v) 0 = if Nat.eqb d a then v else nth d c 0.
Proof.
  induction a as [|a IH]; intros [|x c] v d H; cbn [length] in H; try lia; cbn [set_nth].
  - destruct d; reflexivity.
  - destruct d as [|d]; [reflexivity|]. cbn [nth]. rewrite IH by lia. reflexivity.
Qed.

Lemma wcoords_length n p : length (wcoords n p) = n.
Proof. unfold wcoords. now rewrite map_length, seq_length. Qed.
Lemma nth_map_seq {A} (f : nat -> A) n d dflt : (d < n)%nat -> nth d (map f (seq 0 n)) dflt = f d.
Proof.
  intros H. rewrite (nth_indep _ dflt (f O)) by (rewrite map_length, seq_length; lia).
  rewrite map_nth, seq_nth by lia. reflexivity.
Qed.
Lemma wcoords_nth n p d : (d < n)%nat -> nth d (wcoords n p) 0 = wcoord (p d).
Proof. intros H. unfold wcoords. now rewrite nth_map_seq. Qed.

(* ---------- the specification sides, pointwise ---------- *)
Lemma row_matches_iff dims : forall c r, row_matches dims c r = true <->
  length c = length dims /\
  forall d, (d < length dims)%nat -> nth d c 0 = margin \/ dim_dense (nth d dims dim0) r = nth d c 0.
Proof.
  induction dims as [|d0 dims IH]; intros [|k c] r; cbn [row_matches length].
  - split; [intros _; split; [reflexivity|intros; lia]|reflexivity].
  - split; [discriminate|intros [H _]; discriminate].
  - split; [discriminate|intros [H _]; discriminate].
  - rewrite andb_true_iff, orb_true_iff, !Z.eqb_eq, IH. split.
    + intros [H1 [H2 H3]]. split; [lia|]. intros [|d] Hd; cbn [nth]; [tauto|apply H3; lia].
    + intros [H1 H2]. split; [exact (H2 O ltac:(lia))|]. split; [lia|].
      intros d Hd. exact (H2 (Datatypes.S d) ltac:(lia)).
Qed.

Lemma row_in_cell_iff dims : forall cell r, row_in_cell dims cell r = true <->
  length cell = length dims /\ forall d, (d < length dims)%nat -> dim_dense (nth d dims dim0) r = nth d cell 0.
Proof.
  induction dims as [|d0 dims IH]; intros [|k c] r; cbn [row_in_cell length].
  - split; [intros _; split; [reflexivity|intros; lia]|reflexivity].
  - split; [discriminate|intros [H _]; discriminate].
  - split; [discriminate|intros [H _]; discriminate].
  - rewrite andb_true_iff, Z.eqb_eq, IH. split.
    + intros [H1 [H2 H3]]. split; [lia|]. intros [|d] Hd; cbn [nth]; [tauto|apply H3; lia].
    + intros [H1 H2]. split; [exact (H2 O ltac:(lia))|]. split; [lia|].
      intros d Hd. exact (H2 (Datatypes.S d) ltac:(lia)).
Qed.

Lemma coord_product_iff dims : forall c, In c (coord_product dims) <->
  length c = length dims /\
  forall d, (d < length dims)%nat -> nth d c 0 = margin \/ In (nth d c 0) (dkeys (nth d dims dim0)).
Proof.
  induction dims as [|d0 dims IH]; intros c; cbn [coord_product length].
  - split.
    + intros [<-|[]]. split; [reflexivity|intros; lia].
    + intros [H _]. destruct c; [now left|discriminate].
  - rewrite in_flat_map. split.
    + intros [k [Hk Hc]]. apply in_map_iff in Hc. destruct Hc as [c' [<- Hc']]. apply IH in Hc'.
      destruct Hc' as [H1 H2]. split; [cbn [length]; lia|].
      intros [|d] Hd; cbn [nth].
      * apply in_app_or in Hk. destruct Hk as [Hk|[<-|[]]]; auto.
      * apply H2. lia.
    + intros [H1 H2]. destruct c as [|k c]; [discriminate|]. exists k. split.
      * destruct (H2 O ltac:(lia)) as [E|E]; cbn [nth] in E; apply in_or_app; [right; left; auto|left; exact E].
      * apply in_map. apply IH. cbn [length] in H1. split; [lia|].
        intros d Hd. exact (H2 (Datatypes.S d) ltac:(lia)).
Qed.

Lemma covers_length shape dims : covers shape dims -> length shape = length dims.
Proof. intros H. induction H; cbn [length]; congruence. Qed.
Lemma covers_nth shape dims : covers shape dims -> forall d, (d < length dims)%nat ->
  (forall v, In v (dkeys (nth d dims dim0)) -> 0 <= v < nth d shape 0) /\
  0 <= dcommon (nth d dims dim0) < nth d shape 0.
Proof.
  intros H. induction H as [|e d0 shape dims H0 H IH]; intros d Hd; cbn [length] in Hd; [lia|].
  destruct d as [|d]; cbn [nth]; [exact H0|apply IH; lia].
Qed.
Lemma covers_no_margin shape dims : covers shape dims -> Forall no_margin_key dims.
Proof.
  intros H. induction H as [|e d0 shape dims [H0 _] H IH]; constructor; [|exact IH].
  intros Hm. specialize (H0 _ Hm). unfold margin in H0. lia.
Qed.

(* the dense value of a row is a stored value or the common *)
Lemma dim_dense_cases d r : In (dim_dense d r) (dkeys d) \/ dim_dense d r = dcommon d.
Proof.
  unfold dim_dense. destruct (find (dcovers r) (dentries d)) as [e|] eqn:E; [left|now right].
  apply find_some in E. destruct E as [E _]. unfold dkeys. now apply in_map.
Qed.

Lemma filter_none {A} (f : A -> bool) l : (forall x, In x l -> f x = false) -> filter f l = [].
Proof.
  induction l as [|x l IH]; intros H; [reflexivity|]. cbn [filter].
  rewrite (H x) by now left. apply IH. intros; apply H; now right.
Qed.
Lemma filter_all {A} (f : A -> bool) l : (forall x, In x l -> f x = true) -> filter f l = l.
Proof.
  induction l as [|x l IH]; intros H; [reflexivity|]. cbn [filter].
  rewrite (H x) by now left. f_equal. apply IH. intros; apply H; now right.
Qed.
Lemma existsb_false_forall {A} (f : A -> bool) l : existsb f l = false -> forall x, In x l -> f x = false.
Proof.
  induction l as [|y l IH]; intros H x Hx; [destruct Hx|]. cbn [existsb] in H.
  apply orb_false_iff in H. destruct H as [H1 H2]. destruct Hx as [<-|Hx]; auto.
Qed.
Lemma NoDup_map_inj_in {A B} (g : A -> B) l :
  NoDup l -> (forall x y, In x l -> In y l -> g x = g y -> x = y) -> NoDup (map g l).
Proof.
  induction l as [|a l IH]; intros ND H; cbn [map]; [constructor|].
  inversion ND as [|? ? Hn ND']; subst. constructor.
  - intros Hin. apply in_map_iff in Hin. destruct Hin as [y [E Hy]].
    assert (y = a) by (apply H; [now right|now left|exact E]). subst. contradiction.
  - apply IH; [exact ND'|]. intros x y Hx Hy. apply H; now right.
Qed.
Lemma all_margin_iff c : all_margin c = true <-> forall d, (d < length c)%nat -> nth d c 0 = margin.
Proof.
  unfold all_margin. induction c as [|x c IH]; cbn [forallb length].
  - split; [intros _ d Hd; lia|reflexivity].
  - rewrite andb_true_iff, Z.eqb_eq, IH. split.
    + intros [H1 H2] [|d] Hd; cbn [nth]; [auto|apply H2; lia].
    + intros H. split; [symmetry; exact (H O ltac:(lia))|]. intros d Hd. exact (H (Datatypes.S d) ltac:(lia)).
Qed.

Lemma norm_coord_margin e : norm_coord e margin = e.
Proof. unfold norm_coord, margin. change (-1 <? 0) with true. cbv iota. lia. Qed.

(* ---------- what the fill leaves in a cell ---------- *)
Section Fill.
Variable V : Type.
Variable vadd : V -> V -> V.
Variable vzero : V.
Notation vsum := (vsum V vadd vzero).

Lemma fill_with_cons (f : list Z -> V) shape e ems R :
  fill_with V f shape (e :: ems) R = fill_with V f shape ems (aset V R (norm_coords shape (fst e)) (f (snd e))).
Proof. reflexivity. Qed.

(* a cell no emission addresses keeps its value *)
Lemma fill_with_miss (f : list Z -> V) shape ems : forall R c,
  (forall em, In em ems -> norm_coords shape (fst em) <> c) -> fill_with V f shape ems R c = R c.
Proof.
  induction ems as [|e ems IH]; intros R c H; [reflexivity|].
  rewrite fill_with_cons, IH by (intros; apply H; now right).
  unfold aset. rewrite zlist_eqb_neq; [reflexivity|]. intros E. apply (H e); [now left|auto].
Qed.

(* a cell addressed exactly once holds the value of that emission *)
Lemma fill_with_hit (f : list Z -> V) shape ems : forall R em,
  NoDup (map (fun em => norm_coords shape (fst em)) ems) -> In em ems ->
  fill_with V f shape ems R (norm_coords shape (fst em)) = f (snd em).
Proof.
  induction ems as [|e ems IH]; intros R em ND Hin; [destruct Hin|].
  cbn [map] in ND. inversion ND as [|? ? Hn ND']; subst.
  rewrite fill_with_cons. destruct Hin as [<-|Hin].
  - rewrite fill_with_miss.
    + unfold aset. now rewrite zlist_eqb_refl.
    + intros em Hem E. apply Hn. rewrite <- E. apply (in_map (fun em => norm_coords shape (fst em))). exact Hem.
  - now apply IH.
Qed.

Section Inv0.
Variable N : Z.
Variable dims : list dim.
Variable shape : list Z.
Hypothesis W : Forall (dim_wf N) dims.
Hypothesis C : covers shape dims.
Variable mu : Z -> V.
Variable f : list Z -> V.
Variable corner : V.
Hypothesis f_sum : forall rows, f rows = vsum (map mu rows).
Hypothesis corner_sum : corner = vsum (map mu (rowrange N)).

Let n := length dims.
Let dimn (d : nat) := nth d dims dim0.
Let extn (d : nat) := nth d shape 0.

Lemma Ln : length shape = n.
Proof. exact (covers_length _ _ C). Qed.

Lemma dimn_wf d : (d < n)%nat -> dim_wf N (dimn d).
Proof. intros H. apply (proj1 (Forall_forall _ _) W). apply nth_In. exact H. Qed.

Lemma keys_range d v : (d < n)%nat -> In v (dkeys (dimn d)) -> 0 <= v < extn d.
Proof. intros H. apply (covers_nth _ _ C d H). Qed.
Lemma common_range d : (d < n)%nat -> 0 <= dcommon (dimn d) < extn d.
Proof. intros H. apply (covers_nth _ _ C d H). Qed.
Lemma dense_range d r : (d < n)%nat -> 0 <= dim_dense (dimn d) r < extn d.
Proof.
  intros H. destruct (dim_dense_cases (dimn d) r) as [E|E].
  - now apply keys_range.
  - rewrite E. now apply common_range.
Qed.

Lemma NM : Forall no_margin_key dims.
Proof. exact (covers_no_margin _ _ C). Qed.

(* a pattern position is [good] when it is the margin or a stored (uncommon) category *)
Definition good_at (p : pat) (d : nat) : Prop :=
  match p d with None => True | Some k => In (Z.of_nat k) (dkeys (dimn d)) end.
Definition bad_at_b (p : pat) (d : nat) : bool :=
  match p d with None => false | Some k => negb (memZ (Z.of_nat k) (dkeys (dimn d))) end.

(* the walked coordinates that address the cell of a pattern agree with the pattern position-wise *)
Lemma hit_inv p c : In c (coord_product dims) -> norm_coords shape c = coords_of shape p ->
  forall d, (d < n)%nat -> nth d c 0 = wcoord (p d) /\ good_at p d.
Proof.
  intros Hc E d Hd. apply coord_product_iff in Hc. destruct Hc as [L Hc]. fold n in L, Hc.
  assert (E' : nth d (norm_coords shape c) 0 = nth d (coords_of shape p) 0) by now rewrite E.
  rewrite norm_coords_nth in E' by (rewrite Ln; lia). rewrite coords_of_nth in E' by (rewrite Ln; lia).
  fold (extn d) in E'. unfold good_at, wcoord. specialize (Hc d Hd). fold (dimn d) in Hc.
  unfold coord_of in E'. destruct Hc as [Hm|Hk].
  - rewrite Hm in *. rewrite norm_coord_margin in E'.
    destruct (p d) as [k|]; [|split; [reflexivity|exact I]].
    exfalso. destruct (Z.ltb_spec (Z.of_nat k) (extn d)); lia.
  - pose proof (keys_range d _ Hd Hk) as Hr. unfold norm_coord in E'.
    destruct (Z.ltb_spec (nth d c 0) (0)); [lia|].
    destruct (p d) as [k|]; [|lia].
    destruct (Z.ltb_spec (Z.of_nat k) (extn d)); [|lia].
    rewrite <- E'. split; [reflexivity|exact Hk].
Qed.

Lemma norm_wcoords p : (forall d, (d < n)%nat -> good_at p d) -> norm_coords shape (wcoords n p) = coords_of shape p.
Proof.
  intros G. apply (nth_ext _ _ 0 0).
  - rewrite norm_coords_length, coords_of_length by (rewrite wcoords_length, Ln; reflexivity). reflexivity.
  - intros d Hd. rewrite norm_coords_length in Hd by (rewrite wcoords_length, Ln; reflexivity). rewrite Ln in Hd.
    rewrite norm_coords_nth by (rewrite ?wcoords_length, Ln; lia).
    rewrite coords_of_nth by (rewrite Ln; lia). rewrite wcoords_nth by lia. fold (extn d).
    specialize (G d Hd). unfold good_at in G. unfold wcoord, coord_of.
    destruct (p d) as [k|].
    + pose proof (keys_range d _ Hd G). unfold norm_coord. destruct (Z.ltb_spec (Z.of_nat k) (0)); [lia|].
      destruct (Z.ltb_spec (Z.of_nat k) (extn d)); lia.
    + apply norm_coord_margin.
Qed.

Lemma wcoords_in_product p : (forall d, (d < n)%nat -> good_at p d) -> In (wcoords n p) (coord_product dims).
Proof.
  intros G. apply coord_product_iff. split; [apply wcoords_length|].
  intros d Hd. fold n in Hd. rewrite wcoords_nth by exact Hd. specialize (G d Hd). unfold good_at in G.
  fold (dimn d). destruct (p d); [right; exact G|left; reflexivity].
Qed.

Lemma hit_is_wcoords p c : In c (coord_product dims) -> norm_coords shape c = coords_of shape p -> c = wcoords n p.
Proof.
  intros Hc E. pose proof (hit_inv p c Hc E) as H. apply coord_product_iff in Hc. destruct Hc as [L _].
  apply (nth_ext _ _ 0 0); [now rewrite wcoords_length|].
  intros d Hd. rewrite L in Hd. rewrite wcoords_nth by exact Hd. apply H. exact Hd.
Qed.

Lemma norm_coords_inj c c' : In c (coord_product dims) -> In c' (coord_product dims) ->
  norm_coords shape c = norm_coords shape c' -> c = c'.
Proof.
  intros Hc Hc' E. apply coord_product_iff in Hc, Hc'. destruct Hc as [L H], Hc' as [L' H'].
  apply (nth_ext _ _ 0 0); [congruence|]. intros d Hd. rewrite L in Hd.
  assert (E' : nth d (norm_coords shape c) 0 = nth d (norm_coords shape c') 0) by now rewrite E.
  rewrite !norm_coords_nth in E' by (rewrite ?Ln; fold n; lia). fold (extn d) in E'.
  specialize (H d Hd). specialize (H' d Hd). fold (dimn d) in H, H'. unfold norm_coord, margin in *.
  destruct H as [H|H], H' as [H'|H']; try (pose proof (keys_range d _ Hd H)); try (pose proof (keys_range d _ Hd H'));
  destruct (Z.ltb_spec (nth d c 0) (0)); destruct (Z.ltb_spec (nth d c' 0) (0)); lia.
Qed.

Lemma walk_norm_NoDup : NoDup (map (fun em => norm_coords shape (fst em)) (walk dims)).
Proof.
  rewrite <- (map_map fst (norm_coords shape)). apply NoDup_map_inj_in.
  - exact (walk_coords_NoDup N dims W NM).
  - intros x y Hx Hy. apply in_map_iff in Hx, Hy. destruct Hx as [[c r] [<- Hx]], Hy as [[c' r'] [<- Hy]].
    apply (walk_In N dims c r W NM) in Hx. apply (walk_In N dims c' r' W NM) in Hy.
    cbn [fst]. apply norm_coords_inj; tauto.
Qed.

Lemma coords_of_corner p : (forall d, (d < n)%nat -> p d = None) -> coords_of shape p = shape.
Proof.
  intros H. apply (nth_ext _ _ 0 0); [apply coords_of_length|].
  intros d Hd. rewrite coords_of_length in Hd. rewrite coords_of_nth by exact Hd.
  rewrite H by (rewrite <- Ln; exact Hd). reflexivity.
Qed.
Lemma coords_of_not_corner p d k : (d < n)%nat -> p d = Some k -> coords_of shape p <> shape.
Proof.
  intros Hd E H. assert (E' : nth d (coords_of shape p) 0 = nth d shape 0) by now rewrite H.
  rewrite coords_of_nth in E' by (rewrite Ln; exact Hd). rewrite E in E'. unfold coord_of in E'.
  destruct (Z.ltb_spec (Z.of_nat k) (nth d shape 0)); lia.
Qed.

Definition filled : aregion V := fill_with V f shape (walk dims) (init_region V vzero shape corner).

Lemma matches_iff p r : matches Z (cat_of dims) n p r = true <-> forall d, (d < n)%nat -> matchd Z (cat_of dims) p r d = true.
Proof.
  unfold matches. rewrite forallb_forall. split; intros H d Hd; apply H; [apply in_seq; lia|apply in_seq in Hd; lia].
Qed.

Theorem fill_inv0 :
  Inv V vadd vzero Z (rowrange N) (cat_of dims) mu n (com_of dims) 0 (reg_of V shape filled).
Proof.
  intros p. unfold reg_of, filled.
  destruct (existsb (bad_at_b p) (seq 0 n)) eqn:EB.
  - (* some position holds a category that is not stored: never written, and no row is there *)
    apply existsb_exists in EB. destruct EB as [d [Hd EB]]. apply in_seq in Hd. assert (Hd' : (d < n)%nat) by lia.
    unfold bad_at_b in EB. destruct (p d) as [k|] eqn:Epd; [|discriminate].
    apply negb_true_iff, memZ_false in EB.
    assert (Z0 : fill_with V f shape (walk dims) (init_region V vzero shape corner) (coords_of shape p) = vzero).
    { rewrite fill_with_miss.
      - unfold init_region. rewrite zlist_eqb_neq; [reflexivity|]. exact (coords_of_not_corner p d k Hd' Epd).
      - intros [c r] Hem E. cbn [fst] in E. apply (walk_In N dims c r W NM) in Hem.
        destruct (hit_inv p c (proj1 Hem) E d Hd') as [_ G]. unfold good_at in G. rewrite Epd in G. contradiction. }
    split; intros HC; [exact Z0|]. rewrite Z0. unfold S. rewrite filter_none; [reflexivity|].
    intros r _. destruct (matches Z (cat_of dims) n p r) eqn:EM; [|reflexivity]. exfalso.
    apply (proj1 (matches_iff p r)) with (d := d) in EM; [|exact Hd'].
    unfold matchd in EM. rewrite Epd in EM. apply Nat.eqb_eq in EM. unfold cat_of in EM. fold (dimn d) in EM.
    pose proof (dense_range d r Hd') as DR.
    destruct (dim_dense_cases (dimn d) r) as [E|E].
    + apply EB. rewrite <- EM. rewrite Z2Nat.id by lia. exact E.
    + apply HC. exists d. split; [lia|]. rewrite Epd. f_equal. unfold com_of. fold (dimn d). now rewrite <- E.
  - (* every position is the margin or a stored category *)
    assert (G : forall d, (d < n)%nat -> good_at p d).
    { intros d Hd. pose proof (existsb_false_forall _ _ EB d ltac:(apply in_seq; lia)) as H.
      unfold bad_at_b in H. unfold good_at. destruct (p d) as [k|]; [|exact I].
      apply negb_false_iff, memZ_In in H. exact H. }
    assert (NC : ~ has_common_from n (com_of dims) 0 p).
    { intros [d [Hd E]]. assert (Hd' : (d < n)%nat) by lia. specialize (G d Hd'). unfold good_at in G. rewrite E in G.
      unfold com_of in G. fold (dimn d) in G. pose proof (common_range d Hd').
      rewrite Z2Nat.id in G by lia. exact (dwf_nocommon N _ (dimn_wf d Hd') G). }
    split; intros HC; [contradiction|]. clear HC.
    destruct (existsb (fun d => match p d with Some _ => true | None => false end) (seq 0 n)) eqn:ES.
    + (* a genuine walked coordinate *)
      apply existsb_exists in ES. destruct ES as [d0 [Hd0 ES]]. apply in_seq in Hd0. assert (Hd0' : (d0 < n)%nat) by lia.
      destruct (p d0) as [k0|] eqn:Ep0; [|discriminate]. clear ES.
      set (c := wcoords n p).
      assert (Hc : In c (coord_product dims)) by exact (wcoords_in_product p G).
      assert (Hnorm : norm_coords shape c = coords_of shape p) by exact (norm_wcoords p G).
      assert (Ham : all_margin c = false).
      { destruct (all_margin c) eqn:E; [|reflexivity]. exfalso.
        pose proof (proj1 (all_margin_iff c) E d0) as H. unfold c in H. rewrite wcoords_length, wcoords_nth in H by lia.
        specialize (H Hd0'). rewrite Ep0 in H. unfold wcoord, margin in H. lia. }
      assert (ES : S V vadd vzero Z (rowrange N) (cat_of dims) mu n p = vsum (map mu (rows_matching N dims c))).
      { unfold S, rows_matching. f_equal. f_equal. apply filter_ext_in. intros r _.
        apply Bool.eq_iff_eq_true. rewrite matches_iff, row_matches_iff. unfold c. rewrite wcoords_length. fold n.
        split.
        - intros H. split; [reflexivity|]. intros d Hd. rewrite wcoords_nth by exact Hd.
          specialize (H d Hd). unfold matchd in H. specialize (G d Hd). unfold good_at in G. fold (dimn d).
          destruct (p d) as [k|]; [right|left; reflexivity].
          apply Nat.eqb_eq in H. unfold cat_of in H. fold (dimn d) in H. pose proof (dense_range d r Hd).
          unfold wcoord. rewrite <- H. rewrite Z2Nat.id; lia.
        - intros [_ H] d Hd. specialize (H d Hd). rewrite wcoords_nth in H by exact Hd. unfold matchd.
          fold (dimn d) in H. destruct (p d) as [k|]; [|reflexivity]. unfold wcoord, margin in H.
          destruct H as [H|H]; [lia|]. apply Nat.eqb_eq. unfold cat_of. fold (dimn d). rewrite H. apply Nat2Z.id. }
      rewrite ES. rewrite <- Hnorm.
      destruct (rows_matching N dims c) as [|r0 rm] eqn:ERM.
      * (* no row: never written *)
        rewrite fill_with_miss.
        -- unfold init_region. rewrite zlist_eqb_neq; [reflexivity|]. rewrite Hnorm.
           exact (coords_of_not_corner p d0 k0 Hd0' Ep0).
        -- intros [c' r'] Hem E. cbn [fst] in E. apply (walk_In N dims c' r' W NM) in Hem.
           destruct Hem as [H1 [_ [H3 H4]]]. rewrite Hnorm in E.
           pose proof (hit_is_wcoords p c' H1 E) as Ec. fold c in Ec. subst c'. rewrite ERM in H3. contradiction.
      * rewrite <- ERM.
        pose proof (walk_complete N dims c W NM Hc Ham ltac:(rewrite ERM; discriminate)) as Hin.
        change (norm_coords shape c) with (norm_coords shape (fst (c, rows_matching N dims c))).
        rewrite fill_with_hit; [apply f_sum|exact walk_norm_NoDup|exact Hin].
    + (* the corner *)
      assert (AN : forall d, (d < n)%nat -> p d = None).
      { intros d Hd. pose proof (existsb_false_forall _ _ ES d ltac:(apply in_seq; lia)) as H. cbn beta in H.
        destruct (p d); [discriminate|reflexivity]. }
      rewrite (coords_of_corner p AN). rewrite fill_with_miss.
      * unfold init_region. rewrite zlist_eqb_refl, corner_sum. unfold S. rewrite filter_all; [reflexivity|].
        intros r _. apply matches_iff. intros d Hd. unfold matchd. now rewrite AN.
      * intros [c' r'] Hem E. cbn [fst] in E. apply (walk_In N dims c' r' W NM) in Hem.
        destruct Hem as [H1 [H2 _]].
        assert (E2 : norm_coords shape c' = coords_of shape p) by (rewrite E; symmetry; exact (coords_of_corner p AN)).
        clear E. rename E2 into E.
        assert (all_margin c' = true); [|congruence].
        apply all_margin_iff. intros d Hd. apply coord_product_iff in H1 as H1'. destruct H1' as [L _]. rewrite L in Hd.
        destruct (hit_inv p c' H1 E d Hd) as [H _]. rewrite H, AN by exact Hd. reflexivity.
Qed.
End Inv0.
End Fill.

(* ---------- Region.adiff_all (arrays) is Diff.diff_all (patterns) ---------- *)
Lemma in_shape_length shape cell : in_shape shape cell -> length cell = length shape.
Proof. intros H. induction H; cbn [length]; congruence. Qed.
Lemma in_shape_nth shape cell : in_shape shape cell -> forall d, (d < length shape)%nat -> 0 <= nth d cell 0 < nth d shape 0.
Proof.
  intros H. induction H as [|e c shape cell H0 H IH]; intros d Hd; cbn [length] in Hd; [lia|].
  destruct d as [|d]; cbn [nth]; [exact H0|apply IH; lia].
Qed.

Lemma set_nth_coords_of shape p a o : (a < length shape)%nat ->
  match o with Some k => Z.of_nat k < nth a shape 0 | None => True end ->
  set_nth a (coords_of shape p) (coord_of (nth a shape 0) o) = coords_of shape (upd p a o).
Proof.
  intros Ha Ho. apply (nth_ext _ _ 0 0).
  - now rewrite set_nth_length, !coords_of_length.
  - intros d Hd. rewrite set_nth_length, coords_of_length in Hd.
    rewrite set_nth_nth by (rewrite coords_of_length; exact Ha).
    rewrite !coords_of_nth by exact Hd. unfold upd.
    destruct (Nat.eqb_spec d a) as [->|Hne]; reflexivity.
Qed.

Section Bridge.
Variable V : Type.
Variable vadd vsub : V -> V -> V.
Variable vzero : V.
Variable dims : list dim.
Variable shape : list Z.
Hypothesis C : covers shape dims.

Lemma diff_axis_ext ext com a (R1 R2 : reg V) :
  (forall q, R1 q = R2 q) -> forall p, diff_axis V vadd vsub vzero ext com a R1 p = diff_axis V vadd vsub vzero ext com a R2 p.
Proof.
  intros H p. unfold diff_axis. destruct (p a) as [k|]; [|apply H].
  destruct (Nat.eqb k (com a)); [|apply H]. rewrite H. f_equal. f_equal. apply map_ext. intros; apply H.
Qed.

Lemma adiff_axis_reg_of a R p : (a < length dims)%nat ->
  reg_of V shape (adiff_axis V vadd vsub vzero shape (map dcommon dims) a R) p
  = diff_axis V vadd vsub vzero (ext_of shape) (com_of dims) a (reg_of V shape R) p.
Proof.
  intros Ha. pose proof (covers_length _ _ C) as L. pose proof (covers_nth _ _ C a Ha) as [_ HC].
  assert (Ha' : (a < length shape)%nat) by lia.
  unfold reg_of at 1. unfold adiff_axis, diff_axis.
  rewrite (nth_indep (map dcommon dims) 0 (dcommon dim0)) by (rewrite map_length; exact Ha).
  rewrite map_nth. rewrite coords_of_nth by exact Ha'.
  set (e := nth a shape 0) in *. set (cm := dcommon (nth a dims dim0)) in *.
  assert (Ncm : norm_coord e cm = cm). { unfold norm_coord. destruct (Z.ltb_spec cm 0); lia. }
  rewrite Ncm. unfold com_of, ext_of. fold e cm.
  destruct (p a) as [k|] eqn:Epa.
  - cbn [coord_of]. destruct (Nat.eqb_spec k (Z.to_nat cm)) as [Ek|Ek].
    + assert (Hk : Z.of_nat k = cm) by lia. destruct (Z.ltb_spec (Z.of_nat k) e); [|lia].
      rewrite Hk, Z.eqb_refl. unfold reg_of. f_equal.
      * f_equal. exact (set_nth_coords_of shape p a None Ha' I).
      * f_equal. unfold rowrange. rewrite map_map. apply map_ext_in. intros j Hj. apply in_seq in Hj. f_equal.
        assert (Hj' : Z.of_nat j < e) by lia.
        pose proof (set_nth_coords_of shape p a (Some j) Ha' Hj') as Hs. cbn [coord_of] in Hs. fold e in Hs.
        destruct (Z.ltb_spec (Z.of_nat j) e); [exact Hs|lia].
    + destruct (Z.ltb_spec (Z.of_nat k) e).
      * destruct (Z.eqb_spec (Z.of_nat k) cm); [lia|reflexivity].
      * destruct (Z.eqb_spec (Z.of_nat k + 1) cm); [lia|reflexivity].
  - cbn [coord_of]. destruct (Z.eqb_spec e cm); [lia|reflexivity].
Qed.

Lemma adiff_all_reg_of k : forall R p, (k <= length dims)%nat ->
  reg_of V shape (adiff_all V vadd vsub vzero shape (map dcommon dims) k R) p
  = diff_all V vadd vsub vzero (ext_of shape) (com_of dims) k (reg_of V shape R) p.
Proof.
  induction k as [|k IH]; intros R p Hk; [reflexivity|].
  cbn [adiff_all diff_all]. rewrite adiff_axis_reg_of by lia.
  apply diff_axis_ext. intros q. apply IH. lia.
Qed.
End Bridge.

(* ---------- the composition ---------- *)
Section CubeRegion.
Variable V : Type.
Variable vadd vsub : V -> V -> V.
Variable vzero : V.
Hypothesis vadd_comm : forall x y, vadd x y = vadd y x.
Hypothesis vadd_assoc : forall x y z, vadd x (vadd y z) = vadd (vadd x y) z.
Hypothesis vadd_0_l : forall x, vadd vzero x = x.
Hypothesis vadd_sub : forall x y, vsub (vadd x y) y = x.

Theorem cube_region_spec (N : Z) (dims : list dim) (shape : list Z) (mu : Z -> V) (f : list Z -> V) (corner : V) :
  Forall (dim_wf N) dims -> covers shape dims ->
  (forall rows, f rows = vsum V vadd vzero (map mu rows)) ->
  corner = vsum V vadd vzero (map mu (rowrange N)) ->
  forall cell, in_shape shape cell ->
    adiff_all V vadd vsub vzero shape (map dcommon dims) (length dims)
              (fill_with V f shape (walk dims) (init_region V vzero shape corner)) cell
    = vsum V vadd vzero (map mu (cell_rows N dims cell)).
Proof.
  intros W C Hf Hc cell HI.
  pose proof (covers_length _ _ C) as L. pose proof (in_shape_length _ _ HI) as LC.
  set (p := pat_of_cell cell).
  assert (Ecell : coords_of shape p = cell).
  { apply (nth_ext _ _ 0 0); [rewrite coords_of_length; congruence|].
    intros d Hd. rewrite coords_of_length in Hd. rewrite coords_of_nth by exact Hd.
    pose proof (in_shape_nth _ _ HI d Hd) as Hr. unfold p, pat_of_cell, coord_of.
    rewrite Z2Nat.id by lia. destruct (Z.ltb_spec (nth d cell 0) (nth d shape 0)); lia. }
  rewrite <- Ecell at 1.
  change (adiff_all V vadd vsub vzero shape (map dcommon dims) (length dims)
            (fill_with V f shape (walk dims) (init_region V vzero shape corner)) (coords_of shape p))
    with (reg_of V shape (adiff_all V vadd vsub vzero shape (map dcommon dims) (length dims)
            (fill_with V f shape (walk dims) (init_region V vzero shape corner))) p).
  rewrite (adiff_all_reg_of V vadd vsub vzero dims shape C) by lia.
  rewrite (diff_all_correct V vadd vsub vzero vadd_comm vadd_assoc vadd_0_l vadd_sub Z (rowrange N) (cat_of dims) mu
             (length dims) (ext_of shape) (com_of dims)).
  - unfold S, cell_rows. f_equal. f_equal. apply filter_ext_in. intros r _.
    apply Bool.eq_iff_eq_true. rewrite matches_iff, row_in_cell_iff. split.
    + intros H. split; [congruence|]. intros d Hd. specialize (H d Hd). unfold matchd, p, pat_of_cell in H.
      apply Nat.eqb_eq in H. unfold cat_of in H.
      pose proof (dense_range dims shape C d r Hd). pose proof (in_shape_nth _ _ HI d ltac:(lia)). lia.
    + intros [_ H] d Hd. unfold matchd, p, pat_of_cell. apply Nat.eqb_eq. unfold cat_of. now rewrite H.
  - intros d r Hd _. unfold cat_of, ext_of. pose proof (dense_range dims shape C d r Hd). lia.
  - intros d Hd. unfold com_of, ext_of. pose proof (common_range dims shape C d Hd). lia.
  - exact (fill_inv0 V vadd vzero N dims shape W C mu f corner Hf Hc).
Qed.
End CubeRegion.

(* ---------- instances ---------- *)
Theorem cube_region_spec_Z (N : Z) (dims : list dim) (shape : list Z) (mu : Z -> Z) (f : list Z -> Z) (corner : Z) :
  Forall (dim_wf N) dims -> covers shape dims ->
  (forall rows, f rows = vsum Z Z.add 0 (map mu rows)) ->
  corner = vsum Z Z.add 0 (map mu (rowrange N)) ->
  forall cell, in_shape shape cell ->
    adiff_all Z Z.add Z.sub 0 shape (map dcommon dims) (length dims)
              (fill_with Z f shape (walk dims) (init_region Z 0 shape corner)) cell
    = vsum Z Z.add 0 (map mu (cell_rows N dims cell)).
Proof. apply cube_region_spec; intros; lia. Qed.

Theorem cube_region_spec_Qc (N : Z) (dims : list dim) (shape : list Z) (mu : Z -> Qc) (f : list Z -> Qc) (corner : Qc) :
  Forall (dim_wf N) dims -> covers shape dims ->
  (forall rows, f rows = vsum Qc Qcplus (Q2Qc 0) (map mu rows)) ->
  corner = vsum Qc Qcplus (Q2Qc 0) (map mu (rowrange N)) ->
  forall cell, in_shape shape cell ->
    adiff_all Qc Qcplus Qcminus (Q2Qc 0) shape (map dcommon dims) (length dims)
              (fill_with Qc f shape (walk dims) (init_region Qc (Q2Qc 0) shape corner)) cell
    = vsum Qc Qcplus (Q2Qc 0) (map mu (cell_rows N dims cell)).
Proof. apply cube_region_spec; intros; ring. Qed.

Print Assumptions cube_region_spec.
Print Assumptions cube_region_spec_Z.
Print Assumptions cube_region_spec_Qc.
