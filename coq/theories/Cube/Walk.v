(* Model of ccube._walk / walk / interactions (src/catii/ccubes.py:76-152).  DEFINITIONS ONLY.

   `walk dims` is the list of (coordinates, row ids) pairs handed to every callback, in the order
   of the calls.  The model mirrors the code case by case:
     * `base_rowids is None` (no uncommon coordinate chosen so far) versus an intersected-so-far
       row list is `option (list Z)`;
     * with a base, every entry is intersected with it (`set_intersect_merge_np(base, rowids)` =
       [inter_spec base rowids] on increasing inputs - theorem of SetOps) and an empty
       intersection is pruned (`if len(rowids)`); without a base, inner dimensions recurse
       unconditionally (ccubes.py:86-87) and the last dimension tests `if len(rowids)` (:104);
     * after the entries the same tail is walked with coordinate -1 and the UNCHANGED base (:97);
     * the last dimension emits the margin (base_coords + (-1,), base_rowids) only when there is
       a base and it is non-empty (:117); with no base nothing is emitted (all-margin coordinate);
     * zero dimensions: neither branch of `if len(dims) > 1 / elif dims` runs - nothing is emitted. *)
From Coq Require Import ZArith List Bool.
From Catii Require Import Base.Sorted Cube.Dim.
Import ListNotations.
Open Scope Z_scope.

Definition emission := (list Z * list Z)%type.      (* (coordinates, row ids) *)

Definition margin : Z := -1.

Fixpoint walk_aux (dims : list dim) (bc : list Z) (base : option (list Z)) : list emission :=
  match dims with
  | [] => []
  | d :: rest =>
    match rest with
    | [] =>                                           (* last dimension, ccubes.py:98-119 *)
      match base with
      | None =>
          flat_map (fun e => if nonempty_b (snd e) then [(bc ++ [fst e], snd e)] else []) (dentries d)
      | Some b =>
          flat_map (fun e => let r := inter_spec b (snd e) in
                             if nonempty_b r then [(bc ++ [fst e], r)] else []) (dentries d)
          ++ (if nonempty_b b then [(bc ++ [margin], b)] else [])
      end
    | _ :: _ =>                                       (* ccubes.py:81-97 *)
      match base with
      | None =>
          flat_map (fun e => walk_aux rest (bc ++ [fst e]) (Some (snd e))) (dentries d)
      | Some b =>
          flat_map (fun e => let r := inter_spec b (snd e) in
                             if nonempty_b r then walk_aux rest (bc ++ [fst e]) (Some r) else []) (dentries d)
      end
      ++ walk_aux rest (bc ++ [margin]) base
    end
  end.

(* ccube.walk / ccube.interactions *)
Definition walk (dims : list dim) : list emission := walk_aux dims [] None.
