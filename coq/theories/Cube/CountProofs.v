(* Proofs for C02: the count cube equals the brute-force contingency table.
     C02 main:   count_cube_spec, count_missing_iff, cell_rows_spec       (through FillInv.cube_region_spec_Z)
     formats:    formats_agree, count_report_*                              (the three report formats)
     inference:  infer_extent_spec, infer_shape_covers                      (ccubes.py:56-59)
     reflection: covers_b_sound, in_shape_b_iff
     staging:    lookup_tabulate, count_table_spec, count_lookup_spec       (what the checker evaluates = the model) *)
From Coq Require Import ZArith List Bool Lia Arith.
From Catii Require Import Base.Cases Base.Sorted Base.SortedFacts Cube.Dim Cube.Walk Cube.WalkSpec Cube.WalkProofs
     Cube.Diff Cube.Region Cube.FillInv Cube.Count Cube.CountTable.
Import ListNotations.
Open Scope Z_scope.

(* ---------- reflection ---------- *)
Lemma covers_b_sound shape : forall dims, covers_b shape dims = true -> covers shape dims.
Proof.
  induction shape as [|e shape IH]; intros [|d dims] H; cbn [covers_b] in H; try discriminate; [constructor|].
  rewrite !andb_true_iff in H. destruct H as [[[H1 H2] H3] H4]. constructor; [|now apply IH].
  rewrite forallb_forall in H1. split; [|lia]. intros v Hv. specialize (H1 v Hv). lia.
Qed.

Lemma in_shape_b_iff shape : forall cell, in_shape_b shape cell = true <-> in_shape shape cell.
Proof.
  induction shape as [|e shape IH]; intros [|c cell]; cbn [in_shape_b]; split; intros H;
    try discriminate; try (inversion H; fail); try constructor.
  - rewrite !andb_true_iff in H. lia.
  - rewrite !andb_true_iff in H. apply IH. tauto.
  - inversion H; subst. rewrite !andb_true_iff. split; [lia|]. now apply IH.
Qed.

(* ---------- the specification side ---------- *)
Lemma sincr_cell_rows N dims cell : sincr (cell_rows N dims cell).
Proof. unfold cell_rows. apply sincr_filter, sincr_rowrange. Qed.

(* the rows counted for a cell: exactly the rows below N whose category on EVERY dimension is the
   coordinate of the cell, each once (strictly increasing) *)
Theorem cell_rows_spec N dims cell : length cell = length dims ->
  sincr (cell_rows N dims cell) /\
  forall r, In r (cell_rows N dims cell) <->
            0 <= r < N /\ forall d, (d < length dims)%nat -> dim_dense (nth d dims dim0) r = nth d cell 0.
Proof.
  intros L. split; [apply sincr_cell_rows|]. intros r. unfold cell_rows.
  rewrite filter_In, In_rowrange, row_in_cell_iff. tauto.
Qed.

Lemma vsum_ones rows : vsum Z Z.add 0 (map (fun _ : Z => 1) rows) = len_rows rows.
Proof.
  unfold len_rows. induction rows as [|r rows IH]; [reflexivity|].
  cbn [map vsum length]. rewrite IH. lia.
Qed.

(* ---------- C02 ---------- *)
Theorem count_diffed_spec N dims shape : 0 <= N -> Forall (dim_wf N) dims -> covers shape dims ->
  forall cell, in_shape shape cell -> count_diffed N dims shape cell = len_rows (cell_rows N dims cell).
Proof.
  intros HN W C cell HI. unfold count_diffed, count_filled, fill_count.
  rewrite (cube_region_spec_Z N dims shape (fun _ => 1) len_rows N W C); [apply vsum_ones| | |exact HI].
  - intros rows. symmetry. apply vsum_ones.
  - rewrite vsum_ones. unfold len_rows. rewrite rowrange_length. lia.
Qed.

Theorem count_cube_spec N dims shape : 0 <= N -> Forall (dim_wf N) dims -> covers shape dims ->
  forall cell, in_shape shape cell ->
    count_cube N dims shape cell =
      (len_rows (cell_rows N dims cell), Z.eqb (len_rows (cell_rows N dims cell)) 0).
Proof.
  intros HN W C cell HI. unfold count_cube, reduce_count. now rewrite count_diffed_spec.
Qed.

Theorem count_missing_iff N dims shape : 0 <= N -> Forall (dim_wf N) dims -> covers shape dims ->
  forall cell, in_shape shape cell ->
    (snd (count_cube N dims shape cell) = true <-> cell_rows N dims cell = []).
Proof.
  intros HN W C cell HI. rewrite count_cube_spec by assumption. cbn [snd]. rewrite Z.eqb_eq. unfold len_rows.
  destruct (cell_rows N dims cell); cbn [length]; split; intros H; try reflexivity; try discriminate; lia.
Qed.

(* ---------- the three report formats ---------- *)
Theorem formats_agree (null : Z) (vm : Z * bool) :
  (report_nan vm = None <-> snd vm = true) /\
  (snd (report_pair null vm) = false <-> snd vm = true) /\
  (snd vm = true -> fst (report_pair null vm) = null /\ report_plain null vm = null) /\
  (snd vm = false -> report_nan vm = Some (fst vm) /\ fst (report_pair null vm) = fst vm /\ report_plain null vm = fst vm).
Proof.
  destruct vm as [v [|]]; unfold report_nan, report_pair, report_plain; cbn [fst snd negb];
  repeat split; intros; congruence.
Qed.

Theorem count_reports N dims shape (null : Z) : 0 <= N -> Forall (dim_wf N) dims -> covers shape dims ->
  forall cell, in_shape shape cell ->
    let n := len_rows (cell_rows N dims cell) in
    let vm := count_cube N dims shape cell in
    report_nan vm = (if Z.eqb n 0 then None else Some n) /\
    report_pair null vm = (if Z.eqb n 0 then (null, false) else (n, true)) /\
    report_plain null vm = (if Z.eqb n 0 then null else n).
Proof.
  intros HN W C cell HI n vm. unfold vm. rewrite count_cube_spec by assumption. fold n.
  unfold report_nan, report_pair, report_plain. cbn [fst snd]. destruct (Z.eqb n 0); auto.
Qed.

(* ---------- shape inference ---------- *)
Lemma fold_max_spec l : forall acc,
  let m := fold_left Z.max l acc in (m = acc \/ In m l) /\ acc <= m /\ forall x, In x l -> x <= m.
Proof.
  induction l as [|y l IH]; intros acc; cbn [fold_left].
  - split; [now left|]. split; [lia|]. intros x [].
  - specialize (IH (Z.max acc y)). cbv zeta in IH. destruct IH as [H1 [H2 H3]]. split; [|split].
    + destruct H1 as [H1|H1]; [|right; now right].
      destruct (Z.max_spec acc y) as [[_ E]|[_ E]]; rewrite E in H1; [right; left; congruence|left; congruence].
    + lia.
    + intros x [<-|Hx]; [lia|auto].
Qed.

Lemma py_max_spec l : l <> [] -> In (py_max l) l /\ forall x, In x l -> x <= py_max l.
Proof.
  destruct l as [|x l]; [congruence|]. intros _. unfold py_max.
  pose proof (fold_max_spec l x) as H. cbv zeta in H. destruct H as [H1 [H2 H3]]. split.
  - destruct H1 as [->|H1]; [now left|now right].
  - intros y [<-|Hy]; auto.
Qed.

(* inferred extent = 1 + the largest of the listed values and the common *)
Theorem infer_extent_spec keys common :
  let e := infer_extent_keys keys common in
  (In (e - 1) keys \/ e - 1 = common) /\ (forall v, In v keys -> v < e) /\ common < e.
Proof.
  cbv zeta. unfold infer_extent_keys.
  destruct (py_max_spec (keys ++ [common])) as [H1 H2]; [destruct keys; discriminate|].
  replace (py_max (keys ++ [common]) + 1 - 1) with (py_max (keys ++ [common])) by lia.
  split; [|split].
  - apply in_app_or in H1. destruct H1 as [H1|[H1|[]]]; [now left|right; auto].
  - intros v Hv. specialize (H2 v (in_or_app _ _ _ (or_introl Hv))). lia.
  - assert (Hc : In common (keys ++ [common])) by (apply in_or_app; right; now left). specialize (H2 common Hc). lia.
Qed.

Theorem infer_shape_spec dims :
  Forall2 (fun e d => (In (e - 1) (dkeys d) \/ e - 1 = dcommon d) /\ (forall v, In v (dkeys d) -> v < e) /\ dcommon d < e)
          (infer_shape dims) dims.
Proof.
  unfold infer_shape. induction dims as [|d dims IH]; cbn [map]; constructor; [|exact IH].
  exact (infer_extent_spec (dkeys d) (dcommon d)).
Qed.

(* the inferred shape covers the cube whenever the category values are non-negative *)
Theorem infer_shape_covers dims :
  Forall (fun d => (forall v, In v (dkeys d) -> 0 <= v) /\ 0 <= dcommon d) dims -> covers (infer_shape dims) dims.
Proof.
  intros H. unfold covers, infer_shape. induction H as [|d dims [H1 H2] H IH]; cbn [map]; constructor; [|exact IH].
  destruct (infer_extent_spec (dkeys d) (dcommon d)) as [_ [A B]]. fold (infer_extent d) in A, B.
  split; [|lia]. intros v Hv. specialize (A v Hv). specialize (H1 v Hv). lia.
Qed.

(* ---------- staging through tables ---------- *)
Lemma nth_error_rowrange w k : 0 <= k < w -> nth_error (rowrange w) (Z.to_nat k) = Some k.
Proof.
  intros H. rewrite (nth_error_nth' _ 0) by (rewrite rowrange_length; lia).
  f_equal. unfold rowrange. rewrite nth_map_seq by lia. lia.
Qed.

Lemma lookup_tabulate {V} (dflt : V) ws : forall (R : list Z -> V) c,
  Forall2 (fun w x => 0 <= x < w) ws c -> tlookup V dflt c (tabulate V ws R) = R c.
Proof.
  induction ws as [|w ws IH]; intros R c H; inversion H as [|? k ? c' Hk H']; subst; cbn [tabulate tlookup]; [reflexivity|].
  rewrite (map_nth_error _ _ _ (nth_error_rowrange w k Hk)). now rewrite IH.
Qed.

Lemma in_wbox_wbox shape c : in_wbox shape c -> Forall2 (fun w x => 0 <= x < w) (wbox shape) c.
Proof. intros H. unfold wbox. induction H; cbn [map]; constructor; [lia|assumption]. Qed.

Lemma in_shape_in_wbox shape c : in_shape shape c -> in_wbox shape c.
Proof. intros H. induction H; constructor; [lia|assumption]. Qed.

Lemma in_wbox_nth shape c : in_wbox shape c -> forall a, (a < length shape)%nat -> 0 <= nth a c 0 <= nth a shape 0.
Proof.
  intros H. induction H as [|e x shape c H0 H IH]; intros a Ha; cbn [length] in Ha; [lia|].
  destruct a as [|a]; cbn [nth]; [exact H0|apply IH; lia].
Qed.

Lemma set_nth_in_wbox shape c : in_wbox shape c -> forall a v,
  ((a < length shape)%nat -> 0 <= v <= nth a shape 0) -> in_wbox shape (set_nth a c v).
Proof.
  intros H. induction H as [|e x shape c H0 H IH]; intros a v Hv.
  - destruct a; constructor.
  - destruct a as [|a]; cbn [set_nth].
    + constructor; [apply Hv; cbn [length]; lia|exact H].
    + constructor; [exact H0|]. apply IH. intros Ha. apply (Hv ltac:(cbn [length]; lia)).
Qed.

Section StagedProofs.
Variable V : Type.
Variable vadd vsub : V -> V -> V.
Variable vzero : V.
Variable shape coms : list Z.

Lemma adiff_axis_agree a (R1 R2 : aregion V) :
  (forall c, in_wbox shape c -> R1 c = R2 c) ->
  forall c, in_wbox shape c ->
    adiff_axis V vadd vsub vzero shape coms a R1 c = adiff_axis V vadd vsub vzero shape coms a R2 c.
Proof.
  intros H c Hc. unfold adiff_axis.
  destruct (nth a c 0 =? norm_coord (nth a shape 0) (nth a coms 0)); [|now apply H].
  f_equal.
  - apply H. apply set_nth_in_wbox; [exact Hc|]. intros Ha. pose proof (in_wbox_nth _ _ Hc a Ha). lia.
  - f_equal. apply map_ext_in. intros k Hk. apply In_rowrange in Hk. apply H.
    apply set_nth_in_wbox; [exact Hc|]. intros _. lia.
Qed.

Lemma adiff_all_tab_spec k : forall (R : aregion V) t0,
  (forall c, in_wbox shape c -> tlookup V vzero c t0 = R c) ->
  forall c, in_wbox shape c ->
    tlookup V vzero c (adiff_all_tab V vadd vsub vzero shape coms k t0) = adiff_all V vadd vsub vzero shape coms k R c.
Proof.
  induction k as [|k IH]; intros R t0 H0 c Hc; cbn [adiff_all_tab adiff_all]; [now apply H0|].
  rewrite lookup_tabulate by now apply in_wbox_wbox.
  apply adiff_axis_agree; [|exact Hc]. intros c' Hc'. unfold tfun. now apply IH.
Qed.

(* a table of the differenced region holds the differenced region, everywhere in the working box *)
Theorem region_table_spec k (R : aregion V) c : in_wbox shape c ->
  tlookup V vzero c (region_table V vadd vsub vzero shape coms k R) = adiff_all V vadd vsub vzero shape coms k R c.
Proof.
  intros Hc. unfold region_table. apply adiff_all_tab_spec; [|exact Hc].
  intros c' Hc'. apply lookup_tabulate. now apply in_wbox_wbox.
Qed.
End StagedProofs.

Theorem count_table_spec N dims shape c : in_wbox shape c ->
  tlookup Z 0 c (count_table N dims shape) = count_diffed N dims shape c.
Proof. intros H. unfold count_table, count_diffed. now apply region_table_spec. Qed.

(* what the checker evaluates is the value of the model cube *)
Theorem count_lookup_spec N dims shape cell : count_lookup_ok N dims shape = true -> in_shape shape cell ->
  count_lookup N dims shape cell = fst (count_cube N dims shape cell).
Proof.
  intros OK HI. unfold count_lookup, count_lookup_ok in *. unfold count_cube, reduce_count. cbn [fst].
  destruct (box_size shape <=? TABLE_LIMIT).
  - cbv zeta. apply count_table_spec. now apply in_shape_in_wbox.
  - cbn [orb] in OK. rewrite !andb_true_iff in OK. destruct OK as [[H1 H2] H3].
    symmetry. apply count_diffed_spec; [lia|now apply forall_dim_wf_b_sound|now apply covers_b_sound|exact HI].
Qed.

Print Assumptions count_cube_spec.
Print Assumptions count_lookup_spec.
