(* Executable checkers for the correspondence cases of C14 and C02 (no proofs).
   The harness writes the real dimensions and the implementation's observed behaviour as literals;
   these functions compare them with the model (and with the specification) inside Coq. *)
From Coq Require Import ZArith List Bool.
From Catii Require Import Base.Cases Base.Sorted Cube.Dim Cube.Walk Cube.WalkSpec Cube.Diff Cube.Region Cube.Count Cube.CountTable.
Import ListNotations.
Open Scope Z_scope.

Definition dimlit := (list (Z * list Z) * Z)%type.           (* (entries in dict order, common) *)
Definition mkdim (l : dimlit) : dim := {| dentries := fst l; dcommon := snd l |}.
Definition mkdims (l : list dimlit) : list dim := map mkdim l.

Definition em_eqb (a b : emission) : bool := zlist_eqb (fst a) (fst b) && zlist_eqb (snd a) (snd b).
Fixpoint count_em (x : emission) (l : list emission) : nat :=
  match l with [] => O | y :: l' => (if em_eqb x y then 1 else 0) + count_em x l' end.
(* multiset equality *)
Definition ms_eqb (a b : list emission) : bool :=
  Nat.eqb (length a) (length b) && forallb (fun x => Nat.eqb (count_em x a) (count_em x b)) a.

(* ---- C14 ---- *)
Definition c14_case := (Z * list dimlit * list emission)%type.       (* N, dims, observed callbacks in call order *)
Definition c14_wf (c : c14_case) : bool :=
  let '(N, dl, _) := c in forallb (dim_wf_b N) (mkdims dl) && forallb no_margin_key_b (mkdims dl).
(* model = implementation as multisets; model = specification as lists *)
Definition c14_check (c : c14_case) : bool :=
  let '(N, dl, obs) := c in
  let dims := mkdims dl in
  c14_wf c && ms_eqb (walk dims) obs && list_eqb em_eqb (walk dims) (walk_spec_list N dims).
Definition c14_order_agrees (c : c14_case) : bool :=
  let '(N, dl, obs) := c in list_eqb em_eqb (walk (mkdims dl)) obs.
Definition c14_explain (c : c14_case) :=
  let '(N, dl, obs) := c in (c14_wf c, walk (mkdims dl), obs, walk_spec_list N (mkdims dl)).

(* ---- C02 ---- *)
(* observed cell: coordinates, value (None = NaN), validity flag (true when the format has none) *)
Definition obs_cell := (list Z * option Z * bool)%type.
(* Dense blocks are written compactly (big literals dominate the cost of a shard): one code per cell in row-major
   order of the shape, code = 4 * value + (0 valid value | 1 valid NaN | 2 invalid value | 3 invalid NaN). *)
Fixpoint box_cells (shape : list Z) : list (list Z) :=
  match shape with
  | [] => [[]]
  | e :: s => flat_map (fun k => map (cons k) (box_cells s)) (rowrange e)
  end.
Definition decode_cell (code : Z) : option Z * bool :=
  let k := code mod 4 in ((if (k =? 1) || (k =? 3) then None else Some (code / 4)), k <? 2).
Definition dense_cells (shape codes : list Z) : list obs_cell :=
  match codes with [] => [] | _ =>          (* no codes: do not enumerate the (possibly huge) box *)
  map (fun cc : list Z * Z => (fst cc, fst (decode_cell (snd cc)), snd (decode_cell (snd cc)))) (combine (box_cells shape) codes)
  end.
Definition codes_ok (shape codes : list Z) : bool :=
  match codes with [] => true | _ => Nat.eqb (length codes) (length (box_cells shape)) end.
(* N, (sliced) dims, interacting shape used by the cube, Some (first coordinates of ALL keys of each unsliced
   dimension in dict order, common) when the shape was inferred, (format, null), explicitly listed cells, row-major
   codes of ALL cells (or [] when the cells are listed explicitly), IndexError raised
   format 0 = NaN, 1 = (null, False) pair, 2 = plain null *)
Definition c02_case := (Z * list dimlit * list Z * option (list (list Z * Z)) * (Z * Z) * list obs_cell * list Z * bool)%type.
Definition c02_cells (shape : list Z) (cells : list obs_cell) (codes : list Z) : list obs_cell :=
  cells ++ dense_cells shape codes.

Definition cell_expect (fmt null : Z) (vm : Z * bool) : option Z * bool :=
  if Z.eqb fmt 0 then (report_nan vm, true)
  else if Z.eqb fmt 1 then (Some (fst (report_pair null vm)), snd (report_pair null vm))
  else (Some (report_plain null vm), true).

(* The model cube is evaluated ONCE per case ([count_lookup]: a table staged through every differencing step, or,
   for boxes beyond TABLE_LIMIT cells - an axis at the 255 .. 65537 boundaries - the right-hand side of theorem
   C02_count, then demanding the theorem's hypotheses dim_wf_b / covers_b).  CountProofs.count_lookup_spec:
   count_lookup_ok = true -> in_shape -> count_lookup N dims shape cell = fst (count_cube N dims shape cell). *)
Definition c02_check (c : c02_case) : bool :=
  let '(N, dl, shape, inferred, (fmt, null), cells0, codes, raised) := c in
  let cells := c02_cells shape cells0 codes in
  let dims := mkdims dl in
  forallb (dim_wf_b N) dims
  && match inferred with
     | Some ks => zlist_eqb (map (fun kc => infer_extent_keys (fst kc) (snd kc)) ks) shape
     | None => true
     end
  && (if raised then negb (cube_ok shape dims)
      else cube_ok shape dims && count_lookup_ok N dims shape && codes_ok shape codes &&
           let R := count_lookup N dims shape in
           forallb (fun oc : obs_cell =>
                      let '(cell, v, valid) := oc in
                      let ex := cell_expect fmt null (reduce_count R cell) in
                      in_shape_b shape cell && option_eqb Z.eqb (fst ex) v && Bool.eqb (snd ex) valid) cells).

(* the specification side on the same cells (only meaningful when covers_b holds) *)
Definition c02_spec_check (c : c02_case) : bool :=
  let '(N, dl, shape, inferred, (fmt, null), cells0, codes, raised) := c in
  let cells := c02_cells shape cells0 codes in
  let dims := mkdims dl in
  if covers_b shape dims && negb raised then
    forallb (fun oc : obs_cell =>
               let '(cell, v, valid) := oc in
               let n := len_rows (cell_rows N dims cell) in
               let ex := cell_expect fmt null (n, Z.eqb n 0) in
               option_eqb Z.eqb (fst ex) v && Bool.eqb (snd ex) valid) cells
  else negb (covers_b shape dims && raised).

Definition c02_explain (c : c02_case) :=
  let '(N, dl, shape, inferred, (fmt, null), cells0, codes, raised) := c in
  let cells := c02_cells shape cells0 codes in
  let dims := mkdims dl in
  (forallb (dim_wf_b N) dims, infer_shape dims, cube_ok shape dims, covers_b shape dims,
   count_lookup_ok N dims shape,
   let R := count_lookup N dims shape in
   map (fun oc : obs_cell => let '(cell, v, valid) := oc in (cell, reduce_count R cell, v, valid)) cells).
