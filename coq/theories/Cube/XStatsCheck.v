(* C18 - executable checkers for the correspondence: the harness writes, per case, the input and the
   two reports (NaN format, (values, validity) format) of the real xcube call as literals;
   [check_case] recomputes both from the model of Cube/XStats.v.  No proofs here. *)
From Coq Require Import ZArith QArith Qcanon Qabs List Bool.
From Catii Require Import Cube.XStats.
Import ListNotations.
Open Scope Z_scope.

(* one reported cell: missing | valid with a finite value | reported valid with a non-finite value *)
Inductive ocell := OMiss | OVal (q : Q) | OBad.

Definition qF (o : option Q) : F := option_map Q2Qc o.
Definition close (tol a b : Q) : bool := Qle_bool (Qabs (a - b)) (tol * (1 + Qabs b)).

(* a model cell in either format is (value, valid?) *)
Definition cmp (tol : Q) (m : F * bool) (o : ocell) : bool :=
  match m, o with
  | (_, false), OMiss => true
  | (Some v, true), OVal q => close tol q (this v)
  | _, _ => false
  end.
(* NaN format of a (value, mask) cell: a NaN value also reads as missing *)
Definition as_nan (vm : F * bool) : F * bool := let v := nan_format vm in (v, is_some v).
Definition as_pair (vm : F * bool) : F * bool := (fst vm, negb (snd vm)).

Fixpoint zip3 {A B C} (a : list A) (b : list B) (c : list C) : list (A * B * C) :=
  match a, b, c with x :: a', y :: b', z :: c' => (x, y, z) :: zip3 a' b' c' | _, _, _ => [] end.

Definition wlist (cats : list (list Z)) (wts : option (list (option Q))) : list (option Q) :=
  match wts with Some w => w | None => map (fun _ => None) cats end.

Definition mk_srows (exts : list Z) (cats : list (list Z)) (col : list (option Q)) (wts : option (list (option Q))) : list srow :=
  map (fun t => let '(c, x, w) := t in mk_srow (coordinate exts c) (qF x) (qF w)) (zip3 cats col (wlist cats wts)).

Fixpoint transpose_rows (n : nat) (cols : list (list (option Q))) : list (list (option Q)) :=
  (* per-row list of the entries of each column *)
  match n with
  | O => []
  | S n' => map (fun c => hd None c) cols :: transpose_rows n' (map (fun c => tl c) cols)
  end.
Definition mk_mrows (exts : list Z) (cats : list (list Z)) (cols : list (list (option Q))) (wts : option (list (option Q))) : list mrow :=
  map (fun t => let '(c, xs, w) := t in mk_mrow (coordinate exts c) (map qF xs) (qF w))
      (zip3 cats (transpose_rows (length cats) cols) (wlist cats wts)).

Definition case_t : Type :=
  (Z * list Z * list (list Z) * list (list (option Q)) * option (list (option Q)) * bool * Q * Q * list ocell * list ocell * list (list (list nat)))%type.

(* per column list over cells of (value, mask) *)
Definition model_cols (c : case_t) : list (list (F * bool)) :=
  let '(kind, exts, cats, cols, wts, ign, p, tol, outN, outP, perms) := c in
  let weighted := is_some wts in
  let size := prodZ exts in
  map (fun colp =>
         let col := fst colp in
         let rows := mk_srows exts cats col wts in
         if kind =? 1 then stddev weighted ign size rows
         else if kind =? 2 then
           map of_nan (if weighted then wquantile weighted ign (Q2Qc p) size (snd colp) rows
                       else quantile weighted ign (Q2Qc p) size rows)
         else if kind =? 3 then map of_nan (minmax ign false size rows)
         else map of_nan (minmax ign true size rows))
      (combine cols (if (kind =? 2) && weighted then perms else map (fun _ => []) cols)).

(* the recorded argsort results are sorting permutations of the cells' segments *)
Definition perms_ok (c : case_t) : bool :=
  let '(kind, exts, cats, cols, wts, ign, p, tol, outN, outP, perms) := c in
  if (kind =? 2) && is_some wts then
    Nat.eqb (length perms) (length cols) &&
    forallb (fun colp => wq_perms_ok true (prodZ exts) (snd colp) (mk_srows exts cats (fst colp) wts)) (combine cols perms)
  else true.

Definition check_cols (c : case_t) : bool :=
  let '(kind, exts, cats, cols, wts, ign, p, tol, outN, outP, perms) := c in
  let m := model_cols c in
  let K := length cols in
  let ncell := Z.to_nat (prodZ exts) in
  perms_ok c && Nat.eqb (length outN) (ncell * K) && Nat.eqb (length outP) (ncell * K) &&
  forallb (fun k =>
    let mk := nth k m [] in
    Nat.eqb (length mk) ncell &&
    forallb (fun u =>
      let vm := nth u mk (None, true) in
      cmp tol (as_nan vm) (nth (u * K + k) outN OBad) &&
      cmp tol (as_pair vm) (nth (u * K + k) outP OBad)) (seq 0 ncell)) (seq 0 K).

Fixpoint forallb2 {A B} (f : A -> B -> bool) (a : list A) (b : list B) : bool :=
  match a, b with
  | [], [] => true
  | x :: a', y :: b' => f x y && forallb2 f a' b'
  | _, _ => false
  end.

Definition cmp_corr (tol : Q) (m : option (Qc * Qc * Qc)) (o : ocell) : bool :=
  match m, o with
  | None, OMiss => true
  | Some (cij, cii, cjj), OVal q =>
      close (4 * tol) (q * q * (this cii * this cjj)) (this cij * this cij) && Qle_bool 0 (q * this cij)
  | _, _ => false
  end.

Definition check_matrix (c : case_t) : bool :=
  let '(kind, exts, cats, cols, wts, ign, p, tol, outN, outP, perms) := c in
  let weighted := is_some wts in
  let size := prodZ exts in
  let rows := mk_mrows exts cats cols wts in
  let K := length cols in
  if kind =? 5 then
    let m := concat (covariance weighted ign K size rows) in
    forallb2 (fun v o => cmp tol (as_nan (of_nan v)) o) m outN &&
    forallb2 (fun v o => cmp tol (as_pair (of_nan v)) o) m outP
  else
    let m := concat (corrcoef weighted ign K size rows) in
    forallb2 (cmp_corr tol) m outN && forallb2 (cmp_corr tol) m outP.

Definition check_case (c : case_t) : bool :=
  let '(kind, exts, cats, cols, wts, ign, p, tol, outN, outP, perms) := c in
  if kind <=? 4 then check_cols c else check_matrix c.

(* what the model computes, for the replay file *)
Definition show_F (v : F) : option Q := option_map this v.
Definition explain_case (c : case_t) :=
  let '(kind, exts, cats, cols, wts, ign, p, tol, outN, outP, perms) := c in
  if kind <=? 4 then
    (map (map (fun vm : F * bool => (show_F (fst vm), snd vm))) (model_cols c), @nil (option Q))
  else if kind =? 5 then
    ([], map show_F (concat (covariance (is_some wts) ign (length cols) (prodZ exts) (mk_mrows exts cats cols wts))))
  else
    ([], map (fun t => match t with Some (a, b, d) => Some (this a * this a / (this b * this d))%Q | None => None end)
             (concat (corrcoef (is_some wts) ign (length cols) (prodZ exts) (mk_mrows exts cats cols wts)))).
