(* C18 - per-cell kernels: each array-cube statistic as a function of the rows of ONE cell (the
   rows whose coordinate is the cell, in row order).  Definitions only; Cube/XStatsGroup.v proves
   that the array code (Cube/XStats.v: bincount over all rows, re-binned deviations, masks per cell)
   computes exactly [per_cell rc kernel]. *)
From Coq Require Import ZArith QArith Qcanon List Bool.
From Catii Require Import Cube.XStats.
Import ListNotations.
Open Scope Z_scope.

Section Cell.
Variable weighted : bool.
Variable ign : bool.

Definition stddev_cell (seg : list srow) : F * bool :=
  let S := if ign then filter (svalid weighted) seg else seg in
  let wmean := fdiv (fsum (map (wsumm weighted) S)) (fsum (map (countable weighted) S)) in
  let dev (r : srow) : F :=
    let d := fsub (summ weighted r) wmean in
    let s := fmul d d in
    if weighted then fmul s (rw r) else s in
  let vs := fsum (map dev S) in
  let N := lenZ S in
  let var := if weighted
             then fmul (fdiv vs (fsum (map rw S))) (fdiv (fZ N) (fZ (N - 1)))
             else fdiv vs (fZ (N - 1)) in
  (var, if ign then N <? 2
        else (N <? 2) || negb (countb (fun r => negb (svalid weighted r)) seg =? 0)).

Definition minmax_seg (mx : bool) (seg : list srow) : F :=
  if ign then op_list mx (somes (map rx (filter ovalid seg)))
  else match seg with
       | [] => None
       | _ => if forallb ovalid seg then op_list mx (somes (map rx seg)) else None
       end.

Definition cov_seg (i j : nat) (seg0 : list mrow) : F :=
  let seg := mused weighted ign seg0 in
  if 1 <? lenZ seg then npcov weighted seg i j else None.

Definition corr_seg (i j : nat) (seg0 : list mrow) : option (Qc * Qc * Qc) :=
  let seg := mused weighted ign seg0 in
  match seg with
  | [] => None
  | _ => match npcov weighted seg i j, npcov weighted seg i i, npcov weighted seg j j with
         | Some cij, Some cii, Some cjj =>
             if qc_is0 (cii * cjj)%Qc then None else Some (cij, cii, cjj)
         | _, _, _ => None
         end
  end.
End Cell.
