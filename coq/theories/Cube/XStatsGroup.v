(* C18 - group_spec: the array code's whole-array computations (bincount over all rows, deviations
   re-binned through wmeans[coords], per-cell row masks) compute, for every cell u, a kernel applied
   to exactly the rows whose coordinate is u, in row order; and the coordinate of a category tuple
   (value . stride) identifies the tuple, so "the rows with coordinate u" are "the rows whose
   category tuple is the cell". *)
From Coq Require Import ZArith QArith Qcanon List Bool Lia ZifyBool.
From Catii Require Import Cube.XStats Cube.XStatsSpec Cube.XStatsCell Cube.XStatsBase.
Import ListNotations.
Open Scope Z_scope.

(* ------------------------------------------------------------------ bincount = per-cell sums *)
Lemma nthF_bincountF size rows f u :
  0 <= u < size -> nthF (bincountF size rows f) u = fsum (map f (cell_s u rows)).
Proof. intro H. unfold nthF, bincountF. exact (nth_map_cells (fun u => fsum (map f (cell_s u rows))) size u None H). Qed.
Lemma nth_bincountN size rows f u :
  0 <= u < size -> nth (Z.to_nat u) (bincountN size rows f) 0 = countb f (cell_s u rows).
Proof. intro H. unfold bincountN. exact (nth_map_cells (fun u => countb f (cell_s u rows)) size u 0 H). Qed.
Lemma nthF_wmeans size rows f g u :
  0 <= u < size ->
  nthF (map (fun ab => fdiv (fst ab) (snd ab)) (combine (bincountF size rows f) (bincountF size rows g))) u
  = fdiv (fsum (map f (cell_s u rows))) (fsum (map g (cell_s u rows))).
Proof.
  intro H. unfold nthF, bincountF. rewrite combine_map_same, map_map. cbn [fst snd].
  rewrite nth_map_cells by exact H. reflexivity.
Qed.

Lemma countb_true {A} (l : list A) : countb (fun _ => true) l = lenZ l.
Proof. unfold countb. rewrite filter_true. reflexivity. Qed.

(* ------------------------------------------------------------------ stddev *)
Lemma stddev_cell_of weighted ign size rows u :
  0 <= u < size ->
  stddev_reduce ign
    (let used := if ign then filter (svalid weighted) rows else rows in
     let wsums := bincountF size used (wsumm weighted) in
     let wcounts := bincountF size used (countable weighted) in
     let wmeans := map (fun ab => fdiv (fst ab) (snd ab)) (combine wsums wcounts) in
     let varsums := bincountF size used (sqdev weighted wmeans) in
     let Ns := bincountN size used (fun _ => true) in
     let weightsums := bincountF size used rw in
     let missing := bincountN size rows (fun r => negb (svalid weighted r)) in
     let N := nth (Z.to_nat u) Ns 0 in
     let vs := nthF varsums u in
     let var := if weighted
                then fmul (fdiv vs (nthF weightsums u)) (fdiv (fZ N) (fZ (N - 1)))
                else fdiv vs (fZ (N - 1)) in
     (var, N, nth (Z.to_nat u) missing 0))
  = stddev_cell weighted ign (cell_s u rows).
Proof.
  intro H. cbv zeta.
  set (used := if ign then filter (svalid weighted) rows else rows).
  assert (EU : cell_s u used = if ign then filter (svalid weighted) (cell_s u rows) else cell_s u rows).
  { unfold used. destruct ign; [ apply cell_s_filter | reflexivity ]. }
  rewrite !nthF_bincountF, !nth_bincountN by exact H.
  rewrite !countb_true.
  assert (EV : map (sqdev weighted
                      (map (fun ab => fdiv (fst ab) (snd ab))
                           (combine (bincountF size used (wsumm weighted)) (bincountF size used (countable weighted)))))
                   (cell_s u used)
               = map (fun r =>
                        let d := fsub (summ weighted r)
                                      (fdiv (fsum (map (wsumm weighted) (cell_s u used)))
                                            (fsum (map (countable weighted) (cell_s u used)))) in
                        let s := fmul d d in
                        if weighted then fmul s (rw r) else s) (cell_s u used)).
  { apply map_ext_in. intros r Hr. unfold sqdev. rewrite (cell_s_rc _ _ _ Hr).
    rewrite nthF_wmeans by exact H. reflexivity. }
  rewrite EV. unfold stddev_reduce, stddev_cell. rewrite <- EU. reflexivity.
Qed.

Theorem stddev_group weighted ign size rows :
  stddev weighted ign size rows = per_cell rc (stddev_cell weighted ign) size rows.
Proof.
  unfold stddev, stddev_regions, per_cell. rewrite map_map.
  apply map_cells_ext. intros u H. apply (stddev_cell_of weighted ign size rows u H).
Qed.

(* ------------------------------------------------------------------ quantile *)
Theorem quantile_group weighted ign p size rows :
  quantile weighted ign p size rows = per_cell rc (quantile_cell weighted ign p) size rows.
Proof. reflexivity. Qed.

Lemma nth_combine_cells {B} (size : Z) (l : list B) (u : Z) (d : B) :
  length l = Z.to_nat size -> 0 <= u < size ->
  nth (Z.to_nat u) (combine (cells size) l) (0, d) = (u, nth (Z.to_nat u) l d).
Proof.
  intros HL H. rewrite combine_nth by (rewrite cells_length; symmetry; exact HL).
  f_equal. rewrite <- (map_id (cells size)). apply nth_map_cells. exact H.
Qed.

(* the recorded argsort results, one per cell *)
Theorem wquantile_group weighted ign p size perms rows u d :
  length perms = Z.to_nat size -> 0 <= u < size ->
  nth (Z.to_nat u) (wquantile weighted ign p size perms rows) d
  = wquantile_cell weighted ign p (nth (Z.to_nat u) perms []) (cell_s u rows).
Proof.
  intros HL H. unfold wquantile.
  rewrite (nth_map_in _ _ _ d (0, [])) by (rewrite combine_length, cells_length; lia).
  rewrite nth_combine_cells by assumption. reflexivity.
Qed.

(* ------------------------------------------------------------------ min / max *)
Lemma minmax_cell_seg ign mx u rows : minmax_cell ign mx u rows = minmax_seg ign mx (cell_s u rows).
Proof. unfold minmax_cell, minmax_seg. rewrite cell_s_filter. reflexivity. Qed.
Theorem minmax_group ign mx size rows :
  minmax ign mx size rows = per_cell rc (minmax_seg ign mx) size rows.
Proof. unfold minmax, per_cell. apply map_ext. intro u. apply minmax_cell_seg. Qed.

(* ------------------------------------------------------------------ covariance / correlation *)
Lemma cell_m_mused weighted ign u rows :
  cell_m u (mused weighted ign rows) = mused weighted ign (cell_m u rows).
Proof. unfold mused. destruct ign; [ apply cell_m_filter | reflexivity ]. Qed.
Lemma cov_cell_seg weighted ign u rows i j :
  cov_cell weighted ign u rows i j = cov_seg weighted ign i j (cell_m u rows).
Proof. unfold cov_cell, cov_seg. rewrite cell_m_mused. reflexivity. Qed.
Lemma corr_cell_seg weighted ign u rows i j :
  corr_cell weighted ign u rows i j = corr_seg weighted ign i j (cell_m u rows).
Proof. unfold corr_cell, corr_seg. rewrite cell_m_mused. reflexivity. Qed.

Theorem covariance_group weighted ign ncol size rows :
  covariance weighted ign ncol size rows
  = per_cell mc (fun seg => flat_map (fun i => map (fun j => cov_seg weighted ign i j seg) (seq 0 ncol)) (seq 0 ncol))
             size rows.
Proof.
  unfold covariance, per_cell. apply map_ext. intro u.
  apply flat_map_ext. intro i. apply map_ext. intro j. apply cov_cell_seg.
Qed.
Theorem corrcoef_group weighted ign ncol size rows :
  corrcoef weighted ign ncol size rows
  = per_cell mc (fun seg => flat_map (fun i => map (fun j => corr_seg weighted ign i j seg) (seq 0 ncol)) (seq 0 ncol))
             size rows.
Proof.
  unfold corrcoef, per_cell. apply map_ext. intro u.
  apply flat_map_ext. intro i. apply map_ext. intro j. apply corr_cell_seg.
Qed.
(* entry (i, j) of the flattened matrix *)
Lemma matrix_entry {B} (f : nat -> nat -> B) ncol i j d :
  (i < ncol)%nat -> (j < ncol)%nat ->
  nth (i * ncol + j) (flat_map (fun i => map (fun j => f i j) (seq 0 ncol)) (seq 0 ncol)) d = f i j.
Proof.
  intros Hi Hj.
  assert (G : forall n s, (i < n)%nat ->
            nth (i * ncol + j) (flat_map (fun i => map (fun j => f i j) (seq 0 ncol)) (seq s n)) d = f (s + i)%nat j).
  { clear Hi. induction i as [ | i IH]; intros n s Hn.
    - destruct n; [ lia | ]. cbn [seq flat_map]. rewrite app_nth1 by (rewrite map_length, seq_length; lia).
      rewrite (nth_indep _ d (f s 0%nat)) by (rewrite map_length, seq_length; lia).
      rewrite (map_nth (fun j => f s j)), seq_nth by lia. f_equal; lia.
    - destruct n; [ lia | ]. cbn [seq flat_map]. rewrite app_nth2 by (rewrite map_length, seq_length; lia).
      rewrite map_length, seq_length.
      replace (S i * ncol + j - ncol)%nat with (i * ncol + j)%nat by lia.
      rewrite IH by lia. f_equal; lia. }
  apply (G ncol 0%nat Hi).
Qed.

(* ------------------------------------------------------------------ coordinates identify tuples *)
Lemma prodZ_pos exts : Forall (fun e => 0 < e) exts -> 0 < prodZ exts.
Proof. induction 1 as [ | e es He _ IH]; cbn [prodZ]; lia. Qed.

Lemma within_exts_pos exts cats : within exts cats -> Forall (fun e => 0 < e) exts.
Proof. unfold within. induction 1 as [ | v e cats exts H _ IH]; constructor; [ lia | exact IH ]. Qed.

(* 0 <= value . stride < number of cells *)
Lemma coordinate_range exts cats : within exts cats -> 0 <= coordinate exts cats < prodZ exts.
Proof.
  unfold within, coordinate. induction 1 as [ | v e cats exts H W IH].
  - cbn. lia.
  - cbn [strides dotZ prodZ]. pose proof (prodZ_pos exts (within_exts_pos _ _ W)). nia.
Qed.

Lemma coordinate_inj exts a b :
  within exts a -> within exts b -> coordinate exts a = coordinate exts b -> a = b.
Proof.
  unfold coordinate. intro Wa. revert b. unfold within in *.
  induction Wa as [ | v e a exts H W IH]; intros b Wb E.
  - inversion Wb. reflexivity.
  - inversion Wb as [ | v' e' b' exts' H' W' ]; subst.
    cbn [strides dotZ] in E.
    pose proof (coordinate_range exts a W) as Ra. pose proof (coordinate_range exts b' W') as Rb.
    unfold coordinate in Ra, Rb.
    assert (v = v') by nia. subst v'.
    f_equal. apply IH; [ exact W' | lia ].
Qed.

Lemma tuple_eqb_eq a b : tuple_eqb a b = true <-> a = b.
Proof.
  revert b. induction a as [ | x a IH]; destruct b as [ | y b]; cbn [tuple_eqb]; try (split; [ discriminate | discriminate ]).
  - tauto.
  - rewrite andb_true_iff, Z.eqb_eq, IH. split; [ intros [-> ->]; reflexivity | intro E; inversion E; tauto ].
Qed.

(* selecting by coordinate = selecting by category tuple *)
Lemma filter_coordinate_tuple {A} (cats : A -> list Z) exts c rows :
  Forall (fun r => within exts (cats r)) rows -> within exts c ->
  filter (fun r => Z.eqb (coordinate exts (cats r)) (coordinate exts c)) rows
  = filter (fun r => tuple_eqb (cats r) c) rows.
Proof.
  intros HW Hc. induction HW as [ | r rows Hr _ IH]; [ reflexivity | ].
  cbn [filter]. rewrite IH.
  destruct (tuple_eqb (cats r) c) eqn:E.
  - apply tuple_eqb_eq in E. rewrite E, Z.eqb_refl. reflexivity.
  - destruct (Z.eqb (coordinate exts (cats r)) (coordinate exts c)) eqn:E2; [ | reflexivity ].
    apply Z.eqb_eq in E2. apply coordinate_inj in E2; [ | assumption | assumption ].
    apply tuple_eqb_eq in E2. congruence.
Qed.

(* every flat cell is the coordinate of exactly one in-range category tuple *)
Fixpoint decode (exts : list Z) (u : Z) : list Z :=
  match exts with
  | [] => []
  | _ :: es => u / prodZ es :: decode es (u mod prodZ es)
  end.
Lemma coordinate_surj exts u :
  Forall (fun e => 0 < e) exts -> 0 <= u < prodZ exts ->
  within exts (decode exts u) /\ coordinate exts (decode exts u) = u.
Proof.
  intro HP. revert u. unfold within, coordinate. induction HP as [ | e es He HP IH]; intros u Hu.
  - cbn in *. split; [ constructor | lia ].
  - cbn [prodZ decode strides dotZ] in *. pose proof (prodZ_pos es HP) as P.
    assert (M : 0 <= u mod prodZ es < prodZ es) by (apply Z.mod_pos_bound; exact P).
    destruct (IH (u mod prodZ es) M) as [W E]. split.
    + constructor; [ | exact W ]. split; [ apply Z.div_pos; lia | apply Z.div_lt_upper_bound; nia ].
    + rewrite E. rewrite (Z.div_mod u (prodZ es)) at 3 by lia. lia.
Qed.

(* group_spec: for ANY per-cell kernel K, the output entry of the cell with category tuple c is K
   applied to the rows whose tuple is c, in row order; there are as many entries as cells *)
Theorem group_spec {A R} (cats : A -> list Z) (K : list A -> R) exts rows c d :
  Forall (fun r => within exts (cats r)) rows -> within exts c ->
  nth (Z.to_nat (coordinate exts c)) (per_cell (fun r => coordinate exts (cats r)) K (prodZ exts) rows) d
  = K (filter (fun r => tuple_eqb (cats r) c) rows).
Proof.
  intros HW Hc. rewrite per_cell_nth by (apply coordinate_range; exact Hc).
  rewrite filter_coordinate_tuple by assumption. reflexivity.
Qed.
